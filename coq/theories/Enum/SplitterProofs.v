(** Proofs about the grammar splitter model (Enum/Splitter.v). *)
From Coq Require Import ZArith NArith QArith List Bool Lia Permutation Sorting.Sorted Relations Setoid Morphisms.
From PS Require Import Base.ListX Base.Sexp Base.Ty Base.Value Base.Prog Gram.Det Gram.U Enum.Splitter.
Import ListNotations.
Local Open Scope nat_scope.

(** ** rationals *)
Arguments qr : simpl never.
Lemma qr_eq q : (qr q == q)%Q.
Proof. apply Qred_correct. Qed.

Lemma qltb_lt a b : qltb a b = true <-> (a < b)%Q.
Proof.
  unfold qltb. rewrite negb_true_iff. split; intro H.
  - apply Qnot_le_lt. intro L. apply Qle_bool_iff in L. congruence.
  - destruct (Qle_bool b a) eqn:E; auto. apply Qle_bool_iff in E. exfalso. apply (Qlt_not_le _ _ H E).
Qed.

Lemma qsum_app l1 l2 : (qsum (l1 ++ l2) == qsum l1 + qsum l2)%Q.
Proof. induction l1; simpl. - ring. - rewrite IHl1. ring. Qed.

Lemma qsum_perm l l' : Permutation l l' -> (qsum l == qsum l')%Q.
Proof.
  induction 1; simpl.
  - reflexivity.
  - rewrite IHPermutation. reflexivity.
  - ring.
  - rewrite IHPermutation1. auto.
Qed.

Lemma qsum_map_scale {X} (f : X -> Q) (k : Q) l : (qsum (map (fun x => k * f x) l) == k * qsum (map f l))%Q.
Proof. induction l; simpl. - ring. - rewrite IHl. ring. Qed.

Lemma qsum_map_ext {X} (f g : X -> Q) l : (forall x, In x l -> (f x == g x)%Q) -> (qsum (map f l) == qsum (map g l))%Q.
Proof.
  induction l; simpl; intro H. - reflexivity.
  - rewrite (H a) by auto. rewrite IHl; [reflexivity | intros; apply H; auto].
Qed.

(** ** equalities *)
Lemma unt_eqb_spec (a b : unt) : unt_eqb a b = true <-> a = b.
Proof.
  unfold unt_eqb. rewrite andb_true_iff, ty_eqb_spec, sexp_eqb_spec.
  destruct a, b; simpl; split; [intros [-> ->]; auto | intro H; inversion H; auto].
Qed.
Lemma ualt_eqb_spec (a b : ualt) : ualt_eqb a b = true <-> a = b.
Proof. apply list_eqb_spec. apply unt_eqb_spec. Qed.
Lemma choice_eqb_spec (a b : choice) : choice_eqb a b = true <-> a = b.
Proof.
  unfold choice_eqb. rewrite andb_true_iff, sym_eqb_spec, ualt_eqb_spec.
  destruct a, b; simpl; split; [intros [-> ->]; auto | intro H; inversion H; auto].
Qed.
Lemma choice_eqb_refl a : choice_eqb a a = true.
Proof. apply choice_eqb_spec; auto. Qed.
Lemma unt_eqb_refl a : unt_eqb a a = true.
Proof. apply unt_eqb_spec; auto. Qed.

(** ** Python list operations are permutations *)
Lemma firstn_skipn_mid {X} (l1 : list X) x l2 :
  firstn (length l1) (l1 ++ x :: l2) = l1 /\ skipn (S (length l1)) (l1 ++ x :: l2) = l2.
Proof. induction l1; simpl; auto. destruct IHl1 as [A B]. simpl in *. rewrite A, B. auto. Qed.

Lemma pop_at_split {X} i (l : list X) x l' : pop_at i l = Some (x, l') ->
  exists l1 l2, l = l1 ++ x :: l2 /\ l' = l1 ++ l2 /\ length l1 = i.
Proof.
  unfold pop_at. destruct (nth_error l i) eqn:E; [|discriminate]. intro H.
  apply nth_error_split in E. destruct E as (l1 & l2 & -> & <-).
  destruct (firstn_skipn_mid l1 x0 l2) as [A B]. rewrite A, B in H. inversion H; subst. eauto.
Qed.

Lemma pop_at_perm {X} i (l : list X) x l' : pop_at i l = Some (x, l') -> Permutation l (x :: l').
Proof. intro H. apply pop_at_split in H. destruct H as (l1 & l2 & -> & -> & _). symmetry. apply Permutation_middle. Qed.

Lemma pop_at_nth {X} i (l : list X) x l' : pop_at i l = Some (x, l') -> nth_error l i = Some x.
Proof. unfold pop_at. destruct (nth_error l i); [|discriminate]. intro H; inversion H; auto. Qed.

Lemma pop_at_length {X} i (l : list X) x l' : pop_at i l = Some (x, l') -> length l = S (length l').
Proof. intro H. apply pop_at_perm in H. apply Permutation_length in H. simpl in H. auto. Qed.

Lemma pop_neg_perm {X} i (l : list X) x l' : pop_neg i l = Some (x, l') -> Permutation l (x :: l').
Proof. unfold pop_neg. destruct (_ || _); [discriminate|]. apply pop_at_perm. Qed.

Lemma insert_at_perm {X} i (x : X) l : Permutation (insert_at i x l) (x :: l).
Proof.
  unfold insert_at. rewrite <- (firstn_skipn i l) at 3. symmetry. apply Permutation_middle.
Qed.

Lemma insert_by_perm {X} (key : X -> Q) x l : Permutation (insert_by key x l) (x :: l).
Proof.
  induction l; simpl; auto. destruct (Qle_bool _ _); auto.
  rewrite IHl. apply perm_swap.
Qed.
Lemma sort_by_perm {X} (key : X -> Q) l : Permutation (sort_by key l) l.
Proof. induction l; simpl; auto. rewrite insert_by_perm. auto. Qed.

Lemma set_nth_split {X} i (x : X) l a : nth_error l i = Some a ->
  exists l1 l2, l = l1 ++ a :: l2 /\ set_nth i x l = l1 ++ x :: l2 /\ length l1 = i.
Proof.
  intro E. unfold set_nth. rewrite E. apply nth_error_split in E. destruct E as (l1 & l2 & -> & <-).
  exists l1, l2. destruct (firstn_skipn_mid l1 a l2) as [A B]. rewrite A, B. auto.
Qed.

Lemma set_nth_none {X} i (x : X) l : nth_error l i = None -> set_nth i x l = l.
Proof. intro E. unfold set_nth. rewrite E. reflexivity. Qed.

Lemma set_nth_length {X} i (x : X) l : length (set_nth i x l) = length l.
Proof.
  destruct (nth_error l i) eqn:E.
  - destruct (set_nth_split i x l _ E) as (l1 & l2 & -> & -> & _). rewrite !app_length. reflexivity.
  - unfold set_nth. rewrite E. reflexivity.
Qed.

Lemma combine_seq_nth {X} (l : list X) s i x : In (i, x) (combine (seq s (length l)) l) -> s <= i /\ nth_error l (i - s) = Some x.
Proof.
  revert s. induction l; simpl; intros s H; [contradiction|]. destruct H as [H|H].
  - inversion H; subst. rewrite Nat.sub_diag. simpl. auto.
  - apply IHl in H. destruct H as [L H]. split; [lia|]. replace (i - s) with (S (i - S s)) by lia. simpl. auto.
Qed.
Lemma enumerate_nth {X} (l : list X) i x : In (i, x) (enumerate l) -> nth_error l i = Some x.
Proof. intro H. apply combine_seq_nth in H. destruct H as [_ H]. rewrite Nat.sub_0_r in H. auto. Qed.

Lemma filter_perm {X} (f : X -> bool) l l' : Permutation l l' -> Permutation (filter f l) (filter f l').
Proof.
  induction 1; simpl; auto.
  - destruct (f x); auto.
  - destruct (f x), (f y); auto. apply perm_swap.
  - eapply perm_trans; eauto.
Qed.

Lemma filter_map_comm {X Y} (g : X -> Y) (f : Y -> bool) l : filter f (map g l) = map g (filter (fun x => f (g x)) l).
Proof. induction l; simpl; auto. destruct (f (g a)); simpl; rewrite IHl; auto. Qed.

Lemma count_nodup {X} (eqb : X -> X -> bool) (H : forall a b, eqb a b = true <-> a = b) (c : X) l :
  NoDup l -> In c l -> length (filter (fun c' => eqb c' c) l) = 1.
Proof.
  induction 1 as [|a l N _ IH]; simpl; [contradiction|]. intros [->|I].
  - replace (eqb c c) with true by (symmetry; apply H; auto). simpl. f_equal.
    assert (E : filter (fun c' => eqb c' c) l = []).
    { clear IH. induction l; simpl; auto. destruct (eqb a c) eqn:E.
      - apply H in E. subst. exfalso. apply N. left; auto.
      - apply IHl. intro. apply N. right; auto. }
    rewrite E. reflexivity.
  - destruct (eqb a c) eqn:E.
    + apply H in E. subst. contradiction.
    + auto.
Qed.

Lemma alookup_in {K V} (keqb : K -> K -> bool) k (l : list (K * V)) v :
  alookup keqb k l = Some v -> exists k', keqb k k' = true /\ In (k', v) l.
Proof.
  induction l as [|[k' v'] r IH]; simpl; [discriminate|]. destruct (keqb k k') eqn:E.
  - intro H; inversion H; subst. exists k'; auto.
  - intro H. destruct (IH H) as (k2 & A & B). exists k2; auto.
Qed.

(** ** derivations *)
Inductive completes (tbl : utable) : list unt -> upos -> list choice -> Prop :=
| comp_end info : completes tbl info UEnd []
| comp_step info x cs c r :
    choices_at tbl x = Some cs -> In c cs ->
    completes tbl (fst (uderive1 info (snd c))) (snd (uderive1 info (snd c))) r ->
    completes tbl info (UAt x) (c :: r).

Definition is_deriv (tbl : utable) (d : deriv) : Prop := completes tbl [] (UAt (fst d)) (snd d).

Lemma valid_choice_spec tbl x c :
  valid_choice tbl x c = true <-> exists cs, choices_at tbl x = Some cs /\ In c cs.
Proof.
  unfold valid_choice. destruct (choices_at tbl x) as [cs|].
  - rewrite (memb_spec choice_eqb choice_eqb_spec). split; [eauto|]. intros (cs' & E & I). inversion E; subst; auto.
  - split; [discriminate|]. intros (cs' & E & _). discriminate.
Qed.

Lemma run_app tbl d1 : forall info here d2,
  run tbl info here (d1 ++ d2) =
  match run tbl info here d1 with Some st => run tbl (fst st) (snd st) d2 | None => None end.
Proof.
  induction d1 as [|c d1 IH]; simpl; intros; auto.
  destruct here; auto. destruct (valid_choice tbl x c); auto.
Qed.

Lemma completes_run tbl d : forall info here,
  completes tbl info here d <-> exists i', run tbl info here d = Some (i', UEnd).
Proof.
  induction d as [|c r IH]; intros info here; split.
  - intro H; inversion H; subst. simpl. eauto.
  - intros (i' & H). simpl in H. inversion H; subst. constructor.
  - intro H; inversion H; subst. simpl.
    replace (valid_choice tbl x c) with true by (symmetry; apply valid_choice_spec; eauto).
    apply IH; auto.
  - intros (i' & H). simpl in H. destruct here as [x|]; [|discriminate].
    destruct (valid_choice tbl x c) eqn:V; [|discriminate].
    apply valid_choice_spec in V. destruct V as (cs & E & I).
    econstructor; eauto. apply IH. eauto.
Qed.

Lemma completes_app_inv tbl h info here r st :
  run tbl info here h = Some st -> completes tbl info here (h ++ r) -> completes tbl (fst st) (snd st) r.
Proof.
  intros R C. apply completes_run in C. destruct C as (i' & C). rewrite run_app, R in C.
  apply completes_run. eauto.
Qed.

Lemma completes_app tbl h info here r st :
  run tbl info here h = Some st -> completes tbl (fst st) (snd st) r -> completes tbl info here (h ++ r).
Proof.
  intros R C. apply completes_run in C. destruct C as (i' & C).
  apply completes_run. exists i'. rewrite run_app, R. auto.
Qed.

Lemma run_weight_app tbl w h : forall info here r st,
  run tbl info here h = Some st ->
  (run_weight tbl w info here (h ++ r) == run_weight tbl w info here h * run_weight tbl w (fst st) (snd st) r)%Q.
Proof.
  induction h as [|c h IH]; simpl; intros info here r st R.
  - inversion R; subst. simpl. ring.
  - destruct here as [x|]; [|discriminate]. destruct (valid_choice tbl x c); [|discriminate].
    rewrite (IH _ _ r st R). ring.
Qed.

(** ** prefixes *)
Lemma prefixb_spec h : forall d, prefixb h d = true <-> exists r, d = h ++ r.
Proof.
  induction h as [|a h IH]; simpl; intro d.
  - split; eauto.
  - destruct d as [|b d]; [split; [discriminate|intros (r & E); discriminate]|].
    rewrite andb_true_iff, choice_eqb_spec, IH. split.
    + intros (-> & r & ->). eauto.
    + intros (r & E). inversion E; subst. eauto.
Qed.

Lemma prefixb_snoc h c' c r : prefixb (h ++ [c']) (h ++ c :: r) = choice_eqb c' c.
Proof.
  induction h as [|a h IH]; simpl.
  - rewrite andb_true_r. reflexivity.
  - rewrite choice_eqb_refl. simpl. auto.
Qed.

Lemma prefixb_app_l h1 h2 d : prefixb (h1 ++ h2) d = true -> prefixb h1 d = true.
Proof.
  rewrite !prefixb_spec. intros (r & ->). rewrite <- app_assoc. eauto.
Qed.

(** ** the node invariant *)
Definition node_ok (tbl : utable) (w : uwtable) (sw : swtable) (n : node) : Prop :=
  In (nstart n) (map fst sw) /\
  run tbl [] (UAt (nstart n)) (nhist n) = Some (ninfo n, nnext n) /\
  (nprob n == deriv_prob tbl w sw (nstart n, nhist n))%Q.

Definition covers (nodes : list node) (d : deriv) : nat := length (filter (fun n => node_prefixb n d) nodes).

Lemma covers_app l1 l2 d : covers (l1 ++ l2) d = covers l1 d + covers l2 d.
Proof. unfold covers. rewrite filter_app, app_length. reflexivity. Qed.
Lemma covers_perm l l' d : Permutation l l' -> covers l d = covers l' d.
Proof. intro H. unfold covers. apply Permutation_length. apply filter_perm. auto. Qed.
Lemma covers_cons n l d : covers (n :: l) d = covers [n] d + covers l d.
Proof. apply (covers_app [n] l). Qed.

(** hypotheses on the weighted table, as consequences of [wf_weights] *)
Definition choices_nodup (tbl : utable) : Prop := forall x cs, choices_at tbl x = Some cs -> NoDup cs.
Definition weights_norm (tbl : utable) (w : uwtable) : Prop :=
  forall x cs, choices_at tbl x = Some cs -> (qsum (map (fun c : choice => wt w x (fst c) (snd c)) cs) == 1)%Q.

Lemma wf_weights_spec tbl w : wf_weights tbl w = true -> choices_nodup tbl /\ weights_norm tbl w.
Proof.
  intro H. unfold wf_weights in H. rewrite forallb_forall in H.
  assert (G : forall x cs, choices_at tbl x = Some cs ->
            NoDup cs /\ (qsum (map (fun c : choice => wt w x (fst c) (snd c)) cs) == 1)%Q).
  { intros x cs E. unfold choices_at, urules_of in E. destruct (alookup unt_eqb x tbl) as [rs|] eqn:A; [|discriminate].
    inversion E; subst. apply alookup_in in A. destruct A as (x' & Ex & I). apply unt_eqb_spec in Ex. subst x'.
    specialize (H _ I). simpl in H. apply andb_true_iff in H. destruct H as [N S].
    split.
    - apply (nodupb_spec choice_eqb choice_eqb_spec). exact N.
    - apply Qeq_bool_iff. exact S. }
  split; intros x cs E; apply (G x cs E).
Qed.

Lemma child_ok tbl w sw n x cs c :
  node_ok tbl w sw n -> nnext n = UAt x -> choices_at tbl x = Some cs -> In c cs -> node_ok tbl w sw (child w n x c).
Proof.
  intros (S & R & P) N E I. unfold node_ok, child. cbn [nprob nstart nhist ninfo nnext]. split; [auto|]. split.
  - rewrite run_app, R. cbn [fst snd run]. rewrite N.
    replace (valid_choice tbl x c) with true by (symmetry; apply valid_choice_spec; eauto).
    destruct (uderive1 (ninfo n) (snd c)); reflexivity.
  - rewrite qr_eq, P. unfold deriv_prob. cbn [fst snd].
    rewrite (run_weight_app tbl w (nhist n) [] (UAt (nstart n)) [c] _ R). cbn [fst snd run_weight]. rewrite N. ring.
Qed.

Lemma node_split_inv tbl w n ch : node_split tbl w n = Some ch ->
  exists x cs, nnext n = UAt x /\ choices_at tbl x = Some cs /\ ch = map (child w n x) cs.
Proof.
  unfold node_split. destruct (nnext n) as [x|]; [|discriminate].
  destruct (choices_at tbl x) as [cs|] eqn:E; [|discriminate]. intro H; inversion H; subst. eauto.
Qed.

Lemma split_ok tbl w sw n ch : node_ok tbl w sw n -> node_split tbl w n = Some ch -> Forall (node_ok tbl w sw) ch.
Proof.
  intros O S. destruct (node_split_inv _ _ _ _ S) as (x & cs & N & E & ->).
  apply Forall_forall. intros c' I. apply in_map_iff in I. destruct I as (c & <- & I). eapply child_ok; eauto.
Qed.

Lemma split_mass tbl w n ch : weights_norm tbl w -> node_split tbl w n = Some ch -> (qsum (map nprob ch) == nprob n)%Q.
Proof.
  intros W S. destruct (node_split_inv _ _ _ _ S) as (x & cs & N & E & ->).
  rewrite map_map.
  transitivity (qsum (map (fun c : choice => nprob n * wt w x (fst c) (snd c))%Q cs)).
  - apply qsum_map_ext. intros c _. unfold child. cbn [nprob]. apply qr_eq.
  - rewrite (qsum_map_scale (fun c : choice => wt w x (fst c) (snd c)) (nprob n) cs), (W x cs E). ring.
Qed.

Lemma covers_single n d : covers [n] d = if node_prefixb n d then 1 else 0.
Proof. unfold covers. simpl. destruct (node_prefixb n d); reflexivity. Qed.

Lemma split_covers tbl w sw n ch d :
  choices_nodup tbl -> node_ok tbl w sw n -> node_split tbl w n = Some ch -> is_deriv tbl d ->
  covers ch d = covers [n] d.
Proof.
  intros ND (S & R & P) SP D. destruct (node_split_inv _ _ _ _ SP) as (x & cs & N & E & ->).
  rewrite covers_single. unfold covers. rewrite filter_map_comm, map_length.
  destruct (node_prefixb n d) eqn:PB.
  - unfold node_prefixb in PB. apply andb_true_iff in PB. destruct PB as [SE PR].
    apply unt_eqb_spec in SE. apply prefixb_spec in PR. destruct PR as (r & PR).
    destruct d as [ds dh]. simpl in *. subst ds dh.
    unfold is_deriv in D. simpl in D. rewrite N in R.
    pose proof (completes_app_inv _ _ _ _ _ _ R D) as C. simpl in C.
    inversion C as [|? ? cs' c r' E' I C']; subst. rewrite E in E'. inversion E'; subst cs'.
    erewrite filter_ext; [apply (count_nodup choice_eqb choice_eqb_spec c cs (ND _ _ E) I)|].
    intro c'. unfold node_prefixb, child. simpl. rewrite unt_eqb_refl. simpl. apply prefixb_snoc.
  - assert (Z : filter (fun c' => node_prefixb (child w n x c') d) cs = []).
    { clear - PB. induction cs; simpl; auto.
      destruct (node_prefixb (child w n x a) d) eqn:Q; auto.
      exfalso. unfold node_prefixb, child in Q. simpl in Q. apply andb_true_iff in Q. destruct Q as [Q1 Q2].
      apply prefixb_app_l in Q2. unfold node_prefixb in PB. rewrite Q1, Q2 in PB. discriminate. }
    rewrite Z. reflexivity.
Qed.

(** ** the abstract evolution of the node set: reorder, or replace a node by its one-step extensions *)
Inductive nstep (tbl : utable) (w : uwtable) : list node -> list node -> Prop :=
| ns_perm l l' : Permutation l l' -> nstep tbl w l l'
| ns_split l n ch : node_split tbl w n = Some ch -> nstep tbl w (n :: l) (ch ++ l).
Definition nreach (tbl : utable) (w : uwtable) : list node -> list node -> Prop :=
  clos_refl_trans (list node) (nstep tbl w).

Lemma nreach_perm tbl w l l' : Permutation l l' -> nreach tbl w l l'.
Proof. intro. apply rt_step. constructor; auto. Qed.
Lemma nreach_trans tbl w a b c : nreach tbl w a b -> nreach tbl w b c -> nreach tbl w a c.
Proof. intros. eapply rt_trans; eauto. Qed.
Lemma nreach_split tbl w l n ch X l' :
  node_split tbl w n = Some ch -> Permutation l (n :: X) -> Permutation l' (ch ++ X) -> nreach tbl w l l'.
Proof.
  intros S P1 P2. eapply nreach_trans; [apply nreach_perm; eauto|].
  eapply nreach_trans; [apply rt_step; apply ns_split; eauto|]. apply nreach_perm. symmetry. auto.
Qed.

Record inv (tbl : utable) (w : uwtable) (sw : swtable) (nodes : list node) : Prop := mkInv {
  inv_ok : Forall (node_ok tbl w sw) nodes;
  inv_cover : forall d, is_deriv tbl d -> In (fst d) (map fst sw) -> covers nodes d = 1;
  inv_mass : (qsum (map nprob nodes) == 1)%Q
}.

Lemma alookup_nodup {V} (l : list (unt * V)) k v : NoDup (map fst l) -> In (k, v) l -> alookup unt_eqb k l = Some v.
Proof.
  induction l as [|[k' v'] r IH]; simpl; [contradiction|]. intros N [E|I].
  - inversion E; subst. rewrite unt_eqb_refl. reflexivity.
  - inversion N; subst. destruct (unt_eqb k k') eqn:E.
    + apply unt_eqb_spec in E. subst. exfalso. apply H1. apply in_map_iff. exists (k', v). auto.
    + auto.
Qed.

Lemma inv_init tbl w sw : NoDup (map fst sw) -> (qsum (map snd sw) == 1)%Q -> inv tbl w sw (initial_nodes sw).
Proof.
  intros N S. constructor.
  - apply Forall_forall. intros n I. apply in_map_iff in I. destruct I as ([x q] & <- & I).
    unfold node_ok. cbn [nprob nstart nhist ninfo nnext fst snd]. split; [apply in_map_iff; exists (x, q); auto|].
    split; [reflexivity|]. unfold deriv_prob, start_weight. cbn [fst snd run_weight].
    rewrite (alookup_nodup sw x q N I). ring.
  - intros d _ I. unfold covers, initial_nodes. rewrite filter_map_comm, map_length.
    erewrite filter_ext with (g := fun xq : unt * Q => unt_eqb (fst xq) (fst d)).
    2:{ intros [x q]. unfold node_prefixb. cbn [nstart nhist fst snd prefixb]. apply andb_true_r. }
    rewrite <- (map_length fst), <- filter_map_comm with (g := fst) (f := fun k => unt_eqb k (fst d)).
    apply (count_nodup unt_eqb unt_eqb_spec); auto.
  - unfold initial_nodes. rewrite map_map. cbn [nprob]. exact S.
Qed.

Lemma inv_step tbl w sw l l' : choices_nodup tbl -> weights_norm tbl w -> inv tbl w sw l -> nstep tbl w l l' -> inv tbl w sw l'.
Proof.
  intros ND WN [O C M] ST. destruct ST as [l l' P | l n ch S].
  - constructor.
    + eapply Permutation_Forall; eauto.
    + intros d D I. rewrite <- (covers_perm _ _ d P). auto.
    + rewrite <- (qsum_perm _ _ (Permutation_map nprob P)). auto.
  - inversion O as [|? ? On Ol]; subst. constructor.
    + apply Forall_app. split; auto. eapply split_ok; eauto.
    + intros d D I. rewrite covers_app, (split_covers tbl w sw n ch d ND On S D), <- covers_cons. auto.
    + rewrite map_app, qsum_app, (split_mass tbl w n ch WN S). simpl in M. exact M.
Qed.

Lemma inv_reach tbl w sw l l' : choices_nodup tbl -> weights_norm tbl w -> nreach tbl w l l' -> inv tbl w sw l -> inv tbl w sw l'.
Proof.
  intros ND WN R. induction R; intro I; eauto using inv_step.
Qed.

(** ** __split_nodes_until_quantity_reached__ only reorders and splits *)
Lemma find_splittable_spec tbl w k : forall i nodes cur ch nodes',
  find_splittable tbl w k i nodes cur = Ok (ch, nodes') ->
  exists cur', node_split tbl w cur' = Some ch /\ Permutation (cur :: nodes) (cur' :: nodes').
Proof.
  induction k as [|k IH]; intros i nodes cur ch nodes' H; simpl in H;
    destruct (node_split tbl w cur) as [ch0|] eqn:NS.
  - inversion H; subst. eauto.
  - discriminate.
  - inversion H; subst. eauto.
  - destruct (pop_neg (S i) (nodes ++ [cur])) as [[cur' nodes2]|] eqn:P; [|discriminate].
    apply pop_neg_perm in P. destruct (IH _ _ _ _ _ H) as (cur'' & NS' & P').
    exists cur''. split; auto. rewrite <- P', <- P. apply Permutation_cons_append.
Qed.

Lemma insert_all_perm ch : forall nodes, Permutation (insert_all nodes ch) (ch ++ nodes).
Proof.
  unfold insert_all. induction ch as [|c ch IH]; intro nodes; simpl; auto.
  rewrite IH. rewrite insert_at_perm. symmetry. apply Permutation_middle.
Qed.

Lemma split_until_unfold tbl w fuel q nodes :
  split_until tbl w fuel q nodes =
  if q <=? length nodes then Ok nodes else
  match fuel with
  | O => OutOfFuel
  | S f =>
    match pop_neg 1 nodes with
    | None => IndexErr
    | Some (cur, rest) =>
      bindo (find_splittable tbl w (length nodes) 1 rest cur)
            (fun cr => split_until tbl w f q (insert_all (snd cr) (fst cr)))
    end
  end.
Proof. destruct fuel; reflexivity. Qed.

Lemma split_until_reach tbl w fuel q : forall nodes nodes',
  split_until tbl w fuel q nodes = Ok nodes' -> nreach tbl w nodes nodes' /\ q <= length nodes'.
Proof.
  induction fuel as [|f IH]; intros nodes nodes' H; rewrite split_until_unfold in H;
    destruct (q <=? length nodes) eqn:L.
  - inversion H; subst. split; [apply rt_refl | apply Nat.leb_le; auto].
  - discriminate.
  - inversion H; subst. split; [apply rt_refl | apply Nat.leb_le; auto].
  - destruct (pop_neg 1 nodes) as [[cur rest]|] eqn:P; [|discriminate].
    destruct (find_splittable tbl w (length nodes) 1 rest cur) as [[ch rest']| | | |] eqn:F; try discriminate.
    simpl in H. apply IH in H. destruct H as [H Hq]. split; auto.
    apply find_splittable_spec in F. destruct F as (cur' & S & P').
    eapply nreach_trans; [|exact H].
    eapply nreach_split; [exact S | | apply insert_all_perm].
    rewrite <- P'. eapply pop_neg_perm. exact P.
Qed.

(** ** groups *)
Definition all_nodes (pg : list group) : list node := flat_map fst pg.
Definition masses_ok (pg : list group) : Prop := Forall (fun g : group => (snd g == mass_of (fst g))%Q) pg.
Definition gsorted (pg : list group) : Prop := StronglySorted Qle (map snd pg).

Lemma all_nodes_app a b : all_nodes (a ++ b) = all_nodes a ++ all_nodes b.
Proof. apply flat_map_app. Qed.

Lemma mass_of_app a b : (mass_of (a ++ b) == mass_of a + mass_of b)%Q.
Proof. unfold mass_of. rewrite map_app. apply qsum_app. Qed.
Lemma mass_of_perm a b : Permutation a b -> (mass_of a == mass_of b)%Q.
Proof. intro. unfold mass_of. apply qsum_perm. apply Permutation_map. auto. Qed.

Lemma set_nth_nodes pg i g g' : nth_error pg i = Some g ->
  exists X, Permutation (all_nodes pg) (fst g ++ X) /\ Permutation (all_nodes (set_nth i g' pg)) (fst g' ++ X).
Proof.
  intro E. destruct (set_nth_split i g' pg g E) as (l1 & l2 & -> & -> & _).
  exists (all_nodes l1 ++ all_nodes l2). rewrite !all_nodes_app. simpl. fold (all_nodes l2).
  split; rewrite app_assoc; rewrite (Permutation_app_comm (all_nodes l1)); rewrite <- app_assoc; reflexivity.
Qed.

Lemma set_nth_masses pg i g' : masses_ok pg -> (snd g' == mass_of (fst g'))%Q -> masses_ok (set_nth i g' pg).
Proof.
  intros M G. destruct (nth_error pg i) as [g|] eqn:E.
  - destruct (set_nth_split i g' pg g E) as (l1 & l2 & -> & -> & _).
    unfold masses_ok in *. apply Forall_app in M. destruct M as [M1 M2]. inversion M2; subst.
    apply Forall_app. split; auto.
  - rewrite (set_nth_none i g' pg E). auto.
Qed.

Lemma nth_error_masses pg i g : masses_ok pg -> nth_error pg i = Some g -> (snd g == mass_of (fst g))%Q.
Proof. intros M E. apply nth_error_In in E. unfold masses_ok in M. rewrite Forall_forall in M. apply M; auto. Qed.

Lemma g_pop_spec pg i k n pg' : g_pop pg i k = Some (n, pg') ->
  Permutation (all_nodes pg) (n :: all_nodes pg') /\ length pg' = length pg /\ (masses_ok pg -> masses_ok pg').
Proof.
  unfold g_pop. destruct (nth_error pg i) as [g|] eqn:E; [|discriminate].
  destruct (pop_at k (fst g)) as [[n0 rest]|] eqn:P; [|discriminate]. intro H; inversion H; subst n0 pg'. clear H.
  apply pop_at_perm in P.
  destruct (set_nth_nodes pg i g (rest, qr (snd g - nprob n)) E) as (X & P1 & P2). cbn [fst] in P2.
  split; [|split].
  - rewrite P1, P2, P. reflexivity.
  - apply set_nth_length.
  - intro M. apply set_nth_masses; auto. cbn [fst snd]. rewrite qr_eq, (nth_error_masses pg i g M E), (mass_of_perm _ _ P).
    unfold mass_of. simpl. ring.
Qed.

Lemma g_push_spec pg i n pg' : g_push pg i n = Some pg' ->
  Permutation (all_nodes pg') (n :: all_nodes pg) /\ length pg' = length pg /\ (masses_ok pg -> masses_ok pg').
Proof.
  unfold g_push. destruct (nth_error pg i) as [g|] eqn:E; [|discriminate]. intro H; inversion H; subst pg'. clear H.
  destruct (set_nth_nodes pg i g (fst g ++ [n], qr (snd g + nprob n)) E) as (X & P1 & P2). cbn [fst] in P2.
  split; [|split].
  - rewrite P1, P2. rewrite <- app_assoc. rewrite (Permutation_app_comm [n] X). rewrite app_assoc.
    symmetry. apply Permutation_cons_append.
  - apply set_nth_length.
  - intro M. apply set_nth_masses; auto. cbn [fst snd]. rewrite qr_eq, (nth_error_masses pg i g M E), mass_of_app.
    unfold mass_of. simpl. ring.
Qed.

(** ** sorting by mass *)
Lemma insert_by_sorted {X} (key : X -> Q) x l :
  StronglySorted Qle (map key l) -> StronglySorted Qle (map key (insert_by key x l)).
Proof.
  induction l as [|y r IH]; simpl; intro SS.
  - constructor; constructor.
  - inversion SS as [|? ? SSr Fr]; subst. destruct (Qle_bool (key x) (key y)) eqn:E.
    + apply Qle_bool_iff in E. simpl. constructor; [exact SS|]. constructor; auto.
      eapply Forall_impl; [|exact Fr]. intros z Hz. eapply Qle_trans; eauto.
    + assert (L : (key y <= key x)%Q).
      { apply Qlt_le_weak. apply Qnot_le_lt. intro L. apply Qle_bool_iff in L. congruence. }
      simpl. constructor; [apply IH; auto|].
      eapply Permutation_Forall; [symmetry; apply Permutation_map; apply insert_by_perm|].
      simpl. constructor; auto.
Qed.

Lemma sort_by_sorted {X} (key : X -> Q) l : StronglySorted Qle (map key (sort_by key l)).
Proof. induction l; simpl; [constructor | apply insert_by_sorted; auto]. Qed.

Lemma ss_first a r x : StronglySorted Qle (a :: r) -> In x (a :: r) -> (a <= x)%Q.
Proof.
  intros SS [<-|I]; [apply Qle_refl|]. inversion SS as [|? ? _ F]; subst.
  rewrite Forall_forall in F. auto.
Qed.

Lemma ss_last r : forall a x, StronglySorted Qle (a :: r) -> In x (a :: r) -> (x <= nth (length r) (a :: r) 0)%Q.
Proof.
  induction r as [|b r IH]; intros a x SS I.
  - destruct I as [<-|[]]. simpl. apply Qle_refl.
  - inversion SS as [|? ? SSr F]; subst.
    change (nth (length (b :: r)) (a :: b :: r) 0%Q) with (nth (length r) (b :: r) 0%Q).
    destruct I as [<-|I].
    + apply Qle_trans with b.
      * inversion F; auto.
      * apply IH; simpl; auto.
    + apply IH; auto.
Qed.

Lemma mass_at_map pg i : mass_at pg i = nth i (map snd pg) 0%Q.
Proof. unfold mass_at, gnth. symmetry. apply (map_nth snd pg (@nil node, 0%Q) i). Qed.

Lemma gsorted_bounds pg g : gsorted pg -> In g pg ->
  (mass_at pg 0 <= snd g)%Q /\ (snd g <= mass_at pg (length pg - 1))%Q.
Proof.
  intros SS I. rewrite !mass_at_map. unfold gsorted in SS.
  assert (I' : In (snd g) (map snd pg)) by (apply in_map; auto).
  destruct (map snd pg) as [|a r] eqn:E; [contradiction|].
  assert (LL : length (a :: r) = length pg) by (rewrite <- E; apply map_length).
  replace (length pg - 1) with (length r) by (simpl in LL; lia).
  split; [apply (ss_first a r); auto | apply ss_last; auto].
Qed.

(** ** __apply_swap__ (repaired): moves nodes between groups, masses follow, list sorted again *)
Lemma all_nodes_perm pg pg' : Permutation pg pg' -> Permutation (all_nodes pg) (all_nodes pg').
Proof. apply Permutation_flat_map. Qed.

Lemma swap_tail pg1 gi j l pg' :
  bindo (oo (g_pop pg1 j l)) (fun np => bindo (oo (g_push (snd np) gi (fst np))) (fun pg2 => Ok (sort_by snd pg2))) = Ok pg' ->
  Permutation (all_nodes pg1) (all_nodes pg') /\ length pg' = length pg1 /\ (masses_ok pg1 -> masses_ok pg') /\ gsorted pg'.
Proof.
  destruct (g_pop pg1 j l) as [[nb pgc]|] eqn:P3; [|discriminate]. cbn [oo bindo fst snd].
  destruct (g_push pgc gi nb) as [pgd|] eqn:P4; [|discriminate]. cbn [oo bindo]. intro H; inversion H; subst pg'.
  apply g_pop_spec in P3. apply g_push_spec in P4. destruct P3 as (A1 & A2 & A3), P4 as (B1 & B2 & B3).
  split; [|split; [|split]].
  - rewrite (all_nodes_perm _ _ (sort_by_perm snd pgd)). rewrite A1, B1. reflexivity.
  - eapply eq_trans; [apply (Permutation_length (sort_by_perm snd pgd))|]. eapply eq_trans; [exact B2 | exact A2].
  - intro M. unfold masses_ok. eapply Permutation_Forall; [symmetry; apply sort_by_perm|]. apply B3, A3, M.
  - apply sort_by_sorted.
Qed.

Lemma apply_swap_spec pg gi mv pg' : apply_swap repaired pg gi mv = Ok pg' ->
  Permutation (all_nodes pg) (all_nodes pg') /\ length pg' = length pg /\ (masses_ok pg -> masses_ok pg') /\ gsorted pg'.
Proof.
  unfold apply_swap. destruct mv as [[j k] l]. cbn [fst snd fx_knone fx_sort repaired].
  destruct k as [kk|].
  - destruct (g_pop pg gi kk) as [[na pga]|] eqn:P1; [|discriminate]. cbn [oo bindo fst snd].
    destruct (g_push pga j na) as [pgb|] eqn:P2; [|discriminate]. cbn [oo bindo]. intro H.
    apply swap_tail in H. destruct H as (T1 & T2 & T3 & T4).
    apply g_pop_spec in P1. apply g_push_spec in P2. destruct P1 as (A1 & A2 & A3), P2 as (B1 & B2 & B3).
    split; [|split; [|split]]; auto.
    + rewrite <- T1, A1, B1. reflexivity.
    + eapply eq_trans; [exact T2|]. eapply eq_trans; [exact B2 | exact A2].
  - cbn [bindo]. intro H. apply swap_tail in H. exact H.
Qed.

(** ** __try_split_node_in_group__ (repaired): replaces one node of the group by its extensions *)
Lemma try_split_go_spec tbl w n sorted fuel : forall i i' orig ch,
  try_split_go tbl w n sorted fuel i = (i', Some (orig, ch)) ->
  exists nd, In (orig, nd) sorted /\ node_split tbl w nd = Some ch.
Proof.
  induction fuel as [|f IH]; intros i i' orig ch H; simpl in H;
    destruct (nth_error sorted (n - i)) as [cand|] eqn:E; try discriminate;
    destruct (node_split tbl w (snd cand)) as [ch0|] eqn:NS; try discriminate.
  - inversion H; subst. exists (snd cand). split; auto. apply nth_error_In in E. destruct cand; auto.
  - inversion H; subst. exists (snd cand). split; auto. apply nth_error_In in E. destruct cand; auto.
  - destruct (i <? n); [|discriminate]. eapply IH; eauto.
Qed.

Lemma gnth_nth_error pg i : length (fst (gnth pg i)) <> 0 -> nth_error pg i = Some (gnth pg i).
Proof.
  intro H. unfold gnth in *. destruct (nth_error pg i) eqn:E.
  - apply nth_error_nth with (d := ([], 0%Q)) in E. rewrite E. reflexivity.
  - apply nth_error_None in E. rewrite nth_overflow in H by auto. simpl in H. congruence.
Qed.

Lemma set_nth_snd pg i (g g' : group) : nth_error pg i = Some g -> snd g' = snd g -> map snd (set_nth i g' pg) = map snd pg.
Proof.
  intros E S. destruct (set_nth_split i g' pg g E) as (l1 & l2 & -> & -> & _).
  rewrite !map_app. simpl. rewrite S. reflexivity.
Qed.

Lemma try_split_spec tbl w pg gi pg' : try_split repaired tbl w pg gi = Ok (Some pg') ->
  exists n ch X, node_split tbl w n = Some ch /\ Permutation (all_nodes pg) (n :: X) /\ Permutation (all_nodes pg') (ch ++ X)
   /\ map snd pg' = map snd pg /\ (weights_norm tbl w -> masses_ok pg -> masses_ok pg').
Proof.
  unfold try_split. cbn [fx_group fx_remove repaired negb].
  set (ga := fst (gnth pg gi)). destruct (length ga) as [|n'] eqn:LN; [discriminate|].
  set (n := S n') in *. set (sorted := sort_by _ (enumerate ga)).
  destruct (try_split_go tbl w n sorted n 1) as [i' res] eqn:G. cbn [fst snd].
  destruct (n <=? i'); [discriminate|]. destruct res as [[orig ch]|]; [|discriminate].
  destruct (pop_at orig ga) as [[x ga']|] eqn:P; [|discriminate]. intro H; inversion H; subst pg'. clear H.
  apply try_split_go_spec in G. destruct G as (nd & I & NS).
  assert (I' : In (orig, nd) (enumerate ga)).
  { eapply Permutation_in; [apply sort_by_perm | exact I]. }
  apply enumerate_nth in I'. rewrite (pop_at_nth _ _ _ _ P) in I'. inversion I'; subst x.
  assert (E : nth_error pg gi = Some (gnth pg gi)).
  { apply gnth_nth_error. fold ga. lia. }
  destruct (set_nth_nodes pg gi (gnth pg gi) (ga' ++ ch, snd (gnth pg gi)) E) as (X & P1 & P2). cbn [fst] in P2. fold ga in P1.
  apply pop_at_perm in P.
  exists nd, ch, (ga' ++ X). split; [auto|]. split; [|split; [|split]].
  - rewrite P1, P. reflexivity.
  - rewrite P2. rewrite <- !app_assoc. apply Permutation_app_swap_app.
  - eapply set_nth_snd; eauto.
  - intros WN M. apply set_nth_masses; auto. cbn [fst snd].
    rewrite (nth_error_masses pg gi _ M E). fold ga. rewrite (mass_of_perm _ _ P), mass_of_app.
    assert (MC : (mass_of ch == nprob nd)%Q) by (apply (split_mass tbl w nd ch WN NS)).
    rewrite MC. unfold mass_of. simpl. ring.
Qed.

Lemma first_split_spec tbl w pg gis : forall pg', first_split repaired tbl w pg gis = Ok (Some pg') ->
  exists gi, try_split repaired tbl w pg gi = Ok (Some pg').
Proof.
  induction gis as [|gi r IH]; simpl; intros pg' H; [discriminate|].
  destruct (try_split repaired tbl w pg gi) as [[pg1|]| | | |] eqn:T; try discriminate; simpl in H.
  - inversion H; subst. eauto.
  - auto.
Qed.

(** ** one iteration of the balance loop, and the loop *)
Definition step_good (tbl : utable) (w : uwtable) (pg pg' : list group) : Prop :=
  nreach tbl w (all_nodes pg) (all_nodes pg') /\ length pg' = length pg /\
  (weights_norm tbl w -> masses_ok pg -> masses_ok pg') /\ (gsorted pg -> gsorted pg').

Lemma step_good_refl tbl w pg : step_good tbl w pg pg.
Proof. repeat split; auto. apply rt_refl. Qed.
Lemma step_good_trans tbl w a b c : step_good tbl w a b -> step_good tbl w b c -> step_good tbl w a c.
Proof.
  intros (A1 & A2 & A3 & A4) (B1 & B2 & B3 & B4). repeat split; auto.
  - eapply nreach_trans; eauto.
  - lia.
Qed.

Lemma balance_step_spec tbl w splits th pg r :
  balance_step repaired tbl w splits th pg = Ok r ->
  match r with
  | Done pg' ratio => pg' = pg /\ ratio_of pg = ratio
  | Continue pg' => step_good tbl w pg pg'
  end.
Proof.
  unfold balance_step.
  destruct (match ratio_of pg with XFin r0 => Qle_bool r0 th | XInf => false | XNan => true end).
  - intro H; inversion H; subst. auto.
  - destruct (first_swap repaired pg (seq 0 (splits - 1))) as [[gi mv]|] eqn:FS.
    + destruct (apply_swap repaired pg gi mv) as [pg1| | | |] eqn:A; try discriminate. cbn [bindo].
      intro H; inversion H; subst. apply apply_swap_spec in A. destruct A as (A1 & A2 & A3 & A4).
      repeat split; auto. apply nreach_perm; auto.
    + destruct (first_split repaired tbl w pg (rev (seq 1 (splits - 1)))) as [[pg1|]| | | |] eqn:FP; try discriminate; cbn [bindo].
      * intro H; inversion H; subst. apply first_split_spec in FP. destruct FP as (gi & T).
        apply try_split_spec in T. destruct T as (n & ch & X & NS & P1 & P2 & MS & MO).
        repeat split; auto.
        -- eapply nreach_split; eauto.
        -- assert (LL : length (map snd pg1) = length (map snd pg)) by (rewrite MS; reflexivity).
           rewrite !map_length in LL. exact LL.
        -- unfold gsorted. rewrite MS. auto.
      * intro H; inversion H; subst. auto.
Qed.

Lemma balance_spec tbl w fuel splits th : forall pg pg' r,
  balance repaired tbl w fuel splits th pg = Ok (pg', r) -> step_good tbl w pg pg' /\ ratio_of pg' = XFin r.
Proof.
  induction fuel as [|f IH]; intros pg pg' r H; simpl in H; [discriminate|].
  destruct (balance_step repaired tbl w splits th pg) as [sr| | | |] eqn:B; try discriminate. cbn [bindo] in H.
  apply balance_step_spec in B. destruct sr as [pg1 ratio|pg1].
  - destruct B as [-> R]. destruct ratio as [q| |]; try discriminate. inversion H; subst. split; auto. apply step_good_refl.
  - apply IH in H. destruct H as [G R]. split; auto. eapply step_good_trans; eauto.
Qed.

(** ** the initial groups *)
Lemma concat_singletons {X} (l : list X) : concat (map (fun n => [n]) l) = l.
Proof. induction l; simpl; congruence. Qed.

Lemma make_groups_perm splits nodes : 0 < splits -> Permutation (concat (make_groups splits nodes)) nodes.
Proof.
  intro L. unfold make_groups. rewrite <- (firstn_skipn splits nodes) at 2.
  destruct (firstn splits nodes) as [|n0 r] eqn:E.
  - simpl. destruct nodes; [rewrite skipn_nil; reflexivity|]. destruct splits; [lia|]. simpl in E. discriminate.
  - simpl. rewrite concat_singletons. apply Permutation_cons; auto. apply Permutation_app_comm.
Qed.

Lemma initial_groups_spec splits nodes : 0 < splits ->
  Permutation (all_nodes (initial_groups splits nodes)) nodes /\ masses_ok (initial_groups splits nodes)
  /\ gsorted (initial_groups splits nodes).
Proof.
  intro L. unfold initial_groups. split; [|split].
  - rewrite (all_nodes_perm _ _ (sort_by_perm snd _)). unfold all_nodes. rewrite flat_map_concat_map, map_map.
    cbn [fst]. rewrite map_id. apply make_groups_perm; auto.
  - unfold masses_ok. eapply Permutation_Forall; [symmetry; apply sort_by_perm|].
    apply Forall_forall. intros g I. apply in_map_iff in I. destruct I as (g0 & <- & _). cbn [fst snd]. apply qr_eq.
  - apply sort_by_sorted.
Qed.

(** ** __split_into_nodes__ (repaired) *)
Theorem split_into_nodes_spec tbl w sw fuel splits th pg r :
  0 < splits -> weights_norm tbl w ->
  split_into_nodes repaired tbl w sw fuel splits th = Ok (pg, r) ->
  nreach tbl w (initial_nodes sw) (all_nodes pg) /\ masses_ok pg /\ gsorted pg /\ ratio_of pg = XFin r.
Proof.
  intros L WN H. unfold split_into_nodes in H.
  destruct (split_until tbl w fuel splits (initial_nodes sw)) as [nodes| | | |] eqn:SU; try discriminate. cbn [bindo] in H.
  apply split_until_reach in SU. destruct SU as [SU _].
  apply balance_spec in H. destruct H as [(G1 & G2 & G3 & G4) R].
  destruct (initial_groups_spec splits nodes L) as (I1 & I2 & I3).
  repeat split; auto.
  eapply nreach_trans; [exact SU|]. eapply nreach_trans; [apply nreach_perm; symmetry; exact I1|]. exact G1.
Qed.

(** ** main statements about nodes and groups *)
Lemma wf_input_spec tbl w sw F : wf_input tbl w sw F = true ->
  choices_nodup tbl /\ weights_norm tbl w /\ NoDup (map fst sw) /\ (qsum (map snd sw) == 1)%Q /\
  (forall x, In x (map fst sw) -> fin tbl F [] (UAt x) = true).
Proof.
  unfold wf_input, wf_starts. rewrite !andb_true_iff. intros (W & (N & S) & FN).
  destruct (wf_weights_spec tbl w W) as [A B]. repeat split; auto.
  - apply (nodupb_spec unt_eqb unt_eqb_spec). auto.
  - apply Qeq_bool_iff. auto.
  - intros x I. apply in_map_iff in I. destruct I as (xq & <- & I). rewrite forallb_forall in FN. apply FN. auto.
Qed.

Theorem reach_inv tbl w sw F nodes :
  wf_input tbl w sw F = true -> nreach tbl w (initial_nodes sw) nodes -> inv tbl w sw nodes.
Proof.
  intros WF R. destruct (wf_input_spec _ _ _ _ WF) as (ND & WN & NS & SS & _).
  eapply inv_reach; eauto. apply inv_init; auto.
Qed.

Theorem nodes_partition tbl w sw F fuel q nodes :
  wf_input tbl w sw F = true -> split_until tbl w fuel q (initial_nodes sw) = Ok nodes ->
  inv tbl w sw nodes /\ q <= length nodes.
Proof.
  intros WF H. apply split_until_reach in H. destruct H as [R L]. split; auto. eapply reach_inv; eauto.
Qed.

Theorem groups_partition tbl w sw F fuel splits th pg r :
  0 < splits -> wf_input tbl w sw F = true ->
  split_into_nodes repaired tbl w sw fuel splits th = Ok (pg, r) ->
  inv tbl w sw (all_nodes pg) /\ masses_ok pg.
Proof.
  intros L WF H. destruct (wf_input_spec _ _ _ _ WF) as (ND & WN & _).
  apply split_into_nodes_spec in H; auto. destruct H as (R & M & _). split; auto. eapply reach_inv; eauto.
Qed.

Lemma frag_memberb_covers g d : frag_memberb g d = negb (covers g d =? 0).
Proof.
  unfold frag_memberb, covers. induction g as [|n g IH]; simpl; auto.
  destruct (node_prefixb n d); simpl; auto.
Qed.

Lemma covers_all_nodes pg d : covers (all_nodes pg) d = sumnat (map (fun g : group => covers (fst g) d) pg).
Proof. induction pg as [|g pg IH]; simpl; auto. unfold all_nodes in *. simpl. rewrite covers_app, IH. reflexivity. Qed.

Lemma sum_one {X} (f : X -> nat) l : sumnat (map f l) = 1 -> length (filter (fun x => negb (f x =? 0)) l) = 1.
Proof.
  induction l as [|a l IH]; simpl; [discriminate|]. intro H.
  destruct (f a) as [|[|k]] eqn:E; simpl.
  - apply IH. lia.
  - f_equal. assert (Z : sumnat (map f l) = 0) by lia. clear - Z.
    induction l as [|b l IH]; simpl in *; auto. destruct (f b) eqn:E; simpl; [apply IH; lia | lia].
  - lia.
Qed.

Lemma sum_le_one {X} (f : X -> nat) l x : sumnat (map f l) = 1 -> In x l -> f x <= 1.
Proof.
  induction l as [|a l IH]; simpl; [contradiction|]. intros H [<-|I]; [lia|]. destruct (f a) as [|[|k]] eqn:E.
  - apply IH; auto.
  - assert (Z : sumnat (map f l) = 0) by lia. clear - Z I. induction l; simpl in *; [contradiction|].
    destruct I as [<-|I]; [lia | apply IHl; auto; lia].
  - lia.
Qed.

(** every derivation of the grammar has its prefix node in exactly one group *)
Theorem groups_exactly_one tbl w sw pg d :
  inv tbl w sw (all_nodes pg) -> is_deriv tbl d -> In (fst d) (map fst sw) ->
  length (filter (fun g : group => frag_memberb (fst g) d) pg) = 1.
Proof.
  intros I D S. pose proof (inv_cover _ _ _ _ I d D S) as C. rewrite covers_all_nodes in C.
  erewrite filter_ext; [apply (sum_one (fun g : group => covers (fst g) d)); exact C|].
  intro g. apply frag_memberb_covers.
Qed.

Lemma group_covers_le tbl w sw pg g d :
  inv tbl w sw (all_nodes pg) -> In g pg -> is_deriv tbl d -> In (fst d) (map fst sw) -> covers (fst g) d <= 1.
Proof.
  intros I G D S. pose proof (inv_cover _ _ _ _ I d D S) as C. rewrite covers_all_nodes in C.
  apply (sum_le_one (fun g : group => covers (fst g) d) pg g C G).
Qed.

(** the returned ratio (repaired loop): heaviest group / lightest group *)
Lemma ratio_of_inv pg r : ratio_of pg = XFin r ->
  (r == mass_at pg (length pg - 1) / mass_at pg 0)%Q /\ ~ (mass_at pg 0 == 0)%Q /\ pg <> [].
Proof.
  unfold ratio_of, xdiv. destruct (Qeq_bool (mass_at pg 0) 0) eqn:E; [destruct (Qeq_bool (mass_at pg (length pg - 1)) 0); intro H; discriminate H|]. intro H; inversion H; subst.
  split; [reflexivity|]. split.
  - intro Z. apply Qeq_bool_iff in Z. congruence.
  - intro N. subst pg. unfold mass_at, gnth in E. simpl in E. discriminate.
Qed.

Theorem ratio_max_min tbl w sw fuel splits th pg r :
  0 < splits -> weights_norm tbl w ->
  split_into_nodes repaired tbl w sw fuel splits th = Ok (pg, r) ->
  exists gmin gmax, In gmin pg /\ In gmax pg /\
    (forall g, In g pg -> (mass_of (fst gmin) <= mass_of (fst g))%Q /\ (mass_of (fst g) <= mass_of (fst gmax))%Q) /\
    ~ (mass_of (fst gmin) == 0)%Q /\ (r == mass_of (fst gmax) / mass_of (fst gmin))%Q.
Proof.
  intros L WN H. apply split_into_nodes_spec in H; auto. destruct H as (_ & M & SS & R).
  apply ratio_of_inv in R. destruct R as (R & NZ & NE).
  assert (LP : 0 < length pg) by (destruct pg; [congruence | simpl; lia]).
  assert (E0 : nth_error pg 0 = Some (gnth pg 0)).
  { unfold gnth. apply nth_error_nth'. auto. }
  assert (E1 : nth_error pg (length pg - 1) = Some (gnth pg (length pg - 1))).
  { unfold gnth. apply nth_error_nth'. lia. }
  pose proof (nth_error_masses pg _ _ M E0) as M0. pose proof (nth_error_masses pg _ _ M E1) as M1.
  exists (gnth pg 0), (gnth pg (length pg - 1)).
  split; [eapply nth_error_In; eauto|]. split; [eapply nth_error_In; eauto|]. split; [|split].
  - intros g I. destruct (gsorted_bounds pg g SS I) as [B0 B1].
    unfold masses_ok in M. rewrite Forall_forall in M. pose proof (M g I) as Mg.
    unfold mass_at in *. rewrite <- M0, <- M1, <- Mg. auto.
  - unfold mass_at in NZ. rewrite <- M0. auto.
  - unfold mass_at in R. rewrite <- M0, <- M1. auto.
Qed.

(** ** finite grammars: enumeration of the completions of a state *)
Lemma fin_unfold tbl f info here :
  fin tbl (S f) info here =
  match here with
  | UEnd => true
  | UAt x => match choices_at tbl x with
             | Some cs => negb (Nat.eqb (length cs) 0)
                          && forallb (fun c : choice => fin tbl f (fst (uderive1 info (snd c))) (snd (uderive1 info (snd c)))) cs
             | None => false
             end
  end.
Proof. reflexivity. Qed.

Lemma comps_unfold tbl f info here :
  comps tbl (S f) info here =
  match here with
  | UEnd => [[]]
  | UAt x => match choices_at tbl x with
             | Some cs => flat_map (fun c : choice => map (cons c) (comps tbl f (fst (uderive1 info (snd c))) (snd (uderive1 info (snd c))))) cs
             | None => []
             end
  end.
Proof. reflexivity. Qed.

Lemma fin_mono tbl f : forall info here, fin tbl f info here = true -> fin tbl (S f) info here = true.
Proof.
  induction f as [|f IH]; intros info here H; [discriminate|].
  rewrite fin_unfold in *. destruct here as [x|]; auto. destruct (choices_at tbl x) as [cs|]; auto.
  apply andb_true_iff in H. destruct H as [H1 H2]. apply andb_true_iff. split; auto.
  rewrite forallb_forall in *. intros c I. apply IH. apply H2. auto.
Qed.

Lemma fin_le tbl f f' info here : f <= f' -> fin tbl f info here = true -> fin tbl f' info here = true.
Proof. induction 1; auto. intro. apply fin_mono. auto. Qed.

Lemma fin_step tbl f info x cs c :
  fin tbl (S f) info (UAt x) = true -> choices_at tbl x = Some cs -> In c cs ->
  fin tbl f (fst (uderive1 info (snd c))) (snd (uderive1 info (snd c))) = true.
Proof.
  intros H E I. rewrite fin_unfold, E in H. apply andb_true_iff in H. destruct H as [_ H].
  rewrite forallb_forall in H. apply H. auto.
Qed.

Lemma fin_run tbl h : forall F info here st,
  fin tbl F info here = true -> run tbl info here h = Some st -> fin tbl (F - length h) (fst st) (snd st) = true.
Proof.
  induction h as [|c h IH]; intros F info here st FN R; simpl in R.
  - inversion R; subst. simpl. rewrite Nat.sub_0_r. auto.
  - destruct here as [x|]; [|discriminate]. destruct (valid_choice tbl x c) eqn:V; [|discriminate].
    apply valid_choice_spec in V. destruct V as (cs & E & I).
    destruct F as [|f]; [discriminate|]. simpl. eapply IH; eauto. eapply fin_step; eauto.
Qed.

Lemma comps_sound tbl f : forall info here r, In r (comps tbl f info here) -> completes tbl info here r.
Proof.
  induction f as [|f IH]; intros info here r I; [contradiction|]. rewrite comps_unfold in I.
  destruct here as [x|].
  - destruct (choices_at tbl x) as [cs|] eqn:E; [|contradiction].
    apply in_flat_map in I. destruct I as (c & Ic & I). apply in_map_iff in I. destruct I as (r' & <- & I).
    econstructor; eauto.
  - destruct I as [<-|[]]. constructor.
Qed.

Lemma comps_complete tbl f : forall info here r,
  fin tbl f info here = true -> completes tbl info here r -> In r (comps tbl f info here).
Proof.
  induction f as [|f IH]; intros info here r FN C; [discriminate|]. rewrite comps_unfold.
  inversion C as [|? x cs c r' E I C']; subst.
  - left; auto.
  - rewrite E. apply in_flat_map. exists c. split; auto. apply in_map. apply IH; auto. eapply fin_step; eauto.
Qed.

Lemma nodup_app {X} (l1 l2 : list X) :
  NoDup l1 -> NoDup l2 -> (forall x, In x l1 -> ~ In x l2) -> NoDup (l1 ++ l2).
Proof.
  induction 1 as [|a l1 NI N IH]; simpl; intros N2 D; auto. constructor.
  - rewrite in_app_iff. intros [I|I]; [auto | apply (D a); auto].
  - apply IH; auto.
Qed.

Lemma nodup_map_inj {X Y} (f : X -> Y) l : (forall a b, f a = f b -> a = b) -> NoDup l -> NoDup (map f l).
Proof.
  intros Inj N. induction N as [|a l NI N IH]; simpl; constructor; auto.
  rewrite in_map_iff. intros (b & E & I). apply Inj in E. subst. auto.
Qed.

Lemma comps_nodup tbl : choices_nodup tbl -> forall f info here, NoDup (comps tbl f info here).
Proof.
  intros ND f. induction f as [|f IH]; intros info here; [constructor|]. rewrite comps_unfold.
  destruct here as [x|]; [|constructor; [intros []|constructor]].
  destruct (choices_at tbl x) as [cs|] eqn:E; [|constructor].
  pose proof (ND _ _ E) as N. clear E. induction N as [|c cs NI N IHc]; simpl; [constructor|].
  apply nodup_app; auto.
  - apply nodup_map_inj; [intros a b H; inversion H; auto | apply IH].
  - intros r I1 I2. apply in_map_iff in I1. destruct I1 as (r1 & <- & _).
    apply in_flat_map in I2. destruct I2 as (c2 & Ic & I2). apply in_map_iff in I2. destruct I2 as (r2 & E2 & _).
    inversion E2; subst. auto.
Qed.

Lemma qsum_flat_map {X Y} (h : Y -> Q) (g : X -> list Y) l :
  (qsum (map h (flat_map g l)) == qsum (map (fun c => qsum (map h (g c))) l))%Q.
Proof. induction l as [|a l IH]; simpl; [reflexivity|]. rewrite map_app, qsum_app, IH. reflexivity. Qed.

Lemma comps_sum tbl w : weights_norm tbl w -> forall f info here,
  fin tbl f info here = true -> (qsum (map (run_weight tbl w info here) (comps tbl f info here)) == 1)%Q.
Proof.
  intros WN f. induction f as [|f IH]; intros info here FN; [discriminate|]. rewrite comps_unfold.
  destruct here as [x|]; [|simpl; ring].
  destruct (choices_at tbl x) as [cs|] eqn:E; [|rewrite fin_unfold, E in FN; discriminate].
  rewrite qsum_flat_map.
  transitivity (qsum (map (fun c : choice => wt w x (fst c) (snd c)) cs)); [|apply (WN x cs E)].
  assert (G : forall c, In c cs -> fin tbl f (fst (uderive1 info (snd c))) (snd (uderive1 info (snd c))) = true).
  { intros c I. eapply fin_step; eauto. }
  clear E. induction cs as [|c cs IHc]; simpl; [reflexivity|].
  rewrite IHc by (intros; apply G; simpl; auto). apply Qplus_comp; [|reflexivity].
  rewrite map_map. cbn [run_weight].
  rewrite (qsum_map_scale (run_weight tbl w (fst (uderive1 info (snd c))) (snd (uderive1 info (snd c)))) (wt w x (fst c) (snd c))).
  rewrite (IH _ _ (G c (or_introl eq_refl))). ring.
Qed.

Lemma comps_nonempty tbl f : forall info here, fin tbl f info here = true -> comps tbl f info here <> [].
Proof.
  induction f as [|f IH]; intros info here FN; [discriminate|]. rewrite comps_unfold.
  destruct here as [x|]; [|discriminate].
  pose proof FN as FN'. rewrite fin_unfold in FN'.
  destruct (choices_at tbl x) as [cs|] eqn:E; [|discriminate].
  destruct cs as [|c cs]; [discriminate|]. simpl.
  pose proof (IH _ _ (fin_step tbl f info x (c :: cs) c FN E (or_introl eq_refl))) as NE.
  destruct (comps tbl f (fst (uderive1 info (snd c))) (snd (uderive1 info (snd c)))); [congruence|]. discriminate.
Qed.

(** ** the specified fragments *)
Section Fragments.
  Variables (tbl : utable) (w : uwtable) (sw : swtable) (F : nat).
  Hypothesis WF : wf_input tbl w sw F = true.

  Let ND : choices_nodup tbl := proj1 (wf_input_spec _ _ _ _ WF).
  Let WN : weights_norm tbl w := proj1 (proj2 (wf_input_spec _ _ _ _ WF)).
  Let FIN : forall x, In x (map fst sw) -> fin tbl F [] (UAt x) = true := proj2 (proj2 (proj2 (proj2 (wf_input_spec _ _ _ _ WF)))).

  Lemma node_fin n : node_ok tbl w sw n -> fin tbl F (ninfo n) (nnext n) = true.
  Proof.
    intros (S & R & _). pose proof (fin_run tbl _ _ _ _ _ (FIN _ S) R) as H. simpl in H.
    eapply fin_le; [|exact H]. lia.
  Qed.

  Lemma node_derivs_spec n d : node_ok tbl w sw n ->
    (In d (node_derivs tbl F n) <-> is_deriv tbl d /\ node_prefixb n d = true).
  Proof.
    intro O. pose proof O as (S & R & _). unfold node_derivs. rewrite in_map_iff. split.
    - intros (r & <- & I). apply comps_sound in I. split.
      + unfold is_deriv. simpl. eapply completes_app; eauto.
      + unfold node_prefixb. simpl. rewrite unt_eqb_refl. simpl. apply prefixb_spec. eauto.
    - intros (D & PB). unfold node_prefixb in PB. apply andb_true_iff in PB. destruct PB as [SE PR].
      apply unt_eqb_spec in SE. apply prefixb_spec in PR. destruct PR as (r & PR).
      destruct d as [ds dh]. simpl in *. subst ds dh. exists r. split; auto.
      apply comps_complete; [apply node_fin; auto|].
      unfold is_deriv in D. simpl in D. apply (completes_app_inv _ _ _ _ _ _ R D).
  Qed.

  Lemma frag_derivs_spec g d : Forall (node_ok tbl w sw) g ->
    (In d (frag_derivs tbl F g) <-> is_deriv tbl d /\ frag_memberb g d = true).
  Proof.
    intro O. rewrite Forall_forall in O. unfold frag_derivs, frag_memberb. rewrite in_flat_map, existsb_exists. split.
    - intros (n & I & H). apply node_derivs_spec in H; auto. destruct H. split; eauto.
    - intros (D & n & I & H). exists n. split; auto. apply node_derivs_spec; auto.
  Qed.

  Lemma node_derivs_nodup n : NoDup (node_derivs tbl F n).
  Proof.
    unfold node_derivs. apply nodup_map_inj; [|apply comps_nodup; auto].
    intros a b H. inversion H. eapply app_inv_head; eauto.
  Qed.

  Lemma frag_derivs_nodup g : Forall (node_ok tbl w sw) g ->
    (forall d, is_deriv tbl d -> covers g d <= 1) -> NoDup (frag_derivs tbl F g).
  Proof.
    induction g as [|n g IH]; intros O C; [constructor|]. inversion O as [|? ? On Og]; subst.
    unfold frag_derivs. simpl. apply nodup_app.
    - apply node_derivs_nodup.
    - apply IH; auto. intros d D. specialize (C d D). rewrite covers_cons in C. lia.
    - intros d I1 I2. apply node_derivs_spec in I1; auto. destruct I1 as [D P1].
      apply (frag_derivs_spec g d Og) in I2. destruct I2 as [_ P2].
      specialize (C d D). rewrite covers_cons, covers_single, P1 in C.
      rewrite frag_memberb_covers in P2. destruct (covers g d); [discriminate | lia].
  Qed.

  Lemma node_derivs_mass n : node_ok tbl w sw n ->
    (qsum (map (deriv_prob tbl w sw) (node_derivs tbl F n)) == nprob n)%Q.
  Proof.
    intro O. pose proof O as (S & R & P). unfold node_derivs. rewrite map_map.
    transitivity (qsum (map (fun r => deriv_prob tbl w sw (nstart n, nhist n) * run_weight tbl w (ninfo n) (nnext n) r)%Q
                            (comps tbl F (ninfo n) (nnext n)))).
    - apply qsum_map_ext. intros r _. unfold deriv_prob. cbn [fst snd].
      rewrite (run_weight_app tbl w (nhist n) [] (UAt (nstart n)) r _ R). cbn [fst snd]. ring.
    - rewrite (qsum_map_scale (run_weight tbl w (ninfo n) (nnext n)) (deriv_prob tbl w sw (nstart n, nhist n))).
      rewrite (comps_sum tbl w WN F _ _ (node_fin n O)), P. ring.
  Qed.

  Lemma frag_derivs_mass g : Forall (node_ok tbl w sw) g ->
    (qsum (map (deriv_prob tbl w sw) (frag_derivs tbl F g)) == mass_of g)%Q.
  Proof.
    induction g as [|n g IH]; intro O; [reflexivity|]. inversion O; subst.
    unfold frag_derivs. simpl. rewrite map_app, qsum_app. fold (frag_derivs tbl F g).
    rewrite IH by auto. rewrite node_derivs_mass by auto. unfold mass_of. simpl. reflexivity.
  Qed.

  (** inside a fragment the probabilities sum to 1 *)
  Theorem frag_sum_one g : Forall (node_ok tbl w sw) g -> ~ (mass_of g == 0)%Q ->
    (qsum (map (frag_dprob tbl w sw g) (frag_derivs tbl F g)) == 1)%Q.
  Proof.
    intros O NZ. unfold frag_dprob.
    transitivity (qsum (map (fun d => / mass_of g * deriv_prob tbl w sw d)%Q (frag_derivs tbl F g))).
    - apply qsum_map_ext. intros d _. field. exact NZ.
    - rewrite (qsum_map_scale (deriv_prob tbl w sw) (/ mass_of g)), frag_derivs_mass by auto. field. exact NZ.
  Qed.

  Theorem frag_nonempty g : Forall (node_ok tbl w sw) g -> g <> [] -> frag_derivs tbl F g <> [].
  Proof.
    intros O NE. destruct g as [|n g]; [congruence|]. inversion O; subst. unfold frag_derivs. simpl.
    pose proof (comps_nonempty tbl F _ _ (node_fin n H1)) as C. unfold node_derivs.
    destruct (comps tbl F (ninfo n) (nnext n)); [congruence|]. discriminate.
  Qed.

  (** the enumeration of the whole language *)
  Theorem all_derivs_spec d :
    In d (all_derivs tbl F (map fst sw)) <-> is_deriv tbl d /\ In (fst d) (map fst sw).
  Proof.
    unfold all_derivs. rewrite in_flat_map. split.
    - intros (x & I & H). apply in_map_iff in H. destruct H as (r & <- & H). apply comps_sound in H. auto.
    - intros (D & I). exists (fst d). split; auto. destruct d as [x r]. apply in_map. apply comps_complete; auto.
  Qed.
End Fragments.

(** ** programs: the derivations of a program are derivations of the grammar *)
Lemma choices_at_in tbl x s alts alt :
  ualts_of tbl x s = Some alts -> In alt alts -> exists cs, choices_at tbl x = Some cs /\ In (s, alt) cs.
Proof.
  unfold ualts_of, choices_at. destruct (urules_of tbl x) as [rs|]; [|discriminate]. intros A I.
  apply alookup_in in A. destruct A as (s' & E & I'). apply sym_eqb_spec in E. subst s'.
  eexists. split; [reflexivity|]. apply in_flat_map. exists (s, alts). split; auto.
  simpl. apply in_map_iff. eauto.
Qed.

Lemma unext_app' (r info : list unt) : uderive1 (r ++ info) [] = uderive1 info r.
Proof. destruct r; reflexivity. Qed.

Definition run' (tbl : utable) (st : list unt * upos) (d : list choice) := run tbl (fst st) (snd st) d.

Lemma thread_run tbl ps :
  Forall (fun a => forall x info d, In d (useqs tbl x a) -> run tbl info (UAt x) d = Some (uderive1 info [])) ps ->
  forall alt t info, In t (seq_thread (fun x' a => useqs tbl x' a) alt ps) ->
    run' tbl (uderive1 (alt ++ info) []) t = Some (uderive1 info []).
Proof.
  induction 1 as [|a pr Ha Hr IH]; intros alt t info I.
  - destruct alt; simpl in I; [|contradiction]. destruct I as [<-|[]]. unfold run'. simpl. destruct info; reflexivity.
  - destruct alt as [|x ar]; simpl in I; [contradiction|].
    apply in_flat_map in I. destruct I as (d1 & I1 & I). apply in_map_iff in I. destruct I as (t2 & <- & I2).
    unfold run'. simpl. rewrite run_app, (Ha x (ar ++ info) d1 I1). apply (IH ar t2 info I2).
Qed.

Lemma run_cons tbl info x c r : valid_choice tbl x c = true ->
  run tbl info (UAt x) (c :: r) = run tbl (fst (uderive1 info (snd c))) (snd (uderive1 info (snd c))) r.
Proof. intro V. simpl. rewrite V. reflexivity. Qed.

Lemma useqs_run tbl p : forall x info d, In d (useqs tbl x p) -> run tbl info (UAt x) d = Some (uderive1 info []).
Proof.
  induction p as [s | f ps IH] using prog_ind'; intros x info d I; simpl in I.
  - destruct (ualts_of tbl x s) as [alts|] eqn:A; [|contradiction].
    apply in_flat_map in I. destruct I as (alt & Ia & I). destruct alt; [|contradiction]. destruct I as [<-|[]].
    destruct (choices_at_in _ _ _ _ _ A Ia) as (cs & E & Ic).
    etransitivity; [apply run_cons; apply valid_choice_spec; eauto|]. simpl. destruct info; reflexivity.
  - destruct ps as [|a0 pr]; [contradiction|].
    destruct (ualts_of tbl x f) as [alts|] eqn:A; [|contradiction].
    apply in_flat_map in I. destruct I as (alt & Ia & I). apply in_map_iff in I. destruct I as (t & <- & I).
    destruct (choices_at_in _ _ _ _ _ A Ia) as (cs & E & Ic).
    etransitivity; [apply run_cons; apply valid_choice_spec; eauto|]. cbn [fst snd].
    pose proof (thread_run tbl (a0 :: pr) IH alt t info I) as T. unfold run' in T.
    rewrite unext_app' in T. exact T.
Qed.

Theorem useqs_deriv tbl x p d : In d (useqs tbl x p) -> is_deriv tbl (x, d).
Proof.
  intro I. unfold is_deriv. simpl. apply completes_run. exists []. apply (useqs_run tbl p x [] d I).
Qed.

Lemma pderivs_deriv tbl starts p d : In d (pderivs tbl starts p) -> is_deriv tbl d /\ In (fst d) starts.
Proof.
  unfold pderivs. rewrite in_flat_map. intros (x & Ix & I). apply in_map_iff in I. destruct I as (r & <- & I).
  split; auto. eapply useqs_deriv; eauto.
Qed.

(** a program with exactly one derivation is a member of exactly one specified fragment,
    with probability = probability of its derivation / mass of the group *)
Theorem program_one_fragment tbl w sw pg p d :
  inv tbl w sw (all_nodes pg) -> pderivs tbl (map fst sw) p = [d] ->
  length (filter (fun g : group => frag_member tbl (map fst sw) (fst g) p) pg) = 1 /\
  forall g, In g pg -> frag_member tbl (map fst sw) (fst g) p = true ->
            frag_prob tbl w sw (map fst sw) (fst g) p = (deriv_prob tbl w sw d / mass_of (fst g))%Q.
Proof.
  intros I E. assert (D : In d (pderivs tbl (map fst sw) p)) by (rewrite E; left; auto).
  apply pderivs_deriv in D. destruct D as [D S]. split.
  - erewrite filter_ext; [apply (groups_exactly_one tbl w sw pg d I D S)|].
    intro g. unfold frag_member. rewrite E. simpl. apply orb_false_r.
  - intros g _ M. unfold frag_member in M. rewrite E in M. simpl in M. rewrite orb_false_r in M.
    unfold frag_prob, frag_prob_m. rewrite E. simpl. rewrite M. reflexivity.
Qed.

(** ** termination of the split phase *)
Definition nfin (tbl : utable) (F : nat) (n : node) : Prop :=
  fin tbl (F - length (nhist n)) (ninfo n) (nnext n) = true.

Lemma sumnat_app a b : sumnat (a ++ b) = sumnat a + sumnat b.
Proof. induction a; simpl; lia. Qed.
Lemma sumnat_perm a b : Permutation a b -> sumnat a = sumnat b.
Proof. induction 1; simpl; lia. Qed.
Lemma nodes_size_perm tbl F a b : Permutation a b -> nodes_size tbl F a = nodes_size tbl F b.
Proof. intro P. unfold nodes_size. apply sumnat_perm. apply Permutation_map. auto. Qed.
Lemma nodes_size_app tbl F a b : nodes_size tbl F (a ++ b) = nodes_size tbl F a + nodes_size tbl F b.
Proof. unfold nodes_size. rewrite map_app. apply sumnat_app. Qed.

Lemma split_size tbl w F n ch : nfin tbl F n -> node_split tbl w n = Some ch ->
  node_size tbl F n = S (nodes_size tbl F ch) /\ Forall (nfin tbl F) ch.
Proof.
  intros FN SP. destruct (node_split_inv _ _ _ _ SP) as (x & cs & N & E & ->).
  unfold nfin, node_size in *. rewrite N in *.
  destruct (F - length (nhist n)) as [|f] eqn:EF; [discriminate|].
  assert (EF' : forall c, F - length (nhist (child w n x c)) = f).
  { intro c. unfold child. cbn [nhist]. rewrite app_length. simpl. lia. }
  split.
  - simpl. rewrite E. f_equal. unfold nodes_size. rewrite map_map. f_equal. apply map_ext. intro c.
    unfold node_size. rewrite EF'. reflexivity.
  - apply Forall_forall. intros c' I. apply in_map_iff in I. destruct I as (c & <- & I).
    unfold nfin. rewrite EF'. unfold child. cbn [ninfo nnext]. eapply fin_step; eauto.
Qed.

Lemma find_splittable_no_fuel tbl w k : forall i nodes cur, find_splittable tbl w k i nodes cur <> OutOfFuel.
Proof.
  induction k as [|k IH]; intros i nodes cur; simpl; destruct (node_split tbl w cur); try discriminate.
  destruct (pop_neg (S i) (nodes ++ [cur])) as [[c r]|]; [apply IH | discriminate].
Qed.

Theorem split_until_fuel tbl w F fuel q : forall nodes,
  Forall (nfin tbl F) nodes -> nodes_size tbl F nodes < fuel -> split_until tbl w fuel q nodes <> OutOfFuel.
Proof.
  induction fuel as [|f IH]; intros nodes FN L; [lia|]. rewrite split_until_unfold.
  destruct (q <=? length nodes); [discriminate|].
  destruct (pop_neg 1 nodes) as [[cur rest]|] eqn:P; [|discriminate].
  destruct (find_splittable tbl w (length nodes) 1 rest cur) as [[ch rest']| | | |] eqn:FS; try discriminate.
  - cbn [bindo fst snd]. apply find_splittable_spec in FS. destruct FS as (cur' & SP & P').
    apply pop_neg_perm in P.
    assert (PN : Permutation nodes (cur' :: rest')) by (rewrite P; auto).
    assert (FN' : Forall (nfin tbl F) (cur' :: rest')) by (eapply Permutation_Forall; eauto).
    inversion FN' as [|? ? Fc Fr]; subst.
    destruct (split_size tbl w F cur' ch Fc SP) as [SZ FC].
    apply IH.
    + eapply Permutation_Forall; [symmetry; apply insert_all_perm|]. apply Forall_app. auto.
    + rewrite (nodes_size_perm _ _ _ _ (insert_all_perm ch rest')), nodes_size_app.
      rewrite (nodes_size_perm _ _ _ _ PN) in L. unfold nodes_size in L at 1. simpl in L.
      fold (nodes_size tbl F rest') in L. lia.
  - exfalso. eapply find_splittable_no_fuel; eauto.
Qed.

Theorem split_phase_terminates tbl w sw F fuel q :
  wf_input tbl w sw F = true -> nodes_size tbl F (initial_nodes sw) < fuel ->
  split_until tbl w fuel q (initial_nodes sw) <> OutOfFuel.
Proof.
  intros WF L. apply (split_until_fuel tbl w F); auto.
  destruct (wf_input_spec _ _ _ _ WF) as (_ & _ & _ & _ & FIN).
  apply Forall_forall. intros n I. apply in_map_iff in I. destruct I as ([x q0] & <- & I).
  unfold nfin. cbn [nhist ninfo nnext fst length]. rewrite Nat.sub_0_r. apply FIN. apply in_map_iff. exists (x, q0). auto.
Qed.

(** ** the pinned code: what is false of it *)
(** C08-2: the in-group split reads the mass of the group where it wants its nodes: it always raises *)
Theorem pinned_try_split_raises tbl w pg gi : try_split pinned tbl w pg gi = TypeErr.
Proof. reflexivity. Qed.

Module SplitterExample.
  Definition int := TPrim 0.
  Definition nt (i : Z) : unt := (int, A i).
  Definition leaf (i : N) : sym := SPrim i int.
  Definition bin (i : N) : sym := SPrim i (TArrow int (TArrow int int)).

  (** one non-terminal, three constants of weights 3/8, 2/8, 3/8 *)
  Definition tbl1 : utable := [ (nt 0, [ (leaf 100, [[]]); (leaf 101, [[]]); (leaf 102, [[]]) ]) ].
  Definition w1 : uwtable := [ (nt 0, [ (leaf 100, [([], 3 # 8)]); (leaf 101, [([], 2 # 8)]); (leaf 102, [([], 3 # 8)]) ]) ].
  Definition sw1 : swtable := [ (nt 0, 1%Q) ].

  (** one non-terminal, two constants of weights 15/16 and 1/16 *)
  Definition tbl2 : utable := [ (nt 0, [ (leaf 100, [[]]); (leaf 101, [[]]) ]) ].
  Definition w2 : uwtable := [ (nt 0, [ (leaf 100, [([], 15 # 16)]); (leaf 101, [([], 1 # 16)]) ]) ].

  (** S -> f A A, A -> a | b | c with weights 5/16, 7/16, 4/16: 9 programs *)
  Definition tbl3 : utable :=
    [ (nt 0, [ (bin 100, [[nt 1; nt 1]]) ]); (nt 1, [ (leaf 101, [[]]); (leaf 102, [[]]); (leaf 103, [[]]) ]) ].
  Definition w3 : uwtable :=
    [ (nt 0, [ (bin 100, [([nt 1; nt 1], 1%Q)]) ]);
      (nt 1, [ (leaf 101, [([], 5 # 16)]); (leaf 102, [([], 7 # 16)]); (leaf 103, [([], 4 # 16)]) ]) ].

  Definition masses (r : outcome (list group * Q)) : list Q :=
    match r with Ok (pg, _) => map (fun g : group => Qred (mass_of (fst g))) pg | _ => [] end.
  Definition ratio (r : outcome (list group * Q)) : option Q :=
    match r with Ok (_, q) => Some (Qred q) | _ => None end.
  Definition sizes (r : outcome (list group * Q)) : list nat :=
    match r with Ok (pg, _) => map (fun g : group => length (fst g)) pg | _ => [] end.

  (** the hypotheses of the theorems hold of the examples (non-vacuity) *)
  Example ex_wf : wf_input tbl1 w1 sw1 3 = true /\ wf_input tbl2 w2 sw1 3 = true /\ wf_input tbl3 w3 sw1 5 = true.
  Proof. vm_compute. auto. Qed.

  (** C08-6 / C08-7: the pinned loop returns 3/5 for groups of mass 5/8 and 3/8; repaired: 5/3 *)
  Example ex_ratio_pinned :
    masses (split_into_nodes pinned tbl1 w1 sw1 50 2 (21 # 20)) = [5 # 8; 3 # 8]
    /\ ratio (split_into_nodes pinned tbl1 w1 sw1 50 2 (21 # 20)) = Some (3 # 5).
  Proof. vm_compute. auto. Qed.
  Example ex_ratio_repaired :
    masses (split_into_nodes repaired tbl1 w1 sw1 50 2 (21 # 20)) = [3 # 8; 5 # 8]
    /\ ratio (split_into_nodes repaired tbl1 w1 sw1 50 2 (21 # 20)) = Some (5 # 3).
  Proof. vm_compute. auto. Qed.

  (** C08-4 (and C08-5): the planned exchange with the node at index 0 is carried out as a
      one-way move that empties a group: one fragment instead of two, "ratio" 0 *)
  Example ex_empty_pinned :
    sizes (split_into_nodes pinned tbl2 w2 sw1 50 2 (21 # 20)) = [2; 0]
    /\ ratio (split_into_nodes pinned tbl2 w2 sw1 50 2 (21 # 20)) = Some 0%Q.
  Proof. vm_compute. auto. Qed.
  Example ex_empty_repaired :
    sizes (split_into_nodes repaired tbl2 w2 sw1 50 2 (21 # 20)) = [1; 1]
    /\ ratio (split_into_nodes repaired tbl2 w2 sw1 50 2 (21 # 20)) = Some 15%Q.
  Proof. vm_compute. auto. Qed.

  (** C08-3: with every other repair but this one, the in-group split removes position -i of the
      unsorted group: the node it split stays, another one is lost; the node probabilities no
      longer sum to 1 (they do with the repair) *)
  Definition all_but_remove : fixes := mkFixes true false true true true true.
  Definition total (r : outcome (list group * Q)) : option Q :=
    match r with Ok (pg, _) => Some (Qred (qsum (map nprob (all_nodes pg)))) | _ => None end.
  Example ex_remove_pinned : total (split_into_nodes all_but_remove tbl3 w3 sw1 50 2 (21 # 20)) = Some (87 # 64).
  Proof. vm_compute. auto. Qed.
  Example ex_remove_repaired : total (split_into_nodes repaired tbl3 w3 sw1 50 2 (21 # 20)) = Some 1%Q.
  Proof. vm_compute. auto. Qed.
End SplitterExample.

(** ** the repaired loop returns exactly [splits] groups, none of them empty *)
Definition sz (pg : list group) (i : nat) : nat := length (fst (gnth pg i)).
Definition all_nonempty (pg : list group) : Prop := Forall (fun g : group => fst g <> []) pg.

Lemma gnth_set_nth pg i x i' :
  gnth (set_nth i x pg) i' = if (i' =? i) && (i <? length pg) then x else gnth pg i'.
Proof.
  unfold gnth. destruct (nth_error pg i) as [a|] eqn:E.
  - destruct (set_nth_split i x pg a E) as (l1 & l2 & -> & -> & L).
    assert (LT : i <? length (l1 ++ a :: l2) = true) by (apply Nat.ltb_lt; rewrite app_length; simpl; lia).
    rewrite LT, andb_true_r. destruct (Nat.eqb_spec i' i) as [->|NE].
    + rewrite app_nth2 by lia. replace (i - length l1) with 0 by lia. reflexivity.
    + destruct (Nat.lt_ge_cases i' (length l1)).
      * rewrite !app_nth1 by lia. reflexivity.
      * rewrite !app_nth2 by lia. destruct (i' - length l1) as [|m] eqn:D; [lia|]. reflexivity.
  - rewrite (set_nth_none i x pg E). apply nth_error_None in E.
    replace (i <? length pg) with false by (symmetry; apply Nat.ltb_ge; auto). rewrite andb_false_r. reflexivity.
Qed.

Lemma all_nonempty_sz pg : all_nonempty pg <-> forall i, i < length pg -> sz pg i <> 0.
Proof.
  unfold all_nonempty, sz, gnth. rewrite Forall_nth. split.
  - intros H i L. specialize (H i ([], 0%Q) L). destruct (fst (nth i pg ([], 0%Q))); simpl; congruence.
  - intros H i d L. specialize (H i L). rewrite (nth_indep pg d ([], 0%Q) L).
    destruct (fst (nth i pg ([], 0%Q))); simpl in *; congruence.
Qed.

Lemma nth_error_gnth pg i g : nth_error pg i = Some g -> gnth pg i = g /\ i < length pg.
Proof.
  intro E. split; [unfold gnth; apply nth_error_nth; auto | apply nth_error_Some; congruence].
Qed.

Lemma g_pop_sz pg i k n pg' : g_pop pg i k = Some (n, pg') ->
  i < length pg /\ sz pg i <> 0 /\ length pg' = length pg /\
  forall i', sz pg' i' = if i' =? i then sz pg i - 1 else sz pg i'.
Proof.
  unfold g_pop. destruct (nth_error pg i) as [g|] eqn:E; [|discriminate].
  destruct (pop_at k (fst g)) as [[n0 rest]|] eqn:P; [|discriminate]. intro H; inversion H; subst n0 pg'. clear H.
  destruct (nth_error_gnth pg i g E) as [G L]. apply pop_at_length in P.
  split; auto. split; [unfold sz; rewrite G; lia|]. split; [apply set_nth_length|].
  intro i'. unfold sz. rewrite gnth_set_nth.
  replace (i <? length pg) with true by (symmetry; apply Nat.ltb_lt; auto). rewrite andb_true_r.
  destruct (i' =? i); auto. cbn [fst]. rewrite G. lia.
Qed.

Lemma g_push_sz pg i n pg' : g_push pg i n = Some pg' ->
  i < length pg /\ length pg' = length pg /\
  forall i', sz pg' i' = if i' =? i then S (sz pg i) else sz pg i'.
Proof.
  unfold g_push. destruct (nth_error pg i) as [g|] eqn:E; [|discriminate]. intro H; inversion H; subst pg'. clear H.
  destruct (nth_error_gnth pg i g E) as [G L].
  split; auto. split; [apply set_nth_length|].
  intro i'. unfold sz. rewrite gnth_set_nth.
  replace (i <? length pg) with true by (symmetry; apply Nat.ltb_lt; auto). rewrite andb_true_r.
  destruct (i' =? i); auto. cbn [fst]. rewrite G, app_length. simpl. lia.
Qed.

Definition mv_ok (pg : list group) (mv : swapmove) : Prop :=
  match snd (fst mv) with Some _ => True | None => 2 <= sz pg (fst (fst mv)) end.

Lemma sort_by_nonempty pg : all_nonempty pg -> all_nonempty (sort_by snd pg).
Proof. intro H. unfold all_nonempty. eapply Permutation_Forall; [symmetry; apply sort_by_perm | exact H]. Qed.

Lemma apply_swap_nonempty pg gi mv pg' :
  all_nonempty pg -> mv_ok pg mv -> apply_swap repaired pg gi mv = Ok pg' -> all_nonempty pg'.
Proof.
  intros NE OK. unfold apply_swap. destruct mv as [[j k] l]. unfold mv_ok in OK. cbn [fst snd] in *.
  cbn [fx_knone fx_sort repaired]. rewrite all_nonempty_sz in NE.
  destruct k as [kk|].
  - destruct (g_pop pg gi kk) as [[na pg1]|] eqn:P1; [|discriminate]. cbn [oo bindo fst snd].
    destruct (g_push pg1 j na) as [pg2|] eqn:P2; [|discriminate]. cbn [oo bindo].
    destruct (g_pop pg2 j l) as [[nb pg3]|] eqn:P3; [|discriminate]. cbn [oo bindo fst snd].
    destruct (g_push pg3 gi nb) as [pg4|] eqn:P4; [|discriminate]. cbn [oo bindo]. intro H; inversion H; subst pg'.
    apply sort_by_nonempty. apply all_nonempty_sz.
    apply g_pop_sz in P1. apply g_push_sz in P2. apply g_pop_sz in P3. apply g_push_sz in P4.
    destruct P1 as (L1 & Z1 & E1 & S1), P2 as (L2 & E2 & S2), P3 as (L3 & Z3 & E3 & S3), P4 as (L4 & E4 & S4).
    intros i' Li. rewrite S4. rewrite !S3. rewrite !S2. rewrite !S1.
    assert (Li' : i' < length pg) by lia. pose proof (NE i' Li') as N1. pose proof (NE j) as N2.
    assert (Lj : j < length pg) by lia. specialize (N2 Lj).
    destruct (Nat.eqb_spec i' gi), (Nat.eqb_spec i' j), (Nat.eqb_spec j gi), (Nat.eqb_spec j j); subst; try lia.
  - cbn [bindo].
    destruct (g_pop pg j l) as [[nb pg3]|] eqn:P3; [|discriminate]. cbn [oo bindo fst snd].
    destruct (g_push pg3 gi nb) as [pg4|] eqn:P4; [|discriminate]. cbn [oo bindo]. intro H; inversion H; subst pg'.
    apply sort_by_nonempty. apply all_nonempty_sz.
    apply g_pop_sz in P3. apply g_push_sz in P4.
    destruct P3 as (L3 & Z3 & E3 & S3), P4 as (L4 & E4 & S4).
    intros i' Li. rewrite S4. rewrite !S3. assert (Li' : i' < length pg) by lia. pose proof (NE i' Li') as N1.
    destruct (Nat.eqb_spec i' gi), (Nat.eqb_spec i' j); subst; try lia.
Qed.

(** __find_swap_for_group__ (repaired) proposes a take only from a group of two nodes or more *)
Definition fs_ok (pg : list group) (st : fstate) : Prop :=
  match fst st with Some mv => mv_ok pg mv | None => True end.

Lemma consider_ok pg mv score st : fs_ok pg st -> mv_ok pg mv -> fs_ok pg (consider mv score st).
Proof. intros S M. unfold consider. destruct (xltb score (snd st)); auto. Qed.

Lemma fold_left_ok {X} pg (f : fstate -> X -> fstate) l :
  (forall st x, fs_ok pg st -> fs_ok pg (f st x)) -> forall st, fs_ok pg st -> fs_ok pg (fold_left f l st).
Proof. intro H. induction l as [|x l IH]; simpl; auto. Qed.

Lemma find_swap_ok pg gi mv : find_swap repaired pg gi = Some mv -> mv_ok pg mv.
Proof.
  unfold find_swap. cbn [fx_score fx_take repaired andb].
  match goal with |- fst ?F = _ -> _ => assert (K : fs_ok pg F) end.
  { apply fold_left_ok; [|unfold fs_ok; simpl; auto]. intros st i S.
    match goal with |- fs_ok pg (if _ then ?A else _) => assert (K1 : fs_ok pg A) end.
    { apply fold_left_ok; auto. intros st1 ja S1. apply fold_left_ok; auto. intros st2 kb S2.
      destruct (qltb _ _); auto. apply consider_ok; auto. unfold mv_ok. simpl. auto. }
    destruct (length (fst (gnth pg i)) <? 2) eqn:LT; auto.
    apply fold_left_ok; auto. intros st1 kb S1. apply consider_ok; auto.
    unfold mv_ok, sz. cbn [fst snd]. apply Nat.ltb_ge in LT. auto. }
  intro H. unfold fs_ok in K. rewrite H in K. exact K.
Qed.

Lemma first_swap_ok pg gis : forall gi mv, first_swap repaired pg gis = Some (gi, mv) -> mv_ok pg mv.
Proof.
  induction gis as [|g r IH]; simpl; intros gi mv H; [discriminate|].
  destruct (find_swap repaired pg g) as [m|] eqn:F.
  - inversion H; subst. eapply find_swap_ok; eauto.
  - eauto.
Qed.

Lemma try_split_go_ge tbl w n sorted fuel : forall i i' res, try_split_go tbl w n sorted fuel i = (i', res) -> i <= i'.
Proof.
  induction fuel as [|f IH]; intros i i' res H; simpl in H;
    destruct (nth_error sorted (n - i)) as [cand|]; try (inversion H; subst; lia);
    destruct (node_split tbl w (snd cand)); try (inversion H; subst; lia).
  destruct (i <? n); [|inversion H; subst; lia]. apply IH in H. lia.
Qed.

Lemma set_nth_forall {X} (P : X -> Prop) i x l : Forall P l -> P x -> Forall P (set_nth i x l).
Proof.
  intros F Px. destruct (nth_error l i) as [a|] eqn:E.
  - destruct (set_nth_split i x l a E) as (l1 & l2 & -> & -> & _). apply Forall_app in F. destruct F as [F1 F2].
    inversion F2; subst. apply Forall_app. split; auto.
  - rewrite (set_nth_none i x l E). auto.
Qed.

Lemma try_split_nonempty tbl w pg gi pg' :
  all_nonempty pg -> try_split repaired tbl w pg gi = Ok (Some pg') -> all_nonempty pg'.
Proof.
  intro NE. unfold try_split. cbn [fx_group fx_remove repaired negb].
  set (ga := fst (gnth pg gi)). destruct (length ga) as [|n'] eqn:LN; [discriminate|].
  set (n := S n') in *. set (sorted := sort_by _ (enumerate ga)).
  destruct (try_split_go tbl w n sorted n 1) as [i' res] eqn:G. cbn [fst snd].
  destruct (n <=? i') eqn:LE; [discriminate|]. destruct res as [[orig ch]|]; [|discriminate].
  destruct (pop_at orig ga) as [[x ga']|] eqn:P; [|discriminate]. intro H; inversion H; subst pg'. clear H.
  apply try_split_go_ge in G. apply Nat.leb_gt in LE. apply pop_at_length in P.
  apply set_nth_forall; auto. cbn [fst]. destruct ga'; [simpl in P; lia | discriminate].
Qed.

Lemma first_split_nonempty tbl w pg gis pg' :
  all_nonempty pg -> first_split repaired tbl w pg gis = Ok (Some pg') -> all_nonempty pg'.
Proof.
  intros NE H. apply first_split_spec in H. destruct H as (gi & T). eapply try_split_nonempty; eauto.
Qed.

Lemma balance_step_nonempty tbl w splits th pg r :
  all_nonempty pg -> balance_step repaired tbl w splits th pg = Ok r ->
  match r with Done pg' _ => all_nonempty pg' | Continue pg' => all_nonempty pg' end.
Proof.
  intro NE. unfold balance_step.
  destruct (match ratio_of pg with XFin r0 => Qle_bool r0 th | XInf => false | XNan => true end).
  - intro H; inversion H; subst. auto.
  - destruct (first_swap repaired pg (seq 0 (splits - 1))) as [[gi mv]|] eqn:FS.
    + destruct (apply_swap repaired pg gi mv) as [pg1| | | |] eqn:A; try discriminate. cbn [bindo].
      intro H; inversion H; subst. eapply apply_swap_nonempty; eauto. eapply first_swap_ok; eauto.
    + destruct (first_split repaired tbl w pg (rev (seq 1 (splits - 1)))) as [[pg1|]| | | |] eqn:FP; try discriminate; cbn [bindo].
      * intro H; inversion H; subst. eapply first_split_nonempty; eauto.
      * intro H; inversion H; subst. auto.
Qed.

Lemma balance_nonempty tbl w fuel splits th : forall pg pg' r,
  all_nonempty pg -> balance repaired tbl w fuel splits th pg = Ok (pg', r) -> all_nonempty pg'.
Proof.
  induction fuel as [|f IH]; intros pg pg' r NE H; simpl in H; [discriminate|].
  destruct (balance_step repaired tbl w splits th pg) as [sr| | | |] eqn:B; try discriminate. cbn [bindo] in H.
  apply balance_step_nonempty in B; auto. destruct sr as [pg1 ratio|pg1].
  - destruct ratio; try discriminate. inversion H; subst. auto.
  - eapply IH; eauto.
Qed.

Lemma make_groups_nonempty splits nodes : Forall (fun g : list node => g <> []) (make_groups splits nodes).
Proof.
  unfold make_groups. destruct (firstn splits nodes) as [|n0 r]; simpl; [constructor|].
  constructor; [discriminate|]. apply Forall_forall. intros g I. apply in_map_iff in I. destruct I as (n & <- & _). discriminate.
Qed.

Lemma make_groups_length splits nodes : splits <= length nodes -> length (make_groups splits nodes) = splits.
Proof.
  intro L. unfold make_groups.
  assert (E : length (map (fun n : node => [n]) (firstn splits nodes)) = splits) by (rewrite map_length, firstn_length; lia).
  destruct (map (fun n : node => [n]) (firstn splits nodes)); simpl in *; auto.
Qed.

Theorem groups_nonempty tbl w sw fuel splits th pg r :
  split_into_nodes repaired tbl w sw fuel splits th = Ok (pg, r) ->
  length pg = splits /\ all_nonempty pg.
Proof.
  intro H. unfold split_into_nodes in H.
  destruct (split_until tbl w fuel splits (initial_nodes sw)) as [nodes| | | |] eqn:SU; try discriminate. cbn [bindo] in H.
  apply split_until_reach in SU. destruct SU as [_ LQ].
  assert (NE0 : all_nonempty (initial_groups splits nodes)).
  { unfold initial_groups. apply sort_by_nonempty. unfold all_nonempty. rewrite Forall_map. cbn [fst]. apply make_groups_nonempty. }
  split.
  - apply balance_spec in H. destruct H as [(_ & L & _) _]. eapply eq_trans; [exact L|]. unfold initial_groups.
    eapply eq_trans; [apply Permutation_length; apply sort_by_perm|].
    eapply eq_trans; [apply map_length|]. apply make_groups_length; auto.
  - eapply balance_nonempty; eauto.
Qed.

(** ** packaged statements about the fragments of the groups *)
Lemma group_nodes_ok tbl w sw pg g : inv tbl w sw (all_nodes pg) -> In g pg -> Forall (node_ok tbl w sw) (fst g).
Proof.
  intros I G. pose proof (inv_ok _ _ _ _ I) as O. rewrite Forall_forall in *. intros n N. apply O.
  unfold all_nodes. apply in_flat_map. eauto.
Qed.

Lemma group_covers_le_any tbl w sw pg g d :
  inv tbl w sw (all_nodes pg) -> In g pg -> is_deriv tbl d -> covers (fst g) d <= 1.
Proof.
  intros I G D. destruct (memb unt_eqb (fst d) (map fst sw)) eqn:M.
  - apply (memb_spec unt_eqb unt_eqb_spec) in M. eapply group_covers_le; eauto.
  - pose proof (group_nodes_ok _ _ _ _ _ I G) as O. unfold covers.
    assert (Z : filter (fun n => node_prefixb n d) (fst g) = []).
    { rewrite Forall_forall in O. induction (fst g) as [|n l IH]; simpl; auto.
      destruct (node_prefixb n d) eqn:P.
      - exfalso. unfold node_prefixb in P. apply andb_true_iff in P. destruct P as [P _]. apply unt_eqb_spec in P.
        destruct (O n (or_introl eq_refl)) as (S & _). rewrite P in S.
        apply (memb_spec unt_eqb unt_eqb_spec) in S. congruence.
      - apply IH. intros; apply O; right; auto. }
    rewrite Z. simpl. lia.
Qed.

Theorem fragment_language tbl w sw F pg g :
  wf_input tbl w sw F = true -> inv tbl w sw (all_nodes pg) -> In g pg ->
  NoDup (frag_derivs tbl F (fst g)) /\
  forall d, In d (frag_derivs tbl F (fst g)) <-> is_deriv tbl d /\ frag_memberb (fst g) d = true.
Proof.
  intros WF I G. pose proof (group_nodes_ok _ _ _ _ _ I G) as O. split.
  - apply (frag_derivs_nodup tbl w sw F WF); auto. intros d D. eapply group_covers_le_any; eauto.
  - intro d. apply (frag_derivs_spec tbl w sw F WF); auto.
Qed.

Theorem fragment_sum tbl w sw F pg g :
  wf_input tbl w sw F = true -> inv tbl w sw (all_nodes pg) -> In g pg -> ~ (mass_of (fst g) == 0)%Q ->
  (qsum (map (frag_dprob tbl w sw (fst g)) (frag_derivs tbl F (fst g))) == 1)%Q.
Proof. intros WF I G NZ. apply (frag_sum_one tbl w sw F WF); auto. eapply group_nodes_ok; eauto. Qed.

Theorem fragment_nonempty tbl w sw F pg g :
  wf_input tbl w sw F = true -> inv tbl w sw (all_nodes pg) -> In g pg -> fst g <> [] ->
  frag_derivs tbl F (fst g) <> [].
Proof. intros WF I G NE. apply (frag_nonempty tbl w sw F WF); auto. eapply group_nodes_ok; eauto. Qed.

(** ** refutations for the pinned code *)
Import SplitterExample.

Theorem pinned_ratio_below_one :
  exists tbl w sw F fuel splits th pg r,
    wf_input tbl w sw F = true /\ split_into_nodes pinned tbl w sw fuel splits th = Ok (pg, r) /\ (r < 1)%Q
    /\ map (fun g : group => Qred (mass_of (fst g))) pg = [5 # 8; 3 # 8].
Proof.
  exists tbl1, w1, sw1, 3, 50, 2, (21 # 20).
  destruct (split_into_nodes pinned tbl1 w1 sw1 50 2 (21 # 20)) as [[pg r]| | | |] eqn:E;
    try (vm_compute in E; discriminate).
  exists pg, r. split; [vm_compute; reflexivity|]. split; [reflexivity|].
  assert (R : pg = fst (match split_into_nodes pinned tbl1 w1 sw1 50 2 (21 # 20) with Ok x => x | _ => ([], 0%Q) end)
              /\ r = snd (match split_into_nodes pinned tbl1 w1 sw1 50 2 (21 # 20) with Ok x => x | _ => ([], 0%Q) end))
    by (rewrite E; auto).
  destruct R as [-> ->]. split; vm_compute; reflexivity.
Qed.

Theorem pinned_empty_group :
  exists tbl w sw F fuel splits th pg r,
    wf_input tbl w sw F = true /\ split_into_nodes pinned tbl w sw fuel splits th = Ok (pg, r) /\
    existsb (fun g : group => Nat.eqb (length (fst g)) 0) pg = true.
Proof.
  exists tbl2, w2, sw1, 3, 50, 2, (21 # 20).
  destruct (split_into_nodes pinned tbl2 w2 sw1 50 2 (21 # 20)) as [[pg r]| | | |] eqn:E;
    try (vm_compute in E; discriminate).
  exists pg, r. split; [vm_compute; reflexivity|]. split; [reflexivity|].
  assert (R : pg = fst (match split_into_nodes pinned tbl2 w2 sw1 50 2 (21 # 20) with Ok x => x | _ => ([], 0%Q) end))
    by (rewrite E; auto).
  rewrite R. vm_compute. reflexivity.
Qed.

Theorem wrong_node_removed :
  exists tbl w sw F fuel splits th pg r,
    wf_input tbl w sw F = true /\ split_into_nodes all_but_remove tbl w sw fuel splits th = Ok (pg, r) /\
    ~ (qsum (map nprob (all_nodes pg)) == 1)%Q.
Proof.
  exists tbl3, w3, sw1, 5, 50, 2, (21 # 20).
  destruct (split_into_nodes all_but_remove tbl3 w3 sw1 50 2 (21 # 20)) as [[pg r]| | | |] eqn:E;
    try (vm_compute in E; discriminate).
  exists pg, r. split; [vm_compute; reflexivity|]. split; [reflexivity|].
  assert (R : pg = fst (match split_into_nodes all_but_remove tbl3 w3 sw1 50 2 (21 # 20) with Ok x => x | _ => ([], 0%Q) end))
    by (rewrite E; auto).
  rewrite R. vm_compute. discriminate.
Qed.
