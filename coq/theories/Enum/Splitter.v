(** Grammar splitter: executable model of
    synth/syntax/grammars/enumeration/grammar_splitter.py over exact rationals.

    A *node* is a derivation prefix of the unambiguous grammar: the start symbol,
    the (rule, alternative) choices made so far in pre-order (leftmost
    derivation), the pending stack, the next non-terminal and the probability of
    the prefix.  Modelled step by step: __node_split__,
    __split_nodes_until_quantity_reached__ (bisect insertion, the index juggling
    with i), the grouping of __split_into_nodes__, __find_swap_for_group__,
    __apply_swap__ with the percolations, __try_split_node_in_group__, the balance
    loop (explicit fuel) and the returned ratio.

    The record [fixes] selects, defect by defect, the behaviour of the pinned code
    or of the repaired code (proposed_fixes/C08-2 .. C08-7; C08-1 rewrites the
    reconstruction of the fragments, which is specified here, not modelled).  [pinned] is the
    code as found, [repaired] the code the theorems of Props/C08.v are about.

    The reconstruction of the fragment grammars (__pcfg_from__) is not modelled
    algorithmically: [frag_member] / [frag_prob] are its specified observable
    behaviour (the programs whose derivation starts with the prefix of a node of
    the group, original probability divided by the mass of the group). *)
From Coq Require Import ZArith NArith QArith List Bool Lia.
From PS Require Import Base.ListX Base.Sexp Base.Ty Base.Value Base.Prog Gram.Det Gram.U.
Import ListNotations.
Local Open Scope nat_scope.

(** ---- outcomes: the Python exceptions that matter are values ---- *)
Inductive outcome (X : Type) : Type :=
| Ok (x : X)
| OutOfFuel        (* the model ran out of fuel: a potential non-termination *)
| IndexErr         (* IndexError (pop from an empty list / index out of range) *)
| TypeErr          (* TypeError: 'numpy.float64' object is not iterable *)
| DivZero.         (* the ratio returned is inf or nan: division by the zero mass of an emptied group *)
Arguments Ok {X} x.
Arguments OutOfFuel {X}.
Arguments IndexErr {X}.
Arguments TypeErr {X}.
Arguments DivZero {X}.

Definition bindo {X Y} (o : outcome X) (f : X -> outcome Y) : outcome Y :=
  match o with
  | Ok x => f x
  | OutOfFuel => OutOfFuel
  | IndexErr => IndexErr
  | TypeErr => TypeErr
  | DivZero => DivZero
  end.

(** ---- which repairs are applied ---- *)
Record fixes : Type := mkFixes {
  fx_group : bool;   (* C08-2: __try_split_node_in_group__ reads the group, not its mass *)
  fx_remove : bool;  (* C08-3: ... and removes the node it split, not position -i of the unsorted group *)
  fx_knone : bool;   (* C08-4: __apply_swap__ tests "k is not None" instead of "k" *)
  fx_sort : bool;    (* C08-7: the groups are sorted by mass again after a swap *)
  fx_take : bool;    (* C08-5: a take never removes the last node of a group *)
  fx_score : bool    (* C08-6: a move is scored by the ratio it leads to *)
}.
Definition pinned : fixes := mkFixes false false false false false false.
Definition repaired : fixes := mkFixes true true true true true true.

(** ---- rational helpers ---- *)
(** reduction to lowest terms: equal as a rational ([Qred_correct]); keeps the
    extracted arithmetic small *)
Definition qr (q : Q) : Q := Qred q.
Definition qltb (a b : Q) : bool := negb (Qle_bool b a).
Definition qmax (a b : Q) : Q := if Qle_bool a b then b else a.
Definition qmin (a b : Q) : Q := if Qle_bool a b then a else b.
Definition qmaxl (l : list Q) : Q := match l with [] => 0%Q | x :: r => fold_left qmax r x end.
Definition qminl (l : list Q) : Q := match l with [] => 0%Q | x :: r => fold_left qmin r x end.
(** numpy.float64 division of non-negative masses: x/0 is inf (and a RuntimeWarning), 0/0 is nan;
    comparisons with nan are false *)
Inductive xq : Type := XFin (q : Q) | XInf | XNan.
Definition xdiv (a b : Q) : xq :=
  if Qeq_bool b 0 then (if Qeq_bool a 0 then XNan else XInf) else XFin (a / b)%Q.
Definition xltb (a b : xq) : bool :=
  match a, b with
  | XFin x, XFin y => qltb x y
  | XFin _, XInf => true
  | _, _ => false
  end.

(** ---- list helpers (Python list operations) ---- *)
Definition pop_at {X} (i : nat) (l : list X) : option (X * list X) :=
  match nth_error l i with
  | Some x => Some (x, firstn i l ++ skipn (S i) l)
  | None => None
  end.
(** l.pop(-i), i >= 1 *)
Definition pop_neg {X} (i : nat) (l : list X) : option (X * list X) :=
  if (i =? 0) || (length l <? i) then None else pop_at (length l - i) l.
Definition insert_at {X} (i : nat) (x : X) (l : list X) : list X := firstn i l ++ x :: skipn i l.
Definition set_nth {X} (i : nat) (x : X) (l : list X) : list X :=
  match nth_error l i with
  | Some _ => firstn i l ++ x :: skipn (S i) l
  | None => l
  end.
Definition enumerate {X} (l : list X) : list (nat * X) := combine (seq 0 (length l)) l.
(** sorted(l, key=..): stable *)
Fixpoint insert_by {X} (key : X -> Q) (x : X) (l : list X) : list X :=
  match l with
  | [] => [x]
  | y :: r => if Qle_bool (key x) (key y) then x :: l else y :: insert_by key x r
  end.
Definition sort_by {X} (key : X -> Q) (l : list X) : list X := fold_right (insert_by key) [] l.
Definition swap_adj {X} (l : list X) (i : nat) : list X :=
  match nth_error l i, nth_error l (S i) with
  | Some a, Some b => firstn i l ++ b :: a :: skipn (S (S i)) l
  | _, _ => l
  end.

(** ---- nodes ---- *)
Definition choice : Type := sym * ualt.
Definition choice_eqb (a b : choice) : bool := sym_eqb (fst a) (fst b) && ualt_eqb (snd a) (snd b).

Record node : Type := mkNode {
  nprob : Q;
  nstart : unt;
  ninfo : list unt;        (* for_next_derivation[0]: the pending stack *)
  nnext : upos;            (* for_next_derivation[1] *)
  nhist : list choice      (* program / choices, in order *)
}.

Definition wt (w : uwtable) (x : unt) (s : sym) (alt : ualt) : Q :=
  match uweight_of w x s alt with Some q => q | None => 0%Q end.

(** the (rule, alternative) pairs of a non-terminal in the order of the loops of __node_split__ *)
Definition choices_at (tbl : utable) (x : unt) : option (list choice) :=
  match urules_of tbl x with
  | Some rs => Some (flat_map (fun r : urule => map (fun alt => (fst r, alt)) (snd r)) rs)
  | None => None
  end.

Definition child (w : uwtable) (n : node) (x : unt) (c : choice) : node :=
  let st := uderive1 (ninfo n) (snd c) in
  mkNode (qr (nprob n * wt w x (fst c) (snd c))) (nstart n) (fst st) (snd st) (nhist n ++ [c]).

(** __node_split__: None = (False, [node]) *)
Definition node_split (tbl : utable) (w : uwtable) (n : node) : option (list node) :=
  match nnext n with
  | UEnd => None
  | UAt x => match choices_at tbl x with
             | Some cs => Some (map (child w n x) cs)
             | None => None
             end
  end.

Definition initial_nodes (sw : swtable) : list node :=
  map (fun xq : unt * Q => mkNode (snd xq) (fst xq) [] (UAt (fst xq)) []) sw.

(** bisect.bisect(nodes, new_node): the binary search itself (the list is not
    always sorted when it is called) *)
Fixpoint bisect_go (fuel lo hi : nat) (x : Q) (l : list node) : nat :=
  match fuel with
  | O => lo
  | S f =>
    if lo <? hi then
      let mid := Nat.div (lo + hi) 2 in
      match nth_error l mid with
      | Some y => if qltb x (nprob y) then bisect_go f lo mid x l else bisect_go f (S mid) hi x l
      | None => lo
      end
    else lo
  end.
Definition bisect (l : list node) (x : Q) : nat := bisect_go (S (length l)) 0 (length l) x l.

Definition insert_all (nodes children : list node) : list node :=
  fold_left (fun ns c => insert_at (bisect ns (nprob c)) c ns) children nodes.

(** the inner "while not success" loop: cur was popped, i is the Python i *)
Fixpoint find_splittable (tbl : utable) (w : uwtable) (k i : nat) (nodes : list node) (cur : node)
  : outcome (list node * list node) :=
  match node_split tbl w cur with
  | Some ch => Ok (ch, nodes)
  | None =>
    match k with
    | O => IndexErr
    | S k' =>
      match pop_neg (S i) (nodes ++ [cur]) with
      | Some (cur', nodes') => find_splittable tbl w k' (S i) nodes' cur'
      | None => IndexErr
      end
    end
  end.

(** __split_nodes_until_quantity_reached__ *)
Fixpoint split_until (tbl : utable) (w : uwtable) (fuel quantity : nat) (nodes : list node) : outcome (list node) :=
  if quantity <=? length nodes then Ok nodes else
  match fuel with
  | O => OutOfFuel
  | S f =>
    match pop_neg 1 nodes with
    | None => IndexErr
    | Some (cur, rest) =>
      bindo (find_splittable tbl w (length nodes) 1 rest cur)
            (fun cr => split_until tbl w f quantity (insert_all (snd cr) (fst cr)))
    end
  end.

(** ---- groups ---- *)
Definition group : Type := list node * Q.          (* [nodes, tracked mass] *)
Definition mass_of (g : list node) : Q := qsum (map nprob g).
Definition gnth (pg : list group) (i : nat) : group := nth i pg ([], 0%Q).
Definition mass_at (pg : list group) (i : nat) : Q := snd (gnth pg i).

(** first [splits] nodes one per group, the others appended to the first group *)
Definition make_groups (splits : nat) (nodes : list node) : list (list node) :=
  match map (fun n => [n]) (firstn splits nodes) with
  | [] => []
  | g0 :: gs => (g0 ++ skipn splits nodes) :: gs
  end.

Definition initial_groups (splits : nat) (nodes : list node) : list group :=
  sort_by snd (map (fun g => (g, qr (mass_of g))) (make_groups splits nodes)).

(** ---- __find_swap_for_group__ ---- *)
Definition swapmove : Type := nat * option nat * nat.       (* (other group, node given or None, node taken) *)
Definition fstate : Type := option swapmove * xq.           (* best_swap, current_score *)

Definition consider (mv : swapmove) (score : xq) (st : fstate) : fstate :=
  if xltb score (snd st) then (Some mv, score) else st.

Definition mapi {X Y} (f : nat -> X -> Y) (l : list X) : list Y := map (fun ix => f (fst ix) (snd ix)) (enumerate l).

(** repaired score: heaviest / lightest once group gi has mass na and group i mass nb *)
Definition score_after (pg : list group) (gi i : nat) (na nb : Q) : xq :=
  let ms := mapi (fun g (p : group) => if g =? gi then na else if g =? i then nb else snd p) pg in
  xdiv (qmaxl ms) (qminl ms).

Definition swap_score (fx : fixes) (pg : list group) (gi i j : nat) (prob prob_b pa pb : Q) : xq :=
  if fx_score fx then score_after pg gi i (prob - pa + pb)%Q (prob_b + pa - pb)%Q
  else
    let n := length pg in
    let max_prob := mass_at pg (n - 1) in
    let min_prob := mass_at pg 0 in
    let new_mass_b := (prob_b - pb + pa)%Q in
    let mini := if 0 <? gi then min_prob else ((prob - pa) + pb)%Q in
    let maxi := if j =? n - 1 then qmax new_mass_b (mass_at pg (n - 2)) else max_prob in
    xdiv maxi mini.

Definition take_score (fx : fixes) (pg : list group) (gi i : nat) (prob prob_b pb : Q) : xq :=
  if fx_score fx then score_after pg gi i (prob + pb)%Q (prob_b - pb)%Q
  else
    let n := length pg in
    let max_prob := mass_at pg (n - 1) in
    let min_prob := mass_at pg 0 in
    if qltb max_prob (prob + pb)%Q then xdiv (prob + pb)%Q min_prob else xdiv max_prob (prob + pb)%Q.

Definition find_swap (fx : fixes) (pg : list group) (gi : nat) : option swapmove :=
  let n := length pg in
  let ga := fst (gnth pg gi) in
  let prob := snd (gnth pg gi) in
  let cur0 := if fx_score fx then score_after pg gi gi prob prob
              else xdiv (mass_at pg (n - 1)) prob in
  let cands := if gi =? 0 then rev (seq 1 (n - 1)) else [n - 1] in
  fst (fold_left
         (fun (st : fstate) (i : nat) =>
            let gb := fst (gnth pg i) in
            let prob_b := snd (gnth pg i) in
            let st1 :=
                fold_left
                  (fun (st : fstate) (ja : nat * node) =>
                     fold_left
                       (fun (st : fstate) (kb : nat * node) =>
                          let pa := nprob (snd ja) in
                          let pb := nprob (snd kb) in
                          if qltb pb pa then st
                          else consider (i, Some (fst ja), fst kb)
                                        (swap_score fx pg gi i (fst ja) prob prob_b pa pb) st)
                       (enumerate gb) st)
                  (enumerate ga) st in
            if fx_take fx && (length gb <? 2) then st1
            else fold_left
                   (fun (st : fstate) (kb : nat * node) =>
                      consider (i, None, fst kb) (take_score fx pg gi i prob prob_b (nprob (snd kb))) st)
                   (enumerate gb) st1)
         cands (None, cur0)).

(** ---- __apply_swap__ ---- *)
Fixpoint percolate_up_go (fuel : nat) (pg : list group) (index : nat) (p : Q) : list group :=
  match fuel with
  | O => pg
  | S f =>
    if (index <? length pg - 2) && qltb (mass_at pg (S index)) p
    then percolate_up_go f (swap_adj pg index) (S index) p
    else pg
  end.
(** __percolate_up__; __percolate_down__(prob_groups, -1) does nothing: its loop
    condition "index > 0" is false for -1 *)
Definition percolate_up (pg : list group) (gi : nat) : list group :=
  percolate_up_go (length pg) pg gi (mass_at pg gi).

(** node = prob_groups[i][0].pop(k); prob_groups[i][1] -= node.probability *)
Definition g_pop (pg : list group) (i k : nat) : option (node * list group) :=
  match nth_error pg i with
  | Some g =>
    match pop_at k (fst g) with
    | Some (n, rest) => Some (n, set_nth i (rest, qr (snd g - nprob n)) pg)
    | None => None
    end
  | None => None
  end.
(** prob_groups[i][0].append(node); prob_groups[i][1] += node.probability *)
Definition g_push (pg : list group) (i : nat) (n : node) : option (list group) :=
  match nth_error pg i with
  | Some g => Some (set_nth i (fst g ++ [n], qr (snd g + nprob n)) pg)
  | None => None
  end.
Definition oo {X} (o : option X) : outcome X := match o with Some x => Ok x | None => IndexErr end.

Definition apply_swap (fx : fixes) (pg : list group) (gi : nat) (mv : swapmove) : outcome (list group) :=
  let j := fst (fst mv) in
  let l := snd mv in
  let give := match snd (fst mv) with
              | Some kk => if fx_knone fx then Some kk else (match kk with O => None | S _ => Some kk end)
              | None => None
              end in
  bindo (match give with
         | Some kk => bindo (oo (g_pop pg gi kk)) (fun np => oo (g_push (snd np) j (fst np)))
         | None => Ok pg
         end)
        (fun pg1 =>
           bindo (oo (g_pop pg1 j l)) (fun np =>
           bindo (oo (g_push (snd np) gi (fst np))) (fun pg2 =>
           Ok (if fx_sort fx then sort_by snd pg2 else percolate_up pg2 gi)))).

(** ---- __try_split_node_in_group__: Ok None = False ---- *)
Fixpoint try_split_go (tbl : utable) (w : uwtable) (n : nat) (sorted : list (nat * node)) (fuel i : nat)
  : nat * option (nat * list node) :=
  match nth_error sorted (n - i) with
  | None => (i, None)
  | Some cand =>
    match node_split tbl w (snd cand) with
    | Some ch => (i, Some (fst cand, ch))
    | None =>
      match fuel with
      | O => (i, None)
      | S f => if i <? n then try_split_go tbl w n sorted f (S i) else (i, None)
      end
    end
  end.

Definition try_split (fx : fixes) (tbl : utable) (w : uwtable) (pg : list group) (gi : nat)
  : outcome (option (list group)) :=
  if negb (fx_group fx) then TypeErr
  else
    let ga := fst (gnth pg gi) in
    let n := length ga in
    match n with
    | O => IndexErr
    | _ =>
      let sorted := sort_by (fun jn : nat * node => nprob (snd jn)) (enumerate ga) in
      let r := try_split_go tbl w n sorted n 1 in
      if n <=? fst r then Ok None
      else match snd r with
           | None => Ok None
           | Some (orig, ch) =>
             match pop_at (if fx_remove fx then orig else n - fst r) ga with
             | Some (_, ga') => Ok (Some (set_nth gi (ga' ++ ch, snd (gnth pg gi)) pg))
             | None => IndexErr
             end
           end
    end.

(** ---- the balance loop of __split_into_nodes__ ---- *)
Fixpoint first_swap (fx : fixes) (pg : list group) (gis : list nat) : option (nat * swapmove) :=
  match gis with
  | [] => None
  | gi :: r => match find_swap fx pg gi with Some mv => Some (gi, mv) | None => first_swap fx pg r end
  end.

Fixpoint first_split (fx : fixes) (tbl : utable) (w : uwtable) (pg : list group) (gis : list nat)
  : outcome (option (list group)) :=
  match gis with
  | [] => Ok None
  | gi :: r => bindo (try_split fx tbl w pg gi)
                     (fun o => match o with Some pg' => Ok (Some pg') | None => first_split fx tbl w pg r end)
  end.

Definition ratio_of (pg : list group) : xq := xdiv (mass_at pg (length pg - 1)) (mass_at pg 0).

Inductive step_result : Type :=
| Done (pg : list group) (ratio : xq)
| Continue (pg : list group).

(** one iteration of the while loop (including its test "ratio > threshold": true of inf, false of nan) *)
Definition balance_step (fx : fixes) (tbl : utable) (w : uwtable) (splits : nat) (threshold : Q) (pg : list group)
  : outcome step_result :=
  let ratio := ratio_of pg in
  let stop := match ratio with XFin r => Qle_bool r threshold | XInf => false | XNan => true end in
  if stop then Ok (Done pg ratio)
  else
    match first_swap fx pg (seq 0 (splits - 1)) with
    | Some (gi, mv) => bindo (apply_swap fx pg gi mv) (fun pg' => Ok (Continue pg'))
    | None =>
      bindo (first_split fx tbl w pg (rev (seq 1 (splits - 1)))) (fun o2 =>
      match o2 with
      | Some pg' => Ok (Continue pg')
      | None => Ok (Done pg ratio)
      end)
    end.

(** a returned ratio inf or nan is reported as DivZero *)
Fixpoint balance (fx : fixes) (tbl : utable) (w : uwtable) (fuel splits : nat) (threshold : Q) (pg : list group)
  : outcome (list group * Q) :=
  match fuel with
  | O => OutOfFuel
  | S f =>
    bindo (balance_step fx tbl w splits threshold pg)
          (fun r => match r with
                    | Done pg' (XFin ratio) => Ok (pg', ratio)
                    | Done _ _ => DivZero
                    | Continue pg' => balance fx tbl w f splits threshold pg'
                    end)
  end.

(** __split_into_nodes__ *)
Definition split_into_nodes (fx : fixes) (tbl : utable) (w : uwtable) (sw : swtable)
           (fuel splits : nat) (threshold : Q) : outcome (list group * Q) :=
  bindo (split_until tbl w fuel splits (initial_nodes sw))
        (fun nodes => balance fx tbl w fuel splits threshold (initial_groups splits nodes)).

(** ---- derivations as choice sequences ---- *)
Definition valid_choice (tbl : utable) (x : unt) (c : choice) : bool :=
  match choices_at tbl x with
  | Some cs => memb choice_eqb c cs
  | None => false
  end.

(** state after the choices d from (info, here); None when a choice is not a rule of the grammar *)
Fixpoint run (tbl : utable) (info : list unt) (here : upos) (d : list choice) : option (list unt * upos) :=
  match d with
  | [] => Some (info, here)
  | c :: r =>
    match here with
    | UEnd => None
    | UAt x => if valid_choice tbl x c
               then let st := uderive1 info (snd c) in run tbl (fst st) (snd st) r
               else None
    end
  end.

(** product of the weights of the choices d made from (info, here) *)
Fixpoint run_weight (tbl : utable) (w : uwtable) (info : list unt) (here : upos) (d : list choice) : Q :=
  match d with
  | [] => 1%Q
  | c :: r =>
    match here with
    | UEnd => 0%Q
    | UAt x => let st := uderive1 info (snd c) in
               (wt w x (fst c) (snd c) * run_weight tbl w (fst st) (snd st) r)%Q
    end
  end.

Definition deriv : Type := unt * list choice.           (* start symbol, choices *)
Definition complete (tbl : utable) (d : deriv) : bool :=
  match run tbl [] (UAt (fst d)) (snd d) with
  | Some (_, UEnd) => true
  | _ => false
  end.
Definition deriv_prob (tbl : utable) (w : uwtable) (sw : swtable) (d : deriv) : Q :=
  (start_weight sw (fst d) * run_weight tbl w [] (UAt (fst d)) (snd d))%Q.

(** the node of a prefix *)
Definition node_of_prefix (tbl : utable) (w : uwtable) (sw : swtable) (d : deriv) : option node :=
  match run tbl [] (UAt (fst d)) (snd d) with
  | Some st => Some (mkNode (deriv_prob tbl w sw d) (fst d) (fst st) (snd st) (snd d))
  | None => None
  end.

Fixpoint prefixb (h d : list choice) : bool :=
  match h, d with
  | [], _ => true
  | a :: h', b :: d' => choice_eqb a b && prefixb h' d'
  | _ :: _, [] => false
  end.
Definition node_prefixb (n : node) (d : deriv) : bool := unt_eqb (nstart n) (fst d) && prefixb (nhist n) (snd d).

(** all complete choice sequences from a state, of length < fuel *)
Fixpoint comps (tbl : utable) (fuel : nat) (info : list unt) (here : upos) : list (list choice) :=
  match fuel with
  | O => []
  | S f =>
    match here with
    | UEnd => [[]]
    | UAt x =>
      match choices_at tbl x with
      | Some cs => flat_map (fun c : choice => let st := uderive1 info (snd c) in
                                              map (cons c) (comps tbl f (fst st) (snd st))) cs
      | None => []
      end
    end
  end.

(** every branch from the state ends within the fuel, every non-terminal met has a choice *)
Fixpoint fin (tbl : utable) (fuel : nat) (info : list unt) (here : upos) : bool :=
  match fuel with
  | O => false
  | S f =>
    match here with
    | UEnd => true
    | UAt x =>
      match choices_at tbl x with
      | Some cs => negb (Nat.eqb (length cs) 0)
                   && forallb (fun c : choice => let st := uderive1 info (snd c) in fin tbl f (fst st) (snd st)) cs
      | None => false
      end
    end
  end.

(** the derivations of the whole grammar (one per program when it is unambiguous) *)
Definition all_derivs (tbl : utable) (fuel : nat) (starts : list unt) : list deriv :=
  flat_map (fun x => map (pair x) (comps tbl fuel [] (UAt x))) starts.

(** the derivations that start with the prefix of a node of the group: language of the fragment *)
Definition node_derivs (tbl : utable) (fuel : nat) (n : node) : list deriv :=
  map (fun r => (nstart n, nhist n ++ r)) (comps tbl fuel (ninfo n) (nnext n)).
Definition frag_derivs (tbl : utable) (fuel : nat) (g : list node) : list deriv :=
  flat_map (node_derivs tbl fuel) g.
Definition frag_memberb (g : list node) (d : deriv) : bool := existsb (fun n => node_prefixb n d) g.
Definition frag_dprob (tbl : utable) (w : uwtable) (sw : swtable) (g : list node) (d : deriv) : Q :=
  (deriv_prob tbl w sw d / mass_of g)%Q.

(** ---- programs: the derivations of a program as choice sequences ---- *)
Definition seq_thread (D : unt -> prog -> list (list choice)) : list unt -> list prog -> list (list choice) :=
  fix go (alt : list unt) (ps : list prog) {struct ps} : list (list choice) :=
    match alt, ps with
    | [], [] => [[]]
    | x :: ar, a :: pr => flat_map (fun d1 => map (app d1) (go ar pr)) (D x a)
    | _, _ => []
    end.

Fixpoint useqs (tbl : utable) (x : unt) (p : prog) {struct p} : list (list choice) :=
  match p with
  | PLeaf s =>
    match ualts_of tbl x s with
    | Some alts => flat_map (fun alt : ualt => match alt with [] => [[(s, alt)]] | _ => [] end) alts
    | None => []
    end
  | PFun f ps =>
    match ps with
    | [] => []
    | _ =>
      match ualts_of tbl x f with
      | Some alts => flat_map (fun alt : ualt => map (cons (f, alt)) (seq_thread (fun x' a => useqs tbl x' a) alt ps)) alts
      | None => []
      end
    end
  end.

Definition pderivs (tbl : utable) (starts : list unt) (p : prog) : list deriv :=
  flat_map (fun x => map (pair x) (useqs tbl x p)) starts.

(** specified observable behaviour of the fragment grammar of a group *)
Definition frag_member (tbl : utable) (starts : list unt) (g : list node) (p : prog) : bool :=
  existsb (frag_memberb g) (pderivs tbl starts p).
Definition frag_prob_m (m : Q) (tbl : utable) (w : uwtable) (sw : swtable) (starts : list unt) (g : list node) (p : prog) : Q :=
  match filter (frag_memberb g) (pderivs tbl starts p) with
  | d :: _ => (deriv_prob tbl w sw d / m)%Q
  | [] => 0%Q
  end.
Definition frag_prob (tbl : utable) (w : uwtable) (sw : swtable) (starts : list unt) (g : list node) (p : prog) : Q :=
  frag_prob_m (mass_of g) tbl w sw starts g p.

(** ---- well-formedness of the weighted table (hypotheses of the theorems, checked by the driver) ---- *)
Definition entry_choices (rs : list urule) : list choice :=
  flat_map (fun r : urule => map (fun alt => (fst r, alt)) (snd r)) rs.
(** every non-terminal: distinct (rule, alternative) pairs, weights summing to 1 *)
Definition wf_weights (tbl : utable) (w : uwtable) : bool :=
  forallb (fun xr : unt * list urule =>
             nodupb choice_eqb (entry_choices (snd xr))
             && Qeq_bool (qsum (map (fun c : choice => wt w (fst xr) (fst c) (snd c)) (entry_choices (snd xr)))) 1) tbl.
Definition pos_weights (tbl : utable) (w : uwtable) : bool :=
  forallb (fun xr : unt * list urule =>
             forallb (fun c : choice => qltb 0 (wt w (fst xr) (fst c) (snd c))) (entry_choices (snd xr))) tbl.
(** start symbols: distinct, weights summing to 1, each finite within the fuel *)
Definition wf_starts (tbl : utable) (sw : swtable) (fuel : nat) : bool :=
  nodupb unt_eqb (map fst sw)
  && Qeq_bool (qsum (map snd sw)) 1
  && forallb (fun xq : unt * Q => fin tbl fuel [] (UAt (fst xq))) sw.
Definition pos_starts (sw : swtable) : bool := forallb (fun xq : unt * Q => qltb 0 (snd xq)) sw.
Definition wf_input (tbl : utable) (w : uwtable) (sw : swtable) (fuel : nat) : bool :=
  wf_weights tbl w && wf_starts tbl sw fuel.

(** ---- measure for the termination of the split phase: the number of proper
    prefixes (internal nodes of the derivation tree) below a state ---- *)
Fixpoint tsize (tbl : utable) (fuel : nat) (info : list unt) (here : upos) : nat :=
  match fuel with
  | O => O
  | S f =>
    match here with
    | UEnd => O
    | UAt x =>
      match choices_at tbl x with
      | Some cs => S (sumnat (map (fun c : choice => let st := uderive1 info (snd c) in tsize tbl f (fst st) (snd st)) cs))
      | None => O
      end
    end
  end.
Definition node_size (tbl : utable) (F : nat) (n : node) : nat := tsize tbl (F - length (nhist n)) (ninfo n) (nnext n).
Definition nodes_size (tbl : utable) (F : nat) (nodes : list node) : nat := sumnat (map (node_size tbl F) nodes).
