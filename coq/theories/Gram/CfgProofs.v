(** Proofs for property C01: the language of the depth-bounded grammar built by
    the model of CFG.depth_constraint + clean is exactly the set of typed terms
    [wt] of Gram/CfgSpec.v; counting; usefulness of the remaining rules. *)
From Coq Require Import ZArith NArith List Bool Lia Arith Setoid.
From PS Require Import Base.ListX Base.Sexp Base.Ty Base.Value Base.Prog Gram.Cfg Gram.CfgSpec.
Import ListNotations.

(** * Generic list facts *)

Fixpoint all2b {A B} (f : A -> B -> bool) (l : list A) (l' : list B) : bool :=
  match l, l' with
  | [], [] => true
  | a :: r, b :: r' => f a b && all2b f r r'
  | _, _ => false
  end.

Lemma all2b_Forall2 {A B} (f : A -> B -> bool) l l' :
  all2b f l l' = true <-> Forall2 (fun a b => f a b = true) l l'.
Proof.
  revert l'; induction l as [|a r IH]; intros [|b r']; cbn; split; intros H;
    try discriminate; try constructor; try (inversion H; fail).
  - apply andb_true_iff in H; tauto.
  - apply IH. apply andb_true_iff in H; tauto.
  - inversion H; subst. apply andb_true_iff; split; auto. apply IH; auto.
Qed.

Lemma all2b_map_l {A B C} (f : A -> B -> bool) (h : C -> A) l l' :
  all2b f (map h l) l' = all2b (fun c b => f (h c) b) l l'.
Proof. revert l'; induction l as [|c r IH]; intros [|b r']; cbn; auto. rewrite IH; auto. Qed.

Lemma all2b_ext_Forall {A B} (f g : A -> B -> bool) l l' :
  Forall (fun b => forall a, f a b = g a b) l' -> all2b f l l' = all2b g l l'.
Proof.
  intros H; revert l; induction H as [|b r' Hb _ IH]; intros [|a r]; cbn; auto.
  rewrite Hb, IH; auto.
Qed.

Lemma all2b_length {A B} (f : A -> B -> bool) l l' : all2b f l l' = true -> length l = length l'.
Proof.
  revert l'; induction l as [|a r IH]; intros [|b r']; cbn; try discriminate; auto.
  intros H; apply andb_true_iff in H; f_equal; apply IH; tauto.
Qed.

Lemma all2b_combine {A B} (f : A -> B -> bool) l l' a b :
  all2b f l l' = true -> In (a, b) (combine l l') -> f a b = true.
Proof.
  revert l'; induction l as [|a0 r IH]; intros [|b0 r']; cbn; try tauto.
  intros H [E|Hi]; apply andb_true_iff in H; destruct H as [H1 H2].
  - inversion E; subst; auto.
  - eapply IH; eauto.
Qed.

Lemma In_enumerate_from {X} (l : list X) k i x :
  In (i, x) (enumerate_from k l) <-> k <= i /\ nth_error l (i - k) = Some x.
Proof.
  revert k; induction l as [|y r IH]; intros k; cbn.
  - split; [tauto|]. intros [_ H]. destruct (i - k); discriminate.
  - rewrite IH. split.
    + intros [E|[Hk Hn]].
      * inversion E; subst. rewrite Nat.sub_diag; cbn; auto.
      * split; [lia|]. replace (i - k) with (S (i - S k)) by lia. exact Hn.
    + intros [Hk Hn]. destruct (i - k) as [|m] eqn:Em.
      * left. cbn in Hn. inversion Hn; subst. f_equal; lia.
      * right. split; [lia|]. cbn in Hn. replace (i - S k) with m by lia. exact Hn.
Qed.

Lemma In_enumerate {X} (l : list X) i x : In (i, x) (enumerate l) <-> nth_error l i = Some x.
Proof.
  unfold enumerate. rewrite In_enumerate_from, Nat.sub_0_r. split; [tauto|]. split; [lia|auto].
Qed.

Lemma NoDup_enumerate_from {X} (l : list X) k : NoDup (enumerate_from k l).
Proof.
  revert k; induction l as [|y r IH]; intros k; cbn; constructor; auto.
  rewrite In_enumerate_from. lia.
Qed.

Lemma NoDup_app_intro {X} (l l' : list X) :
  NoDup l -> NoDup l' -> (forall a, In a l -> In a l' -> False) -> NoDup (l ++ l').
Proof.
  induction 1 as [|x r Hx Hr IH]; intros Hl' Hd; cbn; auto.
  constructor.
  - rewrite in_app_iff. intros [H|H]; [tauto|]. apply (Hd x); cbn; auto.
  - apply IH; auto. intros a Ha Ha'. apply (Hd a); cbn; auto.
Qed.

Lemma NoDup_flat_map_intro {X Y} (f : X -> list Y) l :
  NoDup l -> (forall x, In x l -> NoDup (f x)) ->
  (forall x y a, In x l -> In y l -> In a (f x) -> In a (f y) -> x = y) ->
  NoDup (flat_map f l).
Proof.
  induction 1 as [|x r Hx Hr IH]; intros Hf Hd; cbn; [constructor|].
  apply NoDup_app_intro.
  - apply Hf; cbn; auto.
  - apply IH; intros; [apply Hf|eapply Hd]; cbn; eauto.
  - intros a Ha Ha'. apply in_flat_map in Ha'. destruct Ha' as [y [Hy Hay]].
    assert (x = y) by (eapply Hd; cbn; eauto). subst; tauto.
Qed.

Lemma NoDup_map_inj {X Y} (f : X -> Y) l :
  (forall x y, In x l -> In y l -> f x = f y -> x = y) -> NoDup l -> NoDup (map f l).
Proof.
  intros Hf H; induction H as [|x r Hx Hr IH]; cbn; constructor.
  - rewrite in_map_iff. intros [y [E Hy]]. apply Hf in E; cbn; auto. subst; tauto.
  - apply IH. intros; apply Hf; cbn; auto.
Qed.

Lemma NoDup_filter {X} (f : X -> bool) l : NoDup l -> NoDup (filter f l).
Proof.
  induction 1 as [|x r Hx Hr IH]; cbn; [constructor|].
  destruct (f x); auto. constructor; auto. rewrite filter_In; tauto.
Qed.

(** association lists whose keys determine the values *)
Section Functional.
  Context {K V : Type} (keqb : K -> K -> bool).
  Hypothesis keqb_spec : forall a b, keqb a b = true <-> a = b.

  Definition functional (l : list (K * V)) : Prop :=
    forall k v v', In (k, v) l -> In (k, v') l -> v = v'.

  Lemma alookup_In k v (l : list (K * V)) : alookup keqb k l = Some v -> In (k, v) l.
  Proof.
    induction l as [|[k' v'] r IH]; cbn; [discriminate|].
    destruct (keqb k k') eqn:E.
    - apply keqb_spec in E; subst. intros H; inversion H; auto.
    - auto.
  Qed.

  Lemma alookup_None k (l : list (K * V)) : alookup keqb k l = None -> forall v, ~ In (k, v) l.
  Proof.
    induction l as [|[k' v'] r IH]; cbn; [tauto|].
    destruct (keqb k k') eqn:E; [discriminate|].
    intros H v [Hv|Hv]; [|eapply IH; eauto].
    inversion Hv; subst. rewrite (keqb_refl keqb keqb_spec) in E; discriminate.
  Qed.

  Lemma In_alookup k v (l : list (K * V)) : functional l -> In (k, v) l -> alookup keqb k l = Some v.
  Proof.
    intros Hf Hi. destruct (alookup keqb k l) as [v'|] eqn:E.
    - apply alookup_In in E. f_equal. eapply Hf; eauto.
    - exfalso. eapply alookup_None; eauto.
  Qed.

  Lemma alookup_fun (f : K -> option V) (l : list (K * V)) :
    (forall k v, In (k, v) l <-> f k = Some v) -> forall k, alookup keqb k l = f k.
  Proof.
    intros H k. destruct (alookup keqb k l) as [v|] eqn:E.
    - apply alookup_In in E. symmetry; apply H; auto.
    - destruct (f k) as [v|] eqn:F; auto. apply H in F. exfalso; eapply alookup_None; eauto.
  Qed.

  Lemma functional_filter g (l : list (K * V)) : functional l -> functional (filter g l).
  Proof. intros H k v v' H1 H2. apply filter_In in H1, H2. destruct H1, H2. eapply H; eauto. Qed.

  Lemma functional_NoDup_keys (l : list (K * V)) : functional l -> NoDup l -> NoDup (map fst l).
  Proof.
    intros Hf. apply NoDup_map_inj. intros [k v] [k' v'] H1 H2 E; cbn in E; subst.
    f_equal. eapply Hf; eauto.
  Qed.
End Functional.

(** * The rules of a non-terminal, as a function of the symbol *)

Lemma dsl_eqb_spec a b : dsl_eqb a b = true <-> a = b.
Proof.
  destruct a as [n t], b as [m u]; unfold dsl_eqb; cbn [fst snd].
  rewrite andb_true_iff, N.eqb_eq, ty_eqb_spec. split; [intros [-> ->]; auto|intros E; inversion E; auto].
Qed.

Lemma memb_dsl P n tp : memb dsl_eqb (n, tp) (dsl P) = true <-> In (n, tp) (dsl P).
Proof. apply memb_spec, dsl_eqb_spec. Qed.

Lemma nth_eqb_spec (l : list ty) i t :
  option_eqb ty_eqb (nth_error l i) (Some t) = true <-> nth_error l i = Some t.
Proof. apply option_eqb_spec, ty_eqb_spec. Qed.

Lemma forb_hd P g : forb P g = par_forb P (hd_error g).
Proof. destruct g as [|[[n t|i t|t v] j] r]; reflexivity. Qed.

Lemma is_forbidden_hd P g n : is_forbidden P g n = memb N.eqb n (par_forb P (hd_error g)).
Proof. unfold is_forbidden; rewrite forb_hd; reflexivity. Qed.

Lemma ends_with_refl t : ends_with t t = Some [].
Proof. unfold ends_with. destruct t; cbn [ends_with_rec]; rewrite ty_eqb_refl; reflexivity. Qed.

Lemma ends_with_eq tp t : ty_eqb tp t = true -> ends_with tp t = Some [].
Proof. intros H; apply ty_eqb_spec in H; subst; apply ends_with_refl. Qed.

Lemma ends_with_cons_neq tp t a r : ends_with tp t = Some (a :: r) -> ty_eqb tp t = false.
Proof.
  intros H. destruct (ty_eqb tp t) eqn:E; auto. rewrite (ends_with_eq _ _ E) in H; discriminate.
Qed.

(** The code guards the "variable used as a function" rules by
    [len(varg.arguments()) > 0]; a non-empty answer of ends_with implies it, so
    [wt] need not (and does not) repeat the test. *)
Lemma ends_with_cons_arguments tv t a r : ends_with tv t = Some (a :: r) -> arguments tv <> [].
Proof.
  unfold ends_with. destruct tv; cbn [ends_with_rec arguments];
    destruct (ty_eqb _ t); intros H; try discriminate.
Qed.

Definition rule_of (P : params) (x : cnt) (s : sym) : option (list cnt) :=
  let '(t, g, d) := x in
  if wt_leaf P t (hd_error g) d s then Some []
  else match wt_head P t (hd_error g) d s with
       | Some (a :: r) => Some (decorate P g d s (a :: r))
       | _ => None
       end.

Lemma ty_eqb_sym a b : ty_eqb a b = ty_eqb b a.
Proof.
  destruct (ty_eqb a b) eqn:E, (ty_eqb b a) eqn:F; auto.
  - apply ty_eqb_spec in E; subst; rewrite ty_eqb_refl in F; discriminate.
  - apply ty_eqb_spec in F; subst; rewrite ty_eqb_refl in E; discriminate.
Qed.

Lemma rules_at_sound P t g d s nts :
  In (s, nts) (rules_at P (t, g, d)) -> rule_of P (t, g, d) s = Some nts.
Proof.
  unfold rules_at; cbv zeta. intros H.
  destruct (Nat.ltb d (max_depth P)) eqn:Hd; [|contradiction].
  rewrite !in_app_iff in H. destruct H as [H|[H|H]].
  - destruct (Nat.leb (min_var P) d) eqn:Hm; [|contradiction].
    rewrite in_app_iff in H. destruct H as [H|H].
    + apply in_flat_map in H. destruct H as [[i a] [Hia H]]; cbn [fst snd] in H.
      destruct (ty_eqb t a) eqn:Et; [|contradiction]. destruct H as [H|[]]. inversion H; subst.
      apply ty_eqb_spec in Et; subst a. apply In_enumerate in Hia.
      unfold rule_of, wt_leaf. rewrite ty_eqb_refl, Hia, Hm, Hd. cbn [option_eqb]. rewrite ty_eqb_refl. reflexivity.
    + destruct (memb ty_eqb t (const_types P)) eqn:Hc; [|contradiction]. destruct H as [H|[]]. inversion H; subst.
      unfold rule_of, wt_leaf. rewrite ty_eqb_refl, Hc, Hm, Hd. reflexivity.
  - apply in_flat_map in H. destruct H as [[n tp] [Hn H]]; cbn [fst snd] in H.
    destruct (ty_eqb tp t && negb (is_forbidden P g n)) eqn:Ec; [|contradiction].
    destruct H as [H|[]]. inversion H; subst. apply andb_true_iff in Ec. destruct Ec as [Et Ef].
    rewrite is_forbidden_hd in Ef.
    unfold rule_of, wt_leaf. rewrite Et, Hd, Ef. apply memb_dsl in Hn. rewrite Hn. reflexivity.
  - destruct (Nat.ltb (S d) (max_depth P)) eqn:Hd'; [|contradiction].
    rewrite in_app_iff in H. destruct H as [H|H].
    + apply in_flat_map in H. destruct H as [[n tp] [Hn H]]; cbn [fst snd] in H.
      destruct (is_forbidden P g n) eqn:Ef; [contradiction|].
      destruct (ends_with tp t) as [[|a r]|] eqn:Ee; try contradiction.
      destruct H as [H|[]]. inversion H; subst. rewrite is_forbidden_hd in Ef.
      unfold rule_of, wt_leaf, wt_head. rewrite (ends_with_cons_neq _ _ _ _ Ee). cbn [andb].
      apply memb_dsl in Hn. rewrite Hn, Ef, Hd', Ee. reflexivity.
    + destruct (Nat.leb (min_var P) d) eqn:Hm; [|contradiction].
      apply in_flat_map in H. destruct H as [[v tv] [Hv H]]; cbn [fst snd] in H.
      destruct (ends_with tv t) as [[|a r]|] eqn:Ee; try contradiction.
      destruct H as [H|[]]. inversion H; subst. apply In_enumerate in Hv.
      unfold rule_of, wt_leaf, wt_head. rewrite (ends_with_cons_neq _ _ _ _ Ee). cbn [andb].
      rewrite Hv, Hm, Hd', Ee. cbn [option_eqb]. rewrite ty_eqb_refl. reflexivity.
Qed.

Lemma rules_at_complete P t g d s nts :
  rule_of P (t, g, d) s = Some nts -> In (s, nts) (rules_at P (t, g, d)).
Proof.
  unfold rule_of. destruct (wt_leaf P t (hd_error g) d s) eqn:Hl.
  - intros E; inversion E; subst nts; clear E.
    unfold rules_at; cbv zeta. destruct s as [n tp|i t'|t' [v|]]; cbn [wt_leaf] in Hl; try discriminate.
    + rewrite !andb_true_iff in Hl. destruct Hl as [[[Et Hn] Hd] Hf].
      rewrite Hd. rewrite !in_app_iff. right; left.
      apply in_flat_map. exists (n, tp). apply memb_dsl in Hn. split; auto. cbn [fst snd].
      rewrite is_forbidden_hd, Et, Hf. left; reflexivity.
    + rewrite !andb_true_iff in Hl. destruct Hl as [[[Et Hn] Hm] Hd].
      apply ty_eqb_spec in Et; subst t'. apply nth_eqb_spec in Hn.
      rewrite Hd, Hm. rewrite !in_app_iff. left; left.
      apply in_flat_map. exists (i, t). split; [apply In_enumerate; auto|]. cbn [fst snd].
      rewrite ty_eqb_refl. left; reflexivity.
    + rewrite !andb_true_iff in Hl. destruct Hl as [[[Et Hc] Hm] Hd].
      apply ty_eqb_spec in Et; subst t'.
      rewrite Hd, Hm, Hc. rewrite !in_app_iff. left; right. left; reflexivity.
  - destruct (wt_head P t (hd_error g) d s) as [[|a r]|] eqn:Hh; try discriminate.
    intros E; inversion E; subst nts; clear E.
    unfold rules_at; cbv zeta. destruct s as [n tp|v tv|t' v]; cbn [wt_head] in Hh; try discriminate.
    + destruct (memb dsl_eqb (n, tp) (dsl P) && negb (memb N.eqb n (par_forb P (hd_error g))) && Nat.ltb (S d) (max_depth P)) eqn:Ec;
        [|discriminate].
      rewrite !andb_true_iff in Ec. destruct Ec as [[Hn Hf] Hd'].
      assert (Hd : Nat.ltb d (max_depth P) = true) by (apply Nat.ltb_lt in Hd'; apply Nat.ltb_lt; lia).
      rewrite Hd, Hd'. rewrite !in_app_iff. right; right; left.
      apply in_flat_map. exists (n, tp). apply memb_dsl in Hn. split; auto. cbn [fst snd].
      apply negb_true_iff in Hf. rewrite is_forbidden_hd, Hf, Hh. left; reflexivity.
    + destruct (option_eqb ty_eqb (nth_error (arguments (request P)) v) (Some tv) && Nat.leb (min_var P) d && Nat.ltb (S d) (max_depth P)) eqn:Ec;
        [|discriminate].
      rewrite !andb_true_iff in Ec. destruct Ec as [[Hn Hm] Hd'].
      assert (Hd : Nat.ltb d (max_depth P) = true) by (apply Nat.ltb_lt in Hd'; apply Nat.ltb_lt; lia).
      apply nth_eqb_spec in Hn.
      rewrite Hd, Hd', Hm. rewrite !in_app_iff. right; right; right.
      apply in_flat_map. exists (v, tv). split; [apply In_enumerate; auto|]. cbn [fst snd].
      rewrite Hh. left; reflexivity.
Qed.

Lemma In_rules_at P x s nts : In (s, nts) (rules_at P x) <-> rule_of P x s = Some nts.
Proof. destruct x as [[t g] d]. split; [apply rules_at_sound|apply rules_at_complete]. Qed.

Lemma rules_at_functional P x : functional (rules_at P x).
Proof. intros s v v' H1 H2. apply In_rules_at in H1, H2. congruence. Qed.

Lemma rlookup_rules_at P x s : rlookup s (rules_at P x) = rule_of P x s.
Proof. unfold rlookup. apply alookup_fun; [apply sym_eqb_spec|]. intros; apply In_rules_at. Qed.

(** * Membership: unfolding equations *)

Lemma contains_gen_leaf R x s :
  contains_gen R x (PLeaf s) = match rlookup s (R x) with Some [] => true | _ => false end.
Proof. reflexivity. Qed.

Lemma contains_gen_fun R x f args :
  contains_gen R x (PFun f args) =
  match rlookup f (R x) with Some nts => all2b (contains_gen R) nts args | None => false end.
Proof.
  cbn [contains_gen]. destruct (rlookup f (R x)) as [nts|]; auto.
  revert nts; induction args as [|a ar IH]; intros [|n nr]; cbn [all2b]; auto.
  rewrite IH; reflexivity.
Qed.

Lemma wt_fun P t par d f args :
  wt P t par d (PFun f args) =
  match args with
  | [] => wt_leaf P t par d f
  | _ :: _ =>
    match wt_head P t par d f with
    | Some tys => all2b (fun it a => wt P (snd it) (Some (f, fst it)) (S d) a) (enumerate tys) args
    | None => false
    end
  end.
Proof.
  assert (H : forall l tys i,
    (fix go (i : nat) (tys : list ty) (args : list prog) {struct args} : bool :=
       match tys, args with
       | [], [] => true
       | ty :: tr, a :: ar => wt P ty (Some (f, i)) (S d) a && go (S i) tr ar
       | _, _ => false
       end) i tys l
    = all2b (fun it a => wt P (snd it) (Some (f, fst it)) (S d) a) (enumerate_from i tys) l).
  { intros l; induction l as [|a ar IH]; intros [|ty tr] i; cbn [all2b enumerate_from fst snd]; auto.
    rewrite IH; reflexivity. }
  cbn [wt]. destruct args as [|a0 ar0]; [reflexivity|].
  destruct (wt_head P t par d f) as [tys|]; [|reflexivity].
  exact (H (a0 :: ar0) tys 0).
Qed.

(** * Raw membership is the typing judgement *)

Lemma hd_ctx_succ n g x : 2 <= n -> hd_error (ctx_succ n g x) = Some x.
Proof.
  intros Hn. unfold ctx_succ. cbn [length].
  destruct (Nat.ltb n (S (length g) + 1)) eqn:E; [|reflexivity].
  destruct g as [|y r]; [|reflexivity].
  apply Nat.ltb_lt in E. cbn in E. lia.
Qed.

Lemma wt_leaf_head_nil P t par d s tys :
  wt_leaf P t par d s = true -> wt_head P t par d s = Some tys -> tys = [].
Proof.
  destruct s as [n tp|v tv|t' c]; cbn [wt_leaf wt_head]; intros Hl Hh; try discriminate.
  - rewrite !andb_true_iff in Hl. destruct Hl as [[[Et _] _] _].
    destruct (_ && _ && _) in Hh; [|discriminate]. rewrite (ends_with_eq _ _ Et) in Hh. congruence.
  - rewrite !andb_true_iff in Hl. destruct Hl as [[[Et _] _] _].
    destruct (_ && _ && _) in Hh; [|discriminate]. rewrite (ends_with_eq _ _ Et) in Hh. congruence.
Qed.

Theorem raw_contains_wt P : 2 <= n_gram P -> forall p t g d,
  contains_gen (rules_at P) (t, g, d) p = wt P t (hd_error g) d p.
Proof.
  intros Hn. induction p as [s|f args IH] using prog_ind'; intros t g d.
  - rewrite contains_gen_leaf, rlookup_rules_at. cbn [wt]. unfold rule_of.
    destruct (wt_leaf P t (hd_error g) d s); auto.
    destruct (wt_head P t (hd_error g) d s) as [[|a r]|]; auto.
  - rewrite contains_gen_fun, rlookup_rules_at, wt_fun. unfold rule_of.
    destruct (wt_leaf P t (hd_error g) d f) eqn:Hl.
    + destruct args as [|a0 ar0]; [reflexivity|]. cbn [all2b].
      destruct (wt_head P t (hd_error g) d f) as [tys|] eqn:Hh; auto.
      rewrite (wt_leaf_head_nil _ _ _ _ _ _ Hl Hh). reflexivity.
    + destruct (wt_head P t (hd_error g) d f) as [[|a r]|] eqn:Hh.
      * destruct args; reflexivity.
      * unfold decorate. rewrite all2b_map_l.
        destruct args as [|a0 ar0]; [reflexivity|].
        apply all2b_ext_Forall. revert IH. apply Forall_impl. intros q Hq [i ty]. cbn [fst snd].
        rewrite Hq, hd_ctx_succ by exact Hn. reflexivity.
      * destruct args; reflexivity.
Qed.

(** * Depth, productivity, and the cleaned grammar *)

Definition maxht (l : list prog) : nat := fold_right (fun a acc => Nat.max (ht a) acc) 0 l.

Lemma ht_fun f args : ht (PFun f args) = S (maxht args).
Proof. reflexivity. Qed.

Lemma maxht_In a l : In a l -> ht a <= maxht l.
Proof.
  induction l as [|b r IH]; cbn [In maxht fold_right]; [tauto|].
  intros [->|H]; [lia|]. apply IH in H. unfold maxht in H. lia.
Qed.

Lemma all2b_In_l {A B} (f : A -> B -> bool) l l' a :
  all2b f l l' = true -> In a l -> exists b, In b l' /\ f a b = true.
Proof.
  revert l'; induction l as [|a0 r IH]; intros [|b0 r']; cbn [all2b In]; try discriminate; try tauto.
  intros H Hi. apply andb_true_iff in H. destruct H as [H1 H2]. destruct Hi as [->|Hi].
  - exists b0; auto.
  - destruct (IH _ H2 Hi) as [b [Hb Hf]]. exists b; auto.
Qed.

Lemma all2b_In_r {A B} (f : A -> B -> bool) l l' b :
  all2b f l l' = true -> In b l' -> exists a, In a l /\ f a b = true.
Proof.
  revert l'; induction l as [|a0 r IH]; intros [|b0 r']; cbn [all2b In]; try discriminate; try tauto.
  intros H Hi. apply andb_true_iff in H. destruct H as [H1 H2]. destruct Hi as [->|Hi].
  - exists a0; auto.
  - destruct (IH _ H2 Hi) as [a [Ha Hf]]. exists a; auto.
Qed.

Lemma wt_leaf_depth P t par d s : wt_leaf P t par d s = true -> d < max_depth P.
Proof.
  destruct s as [n tp|v tv|t' [c|]]; cbn [wt_leaf]; intros H; try discriminate;
    rewrite !andb_true_iff in H; apply Nat.ltb_lt; tauto.
Qed.

Lemma wt_head_depth P t par d s tys : wt_head P t par d s = Some tys -> S d < max_depth P.
Proof.
  destruct s as [n tp|v tv|t' c]; cbn [wt_head]; intros H; try discriminate;
    destruct (_ && _ && Nat.ltb (S d) (max_depth P)) eqn:E in H; try discriminate;
    rewrite !andb_true_iff in E; apply Nat.ltb_lt; tauto.
Qed.

Lemma rule_of_depth P t g d s nts :
  rule_of P (t, g, d) s = Some nts ->
  d < max_depth P /\ forall n, In n nts -> nt_depth n = S d /\ S d < max_depth P.
Proof.
  unfold rule_of. destruct (wt_leaf P t (hd_error g) d s) eqn:Hl.
  - intros E; inversion E; subst. split; [eapply wt_leaf_depth; eauto|]. intros n [].
  - destruct (wt_head P t (hd_error g) d s) as [[|a r]|] eqn:Hh; try discriminate.
    intros E; inversion E; subst. apply wt_head_depth in Hh. split; [lia|].
    intros n Hn. unfold decorate in Hn. apply in_map_iff in Hn. destruct Hn as [ia [<- _]].
    cbn; auto.
Qed.

Lemma raw_depth P : forall p x,
  contains_gen (rules_at P) x p = true -> ht p + nt_depth x <= max_depth P.
Proof.
  induction p as [s|f args IH] using prog_ind'; intros [[t g] d].
  - rewrite contains_gen_leaf, rlookup_rules_at.
    destruct (rule_of P (t, g, d) s) as [nts|] eqn:E; [|discriminate].
    intros _. apply rule_of_depth in E. cbn. lia.
  - rewrite contains_gen_fun, rlookup_rules_at.
    destruct (rule_of P (t, g, d) f) as [nts|] eqn:E; [|discriminate].
    intros Ha. apply rule_of_depth in E. destruct E as [Hd Hn].
    rewrite ht_fun. cbn [nt_depth snd].
    assert (Hm : maxht args + S d <= max_depth P \/ args = []).
    { destruct args as [|a0 ar0]; [right; reflexivity|left].
      assert (Hall : forall a, In a (a0 :: ar0) -> ht a + S d <= max_depth P).
      { intros a Hi. destruct (all2b_In_r _ _ _ _ Ha Hi) as [n [Hin Hc]].
        rewrite Forall_forall in IH. apply (IH a Hi) in Hc. destruct (Hn n Hin) as [E1 _]. lia. }
      clear -Hall Hd. induction (a0 :: ar0) as [|b r IHr]; cbn [maxht fold_right].
      - lia.
      - assert (ht b + S d <= max_depth P) by (apply Hall; cbn; auto).
        assert (maxht r + S d <= max_depth P) by (apply IHr; intros; apply Hall; cbn; auto).
        unfold maxht in *. lia. }
    destruct Hm as [Hm| ->]; cbn [maxht fold_right]; lia.
Qed.

Lemma productive_mono P : forall f x, productive f P x = true ->
  forall f', f <= f' -> productive f' P x = true.
Proof.
  induction f as [|f IH]; intros x H f' Hle; [discriminate|].
  destruct f' as [|f']; [lia|]. cbn [productive] in *.
  apply existsb_exists in H. destruct H as [r [Hr Hall]].
  apply existsb_exists. exists r. split; auto.
  rewrite forallb_forall in *. intros n Hn. apply (IH n (Hall n Hn)). lia.
Qed.

Lemma raw_productive P : forall p x,
  contains_gen (rules_at P) x p = true -> productive (ht p) P x = true.
Proof.
  induction p as [s|f args IH] using prog_ind'; intros x.
  - rewrite contains_gen_leaf.
    destruct (rlookup s (rules_at P x)) as [[|n r]|] eqn:E; try discriminate. intros _.
    apply (alookup_In sym_eqb sym_eqb_spec) in E.
    cbn [ht productive]. apply existsb_exists. exists (s, []). split; auto.
  - rewrite contains_gen_fun.
    destruct (rlookup f (rules_at P x)) as [nts|] eqn:E; [|discriminate]. intros Ha.
    apply (alookup_In sym_eqb sym_eqb_spec) in E.
    rewrite ht_fun. cbn [productive]. apply existsb_exists. exists (f, nts). split; auto.
    cbn [snd]. apply forallb_forall. intros n Hn.
    destruct (all2b_In_l _ _ _ _ Ha Hn) as [a [Hi Hc]].
    rewrite Forall_forall in IH. apply (IH a Hi) in Hc.
    eapply productive_mono; eauto. apply maxht_In; auto.
Qed.

Lemma raw_productive_fuel P p x :
  contains_gen (rules_at P) x p = true -> productive (fuel_of P) P x = true.
Proof.
  intros H. apply (productive_mono P (ht p)); [apply raw_productive; auto|].
  apply raw_depth in H. unfold fuel_of. lia.
Qed.

Definition keep (P : params) (nts : list cnt) : bool := forallb (productive (fuel_of P) P) nts.

Lemma In_crules P x s nts :
  In (s, nts) (crules P x) <-> rule_of P x s = Some nts /\ keep P nts = true.
Proof. unfold crules. rewrite filter_In, In_rules_at. reflexivity. Qed.

Lemma crules_functional P x : functional (crules P x).
Proof. apply functional_filter, rules_at_functional. Qed.

Lemma rlookup_crules P x s :
  rlookup s (crules P x) =
  match rule_of P x s with Some nts => if keep P nts then Some nts else None | None => None end.
Proof.
  unfold rlookup.
  apply (alookup_fun sym_eqb sym_eqb_spec
    (fun s => match rule_of P x s with Some nts => if keep P nts then Some nts else None | None => None end)).
  intros k v. rewrite In_crules.
  destruct (rule_of P x k) as [nts|]; [|split; [intros [? _]|]; discriminate].
  destruct (keep P nts) eqn:E; split.
  - intros [H _]; auto.
  - intros H; inversion H; subst; auto.
  - intros [H H']; inversion H; subst; congruence.
  - discriminate.
Qed.

Theorem clean_contains_raw P : forall p x,
  contains_gen (crules P) x p = contains_gen (rules_at P) x p.
Proof.
  induction p as [s|f args IH] using prog_ind'; intros x.
  - rewrite !contains_gen_leaf, rlookup_crules, rlookup_rules_at.
    destruct (rule_of P x s) as [[|n r]|]; auto. destruct (keep P (n :: r)); auto.
  - rewrite !contains_gen_fun, rlookup_crules, rlookup_rules_at.
    destruct (rule_of P x f) as [nts|]; auto.
    assert (E : all2b (contains_gen (crules P)) nts args = all2b (contains_gen (rules_at P)) nts args).
    { apply all2b_ext_Forall. revert IH; apply Forall_impl. auto. }
    destruct (keep P nts) eqn:Hk; auto.
    destruct (all2b (contains_gen (rules_at P)) nts args) eqn:Ha; auto. exfalso.
    assert (Hk' : keep P nts = true); [|congruence].
    apply forallb_forall. intros n Hn. destruct (all2b_In_l _ _ _ _ Ha Hn) as [a [_ Hc]].
    eapply raw_productive_fuel; eauto.
Qed.

(** * C01_language *)

Theorem contains_is_typed P : 2 <= n_gram P -> forall p,
  contains P p = wt P (returns (request P)) None 0 p.
Proof.
  intros Hn p. unfold contains, contains_at, start.
  rewrite clean_contains_raw, raw_contains_wt by exact Hn. reflexivity.
Qed.

Theorem ngram_irrelevant P P' :
  2 <= n_gram P -> 2 <= n_gram P' ->
  dsl P' = dsl P -> forbidden P' = forbidden P -> request P' = request P ->
  max_depth P' = max_depth P -> min_var P' = min_var P -> const_types P' = const_types P ->
  forall p, contains P' p = contains P p.
Proof.
  intros H H' E1 E2 E3 E4 E5 E6 p. rewrite !contains_is_typed by assumption.
  destruct P as [a b c d e f g], P' as [a' b' c' d' e' f' g']; cbn in *; subst.
  generalize (returns c) (@None (sym * nat)) 0.
  induction p as [s|h args IH] using prog_ind'; intros t par dd.
  - reflexivity.
  - rewrite !wt_fun. destruct args as [|a0 ar0]; [reflexivity|].
    change (wt_head {| dsl := a; forbidden := b; request := c; max_depth := d; min_var := e; n_gram := f'; const_types := g |} t par dd h)
      with (wt_head {| dsl := a; forbidden := b; request := c; max_depth := d; min_var := e; n_gram := f; const_types := g |} t par dd h).
    destruct (wt_head _ t par dd h); auto.
    apply all2b_ext_Forall. revert IH; apply Forall_impl. intros q Hq it. apply Hq.
Qed.

(** * C01_count: programs() is the size of the language list *)

Lemma length_flat_map {X Y} (f : X -> list Y) l :
  length (flat_map f l) = fold_right (fun x acc => length (f x) + acc) 0 l.
Proof. induction l as [|x r IH]; cbn; auto. rewrite app_length, IH; reflexivity. Qed.

Lemma length_list_prod {X} (ls : list (list X)) :
  length (list_prod ls) = fold_right (fun l m => length l * m) 1 ls.
Proof.
  induction ls as [|l r IH]; cbn [list_prod fold_right length]; auto.
  rewrite length_flat_map. rewrite <- IH. generalize (list_prod r) as q. intros q.
  induction l as [|x l' IHl]; cbn [fold_right length]; auto.
  rewrite map_length, IHl. lia.
Qed.

Lemma count_at_length P : forall fuel x, count_at fuel P x = N.of_nat (length (lang_at fuel P x)).
Proof.
  induction fuel as [|f IH]; intros x; cbn [count_at lang_at]; [reflexivity|].
  rewrite length_flat_map. induction (crules P x) as [|r l IHl]; cbn [fold_right]; [reflexivity|].
  rewrite IHl, Nat2N.inj_add. f_equal. clear IHl.
  assert (E : fold_right (fun a m => (count_at f P a * m)%N) 1%N (snd r)
              = N.of_nat (length (list_prod (map (lang_at f P) (snd r))))).
  { rewrite length_list_prod. induction (snd r) as [|n nr IHn]; cbn [fold_right map]; [reflexivity|].
    rewrite IHn, IH, Nat2N.inj_mul. reflexivity. }
  rewrite E. destruct (snd r) as [|n nr]; [reflexivity|]. rewrite map_length. reflexivity.
Qed.

Theorem programs_is_length P : programs P = N.of_nat (length (lang P)).
Proof. apply count_at_length. Qed.

(** * The language list: no repetition, and exactly the normal members *)

Lemma In_list_prod {X} (ls : list (list X)) l :
  In l (list_prod ls) <-> Forall2 (fun a la => In a la) l ls.
Proof.
  revert l; induction ls as [|la r IH]; intros l; cbn [list_prod].
  - split; [intros [<-|[]]; constructor|]. intros H; inversion H; cbn; auto.
  - rewrite in_flat_map. split.
    + intros [x [Hx Hl]]. apply in_map_iff in Hl. destruct Hl as [l' [<- Hl']].
      constructor; auto. apply IH; auto.
    + intros H; inversion H as [|a la' l' r' Ha Hr]; subst. exists a. split; auto.
      apply in_map_iff. exists l'. split; auto. apply IH; auto.
Qed.

Lemma NoDup_list_prod {X} (ls : list (list X)) : Forall (@NoDup X) ls -> NoDup (list_prod ls).
Proof.
  induction 1 as [|la r Hla Hr IH]; cbn [list_prod]; [repeat constructor; cbn; tauto|].
  apply NoDup_flat_map_intro; auto.
  - intros x _. apply NoDup_map_inj; auto. intros a b _ _ E; inversion E; auto.
  - intros x y l _ _ Hx Hy. apply in_map_iff in Hx, Hy.
    destruct Hx as [l1 [<- _]], Hy as [l2 [E _]]. inversion E; auto.
Qed.

Lemma NoDup_dsl_flat {Y} (l : list (N * ty)) (c : N * ty -> bool) (h : N * ty -> Y) :
  (forall a b, h a = h b -> a = b) -> NoDup l ->
  NoDup (flat_map (fun nt => if c nt then [h nt] else []) l).
Proof.
  intros Hh Hl. apply NoDup_flat_map_intro; auto.
  - intros x _. destruct (c x); repeat constructor; cbn; tauto.
  - intros x y a _ _ Hx Hy. destruct (c x), (c y); cbn in Hx, Hy; try tauto.
    destruct Hx as [<-|[]], Hy as [E|[]]. symmetry; auto.
Qed.

Lemma NoDup_rules_at P x : NoDup (dsl P) -> NoDup (rules_at P x).
Proof.
  intros Hdsl. destruct x as [[t g] d]. unfold rules_at; cbv zeta.
  destruct (Nat.ltb d (max_depth P)); [|constructor].
  assert (Hvars : NoDup (enumerate (arguments (request P)))) by apply NoDup_enumerate_from.
  set (LV := flat_map (fun ia : nat * ty => if ty_eqb t (snd ia) then [(SVar (fst ia) t, @nil cnt)] else []) (enumerate (arguments (request P)))).
  set (LC := if memb ty_eqb t (const_types P) then [(SConst t None, @nil cnt)] else []).
  set (LP := flat_map (fun nt : N * ty => if ty_eqb (snd nt) t && negb (is_forbidden P g (fst nt))
                           then [(SPrim (fst nt) (snd nt), @nil cnt)] else []) (dsl P)).
  set (CP := flat_map (fun nt : N * ty =>
                      if is_forbidden P g (fst nt) then []
                      else match ends_with (snd nt) t with
                           | Some (a :: r) =>
                             [(SPrim (fst nt) (snd nt), decorate P g d (SPrim (fst nt) (snd nt)) (a :: r))]
                           | _ => []
                           end) (dsl P)).
  set (CV := flat_map (fun ia : nat * ty =>
                            match ends_with (snd ia) t with
                            | Some (a :: r) =>
                              [(SVar (fst ia) (snd ia), decorate P g d (SVar (fst ia) (snd ia)) (a :: r))]
                            | _ => []
                            end) (enumerate (arguments (request P)))).
  assert (HLV : forall s nts, In (s, nts) LV -> nts = [] /\ exists i u, s = SVar i u).
  { intros s nts H. apply in_flat_map in H. destruct H as [[i a] [_ H]]. cbn [fst snd] in H.
    destruct (ty_eqb t a); [|contradiction]. destruct H as [H|[]]; inversion H; eauto. }
  assert (HLC : forall s nts, In (s, nts) LC -> nts = [] /\ exists u v, s = SConst u v).
  { intros s nts H. unfold LC in H. destruct (memb ty_eqb t (const_types P)); [|contradiction].
    destruct H as [H|[]]; inversion H; eauto. }
  assert (HLP : forall s nts, In (s, nts) LP -> nts = [] /\ exists n u, s = SPrim n u).
  { intros s nts H. apply in_flat_map in H. destruct H as [[n a] [_ H]]. cbn [fst snd] in H.
    destruct (_ && _); [|contradiction]. destruct H as [H|[]]; inversion H; eauto. }
  assert (HCP : forall s nts, In (s, nts) CP -> nts <> [] /\ exists n u, s = SPrim n u).
  { intros s nts H. apply in_flat_map in H. destruct H as [[n a] [_ H]]. cbn [fst snd] in H.
    destruct (is_forbidden P g n); [contradiction|].
    destruct (ends_with a t) as [[|a1 r1]|]; try contradiction.
    destruct H as [H|[]]; inversion H; split; eauto. unfold decorate, enumerate; cbn; discriminate. }
  assert (HCV : forall s nts, In (s, nts) CV -> nts <> [] /\ exists i u, s = SVar i u).
  { intros s nts H. apply in_flat_map in H. destruct H as [[n a] [_ H]]. cbn [fst snd] in H.
    destruct (ends_with a t) as [[|a1 r1]|]; try contradiction.
    destruct H as [H|[]]; inversion H; split; eauto. unfold decorate, enumerate; cbn; discriminate. }
  assert (NLV : NoDup LV).
  { apply NoDup_flat_map_intro; auto.
    - intros x _. destruct (ty_eqb t (snd x)); repeat constructor; cbn; tauto.
    - intros [i a] [j b] r _ _ Hx Hy. cbn [fst snd] in Hx, Hy.
      destruct (ty_eqb t a) eqn:Ea, (ty_eqb t b) eqn:Eb; cbn in Hx, Hy; try tauto.
      destruct Hx as [<-|[]], Hy as [E|[]]. inversion E; subst.
      apply ty_eqb_spec in Ea, Eb; subst; reflexivity. }
  assert (NLC : NoDup LC).
  { unfold LC. destruct (memb ty_eqb t (const_types P)); repeat constructor; cbn; tauto. }
  assert (NLP : NoDup LP).
  { unfold LP. apply (NoDup_dsl_flat (dsl P) (fun nt => ty_eqb (snd nt) t && negb (is_forbidden P g (fst nt)))
                        (fun nt => (SPrim (fst nt) (snd nt), @nil cnt))); auto.
    intros [n a] [m b] E; inversion E; reflexivity. }
  assert (NCP : NoDup CP).
  { apply NoDup_flat_map_intro; auto.
    - intros x _. destruct (is_forbidden P g (fst x)); [constructor|].
      destruct (ends_with (snd x) t) as [[|a1 r1]|]; repeat constructor; cbn; tauto.
    - intros [n a] [m b] r _ _ Hx Hy. cbn [fst snd] in Hx, Hy.
      destruct (is_forbidden P g n); [contradiction|]. destruct (is_forbidden P g m); [contradiction|].
      destruct (ends_with a t) as [[|a1 r1]|]; try contradiction.
      destruct (ends_with b t) as [[|a2 r2]|]; try contradiction.
      destruct Hx as [<-|[]], Hy as [E|[]]. inversion E; reflexivity. }
  assert (NCV : NoDup CV).
  { apply NoDup_flat_map_intro; auto.
    - intros x _. destruct (ends_with (snd x) t) as [[|a1 r1]|]; repeat constructor; cbn; tauto.
    - intros [n a] [m b] r _ _ Hx Hy. cbn [fst snd] in Hx, Hy.
      destruct (ends_with a t) as [[|a1 r1]|]; try contradiction.
      destruct (ends_with b t) as [[|a2 r2]|]; try contradiction.
      destruct Hx as [<-|[]], Hy as [E|[]]. inversion E; reflexivity. }
  assert (NL1 : NoDup (LV ++ LC)).
  { apply NoDup_app_intro; auto. intros [s nts] H1 H2.
    apply HLV in H1. apply HLC in H2. destruct H1 as [_ [i [u ->]]], H2 as [_ [u' [v E]]]. discriminate. }
  assert (NC : NoDup (CP ++ CV)).
  { apply NoDup_app_intro; auto. intros [s nts] H1 H2.
    apply HCP in H1. apply HCV in H2. destruct H1 as [_ [i [u ->]]], H2 as [_ [u' [v E]]]. discriminate. }
  assert (HL1 : forall s nts, In (s, nts) (if Nat.leb (min_var P) d then LV ++ LC else []) -> nts = [] /\ forall n u, s <> SPrim n u).
  { intros s nts H. destruct (Nat.leb (min_var P) d); [|contradiction]. apply in_app_iff in H. destruct H as [H|H].
    - apply HLV in H. destruct H as [-> [i [u ->]]]. split; auto; discriminate.
    - apply HLC in H. destruct H as [-> [i [u ->]]]. split; auto; discriminate. }
  assert (HC : forall s nts, In (s, nts) (if Nat.ltb (S d) (max_depth P) then CP ++ (if Nat.leb (min_var P) d then CV else []) else []) -> nts <> []).
  { intros s nts H. destruct (Nat.ltb (S d) (max_depth P)); [|contradiction]. apply in_app_iff in H. destruct H as [H|H].
    - apply HCP in H; tauto.
    - destruct (Nat.leb (min_var P) d); [|contradiction]. apply HCV in H; tauto. }
  apply NoDup_app_intro; [| apply NoDup_app_intro |].
  - destruct (Nat.leb (min_var P) d); [exact NL1|constructor].
  - exact NLP.
  - destruct (Nat.ltb (S d) (max_depth P)); [|constructor].
    destruct (Nat.leb (min_var P) d); [exact NC|]. rewrite app_nil_r; exact NCP.
  - intros [s nts] H1 H2. apply HLP in H1. apply HC in H2. tauto.
  - intros [s nts] H1 H2. apply HL1 in H1. apply in_app_iff in H2. destruct H2 as [H2|H2].
    + apply HLP in H2. destruct H1 as [_ H1], H2 as [_ [n [u ->]]]. eapply H1; eauto.
    + apply HC in H2. tauto.
Qed.

Lemma wf_params_NoDup P : wf_params P = true <-> NoDup (dsl P).
Proof. apply nodupb_spec, dsl_eqb_spec. Qed.

Lemma NoDup_crules P x : NoDup (dsl P) -> NoDup (crules P x).
Proof. intros H. apply NoDup_filter, NoDup_rules_at, H. Qed.

Lemma NoDup_lang_at P : NoDup (dsl P) -> forall fuel x, NoDup (lang_at fuel P x).
Proof.
  intros Hd. induction fuel as [|f IH]; intros x; cbn [lang_at]; [constructor|].
  apply NoDup_flat_map_intro.
  - apply NoDup_crules; auto.
  - intros [s nts] _. cbn [fst snd]. destruct nts as [|n nr]; [repeat constructor; cbn; tauto|].
    apply NoDup_map_inj; [intros a b _ _ E; inversion E; auto|].
    apply NoDup_list_prod. apply Forall_forall. intros l Hl. apply in_map_iff in Hl.
    destruct Hl as [y [<- _]]. apply IH.
  - intros [s nts] [s' nts'] a H1 H2 Ha Ha'. cbn [fst snd] in Ha, Ha'.
    assert (s = s').
    { destruct nts as [|n nr], nts' as [|n' nr'];
        repeat match goal with
               | H : In _ [_] |- _ => destruct H as [H|[]]
               | H : In _ (map _ _) |- _ => apply in_map_iff in H; destruct H as [? [H _]]
               end; subst; try discriminate; congruence. }
    subst s'. f_equal. eapply crules_functional; eauto.
Qed.

Theorem lang_NoDup P : wf_params P = true -> NoDup (lang P).
Proof. intros H. apply NoDup_lang_at, wf_params_NoDup, H. Qed.

Lemma normal_fun f args :
  normal (PFun f args) = match args with [] => false | _ :: _ => forallb normal args end.
Proof. reflexivity. Qed.

Lemma lang_at_sound P : forall fuel x p,
  In p (lang_at fuel P x) -> contains_gen (crules P) x p = true /\ normal p = true.
Proof.
  induction fuel as [|f IH]; intros x p; cbn [lang_at]; [intros []|].
  rewrite in_flat_map. intros [[s nts] [Hr Hp]]. cbn [fst snd] in Hp.
  assert (Hl : rlookup s (crules P x) = Some nts)
    by (apply (In_alookup sym_eqb sym_eqb_spec); [apply crules_functional|exact Hr]).
  destruct nts as [|n nr].
  - destruct Hp as [<-|[]]. rewrite contains_gen_leaf, Hl. auto.
  - apply in_map_iff in Hp. destruct Hp as [l [<- Hl']]. apply In_list_prod in Hl'.
    rewrite contains_gen_fun, Hl, normal_fun.
    assert (H2 : all2b (contains_gen (crules P)) (n :: nr) l = true /\ forallb normal l = true).
    { clear Hl Hr. revert Hl'. generalize (n :: nr) as nts. intros nts; revert l.
      induction nts as [|m mr IHm]; intros l H; cbn [map] in H; inversion H as [|a la l' r' Ha Hr]; subst;
        cbn [all2b forallb]; auto.
      apply IH in Ha. destruct Ha as [-> ->]. destruct (IHm l' Hr) as [-> ->]. auto. }
    destruct H2 as [H2 H3]. destruct l as [|a0 l0]; [discriminate|]. auto.
Qed.

Lemma lang_at_complete P : forall p fuel x,
  contains_gen (crules P) x p = true -> normal p = true -> ht p <= fuel ->
  In p (lang_at fuel P x).
Proof.
  induction p as [s|f args IH] using prog_ind'; intros fuel x Hc Hn Hf.
  - destruct fuel as [|fu]; [cbn in Hf; lia|]. cbn [lang_at].
    rewrite contains_gen_leaf in Hc.
    destruct (rlookup s (crules P x)) as [[|n r]|] eqn:E; try discriminate.
    apply (alookup_In sym_eqb sym_eqb_spec) in E.
    apply in_flat_map. exists (s, []). split; auto. cbn; auto.
  - destruct fuel as [|fu]; [cbn in Hf; lia|]. cbn [lang_at].
    rewrite contains_gen_fun in Hc. rewrite normal_fun in Hn. rewrite ht_fun in Hf.
    destruct (rlookup f (crules P x)) as [nts|] eqn:E; try discriminate.
    apply (alookup_In sym_eqb sym_eqb_spec) in E.
    apply in_flat_map. exists (f, nts). split; auto. cbn [fst snd].
    destruct args as [|a0 ar0]; [discriminate|].
    destruct nts as [|n0 nr0]; [discriminate|].
    apply in_map. apply In_list_prod.
    assert (Hm : forall a, In a (a0 :: ar0) -> ht a <= fu) by (intros a Ha; apply maxht_In in Ha; lia).
    clear E Hf. revert Hc Hn Hm IH. generalize (n0 :: nr0) as nts. generalize (a0 :: ar0) as args.
    induction args as [|a ar IHa]; intros [|n nr] Hc Hn Hm IH; cbn [all2b map forallb] in *; try discriminate.
    + constructor.
    + apply andb_true_iff in Hc, Hn. destruct Hc as [Hc1 Hc2], Hn as [Hn1 Hn2].
      inversion IH as [|? ? IH1 IH2]; subst. constructor.
      * apply IH1; auto. apply Hm; cbn; auto.
      * apply IHa; auto. intros b Hb; apply Hm; cbn; auto.
Qed.

Theorem lang_spec P p : In p (lang P) <-> contains P p = true /\ normal p = true.
Proof.
  unfold lang, contains, contains_at. split.
  - apply lang_at_sound.
  - intros [Hc Hn]. apply lang_at_complete; auto.
    rewrite clean_contains_raw in Hc. apply raw_depth in Hc. unfold fuel_of. lia.
Qed.

(** On normal programs the height is Program.depth, so members respect the bound. *)
Lemma ht_pos p : 1 <= ht p.
Proof. destruct p; cbn; lia. Qed.

Lemma normal_pdepth : forall p, normal p = true -> pdepth p = ht p.
Proof.
  induction p as [s|f args IH] using prog_ind'; intros Hn; [reflexivity|].
  rewrite normal_fun in Hn. rewrite ht_fun. cbn [pdepth].
  assert (G : forall l, Forall (fun p => normal p = true -> pdepth p = ht p) l -> forallb normal l = true ->
              fold_right (fun a acc => Nat.max (pdepth a) acc) 1 l = Nat.max 1 (maxht l)).
  { induction l as [|a r IHl]; intros HF Hb; cbn [fold_right maxht forallb] in *; [reflexivity|].
    inversion HF as [|? ? H1 H2]; subst. apply andb_true_iff in Hb. destruct Hb as [Hb1 Hb2].
    rewrite (IHl H2 Hb2), (H1 Hb1). unfold maxht. lia. }
  destruct args as [|a0 ar0]; [discriminate|].
  rewrite (G _ IH Hn). cbn [maxht fold_right]. pose proof (ht_pos a0). lia.
Qed.

Theorem member_depth P p : contains P p = true -> normal p = true -> pdepth p <= max_depth P.
Proof.
  intros Hc Hn. rewrite (normal_pdepth p Hn).
  unfold contains, contains_at in Hc. rewrite clean_contains_raw in Hc. apply raw_depth in Hc.
  unfold start in Hc; cbn in Hc. lia.
Qed.

(** * C01_rules_useful *)

Definition memberb (P : params) (n : cnt) (w : prog) : bool := contains_gen (crules P) n w && normal w.

Lemma witnesses {A B} (M : A -> B -> bool) (l : list A) :
  (forall a, In a l -> exists b, M a b = true) -> exists bs, all2b M l bs = true.
Proof.
  induction l as [|a r IH]; intros H.
  - exists []; reflexivity.
  - destruct (H a (or_introl eq_refl)) as [b Hb].
    destruct IH as [bs Hbs]; [intros; apply H; cbn; auto|].
    exists (b :: bs); cbn. rewrite Hb, Hbs; reflexivity.
Qed.

Lemma witnesses_with {A B} (M : A -> B -> bool) (l : list A) y q :
  (forall a, In a l -> exists b, M a b = true) -> In y l -> M y q = true ->
  exists bs, all2b M l bs = true /\ In (y, q) (combine l bs).
Proof.
  induction l as [|a r IH]; intros H Hy Hq; [destruct Hy|].
  destruct Hy as [->|Hy].
  - destruct (witnesses M r) as [bs Hbs]; [intros; apply H; cbn; auto|].
    exists (q :: bs); cbn. rewrite Hq, Hbs; auto.
  - destruct (H a (or_introl eq_refl)) as [b Hb].
    destruct IH as [bs [Hbs Hi]]; auto; [intros; apply H; cbn; auto|].
    exists (b :: bs); cbn. rewrite Hb, Hbs; auto.
Qed.

Lemma all2b_memberb P nts qs :
  all2b (memberb P) nts qs = true ->
  all2b (contains_gen (crules P)) nts qs = true /\ forallb normal qs = true.
Proof.
  revert qs; induction nts as [|n nr IH]; intros [|q qr]; cbn [all2b forallb]; try discriminate; auto.
  unfold memberb at 1. rewrite !andb_true_iff. intros [[H1 H2] H3]. destruct (IH _ H3). auto.
Qed.

(** a productive non-terminal has a (normal) member *)
Lemma productive_witness P : forall f x, productive f P x = true -> exists q, memberb P x q = true.
Proof.
  induction f as [|f IH]; intros x H; [discriminate|]. cbn [productive] in H.
  apply existsb_exists in H. destruct H as [[s nts] [Hr Hall]]. cbn [snd] in Hall.
  rewrite forallb_forall in Hall.
  destruct (witnesses (memberb P) nts) as [qs Hqs]; [intros n Hn; apply IH, Hall, Hn|].
  apply all2b_memberb in Hqs. destruct Hqs as [Hc Hnorm].
  assert (Hl : rlookup s (rules_at P x) = Some nts)
    by (apply (In_alookup sym_eqb sym_eqb_spec); [apply rules_at_functional|exact Hr]).
  unfold memberb. destruct nts as [|n nr].
  - exists (PLeaf s). rewrite clean_contains_raw, contains_gen_leaf, Hl. reflexivity.
  - exists (PFun s qs). rewrite clean_contains_raw, contains_gen_fun, Hl, normal_fun.
    rewrite <- (all2b_ext_Forall (contains_gen (crules P))), Hc
      by (apply Forall_forall; intros; apply clean_contains_raw).
    destruct qs; [discriminate|]. rewrite Hnorm. reflexivity.
Qed.

Theorem productive_iff_member P x :
  productive (fuel_of P) P x = true <-> exists q, contains_gen (crules P) x q = true.
Proof.
  split.
  - intros H. apply productive_witness in H. destruct H as [q H]. exists q.
    unfold memberb in H. apply andb_true_iff in H; tauto.
  - intros [q H]. rewrite clean_contains_raw in H. eapply raw_productive_fuel; eauto.
Qed.

Lemma crules_args_productive P x r n :
  In r (crules P x) -> In n (snd r) -> productive (fuel_of P) P n = true.
Proof.
  unfold crules. rewrite filter_In. intros [_ H] Hn. rewrite forallb_forall in H. auto.
Qed.

(** every remaining rule is the head rule of some normal member of its non-terminal *)
Lemma rule_has_member P x r :
  In r (crules P x) -> exists q, memberb P x q = true /\ head q = fst r.
Proof.
  intros Hr. destruct r as [s nts].
  destruct (witnesses (memberb P) nts) as [qs Hqs].
  { intros n Hn. eapply productive_witness, crules_args_productive; eauto. }
  apply all2b_memberb in Hqs. destruct Hqs as [Hc Hnorm].
  assert (Hl : rlookup s (crules P x) = Some nts)
    by (apply (In_alookup sym_eqb sym_eqb_spec); [apply crules_functional|exact Hr]).
  unfold memberb. destruct nts as [|n nr].
  - exists (PLeaf s). rewrite contains_gen_leaf, Hl. auto.
  - exists (PFun s qs). rewrite contains_gen_fun, Hl, normal_fun, Hc.
    destruct qs; [discriminate|]. rewrite Hnorm. auto.
Qed.

(** a member at a connected non-terminal extends to a member of the language *)
Lemma reach_context P x : Reach P x -> forall q, memberb P x q = true ->
  exists p, memberb P (start P) p = true /\
            forall x' r, Uses (crules P) x q x' r -> Uses (crules P) (start P) p x' r.
Proof.
  induction 1 as [|x [s nts] y Hx IH Hr Hy]; intros q Hq.
  - exists q; auto.
  - cbn [snd] in Hy.
    destruct (witnesses_with (memberb P) nts y q) as [qs [Hqs Hi]]; auto.
    { intros n Hn. eapply productive_witness, crules_args_productive; eauto. }
    apply all2b_memberb in Hqs. destruct Hqs as [Hc Hnorm].
    assert (Hl : rlookup s (crules P x) = Some nts)
      by (apply (In_alookup sym_eqb sym_eqb_spec); [apply crules_functional|exact Hr]).
    destruct (IH (PFun s qs)) as [p [Hp Hu]].
    { unfold memberb. rewrite contains_gen_fun, Hl, normal_fun, Hc.
      destruct qs as [|q0 qr]; [destruct nts; destruct Hi|]. rewrite Hnorm. reflexivity. }
    exists p. split; auto. intros x' r Huse. apply Hu.
    eapply uses_arg with (nts := nts) (n := y) (a := q); eauto.
Qed.

Lemma In_dedup {X} (eqb : X -> X -> bool) x l : In x (dedup eqb l) -> In x l.
Proof.
  induction l as [|y r IH]; cbn [dedup]; auto.
  destruct (memb eqb y r); cbn [In]; tauto.
Qed.

Lemma levels_reach P : forall k cur, (forall x, In x cur -> Reach P x) ->
  forall x, In x (levels k P cur) -> Reach P x.
Proof.
  induction k as [|k IH]; intros cur Hcur x; cbn [levels]; [intros []|].
  rewrite in_app_iff. intros [H|H]; auto.
  revert H. apply IH. intros y Hy. apply In_dedup in Hy.
  apply in_flat_map in Hy. destruct Hy as [x0 [Hx0 Hy]].
  apply in_flat_map in Hy. destruct Hy as [r [Hr Hy]].
  eapply reach_step; eauto.
Qed.

Theorem reachable_reach P x : In x (reachable P) -> Reach P x.
Proof.
  apply levels_reach. intros y [<-|[]]. constructor.
Qed.

Theorem rules_useful P x r :
  In x (reachable P) -> In r (crules P x) ->
  exists p, In p (lang P) /\ Uses (crules P) (start P) p x r.
Proof.
  intros Hx Hr. apply reachable_reach in Hx.
  destruct (rule_has_member P x r Hr) as [q [Hq Hh]].
  destruct (reach_context P x Hx q Hq) as [p [Hp Hu]].
  exists p. split.
  - apply lang_spec. unfold memberb in Hp. apply andb_true_iff in Hp. exact Hp.
  - apply Hu. apply uses_here; auto.
Qed.

Theorem reachable_productive P x :
  In x (reachable P) -> x = start P \/ productive (fuel_of P) P x = true.
Proof.
  intros Hx. apply reachable_reach in Hx. destruct Hx as [|x r y _ Hr Hy]; [left; reflexivity|right].
  eapply crules_args_productive; eauto.
Qed.

(** [reachable] is complete: every connected non-terminal is listed *)
Lemma pred_eqb_spec a b : pred_eqb a b = true <-> a = b.
Proof.
  destruct a as [s i], b as [s' j]; unfold pred_eqb; cbn [fst snd].
  rewrite andb_true_iff, sym_eqb_spec, Nat.eqb_eq. split; [intros [-> ->]; auto|intros E; inversion E; auto].
Qed.

Lemma cnt_eqb_spec a b : cnt_eqb a b = true <-> a = b.
Proof.
  destruct a as [[t g] d], b as [[t' g'] d']; unfold cnt_eqb, nt_type, nt_ctx, nt_depth; cbn [fst snd].
  rewrite !andb_true_iff, ty_eqb_spec, (list_eqb_spec pred_eqb pred_eqb_spec), Nat.eqb_eq.
  split; [intros [[-> ->] ->]; auto|intros E; inversion E; auto].
Qed.

Lemma In_dedup_conv {X} (eqb : X -> X -> bool) :
  (forall x y, eqb x y = true <-> x = y) -> forall x l, In x l -> In x (dedup eqb l).
Proof.
  intros Hs x l; induction l as [|y r IH]; cbn [dedup In]; auto.
  destruct (memb eqb y r) eqn:E.
  - intros [->|H]; auto. apply IH. apply (memb_spec eqb Hs); auto.
  - intros [->|H]; cbn; auto.
Qed.

Inductive Path (P : params) : cnt -> nat -> cnt -> Prop :=
| path_nil : forall x, Path P x 0 x
| path_cons : forall x r x1 j y,
    In r (crules P x) -> In x1 (snd r) -> Path P x1 j y -> Path P x (S j) y.

Lemma Path_snoc P x j y r z :
  Path P x j y -> In r (crules P y) -> In z (snd r) -> Path P x (S j) z.
Proof.
  induction 1 as [x|x r0 x1 j y Hr0 Hx1 _ IH]; intros Hr Hz.
  - eapply path_cons; eauto. constructor.
  - eapply path_cons; eauto.
Qed.

Lemma Reach_Path P y : Reach P y -> exists j, Path P (start P) j y /\ j < fuel_of P.
Proof.
  intros H. cut (exists j, Path P (start P) j y /\ j = nt_depth y /\ j < fuel_of P).
  { intros [j [H1 [_ H2]]]; eauto. }
  induction H as [|x [s nts] y Hx IH Hr Hy].
  - exists 0. repeat split; [constructor|unfold fuel_of; lia].
  - destruct IH as [j [Hp [Hj _]]]. exists (S j). split; [eapply Path_snoc; eauto|].
    apply In_crules in Hr. destruct Hr as [Hr _]. destruct x as [[t g] d].
    apply rule_of_depth in Hr. destruct Hr as [_ Hr]. cbn [snd] in Hy.
    destruct (Hr y Hy) as [E1 E2]. cbn [nt_depth snd] in Hj. subst j. unfold fuel_of. split; lia.
Qed.

Lemma levels_complete P : forall k j cur x y,
  In x cur -> Path P x j y -> j < k -> In y (levels k P cur).
Proof.
  induction k as [|k IH]; intros j cur x y Hx Hp Hj; [lia|]. cbn [levels]. apply in_app_iff.
  inversion Hp as [x0|x0 r x1 j' y0 Hr Hx1 Hp']; subst.
  - left; auto.
  - right. apply (IH j' _ x1); auto; [|lia].
    apply (In_dedup_conv cnt_eqb cnt_eqb_spec).
    apply in_flat_map. exists x. split; auto. apply in_flat_map. exists r. auto.
Qed.

Theorem reachable_iff_reach P x : In x (reachable P) <-> Reach P x.
Proof.
  split; [apply reachable_reach|]. intros H. apply Reach_Path in H. destruct H as [j [Hp Hj]].
  unfold reachable. eapply levels_complete; eauto. cbn; auto.
Qed.

(** * Non-vacuity: a concrete DSL
    int = TPrim 0, bool = TPrim 1;  0:"+" int->int->int, 1:"1" int, 2:"0" int,
    3:"not" bool->bool, 4:"lt" int->int->bool, 5:"sel" bool->int->int;
    "0" is forbidden as first argument of "+" (a zero-arity child);
    request (int->int)->int->int: var0 is function-typed, var1 an int;
    depth 3, variables and constants from nesting depth 1, bigrams,
    constants of type bool. *)
Module Ex.
  Definition tint := TPrim 0.
  Definition tbool := TPrim 1.
  Definition t_plus := TArrow tint (TArrow tint tint).
  Definition ex_P : params := {|
    dsl := [(0%N, t_plus); (1%N, tint); (2%N, tint);
            (3%N, TArrow tbool tbool); (4%N, TArrow tint (TArrow tint tbool));
            (5%N, TArrow tbool (TArrow tint tint))];
    forbidden := [((0%N, 0), [2%N])];
    request := TArrow (TArrow tint tint) (TArrow tint tint);
    max_depth := 3; min_var := 1; n_gram := 2; const_types := [tbool] |}.

  Definition plus := SPrim 0 t_plus.
  Definition one := PLeaf (SPrim 1 tint).
  Definition zero := PLeaf (SPrim 2 tint).
  Definition var0 := SVar 0 (TArrow tint tint).
  Definition var1 := PLeaf (SVar 1 tint).
  Definition sel := SPrim 5 (TArrow tbool (TArrow tint tint)).
  Definition lt := SPrim 4 (TArrow tint (TArrow tint tbool)).
  Definition cbool := PLeaf (SConst tbool None).

  Example ex_wf : wf_params ex_P = true /\ 2 <= n_gram ex_P.
  Proof. split; [vm_compute; reflexivity|cbn; lia]. Qed.

  Example ex_programs : programs ex_P = 377%N.
  Proof. vm_compute; reflexivity. Qed.

  Example ex_lang_typed : length (lang ex_P) = 377 /\ forallb (typed ex_P) (lang ex_P) = true.
  Proof. split; vm_compute; reflexivity. Qed.

  (** members *)
  Example ex_in_1 : contains ex_P (PFun plus [one; zero]) = true /\ typed ex_P (PFun plus [one; zero]) = true.
  Proof. split; vm_compute; reflexivity. Qed.
  Example ex_in_2 : (* function-typed variable applied, below the root *)
    contains ex_P (PFun plus [PFun var0 [one]; var1]) = true /\ typed ex_P (PFun plus [PFun var0 [one]; var1]) = true.
  Proof. split; vm_compute; reflexivity. Qed.
  Example ex_in_3 : (* two base types, a constant slot *)
    contains ex_P (PFun sel [PFun lt [var1; zero]; one]) = true /\ contains ex_P (PFun sel [cbool; zero]) = true.
  Proof. split; vm_compute; reflexivity. Qed.
  Example ex_in_4 : (* the forbidden pattern concerns argument 0 only *)
    contains ex_P (PFun plus [PFun plus [one; zero]; zero]) = true.
  Proof. vm_compute; reflexivity. Qed.

  (** non-members *)
  Example ex_out_forbidden : (* zero-arity forbidden child *)
    contains ex_P (PFun plus [zero; one]) = false /\ typed ex_P (PFun plus [zero; one]) = false.
  Proof. split; vm_compute; reflexivity. Qed.
  Example ex_out_forbidden_deep :
    contains ex_P (PFun plus [one; PFun plus [zero; one]]) = false.
  Proof. vm_compute; reflexivity. Qed.
  Example ex_out_minvar : (* variables not at nesting depth 0 *)
    contains ex_P var1 = false /\ contains ex_P (PFun var0 [one]) = false /\ typed ex_P (PFun var0 [one]) = false.
  Proof. repeat split; vm_compute; reflexivity. Qed.
  Example ex_out_partial : (* partial application, bare function, wrong arity *)
    contains ex_P (PFun plus [one]) = false /\ contains ex_P (PLeaf plus) = false
    /\ contains ex_P (PFun plus [one; one; one]) = false /\ typed ex_P (PFun plus [one]) = false.
  Proof. repeat split; vm_compute; reflexivity. Qed.
  Example ex_out_depth : (* depth 4 *)
    contains ex_P (PFun plus [PFun plus [PFun plus [one; one]; one]; one]) = false.
  Proof. vm_compute; reflexivity. Qed.
  Example ex_out_type : (* wrong type, ill-typed argument, constant at a type not declared *)
    contains ex_P (PFun lt [one; one]) = false /\ contains ex_P (PFun plus [cbool; one]) = false
    /\ contains ex_P (PFun plus [one; PLeaf (SConst tint None)]) = false.
  Proof. repeat split; vm_compute; reflexivity. Qed.
  Example ex_out_var_as_value : (* var0 : int->int is not an int *)
    contains ex_P (PFun plus [one; PLeaf var0]) = false.
  Proof. vm_compute; reflexivity. Qed.

  (** an application node without arguments is accepted like the bare symbol
      but is not a normal program, hence not in the enumeration *)
  Example ex_empty_app : contains ex_P (PFun (SPrim 1 tint) []) = true /\ normal (PFun (SPrim 1 tint) []) = false.
  Proof. split; vm_compute; reflexivity. Qed.

  Example ex_reachable : length (reachable ex_P) = 13 /\ length (rule_triples ex_P) = 43.
  Proof. split; vm_compute; reflexivity. Qed.

  (** the hypothesis 2 <= n_gram of the language theorem cannot be dropped:
      with width 1 the parent is forgotten and the forbidden term is accepted *)
  Definition ex_P1 : params := {|
    dsl := dsl ex_P; forbidden := forbidden ex_P; request := request ex_P;
    max_depth := 3; min_var := 1; n_gram := 1; const_types := [tbool] |}.
  Example ex_ngram1 : contains ex_P1 (PFun plus [zero; one]) = true /\ typed ex_P1 (PFun plus [zero; one]) = false.
  Proof. split; vm_compute; reflexivity. Qed.

  (** the hypothesis wf_params of the no-repetition theorem cannot be dropped
      for the model: a primitive listed twice is enumerated twice.  (The code
      keeps rules in a dict and DSL.__init__ builds the list from a dict, so
      the situation does not arise there.) *)
  Definition ex_dup : params := {|
    dsl := [(1%N, tint); (1%N, tint)]; forbidden := []; request := tint;
    max_depth := 1; min_var := 0; n_gram := 2; const_types := [] |}.
  Example ex_dup_lang : lang ex_dup = [one; one] /\ programs ex_dup = 2%N /\ wf_params ex_dup = false.
  Proof. repeat split; vm_compute; reflexivity. Qed.
End Ex.

Theorem ngram1_refuted :
  exists P p, n_gram P = 1 /\ contains P p = true /\ wt P (returns (request P)) None 0 p = false.
Proof. exists Ex.ex_P1, (PFun Ex.plus [Ex.zero; Ex.one]). split; [reflexivity|exact Ex.ex_ngram1]. Qed.
