(** Proofs for the last sentence of property C01: the grammar built by the
    model of CFG.infinite contains exactly the terms typed by [wt_inf];
    cleaning does not change membership; the depth-bounded grammar is the
    restriction of the unbounded one; counting for finite unbounded languages;
    the derivation API. *)
From Coq Require Import ZArith NArith List Bool Lia Arith Setoid.
From PS Require Import Base.ListX Base.Sexp Base.Ty Base.Value Base.Prog
  Gram.Cfg Gram.CfgSpec Gram.CfgProofs Gram.CfgInf Gram.CfgInfSpec.
Import ListNotations.

(** * The rules of a non-terminal, as a function of the symbol *)

Definition rule_of_inf (P : params) (x : cnt) (s : sym) : option (list cnt) :=
  let '(t, g, _) := x in
  if wt_leaf_inf P t (hd_error g) s then Some []
  else match wt_head_inf P t (hd_error g) s with
       | Some (a :: r) => Some (decorate_inf P g s (a :: r))
       | _ => None
       end.

Lemma rules_inf_sound P t g d s nts :
  In (s, nts) (rules_inf P (t, g, d)) -> rule_of_inf P (t, g, d) s = Some nts.
Proof.
  unfold rules_inf; cbv zeta. intros H.
  rewrite !in_app_iff in H. destruct H as [H|[H|[H|[H|H]]]].
  - apply in_flat_map in H. destruct H as [[i a] [Hia H]]; cbn [fst snd] in H.
    destruct (ty_eqb t a) eqn:Et; [|contradiction]. destruct H as [H|[]]. inversion H; subst.
    apply ty_eqb_spec in Et; subst a. apply In_enumerate in Hia.
    unfold rule_of_inf, wt_leaf_inf. rewrite ty_eqb_refl, Hia. cbn [option_eqb]. rewrite ty_eqb_refl. reflexivity.
  - destruct (memb ty_eqb t (const_types P)) eqn:Hc; [|contradiction]. destruct H as [H|[]]. inversion H; subst.
    unfold rule_of_inf, wt_leaf_inf. rewrite ty_eqb_refl, Hc. reflexivity.
  - apply in_flat_map in H. destruct H as [[n tp] [Hn H]]; cbn [fst snd] in H.
    destruct (ty_eqb tp t && negb (is_forbidden P g n)) eqn:Ec; [|contradiction].
    destruct H as [H|[]]. inversion H; subst. apply andb_true_iff in Ec. destruct Ec as [Et Ef].
    rewrite is_forbidden_hd in Ef.
    unfold rule_of_inf, wt_leaf_inf. rewrite Et, Ef. apply memb_dsl in Hn. rewrite Hn. reflexivity.
  - apply in_flat_map in H. destruct H as [[n tp] [Hn H]]; cbn [fst snd] in H.
    destruct (is_forbidden P g n) eqn:Ef; [contradiction|].
    destruct (ends_with tp t) as [[|a r]|] eqn:Ee; try contradiction.
    destruct H as [H|[]]. inversion H; subst. rewrite is_forbidden_hd in Ef.
    unfold rule_of_inf, wt_leaf_inf, wt_head_inf. rewrite (ends_with_cons_neq _ _ _ _ Ee). cbn [andb].
    apply memb_dsl in Hn. rewrite Hn, Ef, Ee. reflexivity.
  - apply in_flat_map in H. destruct H as [[v tv] [Hv H]]; cbn [fst snd] in H.
    destruct (ends_with tv t) as [[|a r]|] eqn:Ee; try contradiction.
    destruct H as [H|[]]. inversion H; subst. apply In_enumerate in Hv.
    unfold rule_of_inf, wt_leaf_inf, wt_head_inf. rewrite (ends_with_cons_neq _ _ _ _ Ee). cbn [andb].
    rewrite Hv, Ee. cbn [option_eqb]. rewrite ty_eqb_refl. reflexivity.
Qed.

Lemma rules_inf_complete P t g d s nts :
  rule_of_inf P (t, g, d) s = Some nts -> In (s, nts) (rules_inf P (t, g, d)).
Proof.
  unfold rule_of_inf. destruct (wt_leaf_inf P t (hd_error g) s) eqn:Hl.
  - intros E; inversion E; subst nts; clear E.
    unfold rules_inf; cbv zeta. destruct s as [n tp|i t'|t' [v|]]; cbn [wt_leaf_inf] in Hl; try discriminate.
    + rewrite !andb_true_iff in Hl. destruct Hl as [[Et Hn] Hf].
      rewrite !in_app_iff. right; right; left.
      apply in_flat_map. exists (n, tp). apply memb_dsl in Hn. split; auto. cbn [fst snd].
      rewrite is_forbidden_hd, Et, Hf. left; reflexivity.
    + rewrite !andb_true_iff in Hl. destruct Hl as [Et Hn].
      apply ty_eqb_spec in Et; subst t'. apply nth_eqb_spec in Hn.
      rewrite !in_app_iff. left.
      apply in_flat_map. exists (i, t). split; [apply In_enumerate; auto|]. cbn [fst snd].
      rewrite ty_eqb_refl. left; reflexivity.
    + rewrite !andb_true_iff in Hl. destruct Hl as [Et Hc].
      apply ty_eqb_spec in Et; subst t'.
      rewrite Hc. rewrite !in_app_iff. right; left. left; reflexivity.
  - destruct (wt_head_inf P t (hd_error g) s) as [[|a r]|] eqn:Hh; try discriminate.
    intros E; inversion E; subst nts; clear E.
    unfold rules_inf; cbv zeta. destruct s as [n tp|v tv|t' v]; cbn [wt_head_inf] in Hh; try discriminate.
    + destruct (memb dsl_eqb (n, tp) (dsl P) && negb (memb N.eqb n (par_forb P (hd_error g)))) eqn:Ec;
        [|discriminate].
      rewrite !andb_true_iff in Ec. destruct Ec as [Hn Hf].
      rewrite !in_app_iff. right; right; right; left.
      apply in_flat_map. exists (n, tp). apply memb_dsl in Hn. split; auto. cbn [fst snd].
      apply negb_true_iff in Hf. rewrite is_forbidden_hd, Hf, Hh. left; reflexivity.
    + destruct (option_eqb ty_eqb (nth_error (arguments (request P)) v) (Some tv)) eqn:Hn; [|discriminate].
      apply nth_eqb_spec in Hn.
      rewrite !in_app_iff. right; right; right; right.
      apply in_flat_map. exists (v, tv). split; [apply In_enumerate; auto|]. cbn [fst snd].
      rewrite Hh. left; reflexivity.
Qed.

Lemma In_rules_inf P x s nts : In (s, nts) (rules_inf P x) <-> rule_of_inf P x s = Some nts.
Proof. destruct x as [[t g] d]. split; [apply rules_inf_sound|apply rules_inf_complete]. Qed.

Lemma rules_inf_functional P x : functional (rules_inf P x).
Proof. intros s v v' H1 H2. apply In_rules_inf in H1, H2. congruence. Qed.

Lemma rlookup_rules_inf P x s : rlookup s (rules_inf P x) = rule_of_inf P x s.
Proof. unfold rlookup. apply alookup_fun; [apply sym_eqb_spec|]. intros; apply In_rules_inf. Qed.

(** the depth component of a non-terminal is not read *)
Lemma rules_inf_depth P t g d d' : rules_inf P (t, g, d) = rules_inf P (t, g, d').
Proof. reflexivity. Qed.

(** * Raw membership is the typing judgement *)

Lemma wt_inf_fun P t par f args :
  wt_inf P t par (PFun f args) =
  match args with
  | [] => wt_leaf_inf P t par f
  | _ :: _ =>
    match wt_head_inf P t par f with
    | Some tys => all2b (fun it a => wt_inf P (snd it) (Some (f, fst it)) a) (enumerate tys) args
    | None => false
    end
  end.
Proof.
  assert (H : forall l tys i,
    (fix go (i : nat) (tys : list ty) (args : list prog) {struct args} : bool :=
       match tys, args with
       | [], [] => true
       | ty :: tr, a :: ar => wt_inf P ty (Some (f, i)) a && go (S i) tr ar
       | _, _ => false
       end) i tys l
    = all2b (fun it a => wt_inf P (snd it) (Some (f, fst it)) a) (enumerate_from i tys) l).
  { intros l; induction l as [|a ar IH]; intros [|ty tr] i; cbn [all2b enumerate_from fst snd]; auto.
    rewrite IH; reflexivity. }
  cbn [wt_inf]. destruct args as [|a0 ar0]; [reflexivity|].
  destruct (wt_head_inf P t par f) as [tys|]; [|reflexivity].
  exact (H (a0 :: ar0) tys 0).
Qed.

Lemma wt_leaf_head_inf_nil P t par s tys :
  wt_leaf_inf P t par s = true -> wt_head_inf P t par s = Some tys -> tys = [].
Proof.
  destruct s as [n tp|v tv|t' c]; cbn [wt_leaf_inf wt_head_inf]; intros Hl Hh; try discriminate.
  - rewrite !andb_true_iff in Hl. destruct Hl as [[Et _] _].
    destruct (_ && _) in Hh; [|discriminate]. rewrite (ends_with_eq _ _ Et) in Hh. congruence.
  - rewrite !andb_true_iff in Hl. destruct Hl as [Et _].
    destruct (option_eqb _ _ _) in Hh; [|discriminate]. rewrite (ends_with_eq _ _ Et) in Hh. congruence.
Qed.

Theorem raw_contains_wt_inf P : 2 <= n_gram P -> forall p t g d,
  contains_gen (rules_inf P) (t, g, d) p = wt_inf P t (hd_error g) p.
Proof.
  intros Hn. induction p as [s|f args IH] using prog_ind'; intros t g d.
  - rewrite contains_gen_leaf, rlookup_rules_inf. cbn [wt_inf]. unfold rule_of_inf.
    destruct (wt_leaf_inf P t (hd_error g) s); auto.
    destruct (wt_head_inf P t (hd_error g) s) as [[|a r]|]; auto.
  - rewrite contains_gen_fun, rlookup_rules_inf, wt_inf_fun. unfold rule_of_inf.
    destruct (wt_leaf_inf P t (hd_error g) f) eqn:Hl.
    + destruct args as [|a0 ar0]; [reflexivity|]. cbn [all2b].
      destruct (wt_head_inf P t (hd_error g) f) as [tys|] eqn:Hh; auto.
      rewrite (wt_leaf_head_inf_nil _ _ _ _ _ Hl Hh). reflexivity.
    + destruct (wt_head_inf P t (hd_error g) f) as [[|a r]|] eqn:Hh.
      * destruct args; reflexivity.
      * unfold decorate_inf. rewrite all2b_map_l.
        destruct args as [|a0 ar0]; [reflexivity|].
        apply all2b_ext_Forall. revert IH. apply Forall_impl. intros q Hq [i ty]. cbn [fst snd].
        rewrite Hq, hd_ctx_succ by exact Hn. reflexivity.
      * destruct args; reflexivity.
Qed.

Theorem contains_inf_is_typed P : 2 <= n_gram P -> forall p,
  contains_inf P p = wt_inf P (returns (request P)) None p.
Proof. intros Hn p. unfold contains_inf, start. rewrite raw_contains_wt_inf by exact Hn. reflexivity. Qed.

(** * Cleaning does not change membership *)

Definition Member (R : cnt -> list rule) (x : cnt) : Prop := exists p, contains_gen R x p = true.

Lemma inb_spec x l : inb x l = true <-> In x l.
Proof. apply (memb_spec cnt_eqb cnt_eqb_spec). Qed.

Lemma inb_false x l : inb x l = false <-> ~ In x l.
Proof. rewrite <- inb_spec. destruct (inb x l); split; congruence. Qed.

Lemma rlookup_In (l : list rule) s nts : rlookup s l = Some nts -> In (s, nts) l.
Proof. apply (alookup_In sym_eqb sym_eqb_spec). Qed.

Lemma In_rlookup (l : list rule) s nts : functional l -> In (s, nts) l -> rlookup s l = Some nts.
Proof. apply (In_alookup sym_eqb sym_eqb_spec). Qed.

(** Any way of removing rules that keeps, at the non-terminals satisfying an
    invariant [K] that holds at the start symbol, every rule whose arguments
    all produce a program, and under which [K] is inherited by the arguments
    of such rules, leaves membership at the start symbol unchanged. *)
Section CleanAbstract.
  Variable R R' : cnt -> list rule.
  Variable K : cnt -> Prop.
  Hypothesis Hfun : forall x, functional (R x).
  Hypothesis Hsub : forall x r, In r (R' x) -> In r (R x).
  Hypothesis Hkeep : forall x r, K x -> In r (R x) -> (forall m, In m (snd r) -> Member R m) ->
                                 In r (R' x) /\ forall n, In n (snd r) -> K n.

  Lemma Hfun' x : functional (R' x).
  Proof. intros k v v' H1 H2. apply Hsub in H1, H2. eapply Hfun; eauto. Qed.

  Lemma sub_contains : forall p x, contains_gen R' x p = true -> contains_gen R x p = true.
  Proof.
    induction p as [s|f args IH] using prog_ind'; intros x.
    - rewrite !contains_gen_leaf.
      destruct (rlookup s (R' x)) as [[|n r]|] eqn:E; try discriminate. intros _.
      apply rlookup_In, Hsub, (In_rlookup _ _ _ (Hfun x)) in E. rewrite E; reflexivity.
    - rewrite !contains_gen_fun.
      destruct (rlookup f (R' x)) as [nts|] eqn:E; try discriminate. intros Ha.
      apply rlookup_In, Hsub, (In_rlookup _ _ _ (Hfun x)) in E. rewrite E.
      clear E. revert nts Ha. induction IH as [|a ar Hq _ IHl]; intros [|n nr]; cbn [all2b]; auto.
      intros H. apply andb_true_iff in H. destruct H as [H1 H2]. rewrite (Hq _ H1), (IHl _ H2). reflexivity.
  Qed.

  Lemma keep_contains : forall p x, K x -> contains_gen R x p = true -> contains_gen R' x p = true.
  Proof.
    induction p as [s|f args IH] using prog_ind'; intros x Hx.
    - rewrite !contains_gen_leaf.
      destruct (rlookup s (R x)) as [[|n r]|] eqn:E; try discriminate. intros _.
      apply rlookup_In in E. destruct (Hkeep x (s, []) Hx E) as [H _]; [intros m []|].
      apply (In_rlookup _ _ _ (Hfun' x)) in H. rewrite H; reflexivity.
    - rewrite !contains_gen_fun.
      destruct (rlookup f (R x)) as [nts|] eqn:E; try discriminate. intros Ha.
      apply rlookup_In in E. destruct (Hkeep x (f, nts) Hx E) as [H HK].
      { cbn [snd]. intros m Hm. destruct (all2b_In_l _ _ _ _ Ha Hm) as [a [_ Hc]]. exists a; exact Hc. }
      apply (In_rlookup _ _ _ (Hfun' x)) in H. rewrite H. cbn [snd] in HK.
      clear E H. revert nts Ha HK. induction IH as [|a ar Hq _ IHl]; intros [|n nr]; cbn [all2b]; auto.
      intros H HK. apply andb_true_iff in H. destruct H as [H1 H2].
      rewrite (Hq n), (IHl nr); auto; [intros; apply HK; cbn; auto|apply HK; cbn; auto].
  Qed.

  Theorem clean_abstract s : (Member R s -> K s) -> forall p, contains_gen R' s p = contains_gen R s p.
  Proof.
    intros Hs p. destruct (contains_gen R s p) eqn:E.
    - apply keep_contains; auto. apply Hs. exists p; exact E.
    - destruct (contains_gen R' s p) eqn:E'; auto. apply sub_contains in E'. congruence.
  Qed.
End CleanAbstract.

(** connectivity *)
Lemma Conn_trans R x y z : Conn R x y -> Conn R y z -> Conn R x z.
Proof. intros H1 H2. induction H2; auto. eapply conn_step; eauto. Qed.

Lemma In_succs R x n : In n (succs R x) <-> exists r, In r (R x) /\ In n (snd r).
Proof. unfold succs. rewrite in_flat_map. reflexivity. Qed.

Lemma closure_spec R : forall fuel seen U, closure R fuel seen = Some U ->
  incl seen U
  /\ (forall x, In x U -> exists y, In y seen /\ Conn R y x)
  /\ (forall x r n, In x U -> In r (R x) -> In n (snd r) -> In n U).
Proof.
  induction fuel as [|f IH]; intros seen U; cbn [closure]; [discriminate|].
  destruct (dedup cnt_eqb (filter (fun y => negb (inb y seen)) (flat_map (succs R) seen))) as [|a l] eqn:E.
  - intros H; inversion H; subst U; clear H. split; [apply incl_refl|]. split.
    + intros x Hx. exists x. split; auto. constructor.
    + intros x r n Hx Hr Hn. destruct (inb n seen) eqn:Hin; [apply inb_spec; auto|exfalso].
      assert (Hi : In n (dedup cnt_eqb (filter (fun y => negb (inb y seen)) (flat_map (succs R) seen)))).
      { apply (In_dedup_conv cnt_eqb cnt_eqb_spec). apply filter_In. split; [|rewrite Hin; reflexivity].
        apply in_flat_map. exists x. split; auto. apply In_succs. eauto. }
      rewrite E in Hi. destruct Hi.
  - intros H. apply IH in H. destruct H as [H1 [H2 H3]]. split; [|split]; auto.
    + intros x Hx. apply H1, in_app_iff; auto.
    + intros x Hx. destruct (H2 x Hx) as [y [Hy Hc]]. apply in_app_iff in Hy. destruct Hy as [Hy|Hy].
      * exists y; auto.
      * rewrite <- E in Hy. apply In_dedup, filter_In in Hy. destruct Hy as [Hy _].
        apply in_flat_map in Hy. destruct Hy as [z [Hz Hy]]. apply In_succs in Hy. destruct Hy as [r [Hr Hy]].
        exists z. split; auto. eapply Conn_trans; [|exact Hc]. eapply conn_step; eauto. constructor.
Qed.

Lemma closure_start R fuel s U : closure R fuel [s] = Some U ->
  In s U /\ (forall x, In x U <-> Conn R s x).
Proof.
  intros H. apply closure_spec in H. destruct H as [H1 [H2 H3]].
  assert (Hs : In s U) by (apply H1; cbn; auto). split; auto.
  intros x; split.
  - intros Hx. destruct (H2 x Hx) as [y [[<-|[]] Hc]]. exact Hc.
  - induction 1; auto. eapply H3; eauto.
Qed.

Lemma rule_ok_spec Q r : rule_ok Q r = true <-> forall n, In n (snd r) -> In n Q.
Proof.
  unfold rule_ok. rewrite forallb_forall. split; intros H n Hn; [apply inb_spec|apply inb_spec]; auto.
Qed.

(** a rule all of whose arguments have members yields a member *)
Lemma member_of_rule R x s nts :
  functional (R x) -> In (s, nts) (R x) -> (forall n, In n nts -> Member R n) -> Member R x.
Proof.
  intros Hf Hr Hall.
  destruct (witnesses (contains_gen R) nts Hall) as [qs Hqs].
  apply (In_rlookup _ _ _ Hf) in Hr.
  exists (PFun s qs). rewrite contains_gen_fun, Hr. exact Hqs.
Qed.

Lemma prodset_spec R U : (forall x, functional (R x)) -> forall fuel Q0 Q, prodset R U fuel Q0 = Some Q ->
  (forall x, In x Q0 -> In x U /\ Member R x) ->
  (forall x, In x Q -> In x U /\ Member R x)
  /\ (forall x, In x U -> existsb (rule_ok Q) (R x) = true -> In x Q).
Proof.
  intros Hf. induction fuel as [|f IH]; intros Q0 Q; cbn [prodset]; [discriminate|].
  destruct (filter (fun x => negb (inb x Q0) && existsb (rule_ok Q0) (R x)) U) as [|a l] eqn:E.
  - intros H H0; inversion H; subst Q; clear H. split; auto.
    intros x Hx He. destruct (inb x Q0) eqn:Hin; [apply inb_spec; auto|exfalso].
    assert (Hi : In x (filter (fun x => negb (inb x Q0) && existsb (rule_ok Q0) (R x)) U)).
    { apply filter_In. split; auto. rewrite Hin, He. reflexivity. }
    rewrite E in Hi. destruct Hi.
  - intros H H0. apply IH in H; auto.
    intros x Hx. apply in_app_iff in Hx. destruct Hx as [Hx|Hx]; auto.
    rewrite <- E in Hx. apply filter_In in Hx. destruct Hx as [HU Hc]. split; auto.
    apply andb_true_iff in Hc. destruct Hc as [_ Hc]. apply existsb_exists in Hc.
    destruct Hc as [[s nts] [Hr Hok]]. eapply member_of_rule; eauto.
    intros n Hn. rewrite rule_ok_spec in Hok. apply H0, Hok, Hn.
Qed.

Lemma prodset_complete R U Q :
  (forall x r n, In x U -> In r (R x) -> In n (snd r) -> In n U) ->
  (forall x, In x U -> existsb (rule_ok Q) (R x) = true -> In x Q) ->
  forall p x, In x U -> contains_gen R x p = true -> In x Q.
Proof.
  intros Hcl Hst. induction p as [s|f args IH] using prog_ind'; intros x Hx.
  - rewrite contains_gen_leaf. destruct (rlookup s (R x)) as [[|n r]|] eqn:E; try discriminate. intros _.
    apply rlookup_In in E. apply Hst; auto. apply existsb_exists. exists (s, []). split; auto.
  - rewrite contains_gen_fun. destruct (rlookup f (R x)) as [nts|] eqn:E; try discriminate. intros Ha.
    apply rlookup_In in E. apply Hst; auto. apply existsb_exists. exists (f, nts). split; auto.
    apply rule_ok_spec. cbn [snd]. intros n Hn.
    destruct (all2b_In_l _ _ _ _ Ha Hn) as [a [Hi Hc]].
    rewrite Forall_forall in IH. apply (IH a Hi n); auto. eapply Hcl; eauto.
Qed.

(** What clean_gen computes. *)
Theorem clean_gen_spec R s fuel c : (forall x, functional (R x)) -> clean_gen R s fuel = Some c ->
  (forall x, In x (c_prod c) <-> Conn R s x /\ Member R x)
  /\ (forall x, In x (c_reach c) <-> Member R s /\ Conn (prune (c_prod c) R) s x).
Proof.
  intros Hf. unfold clean_gen.
  destruct (closure R fuel [s]) as [U|] eqn:EU; [|discriminate].
  destruct (prodset R U fuel []) as [Q|] eqn:EQ; [|discriminate].
  destruct (closure_start _ _ _ _ EU) as [HsU HU].
  pose proof (closure_spec _ _ _ _ EU) as [_ [_ Hcl]].
  destruct (prodset_spec R U Hf _ _ _ EQ) as [Hsound Hstab]; [intros x []|].
  assert (HQ : forall x, In x Q <-> Conn R s x /\ Member R x).
  { intros x; split.
    - intros Hx. destruct (Hsound x Hx) as [H1 H2]. split; auto. apply HU; auto.
    - intros [Hc [p Hp]]. eapply prodset_complete; eauto. apply HU; auto. }
  destruct (inb s Q) eqn:Hs.
  - destruct (closure (prune Q R) fuel [s]) as [Rch|] eqn:ER; [|discriminate].
    intros E; inversion E; subst c; clear E. cbn [c_prod c_reach]. split; auto.
    destruct (closure_start _ _ _ _ ER) as [_ HR].
    intros x. rewrite HR. apply inb_spec, HQ in Hs. tauto.
  - intros E; inversion E; subst c; clear E. cbn [c_prod c_reach]. split; auto.
    intros x; split; [intros []|]. intros [Hm _]. apply inb_false in Hs. apply Hs, HQ. split; auto. constructor.
Qed.

Lemma In_prune Q R x r : In r (prune Q R x) <-> In x Q /\ In r (R x) /\ rule_ok Q r = true.
Proof.
  unfold prune. destruct (inb x Q) eqn:E.
  - apply inb_spec in E. rewrite filter_In. tauto.
  - apply inb_false in E. cbn. tauto.
Qed.

Lemma In_clean_rules R c x r :
  In r (clean_rules R c x) <-> In x (c_reach c) /\ In x (c_prod c) /\ In r (R x) /\ rule_ok (c_prod c) r = true.
Proof.
  unfold clean_rules, restrict. destruct (inb x (c_reach c)) eqn:E.
  - apply inb_spec in E. rewrite In_prune. tauto.
  - apply inb_false in E. cbn. tauto.
Qed.

Theorem clean_gen_contains R s fuel c : (forall x, functional (R x)) -> clean_gen R s fuel = Some c ->
  forall p, contains_gen (clean_rules R c) s p = contains_gen R s p.
Proof.
  intros Hf Hc. destruct (clean_gen_spec R s fuel c Hf Hc) as [HQ HR].
  apply (clean_abstract R (clean_rules R c) (fun x => In x (c_reach c))); auto.
  - intros x r Hr. apply In_clean_rules in Hr. tauto.
  - intros x r Hx Hr Hall.
    assert (HxQ : In x (c_prod c)).
    { apply HR in Hx. destruct Hx as [Hm Hx]. inversion Hx as [|y r0 z Hy Hr0 Hz]; subst.
      - apply HQ. split; [constructor|exact Hm].
      - apply In_prune in Hr0. destruct Hr0 as [_ [_ Hok]]. rewrite rule_ok_spec in Hok. auto. }
    assert (Hok : rule_ok (c_prod c) r = true).
    { apply rule_ok_spec. intros n Hn. apply HQ. split; [|apply Hall; auto].
      apply HQ in HxQ. destruct HxQ as [HxQ _]. eapply conn_step; eauto. }
    split.
    + apply In_clean_rules. auto.
    + intros n Hn. apply HR. apply HR in Hx. destruct Hx as [Hm Hx]. split; auto.
      eapply conn_step; eauto. apply In_prune. auto.
  - intros Hm. apply HR. split; auto. constructor.
Qed.

(** * The unbounded grammar: instances *)

Theorem recursive_clean P fuel c : clean_inf P fuel = Some c ->
  forall p, contains_clean P c p = contains_inf P p.
Proof. intros H p. apply (clean_gen_contains _ _ fuel); auto. apply rules_inf_functional. Qed.

Theorem recursive_clean_typed P fuel c : 2 <= n_gram P -> clean_inf P fuel = Some c ->
  forall p, contains_clean P c p = wt_inf P (returns (request P)) None p.
Proof. intros Hn H p. rewrite (recursive_clean P fuel c H). apply contains_inf_is_typed; auto. Qed.

Theorem recursive_clean_spec P fuel c : clean_inf P fuel = Some c ->
  (forall x, In x (c_prod c) <-> Conn (rules_inf P) (start P) x /\ Member (rules_inf P) x)
  /\ (forall x, In x (c_reach c) <->
                Member (rules_inf P) (start P) /\ Conn (prune (c_prod c) (rules_inf P)) (start P) x).
Proof. apply clean_gen_spec, rules_inf_functional. Qed.

(** * The bounded judgement is the unbounded one restricted by height and by
      the positions of variables *)

Lemma wt_leaf_split P t par d s :
  wt_leaf P t par d s = wt_leaf_inf P t par s && Nat.ltb d (max_depth P) && sym_deep (min_var P) d s.
Proof.
  destruct s as [n tp|i t'|t' [v|]]; cbn [wt_leaf wt_leaf_inf sym_deep]; auto.
  - destruct (ty_eqb tp t), (memb dsl_eqb (n, tp) (dsl P)), (Nat.ltb d (max_depth P)),
      (negb (memb N.eqb n (par_forb P par))); reflexivity.
  - destruct (ty_eqb t' t), (option_eqb ty_eqb (nth_error (arguments (request P)) i) (Some t)),
      (Nat.leb (min_var P) d), (Nat.ltb d (max_depth P)); reflexivity.
  - destruct (ty_eqb t' t), (memb ty_eqb t (const_types P)),
      (Nat.leb (min_var P) d), (Nat.ltb d (max_depth P)); reflexivity.
Qed.

Lemma wt_head_split P t par d s :
  wt_head P t par d s =
  if sym_deep (min_var P) d s && Nat.ltb (S d) (max_depth P) then wt_head_inf P t par s else None.
Proof.
  destruct s as [n tp|i t'|t' v]; cbn [wt_head wt_head_inf sym_deep].
  - destruct (memb dsl_eqb (n, tp) (dsl P)), (negb (memb N.eqb n (par_forb P par))),
      (Nat.ltb (S d) (max_depth P)); reflexivity.
  - destruct (option_eqb ty_eqb (nth_error (arguments (request P)) i) (Some t')),
      (Nat.leb (min_var P) d), (Nat.ltb (S d) (max_depth P)); reflexivity.
  - destruct (_ && _); reflexivity.
Qed.

Lemma all2b_and_r {A B} (f : A -> B -> bool) (g : B -> bool) l l' :
  all2b (fun a b => f a b && g b) l l' = all2b f l l' && forallb g l'.
Proof.
  revert l'; induction l as [|a r IH]; intros [|b r']; cbn [all2b forallb]; auto.
  rewrite IH. destruct (f a b), (g b), (all2b f r r'), (forallb g r'); reflexivity.
Qed.

Lemma forallb_ht_le k D a0 ar :
  forallb (fun a => Nat.leb (ht a + k) D) (a0 :: ar) = Nat.leb (maxht (a0 :: ar) + k) D.
Proof.
  revert a0; induction ar as [|b r IH]; intros a0.
  - cbn [forallb maxht fold_right]. rewrite Nat.max_0_r, andb_true_r. reflexivity.
  - change (forallb (fun a => Nat.leb (ht a + k) D) (a0 :: b :: r))
      with (Nat.leb (ht a0 + k) D && forallb (fun a => Nat.leb (ht a + k) D) (b :: r)).
    rewrite IH. change (maxht (a0 :: b :: r)) with (Nat.max (ht a0) (maxht (b :: r))).
    destruct (Nat.leb (ht a0 + k) D) eqn:E1, (Nat.leb (maxht (b :: r) + k) D) eqn:E2,
      (Nat.leb (Nat.max (ht a0) (maxht (b :: r)) + k) D) eqn:E3; auto;
      rewrite ?Nat.leb_le, ?Nat.leb_gt in *; lia.
Qed.

Theorem wt_restricts P : forall p t par d,
  wt P t par d p =
  wt_inf P t par p && Nat.leb (ht p + d) (max_depth P) && vars_deep (min_var P) d p.
Proof.
  induction p as [s|f args IH] using prog_ind'; intros t par d.
  - cbn [wt wt_inf ht vars_deep]. rewrite wt_leaf_split. reflexivity.
  - rewrite wt_fun, wt_inf_fun, ht_fun. cbn [vars_deep].
    destruct args as [|a0 ar0].
    + cbn [maxht fold_right forallb]. rewrite wt_leaf_split, andb_true_r. reflexivity.
    + rewrite wt_head_split.
      destruct (wt_head_inf P t par f) as [tys|] eqn:Hh;
        [|destruct (sym_deep (min_var P) d f && Nat.ltb (S d) (max_depth P)); reflexivity].
      assert (Hpos : 1 <= maxht (a0 :: ar0)).
      { pose proof (ht_pos a0). pose proof (maxht_In a0 (a0 :: ar0) (or_introl eq_refl)). lia. }
      destruct (sym_deep (min_var P) d f) eqn:Hs; cbn [andb].
      * destruct (Nat.ltb (S d) (max_depth P)) eqn:Hd.
        -- rewrite (all2b_ext_Forall _
              (fun it a => wt_inf P (snd it) (Some (f, fst it)) a
                           && (Nat.leb (ht a + S d) (max_depth P) && vars_deep (min_var P) (S d) a))).
           2:{ revert IH. apply Forall_impl. intros q Hq it. rewrite Hq, andb_assoc. reflexivity. }
           rewrite (all2b_and_r _ (fun a => Nat.leb (ht a + S d) (max_depth P) && vars_deep (min_var P) (S d) a)).
           assert (E : forallb (fun a => Nat.leb (ht a + S d) (max_depth P) && vars_deep (min_var P) (S d) a) (a0 :: ar0)
                       = Nat.leb (maxht (a0 :: ar0) + S d) (max_depth P) && forallb (vars_deep (min_var P) (S d)) (a0 :: ar0)).
           { rewrite <- forallb_ht_le. generalize (a0 :: ar0). intros l; induction l as [|b r IHl]; cbn [forallb]; auto.
             rewrite IHl. destruct (Nat.leb (ht b + S d) (max_depth P)), (vars_deep (min_var P) (S d) b),
               (forallb (fun a => Nat.leb (ht a + S d) (max_depth P)) r), (forallb (vars_deep (min_var P) (S d)) r); reflexivity. }
           rewrite E. replace (S (maxht (a0 :: ar0)) + d) with (maxht (a0 :: ar0) + S d) by lia.
           rewrite andb_assoc. reflexivity.
        -- replace (Nat.leb (S (maxht (a0 :: ar0)) + d) (max_depth P)) with false.
           ++ rewrite andb_false_r. reflexivity.
           ++ symmetry. apply Nat.leb_gt. apply Nat.ltb_ge in Hd. lia.
      * rewrite andb_false_r. reflexivity.
Qed.

Lemma vars_deep_0 : forall p d, vars_deep 0 d p = true.
Proof.
  induction p as [s|f args IH] using prog_ind'; intros d; cbn [vars_deep].
  - destruct s; reflexivity.
  - assert (E : sym_deep 0 d f = true) by (destruct f; reflexivity). rewrite E. cbn [andb].
    apply forallb_forall. rewrite Forall_forall in IH. intros a Ha. apply IH; auto.
Qed.

Lemma wt_inf_params P P' : dsl P' = dsl P -> forbidden P' = forbidden P -> request P' = request P ->
  const_types P' = const_types P -> forall p t par, wt_inf P' t par p = wt_inf P t par p.
Proof.
  intros E1 E2 E3 E4.
  assert (Hf : forall par, par_forb P' par = par_forb P par).
  { intros [[[n t|i t|t v] j]|]; cbn; rewrite ?E2; reflexivity. }
  assert (Hl : forall t par s, wt_leaf_inf P' t par s = wt_leaf_inf P t par s).
  { intros t par s. destruct s as [n tp|i t'|t' [v|]]; cbn [wt_leaf_inf]; rewrite ?E1, ?E3, ?E4, ?Hf; reflexivity. }
  assert (Hh : forall t par s, wt_head_inf P' t par s = wt_head_inf P t par s).
  { intros t par s. destruct s as [n tp|i t'|t' v]; cbn [wt_head_inf]; rewrite ?E1, ?E3, ?Hf; reflexivity. }
  induction p as [s|f args IH] using prog_ind'; intros t par.
  - cbn [wt_inf]. apply Hl.
  - rewrite !wt_inf_fun, Hl, Hh. destruct args as [|a0 ar0]; [reflexivity|].
    destruct (wt_head_inf P t par f); auto.
    apply all2b_ext_Forall. revert IH; apply Forall_impl. intros q Hq it. apply Hq.
Qed.

(** The depth-bounded grammar is the restriction of the unbounded one. *)
Theorem bounded_is_restriction_gen P : 2 <= n_gram P -> forall p,
  contains P p =
  contains_inf P p && Nat.leb (ht p) (max_depth P) && vars_deep (min_var P) 0 p.
Proof.
  intros Hn p. rewrite contains_is_typed, contains_inf_is_typed by exact Hn.
  rewrite wt_restricts, Nat.add_0_r. reflexivity.
Qed.

Theorem bounded_is_restriction P : 2 <= n_gram P -> min_var P = 0 -> forall p,
  contains P p = contains_inf P p && Nat.leb (ht p) (max_depth P).
Proof.
  intros Hn Hm p. rewrite bounded_is_restriction_gen by exact Hn.
  rewrite Hm, vars_deep_0, andb_true_r. reflexivity.
Qed.

Theorem bounded_is_restriction_normal P : 2 <= n_gram P -> min_var P = 0 -> forall p, normal p = true ->
  (contains P p = true <-> contains_inf P p = true /\ pdepth p <= max_depth P).
Proof.
  intros Hn Hm p Hnorm. rewrite bounded_is_restriction, andb_true_iff, Nat.leb_le, (normal_pdepth p Hnorm) by assumption.
  reflexivity.
Qed.

Lemma contains_inf_bounded P d p : contains_inf (bounded P d) p = contains_inf P p.
Proof. reflexivity. Qed.

(** * Counting when the unbounded language is finite *)

Lemma ranks_ok_height R rk : ranks_ok R rk = true ->
  forall p x k, In (x, k) rk -> contains_gen R x p = true -> ht p <= S k.
Proof.
  intros Hok. unfold ranks_ok in Hok. rewrite forallb_forall in Hok.
  induction p as [s|f args IH] using prog_ind'; intros x k Hx; [cbn; lia|].
  rewrite contains_gen_fun, ht_fun.
  destruct (rlookup f (R x)) as [nts|] eqn:E; [|discriminate]. intros Ha.
  apply rlookup_In in E. specialize (Hok _ Hx). cbn [fst snd] in Hok.
  unfold rank_ok_at in Hok. rewrite forallb_forall in Hok. specialize (Hok _ E). cbn [snd] in Hok.
  rewrite forallb_forall in Hok.
  assert (Hm : forall a, In a args -> ht a <= k).
  { intros a Hi. destruct (all2b_In_r _ _ _ _ Ha Hi) as [n [Hn Hc]].
    specialize (Hok n Hn). destruct (rank_of rk n) as [j|] eqn:Ej; [|discriminate].
    apply Nat.ltb_lt in Hok. apply (alookup_In cnt_eqb cnt_eqb_spec) in Ej.
    rewrite Forall_forall in IH. specialize (IH a Hi n j Ej Hc). lia. }
  assert (maxht args <= k); [|lia].
  clear -Hm. induction args as [|a r IHr]; cbn [maxht fold_right]; [lia|].
  assert (ht a <= k) by (apply Hm; cbn; auto).
  assert (maxht r <= k) by (apply IHr; intros; apply Hm; cbn; auto). unfold maxht in *. lia.
Qed.

Lemma contains_gen_no_rules R x p : R x = [] -> contains_gen R x p = false.
Proof. intros E. destruct p; cbn [contains_gen]; rewrite E; reflexivity. Qed.

Theorem height_inf_bound P fuel c h : clean_inf P fuel = Some c -> height_inf P c = Some h ->
  forall p, contains_inf P p = true -> ht p <= h.
Proof.
  intros Hc Hh p Hp. rewrite <- (recursive_clean P fuel c Hc) in Hp. unfold contains_clean in Hp.
  unfold height_inf in Hh. cbv zeta in Hh.
  destruct (ranks_ok (crules_inf P c) _) eqn:Hok; [|discriminate].
  destruct (c_reach c) as [|y l] eqn:Er.
  - rewrite contains_gen_no_rules in Hp; [discriminate|].
    unfold crules_inf, clean_rules, restrict. rewrite Er. reflexivity.
  - destruct (rank_of _ (start P)) as [k|] eqn:Ek; [|discriminate]. inversion Hh; subst h.
    apply (alookup_In cnt_eqb cnt_eqb_spec) in Ek.
    eapply ranks_ok_height; eauto.
Qed.

Theorem recursive_count P fuel c h : 2 <= n_gram P -> clean_inf P fuel = Some c -> height_inf P c = Some h ->
  (forall p, contains_inf P p = true -> ht p <= h)
  /\ (forall p, In p (lang (bounded P h)) <-> contains_inf P p = true /\ normal p = true)
  /\ programs_inf P c = Some (N.of_nat (length (lang (bounded P h)))).
Proof.
  intros Hn Hc Hh. pose proof (height_inf_bound P fuel c h Hc Hh) as Hb. split; [exact Hb|]. split.
  - intros p. rewrite lang_spec. rewrite (bounded_is_restriction (bounded P h)) by (cbn; auto).
    rewrite contains_inf_bounded. cbn [max_depth bounded]. split.
    + intros [H1 H2]. apply andb_true_iff in H1. tauto.
    + intros [H1 H2]. split; auto. rewrite H1. apply Nat.leb_le. auto.
  - unfold programs_inf. rewrite Hh, programs_is_length. reflexivity.
Qed.

Theorem recursive_count_nodup P h : wf_params P = true -> NoDup (lang (bounded P h)).
Proof. intros H. apply lang_NoDup. exact H. Qed.

(** * Derivations: existence for members, uniqueness *)

Fixpoint derivL (R : cnt -> list rule) (nts : list cnt) (args : list prog) : list (cnt * rule) :=
  match nts, args with
  | n :: nr, a :: ar => deriv R n a ++ derivL R nr ar
  | _, _ => []
  end.

Lemma deriv_fun R x f args :
  deriv R x (PFun f args) =
  match rlookup f (R x) with Some nts => (x, (f, nts)) :: derivL R nts args | None => [] end.
Proof.
  cbn [deriv]. destruct (rlookup f (R x)) as [nts|]; auto. f_equal.
  revert nts; induction args as [|a ar IH]; intros [|n nr]; cbn [derivL]; auto.
  rewrite IH; reflexivity.
Qed.

Fixpoint nodesL (R : cnt -> list rule) (nts : list cnt) (args : list prog) : list (cnt * bool) :=
  match nts, args with
  | n :: nr, a :: ar => nodes R n a ++ nodesL R nr ar
  | _, _ => []
  end.

Lemma nodes_fun R x f args :
  nodes R x (PFun f args) =
  (x, true) :: match rlookup f (R x) with Some nts => nodesL R nts args | None => [] end.
Proof.
  cbn [nodes]. f_equal. destruct (rlookup f (R x)) as [nts|]; auto.
  revert nts; induction args as [|a ar IH]; intros [|n nr]; cbn [nodesL]; auto.
  rewrite IH; reflexivity.
Qed.

Section Derivations.
  Variable R : cnt -> list rule.
  Hypothesis Hfun : forall x, functional (R x).

  Lemma member_derives : forall p x, contains_gen R x p = true -> Derives R x p (deriv R x p).
  Proof.
    induction p as [s|f args IH] using prog_ind'; intros x.
    - rewrite contains_gen_leaf. destruct (rlookup s (R x)) as [[|n r]|] eqn:E; try discriminate. intros _.
      apply rlookup_In in E. cbn [deriv]. constructor; auto.
    - rewrite contains_gen_fun, deriv_fun. destruct (rlookup f (R x)) as [nts|] eqn:E; try discriminate. intros Ha.
      apply rlookup_In in E.
      assert (H : exists ls, DerivesL R nts args ls /\ concat ls = derivL R nts args).
      { clear E. revert nts Ha. induction IH as [|a ar Hq _ IHl]; intros [|n nr]; cbn [all2b]; try discriminate.
        - intros _. exists []. split; [constructor|reflexivity].
        - intros H. apply andb_true_iff in H. destruct H as [H1 H2].
          destruct (IHl nr H2) as [ls [Hls Hc]]. exists (deriv R n a :: ls). split.
          + constructor; auto.
          + cbn [concat derivL]. rewrite Hc. reflexivity. }
      destruct H as [ls [Hls Hc]]. rewrite <- Hc. constructor; auto.
  Qed.

  Lemma derives_deriv : forall p x l, Derives R x p l -> l = deriv R x p /\ contains_gen R x p = true.
  Proof.
    induction p as [s|f args IH] using prog_ind'; intros x l H.
    - inversion H as [? ? Hr|]; subst. split; [reflexivity|].
      rewrite contains_gen_leaf, (In_rlookup _ _ _ (Hfun x) Hr). reflexivity.
    - inversion H as [|? ? nts ? ls Hr HL]; subst.
      rewrite deriv_fun, contains_gen_fun, (In_rlookup _ _ _ (Hfun x) Hr).
      assert (G : concat ls = derivL R nts args /\ all2b (contains_gen R) nts args = true).
      { clear Hr H. revert IH. induction HL as [|n nr a ar l0 ls0 Hd _ IHL]; intros IH.
        - split; reflexivity.
        - inversion IH as [|? ? Ha Har]; subst. destruct (Ha _ _ Hd) as [-> Hc].
          destruct (IHL Har) as [E1 E2]. cbn [concat derivL all2b]. rewrite E1, Hc, E2. split; reflexivity. }
      destruct G as [-> ->]. split; reflexivity.
  Qed.

  Theorem derivation_unique x p l l' : Derives R x p l -> Derives R x p l' -> l = l'.
  Proof. intros H H'. apply derives_deriv in H, H'. destruct H, H'. congruence. Qed.

  Theorem member_iff_derives x p : contains_gen R x p = true <-> exists l, Derives R x p l.
  Proof.
    split.
    - intros H. eexists. apply member_derives; eauto.
    - intros [l H]. apply derives_deriv in H. tauto.
  Qed.

  (** * derive_all *)

  Definition posof (info : list cnt) : dpos := match info with [] => DEnd | y :: _ => DAt y end.

  Definition next_pos_k (l : list (cnt * bool)) (k : dpos) : dpos :=
    match l with [] => k | (x, _) :: _ => DAt x end.

  Fixpoint trace_k (l : list (cnt * bool)) (k : dpos) : list dpos :=
    match l with
    | [] => []
    | (x, isf) :: rest => (if isf then [DAt x] else []) ++ [next_pos_k rest k] ++ trace_k rest k
    end.

  Lemma trace_of_k l : trace_of l = trace_k l DEnd.
  Proof.
    induction l as [|[x b] r IH]; cbn [trace_of trace_k]; auto. rewrite IH.
    destruct r as [|[y c] r']; reflexivity.
  Qed.

  Lemma trace_k_app l1 l2 k : trace_k (l1 ++ l2) k = trace_k l1 (next_pos_k l2 k) ++ trace_k l2 k.
  Proof.
    induction l1 as [|[x b] r IH]; cbn [app trace_k]; auto.
    rewrite IH, <- !app_assoc. f_equal. f_equal.
    destruct r as [|[y c] r']; cbn [app next_pos_k]; auto.
  Qed.

  Lemma last_trace_k cur l k : l <> [] -> last (cur ++ trace_k l k) DEnd = k.
  Proof.
    intros Hl. revert cur. induction l as [|[x b] r IH]; intros cur; [congruence|].
    cbn [trace_k]. destruct r as [|[y c] r'].
    - cbn [trace_k next_pos_k app]. rewrite app_assoc. apply last_last.
    - rewrite !app_assoc. apply IH. discriminate.
  Qed.

  Lemma nodes_hd x p : exists b r, nodes R x p = (x, b) :: r.
  Proof. destruct p as [s|f args]; [cbn; eauto|]. rewrite nodes_fun. eauto. Qed.

  Lemma next_pos_nodesL nts args k : all2b (contains_gen R) nts args = true ->
    next_pos_k (nodesL R nts args) k = match nts with [] => k | n :: _ => DAt n end.
  Proof.
    destruct nts as [|n nr], args as [|a ar]; cbn [all2b nodesL]; try discriminate; auto.
    intros _. destruct (nodes_hd n a) as [b [r ->]]. reflexivity.
  Qed.

  Fixpoint da_list (args : list prog) (st : list cnt * list dpos) : option (list cnt * list dpos) :=
    match args with
    | [] => Some st
    | a :: ar =>
      match derive_all R a (fst st) (last_pos (snd st) DEnd) (snd st) with
      | Some st' => da_list ar st'
      | None => None
      end
    end.

  Lemma derive_all_fun f args info here cur :
    derive_all R (PFun f args) info here cur =
    match derive1 R info here f with
    | Some (info', nxt) => da_list args (info', (cur ++ [here]) ++ [nxt])
    | None => None
    end.
  Proof.
    cbn [derive_all]. destruct (derive1 R info here f) as [[info' nxt]|]; reflexivity.
  Qed.

  Lemma derive_all_member : forall p x info cur, contains_gen R x p = true ->
    derive_all R p info (DAt x) cur = Some (tl info, cur ++ trace_k (nodes R x p) (posof info)).
  Proof.
    induction p as [s|f args IH] using prog_ind'; intros x info cur.
    - rewrite contains_gen_leaf. destruct (rlookup s (R x)) as [[|n r]|] eqn:E; try discriminate. intros _.
      cbn [derive_all derive1]. rewrite E. cbn [app nodes trace_k next_pos_k].
      destruct info as [|y rest]; reflexivity.
    - rewrite contains_gen_fun, derive_all_fun, nodes_fun. cbn [derive1].
      destruct (rlookup f (R x)) as [nts|] eqn:E; try discriminate. intros Ha.
      assert (G : forall args nts info cur', Forall (fun p => forall x info cur, contains_gen R x p = true ->
                    derive_all R p info (DAt x) cur = Some (tl info, cur ++ trace_k (nodes R x p) (posof info))) args ->
                  all2b (contains_gen R) nts args = true ->
                  last cur' DEnd = posof (nts ++ info) ->
                  da_list args (tl (nts ++ info), cur') = Some (tl info, cur' ++ trace_k (nodesL R nts args) (posof info))).
      { clear. induction args as [|a ar IHa]; intros [|n nr] info cur' HF Ha Hl; cbn [all2b] in Ha; try discriminate.
        - cbn [da_list nodesL trace_k app]. rewrite app_nil_r. reflexivity.
        - apply andb_true_iff in Ha. destruct Ha as [Ha1 Ha2]. inversion HF as [|? ? Hq HF']; subst.
          cbn [da_list app tl fst snd]. unfold last_pos. rewrite Hl. cbn [app posof].
          rewrite (Hq n (nr ++ info) cur' Ha1).
          replace (tl (nr ++ info)) with (tl (nr ++ info)) by reflexivity.
          rewrite (IHa nr info _ HF' Ha2).
          + cbn [nodesL]. rewrite trace_k_app, (next_pos_nodesL nr ar _ Ha2), <- app_assoc.
            destruct nr; reflexivity.
          + destruct (nodes_hd n a) as [b [r Hr]]. rewrite last_trace_k by (rewrite Hr; discriminate). reflexivity. }
      destruct (nts ++ info) as [|y rest] eqn:EL.
      + apply app_eq_nil in EL. destruct EL as [-> ->]. destruct args; [|discriminate].
        cbn [da_list nodesL trace_k tl posof next_pos_k app]. rewrite <- app_assoc. reflexivity.
      + replace rest with (tl (nts ++ info)) by (rewrite EL; reflexivity).
        rewrite (G args nts info _ IH Ha).
        * cbn [trace_k app]. rewrite (next_pos_nodesL nts args _ Ha), <- !app_assoc. cbn [app].
          destruct nts as [|n nr]; cbn [app] in EL; [subst info; reflexivity|]. inversion EL; subst. reflexivity.
        * rewrite last_last, EL. reflexivity.
  Qed.

  (** For a member, derive_all from the start information lists exactly the
      positions prescribed by the pre-order list of its derivation's nodes,
      and leaves no pending argument. *)
  Theorem derive_all_spec x p : contains_gen R x p = true ->
    derive_all R p [] (DAt x) [] = Some ([], trace_of (nodes R x p)).
  Proof. intros H. rewrite (derive_all_member p x [] [] H), trace_of_k. reflexivity. Qed.

  (** the nodes are those of the (unique) derivation, in the same order *)
  Lemma nodes_deriv : forall p x, contains_gen R x p = true -> map fst (nodes R x p) = map fst (deriv R x p).
  Proof.
    induction p as [s|f args IH] using prog_ind'; intros x; [reflexivity|].
    rewrite contains_gen_fun, nodes_fun, deriv_fun.
    destruct (rlookup f (R x)) as [nts|]; try discriminate. intros Ha. cbn [map fst]. f_equal.
    revert nts Ha. induction IH as [|a ar Hq _ IHl]; intros [|n nr]; cbn [all2b nodesL derivL]; auto.
    intros H. apply andb_true_iff in H. destruct H as [H1 H2]. rewrite !map_app, (Hq _ H1), (IHl _ H2). reflexivity.
  Qed.

  (** * reduce_derivations *)
  Section Red.
    Context {T : Type} (red : T -> cnt -> sym -> list cnt -> T).

    Definition red_step (acc : T) (yr : cnt * rule) : T := red acc (fst yr) (fst (snd yr)) (snd (snd yr)).

    Fixpoint rd_list (args : list prog) (st : T * list cnt * dpos) : option (T * list cnt * dpos) :=
      match args with
      | [] => Some st
      | a :: ar =>
        match reduce_rec red R a (fst (fst st)) (snd (fst st)) (snd st) with
        | Some st' => rd_list ar st'
        | None => None
        end
      end.

    Lemma reduce_rec_fun f args v info x :
      reduce_rec red R (PFun f args) v info (DAt x) =
      match derive1 R info (DAt x) f, rlookup f (R x) with
      | Some (info', nxt), Some nts => rd_list args (red v x f nts, info', nxt)
      | _, _ => None
      end.
    Proof.
      cbn [reduce_rec]. destruct (derive1 R info (DAt x) f) as [[info' nxt]|]; [|reflexivity].
      destruct (rlookup f (R x)) as [nts|]; reflexivity.
    Qed.

    Lemma reduce_rec_member : forall p x v info, contains_gen R x p = true ->
      reduce_rec red R p v info (DAt x) = Some (fold_left red_step (deriv R x p) v, tl info, posof info).
    Proof.
      induction p as [s|f args IH] using prog_ind'; intros x v info.
      - rewrite contains_gen_leaf. destruct (rlookup s (R x)) as [[|n r]|] eqn:E; try discriminate. intros _.
        cbn [reduce_rec derive1]. rewrite E. cbn [app deriv fold_left]. destruct info; reflexivity.
      - rewrite contains_gen_fun, reduce_rec_fun, deriv_fun. cbn [derive1].
        destruct (rlookup f (R x)) as [nts|] eqn:E; try discriminate. intros Ha.
        assert (G : forall args nts info w, Forall (fun p => forall x v info, contains_gen R x p = true ->
                      reduce_rec red R p v info (DAt x) = Some (fold_left red_step (deriv R x p) v, tl info, posof info)) args ->
                    all2b (contains_gen R) nts args = true ->
                    rd_list args (w, tl (nts ++ info), posof (nts ++ info))
                    = Some (fold_left red_step (derivL R nts args) w, tl info, posof info)).
        { clear. induction args as [|a ar IHa]; intros [|n nr] info w HF Ha; cbn [all2b] in Ha; try discriminate.
          - reflexivity.
          - apply andb_true_iff in Ha. destruct Ha as [Ha1 Ha2]. inversion HF as [|? ? Hq HF']; subst.
            cbn [rd_list app tl posof fst snd]. rewrite (Hq n w (nr ++ info) Ha1).
            rewrite (IHa nr info _ HF' Ha2). cbn [derivL]. rewrite fold_left_app. reflexivity. }
        cbn [fold_left]. change (red_step v (x, (f, nts))) with (red v x f nts).
        rewrite <- (G args nts info (red v x f nts) IH Ha).
        destruct (nts ++ info) as [|y rest]; reflexivity.
    Qed.

    (** For a member, reduce_derivations folds the operator over the rules
        of its derivation in pre-order. *)
    Theorem reduce_derivations_spec x init p : contains_gen R x p = true ->
      reduce_derivations red R x init p = Some (fold_left red_step (deriv R x p) init).
    Proof. intros H. unfold reduce_derivations. rewrite (reduce_rec_member p x init [] H). reflexivity. Qed.
  End Red.
End Derivations.

(** * Every rule left by clean() is used by the derivation of some member *)
Section Useful.
  Variable R : cnt -> list rule.
  Variable s : cnt.
  Variable fuel : nat.
  Variable c : cleaned.
  Hypothesis Hfun : forall x, functional (R x).
  Hypothesis Hc : clean_gen R s fuel = Some c.

  Let R' := clean_rules R c.

  Lemma clean_fun' x : functional (R' x).
  Proof. intros k v v' H1 H2. apply In_clean_rules in H1, H2. eapply Hfun; [apply H1|apply H2]. Qed.

  (** a raw member at a remaining non-terminal is a member of the cleaned grammar *)
  Lemma clean_member_at x p : In x (c_reach c) -> contains_gen R x p = true -> contains_gen R' x p = true.
  Proof.
    destruct (clean_gen_spec R s fuel c Hfun Hc) as [HQ HR].
    intros Hx. apply (keep_contains R R' (fun x => In x (c_reach c))); auto.
    - intros y r Hr. apply In_clean_rules in Hr. tauto.
    - intros y r Hy Hr Hall.
      assert (HyQ : In y (c_prod c)).
      { apply HR in Hy. destruct Hy as [Hm Hy]. inversion Hy as [|y0 r0 z Hy0 Hr0 Hz]; subst.
        - apply HQ. split; [constructor|exact Hm].
        - apply In_prune in Hr0. destruct Hr0 as [_ [_ Hok]]. rewrite rule_ok_spec in Hok. auto. }
      assert (Hok : rule_ok (c_prod c) r = true).
      { apply rule_ok_spec. intros n Hn. apply HQ. split; [|apply Hall; auto].
        apply HQ in HyQ. destruct HyQ as [HyQ _]. eapply conn_step; eauto. }
      split.
      + apply In_clean_rules. auto.
      + intros n Hn. apply HR. apply HR in Hy. destruct Hy as [Hm Hy]. split; auto.
        eapply conn_step; eauto. apply In_prune. auto.
  Qed.

  (** the arguments of a remaining rule have members in the cleaned grammar *)
  Lemma clean_args_members x r : In r (R' x) -> forall n, In n (snd r) -> exists q, contains_gen R' n q = true.
  Proof.
    destruct (clean_gen_spec R s fuel c Hfun Hc) as [HQ HR].
    intros Hr n Hn. apply In_clean_rules in Hr. destruct Hr as [Hx [HxQ [Hr Hok]]].
    rewrite rule_ok_spec in Hok. pose proof (Hok n Hn) as HnQ. apply HQ in HnQ. destruct HnQ as [_ [q Hq]].
    exists q. apply clean_member_at; auto.
    apply HR. apply HR in Hx. destruct Hx as [Hm Hx]. split; auto.
    eapply conn_step; eauto. apply In_prune. split; auto. split; auto. apply rule_ok_spec; auto.
  Qed.

  Lemma clean_rule_has_member x r : In r (R' x) -> exists q, contains_gen R' x q = true /\ head q = fst r.
  Proof.
    intros Hr. destruct r as [s0 nts].
    destruct (witnesses (contains_gen R') nts) as [qs Hqs].
    { intros n Hn. eapply clean_args_members; eauto. }
    exists (PFun s0 qs). split; [|reflexivity].
    rewrite contains_gen_fun, (In_rlookup _ _ _ (clean_fun' x) Hr). exact Hqs.
  Qed.

  Lemma clean_reach_context x : Conn (prune (c_prod c) R) s x -> In x (c_reach c) ->
    forall q, contains_gen R' x q = true ->
    exists p, contains_gen R' s p = true /\ forall x' r, Uses R' x q x' r -> Uses R' s p x' r.
  Proof.
    destruct (clean_gen_spec R s fuel c Hfun Hc) as [HQ HR].
    induction 1 as [|y [s0 nts] z Hy IH Hr Hz]; intros Hx q Hq.
    - exists q; auto.
    - cbn [snd] in Hz.
      assert (HyR : In y (c_reach c)).
      { apply HR. apply HR in Hx. destruct Hx as [Hm _]. split; auto. }
      assert (Hr' : In (s0, nts) (R' y)).
      { apply In_clean_rules. apply In_prune in Hr. tauto. }
      destruct (witnesses_with (contains_gen R') nts z q) as [qs [Hqs Hi]]; auto.
      { intros n Hn. eapply clean_args_members; eauto. }
      assert (Hl : rlookup s0 (R' y) = Some nts) by (apply (In_rlookup _ _ _ (clean_fun' y) Hr')).
      destruct (IH HyR (PFun s0 qs)) as [p [Hp Hu]].
      { rewrite contains_gen_fun, Hl. exact Hqs. }
      exists p. split; auto. intros x' r Huse. apply Hu.
      eapply uses_arg with (nts := nts) (n := z) (a := q); eauto.
  Qed.

  Theorem clean_rules_useful x r : In r (R' x) ->
    exists p, contains_gen R' s p = true /\ Uses R' s p x r.
  Proof.
    destruct (clean_gen_spec R s fuel c Hfun Hc) as [HQ HR].
    intros Hr. destruct (clean_rule_has_member x r Hr) as [q [Hq Hh]].
    assert (Hx : In x (c_reach c)) by (apply In_clean_rules in Hr; tauto).
    pose proof (proj1 (HR x) Hx) as [_ Hconn].
    destruct (clean_reach_context x Hconn Hx q Hq) as [p [Hp Hu]].
    exists p. split; auto. apply Hu. apply uses_here; auto.
  Qed.
End Useful.

Theorem recursive_rules_useful P fuel c x r : clean_inf P fuel = Some c -> In r (crules_inf P c x) ->
  exists p, contains_clean P c p = true /\ Uses (crules_inf P c) (start P) p x r.
Proof. intros Hc. apply (clean_rules_useful _ _ fuel); auto. apply rules_inf_functional. Qed.

(** rules only remain at the listed non-terminals *)
Lemma crules_inf_listed P c x r : In r (crules_inf P c x) -> In x (c_reach c).
Proof. intros H. apply In_clean_rules in H. tauto. Qed.

(** functional rule lists of the two cleaned grammars (what the derivation
    theorems need) *)
Lemma crules_inf_functional P c x : functional (crules_inf P c x).
Proof.
  intros k v v' H1 H2. apply In_clean_rules in H1, H2.
  eapply rules_inf_functional; [apply H1|apply H2].
Qed.

(** * Non-vacuity *)
Module ExInf.
  Import Ex.

  (** the DSL of [Ex] compiled without depth bound: 9 non-terminals remain *)
  Example ex_clean : exists c, clean_inf ex_P 100 = Some c /\ length (c_reach c) = 9
                               /\ length (rule_triples_inf ex_P c) = 47 /\ height_inf ex_P c = None.
  Proof. eexists. split; [vm_compute; reflexivity|]. repeat split; vm_compute; reflexivity. Qed.

  Definition deep := PFun plus [PFun plus [PFun plus [PFun plus [PFun var0 [one]; var1]; one]; one]; zero].

  Example ex_deep : contains_inf ex_P deep = true /\ ht deep = 6 /\ contains ex_P deep = false
                    /\ wt_inf ex_P (returns (request ex_P)) None deep = true.
  Proof. repeat split; vm_compute; reflexivity. Qed.

  (** no minimum variable depth without bound; forbidden patterns still hold *)
  Example ex_var_root : contains_inf ex_P var1 = true /\ contains ex_P var1 = false.
  Proof. split; vm_compute; reflexivity. Qed.
  Example ex_forbidden : contains_inf ex_P (PFun plus [zero; one]) = false
                         /\ contains_inf ex_P (PFun plus [one; PFun plus [zero; one]]) = false
                         /\ contains_inf ex_P (PFun plus [one; zero]) = true.
  Proof. repeat split; vm_compute; reflexivity. Qed.
  Example ex_partial : contains_inf ex_P (PFun plus [one]) = false /\ contains_inf ex_P (PLeaf plus) = false
                       /\ contains_inf ex_P (PLeaf var0) = false.
  Proof. repeat split; vm_compute; reflexivity. Qed.

  (** a finite language compiled without depth bound:
      f : a -> b, c : a, g : b -> b -> c, h : a -> b -> c, request c:
      exactly (g (f c) (f c)) and (h c (f c)) *)
  Definition ta := TPrim 10. Definition tb := TPrim 11. Definition tc := TPrim 12.
  Definition fin_P : params := {|
    dsl := [(0%N, TArrow ta tb); (1%N, ta); (2%N, TArrow tb (TArrow tb tc)); (3%N, TArrow ta (TArrow tb tc))];
    forbidden := []; request := tc; max_depth := 0; min_var := 0; n_gram := 2; const_types := [] |}.
  Definition fc := PLeaf (SPrim 1 ta).
  Definition ff := PFun (SPrim 0 (TArrow ta tb)) [fc].
  Definition fg := PFun (SPrim 2 (TArrow tb (TArrow tb tc))) [ff; ff].

  Example ex_finite : exists c, clean_inf fin_P 100 = Some c /\ height_inf fin_P c = Some 3
                                /\ programs_inf fin_P c = Some 2%N /\ contains_clean fin_P c fg = true
                                /\ wf_params fin_P = true /\ 2 <= n_gram fin_P.
  Proof. eexists. split; [vm_compute; reflexivity|]. repeat split; try (vm_compute; reflexivity); try (cbn; lia). Qed.

  (** derive_all on (g (f c) (f c)): the types of the positions listed are
      c, b, b, a, b, b, a, end; reduce_derivations sees g, f, c, f, c *)
  Example ex_derive_all : exists c, clean_inf fin_P 100 = Some c /\
    option_map (fun r => map (fun d => match d with DAt x => Some (nt_type x) | DEnd => None end) (snd r))
               (derive_all (crules_inf fin_P c) fg [] (DAt (start fin_P)) [])
    = Some [Some tc; Some tb; Some tb; Some ta; Some tb; Some tb; Some ta; None]
    /\ reduce_derivations (fun acc x s nts => acc ++ [(nt_type x, s, length nts)]) (crules_inf fin_P c) (start fin_P) [] fg
       = Some [(tc, SPrim 2 (TArrow tb (TArrow tb tc)), 2); (tb, SPrim 0 (TArrow ta tb), 1); (ta, SPrim 1 ta, 0);
               (tb, SPrim 0 (TArrow ta tb), 1); (ta, SPrim 1 ta, 0)].
  Proof. eexists. split; [vm_compute; reflexivity|]. split; vm_compute; reflexivity. Qed.

  (** an empty language: nothing remains *)
  Definition empty_P : params := {|
    dsl := [(0%N, TArrow ta tb)]; forbidden := []; request := tb; max_depth := 0; min_var := 0; n_gram := 2;
    const_types := [] |}.
  Example ex_empty : exists c, clean_inf empty_P 100 = Some c /\ c_reach c = [] /\ programs_inf empty_P c = Some 0%N.
  Proof. eexists. split; [vm_compute; reflexivity|]. split; vm_compute; reflexivity. Qed.
End ExInf.

(** statements in the shape used by Props/C01.v *)
Theorem derive_all_full : forall R, (forall x, functional (R x)) -> forall x p,
  contains_gen R x p = true ->
  derive_all R p [] (DAt x) [] = Some ([], trace_of (nodes R x p))
  /\ map fst (nodes R x p) = map fst (deriv R x p) /\ Derives R x p (deriv R x p).
Proof.
  intros R H x p Hc. split; [apply derive_all_spec; auto|]. split; [apply nodes_deriv; auto|apply member_derives; auto].
Qed.

Theorem reduce_derivations_full : forall R, (forall x, functional (R x)) ->
  forall (T : Type) (red : T -> cnt -> sym -> list cnt -> T) x init p,
  contains_gen R x p = true ->
  reduce_derivations red R x init p = Some (fold_left (red_step red) (deriv R x p) init).
Proof. intros R H T red x init p Hc. apply reduce_derivations_spec; auto. Qed.
