(** Model of tree-traversing grammars (synth/syntax/grammars/ttcfg.py and
    det_grammar.py) generic in the two state components S (stored in the
    rules) and T (threaded through a derivation):

    - membership (DetGrammar.__contains_rec__ with TTCFG.derive), a stack-free
      structural view [run] of it, the language as a list;
    - the product TTCFG.__mul_ttcfg__ (paired states);
    - TTCFG.clean as coded: the reachability pass, then the iterated removal
      with its [len(new_info) >= len(info)] test, both explicit work lists
      (deque, append/pop on the right) with explicit fuel;
    - TTCFG.programs(): the end-state propagation with its memo, as coded on the
      pinned tree (pending stack popped from the right, a missing non-terminal
      counted as a completed derivation) and repaired ([pcompute fixed]); the
      function the memo caches ([count_pos]); the enumeration of dead ends;
    - the saturation builder __saturation_build__ with its two instances
      size_constraint and at_most_k, as coded (visited-rule shortcut, deque
      order) and repaired (switches in [fixes]);
    - _guess_type_request_.

    Det.v is the instance S = T = sexp of the generic membership (lemma
    det_contains_generic in TtcfgProofs.v). *)
From Coq Require Import ZArith NArith List Bool Lia Arith.
From PS Require Import Base.ListX Base.Sexp Base.Ty Base.Value Base.Prog.
From PS Require Gram.Cfg.
Import ListNotations.

Section Generic.
  Variables S T : Type.
  Variable seqb : S -> S -> bool.
  Variable teqb : T -> T -> bool.

  Definition gnt : Type := ty * S * T.                 (* (type, (S, T)) *)
  Definition garg : Type := ty * S.                    (* (type, S) as stored in a rule *)
  Definition grhs : Type := list garg * T.             (* arguments, T after the symbol *)
  Definition grule : Type := sym * grhs.
  Definition gtable : Type := list (gnt * list grule).
  (** where the rules come from: a table, or a function of the non-terminal *)
  Definition oracle : Type := gnt -> option (list grule).

  Definition gnt_eqb (a b : gnt) : bool :=
    ty_eqb (fst (fst a)) (fst (fst b)) && seqb (snd (fst a)) (snd (fst b)) && teqb (snd a) (snd b).
  Definition garg_eqb (a b : garg) : bool := ty_eqb (fst a) (fst b) && seqb (snd a) (snd b).

  Definition of_table (tbl : gtable) : oracle := fun x => alookup gnt_eqb x tbl.
  Definition grule_of (R : oracle) (x : gnt) (s : sym) : option grhs :=
    match R x with Some rs => alookup sym_eqb s rs | None => None end.
  Definition in_tbl (tbl : gtable) (x : gnt) : bool :=
    match of_table tbl x with Some _ => true | None => false end.

  (** position of the traversal: at a non-terminal, or at the
      (UnknownType, (_, T)) end marker of TTCFG.derive *)
  Inductive gpos : Type := GAt (x : gnt) | GEnd (y : T).

  Definition gnext (info : list garg) (y : T) : list garg * gpos :=
    match info with
    | [] => ([], GEnd y)
    | (t, s) :: rest => (rest, GAt (t, s, y))
    end.
  (** TTCFG.derive *)
  Definition gderive (info : list garg) (r : grhs) : list garg * gpos := gnext (fst r ++ info) (snd r).

  (** DetGrammar.__contains_rec__ (with the arity test of commit 5fa9480) *)
  Fixpoint gcontains_rec (R : oracle) (p : prog) (here : gpos) (info : list garg) : option (list garg * gpos) :=
    match here with
    | GEnd _ => None
    | GAt x =>
      match p with
      | PLeaf s =>
        match grule_of R x s with
        | Some r => if Nat.eqb (length (fst r)) 0 then Some (gderive info r) else None
        | None => None
        end
      | PFun f args =>
        match grule_of R x f with
        | Some r =>
          if Nat.eqb (length (fst r)) (length args) then
            (fix go (args : list prog) (st : list garg * gpos) {struct args} : option (list garg * gpos) :=
               match args with
               | [] => Some st
               | a :: ar =>
                 match gcontains_rec R a (snd st) (fst st) with
                 | Some st' => go ar st'
                 | None => None
                 end
               end) args (gderive info r)
          else None
        | None => None
        end
      end
    end.

  Definition gcontains (R : oracle) (start : gnt) (p : prog) : bool :=
    match gcontains_rec R p (GAt start) [] with Some _ => true | None => false end.

  (** Stack-free view: the T state after deriving p at x, if p is derivable. *)
  Fixpoint run (R : oracle) (x : gnt) (p : prog) {struct p} : option T :=
    match p with
    | PLeaf s =>
      match grule_of R x s with
      | Some ([], y) => Some y
      | _ => None
      end
    | PFun f ps =>
      match grule_of R x f with
      | Some (args, y) =>
        (fix go (args : list garg) (ps : list prog) (y : T) {struct ps} : option T :=
           match ps, args with
           | [], [] => Some y
           | a :: pr, (t, s) :: ar =>
             match run R (t, s, y) a with
             | Some y' => go ar pr y'
             | None => None
             end
           | _, _ => None
           end) args ps y
      | None => None
      end
    end.

  (** the language below a non-terminal, with the T state each member ends in *)
  Fixpoint glang_at (fuel : nat) (R : oracle) (x : gnt) : list (prog * T) :=
    match fuel with
    | O => []
    | Datatypes.S f =>
      match R x with
      | None => []
      | Some rs =>
        flat_map (fun r : grule =>
          let '(s, (args, y)) := r in
          match args with
          | [] => [(PLeaf s, y)]
          | _ =>
            map (fun ay => (PFun s (fst ay), snd ay))
                ((fix seqs (args : list garg) (y : T) : list (list prog * T) :=
                    match args with
                    | [] => [([], y)]
                    | (t, sa) :: ar =>
                      flat_map (fun py => map (fun ly => (fst py :: fst ly, snd ly)) (seqs ar (snd py)))
                               (glang_at f R (t, sa, y))
                    end) args y)
          end) rs
      end
    end.

  (* ------------------------------------------------------------------ *)
  (** ** TTCFG.clean *)
  Definition config : Type := gnt * list garg.
  Definition config_eqb (a b : config) : bool := gnt_eqb (fst a) (fst b) && list_eqb garg_eqb (snd a) (snd b).

  (** new_rules: non-terminal -> set of symbols (insertion ordered) *)
  Definition nrmap : Type := list (gnt * list sym).
  Definition nr_del (x : gnt) (nr : nrmap) : nrmap := filter (fun e => negb (gnt_eqb x (fst e))) nr.
  Definition nr_mem (x : gnt) (nr : nrmap) : bool :=
    match alookup gnt_eqb x nr with Some _ => true | None => false end.
  Definition sym_remove (P : sym) (l : list sym) : list sym := filter (fun q => negb (sym_eqb P q)) l.

  (** configurations appended to the deque while iterating over the rules rs of x *)
  Definition succs (tbl : gtable) (info : list garg) (rs : list grule) : list config :=
    flat_map (fun r : grule =>
                match gderive info (snd r) with
                | (info', GAt x') => if in_tbl tbl x' then [(x', info')] else []
                | (_, GEnd _) => []
                end) rs.

  (** 1) only keep reachable states.  The head of [wl] is the right end of the
      deque.  None = out of fuel (or the KeyError of a start symbol without rules). *)
  Fixpoint reach (fuel : nat) (tbl : gtable) (wl : list config) (nr : nrmap) : option nrmap :=
    match fuel with
    | O => None
    | Datatypes.S f =>
      match wl with
      | [] => Some nr
      | (x, info) :: rest =>
        match of_table tbl x with
        | None => None
        | Some rs =>
          let nr' := if nr_mem x nr then nr else nr ++ [(x, map fst rs)] in
          reach f tbl (rev (succs tbl info rs) ++ rest) nr'
        end
      end
    end.

  (** body of [for P in list(new_rules[rule])] *)
  Definition sweep_sym (tbl : gtable) (x : gnt) (info : list garg)
             (acc : nrmap * list config * bool) (P : sym) : nrmap * list config * bool :=
    let '(nr, pushed, ch) := acc in
    match grule_of (of_table tbl) x P with
    | None => acc
    | Some r =>
      match gderive info r with
      | (info', GAt x') =>
        if negb (nr_mem x' nr) && in_tbl tbl x' && (length info <=? length info') then
          match alookup gnt_eqb x nr with
          | Some syms =>
            match sym_remove P syms with
            | [] => (nr_del x nr, pushed, true)
            | syms' => (ainsert gnt_eqb x syms' nr, pushed, ch)
            end
          | None => acc
          end
        else if in_tbl tbl x' then (nr, pushed ++ [(x', info')], ch) else acc
      | (_, GEnd _) => acc
      end
    end.

  (** 2) one pass of the inner function clean(); [ord] is the iteration order of
      the Python set new_rules[rule] (it depends on PYTHONHASHSEED) *)
  Fixpoint sweep (fuel : nat) (tbl : gtable) (ord : list sym -> list sym)
           (wl : list config) (nr : nrmap) (ch : bool) : option (nrmap * bool) :=
    match fuel with
    | O => None
    | Datatypes.S f =>
      match wl with
      | [] => Some (nr, ch)
      | (x, info) :: rest =>
        match alookup gnt_eqb x nr with
        | None => sweep f tbl ord rest nr ch
        | Some [] => sweep f tbl ord rest (nr_del x nr) true
        | Some syms =>
          let '(nr', pushed, ch') := fold_left (sweep_sym tbl x info) (ord syms) (nr, [], ch) in
          sweep f tbl ord (rev pushed ++ rest) nr' ch'
        end
      end
    end.

  (** while clean(): pass *)
  Fixpoint sweeps (outer fuel : nat) (tbl : gtable) (ord : list sym -> list sym) (start : gnt) (nr : nrmap) : option nrmap :=
    match outer with
    | O => None
    | Datatypes.S o =>
      match sweep fuel tbl ord [(start, [])] nr false with
      | None => None
      | Some (nr', true) => sweeps o fuel tbl ord start nr'
      | Some (nr', false) => Some nr'
      end
    end.

  Definition restrict (tbl : gtable) (nr : nrmap) : gtable :=
    map (fun e : gnt * list sym =>
           (fst e, flat_map (fun P => match grule_of (of_table tbl) (fst e) P with
                                      | Some r => [(P, r)]
                                      | None => []
                                      end) (snd e))) nr.

  Definition gclean (fuel : nat) (ord : list sym -> list sym) (tbl : gtable) (start : gnt) : option gtable :=
    match reach fuel tbl [(start, [])] [] with
    | None => None
    | Some nr =>
      match sweeps fuel fuel tbl ord start nr with
      | None => None
      | Some nr' => Some (restrict tbl nr')
      end
    end.

  (** "every derivation that can be started can be completed": explores every
      configuration reachable from c; returns (some derivation from c reaches
      the end marker, every rule met leads to the end marker or to a live
      configuration).  Out of fuel counts as not live. *)
  Fixpoint chk_complete (fuel : nat) (R : oracle) (c : config) : bool * bool :=
    match fuel with
    | O => (false, false)
    | Datatypes.S f =>
      match R (fst c) with
      | None => (false, true)
      | Some rs =>
        fold_right (fun (r : grule) (acc : bool * bool) =>
                      match gderive (snd c) (snd r) with
                      | (_, GEnd _) => (true, snd acc)
                      | (info', GAt x') =>
                        let lo := chk_complete f R (x', info') in
                        (fst lo || fst acc, fst lo && snd lo && snd acc)
                      end) (false, true) rs
      end
    end.
  Definition gcomplete (fuel : nat) (R : oracle) (start : gnt) : bool := snd (chk_complete fuel R (start, [])).

  (** the derivations that can be started and not completed, as the sequences of
      symbols (most recent first) leading to the first configuration from which
      the end marker is out of reach: a name-free description of the dead ends *)
  Fixpoint dead_prefixes (fuel : nat) (R : oracle) (c : config) (pre : list sym) : list (list sym) :=
    match fuel with
    | O => [pre]
    | Datatypes.S f =>
      match R (fst c) with
      | None => []
      | Some rs =>
        flat_map (fun r : grule =>
                    match gderive (snd c) (snd r) with
                    | (_, GEnd _) => []
                    | (info', GAt x') =>
                      if fst (chk_complete f R (x', info')) then dead_prefixes f R (x', info') (fst r :: pre)
                      else [fst r :: pre]
                    end) rs
      end
    end.
  Definition gdead (fuel : nat) (R : oracle) (start : gnt) : list (list sym) := dead_prefixes fuel R (start, []) [].

  (* ------------------------------------------------------------------ *)
  (** ** TTCFG.programs() *)
  Definition cmap : Type := list (T * N).
  Definition cadd (y : T) (n : N) (d : cmap) : cmap :=
    match alookup teqb y d with
    | Some m => ainsert teqb y (m + n)%N d
    | None => d ++ [(y, n)]
    end.
  Definition cget (d : cmap) (y : T) : N := match alookup teqb y d with Some n => n | None => 0%N end.
  Definition ctotal (d : cmap) : N := fold_right (fun e acc => (snd e + acc)%N) 0%N d.
  Definition memo_t : Type := list (gnt * cmap).

  (** __compute__ with its memo _counts.  [fixed = false] is the pinned code:
      the pending arguments are popped from the right end and a state that is
      not a non-terminal counts as one finished derivation whatever it is;
      [fixed = true]: popped from the left, only the end marker counts. *)
  Fixpoint pcompute (fixed : bool) (fuel : nat) (R : oracle) (memo : memo_t) (here : gpos) : option (memo_t * cmap) :=
    match fuel with
    | O => None
    | Datatypes.S f =>
      match here with
      | GEnd y => Some (memo, [(y, 1%N)])
      | GAt x =>
        match alookup gnt_eqb x memo with
        | Some d => Some (memo, d)
        | None =>
          match R x with
          | None => Some (memo, if fixed then [] else [(snd x, 1%N)])
          | Some rs =>
            match
              fold_left
                (fun (acc : option (memo_t * cmap)) (r : grule) =>
                   match acc with
                   | None => None
                   | Some (memo0, output) =>
                     let '(info, first) := gderive [] (snd r) in
                     match pcompute fixed f R memo0 first with
                     | None => None
                     | Some (memo1, local) =>
                       match
                         (fix loop (bases : list garg) (memo : memo_t) (local : cmap) {struct bases} : option (memo_t * cmap) :=
                            match bases with
                            | [] => Some (memo, local)
                            | base :: br =>
                              match
                                (fix inner (loc : cmap) (memo : memo_t) (next_local : cmap) {struct loc} : option (memo_t * cmap) :=
                                   match loc with
                                   | [] => Some (memo, next_local)
                                   | (v, cnt) :: lr =>
                                     match pcompute fixed f R memo (GAt (fst base, snd base, v)) with
                                     | None => None
                                     | Some (memo', d) =>
                                       inner lr memo' (fold_left (fun nl (e : T * N) => cadd (fst e) (snd e * cnt)%N nl) d next_local)
                                     end
                                   end) local memo []
                              with
                              | None => None
                              | Some (memo', nl) => loop br memo' nl
                              end
                            end) (if fixed then info else rev info) memo1 local
                       with
                       | None => None
                       | Some (memo2, local2) =>
                         Some (memo2, fold_left (fun o (e : T * N) => cadd (fst e) (snd e) o) local2 output)
                       end
                     end
                   end) rs (Some (memo, []))
            with
            | None => None
            | Some (memo', output) => Some (ainsert gnt_eqb x output memo', output)
            end
          end
        end
      end
    end.

  Definition gprograms (fixed : bool) (fuel : nat) (R : oracle) (start : gnt) : option N :=
    match pcompute fixed fuel R [] (GAt start) with
    | Some (_, d) => Some (ctotal d)
    | None => None
    end.

  (** the repaired __compute__ without its memo: the function the memo caches *)
  Fixpoint count_pos (fuel : nat) (R : oracle) (here : gpos) : option cmap :=
    match fuel with
    | O => None
    | Datatypes.S f =>
      match here with
      | GEnd y => Some [(y, 1%N)]
      | GAt x =>
        match R x with
        | None => Some []
        | Some rs =>
          fold_left
            (fun (acc : option cmap) (r : grule) =>
               match acc with
               | None => None
               | Some output =>
                 match count_pos f R (snd (gderive [] (snd r))) with
                 | None => None
                 | Some local =>
                   match
                     (fix loop (bases : list garg) (local : cmap) {struct bases} : option cmap :=
                        match bases with
                        | [] => Some local
                        | base :: br =>
                          match
                            (fix inner (loc : cmap) (next_local : cmap) {struct loc} : option cmap :=
                               match loc with
                               | [] => Some next_local
                               | (v, cnt) :: lr =>
                                 match count_pos f R (GAt (fst base, snd base, v)) with
                                 | None => None
                                 | Some d => inner lr (fold_left (fun nl (e : T * N) => cadd (fst e) (snd e * cnt)%N nl) d next_local)
                                 end
                               end) local []
                          with
                          | None => None
                          | Some nl => loop br nl
                          end
                        end) (fst (gderive [] (snd r))) local
                   with
                   | None => None
                   | Some local2 => Some (fold_left (fun o (e : T * N) => cadd (fst e) (snd e) o) local2 output)
                   end
                 end
               end) rs (Some [])
        end
      end
    end.
  Definition gcount (fuel : nat) (R : oracle) (start : gnt) : option N :=
    match count_pos fuel R (GAt start) with Some d => Some (ctotal d) | None => None end.

  (** programs() of the model: [gprograms fixed], memo included.  (For the repaired
      counter the memo is transparent: gprograms true = gcount whenever it
      returns, lemma gprograms_memo_free.) *)
  Definition count_of (count_fixed : bool) (fuel : nat) (R : oracle) (x : gnt) : option N :=
    gprograms count_fixed fuel R x.

  (** a table is the image of Python dictionaries: one entry per key *)
  Definition table_nodupb (g : gtable) : bool :=
    nodupb gnt_eqb (map fst g) && forallb (fun e : gnt * list grule => nodupb sym_eqb (map fst (snd e))) g.

  (* ------------------------------------------------------------------ *)
  (** ** __saturation_build__ *)
  Variable brules : gnt -> list grule.       (* transition + get_non_terminal at one non-terminal *)
  Definition item : Type := garg * T * list garg.

  (** [confkey = false]: as coded, an item whose (type, (S, T)) already has rules is
      skipped whatever its pending stack; [confkey = true] (repaired): the visited
      set is keyed by the whole configuration. *)
  Fixpoint sat (confkey : bool) (fuel : nat) (wl : list item) (seen : list config) (tbl : gtable) : option gtable :=
    match fuel with
    | O => None
    | Datatypes.S f =>
      match wl with
      | [] => Some tbl
      | (a, y, stack) :: rest =>
        let x : gnt := (fst a, snd a, y) in
        if (if confkey then memb config_eqb (x, stack) seen else in_tbl tbl x) then sat confkey f rest seen tbl
        else
          let rs := brules x in
          let pushes := flat_map (fun r : grule =>
                                    match fst (snd r) ++ stack with
                                    | [] => []
                                    | a0 :: st' => [(a0, snd (snd r), st')]
                                    end) rs in
          sat confkey f (rev pushes ++ rest) ((x, stack) :: seen)
              (if in_tbl tbl x then tbl else tbl ++ [(x, rs)])
      end
    end.

  (** DetGrammar._guess_type_request_ *)
  Definition table_vars (tbl : gtable) : list (nat * ty) :=
    fold_left (fun acc (v : nat * ty) => if existsb (fun w : nat * ty => Nat.eqb (fst w) (fst v)) acc then acc else acc ++ [v])
              (flat_map (fun e : gnt * list grule =>
                           flat_map (fun r : grule => match fst r with SVar i t => [(i, t)] | _ => [] end) (snd e)) tbl)
              [].
  Definition guess_request (tbl : gtable) (start_ty : ty) : ty :=
    let vars := table_vars tbl in
    fold_left (fun acc j => fold_left (fun acc (v : nat * ty) => if Nat.eqb (fst v) j then TArrow (snd v) acc else acc) vars acc)
              (rev (seq 0 (length vars))) start_ty.
End Generic.

Arguments GAt {S T} x.
Arguments GEnd {S T} y.

(* -------------------------------------------------------------------- *)
(** ** TTCFG.__mul_ttcfg__ *)
Section Product.
  Variables S1 T1 S2 T2 : Type.
  Variable seqb1 : S1 -> S1 -> bool.
  Variable teqb1 : T1 -> T1 -> bool.
  Variable seqb2 : S2 -> S2 -> bool.
  Variable teqb2 : T2 -> T2 -> bool.

  Definition pair_eqb {X Y} (ex : X -> X -> bool) (ey : Y -> Y -> bool) (a b : X * Y) : bool :=
    ex (fst a) (fst b) && ey (snd a) (snd b).

  (** zip of the two argument lists; the type is taken from the first *)
  Definition zip_args (a1 : list (garg S1)) (a2 : list (garg S2)) : list (garg (S1 * S2)) :=
    map (fun e : garg S1 * garg S2 => (fst (fst e), (snd (fst e), snd (snd e)))) (combine a1 a2).

  Definition mul_rules (l1 : list (grule S1 T1)) (l2 : list (grule S2 T2)) : list (grule (S1 * S2) (T1 * T2)) :=
    flat_map (fun r1 : grule S1 T1 =>
                match alookup sym_eqb (fst r1) l2 with
                | Some r2 => [(fst r1, (zip_args (fst (snd r1)) (fst r2), (snd (snd r1), snd r2)))]
                | None => []
                end) l1.

  (** the rules dictionary built by the two nested loops (before clean) *)
  Definition mul_raw (g1 : gtable S1 T1) (g2 : gtable S2 T2) : gtable (S1 * S2) (T1 * T2) :=
    flat_map (fun e1 : gnt S1 T1 * list (grule S1 T1) =>
      flat_map (fun e2 : gnt S2 T2 * list (grule S2 T2) =>
        let '(t1, s1, y1) := fst e1 in
        let '(t2, s2, y2) := fst e2 in
        if ty_eqb t1 t2 then [((t1, (s1, s2), (y1, y2)), mul_rules (snd e1) (snd e2))] else []) g2) g1.

  Definition mul_start (x1 : gnt S1 T1) (x2 : gnt S2 T2) : gnt (S1 * S2) (T1 * T2) :=
    (fst (fst x1), (snd (fst x1), snd (fst x2)), (snd x1, snd x2)).

  Definition mul_oracle (R1 : oracle S1 T1) (R2 : oracle S2 T2) : oracle (S1 * S2) (T1 * T2) :=
    fun x => match R1 (fst (fst x), fst (snd (fst x)), fst (snd x)), R2 (fst (fst x), snd (snd (fst x)), snd (snd x)) with
             | Some l1, Some l2 => Some (mul_rules l1 l2)
             | _, _ => None
             end.

  (** g1 * g2 = TTCFG(start, rules, clean=True) *)
  Definition gmul (fuel : nat) (ord : list sym -> list sym) (g1 : gtable S1 T1) (x1 : gnt S1 T1)
             (g2 : gtable S2 T2) (x2 : gnt S2 T2) : option (gtable (S1 * S2) (T1 * T2)) :=
    gclean (S1 * S2) (T1 * T2) (pair_eqb seqb1 seqb2) (pair_eqb teqb1 teqb2) fuel ord (mul_raw g1 g2) (mul_start x1 x2).

  (** same-symbol rules at non-terminals of the same type take the same
      argument types (true of grammars compiled from one DSL) *)
  Definition compatb (g1 : gtable S1 T1) (g2 : gtable S2 T2) : bool :=
    forallb (fun e1 : gnt S1 T1 * list (grule S1 T1) =>
      forallb (fun e2 : gnt S2 T2 * list (grule S2 T2) =>
        negb (ty_eqb (fst (fst (fst e1))) (fst (fst (fst e2)))) ||
        forallb (fun r1 : grule S1 T1 =>
          forallb (fun r2 : grule S2 T2 =>
            negb (sym_eqb (fst r1) (fst r2)) ||
            list_eqb ty_eqb (map fst (fst (snd r1))) (map fst (fst (snd r2)))) (snd e2)) (snd e1)) g2) g1.
End Product.

(* -------------------------------------------------------------------- *)
(** ** size_constraint and at_most_k *)
Record bparams : Type := {
  b_dsl : list (N * ty);                        (* dsl.list_primitives: name, type *)
  b_forb : list ((N * nat) * list N);           (* dsl.forbidden_patterns *)
  b_request : ty;
  b_ngram : nat;
}.

(** which of the proposed repairs are applied (all false = the pinned tree) *)
Record fixes : Type := {
  fx_forbid : bool;    (* forbidden sets are compared with the primitive's name *)
  fx_taken : bool;     (* the size transition charges the arguments taken here, not the arity of the type *)
  fx_varapp : bool;    (* function-typed variables may be applied (NOT proposed: recorded finding) *)
  fx_confkey : bool;   (* the builder's visited set is keyed by (non-terminal, pending stack) *)
}.
Definition all_fixed : fixes := {| fx_forbid := true; fx_taken := true; fx_varapp := true; fx_confkey := true |}.
Definition pinned : fixes := {| fx_forbid := false; fx_taken := false; fx_varapp := false; fx_confkey := false |}.

Definition ctx : Type := Cfg.ctx.
Definition ctx_eqb (a b : ctx) : bool := list_eqb Cfg.pred_eqb a b.
Definition nat2_eqb (a b : nat * nat) : bool := Nat.eqb (fst a) (fst b) && Nat.eqb (snd a) (snd b).

Definition ctx_parent (g : ctx) : option (sym * nat) := match g with [] => None | x :: _ => Some x end.

(** forbidden child names below a parent: only a primitive parent forbids *)
Definition forb_names (P : bparams) (parent : option (sym * nat)) : list N :=
  match parent with
  | Some (SPrim n _, i) => match alookup Cfg.key_eqb (n, i) (b_forb P) with Some l => l | None => [] end
  | _ => []
  end.
Definition forbidden_here (fx : fixes) (P : bparams) (g : ctx) (s : sym) : bool :=
  fx_forbid fx && match s with SPrim n _ => memb N.eqb n (forb_names P (ctx_parent g)) | _ => false end.

Definition is_arrow (t : ty) : bool := match t with TArrow _ _ => true | _ => false end.

Section Builder.
  Variable Tst : Type.
  Variable fx : fixes.
  Variable P : bparams.
  (** transition(rule, derivation) with the number of arguments taken at this
      non-terminal made explicit (the repaired code computes it from rule[0]) *)
  Variable trans : gnt ctx Tst -> sym -> nat -> bool * Tst.

  (** candidate heads at type t with the argument types they take there:
      variables first, then dsl.list_primitives in order *)
  Definition heads_at (t : ty) : list (sym * list ty) :=
    flat_map (fun ia : nat * ty =>
                if fx_varapp fx then
                  match ends_with (snd ia) t with Some tys => [(SVar (fst ia) (snd ia), tys)] | None => [] end
                else if ty_eqb t (snd ia) then [(SVar (fst ia) t, [])] else [])
             (Cfg.enumerate (arguments (b_request P)))
    ++ flat_map (fun nt : N * ty =>
                   match ends_with (snd nt) t with Some tys => [(SPrim (fst nt) (snd nt), tys)] | None => [] end)
                (b_dsl P).

  Definition decorate (g : ctx) (h : sym) (tys : list ty) : list (garg ctx) :=
    map (fun ia : nat * ty => (snd ia, Cfg.ctx_succ (b_ngram P) g (h, fst ia))) (Cfg.enumerate tys).

  Definition brules_gen (x : gnt ctx Tst) : list (grule ctx Tst) :=
    let '(t, g, y) := x in
    flat_map (fun ht : sym * list ty =>
                if forbidden_here fx P g (fst ht) then []
                else
                  let '(ok, y') := trans x (fst ht) (length (snd ht)) in
                  if ok then [(fst ht, (decorate g (fst ht) (snd ht), y'))] else [])
             (heads_at t).
End Builder.

(** size_constraint's __transition__ on the state (size, future) *)
Definition size_trans (fx : fixes) (max_size : nat) (x : gnt ctx (nat * nat)) (s : sym) (taken : nat) : bool * (nat * nat) :=
  let '(size, future) := snd x in
  if Nat.ltb max_size size then (false, (0, 0))
  else
    let nargs := if fx_taken fx then taken
                 else if is_arrow (sym_type s) then length (arguments (sym_type s)) else 0 in
    if Nat.ltb 0 future then (Nat.leb (size + nargs + future) max_size, (size + 1, future + nargs - 1))
    else (Nat.leb (size + nargs + 1 + future) max_size, (size + 1, future + nargs)).

(** at_most_k's __transition__ on the number of occurrences left *)
Definition occ_trans (prim : N) (x : gnt ctx nat) (s : sym) (taken : nat) : bool * nat :=
  let occ := snd x in
  match s with
  | SPrim n _ => if N.eqb n prim then (Nat.ltb 0 occ, occ - 1) else (true, occ)
  | _ => (true, occ)
  end.

Definition size_rules (fx : fixes) (P : bparams) (max_size : nat) : gnt ctx (nat * nat) -> list (grule ctx (nat * nat)) :=
  brules_gen (nat * nat) fx P (size_trans fx max_size).
Definition occ_rules (fx : fixes) (P : bparams) (prim : N) : gnt ctx nat -> list (grule ctx nat) :=
  brules_gen nat fx P (occ_trans prim).

Definition size_start (P : bparams) : gnt ctx (nat * nat) := (returns (b_request P), [], (0, 0)).
Definition occ_start (P : bparams) (k : nat) : gnt ctx nat := (returns (b_request P), [], k).

(** the rules as a function of the non-terminal: the grammar the builder is
    saturating towards *)
Definition size_oracle (fx : fixes) (P : bparams) (max_size : nat) : oracle ctx (nat * nat) :=
  fun x => Some (size_rules fx P max_size x).
Definition occ_oracle (fx : fixes) (P : bparams) (prim : N) : oracle ctx nat :=
  fun x => Some (occ_rules fx P prim x).

(** the tables before cleaning *)
Definition size_raw (fx : fixes) (fuel : nat) (P : bparams) (max_size : nat) : option (gtable ctx (nat * nat)) :=
  sat ctx (nat * nat) ctx_eqb nat2_eqb (size_rules fx P max_size) (fx_confkey fx) fuel
      [((returns (b_request P), []), (0, 0), [])] [] [].
Definition occ_raw (fx : fixes) (fuel : nat) (P : bparams) (prim : N) (k : nat) : option (gtable ctx nat) :=
  sat ctx nat ctx_eqb Nat.eqb (occ_rules fx P prim) (fx_confkey fx) fuel
      [((returns (b_request P), []), k, [])] [] [].

(** TTCFG.size_constraint / TTCFG.at_most_k: build, then clean *)
Definition size_constraint (fx : fixes) (fuel : nat) (ord : list sym -> list sym) (P : bparams) (max_size : nat)
  : option (gtable ctx (nat * nat)) :=
  match size_raw fx fuel P max_size with
  | Some tbl => gclean ctx (nat * nat) ctx_eqb nat2_eqb fuel ord tbl (size_start P)
  | None => None
  end.
Definition at_most_k (fx : fixes) (fuel : nat) (ord : list sym -> list sym) (P : bparams) (prim : N) (k : nat)
  : option (gtable ctx nat) :=
  match occ_raw fx fuel P prim k with
  | Some tbl => gclean ctx nat ctx_eqb Nat.eqb fuel ord tbl (occ_start P k)
  | None => None
  end.

(** the type request a built grammar reports: the guessed one (pinned), or the
    one it was compiled for (repaired, as CFG.infinite since 2cb1e35) *)
Definition reported_request {S T} (fix_treq : bool) (P : bparams) (raw : gtable S T) : ty :=
  if fix_treq then b_request P else guess_request S T raw (returns (b_request P)).

(* -------------------------------------------------------------------- *)
(** ** Declarative specification *)
Definition head_ok (P : bparams) (s : sym) : bool :=
  match s with
  | SPrim n t => memb (fun a b : N * ty => N.eqb (fst a) (fst b) && ty_eqb (snd a) (snd b)) (n, t) (b_dsl P)
  | SVar i t => match nth_error (arguments (b_request P)) i with Some a => ty_eqb a t | None => false end
  | SConst _ _ => false
  end.

(** p is an applicative term of type t over the DSL and the request's
    variables (partial applications typed through ends_with, no depth bound);
    [va = false]: variables occur as leaves only (what the builders generate) *)
Definition app_ok (va : bool) (f : sym) (tys : list ty) : Prop :=
  match f with SVar _ _ => va = true \/ tys = [] | _ => True end.

Fixpoint WT (va : bool) (P : bparams) (t : ty) (p : prog) {struct p} : Prop :=
  match p with
  | PLeaf s => head_ok P s = true /\ ends_with (sym_type s) t = Some []
  | PFun f ps =>
    head_ok P f = true /\
    exists tys, ends_with (sym_type f) t = Some tys /\ app_ok va f tys /\
                (fix all2 (tys : list ty) (ps : list prog) {struct ps} : Prop :=
                   match ps, tys with
                   | [], [] => True
                   | a :: pr, u :: tr => WT va P u a /\ all2 tr pr
                   | _, _ => False
                   end) tys ps
  end.

(** no (parent primitive, argument index, child head) of the forbidden table occurs *)
Fixpoint forb_free (P : bparams) (parent : option (sym * nat)) (p : prog) {struct p} : Prop :=
  match p with
  | PLeaf s => match s with SPrim n _ => ~ In n (forb_names P parent) | _ => True end
  | PFun f ps =>
    match f with SPrim n _ => ~ In n (forb_names P parent) | _ => True end /\
    (fix all (i : nat) (ps : list prog) {struct ps} : Prop :=
       match ps with
       | [] => True
       | a :: pr => forb_free P (Some (f, i)) a /\ all (Datatypes.S i) pr
       end) 0 ps
  end.

(** number of occurrences of the primitive named prim *)
Fixpoint occurrences (prim : N) (p : prog) {struct p} : nat :=
  let here (s : sym) := match s with SPrim n _ => if N.eqb n prim then 1 else 0 | _ => 0 end in
  match p with
  | PLeaf s => here s
  | PFun f ps => here f + fold_right (fun a acc => occurrences prim a + acc) 0 ps
  end.

Definition sized (va : bool) (P : bparams) (max_size : nat) (p : prog) : Prop :=
  WT va P (returns (b_request P)) p /\ forb_free P None p /\ psize p <= max_size.
Definition at_most (va : bool) (P : bparams) (prim : N) (k : nat) (p : prog) : Prop :=
  WT va P (returns (b_request P)) p /\ forb_free P None p /\ occurrences prim p <= k.
