(** Proofs about Gram/Ucfg.v, part 4: encodings are injective; the n-gram
    conversion; from_CFG; the state flattening; the statements for automata
    whose states are Python values. *)
From Coq Require Import ZArith NArith QArith List Bool Arith Lia Setoid.
From PS Require Import Base.ListX Base.Sexp Base.Ty Base.Value Base.Prog Gram.Det Gram.U Gram.UProofs
  Auto.Dfta Auto.DftaBase Gram.Ucfg Gram.UcfgBase Gram.UcfgProofs Gram.UcfgLang.
From PS Require Gram.Cfg Gram.CfgSpec Gram.CfgProofs.
Import ListNotations.
Local Open Scope nat_scope.

(** * injectivity of the encodings *)
Lemma map_inj_in {X Y} (f : X -> Y) l :
  Forall (fun x => forall y, f x = f y -> x = y) l -> forall l', map f l = map f l' -> l = l'.
Proof.
  induction 1 as [|x r Hx _ IH]; intros [|y r'] H; cbn in H; try discriminate; [reflexivity|].
  inversion H as [[H1 H2]]. f_equal; auto.
Qed.

Lemma ofN_inj a b : ofN a = ofN b -> a = b.
Proof. unfold ofN. intros H. inversion H. lia. Qed.
Lemma ofNat_inj a b : ofNat a = ofNat b -> a = b.
Proof. unfold ofNat. intros H. inversion H. lia. Qed.

Lemma sexp_of_ty_inj : forall t u, sexp_of_ty t = sexp_of_ty u -> t = u.
Proof.
  induction t as [n|a b IHa IHb|n l IH|n|n l IH|l IH|] using ty_ind'; intros [m|a' b'|m l'|m|m l'|l'|] H;
    cbn in H; try discriminate; try (inversion H; fail).
  - inversion H as [H1]. f_equal. lia.
  - inversion H. f_equal; auto.
  - inversion H as [[H1 H2]]. f_equal; [lia|]. eapply map_inj_in; eauto.
  - inversion H as [H1]. f_equal. lia.
  - inversion H as [[H1 H2]]. f_equal; [lia|]. eapply map_inj_in; eauto.
  - inversion H as [H1]. f_equal. eapply map_inj_in; eauto.
  - reflexivity.
Qed.

Lemma sexp_of_value_inj : forall v u, sexp_of_value v = sexp_of_value u -> v = u.
Proof.
  induction v as [z|b|l IH| |n l IH] using value_ind'; intros [z'|b'|l'| |m l'] H;
    cbn in H; try discriminate; try (inversion H; fail).
  - inversion H. reflexivity.
  - destruct b, b'; cbn in H; try discriminate; reflexivity.
  - inversion H as [H1]. f_equal. eapply map_inj_in; eauto.
  - reflexivity.
  - inversion H as [[H1 H2]]. f_equal; [lia|]. eapply map_inj_in; eauto.
Qed.

Lemma sexp_of_sym_inj a b : sexp_of_sym a = sexp_of_sym b -> a = b.
Proof.
  destruct a as [n t|i t|t [v|]], b as [m u|j u|u [v'|]]; cbn; intros H; try discriminate; try (inversion H; fail).
  - inversion H as [[H1 H2]]. apply sexp_of_ty_inj in H2. f_equal; [lia|auto].
  - inversion H as [[H1 H2]]. apply sexp_of_ty_inj in H2. f_equal; [lia|auto].
  - inversion H as [[H1 H2]]. apply sexp_of_ty_inj in H1. apply sexp_of_value_inj in H2. subst. reflexivity.
  - inversion H as [H1]. apply sexp_of_ty_inj in H1. subst. reflexivity.
Qed.

Lemma enc_ctx_inj g g' : enc_ctx g = enc_ctx g' -> g = g'.
Proof.
  unfold enc_ctx. intros H. inversion H as [H1]. clear H. revert g' H1.
  induction g as [|[s i] r IH]; intros [|[s' i'] r'] H; cbn in H; try discriminate; [reflexivity|].
  inversion H as [[H1 H2 H3]]. apply sexp_of_sym_inj in H1. f_equal; [f_equal; [auto|lia]|auto].
Qed.

Lemma enc_nnt_inj a b : enc_nnt a = enc_nnt b -> a = b.
Proof.
  destruct a as [g [t u]], b as [g' [t' u']]. unfold enc_nnt. cbn. intros H. inversion H as [[H1 H2 H3]].
  assert (E : enc_ctx g = enc_ctx g') by (unfold enc_ctx; f_equal; exact H2).
  apply enc_ctx_inj in E. subst. reflexivity.
Qed.

Lemma enc_cnt_inj a b : enc_cnt a = enc_cnt b -> a = b.
Proof.
  destruct a as [[t g] d], b as [[t' g'] d']. unfold enc_cnt, Cfg.nt_type, Cfg.nt_ctx, Cfg.nt_depth. cbn.
  intros H. inversion H as [[H1 H2 H3]].
  assert (E : enc_ctx g = enc_ctx g') by (unfold enc_ctx; f_equal; exact H2).
  apply enc_ctx_inj in E. subst. f_equal. lia.
Qed.

Section PstInd.
  Variable P : pst -> Prop.
  Hypothesis HT : forall t, P (PT t).
  Hypothesis HI : forall z, P (PI z).
  Hypothesis HTup : forall l, Forall P l -> P (PTup l).
  Fixpoint pst_ind' (p : pst) : P p :=
    match p with
    | PT t => HT t
    | PI z => HI z
    | PTup l => HTup l ((fix go (l : list pst) : Forall P l :=
                           match l with [] => Forall_nil _ | x :: r => Forall_cons _ (pst_ind' x) (go r) end) l)
    end.
End PstInd.

Lemma enc_pst_inj : forall a b, enc_pst a = enc_pst b -> a = b.
Proof.
  induction a as [t|z|l IH] using pst_ind'; intros [u|z'|l'] H; cbn in H; try discriminate; try (inversion H; fail).
  - inversion H as [H1]. apply sexp_of_ty_inj in H1. subst. reflexivity.
  - inversion H. reflexivity.
  - inversion H as [H1]. f_equal. eapply map_inj_in; eauto.
Qed.

Lemma pst_eqb_spec : forall a b, pst_eqb a b = true <-> a = b.
Proof.
  induction a as [t|z|l IH] using pst_ind'; intros [u|z'|l']; cbn; try (split; congruence).
  - rewrite ty_eqb_spec. split; congruence.
  - rewrite Z.eqb_eq. split; congruence.
  - rewrite (list_eqb_spec_in pst_eqb l).
    + split; congruence.
    + rewrite Forall_forall in IH. auto.
Qed.

(** * the n-gram conversion projects onto the plain one *)
Lemma cntN_decorate (nd' : nnt -> prog -> nat) (nd : unt -> prog -> nat) n g f ps :
  Forall (fun p => forall g' x, nd' (g', x) p = nd x p) ps ->
  forall alt k, cntN nd' ps (map (fun ia : nat * unt => (Cfg.ctx_succ n g (f, fst ia), snd ia)) (Cfg.enumerate_from k alt))
                = cntN nd ps alt.
Proof.
  induction 1 as [|a ar0 Ha _ IH]; intros alt k; [reflexivity|].
  destruct alt as [|y r]; [reflexivity|]. cbn [Cfg.enumerate_from map cntN fst snd]. rewrite Ha, IH. reflexivity.
Qed.

Theorem nder_ngram n rs : forall p g x, nder (contrib_ng n rs) (g, x) p = nder (contrib rs) x p.
Proof.
  induction p as [s|f ps IH] using prog_ind'; intros g x; cbn [nder]; unfold contrib_ng; cbn [fst snd]; rewrite map_map.
  - reflexivity.
  - apply sumnat_ext. intros c _. cbn [fst snd]. destruct (sym_eqb (fst c) f); [|reflexivity].
    unfold decorate, Cfg.enumerate. apply (cntN_decorate (fun nu' a => nder (contrib_ng n rs) nu' a)
                                                         (fun nu' a => nder (contrib rs) nu' a)).
    rewrite Forall_forall in *. intros p Hp g' x'. apply IH. exact Hp.
Qed.

Lemma contrib_ng_ranked n rs ar : (forall x c, In c (contrib rs x) -> length (snd c) = ar (fst c)) ->
  forall nu c, In c (contrib_ng n rs nu) -> length (snd c) = ar (fst c).
Proof.
  intros H nu c Hc. unfold contrib_ng in Hc. apply in_map_iff in Hc. destruct Hc as [c0 [<- Hc0]]. cbn.
  unfold decorate, Cfg.enumerate. rewrite map_length.
  assert (E : forall (l : list unt) k, length (Cfg.enumerate_from k l) = length l)
    by (induction l; intros; cbn; auto).
  rewrite E. eapply H; eauto.
Qed.

Lemma nnt_eqb_spec a b : nnt_eqb a b = true <-> a = b.
Proof.
  destruct a as [g x], b as [g' x']. unfold nnt_eqb. cbn.
  rewrite andb_true_iff, unt_eqb_spec.
  rewrite (list_eqb_spec Cfg.pred_eqb).
  - split; [intros [-> ->]; reflexivity|intros E; inversion E; auto].
  - intros [s i] [s' i']. unfold Cfg.pred_eqb. cbn. rewrite andb_true_iff, sym_eqb_spec, Nat.eqb_eq.
    split; [intros [-> ->]; reflexivity|intros E; inversion E; auto].
Qed.

Lemma from_raw_ngrams_inv n fuel rs fin starts tbl : from_raw_ngrams n fuel rs fin = GOk (starts, tbl) ->
  exists keys, tbl = build enc_nnt (contrib_ng n rs) keys
               /\ starts = map enc_nnt (map (fun x : unt => (([] : ctx), x)) (nub unt_eqb fin))
               /\ (forall x, In x (nub unt_eqb fin) -> In (([] : ctx), x) keys)
               /\ (forall nu, In nu keys -> forall y, In y (succs (contrib_ng n rs) nu) -> In y keys).
Proof.
  unfold from_raw_ngrams. destruct (nub unt_eqb fin) as [|s0 sr] eqn:Es; [discriminate|].
  destruct (closure nnt_eqb _ fuel _) as [keys|] eqn:Ec; [|discriminate].
  intros H. inversion H; subst. exists keys. split; [reflexivity|]. split; [reflexivity|]. split.
  - intros x Hx. eapply closure_incl; eauto. apply in_map. exact Hx.
  - eapply (closure_closed nnt_eqb nnt_eqb_spec); eauto.
Qed.

Section NgMain.
  Context {Q : Type} (qeqb : Q -> Q -> bool).
  Hypothesis qspec : forall a b, qeqb a b = true <-> a = b.
  Variables (A : dfta sym Q) (ar : sym -> nat) (d2 : Q -> unt) (n fuel : nat).
  Hypothesis Hdet : deterministic A.
  Hypothesis Hrk : forall l args d, In ((l, args), d) (rules A) -> length args = ar l.
  Hypothesis Hinj : forall q q', In q (mentioned A) -> In q' (mentioned A) -> d2 q = d2 q' -> q = q'.
  Variables (starts : list unt) (tbl : utable).
  Hypothesis Hg : from_DFTA_ngrams_gen d2 n fuel A = GOk (starts, tbl).
  Notation runA := (run sym_eqb qeqb A).

  Lemma ng_keys : exists keys, tbl = build enc_nnt (contrib_ng n (raw_rules d2 A)) keys
    /\ (forall nu, In nu keys -> forall y, In y (succs (contrib_ng n (raw_rules d2 A)) nu) -> In y keys)
    /\ (forall nu, urules_of tbl (enc_nnt nu) <> None <-> In nu keys)
    /\ (forall qf, In qf (finals A) -> In (([] : ctx), d2 qf) keys)
    /\ starts = nub unt_eqb (map (fun q => enc_nnt (([] : ctx), d2 q)) (finals A)).
  Proof.
    unfold from_DFTA_ngrams_gen in Hg. apply from_raw_ngrams_inv in Hg.
    destruct Hg as [keys [-> [Hs [Hi Hcl]]]]. exists keys. split; [reflexivity|]. split; [exact Hcl|]. split; [|split].
    - intros nu. split.
      + intros H. destruct (urules_of _ (enc_nnt nu)) as [r|] eqn:E; [|congruence].
        unfold urules_of, build in E. apply (alookup_map_in unt_eqb unt_eqb_spec) in E.
        destruct E as [nu' [Hin [E _]]]. apply enc_nnt_inj in E. subst. exact Hin.
      + intros H. rewrite (urules_build enc_nnt _ enc_nnt_inj); auto. discriminate.
    - intros qf Hf. apply Hi. apply (in_nub unt_eqb unt_eqb_spec). apply in_map. exact Hf.
    - rewrite Hs, map_map.
      rewrite <- (nub_map_inj unt_eqb unt_eqb unt_eqb_spec unt_eqb_spec (fun x => enc_nnt (([] : ctx), x))).
      + rewrite map_map. reflexivity.
      + intros a b E. apply enc_nnt_inj in E. inversion E. reflexivity.
  Qed.

  Theorem ng_uderivs g q p : In q (mentioned A) -> urules_of tbl (enc_nnt (g, d2 q)) <> None -> well_ranked ar p = true ->
    length (uderivs tbl [] (enc_nnt (g, d2 q)) p) = ind (option_eqb qeqb (runA (tree_of p)) (Some q)).
  Proof.
    intros Hq Hk Hw. destruct ng_keys as [keys [-> [Hcl [Hkeys _]]]]. apply Hkeys in Hk.
    rewrite (uderivs_build enc_nnt (contrib_ng n (raw_rules d2 A)) keys enc_nnt_inj Hcl); auto.
    rewrite nder_ngram. apply (nder_run qeqb qspec A ar Hdet Hrk d2 Hinj); auto.
  Qed.

  Theorem ng_derivations g q p : In q (mentioned A) -> urules_of tbl (enc_nnt (g, d2 q)) <> None -> well_ranked ar p = true ->
    uderivations tbl (enc_nnt (g, d2 q)) p = ind (option_eqb qeqb (runA (tree_of p)) (Some q)).
  Proof.
    intros Hq Hk Hw. destruct ng_keys as [keys [-> [Hcl [Hkeys _]]]]. apply Hkeys in Hk.
    rewrite (uderivations_build enc_nnt (contrib_ng n (raw_rules d2 A)) keys ar enc_nnt_inj Hcl); auto.
    - rewrite nder_ngram. apply (nder_run qeqb qspec A ar Hdet Hrk d2 Hinj); auto.
    - apply contrib_ng_ranked. apply (contrib_ranked A ar Hrk d2).
  Qed.

  Theorem ng_member g q p : In q (mentioned A) -> urules_of tbl (enc_nnt (g, d2 q)) <> None ->
    ucontains_at tbl (enc_nnt (g, d2 q)) p = option_eqb qeqb (runA (tree_of p)) (Some q).
  Proof.
    intros Hq Hk. destruct ng_keys as [keys [-> [Hcl [Hkeys _]]]]. apply Hkeys in Hk.
    rewrite (ucontains_build enc_nnt (contrib_ng n (raw_rules d2 A)) keys ar enc_nnt_inj Hcl); auto.
    - rewrite nder_ngram. destruct (well_ranked ar p) eqn:Hw; cbn.
      + rewrite (nder_run qeqb qspec A ar Hdet Hrk d2 Hinj); auto.
        destruct (option_eqb qeqb (runA (tree_of p)) (Some q)); reflexivity.
      + destruct (runA (tree_of p)) as [q'|] eqn:E; [|reflexivity].
        apply (run_well_ranked qeqb qspec A ar Hrk) in E. congruence.
    - apply contrib_ng_ranked. apply (contrib_ranked A ar Hrk d2).
  Qed.

  Let e (q : Q) : unt := enc_nnt (([] : ctx), d2 q).
  Lemma e_inj : forall q q', In q (mentioned A) -> In q' (mentioned A) -> e q = e q' -> q = q'.
  Proof. intros q q' H1 H2 E. unfold e in E. apply enc_nnt_inj in E. inversion E. auto. Qed.

  Lemma ng_start_key qf : In qf (finals A) -> urules_of tbl (e qf) <> None.
  Proof. intros Hf. destruct ng_keys as [keys [_ [_ [Hkeys [Hst _]]]]]. apply Hkeys. apply Hst. exact Hf. Qed.

  Lemma ng_starts : starts = nub unt_eqb (map e (finals A)).
  Proof. destruct ng_keys as [keys [_ [_ [_ [_ Hs]]]]]. exact Hs. Qed.

  Theorem ng_unambiguous p : well_ranked ar p = true ->
    sumnat (map (fun x => uderivations tbl x p) starts) = ind (accepts sym_eqb qeqb A (tree_of p)).
  Proof.
    intros Hw. rewrite ng_starts. apply (starts_sum qeqb qspec A e (fun x => uderivations tbl x p)); [apply e_inj|].
    intros qf Hf. unfold e. apply ng_derivations; [apply mentioned_final; exact Hf|apply ng_start_key; exact Hf|exact Hw].
  Qed.

  Theorem ng_language p : ucontains tbl starts p = accepts sym_eqb qeqb A (tree_of p).
  Proof.
    unfold ucontains. rewrite existsb_sum, ng_starts.
    rewrite (starts_sum qeqb qspec A e (fun x => ind (ucontains_at tbl x p)) (tree_of p)); [|apply e_inj|].
    - destruct (accepts sym_eqb qeqb A (tree_of p)); reflexivity.
    - intros qf Hf. unfold e. rewrite ng_member; [reflexivity|apply mentioned_final; exact Hf|apply ng_start_key; exact Hf].
  Qed.

  Theorem ng_count fuel' :
    ucount fuel' tbl starts = N.of_nat (length (ulanguage fuel' tbl starts))
    /\ NoDup (ulanguage fuel' tbl starts)
    /\ forall p, In p (ulanguage fuel' tbl starts) <->
                 accepts sym_eqb qeqb A (tree_of p) = true /\ normal p = true /\ pdepth p <= fuel'.
  Proof.
    apply (aut_language_count qeqb qspec A ar Hrk starts tbl e e_inj ng_starts).
    - destruct ng_keys as [keys [-> _]]. apply build_ranked. apply contrib_ng_ranked. apply (contrib_ranked A ar Hrk d2).
    - destruct ng_keys as [keys [-> _]]. apply build_nodup.
    - destruct ng_keys as [keys [-> [Hcl _]]]. apply build_closed; auto. apply enc_nnt_inj.
    - apply ng_start_key.
    - intros qf p Hf Hw. unfold e. apply ng_uderivs; [apply mentioned_final; exact Hf|apply ng_start_key; exact Hf|exact Hw].
  Qed.
End NgMain.

(** the plain conversion: language list and programs() *)
Section PlainCount.
  Context {Q : Type} (qeqb : Q -> Q -> bool).
  Hypothesis qspec : forall a b, qeqb a b = true <-> a = b.
  Variables (A : dfta sym Q) (ar : sym -> nat) (d2 : Q -> unt).
  Hypothesis Hdet : deterministic A.
  Hypothesis Hrk : forall l args d, In ((l, args), d) (rules A) -> length args = ar l.
  Hypothesis Hinj : forall q q', In q (mentioned A) -> In q' (mentioned A) -> d2 q = d2 q' -> q = q'.
  Variables (starts : list unt) (tbl : utable).
  Hypothesis Hg : from_DFTA_gen d2 A = GOk (starts, tbl).

  Theorem plain_count fuel :
    ucount fuel tbl starts = N.of_nat (length (ulanguage fuel tbl starts))
    /\ NoDup (ulanguage fuel tbl starts)
    /\ forall p, In p (ulanguage fuel tbl starts) <->
                 accepts sym_eqb qeqb A (tree_of p) = true /\ normal p = true /\ pdepth p <= fuel.
  Proof.
    pose proof (starts_eq A d2 starts tbl Hg) as Hst.
    pose proof (start_is_key A d2 starts tbl Hg) as Hsk.
    unfold from_DFTA_gen in Hg. apply from_raw_inv in Hg. destruct Hg as [keys [Et [_ [_ [Hi Hcl]]]]].
    apply (aut_language_count qeqb qspec A ar Hrk starts tbl d2 Hinj Hst).
    - rewrite Et. apply build_ranked. apply (contrib_ranked A ar Hrk d2).
    - rewrite Et. apply build_nodup.
    - rewrite Et. apply build_closed; auto.
    - exact Hsk.
    - intros qf p Hf Hw. specialize (Hsk qf Hf). rewrite Et in *. apply build_id_key in Hsk.
      rewrite (uderivs_build (fun x => x) (contrib (raw_rules d2 A)) keys (fun a b E => E) Hcl); auto.
      apply (nder_run qeqb qspec A ar Hdet Hrk d2 Hinj); auto using mentioned_final.
  Qed.
End PlainCount.

(** * from_CFG *)
Lemma filter_key_lookup {V} (l : list (sym * V)) f : NoDup (map fst l) ->
  filter (fun c : sym * V => sym_eqb (fst c) f) l = match alookup sym_eqb f l with Some v => [(f, v)] | None => [] end.
Proof.
  induction l as [|[s v] r IH]; cbn; intros Hn; [reflexivity|]. inversion Hn as [|? ? Hni Hnr]; subst.
  rewrite (eqb_sym sym_eqb sym_eqb_spec f s). destruct (sym_eqb s f) eqn:E.
  - apply sym_eqb_spec in E. subst. f_equal.
    rewrite IH by auto. destruct (alookup sym_eqb f r) as [v'|] eqn:E2; [|reflexivity].
    exfalso. apply Hni. apply (alookup_some_key sym_eqb sym_eqb_spec) in E2. exact E2.
  - apply IH. auto.
Qed.

Section FromCfg.
  Variables (R : Cfg.cnt -> list Cfg.rule) (keys : list Cfg.cnt).
  Hypothesis Hdict : forall x, NoDup (map fst (R x)).
  Hypothesis Hcl : forall x, In x keys -> forall r, In r (R x) -> forall y, In y (snd r) -> In y keys.
  Let tbl := build enc_cnt R keys.

  Lemma cfg_closed : forall nu, In nu keys -> forall y, In y (succs R nu) -> In y keys.
  Proof. intros nu Hnu y Hy. unfold succs in Hy. apply in_flat_map in Hy. destruct Hy as [r [Hr Hy]]. eapply Hcl; eauto. Qed.

  Lemma cfg_alts x f : alts_for R x f = match Cfg.rlookup f (R x) with Some nts => [nts] | None => [] end.
  Proof.
    unfold alts_for, Cfg.rlookup. rewrite (filter_key_lookup (R x) f (Hdict x)).
    destruct (alookup sym_eqb f (R x)); reflexivity.
  Qed.

  Lemma cfg_ualts x f : In x keys ->
    ualts_of tbl (enc_cnt x) f = match Cfg.rlookup f (R x) with Some nts => Some [map enc_cnt nts] | None => None end.
  Proof.
    intros Hx. unfold tbl. rewrite (ualts_build enc_cnt R enc_cnt_inj keys x f Hx), cfg_alts.
    destruct (Cfg.rlookup f (R x)); reflexivity.
  Qed.

  Lemma cfg_thread args :
    Forall (fun a => forall x info, In x keys ->
              ucontains_rec tbl a (UAt (enc_cnt x)) info = if Cfg.contains_gen R x a then Some [unext info] else None) args ->
    forall nts info, (forall y, In y nts -> In y keys) -> length nts = length args ->
    uthread (ucontains_rec tbl) args [uderive1 info (map enc_cnt nts)]
    = if CfgProofs.all2b (Cfg.contains_gen R) nts args then Some [unext info] else None.
  Proof.
    induction 1 as [|a ar0 Ha _ IH]; intros [|y r] info Hk Hl; cbn in Hl; try discriminate; [reflexivity|].
    cbn [uthread map flat_map CfgProofs.all2b]. rewrite uderive1_cons. cbn [fst snd].
    rewrite Ha by (apply Hk; left; reflexivity).
    destruct (Cfg.contains_gen R y a); cbn [andb app].
    - rewrite unext_app. apply IH; [|lia]. intros z Hz. apply Hk. right. exact Hz.
    - reflexivity.
  Qed.

  Theorem cfg_member : forall p x info, In x keys ->
    ucontains_rec tbl p (UAt (enc_cnt x)) info = if Cfg.contains_gen R x p then Some [unext info] else None.
  Proof.
    induction p as [s|f ps IH] using prog_ind'; intros x info Hx.
    - cbn [ucontains_rec]. rewrite (cfg_ualts x s Hx), CfgProofs.contains_gen_leaf.
      destruct (Cfg.rlookup s (R x)) as [[|y r]|]; reflexivity.
    - rewrite ucontains_rec_fun, (cfg_ualts x f Hx), CfgProofs.contains_gen_fun.
      destruct (Cfg.rlookup f (R x)) as [nts|] eqn:El; [|reflexivity].
      cbn [uarity]. rewrite map_length.
      destruct (Nat.eqb (length nts) (length ps)) eqn:E.
      + apply Nat.eqb_eq in E. cbn [map]. apply cfg_thread; auto.
        intros y Hy. apply (Hcl x Hx (f, nts)); auto.
        unfold Cfg.rlookup in El. apply (alookup_in sym_eqb sym_eqb_spec) in El. exact El.
      + destruct (CfgProofs.all2b (Cfg.contains_gen R) nts ps) eqn:E2; [|reflexivity].
        apply CfgProofs.all2b_length in E2. apply Nat.eqb_neq in E. contradiction.
  Qed.

  Lemma cfg_nder_leaf x s : nder R x (PLeaf s) = match Cfg.rlookup s (R x) with Some _ => 1 | None => 0 end.
  Proof.
    cbn [nder]. pose proof (sum_key_lookup sym_eqb sym_eqb_spec (R x) s (fun _ => 1) (Hdict x)) as H. cbv beta in H.
    etransitivity; [exact H|]. reflexivity.
  Qed.

  Lemma cfg_nder_fun x f ps : nder R x (PFun f ps) =
    match Cfg.rlookup f (R x) with Some nts => cntN (fun nu' a => nder R nu' a) ps nts | None => 0 end.
  Proof.
    cbn [nder]. pose proof (sum_key_lookup sym_eqb sym_eqb_spec (R x) f
                              (fun nts => cntN (fun nu' a => nder R nu' a) ps nts) (Hdict x)) as H. cbv beta in H.
    etransitivity; [exact H|]. reflexivity.
  Qed.

  (** a member has exactly one derivation *)
  Theorem cfg_member_one : forall p x, In x keys -> Cfg.contains_gen R x p = true ->
    shape_ok tbl (enc_cnt x) p = true /\ nder R x p = 1.
  Proof.
    induction p as [s|f ps IH] using prog_ind'; intros x Hx Hc.
    - rewrite CfgProofs.contains_gen_leaf in Hc. cbn [shape_ok]. rewrite (cfg_ualts x s Hx), cfg_nder_leaf.
      destruct (Cfg.rlookup s (R x)) as [[|y r]|]; try discriminate. split; reflexivity.
    - rewrite CfgProofs.contains_gen_fun in Hc. rewrite shape_ok_fun, (cfg_ualts x f Hx), cfg_nder_fun.
      destruct (Cfg.rlookup f (R x)) as [nts|] eqn:El; [|discriminate].
      assert (Hk : forall y, In y nts -> In y keys).
      { intros y Hy. apply (Hcl x Hx (f, nts)); auto.
        unfold Cfg.rlookup in El. apply (alookup_in sym_eqb sym_eqb_spec) in El. exact El. }
      cbn [length Nat.eqb negb andb forallb]. rewrite andb_true_r.
      clear El. revert nts Hc Hk. induction IH as [|a ar0 Ha _ IHl]; intros [|y r] Hc Hk; cbn in Hc; try discriminate.
      + split; reflexivity.
      + apply andb_true_iff in Hc. destruct Hc as [Hc1 Hc2].
        destruct (Ha y (Hk y (or_introl eq_refl)) Hc1) as [Hs Hn].
        destruct (IHl r Hc2 (fun z Hz => Hk z (or_intror Hz))) as [Hs' Hn'].
        cbn [map forall2b cntN]. rewrite Hs, Hn, Hs', Hn'. split; reflexivity.
  Qed.

  Theorem cfg_contains x p : In x keys -> ucontains_at tbl (enc_cnt x) p = Cfg.contains_gen R x p.
  Proof.
    intros Hx. unfold ucontains_at. rewrite cfg_member by exact Hx. destruct (Cfg.contains_gen R x p); reflexivity.
  Qed.

  Theorem cfg_one_derivation x p : In x keys -> Cfg.contains_gen R x p = true -> uderivations tbl (enc_cnt x) p = 1.
  Proof.
    intros Hx Hc. destruct (cfg_member_one p x Hx Hc) as [Hs Hn].
    rewrite uderivations_spec by exact Hs. unfold tbl.
    rewrite (uderivs_build enc_cnt R keys enc_cnt_inj cfg_closed); auto.
  Qed.
End FromCfg.

Theorem from_cfg_correct (P : Cfg.params) : CfgSpec.wf_params P = true ->
  forall p, ucontains (snd (from_CFG P)) (fst (from_CFG P)) p = Cfg.contains P p
            /\ (Cfg.contains P p = true ->
                sumnat (map (fun x => uderivations (snd (from_CFG P)) x p) (fst (from_CFG P))) = 1).
Proof.
  intros Hwf p.
  assert (Hdict : forall x, NoDup (map fst (Cfg.crules P x))).
  { intros x. apply CfgProofs.functional_NoDup_keys; [apply CfgProofs.crules_functional|].
    apply CfgProofs.NoDup_crules. apply CfgProofs.wf_params_NoDup. exact Hwf. }
  assert (Hcl : forall x, In x (Cfg.reachable P) -> forall r, In r (Cfg.crules P x) -> forall y, In y (snd r) -> In y (Cfg.reachable P)).
  { intros x Hx r Hr y Hy. apply CfgProofs.reachable_iff_reach. apply CfgProofs.reachable_iff_reach in Hx.
    eapply CfgSpec.reach_step; eauto. }
  assert (Hs : In (Cfg.start P) (Cfg.reachable P)) by (apply CfgProofs.reachable_iff_reach; constructor).
  unfold from_CFG, from_rules. cbn [fst snd ucontains existsb map sumnat]. split.
  - rewrite orb_false_r. apply (cfg_contains (Cfg.crules P) (Cfg.reachable P) Hdict Hcl); auto.
  - intros Hc. rewrite (cfg_one_derivation (Cfg.crules P) (Cfg.reachable P) Hdict Hcl); auto.
Qed.

(** * the state flattening *)
(** number of tuple levels down to the Type, along first components *)
Fixpoint dd (t : pst) : nat := match t with PTup (x :: _) => S (dd x) | _ => 0 end.

Fixpoint tfree (p : pst) : bool :=
  match p with
  | PT _ => false
  | PI _ => true
  | PTup l => forallb tfree l
  end.

Lemma extract_eq t : extract t = match t with PTup [x] => extract x | PTup l => Some (PTup l) | _ => None end.
Proof. destruct t as [| |[|x [|y r]]]; reflexivity. Qed.

Lemma extract_dd : forall t t', extract t = Some t' -> dd t' <= dd t.
Proof.
  induction t as [u|z|l IH] using pst_ind'; intros t' H; cbn in H; try discriminate.
  destruct l as [|x [|y r]].
  - inversion H. auto.
  - inversion IH as [|? ? Hx _]; subst. apply Hx in H. cbn. lia.
  - inversion H. auto.
Qed.

Lemma extract_inj : forall t1 t2 t', dd t1 = dd t2 -> extract t1 = Some t' -> extract t2 = Some t' -> t1 = t2.
Proof.
  induction t1 as [u|z|l IH] using pst_ind'; intros t2 t' Hd H1 H2; cbn in H1; try discriminate.
  destruct l as [|x [|y r]].
  - inversion H1; subst. destruct t2 as [| |[|x2 [|y2 r2]]]; cbn in H2, Hd; try discriminate; try reflexivity.
  - inversion IH as [|? ? Hx _]; subst.
    destruct t2 as [| |[|x2 [|y2 r2]]]; cbn in H2, Hd; try discriminate.
    + f_equal. f_equal. eapply Hx; eauto.
    + inversion H2; subst. apply extract_dd in H1. cbn in *. lia.
  - inversion H1; subst. destruct t2 as [| |[|x2 [|y2 r2]]]; cbn in H2, Hd; try discriminate.
    + apply extract_dd in H2. cbn in *. lia.
    + inversion H2. reflexivity.
Qed.

Lemma drill_not_tfree : forall t u, drill t = Some u -> tfree t = false.
Proof.
  induction t as [u0|z|l IH] using pst_ind'; intros u H; cbn in H; try discriminate; [reflexivity|].
  destruct l as [|x r]; [discriminate|]. inversion IH as [|? ? Hx _]; subst. cbn. rewrite (Hx u H). reflexivity.
Qed.

(** the payload of a leaf state contains no Type object *)
Definition payload_ok (q : pst) : Prop := forall u p, extract q = Some (PTup [PT u; p]) -> tfree p = true.

Theorem d2state_inj q1 q2 x : dd q1 = dd q2 -> payload_ok q1 -> payload_ok q2 ->
  d2state q1 = Some x -> d2state q2 = Some x -> q1 = q2.
Proof.
  intros Hd Hp1 Hp2 H1 H2. unfold d2state in H1, H2.
  destruct (extract q1) as [t1|] eqn:E1; [|discriminate]. destruct (extract q2) as [t2|] eqn:E2; [|discriminate].
  assert (Et : t1 = t2).
  { destruct t1 as [| |[|a1 l1]]; try discriminate. destruct t2 as [| |[|a2 l2]]; try discriminate.
    destruct a1 as [u1|z1|f1].
    - destruct l1 as [|p1 [|? ?]]; try discriminate.
      destruct a2 as [u2|z2|f2]; try discriminate.
      + destruct l2 as [|p2 [|? ?]]; try discriminate.
        assert (Hu : u1 = u2) by congruence. assert (He : enc_pst p1 = enc_pst p2) by congruence.
        apply enc_pst_inj in He. subst. reflexivity.
      + destruct (drill (PTup f2)) as [u2|] eqn:Ed; [|discriminate].
        assert (He : enc_pst p1 = enc_pst (PTup (PTup f2 :: l2))) by congruence.
        apply enc_pst_inj in He. subst p1. specialize (Hp1 _ _ E1). cbn [tfree forallb] in Hp1.
        apply andb_true_iff in Hp1. destruct Hp1 as [Hp1 _].
        change (forallb tfree f2) with (tfree (PTup f2)) in Hp1.
        rewrite (drill_not_tfree _ _ Ed) in Hp1. discriminate.
    - discriminate.
    - destruct (drill (PTup f1)) as [u1|] eqn:Ed; [|discriminate].
      destruct a2 as [u2|z2|f2]; try discriminate.
      + destruct l2 as [|p2 [|? ?]]; try discriminate.
        assert (He : enc_pst p2 = enc_pst (PTup (PTup f1 :: l1))) by congruence.
        apply enc_pst_inj in He. subst p2. specialize (Hp2 _ _ E2). cbn [tfree forallb] in Hp2.
        apply andb_true_iff in Hp2. destruct Hp2 as [Hp2 _].
        change (forallb tfree f1) with (tfree (PTup f1)) in Hp2.
        rewrite (drill_not_tfree _ _ Ed) in Hp2. discriminate.
      + destruct (drill (PTup f2)) as [u2|] eqn:Ed2; [|discriminate].
        assert (He : enc_pst (PTup (PTup f1 :: l1)) = enc_pst (PTup (PTup f2 :: l2))) by congruence.
        apply enc_pst_inj in He. exact He. }
  subst t2. eapply extract_inj; eauto.
Qed.

(** the state shapes of the pipeline: leaves (Type, payload) without Type in the
    payload; read_product pairs and minimise classes are non-empty tuples whose
    first component has the shape of the previous level *)
Inductive pshape : nat -> pst -> Prop :=
| ps_leaf u p : tfree p = true -> pshape 1 (PTup [PT u; p])
| ps_tup n x l : pshape n x -> Forall (fun y => exists m, pshape m y) l -> pshape (S n) (PTup (x :: l)).

Lemma pshape_dd n q : pshape n q -> dd q = n.
Proof. induction 1; cbn; auto. Qed.

Lemma pshape_tup n q : pshape n q -> exists l, q = PTup l.
Proof. destruct 1; eauto. Qed.

Lemma pshape_drill n q : pshape n q -> exists u, drill q = Some u.
Proof. induction 1 as [u p _|n x l _ [u Hu] _]; cbn; eauto. Qed.

Lemma pshape_payload n q : pshape n q -> payload_ok q.
Proof.
  induction 1 as [u p Hp|n x l Hx IH Hl]; intros u' p' H.
  - cbn in H. inversion H; subst. exact Hp.
  - destruct l as [|y r].
    + cbn in H. apply IH in H. exact H.
    + cbn in H. inversion H; subst. apply pshape_tup in Hx. destruct Hx as [l0 E]. discriminate.
Qed.

Lemma pshape_defined n q : pshape n q -> d2state q <> None.
Proof.
  induction 1 as [u p Hp|n x l Hx IH Hl].
  - cbn. discriminate.
  - destruct l as [|y r].
    + unfold d2state in *. cbn [extract]. exact IH.
    + destruct (pshape_tup _ _ Hx) as [l0 ->]. destruct (pshape_drill _ _ Hx) as [u Hu].
      unfold d2state. cbn [extract]. rewrite Hu. discriminate.
Qed.

Theorem d2state_injective_shapes n q1 q2 : pshape n q1 -> pshape n q2 -> d2state q1 = d2state q2 -> q1 = q2.
Proof.
  intros H1 H2 E. destruct (d2state q1) as [x|] eqn:E1; [|exfalso; eapply pshape_defined; eauto].
  eapply d2state_inj; eauto using pshape_payload.
  rewrite (pshape_dd _ _ H1), (pshape_dd _ _ H2). reflexivity.
Qed.

(** the pinned flattening merges two states of the shape that two products and
    minimisations produce *)
Module Collision.
  Definition int := TPrim 0.
  Definition lf (z : Z) : pst := PTup [PT int; PI z].
  Definition st (z : Z) : pst := PTup [PTup [PTup [PTup [lf z]; PTup [lf 5]]]; PTup [lf 7]].
  Definition q1 := st 0.
  Definition q2 := st 1.
  Lemma shape z : pshape 5 (st z).
  Proof.
    unfold st. repeat (first [apply ps_leaf; reflexivity | apply ps_tup | apply Forall_nil
                              | apply Forall_cons; [eexists|] ]).
  Qed.
  Lemma collide : d2state_pinned q1 = d2state_pinned q2 /\ d2state_pinned q1 <> None /\ q1 <> q2.
  Proof. split; [vm_compute; reflexivity|]. split; [vm_compute; discriminate|discriminate]. Qed.

  (** an automaton over these states: [a] runs to q1, [b] to q2, only q2 is
      final; the pinned conversion accepts [a] *)
  Definition a := SPrim 1 int.
  Definition b := SPrim 2 int.
  Definition aut : dfta sym pst := mkDfta [((a, []), q1); ((b, []), q2)] [q2].
  Lemma wrong_language :
    deterministic aut /\ accepts sym_eqb pst_eqb aut (tree_of (PLeaf a)) = false
    /\ match from_DFTA_pinned aut with GOk g => ucontains (snd g) (fst g) (PLeaf a) | _ => false end = true
    /\ match from_DFTA aut with GOk g => ucontains (snd g) (fst g) (PLeaf a) | _ => true end = false.
  Proof.
    split; [|split; [|split]]; try (vm_compute; reflexivity).
    unfold deterministic, aut. cbn. repeat constructor; cbn; intuition discriminate.
  Qed.
End Collision.

(** * automata over Python values *)
Section Pst.
  Variables (A : dfta sym pst) (ar : sym -> nat) (d2o : pst -> option unt).
  Hypothesis Hdet : deterministic A.
  Hypothesis Hrk : forall l args d, In ((l, args), d) (rules A) -> length args = ar l.
  Hypothesis Hinj : forall q q', In q (mentioned A) -> In q' (mentioned A) -> d2o q = d2o q' -> q = q'.

  Lemma with_defined g : from_DFTA_with d2o A = GOk g ->
    from_DFTA_gen (total d2o) A = GOk g /\ forall q, In q (mentioned A) -> d2o q = Some (total d2o q).
  Proof.
    unfold from_DFTA_with. destruct (forallb (defined d2o) (mentioned A)) eqn:E; [|discriminate].
    intros H. split; [exact H|]. intros q Hq. rewrite forallb_forall in E. specialize (E q Hq).
    unfold defined, total in *. destruct (d2o q); [reflexivity|discriminate].
  Qed.

  Lemma ng_with_defined n fuel g : from_DFTA_ngrams_with d2o n fuel A = GOk g ->
    from_DFTA_ngrams_gen (total d2o) n fuel A = GOk g /\ forall q, In q (mentioned A) -> d2o q = Some (total d2o q).
  Proof.
    unfold from_DFTA_ngrams_with. destruct (forallb (defined d2o) (mentioned A)) eqn:E; [|discriminate].
    intros H. split; [exact H|]. intros q Hq. rewrite forallb_forall in E. specialize (E q Hq).
    unfold defined, total in *. destruct (d2o q); [reflexivity|discriminate].
  Qed.

  Lemma total_inj : (forall q, In q (mentioned A) -> d2o q = Some (total d2o q)) ->
    forall q q', In q (mentioned A) -> In q' (mentioned A) -> total d2o q = total d2o q' -> q = q'.
  Proof. intros Hdef q q' H1 H2 E. apply Hinj; auto. rewrite (Hdef q H1), (Hdef q' H2), E. reflexivity. Qed.
End Pst.
