(** Model of synth/syntax/grammars/u_cfg.py: the conversions into an
    unambiguous grammar (UCFG.from_DFTA, UCFG.from_DFTA_with_ngrams,
    UCFG.from_CFG), the state flattening __d2state__ / __extract__, UCFG.clean
    and UCFG.programs.  Membership, derivations and counting of the resulting
    grammar are the functions of Gram/U.v (ucontains, uderivations, ucount).

    Automaton states are Python values built from Type objects, integers and
    tuples ([pst]).  A dict (dfta.rules, new_rules[tgt]) is an association list
    in insertion order; a set (finals, starts, reached, done) is a list read
    through membership only - the iteration order of a set never reaches an
    observable of the model.

    Two versions of __d2state__ are kept:
    - [d2state_pinned]: the code as it is.  For a tuple whose first element is a
      tuple it keeps, of every component, only element [1] of the unwrapped
      component: a pair of classes (A, B) loses all of A but its second member,
      a class of pairs loses the first component of every pair.  Distinct
      states of a sharpened automaton are merged (C06_d2state_collision_refuted).
    - [d2state]: the repaired behaviour (proposed_fixes/C06-1): the payload of a
      nested state is the whole unwrapped state.
    Outside the modelled domain (result [None]): states on which the code raises
    (len() of a non-tuple, index errors) and states whose leaves are not
    (Type, payload) pairs. *)
From Coq Require Import ZArith NArith List Bool Arith.
From PS Require Import Base.ListX Base.Sexp Base.Ty Base.Value Base.Prog Gram.Det Gram.U Auto.Dfta.
From PS Require Gram.Cfg.
Import ListNotations.

(** * Python values inside automaton states *)
Inductive pst : Type :=
| PT (t : ty)            (* a Type object *)
| PI (z : Z)             (* an int (any non-tuple payload atom, interned) *)
| PTup (l : list pst).   (* a tuple *)

Fixpoint pst_eqb (a b : pst) : bool :=
  match a, b with
  | PT t, PT u => ty_eqb t u
  | PI x, PI y => Z.eqb x y
  | PTup l, PTup l' => list_eqb pst_eqb l l'
  | _, _ => false
  end.

(** the U component of a non-terminal is an opaque [sexp] in Gram/U.v *)
Fixpoint enc_pst (p : pst) : sexp :=
  match p with
  | PT t => L [A 0%Z; sexp_of_ty t]
  | PI z => A z
  | PTup l => L (A 1%Z :: map enc_pst l)
  end.

(** __extract__ (lines 30-33): [while len(t) == 1 and isinstance(t, tuple): t = t[0]];
    len() of a Type or an int raises. *)
Fixpoint extract (t : pst) : option pst :=
  match t with
  | PTup [x] => extract x
  | PTup l => Some (PTup l)
  | _ => None
  end.

(** [while isinstance(our_type, tuple): our_type = our_type[0]]; the result must
    be a Type. *)
Fixpoint drill (t : pst) : option ty :=
  match t with
  | PT u => Some u
  | PI _ => None
  | PTup [] => None
  | PTup (x :: _) => drill x
  end.

Definition second (t : pst) : option pst :=
  match t with PTup (_ :: y :: _) => Some y | _ => None end.

(** __d2state__ as pinned (lines 36-48). *)
Definition d2state_pinned (t : pst) : option unt :=
  match extract t with
  | Some (PTup (PTup f :: r)) =>
    match drill (PTup f),
          omap (fun tt => match extract tt with Some e => second e | None => None end) (PTup f :: r) with
    | Some u, Some rest => Some (u, enc_pst (PTup rest))
    | _, _ => None
    end
  | Some (PTup [PT u; p]) => Some (u, enc_pst p)
  | _ => None
  end.

(** __d2state__ repaired: nothing of a nested state is dropped. *)
Definition d2state (t : pst) : option unt :=
  match extract t with
  | Some (PTup (PTup f :: r)) =>
    match drill (PTup f) with
    | Some u => Some (u, enc_pst (PTup (PTup f :: r)))
    | None => None
    end
  | Some (PTup [PT u; p]) => Some (u, enc_pst p)
  | _ => None
  end.

(** * Small list tools *)
(** first occurrences, in order (keys of a dict / a defaultdict filled by appends) *)
Fixpoint nub {X} (eqb : X -> X -> bool) (l : list X) : list X :=
  match l with
  | [] => []
  | x :: r => x :: filter (fun y => negb (eqb y x)) (nub eqb r)
  end.

(** closure of a set under [step], round by round; [None] = out of fuel *)
Section Closure.
  Context {X : Type} (eqb : X -> X -> bool) (step : X -> list X).
  Definition fresh (R cand : list X) : list X :=
    nub eqb (filter (fun y => negb (memb eqb y R)) cand).
  Fixpoint closure (fuel : nat) (R : list X) : option (list X) :=
    match fuel with
    | O => None
    | S f =>
      match fresh R (flat_map step R) with
      | [] => Some R
      | new => closure f (R ++ new)
      end
    end.
End Closure.

Inductive gres (X : Type) : Type :=
| GOk (x : X)
| GFuel            (* the model ran out of fuel *)
| GErr.            (* the code raises *)
Arguments GOk {X} x.
Arguments GFuel {X}.
Arguments GErr {X}.

(** a grammar: start symbols and rule table *)
Definition ugram : Type := list unt * utable.

(** * Reading a rule table off "contributions"

    [contribN nu] lists, in insertion order, the pairs (letter, argument
    non-terminals) appended to new_rules[nu]; [build] groups them by letter
    (new_rules[tgt][P].append(..)) for every key.  Non-terminals have a typed
    representation [N] and are stored through an encoding into (type, sexp). *)
Section Build.
  Context {N : Type} (encN : N -> unt) (contribN : N -> list (sym * list N)).
  Definition alts_for (nu : N) (f : sym) : list (list N) :=
    map snd (filter (fun c : sym * list N => sym_eqb (fst c) f) (contribN nu)).
  Definition rules_for (nu : N) : list urule :=
    map (fun f => (f, map (map encN) (alts_for nu f))) (nub sym_eqb (map fst (contribN nu))).
  Definition build (keys : list N) : utable := map (fun nu => (encN nu, rules_for nu)) keys.
  Definition succs (nu : N) : list N := flat_map snd (contribN nu).
End Build.

(** * from_DFTA (lines 279-313) *)
(** a rule of the automaton over flattened states *)
Definition rrule : Type := (sym * list unt) * unt.

(** the alternatives that the loop over dfta.rules appends to new_rules[x] *)
Definition contrib (rs : list rrule) (x : unt) : list (sym * list unt) :=
  map (fun r : rrule => (fst (fst r), snd (fst r))) (filter (fun r : rrule => unt_eqb (snd r) x) rs).

Definition universe (rs : list rrule) (fin : list unt) : list unt :=
  nub unt_eqb (fin ++ map snd rs ++ flat_map (fun r : rrule => snd (fst r)) rs).

(** starts = set of flattened finals; the work-list creates new_rules[tgt] for
    every non-terminal reachable backwards from the starts. *)
Definition from_raw (rs : list rrule) (fin : list unt) : gres ugram :=
  match nub unt_eqb fin with
  | [] => GErr                                     (* list(starts)[0] *)
  | starts =>
    match closure unt_eqb (succs (contrib rs)) (S (length (universe rs fin))) starts with
    | Some keys => GOk (starts, build (fun x => x) (contrib rs) keys)
    | None => GFuel
    end
  end.

Definition mentioned {L Q : Type} (A : dfta L Q) : list Q :=
  finals A ++ map snd (rules A) ++ flat_map (fun r : (L * list Q) * Q => snd (fst r)) (rules A).

Definition raw_rules {Q : Type} (d2 : Q -> unt) (A : dfta sym Q) : list rrule :=
  map (fun r : (sym * list Q) * Q => ((fst (fst r), map d2 (snd (fst r))), d2 (snd r))) (rules A).

Definition from_DFTA_gen {Q : Type} (d2 : Q -> unt) (A : dfta sym Q) : gres ugram :=
  from_raw (raw_rules d2 A) (map d2 (finals A)).

Definition dflt : unt := (TUnknown, L []).
Definition total (d2o : pst -> option unt) (q : pst) : unt :=
  match d2o q with Some x => x | None => dflt end.
Definition defined (d2o : pst -> option unt) (q : pst) : bool :=
  match d2o q with Some _ => true | None => false end.

Definition from_DFTA_with (d2o : pst -> option unt) (A : dfta sym pst) : gres ugram :=
  if forallb (defined d2o) (mentioned A) then from_DFTA_gen (total d2o) A else GErr.

Definition from_DFTA : dfta sym pst -> gres ugram := from_DFTA_with d2state.
Definition from_DFTA_pinned : dfta sym pst -> gres ugram := from_DFTA_with d2state_pinned.

(** * from_DFTA_with_ngrams (lines 315-365) *)
Definition ctx : Type := list (sym * nat).          (* NGram.predecessors, newest first *)
Definition nnt : Type := ctx * unt.                  (* (type, (NGram, U)) *)
Definition enc_ctx (g : ctx) : sexp :=
  L (map (fun e : sym * nat => L [sexp_of_sym (fst e); ofNat (snd e)]) g).
Definition enc_nnt (nu : nnt) : unt := (fst (snd nu), L [enc_ctx (fst nu); snd (snd nu)]).
Definition nnt_eqb (a b : nnt) : bool :=
  list_eqb Cfg.pred_eqb (fst a) (fst b) && unt_eqb (snd a) (snd b).

(** local_d2state(arg, last.successor((P, i))) for i, arg in enumerate(args) *)
Definition decorate (n : nat) (g : ctx) (f : sym) (alt : list unt) : list nnt :=
  map (fun ia : nat * unt => (Cfg.ctx_succ n g (f, fst ia), snd ia)) (Cfg.enumerate alt).

Definition contrib_ng (n : nat) (rs : list rrule) (nu : nnt) : list (sym * list nnt) :=
  map (fun c : sym * list unt => (fst c, decorate n (fst nu) (fst c) (snd c))) (contrib rs (snd nu)).

Definition from_raw_ngrams (n fuel : nat) (rs : list rrule) (fin : list unt) : gres ugram :=
  match nub unt_eqb fin with
  | [] => GErr
  | starts0 =>
    let starts := map (fun x : unt => (([] : ctx), x)) starts0 in
    match closure nnt_eqb (succs (contrib_ng n rs)) fuel starts with
    | Some keys => GOk (map enc_nnt starts, build enc_nnt (contrib_ng n rs) keys)
    | None => GFuel
    end
  end.

Definition from_DFTA_ngrams_gen {Q : Type} (d2 : Q -> unt) (n fuel : nat) (A : dfta sym Q) : gres ugram :=
  from_raw_ngrams n fuel (raw_rules d2 A) (map d2 (finals A)).

Definition from_DFTA_ngrams_with (d2o : pst -> option unt) (n fuel : nat) (A : dfta sym pst) : gres ugram :=
  if forallb (defined d2o) (mentioned A) then from_DFTA_ngrams_gen (total d2o) n fuel A else GErr.

(** the number of rounds is at most the depth of the automaton + 1 when it is
    acyclic; this fuel is enough then (C06_ngrams_total) *)
Definition ngram_fuel {L Q : Type} (A : dfta L Q) : nat := S (S (length (rules A))).
Definition from_DFTA_ngrams (n : nat) (A : dfta sym pst) : gres ugram :=
  from_DFTA_ngrams_with d2state n (ngram_fuel A) A.
Definition from_DFTA_ngrams_pinned (n : nat) (A : dfta sym pst) : gres ugram :=
  from_DFTA_ngrams_with d2state_pinned n (ngram_fuel A) A.

(** * from_CFG (lines 247-262)

    The CFG is given by its rule function and the list of its non-terminals
    (Gram/Cfg.v: [crules P], [reachable P]); nS = (S[0], S[1][0]) keeps the type
    and the (n-gram, depth) state; every rule becomes one alternative. *)
Definition enc_cnt (x : Cfg.cnt) : unt :=
  (Cfg.nt_type x, L [enc_ctx (Cfg.nt_ctx x); ofNat (Cfg.nt_depth x)]).

Definition from_rules (R : Cfg.cnt -> list Cfg.rule) (keys : list Cfg.cnt) (start : Cfg.cnt) : ugram :=
  ([enc_cnt start], build enc_cnt R keys).

Definition from_CFG (P : Cfg.params) : ugram :=
  from_rules (Cfg.crules P) (Cfg.reachable P) (Cfg.start P).

(** * UCFG.clean (lines 75-122) *)
Definition cstate : Type := list unt * upos.         (* (tuple(info), next_S) *)
Definition upos_eqb (a b : upos) : bool :=
  match a, b with
  | UAt x, UAt y => unt_eqb x y
  | UEnd, UEnd => true
  | _, _ => false
  end.
Definition cstate_eqb (a b : cstate) : bool :=
  list_eqb unt_eqb (fst a) (fst b) && upos_eqb (snd a) (snd b).

(** every derive(info, S, P) for P in self.rules[S]; None = KeyError *)
Definition derive_all1 (tbl : utable) (info : list unt) (x : unt) : option (list cstate) :=
  match urules_of tbl x with
  | None => None
  | Some rs => Some (flat_map (fun r : urule => map (uderive1 info) (snd r)) rs)
  end.

Definition add_new (acc : list cstate * list cstate) (c : cstate) : list cstate * list cstate :=
  if memb cstate_eqb c (fst acc) then acc else (c :: fst acc, c :: snd acc).

Definition todo_of (c : cstate) : list (unt * list unt) :=
  match snd c with UAt y => [(y, fst c)] | UEnd => [] end.

(** the [while to_test] loop; [done] is the set of the code *)
Fixpoint clean_loop (fuel : nat) (tbl : utable) (todo : list (unt * list unt)) (done : list cstate)
  : gres (list cstate) :=
  match todo with
  | [] => GOk done
  | (x, info) :: rest =>
    match fuel with
    | O => GFuel
    | S f =>
      match derive_all1 tbl info x with
      | None => GErr
      | Some succ =>
        let acc := fold_left add_new succ (done, []) in
        clean_loop f tbl (flat_map todo_of (snd acc) ++ rest) (fst acc)
      end
    end
  end.

Definition reached_in (starts : list unt) (done : list cstate) (x : unt) : bool :=
  memb unt_eqb x starts
  || existsb (fun c : cstate => match snd c with UAt y => unt_eqb y x | UEnd => false end) done.

(** has_one: some derive(start_information(), S, P) is in [done] or is the end marker *)
Definition has_one (tbl : utable) (done : list cstate) (x : unt) : bool :=
  match urules_of tbl x with
  | None => false
  | Some rs =>
    existsb (fun r : urule =>
               existsb (fun alt : ualt =>
                          let c := uderive1 [] alt in
                          memb cstate_eqb c done || upos_eqb (snd c) UEnd) (snd r)) rs
  end.

Definition clean (fuel : nat) (g : ugram) : gres ugram :=
  match clean_loop fuel (snd g) (map (fun x => (x, [])) (fst g)) (map (fun x => ([], UAt x)) (fst g)) with
  | GOk done =>
    let tbl' := filter (fun e : unt * list urule => reached_in (fst g) done (fst e)) (snd g) in
    GOk (filter (has_one tbl' done) (fst g), tbl')
  | GFuel => GFuel
  | GErr => GErr
  end.

(** * UCFG.programs (lines 173-196): memoised product/sum = U.ucount; the
    recursion depth of an acyclic grammar is below its number of non-terminals. *)
Definition programs (g : ugram) : N := ucount (S (length (snd g))) (snd g) (fst g).

(** * programs as trees for the automaton *)
Fixpoint tree_of (p : prog) : tree sym :=
  match p with
  | PLeaf s => Node s []
  | PFun f ps => Node f (map tree_of ps)
  end.

(** every node has as many arguments as its letter's arity *)
Fixpoint well_ranked (ar : sym -> nat) (p : prog) : bool :=
  match p with
  | PLeaf s => Nat.eqb (ar s) 0
  | PFun f ps => Nat.eqb (length ps) (ar f) && forallb (well_ranked ar) ps
  end.

(** * Specification side: number of derivations, by structural recursion,
    in the grammar given by [contribN] (no table, no stack) *)
Definition cntN {N : Type} (D : N -> prog -> nat) : list prog -> list N -> nat :=
  fix go (ps : list prog) (alt : list N) {struct ps} : nat :=
    match ps, alt with
    | [], _ => 1
    | _ :: _, [] => 0
    | a :: ar, x :: r => D x a * go ar r
    end.

Fixpoint nder {N : Type} (contribN : N -> list (sym * list N)) (nu : N) (p : prog) {struct p} : nat :=
  match p with
  | PLeaf s => sumnat (map (fun c : sym * list N => if sym_eqb (fst c) s then 1 else 0) (contribN nu))
  | PFun f ps =>
    sumnat (map (fun c : sym * list N =>
                   if sym_eqb (fst c) f then cntN (fun nu' a => nder contribN nu' a) ps (snd c) else 0)
                (contribN nu))
  end.
