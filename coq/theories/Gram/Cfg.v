(** Model of CFG.depth_constraint + clean + membership + programs()
    (synth/syntax/grammars/cfg.py, det_grammar.py, ttcfg.py) for a non-negative
    depth bound.  The grammar is represented by the function giving the rules
    of a non-terminal; the work-list order of the code is irrelevant to the
    result and is not modelled (the correspondence check compares the rule
    sets). *)
From Coq Require Import ZArith NArith List Bool Lia Arith.
From PS Require Import Base.ListX Base.Sexp Base.Ty Base.Value Base.Prog.
Import ListNotations.

Record params : Type := {
  dsl : list (N * ty);                       (* primitives: name, type *)
  forbidden : list ((N * nat) * list N);     (* (parent name, argument index) -> forbidden child names *)
  request : ty;
  max_depth : nat;
  min_var : nat;
  n_gram : nat;
  const_types : list ty;
}.

Definition ctx := list (sym * nat).          (* n-gram predecessors, newest first *)
Definition cnt : Type := ty * ctx * nat.     (* non-terminal: type, predecessors, depth *)

Definition nt_type (x : cnt) : ty := fst (fst x).
Definition nt_ctx (x : cnt) : ctx := snd (fst x).
Definition nt_depth (x : cnt) : nat := snd x.

Definition pred_eqb (a b : sym * nat) : bool := sym_eqb (fst a) (fst b) && Nat.eqb (snd a) (snd b).
Definition cnt_eqb (a b : cnt) : bool :=
  ty_eqb (nt_type a) (nt_type b) && list_eqb pred_eqb (nt_ctx a) (nt_ctx b) && Nat.eqb (nt_depth a) (nt_depth b).

(** NGram.successor *)
Definition ctx_succ (n : nat) (g : ctx) (x : sym * nat) : ctx :=
  let l := x :: g in
  if Nat.ltb n (length l + 1) then removelast l else l.

Definition key_eqb (a b : N * nat) : bool := N.eqb (fst a) (fst b) && Nat.eqb (snd a) (snd b).

(** forbidden child names under context g: only a primitive parent forbids *)
Definition forb (P : params) (g : ctx) : list N :=
  match g with
  | (SPrim n _, i) :: _ =>
    match alookup key_eqb (n, i) (forbidden P) with Some l => l | None => [] end
  | _ => []
  end.

Definition is_forbidden (P : params) (g : ctx) (n : N) : bool := memb N.eqb n (forb P g).

Fixpoint enumerate_from {X} (i : nat) (l : list X) : list (nat * X) :=
  match l with [] => [] | x :: r => (i, x) :: enumerate_from (S i) r end.
Definition enumerate {X} (l : list X) : list (nat * X) := enumerate_from 0 l.

Definition rule : Type := sym * list cnt.

Definition decorate (P : params) (g : ctx) (d : nat) (s : sym) (args : list ty) : list cnt :=
  map (fun ia => (snd ia, ctx_succ (n_gram P) g (s, fst ia), S d)) (enumerate args).

(** The rules the builder attaches to a non-terminal (before cleaning). *)
Definition rules_at (P : params) (x : cnt) : list rule :=
  let '(t, g, d) := x in
  let vars := enumerate (arguments (request P)) in
  if Nat.ltb d (max_depth P) then
    (* leaves *)
    (if Nat.leb (min_var P) d then
       flat_map (fun ia => if ty_eqb t (snd ia) then [(SVar (fst ia) t, [])] else []) vars
       ++ (if memb ty_eqb t (const_types P) then [(SConst t None, [])] else [])
     else [])
    ++ flat_map (fun nt => if ty_eqb (snd nt) t && negb (is_forbidden P g (fst nt))
                           then [(SPrim (fst nt) (snd nt), [])] else []) (dsl P)
    (* function calls *)
    ++ (if Nat.ltb (S d) (max_depth P) then
          flat_map (fun nt =>
                      if is_forbidden P g (fst nt) then []
                      else match ends_with (snd nt) t with
                           | Some (a :: r) =>
                             [(SPrim (fst nt) (snd nt), decorate P g d (SPrim (fst nt) (snd nt)) (a :: r))]
                           | _ => []
                           end) (dsl P)
          ++ (if Nat.leb (min_var P) d then
                flat_map (fun ia =>
                            match ends_with (snd ia) t with
                            | Some (a :: r) =>
                              [(SVar (fst ia) (snd ia), decorate P g d (SVar (fst ia) (snd ia)) (a :: r))]
                            | _ => []
                            end) vars
              else [])
        else [])
  else [].

(** A non-terminal is productive if some rule has only productive arguments. *)
Fixpoint productive (fuel : nat) (P : params) (x : cnt) : bool :=
  match fuel with
  | O => false
  | S f => existsb (fun r : rule => forallb (productive f P) (snd r)) (rules_at P x)
  end.

Definition fuel_of (P : params) : nat := S (max_depth P).

(** Rules of the cleaned grammar at a (reachable) non-terminal. *)
Definition crules (P : params) (x : cnt) : list rule :=
  filter (fun r : rule => forallb (productive (fuel_of P) P) (snd r)) (rules_at P x).

Definition rlookup (s : sym) (l : list rule) : option (list cnt) := alookup sym_eqb s l.

Definition start (P : params) : cnt := (returns (request P), [], 0).

(** Membership: DetGrammar.__contains_rec__ specialised to CFGs (the state
    carried besides the stack is always None, so the traversal is the
    structural one), with the arity test.  Generic in the rule function so
    that the raw and the cleaned grammar share the definition. *)
Fixpoint contains_gen (R : cnt -> list rule) (x : cnt) (p : prog) : bool :=
  match p with
  | PLeaf s => match rlookup s (R x) with Some [] => true | _ => false end
  | PFun f args =>
    match rlookup f (R x) with
    | Some nts =>
      (fix go (nts : list cnt) (args : list prog) {struct args} : bool :=
         match nts, args with
         | [], [] => true
         | n :: nr, a :: ar => contains_gen R n a && go nr ar
         | _, _ => false
         end) nts args
    | None => false
    end
  end.

Definition contains_at (P : params) : cnt -> prog -> bool := contains_gen (crules P).

Definition contains (P : params) (p : prog) : bool := contains_at P (start P) p.

(** programs(): product over arguments, sum over rules. *)
Fixpoint count_at (fuel : nat) (P : params) (x : cnt) : N :=
  match fuel with
  | O => 0%N
  | S f => fold_right (fun (r : rule) acc =>
                         (fold_right (fun a m => (count_at f P a * m)%N) 1%N (snd r) + acc)%N)
                      0%N (crules P x)
  end.
Definition programs (P : params) : N := count_at (fuel_of P) P (start P).

(** The language as a list (used by theorems and by small cases only). *)
Fixpoint list_prod {X} (ls : list (list X)) : list (list X) :=
  match ls with
  | [] => [[]]
  | l :: r => flat_map (fun x => map (cons x) (list_prod r)) l
  end.

Fixpoint lang_at (fuel : nat) (P : params) (x : cnt) : list prog :=
  match fuel with
  | O => []
  | S f => flat_map (fun r : rule =>
                       match snd r with
                       | [] => [PLeaf (fst r)]
                       | nts => map (PFun (fst r)) (list_prod (map (lang_at f P) nts))
                       end) (crules P x)
  end.
Definition lang (P : params) : list prog := lang_at (fuel_of P) P (start P).

(** Reachable non-terminals of the cleaned grammar, level by level. *)
Fixpoint dedup {X} (eqb : X -> X -> bool) (l : list X) : list X :=
  match l with
  | [] => []
  | x :: r => if memb eqb x r then dedup eqb r else x :: dedup eqb r
  end.

Fixpoint levels (k : nat) (P : params) (cur : list cnt) : list cnt :=
  match k with
  | O => []
  | S k' => cur ++ levels k' P (dedup cnt_eqb (flat_map (fun x => flat_map snd (crules P x)) cur))
  end.
Definition reachable (P : params) : list cnt := levels (fuel_of P) P [start P].

(** (type, depth, symbol) of every rule of the cleaned grammar. *)
Definition rule_triples (P : params) : list (ty * nat * sym) :=
  flat_map (fun x => map (fun r : rule => (nt_type x, nt_depth x, fst r)) (crules P x)) (reachable P).
