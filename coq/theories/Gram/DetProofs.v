(** Proofs about Gram/Det.v: the stack-threaded traversal is the structural
    derivation, languages are duplicate-free and complete, probabilities are
    products of rule weights and sum to one over the language. *)
From Coq Require Import ZArith NArith QArith List Bool Lia Setoid Permutation Lqa Morphisms.
From PS Require Import Base.ListX Base.Sexp Base.Ty Base.Value Base.Prog Gram.Det.
Import ListNotations.
Local Open Scope nat_scope.

(** * Keys *)
Lemma nt_eqb_spec : forall a b, nt_eqb a b = true <-> a = b.
Proof.
  intros [[t s] y] [[t' s'] y']; unfold nt_eqb; cbn.
  rewrite !andb_true_iff, ty_eqb_spec, !sexp_eqb_spec.
  split; [intros [[-> ->] ->]; reflexivity | intros E; inversion E; auto].
Qed.

Lemma alookup_In {K V} (eqb : K -> K -> bool) (spec : forall a b, eqb a b = true <-> a = b)
      k (l : list (K * V)) v : alookup eqb k l = Some v -> In (k, v) l.
Proof.
  induction l as [|[k' v'] r IH]; cbn; [discriminate|].
  destruct (eqb k k') eqn:E.
  - apply spec in E; subst. intros H; inversion H; auto.
  - auto.
Qed.

Lemma In_alookup {K V} (eqb : K -> K -> bool) (spec : forall a b, eqb a b = true <-> a = b)
      k (l : list (K * V)) v : NoDup (map fst l) -> In (k, v) l -> alookup eqb k l = Some v.
Proof.
  induction l as [|[k' v'] r IH]; cbn; [tauto|].
  intros Hn [H|H]; inversion Hn as [|? ? Hnot Hr]; subst.
  - inversion H; subst. rewrite (proj2 (spec k k) eq_refl); reflexivity.
  - destruct (eqb k k') eqn:E.
    + apply spec in E; subst. exfalso; apply Hnot. change k' with (fst (k', v)). apply in_map; auto.
    + auto.
Qed.

Lemma alookup_None_notin {K V} (eqb : K -> K -> bool) (spec : forall a b, eqb a b = true <-> a = b)
      k (l : list (K * V)) : alookup eqb k l = None -> ~ In k (map fst l).
Proof.
  induction l as [|[k' v'] r IH]; cbn; [tauto|].
  destruct (eqb k k') eqn:E; [discriminate|].
  intros H [H'|H']; [subst; rewrite (proj2 (spec k k) eq_refl) in E; discriminate | apply IH; auto].
Qed.

Lemma rules_of_In tbl x rs : rules_of tbl x = Some rs -> In (x, rs) tbl.
Proof. apply alookup_In, nt_eqb_spec. Qed.

Lemma table_ok_rules tbl x rs : table_ok tbl = true -> rules_of tbl x = Some rs -> NoDup (map fst rs).
Proof.
  intros Hok H. apply rules_of_In in H. unfold table_ok in Hok. rewrite forallb_forall in Hok.
  apply Hok in H. cbn in H. apply (nodupb_spec sym_eqb sym_eqb_spec); auto.
Qed.

Lemma rule_of_In tbl x s r : rule_of tbl x s = Some r -> exists rs, rules_of tbl x = Some rs /\ In (s, r) rs.
Proof.
  unfold rule_of. destruct (rules_of tbl x) as [rs|]; [|discriminate].
  intros H; exists rs; split; auto. eapply alookup_In; eauto using sym_eqb_spec.
Qed.

Lemma In_rule_of tbl x s r rs : table_ok tbl = true -> rules_of tbl x = Some rs -> In (s, r) rs -> rule_of tbl x s = Some r.
Proof.
  intros Hok Hrs Hin. unfold rule_of; rewrite Hrs. apply In_alookup; auto using sym_eqb_spec.
  eapply table_ok_rules; eauto.
Qed.

(** * Unfolding of the nested fixpoints of Det.v into top-level combinators *)
Definition thread {X} (step : prog -> X -> option X) : list prog -> X -> option X :=
  fix go (args : list prog) (st : X) {struct args} : option X :=
    match args with
    | [] => Some st
    | a :: ar => match step a st with Some st' => go ar st' | None => None end
    end.

Lemma contains_rec_fun tbl f args x info :
  contains_rec tbl (PFun f args) (At x) info =
  match rule_of tbl x f with
  | Some r => if Nat.eqb (length (fst r)) (length args)
              then thread (fun a st => contains_rec tbl a (snd st) (fst st)) args (derive info r)
              else None
  | None => None
  end.
Proof. reflexivity. Qed.

Lemma contains_rec_leaf tbl s x info :
  contains_rec tbl (PLeaf s) (At x) info =
  match rule_of tbl x s with
  | Some r => if Nat.eqb (length (fst r)) 0 then Some (derive info r) else None
  | None => None
  end.
Proof. reflexivity. Qed.

Definition seqs_with (L : nt -> list (prog * state)) : list argnt -> state -> list (list prog * state) :=
  fix seqs (args : list argnt) (y : state) {struct args} : list (list prog * state) :=
    match args with
    | [] => [([], y)]
    | (t, sa) :: ar =>
      flat_map (fun py => map (fun ly => (fst py :: fst ly, snd ly)) (seqs ar (snd py))) (L (t, sa, y))
    end.

Definition rule_lang (L : nt -> list (prog * state)) (r : drule) : list (prog * state) :=
  let '(s, (args, y)) := r in
  match args with
  | [] => [(PLeaf s, y)]
  | _ => map (fun ay => (PFun s (fst ay), snd ay)) (seqs_with L args y)
  end.

Lemma lang_at_S f tbl x :
  lang_at (S f) tbl x = match rules_of tbl x with None => [] | Some rs => flat_map (rule_lang (lang_at f tbl)) rs end.
Proof. reflexivity. Qed.

Definition wf_seq_with (W : nt -> bool) (O : nt -> list state) : list argnt -> state -> bool :=
  fix wf_seq (args : list argnt) (y : state) {struct args} : bool :=
    match args with
    | [] => true
    | (t, sa) :: ar => W (t, sa, y) && forallb (fun y' => wf_seq ar y') (O (t, sa, y))
    end.

Lemma wf_at_S f tbl w x :
  wf_at (S f) tbl w x =
  match rules_of tbl x with
  | None => false
  | Some rs => weights_ok tbl w x rs &&
               forallb (fun r : drule => wf_seq_with (wf_at f tbl w) (outs_at f tbl) (fst (snd r)) (snd (snd r))) rs
  end.
Proof.
  cbn [wf_at]. destruct (rules_of tbl x) as [rs|]; [|reflexivity].
  f_equal. induction rs as [|[s [args y]] rs IH]; [reflexivity|]. cbn [forallb]. rewrite IH. reflexivity.
Qed.

(** * (A) The stack-threaded traversal is the structural derivation *)
Definition next (info : list argnt) (y : state) : list argnt * pos :=
  match info with
  | [] => ([], End)
  | (t, s) :: rest => (rest, At (t, s, y))
  end.

Lemma derive_next info (r : rhs) : derive info r = next (fst r ++ info) (snd r).
Proof. unfold derive, next. destruct (fst r ++ info) as [|[t s] rest]; reflexivity. Qed.

Lemma der_out_fun tbl x f ps :
  der_out tbl x (PFun f ps) =
  match rule_of tbl x f with
  | Some r => if Nat.eqb (length (fst r)) (length ps) then thread_out (der_out tbl) ps (fst r) (snd r) else None
  | None => None
  end.
Proof. reflexivity. Qed.

Lemma thread_contains tbl ps :
  Forall (fun p => forall x info, contains_rec tbl p (At x) info = option_map (next info) (der_out tbl x p)) ps ->
  forall ants y info, length ants = length ps ->
    thread (fun a st => contains_rec tbl a (snd st) (fst st)) ps (next (ants ++ info) y)
    = option_map (next info) (thread_out (der_out tbl) ps ants y).
Proof.
  induction 1 as [|a ar Ha _ IH]; intros [|[t s] antr] y info Hl; cbn in Hl; try discriminate.
  - reflexivity.
  - cbn [thread thread_out app next fst snd]. rewrite Ha.
    destruct (der_out tbl (t, s, y) a) as [y'|]; cbn [option_map]; [|reflexivity].
    apply IH. lia.
Qed.

Theorem contains_rec_der_out tbl p : forall x info,
  contains_rec tbl p (At x) info = option_map (next info) (der_out tbl x p).
Proof.
  induction p as [s|f ps IH] using prog_ind'; intros x info.
  - rewrite contains_rec_leaf. cbn [der_out]. destruct (rule_of tbl x s) as [r|]; [|reflexivity].
    destruct (Nat.eqb (length (fst r)) 0) eqn:E; [|reflexivity].
    apply Nat.eqb_eq in E. rewrite derive_next. destruct (fst r); [reflexivity|discriminate].
  - rewrite contains_rec_fun, der_out_fun. destruct (rule_of tbl x f) as [r|]; [|reflexivity].
    destruct (Nat.eqb (length (fst r)) (length ps)) eqn:E; [|reflexivity].
    apply Nat.eqb_eq in E. rewrite derive_next. apply thread_contains; auto.
Qed.

Corollary contains_der_out tbl x p :
  contains tbl x p = match der_out tbl x p with Some _ => true | None => false end.
Proof.
  unfold contains. rewrite contains_rec_der_out. destruct (der_out tbl x p); reflexivity.
Qed.

(** * (B) The enumerated language is exactly the set of derivable programs *)
Lemma pdepth_pos p : 1 <= pdepth p.
Proof. destruct p; cbn; lia. Qed.

Lemma fold_max_le l f :
  fold_right (fun a acc => Nat.max (pdepth a) acc) 1 l <= f <-> 1 <= f /\ Forall (fun a => pdepth a <= f) l.
Proof.
  induction l as [|a r IH]; cbn.
  - split; [intros; split; auto|tauto].
  - rewrite Nat.max_lub_iff, IH. split.
    + intros [Ha [H1 Hr]]; split; auto.
    + intros [H1 H]; inversion H; subst; auto.
Qed.

Lemma thread_out_length D ps : forall ants y y', thread_out D ps ants y = Some y' -> length ants = length ps.
Proof.
  induction ps as [|a ar IH]; intros [|[t s] antr] y y'; cbn; try discriminate; auto.
  destruct (D (t, s, y) a) as [y1|]; [|discriminate]. intros H; apply IH in H; lia.
Qed.

Definition good (f : nat) (a : prog) : Prop := pdepth a <= f /\ normal a = true.

Lemma seqs_spec tbl f L :
  (forall x p y, In (p, y) (L x) <-> der_out tbl x p = Some y /\ good f p) ->
  forall ants l y y',
    In (l, y') (seqs_with L ants y) <-> thread_out (der_out tbl) l ants y = Some y' /\ Forall (good f) l.
Proof.
  intros HL. induction ants as [|[t sa] ar IH]; intros l y y'.
  - cbn. split.
    + intros [E|[]]; inversion E; subst. cbn; auto.
    + intros [H _]. destruct l; cbn in H; [inversion H; auto|discriminate].
  - cbn [seqs_with]. rewrite in_flat_map. split.
    + intros [[a ya] [Ha Hm]]. apply in_map_iff in Hm. destruct Hm as [[l' y2] [E Hl']]. cbn in E. inversion E; subst.
      apply HL in Ha. destruct Ha as [Hd Hg]. apply IH in Hl'. destruct Hl' as [Ht Hf].
      cbn [thread_out]. cbn in Hd. rewrite Hd. split; auto.
    + intros [Ht Hf]. destruct l as [|a l']; cbn in Ht; [discriminate|].
      destruct (der_out tbl (t, sa, y) a) as [ya|] eqn:Hd; [|discriminate].
      inversion Hf; subst. exists (a, ya). split.
      * apply HL; auto.
      * apply in_map_iff. exists (l', y'). split; auto. apply IH; auto.
Qed.

Lemma good_fun f g l : l <> [] -> (good (S f) (PFun g l) <-> Forall (good f) l).
Proof.
  intros Hne. unfold good. cbn [pdepth normal]. rewrite andb_true_iff, negb_true_iff, forallb_forall, <- Forall_forall.
  split.
  - intros [Hd [_ Hn]]. assert (H : fold_right (fun a acc => Nat.max (pdepth a) acc) 1 l <= f) by lia.
    apply fold_max_le in H. destruct H as [_ H]. rewrite Forall_forall in *. intros a Ha; split; auto.
  - intros H. assert (Hd : Forall (fun a => pdepth a <= f) l) by (rewrite Forall_forall in *; intros a Ha; apply H; auto).
    assert (H1 : 1 <= f).
    { destruct l as [|a r]; [congruence|]. inversion Hd; subst. pose proof (pdepth_pos a); lia. }
    split; [|split].
    + apply le_n_S. apply fold_max_le; auto.
    + destruct l; [congruence|reflexivity].
    + rewrite Forall_forall in *. intros a Ha; apply H; auto.
Qed.

Theorem lang_at_spec tbl : table_ok tbl = true ->
  forall f x p y, In (p, y) (lang_at f tbl x) <-> der_out tbl x p = Some y /\ good f p.
Proof.
  intros Hok. induction f as [|f IH]; intros x p y.
  - cbn. split; [tauto|]. intros [_ [H _]]. pose proof (pdepth_pos p); lia.
  - rewrite lang_at_S. destruct (rules_of tbl x) as [rs|] eqn:Hrs.
    + rewrite in_flat_map. split.
      * intros [[s [args y0]] [Hin Hm]]. pose proof (In_rule_of _ _ _ _ _ Hok Hrs Hin) as Hr.
        cbn [rule_lang] in Hm. destruct args as [|a0 args'].
        -- destruct Hm as [E|[]]; inversion E; subst. cbn [der_out]. rewrite Hr. cbn. unfold good; cbn. split; auto. split; auto. lia.
        -- apply in_map_iff in Hm. destruct Hm as [[l y1] [E Hl]]. cbn in E. inversion E; subst.
           apply (seqs_spec tbl f _ IH) in Hl. destruct Hl as [Ht Hf].
           pose proof (thread_out_length _ _ _ _ _ Ht) as Hlen.
           rewrite der_out_fun, Hr. cbn [fst snd]. rewrite Hlen, Nat.eqb_refl. split; auto.
           apply good_fun; auto. destruct l; [discriminate|congruence].
      * intros [Hd Hg]. destruct p as [s|g l].
        -- cbn [der_out] in Hd. destruct (rule_of tbl x s) as [[args y0]|] eqn:Hr; [|discriminate].
           cbn [fst snd] in Hd. destruct args; [|discriminate]. cbn in Hd. inversion Hd; subst.
           apply rule_of_In in Hr. destruct Hr as [rs' [Hrs' Hin]]. rewrite Hrs in Hrs'; inversion Hrs'; subst rs'.
           exists (s, ([], y)). split; auto. cbn. auto.
        -- rewrite der_out_fun in Hd. destruct (rule_of tbl x g) as [[args y0]|] eqn:Hr; [|discriminate].
           cbn [fst snd] in Hd. destruct (Nat.eqb (length args) (length l)) eqn:El; [|discriminate].
           apply Nat.eqb_eq in El.
           apply rule_of_In in Hr. destruct Hr as [rs' [Hrs' Hin]]. rewrite Hrs in Hrs'; inversion Hrs'; subst rs'.
           assert (Hne : l <> []).
           { destruct Hg as [_ Hn]. cbn in Hn. destruct l; [discriminate|congruence]. }
           exists (g, (args, y0)). split; auto. cbn [rule_lang].
           destruct args as [|a0 args']; [destruct l; [congruence|discriminate]|].
           apply in_map_iff. exists (l, y). split; auto.
           apply (seqs_spec tbl f _ IH). split; auto. apply good_fun in Hg; auto.
    + split; [intros []|]. intros [Hd _]. exfalso. destruct p as [s|g l].
      * cbn in Hd. unfold rule_of in Hd. rewrite Hrs in Hd. discriminate.
      * rewrite der_out_fun in Hd. unfold rule_of in Hd. rewrite Hrs in Hd. discriminate.
Qed.

(** ** No program is enumerated twice *)
Lemma map_flat_map {A B C} (g : A -> list B) (h : B -> C) l :
  map h (flat_map g l) = flat_map (fun a => map h (g a)) l.
Proof. induction l as [|a r IH]; cbn; [reflexivity|]. rewrite map_app, IH; reflexivity. Qed.

Lemma NoDup_app_intro {A} (l1 l2 : list A) :
  NoDup l1 -> NoDup l2 -> (forall a, In a l1 -> In a l2 -> False) -> NoDup (l1 ++ l2).
Proof.
  induction l1 as [|a r IH]; cbn; auto. intros H1 H2 Hd. inversion H1; subst. constructor.
  - rewrite in_app_iff. intros [H|H]; [tauto|]. eapply Hd; eauto.
  - apply IH; auto. intros b Hb; apply Hd; auto.
Qed.

Lemma NoDup_flat_map {A B} (g : A -> list B) l :
  NoDup l -> (forall a, In a l -> NoDup (g a)) ->
  (forall a a' b, In a l -> In a' l -> In b (g a) -> In b (g a') -> a = a') ->
  NoDup (flat_map g l).
Proof.
  induction l as [|a r IH]; cbn; [constructor|]. intros Hn Hg Hd. inversion Hn; subst.
  apply NoDup_app_intro; auto.
  - apply IH; auto. intros; eapply Hd; eauto.
  - intros b Hb Hb'. apply in_flat_map in Hb'. destruct Hb' as [a' [Ha' Hb']].
    assert (a = a') by (eapply Hd; eauto). subst; tauto.
Qed.

Lemma NoDup_map_inj {A B} (h : A -> B) l : (forall a a', h a = h a' -> a = a') -> NoDup l -> NoDup (map h l).
Proof.
  intros Hi. induction 1; cbn; constructor; auto. rewrite in_map_iff. intros [a' [E Ha']]. apply Hi in E; subst; tauto.
Qed.

Lemma NoDup_map_fst_inj {A B} (l : list (A * B)) a a' :
  NoDup (map fst l) -> In a l -> In a' l -> fst a = fst a' -> a = a'.
Proof.
  induction l as [|c r IH]; cbn; [tauto|]. intros Hn. inversion Hn as [|? ? Hnot Hr]; subst.
  intros [H|H] [H'|H'] E; subst; auto.
  - exfalso; apply Hnot. rewrite E. apply in_map; auto.
  - exfalso; apply Hnot. rewrite <- E. apply in_map; auto.
Qed.

Lemma NoDup_seqs L : (forall x, NoDup (map fst (L x))) -> forall args y, NoDup (map fst (seqs_with L args y)).
Proof.
  intros HL. induction args as [|[t sa] ar IH]; intros y; cbn [seqs_with].
  - cbn. constructor; [tauto|constructor].
  - rewrite map_flat_map. apply NoDup_flat_map.
    + eapply NoDup_map_inv; apply HL.
    + intros py _. rewrite map_map. cbn [fst]. rewrite <- (map_map fst (cons (fst py))).
      apply NoDup_map_inj; [intros a a' E; inversion E; auto|apply IH].
    + intros py py' b Hpy Hpy' Hb Hb'. rewrite map_map in Hb, Hb'. cbn [fst] in Hb, Hb'.
      apply in_map_iff in Hb, Hb'. destruct Hb as [c [E _]], Hb' as [c' [E' _]]. subst b. inversion E'.
      eapply NoDup_map_fst_inj; eauto.
Qed.

Lemma rule_lang_head L r p : In p (map fst (rule_lang L r)) -> head p = fst r.
Proof.
  destruct r as [s [args y]]. cbn [rule_lang fst]. destruct args.
  - cbn. intros [E|[]]; subst; reflexivity.
  - rewrite map_map. cbn [fst]. rewrite in_map_iff. intros [c [E _]]; subst; reflexivity.
Qed.

Theorem lang_at_NoDup tbl : table_ok tbl = true -> forall f x, NoDup (map fst (lang_at f tbl x)).
Proof.
  intros Hok. induction f as [|f IH]; intros x; [constructor|].
  rewrite lang_at_S. destruct (rules_of tbl x) as [rs|] eqn:Hrs; [|constructor].
  pose proof (table_ok_rules _ _ _ Hok Hrs) as Hnd.
  rewrite map_flat_map. apply NoDup_flat_map.
  - eapply NoDup_map_inv; eauto.
  - intros [s [args y]] _. cbn [rule_lang]. destruct args as [|a0 ar].
    + cbn. constructor; [tauto|constructor].
    + rewrite map_map. cbn [fst]. rewrite <- (map_map fst (PFun s)).
      apply NoDup_map_inj; [intros a a' E; inversion E; auto|apply NoDup_seqs; auto].
  - intros r r' p Hr Hr' Hp Hp'. apply rule_lang_head in Hp, Hp'.
    eapply NoDup_map_fst_inj; eauto. congruence.
Qed.

Corollary language_NoDup tbl f x : table_ok tbl = true -> NoDup (language f tbl x).
Proof. intros; apply lang_at_NoDup; auto. Qed.

Corollary language_spec tbl f x p : table_ok tbl = true ->
  (In p (language f tbl x) <-> contains tbl x p = true /\ pdepth p <= f /\ normal p = true).
Proof.
  intros Hok. unfold language. rewrite in_map_iff, contains_der_out. split.
  - intros [[p' y] [E H]]. cbn in E; subst p'. apply (lang_at_spec _ Hok) in H. destruct H as [Hd Hg].
    rewrite Hd. split; auto.
  - intros [Hc Hg]. destruct (der_out tbl x p) as [y|] eqn:Hd; [|discriminate].
    exists (p, y). split; auto. apply (lang_at_spec _ Hok); auto.
Qed.

(** * (C) Probabilities *)
Local Open Scope Q_scope.

Lemma qsum_nil : qsum [] = 0. Proof. reflexivity. Qed.
Lemma qsum_cons a l : qsum (a :: l) = a + qsum l. Proof. reflexivity. Qed.
Ltac qs := cbn [map app flat_map]; rewrite ?qsum_cons, ?qsum_nil.

Lemma qsum_app l1 l2 : qsum (l1 ++ l2) == qsum l1 + qsum l2.
Proof. induction l1 as [|a r IH]; qs; [ring|]. rewrite IH; ring. Qed.

Lemma qsum_scale {A} (c : Q) (h : A -> Q) l : qsum (map (fun a => c * h a) l) == c * qsum (map h l).
Proof. induction l as [|a r IH]; qs; [ring|]. rewrite IH; ring. Qed.

Lemma qsum_ext {A} (h k : A -> Q) l : (forall a, In a l -> h a == k a) -> qsum (map h l) == qsum (map k l).
Proof.
  induction l as [|a r IH]; qs; intros H; [reflexivity|].
  rewrite (H a (or_introl eq_refl)), IH; [reflexivity|]. intros; apply H; right; auto.
Qed.

Lemma qsum_flat_map {A B} (g : A -> list B) (h : B -> Q) (c : A -> Q) l :
  (forall a, In a l -> qsum (map h (g a)) == c a) -> qsum (map h (flat_map g l)) == qsum (map c l).
Proof.
  induction l as [|a r IH]; qs; intros H; [reflexivity|].
  rewrite map_app, qsum_app, (H a (or_introl eq_refl)), IH; [reflexivity|]. intros; apply H; right; auto.
Qed.

Lemma qsum_perm l l' : Permutation l l' -> qsum l == qsum l'.
Proof.
  induction 1; qs.
  - reflexivity.
  - rewrite IHPermutation; reflexivity.
  - ring.
  - etransitivity; eauto.
Qed.

(** ** prob_rec computes the structural product on members *)
Definition pthread (R : prog -> pos -> list argnt -> option (Q * (list argnt * pos))) :
  list prog -> Q * (list argnt * pos) -> option (Q * (list argnt * pos)) :=
  fix go (args : list prog) (acc : Q * (list argnt * pos)) {struct args} : option (Q * (list argnt * pos)) :=
    match args with
    | [] => Some acc
    | a :: ar =>
      match R a (snd (snd acc)) (fst (snd acc)) with
      | Some (qa, st') => go ar (fst acc * qa, st')
      | None => None
      end
    end.

Lemma prob_rec_fun tbl w f args x info :
  prob_rec tbl w (PFun f args) (At x) info =
  match rule_of tbl x f, weight_of w x f with
  | Some r, Some q => pthread (prob_rec tbl w) args (q, derive info r)
  | _, _ => None
  end.
Proof. reflexivity. Qed.

Lemma sprob_fun tbl w x f ps :
  sprob tbl w x (PFun f ps) =
  match rule_of tbl x f with
  | Some r => wt w x f * thread_prob (der_out tbl) (sprob tbl w) ps (fst r) (snd r)
  | None => 0
  end.
Proof. reflexivity. Qed.

Definition prob_rec_ok tbl w (p : prog) : Prop :=
  forall x info y, der_out tbl x p = Some y ->
    (exists q, prob_rec tbl w p (At x) info = Some (q, next info y) /\ q == sprob tbl w x p)
    \/ (prob_rec tbl w p (At x) info = None /\ sprob tbl w x p == 0).

Lemma pthread_spec tbl w ps : Forall (prob_rec_ok tbl w) ps ->
  forall ants y info q0 y', thread_out (der_out tbl) ps ants y = Some y' ->
    (exists q, pthread (prob_rec tbl w) ps (q0, next (ants ++ info) y) = Some (q, next info y')
               /\ q == q0 * thread_prob (der_out tbl) (sprob tbl w) ps ants y)
    \/ (pthread (prob_rec tbl w) ps (q0, next (ants ++ info) y) = None
        /\ thread_prob (der_out tbl) (sprob tbl w) ps ants y == 0).
Proof.
  induction 1 as [|a ar Ha _ IH]; intros [|[t s] antr] y info q0 y' Ht; cbn in Ht; try discriminate.
  - inversion Ht; subst. left. exists q0. cbn. split; [reflexivity|ring].
  - destruct (der_out tbl (t, s, y) a) as [y1|] eqn:Hd; [|discriminate].
    cbn [pthread thread_prob app next fst snd]. rewrite Hd.
    destruct (Ha (t, s, y) (antr ++ info) y1 Hd) as [[qa [Hr Hq]]|[Hr Hq]]; rewrite Hr.
    + destruct (IH antr y1 info (q0 * qa) y' Ht) as [[q [Hr' Hq']]|[Hr' Hq']].
      * left. exists q. split; auto. rewrite Hq', Hq. ring.
      * right. split; auto. rewrite Hq'. ring.
    + right. split; auto. rewrite Hq. ring.
Qed.

Theorem prob_rec_spec tbl w p : prob_rec_ok tbl w p.
Proof.
  induction p as [s|f ps IH] using prog_ind'; intros x info y Hd.
  - cbn [der_out] in Hd. cbn [prob_rec sprob]. unfold wt.
    destruct (rule_of tbl x s) as [r|]; [|discriminate].
    destruct (Nat.eqb (length (fst r)) 0) eqn:E; [|discriminate]. inversion Hd; subst.
    apply Nat.eqb_eq in E. destruct (weight_of w x s) as [q|].
    + left. exists q. rewrite derive_next. destruct (fst r); [|discriminate]. split; reflexivity.
    + right. split; reflexivity.
  - rewrite der_out_fun in Hd. rewrite prob_rec_fun, sprob_fun. unfold wt.
    destruct (rule_of tbl x f) as [r|]; [|discriminate].
    destruct (Nat.eqb (length (fst r)) (length ps)) eqn:E; [|discriminate].
    destruct (weight_of w x f) as [q|].
    + rewrite derive_next. destruct (pthread_spec tbl w ps IH (fst r) (snd r) info q y Hd) as [[q' [Hr Hq]]|[Hr Hq]].
      * left. exists q'. split; auto.
      * right. split; auto. rewrite Hq. ring.
    + right. split; auto. ring.
Qed.

Theorem probability_member tbl w x p : contains tbl x p = true -> probability tbl w x p == sprob tbl w x p.
Proof.
  intros Hc. unfold probability. rewrite Hc. rewrite contains_der_out in Hc.
  destruct (der_out tbl x p) as [y|] eqn:Hd; [|discriminate].
  destruct (prob_rec_spec tbl w p x [] y Hd) as [[q [Hr Hq]]|[Hr Hq]]; rewrite Hr; [auto|symmetry; auto].
Qed.

Theorem probability_outside tbl w x p : contains tbl x p = false -> probability tbl w x p == 0.
Proof. intros Hc. unfold probability. rewrite Hc. reflexivity. Qed.

(** ** The weighted enumeration *)
Lemma wseqs_fst WL L : (forall x, map fst (WL x) = L x) ->
  forall args y, map fst (wseqs_with WL args y) = seqs_with L args y.
Proof.
  intros H. induction args as [|[t sa] ar IH]; intros y; cbn [wseqs_with seqs_with]; [reflexivity|].
  rewrite map_flat_map, <- H, flat_map_concat_map, (flat_map_concat_map _ (map fst _)), map_map.
  f_equal. apply map_ext. intros [[p y1] q]. cbn [fst snd]. rewrite map_map, <- IH, map_map. reflexivity.
Qed.

Lemma wlang_fst tbl w : forall f x, map fst (wlang_at f tbl w x) = lang_at f tbl x.
Proof.
  induction f as [|f IH]; intros x; [reflexivity|].
  rewrite lang_at_S. cbn [wlang_at]. destruct (rules_of tbl x) as [rs|]; [|reflexivity].
  rewrite map_flat_map. rewrite !flat_map_concat_map. f_equal. apply map_ext.
  intros [s [args y]]. cbn [wrule_lang rule_lang]. destruct args as [|a0 ar]; [reflexivity|].
  rewrite map_map. cbn [fst]. rewrite <- (wseqs_fst _ _ IH), map_map. reflexivity.
Qed.

Lemma wseqs_weight tbl w WL :
  (forall x p y q, In (p, y, q) (WL x) -> der_out tbl x p = Some y /\ q == sprob tbl w x p) ->
  forall ants y l y' q, In (l, y', q) (wseqs_with WL ants y) ->
    q == thread_prob (der_out tbl) (sprob tbl w) l ants y.
Proof.
  intros H. induction ants as [|[t sa] ar IH]; intros y l y' q; cbn [wseqs_with].
  - intros [E|[]]; inversion E; subst. reflexivity.
  - rewrite in_flat_map. intros [[[p y1] qp] [Hp Hm]]. apply in_map_iff in Hm.
    destruct Hm as [[[l' y2] ql] [E Hl]]. cbn [fst snd] in E. inversion E; subst.
    apply H in Hp. destruct Hp as [Hd Hq]. cbn [fst snd] in Hl. apply IH in Hl.
    cbn [thread_prob]. rewrite Hd, Hq, Hl. reflexivity.
Qed.

Theorem wlang_weight tbl w : table_ok tbl = true ->
  forall f x p y q, In (p, y, q) (wlang_at f tbl w x) -> der_out tbl x p = Some y /\ q == sprob tbl w x p.
Proof.
  intros Hok. induction f as [|f IH]; intros x p y q; [intros []|].
  intros Hin. split.
  { apply (lang_at_spec tbl Hok (S f)). rewrite <- (wlang_fst tbl w). change (p, y) with (fst (p, y, q)). apply in_map; auto. }
  cbn [wlang_at] in Hin. destruct (rules_of tbl x) as [rs|] eqn:Hrs; [|destruct Hin].
  apply in_flat_map in Hin. destruct Hin as [[s [args y0]] [Hr Hm]].
  pose proof (In_rule_of _ _ _ _ _ Hok Hrs Hr) as Hrule.
  cbn [wrule_lang] in Hm. destruct args as [|a0 ar].
  - destruct Hm as [E|[]]; inversion E; subst. reflexivity.
  - apply in_map_iff in Hm. destruct Hm as [[[l y1] ql] [E Hl]]. cbn [fst snd] in E. inversion E; subst.
    apply (wseqs_weight tbl w _ IH) in Hl. rewrite sprob_fun, Hrule. cbn [fst snd]. rewrite Hl. reflexivity.
Qed.

(** ** Sum to one *)
Lemma dedup_states_In y l : In y (dedup_states l) <-> In y l.
Proof.
  induction l as [|z r IH]; cbn; [tauto|].
  destruct (memb sexp_eqb z r) eqn:E.
  - rewrite IH. split; auto. intros [->|H]; auto. apply (memb_spec sexp_eqb sexp_eqb_spec); auto.
  - cbn. rewrite IH. tauto.
Qed.

Lemma wseqs_sum tbl w f :
  (forall x, wf_at f tbl w x = true -> qsum (map snd (wlang_at f tbl w x)) == 1) ->
  forall args y, wf_seq_with (wf_at f tbl w) (outs_at f tbl) args y = true ->
    qsum (map snd (wseqs_with (wlang_at f tbl w) args y)) == 1.
Proof.
  intros IHf. induction args as [|[t sa] ar IH]; intros y Hwf; cbn [wseqs_with].
  - cbn. ring.
  - cbn [wf_seq_with] in Hwf. apply andb_true_iff in Hwf. destruct Hwf as [Hw Hall].
    rewrite forallb_forall in Hall.
    rewrite (qsum_flat_map _ snd snd).
    + apply IHf; auto.
    + intros [[p y1] qp] Hin. cbn [fst snd]. rewrite map_map. cbn [snd].
      rewrite (qsum_scale qp snd). rewrite IH; [ring|].
      apply Hall. unfold outs_at. apply dedup_states_In. rewrite <- (wlang_fst tbl w), map_map.
      change y1 with (snd (fst (p, y1, qp))). apply (in_map (fun a => snd (fst a))); auto.
Qed.

Lemma weights_ok_sum tbl w x rs : weights_ok tbl w x rs = true -> qsum (map (fun r : drule => wt w x (fst r)) rs) == 1.
Proof.
  unfold weights_ok. rewrite !andb_true_iff. intros [[_ H] _]. apply Qeq_bool_iff in H. exact H.
Qed.

Theorem wlang_sum tbl w : forall f x, wf_at f tbl w x = true -> qsum (map snd (wlang_at f tbl w x)) == 1.
Proof.
  induction f as [|f IH]; intros x Hwf; [discriminate|].
  rewrite wf_at_S in Hwf. cbn [wlang_at]. destruct (rules_of tbl x) as [rs|]; [|discriminate].
  apply andb_true_iff in Hwf. destruct Hwf as [Hw Hall]. rewrite forallb_forall in Hall.
  rewrite (qsum_flat_map _ snd (fun r : drule => wt w x (fst r))).
  - apply weights_ok_sum in Hw; auto.
  - intros [s [args y]] Hin. apply Hall in Hin. cbn [fst snd] in Hin. cbn [wrule_lang fst].
    destruct args as [|a0 ar].
    + cbn. ring.
    + rewrite map_map. cbn [snd]. rewrite (qsum_scale (wt w x s) snd).
      rewrite (wseqs_sum tbl w f IH); [ring|auto].
Qed.

Theorem sum_to_one tbl w f x : table_ok tbl = true -> wf_at f tbl w x = true ->
  qsum (map (probability tbl w x) (language f tbl x)) == 1.
Proof.
  intros Hok Hwf. rewrite <- (wlang_sum tbl w f x Hwf).
  unfold language. rewrite <- (wlang_fst tbl w), !map_map.
  apply qsum_ext. intros [[p y] q] Hin. cbn [fst snd].
  apply (wlang_weight tbl w Hok) in Hin. destruct Hin as [Hd Hq].
  rewrite probability_member; [symmetry; auto|]. rewrite contains_der_out, Hd. reflexivity.
Qed.

(** ** A well-formed grammar has no program deeper than the fuel: the enumerated
    language is the whole language. *)
Local Open Scope nat_scope.

Lemma wf_seq_depth tbl w f :
  table_ok tbl = true ->
  (forall x, wf_at f tbl w x = true -> forall p y, der_out tbl x p = Some y -> normal p = true -> pdepth p <= f) ->
  forall l ants y y', wf_seq_with (wf_at f tbl w) (outs_at f tbl) ants y = true ->
    thread_out (der_out tbl) l ants y = Some y' -> forallb normal l = true -> Forall (fun a => pdepth a <= f) l.
Proof.
  intros Hok IHf. induction l as [|a l IH]; intros [|[t s] antr] y y' Hwf Ht Hn; cbn in Ht; try discriminate; [constructor|].
  destruct (der_out tbl (t, s, y) a) as [y1|] eqn:Hd; [|discriminate].
  cbn [wf_seq_with] in Hwf. apply andb_true_iff in Hwf. destruct Hwf as [Hw Hall].
  cbn [forallb] in Hn. apply andb_true_iff in Hn. destruct Hn as [Hna Hnl].
  assert (Ha : pdepth a <= f) by (eapply IHf; eauto).
  constructor; auto. eapply IH; eauto.
  rewrite forallb_forall in Hall. apply Hall. unfold outs_at. apply dedup_states_In.
  change y1 with (snd (a, y1)). apply in_map. apply (lang_at_spec tbl Hok). split; auto. split; auto.
Qed.

Theorem wf_depth tbl w : table_ok tbl = true ->
  forall f x, wf_at f tbl w x = true -> forall p y, der_out tbl x p = Some y -> normal p = true -> pdepth p <= f.
Proof.
  intros Hok. induction f as [|f IH]; intros x Hwf p y Hd Hn; [discriminate|].
  destruct p as [s|g l]; [cbn; lia|].
  rewrite wf_at_S in Hwf. rewrite der_out_fun in Hd.
  destruct (rule_of tbl x g) as [[ants y0]|] eqn:Hr; [|discriminate]. cbn [fst snd] in Hd.
  destruct (Nat.eqb (length ants) (length l)); [|discriminate].
  apply rule_of_In in Hr. destruct Hr as [rs [Hrs Hin]]. rewrite Hrs in Hwf.
  apply andb_true_iff in Hwf. destruct Hwf as [_ Hall]. rewrite forallb_forall in Hall.
  apply Hall in Hin. cbn [fst snd] in Hin.
  cbn [normal] in Hn. apply andb_true_iff in Hn. destruct Hn as [Hne Hnl].
  pose proof (wf_seq_depth tbl w f Hok IH l ants y0 y Hin Hd Hnl) as HF.
  cbn [pdepth]. apply le_n_S. apply fold_max_le. split; auto.
  destruct l as [|a l']; [discriminate|]. inversion HF; subst. pose proof (pdepth_pos a); lia.
Qed.

Corollary wf_language tbl w f x p : table_ok tbl = true -> wf_at f tbl w x = true ->
  (In p (language f tbl x) <-> contains tbl x p = true /\ normal p = true).
Proof.
  intros Hok Hwf. rewrite (language_spec tbl f x p Hok). split; [tauto|]. intros [Hc Hn]. split; auto. split; auto.
  rewrite contains_der_out in Hc. destruct (der_out tbl x p) as [y|] eqn:Hd; [|discriminate].
  eapply wf_depth; eauto.
Qed.

(** * uniform() and normalise() *)
Local Open Scope Q_scope.

Lemma pos_check q : 0 < q -> Qle_bool 0 q && negb (Qeq_bool q 0) = true.
Proof.
  intros H. apply andb_true_iff. split.
  - apply Qle_bool_iff. apply Qlt_le_weak; auto.
  - apply negb_true_iff. destruct (Qeq_bool q 0) eqn:E; auto. apply Qeq_bool_iff in E.
    exfalso. apply (Qlt_not_eq _ _ H). symmetry; auto.
Qed.

Lemma alookup_map_entry {K V V'} (eqb : K -> K -> bool) (spec : forall a b, eqb a b = true <-> a = b)
      (G : K * V -> V') k l v :
  alookup eqb k l = Some v -> alookup eqb k (map (fun kv => (fst kv, G kv)) l) = Some (G (k, v)).
Proof.
  induction l as [|[k' v'] r IH]; cbn; [discriminate|].
  destruct (eqb k k') eqn:E; auto. apply spec in E; subst. intros H; inversion H; reflexivity.
Qed.

Lemma alookup_map_none {K V V'} (eqb : K -> K -> bool) (G : K * V -> V') k l :
  alookup eqb k l = None -> alookup eqb k (map (fun kv => (fst kv, G kv)) l) = None.
Proof.
  induction l as [|[k' v'] r IH]; cbn; auto. destruct (eqb k k'); [discriminate|auto].
Qed.

Lemma In_keys_alookup {K V} (eqb : K -> K -> bool) (spec : forall a b, eqb a b = true <-> a = b) k (l : list (K * V)) :
  In k (map fst l) -> exists v, alookup eqb k l = Some v /\ In (k, v) l.
Proof.
  induction l as [|[k' v'] r IH]; cbn; [tauto|].
  destruct (eqb k k') eqn:E.
  - apply spec in E; subst. intros _. exists v'. auto.
  - intros [H|H]; [subst; rewrite (proj2 (spec k k) eq_refl) in E; discriminate|].
    destruct (IH H) as [v [Hv Hin]]. exists v; auto.
Qed.

Lemma qsum_const {A} (c : Q) (l : list A) : qsum (map (fun _ => c) l) == inject_Z (Z.of_nat (length l)) * c.
Proof.
  induction l as [|a r IH]; qs.
  - cbn. ring.
  - rewrite IH. cbn [length]. rewrite Nat2Z.inj_succ. unfold Z.succ. rewrite inject_Z_plus. ring.
Qed.

Theorem uniform_ok tbl x rs : rules_of tbl x = Some rs -> rs <> [] -> nodupb sym_eqb (map fst rs) = true ->
  weights_ok tbl (uniform tbl) x rs = true.
Proof.
  intros Hrs Hne Hnd. set (n := inject_Z (Z.of_nat (length rs))).
  assert (Hn : 0 < n).
  { unfold n. change 0 with (inject_Z 0). rewrite <- Zlt_Qlt. destruct rs; [congruence|cbn [length]; lia]. }
  assert (Hw : forall r, In r rs -> weight_of (uniform tbl) x (fst r) = Some (1 / n)).
  { intros r Hr. unfold weight_of, uniform.
    rewrite (alookup_map_entry nt_eqb nt_eqb_spec
               (fun xr : nt * list drule => map (fun r : drule => (fst r, 1 / inject_Z (Z.of_nat (length (snd xr))))) (snd xr)) x tbl rs Hrs).
    cbn [snd]. destruct (In_keys_alookup sym_eqb sym_eqb_spec (fst r) rs (in_map fst _ _ Hr)) as [v [Hv _]].
    exact (alookup_map_entry sym_eqb sym_eqb_spec (fun _ : sym * rhs => 1 / inject_Z (Z.of_nat (length rs))) (fst r) rs v Hv). }
  unfold weights_ok. rewrite Hnd, andb_true_r. apply andb_true_iff. split.
  - apply forallb_forall. intros r Hr. rewrite (Hw r Hr). apply pos_check.
    unfold Qdiv. rewrite Qmult_1_l. apply Qinv_lt_0_compat; auto.
  - apply Qeq_bool_iff.
    rewrite (qsum_ext _ (fun _ => 1 / n)); [|intros r Hr; rewrite (Hw r Hr); reflexivity].
    rewrite qsum_const. fold n. field. intros E. rewrite E in Hn. apply (Qlt_irrefl 0); auto.
Qed.

Lemma qsum_pos l : l <> [] -> (forall q, In q l -> 0 < q) -> 0 < qsum l.
Proof.
  induction l as [|a r IH]; [congruence|]. intros _ H. qs. destruct r as [|b r'].
  - qs. rewrite Qplus_0_r. apply H; left; auto.
  - assert (0 < a) by (apply H; left; auto). assert (0 < qsum (b :: r')) by (apply IH; [congruence|intros; apply H; right; auto]).
    lra.
Qed.

Theorem normalise_ok tbl w x rs ws :
  rules_of tbl x = Some rs -> alookup nt_eqb x w = Some ws ->
  Permutation (map fst rs) (map fst ws) -> nodupb sym_eqb (map fst rs) = true ->
  (forall sq, In sq ws -> 0 < snd sq) -> rs <> [] ->
  weights_ok tbl (normalise w) x rs = true.
Proof.
  intros Hrs Hws Hperm Hnd Hpos Hne.
  set (S := qsum (map snd ws)).
  assert (Hndr : NoDup (map fst rs)) by (apply (nodupb_spec sym_eqb sym_eqb_spec); auto).
  assert (Hndw : NoDup (map fst ws)) by (eapply Permutation_NoDup; eauto).
  assert (HS : 0 < S).
  { apply qsum_pos.
    - destruct ws; [|cbn; congruence]. apply Permutation_sym, Permutation_nil in Hperm. destruct rs; [congruence|discriminate].
    - intros q Hq. apply in_map_iff in Hq. destruct Hq as [sq [<- Hq]]. auto. }
  assert (Hw : forall s q, In (s, q) ws -> weight_of (normalise w) x s = Some (q / S)).
  { intros s q Hin. unfold weight_of, normalise.
    rewrite (alookup_map_entry nt_eqb nt_eqb_spec
               (fun xw : nt * list (sym * Q) => map (fun sq : sym * Q => (fst sq, snd sq / qsum (map snd (snd xw)))) (snd xw)) x w ws Hws).
    cbn [snd]. refine (alookup_map_entry sym_eqb sym_eqb_spec (fun sq : sym * Q => snd sq / qsum (map snd ws)) s ws q _).
    apply In_alookup; auto using sym_eqb_spec. }
  unfold weights_ok. rewrite Hnd, andb_true_r. apply andb_true_iff. split.
  - apply forallb_forall. intros r Hr.
    assert (Hk : In (fst r) (map fst ws)) by (eapply Permutation_in; eauto; apply in_map; auto).
    apply in_map_iff in Hk. destruct Hk as [[s q] [E Hin]]. cbn in E. rewrite <- E, (Hw s q Hin).
    apply pos_check. unfold Qdiv. apply Qmult_lt_0_compat; [apply (Hpos _ Hin)|apply Qinv_lt_0_compat; auto].
  - apply Qeq_bool_iff. change (qsum (map (fun r : drule => wt (normalise w) x (fst r)) rs) == 1).
    replace (map (fun r : drule => wt (normalise w) x (fst r)) rs) with (map (wt (normalise w) x) (map fst rs))
      by (rewrite map_map; reflexivity).
    rewrite (qsum_perm _ _ (Permutation_map _ Hperm)), map_map.
    rewrite (qsum_ext _ (fun sq => (1 / S) * snd sq)).
    + rewrite qsum_scale. fold S. field. intros E. rewrite E in HS. apply (Qlt_irrefl 0); auto.
    + intros [s q] Hin. unfold wt. cbn [fst snd]. rewrite (Hw s q Hin). field.
      intros E. rewrite E in HS. apply (Qlt_irrefl 0); auto.
Qed.

(** * A concrete instance satisfying the hypotheses (non-vacuity) *)
Module Example.
  Local Open Scope Q_scope.
  Definition int := TPrim 0.
  Definition one := SPrim 1 int.
  Definition plus := SPrim 2 (TArrow int (TArrow int int)).
  Definition v0 := SVar 0 int.
  Definition x0 : nt := (int, A 0%Z, A 0%Z).
  Definition x1 : nt := (int, A 1%Z, A 0%Z).
  Definition x2 : nt := (int, A 1%Z, A 5%Z).
  (** the T state after var0 differs from the one after 1: the second argument
      of + is derived at x1 or at x2 depending on the first argument *)
  Definition tbl : table :=
    [ (x0, [ (one, ([], A 0%Z)); (plus, ([(int, A 1%Z); (int, A 1%Z)], A 0%Z)) ]);
      (x1, [ (one, ([], A 0%Z)); (v0, ([], A 5%Z)) ]);
      (x2, [ (one, ([], A 7%Z)) ]) ].
  Definition w : wtable :=
    [ (x0, [ (one, 1 # 3); (plus, 2 # 3) ]); (x1, [ (one, 1 # 4); (v0, 3 # 4) ]); (x2, [ (one, 1) ]) ].

  Example ex_ok : table_ok tbl = true /\ wf_at 3 tbl w x0 = true /\ length (language 3 tbl x0) = 4%nat.
  Proof. vm_compute. auto. Qed.
  Example ex_member : contains tbl x0 (PFun plus [PLeaf v0; PLeaf one]) = true
                      /\ probability tbl w x0 (PFun plus [PLeaf v0; PLeaf one]) == 1 # 2.
  Proof. split; vm_compute; reflexivity. Qed.
  Example ex_outside : contains tbl x0 (PFun plus [PLeaf v0; PLeaf v0]) = false
                       /\ contains tbl x0 (PFun plus [PLeaf one]) = false.
  Proof. split; vm_compute; reflexivity. Qed.
  Example ex_sum : qsum (map (probability tbl w x0) (language 3 tbl x0)) == 1.
  Proof. vm_compute. reflexivity. Qed.
  Example ex_uniform : wf_at 3 tbl (uniform tbl) x0 = true.
  Proof. vm_compute. reflexivity. Qed.
  Example ex_normalise : wf_at 3 tbl (normalise [ (x0, [ (one, 2); (plus, 5 # 2) ]); (x1, [ (one, 1 # 8); (v0, 3) ]); (x2, [ (one, 9) ]) ]) x0 = true.
  Proof. vm_compute. reflexivity. Qed.
End Example.

(** * pcfg_from_samples: the learnt weights are normalised wherever they exist *)
Lemma injZ_nat_nonzero total : total <> O -> ~ (inject_Z (Z.of_nat total) == 0)%Q.
Proof. intros Hn E. unfold Qeq in E. cbn in E. lia. Qed.

Lemma qsum_nat_ratio (cs : list nat) (total : nat) :
  fold_right Nat.add O cs = total -> total <> O ->
  (qsum (map (fun c => inject_Z (Z.of_nat c) / inject_Z (Z.of_nat total)) cs) == 1)%Q.
Proof.
  intros E Hn.
  assert (H : forall l, (qsum (map (fun c => inject_Z (Z.of_nat c) / inject_Z (Z.of_nat total)) l)
                         == inject_Z (Z.of_nat (fold_right Nat.add O l)) / inject_Z (Z.of_nat total))%Q).
  { induction l as [|c r IH]; qs.
    - cbn. unfold Qdiv. ring.
    - rewrite IH. cbn [fold_right]. rewrite Nat2Z.inj_add, inject_Z_plus. field.
      apply injZ_nat_nonzero; auto. }
  rewrite H, E. field. apply injZ_nat_nonzero; auto.
Qed.

Theorem from_samples_normalised tbl start samples w x ws :
  from_samples tbl start samples = Some w -> In (x, ws) w ->
  (qsum (map snd ws) == 1)%Q /\ forall sq, In sq ws -> (0 <= snd sq)%Q.
Proof.
  unfold from_samples. destruct (omap (uses tbl start) samples) as [ls|]; [|discriminate].
  intros E Hin. inversion E; subst w. clear E. apply in_flat_map in Hin. destruct Hin as [[x0 rs] [_ Hin]].
  cbn [fst snd] in Hin.
  destruct (fold_right Nat.add O (map (fun r : drule => count_use (concat ls) x0 (fst r)) rs)) as [|n] eqn:Et; [destruct Hin|].
  destruct Hin as [Hin|[]]. inversion Hin; subst x ws. clear Hin. split.
  - rewrite map_map. cbn [snd].
    rewrite <- (map_map (fun r : drule => count_use (concat ls) x0 (fst r))
                        (fun c => inject_Z (Z.of_nat c) / inject_Z (Z.of_nat (S n)))%Q).
    apply qsum_nat_ratio; auto.
  - intros sq Hsq. apply in_map_iff in Hsq. destruct Hsq as [r [<- _]]. cbn [snd].
    unfold Qdiv. apply Qmult_le_0_compat.
    + change 0%Q with (inject_Z 0). rewrite <- Zle_Qle. lia.
    + apply Qinv_le_0_compat. change 0%Q with (inject_Z 0). rewrite <- Zle_Qle. lia.
Qed.
