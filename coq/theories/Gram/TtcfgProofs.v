(** Proofs about the TTCFG model (Gram/Ttcfg.v). *)
From Coq Require Import ZArith NArith List Bool Lia Arith Setoid Relations Permutation Morphisms.
From PS Require Import Base.ListX Base.Sexp Base.Ty Base.Value Base.Prog Gram.Det Gram.Ttcfg.
From PS Require Gram.Cfg.
Import ListNotations.

(* ====================================================================== *)
(** * Generic facts *)
Section GenericProofs.
  Variables S T : Type.
  Variable seqb : S -> S -> bool.
  Variable teqb : T -> T -> bool.
  Hypothesis seqb_spec : forall a b, seqb a b = true <-> a = b.
  Hypothesis teqb_spec : forall a b, teqb a b = true <-> a = b.

  Notation gnt := (gnt S T).
  Notation garg := (garg S).
  Notation grule := (grule S T).
  Notation gtable := (gtable S T).
  Notation oracle := (oracle S T).
  Notation gnt_eqb := (gnt_eqb S T seqb teqb).
  Notation of_table := (of_table S T seqb teqb).
  Notation grule_of := (grule_of S T).
  Notation gcontains_rec := (gcontains_rec S T).
  Notation gcontains := (gcontains S T).
  Notation run := (run S T).
  Notation gnext := (gnext S T).
  Notation gderive := (gderive S T).

  Lemma gnt_eqb_spec : forall a b : gnt, gnt_eqb a b = true <-> a = b.
  Proof.
    intros [[t s] y] [[t' s'] y']; unfold Ttcfg.gnt_eqb; cbn.
    rewrite !andb_true_iff, ty_eqb_spec, seqb_spec, teqb_spec.
    split; [intros [[-> ->] ->]; reflexivity | intros E; inversion E; auto].
  Qed.

  Lemma gnt_eqb_refl (x : gnt) : gnt_eqb x x = true.
  Proof. apply gnt_eqb_spec; reflexivity. Qed.

  Lemma garg_eqb_spec : forall a b : garg, garg_eqb S seqb a b = true <-> a = b.
  Proof.
    intros [t s] [t' s']; unfold garg_eqb; cbn.
    rewrite andb_true_iff, ty_eqb_spec, seqb_spec.
    split; [intros [-> ->]; reflexivity | intros E; inversion E; auto].
  Qed.

  (** the inner loops of [run] and [gcontains_rec] as named functions *)
  Fixpoint run_args (R : oracle) (args : list garg) (ps : list prog) (y : T) : option T :=
    match ps, args with
    | [], [] => Some y
    | a :: pr, (t, s) :: ar =>
      match run R (t, s, y) a with
      | Some y' => run_args R ar pr y'
      | None => None
      end
    | _, _ => None
    end.

  Lemma run_fun R x f ps :
    run R x (PFun f ps) = match grule_of R x f with Some (args, y) => run_args R args ps y | None => None end.
  Proof.
    cbn. destruct (grule_of R x f) as [[args y]|]; auto.
    revert args y. induction ps as [|a pr IH]; intros [|[t s] ar] y; cbn; auto.
    destruct (Ttcfg.run S T R (t, s, y) a); auto.
  Qed.

  Lemma run_leaf R x s :
    run R x (PLeaf s) = match grule_of R x s with Some ([], y) => Some y | _ => None end.
  Proof. reflexivity. Qed.

  Fixpoint contains_args (R : oracle) (ps : list prog) (st : list garg * gpos S T) : option (list garg * gpos S T) :=
    match ps with
    | [] => Some st
    | a :: ar =>
      match gcontains_rec R a (snd st) (fst st) with
      | Some st' => contains_args R ar st'
      | None => None
      end
    end.

  Lemma contains_fun R x f ps info :
    gcontains_rec R (PFun f ps) (GAt x) info =
    match grule_of R x f with
    | Some r => if Nat.eqb (length (fst r)) (length ps) then contains_args R ps (gderive info r) else None
    | None => None
    end.
  Proof.
    cbn. destruct (grule_of R x f) as [r|]; auto.
    destruct (Nat.eqb (length (fst r)) (length ps)); auto.
    generalize (gderive info r). induction ps as [|a pr IH]; intros st; cbn; auto.
    destruct (Ttcfg.gcontains_rec S T R a (snd st) (fst st)); auto.
  Qed.

  Lemma run_args_length R : forall args ps y y', run_args R args ps y = Some y' -> length args = length ps.
  Proof.
    induction args as [|[t s] ar IH]; intros [|a pr] y y'; cbn; try discriminate; auto.
    destruct (run R (t, s, y) a); try discriminate. intros H; f_equal; eauto.
  Qed.

  (** the information stack can be eliminated: membership threads only T *)
  Lemma contains_rec_run R : forall p x info,
      gcontains_rec R p (GAt x) info = option_map (gnext info) (run R x p).
  Proof.
    induction p as [s|f ps IH] using prog_ind'; intros x info.
    - rewrite run_leaf. cbn. destruct (grule_of R x s) as [[[|a ar] y]|]; cbn; auto.
    - rewrite contains_fun, run_fun.
      destruct (grule_of R x f) as [[args y]|]; cbn [fst snd]; auto.
      destruct (Nat.eqb (length args) (length ps)) eqn:E.
      + apply Nat.eqb_eq in E. unfold Ttcfg.gderive; cbn [fst snd].
        revert args y E. induction IH as [|a pr Ha _ IHl]; intros [|[t s] ar] y E; cbn in E; try discriminate.
        * reflexivity.
        * cbn. rewrite Ha. destruct (run R (t, s, y) a) as [y'|]; cbn; auto.
      + apply Nat.eqb_neq in E.
        destruct (run_args R args ps y) eqn:E2; auto.
        apply run_args_length in E2. contradiction.
  Qed.

  Lemma gcontains_run R start p :
    gcontains R start p = match run R start p with Some _ => true | None => false end.
  Proof. unfold Ttcfg.gcontains. rewrite contains_rec_run. destruct (run R start p); reflexivity. Qed.

  (** a grammar with fewer rules has fewer members *)
  Lemma run_mono R R' :
    (forall x f r, grule_of R' x f = Some r -> grule_of R x f = Some r) ->
    forall p x y, run R' x p = Some y -> run R x p = Some y.
  Proof.
    intros Hsub. induction p as [s|f ps IH] using prog_ind'; intros x y.
    - rewrite !run_leaf. destruct (grule_of R' x s) as [[[|a ar] y0]|] eqn:E; try discriminate.
      rewrite (Hsub _ _ _ E). auto.
    - rewrite !run_fun. destruct (grule_of R' x f) as [[args y0]|] eqn:E; try discriminate.
      rewrite (Hsub _ _ _ E). clear E. revert args y0.
      induction IH as [|a pr Ha _ IHl]; intros [|[t s] ar] y0; cbn; auto.
      destruct (run R' (t, s, y0) a) as [y1|] eqn:E1; try discriminate.
      rewrite (Ha _ _ E1). auto.
  Qed.

  Lemma of_table_in tbl x rs : of_table tbl x = Some rs -> In (x, rs) tbl.
  Proof.
    unfold Ttcfg.of_table. induction tbl as [|[k v] r IH]; cbn; try discriminate.
    destruct (gnt_eqb x k) eqn:E.
    - apply gnt_eqb_spec in E; subst. intros H; inversion H; auto.
    - auto.
  Qed.

  Lemma alookup_sym_in {V} (l : list (sym * V)) s v : alookup sym_eqb s l = Some v -> In (s, v) l.
  Proof.
    induction l as [|[k w] r IH]; cbn; try discriminate.
    destruct (sym_eqb s k) eqn:E.
    - apply sym_eqb_spec in E; subst. intros H; inversion H; auto.
    - auto.
  Qed.

  Lemma grule_of_in_tbl tbl x f r : grule_of (of_table tbl) x f = Some r -> in_tbl S T seqb teqb tbl x = true.
  Proof. unfold Ttcfg.grule_of, in_tbl. destruct (of_table tbl x); [reflexivity|discriminate]. Qed.

  Lemma run_in_tbl tbl x p y : run (of_table tbl) x p = Some y -> in_tbl S T seqb teqb tbl x = true.
  Proof.
    destruct p as [s|f ps]; [rewrite run_leaf|rewrite run_fun].
    - destruct (grule_of (of_table tbl) x s) eqn:E; try discriminate. intros _; eapply grule_of_in_tbl; eauto.
    - destruct (grule_of (of_table tbl) x f) eqn:E; try discriminate. intros _; eapply grule_of_in_tbl; eauto.
  Qed.
End GenericProofs.

(** Det.v is the instance S = T = sexp *)
Lemma det_rule_of tbl x s :
  Det.rule_of tbl x s = grule_of sexp sexp (of_table sexp sexp sexp_eqb sexp_eqb tbl) x s.
Proof. reflexivity. Qed.

Definition pos_of_gpos (g : gpos sexp sexp) : Det.pos := match g with GAt x => Det.At x | GEnd _ => Det.End end.
Definition st_of_gst (st : list (garg sexp) * gpos sexp sexp) : list Det.argnt * Det.pos := (fst st, pos_of_gpos (snd st)).

Lemma det_contains_rec_generic tbl : forall p (x : gnt sexp sexp) (info : list (garg sexp)),
    Det.contains_rec tbl p (Det.At x) info =
    option_map st_of_gst (gcontains_rec sexp sexp (of_table sexp sexp sexp_eqb sexp_eqb tbl) p (GAt x) info).
Proof.
  remember (of_table sexp sexp sexp_eqb sexp_eqb tbl) as R eqn:HR.
  assert (Hd : forall info r, Det.derive info r = st_of_gst (gderive sexp sexp info r)).
  { assert (Hn : forall (l : list Det.argnt) (y : Det.state),
               match l with [] => ([], Det.End) | (t, s) :: rest => (rest, Det.At (t, s, y)) end
               = st_of_gst (gnext sexp sexp l y)).
    { intros [|[t s] rest] y; reflexivity. }
    intros info [args y]. unfold Det.derive, gderive. cbn [fst snd]. apply Hn. }
  assert (Hif : forall (b : bool) (A B : Type) (g : A -> B) (a : A),
             (if b then Some (g a) else None) = option_map g (if b then Some a else None)).
  { intros [|]; reflexivity. }
  induction p as [s|f ps IH] using prog_ind'; intros x info.
  - cbn. rewrite det_rule_of, <- HR. destruct (grule_of sexp sexp R x s) as [r|]; cbn; auto.
    rewrite Hd. apply Hif.
  - rewrite contains_fun. cbn. rewrite det_rule_of, <- HR.
    destruct (grule_of sexp sexp R x f) as [r|]; cbn; auto.
    rewrite Hd.
    assert (Hgo : forall st,
               (fix go (args : list prog) (st : list Det.argnt * Det.pos) {struct args} : option (list Det.argnt * Det.pos) :=
                  match args with
                  | [] => Some st
                  | a :: ar => match Det.contains_rec tbl a (snd st) (fst st) with Some st' => go ar st' | None => None end
                  end) ps (st_of_gst st)
               = option_map st_of_gst (contains_args sexp sexp R ps st)).
    { induction IH as [|a pr Ha _ IHl]; intros st; cbn; auto.
      destruct st as [i [y|e]]; cbn.
      + rewrite Ha.
        assert (E : forall (o : option (list (garg sexp) * gpos sexp sexp)) (F : list Det.argnt * Det.pos -> option (list Det.argnt * Det.pos)),
                   (forall st, F (st_of_gst st) = option_map st_of_gst (contains_args sexp sexp R pr st)) ->
                   match option_map st_of_gst o with Some st' => F st' | None => None end
                   = option_map st_of_gst (match o with Some st' => contains_args sexp sexp R pr st' | None => None end)).
        { intros [st'|] F HF; cbn; auto. }
        apply E. exact IHl.
      + destruct a; reflexivity. }
    rewrite Hgo.
    assert (Hif2 : forall (b : bool) (A B : Type) (g : A -> B) (o : option A),
               (if b then option_map g o else None) = option_map g (if b then o else None)).
    { intros [|]; reflexivity. }
    apply Hif2.
Qed.

Lemma det_contains_generic tbl (start : gnt sexp sexp) p :
  Det.contains tbl start p = gcontains sexp sexp (of_table sexp sexp sexp_eqb sexp_eqb tbl) start p.
Proof.
  unfold Det.contains, gcontains. rewrite det_contains_rec_generic.
  assert (E : forall o : option (list (garg sexp) * gpos sexp sexp),
             match option_map st_of_gst o with Some _ => true | None => false end
             = match o with Some _ => true | None => false end).
  { intros [?|]; reflexivity. }
  apply E.
Qed.

(* ====================================================================== *)
(** * Extensionality *)
Section Ext.
  Variables S T : Type.
  Lemma run_ext (R R' : oracle S T) :
    (forall x f, grule_of S T R x f = grule_of S T R' x f) ->
    forall p x, run S T R x p = run S T R' x p.
  Proof.
    intros H p x.
    destruct (run S T R x p) as [y|] eqn:E.
    - symmetry. eapply run_mono; [|exact E]. intros x0 f r. rewrite H. auto.
    - destruct (run S T R' x p) as [y|] eqn:E'; auto.
      erewrite run_mono in E; [discriminate| |exact E']. intros x0 f r. rewrite H. auto.
  Qed.
End Ext.

Lemma alookup_app {K V} (eqb : K -> K -> bool) (k : K) (l l' : list (K * V)) :
  alookup eqb k (l ++ l') = match alookup eqb k l with Some v => Some v | None => alookup eqb k l' end.
Proof. induction l as [|[k' v] r IH]; cbn; auto. destruct (eqb k k'); auto. Qed.

(* ====================================================================== *)
(** * Product *)
Section ProductProofs.
  Variables S1 T1 S2 T2 : Type.
  Variable seqb1 : S1 -> S1 -> bool.
  Variable teqb1 : T1 -> T1 -> bool.
  Variable seqb2 : S2 -> S2 -> bool.
  Variable teqb2 : T2 -> T2 -> bool.
  Hypothesis seqb1_spec : forall a b, seqb1 a b = true <-> a = b.
  Hypothesis teqb1_spec : forall a b, teqb1 a b = true <-> a = b.
  Hypothesis seqb2_spec : forall a b, seqb2 a b = true <-> a = b.
  Hypothesis teqb2_spec : forall a b, teqb2 a b = true <-> a = b.

  Notation S12 := (S1 * S2)%type.
  Notation T12 := (T1 * T2)%type.
  Notation seqb12 := (pair_eqb seqb1 seqb2).
  Notation teqb12 := (pair_eqb teqb1 teqb2).

  Lemma pair_eqb_spec {X Y} (ex : X -> X -> bool) (ey : Y -> Y -> bool) :
    (forall a b, ex a b = true <-> a = b) -> (forall a b, ey a b = true <-> a = b) ->
    forall a b, pair_eqb ex ey a b = true <-> a = b.
  Proof.
    intros Hx Hy [a1 a2] [b1 b2]; unfold pair_eqb; cbn. rewrite andb_true_iff, Hx, Hy.
    split; [intros [-> ->]; reflexivity | intros E; inversion E; auto].
  Qed.

  (** same-symbol rules at non-terminals of the same type take arguments of the same types *)
  Definition compat (R1 : oracle S1 T1) (R2 : oracle S2 T2) : Prop :=
    forall x1 x2 f a1 z1 a2 z2,
      fst (fst x1) = fst (fst x2) ->
      grule_of S1 T1 R1 x1 f = Some (a1, z1) -> grule_of S2 T2 R2 x2 f = Some (a2, z2) ->
      map fst a1 = map fst a2.

  Lemma alookup_mul_rules f l1 l2 :
    alookup sym_eqb f (mul_rules S1 T1 S2 T2 l1 l2) =
    match alookup sym_eqb f l1, alookup sym_eqb f l2 with
    | Some r1, Some r2 => Some (zip_args S1 S2 (fst r1) (fst r2), (snd r1, snd r2))
    | _, _ => None
    end.
  Proof.
    induction l1 as [|[k r1] l IH]; cbn [mul_rules flat_map alookup fst snd]; auto.
    fold (mul_rules S1 T1 S2 T2 l l2).
    destruct (sym_eqb f k) eqn:E.
    - apply sym_eqb_spec in E; subst k.
      destruct (alookup sym_eqb f l2) as [r2|] eqn:E2; cbn.
      + rewrite (proj2 (sym_eqb_spec f f) eq_refl). reflexivity.
      + rewrite IH. destruct (alookup sym_eqb f l); reflexivity.
    - destruct (alookup sym_eqb k l2) as [r2|]; cbn; [rewrite E|]; apply IH.
  Qed.

  Lemma grule_of_mul R1 R2 t s1 s2 y1 y2 f :
    grule_of S12 T12 (mul_oracle S1 T1 S2 T2 R1 R2) (t, (s1, s2), (y1, y2)) f =
    match grule_of S1 T1 R1 (t, s1, y1) f, grule_of S2 T2 R2 (t, s2, y2) f with
    | Some r1, Some r2 => Some (zip_args S1 S2 (fst r1) (fst r2), (snd r1, snd r2))
    | _, _ => None
    end.
  Proof.
    unfold grule_of, mul_oracle; cbn [fst snd].
    destruct (R1 (t, s1, y1)) as [l1|], (R2 (t, s2, y2)) as [l2|]; auto.
    - apply alookup_mul_rules.
    - destruct (alookup sym_eqb f l1); reflexivity.
  Qed.

  Lemma zip_args_nil_iff (a1 : list (garg S1)) (a2 : list (garg S2)) :
    map fst a1 = map fst a2 -> (zip_args S1 S2 a1 a2 = [] <-> a1 = []) /\ (a1 = [] <-> a2 = []).
  Proof.
    destruct a1 as [|x r], a2 as [|y r']; cbn; intros H; try discriminate; repeat split; auto; discriminate.
  Qed.

  Lemma run_args_mul R1 R2 :
    forall ps,
      Forall (fun p => forall t s1 s2 y1 y2,
                  run S12 T12 (mul_oracle S1 T1 S2 T2 R1 R2) (t, (s1, s2), (y1, y2)) p =
                  match run S1 T1 R1 (t, s1, y1) p, run S2 T2 R2 (t, s2, y2) p with
                  | Some a, Some b => Some (a, b)
                  | _, _ => None
                  end) ps ->
      forall a1 a2 z1 z2, map fst a1 = map fst a2 ->
        run_args S12 T12 (mul_oracle S1 T1 S2 T2 R1 R2) (zip_args S1 S2 a1 a2) ps (z1, z2) =
        match run_args S1 T1 R1 a1 ps z1, run_args S2 T2 R2 a2 ps z2 with
        | Some a, Some b => Some (a, b)
        | _, _ => None
        end.
  Proof.
    induction 1 as [|a pr Ha _ IHl]; intros [|[t' s1'] ar1] [|[t'' s2'] ar2] z1 z2 Hm; cbn in Hm; try discriminate; cbn; auto.
    injection Hm as -> Hm.
    rewrite Ha.
    destruct (run S1 T1 R1 (t'', s1', z1) a) as [y1'|], (run S2 T2 R2 (t'', s2', z2) a) as [y2'|]; auto.
    - apply IHl; auto.
    - destruct (run_args S1 T1 R1 ar1 pr y1'); reflexivity.
  Qed.

  Lemma run_mul R1 R2 : compat R1 R2 -> forall p t s1 s2 y1 y2,
      run S12 T12 (mul_oracle S1 T1 S2 T2 R1 R2) (t, (s1, s2), (y1, y2)) p =
      match run S1 T1 R1 (t, s1, y1) p, run S2 T2 R2 (t, s2, y2) p with
      | Some a, Some b => Some (a, b)
      | _, _ => None
      end.
  Proof.
    intros Hc. induction p as [s|f ps IH] using prog_ind'; intros t s1 s2 y1 y2.
    - rewrite !run_leaf, grule_of_mul.
      destruct (grule_of S1 T1 R1 (t, s1, y1) s) as [[a1 z1]|] eqn:E1,
               (grule_of S2 T2 R2 (t, s2, y2) s) as [[a2 z2]|] eqn:E2; cbn [fst snd]; auto.
      + assert (Hm : map fst a1 = map fst a2) by (eapply (Hc (t, s1, y1) (t, s2, y2)); eauto).
        destruct a1 as [|x r], a2 as [|y r']; cbn in Hm; try discriminate; reflexivity.
      + destruct a1; reflexivity.
    - rewrite !run_fun, grule_of_mul.
      destruct (grule_of S1 T1 R1 (t, s1, y1) f) as [[a1 z1]|] eqn:E1,
               (grule_of S2 T2 R2 (t, s2, y2) f) as [[a2 z2]|] eqn:E2; cbn [fst snd]; auto.
      + apply run_args_mul; auto. eapply (Hc (t, s1, y1) (t, s2, y2)); eauto.
      + destruct (run_args S1 T1 R1 a1 ps z1); reflexivity.
  Qed.

  (** the table built by the two nested loops is the product oracle *)
  Lemma inner_lookup t1 s1' y1' (l1 : list (grule S1 T1)) (g2 : gtable S2 T2) t s1 s2 y1 y2 :
    alookup (gnt_eqb S12 T12 seqb12 teqb12) (t, (s1, s2), (y1, y2))
            (flat_map (fun e2 : gnt S2 T2 * list (grule S2 T2) =>
                         let '(t2, s3, y3) := fst e2 in
                         if ty_eqb t1 t2 then [((t1, (s1', s3), (y1', y3)), mul_rules S1 T1 S2 T2 l1 (snd e2))] else []) g2)
    = if gnt_eqb S1 T1 seqb1 teqb1 (t, s1, y1) (t1, s1', y1')
      then match alookup (gnt_eqb S2 T2 seqb2 teqb2) (t, s2, y2) g2 with
           | Some l2 => Some (mul_rules S1 T1 S2 T2 l1 l2)
           | None => None
           end
      else None.
  Proof.
    induction g2 as [|[[[t2 s2'] y2'] l2] g2' IH2]; cbn [flat_map alookup fst snd].
    - destruct (gnt_eqb S1 T1 seqb1 teqb1 (t, s1, y1) (t1, s1', y1')); reflexivity.
    - rewrite alookup_app, IH2. clear IH2.
      unfold gnt_eqb, pair_eqb; cbn [fst snd].
      destruct (ty_eqb t1 t2) eqn:E12.
      + apply ty_eqb_spec in E12; subst t2. cbn [alookup fst snd].
        unfold gnt_eqb, pair_eqb; cbn [fst snd].
        destruct (ty_eqb t t1), (seqb1 s1 s1'), (teqb1 y1 y1'), (seqb2 s2 s2'), (teqb2 y2 y2'); cbn; auto.
      + cbn [alookup].
        destruct (ty_eqb t t1) eqn:E1; cbn; auto.
        apply ty_eqb_spec in E1; subst t1. rewrite E12. cbn. reflexivity.
  Qed.

  Lemma of_table_mul_raw g1 g2 t s1 s2 y1 y2 :
    of_table S12 T12 seqb12 teqb12 (mul_raw S1 T1 S2 T2 g1 g2) (t, (s1, s2), (y1, y2)) =
    mul_oracle S1 T1 S2 T2 (of_table S1 T1 seqb1 teqb1 g1) (of_table S2 T2 seqb2 teqb2 g2) (t, (s1, s2), (y1, y2)).
  Proof.
    unfold of_table, mul_oracle; cbn [fst snd].
    induction g1 as [|[[[t1 s1'] y1'] l1] g1' IH]; [reflexivity|].
    cbn [mul_raw flat_map]. fold (mul_raw S1 T1 S2 T2 g1' g2).
    rewrite alookup_app, IH. clear IH.
    cbn [alookup].
    match goal with
    | |- match alookup ?e ?k ?l with Some v => Some v | None => ?rest end = _ =>
      replace (alookup e k l) with
          (if gnt_eqb S1 T1 seqb1 teqb1 (t, s1, y1) (t1, s1', y1')
           then match alookup (gnt_eqb S2 T2 seqb2 teqb2) (t, s2, y2) g2 with
                | Some l2 => Some (mul_rules S1 T1 S2 T2 l1 l2)
                | None => None
                end
           else None) by (symmetry; apply inner_lookup)
    end.
    destruct (gnt_eqb S1 T1 seqb1 teqb1 (t, s1, y1) (t1, s1', y1')).
    - destruct (alookup (gnt_eqb S2 T2 seqb2 teqb2) (t, s2, y2) g2); auto.
      destruct (alookup (gnt_eqb S1 T1 seqb1 teqb1) (t, s1, y1) g1'); reflexivity.
    - reflexivity.
  Qed.

  Lemma grule_of_mul_raw g1 g2 x f :
    grule_of S12 T12 (of_table S12 T12 seqb12 teqb12 (mul_raw S1 T1 S2 T2 g1 g2)) x f =
    grule_of S12 T12 (mul_oracle S1 T1 S2 T2 (of_table S1 T1 seqb1 teqb1 g1) (of_table S2 T2 seqb2 teqb2 g2)) x f.
  Proof. destruct x as [[t [s1 s2]] [y1 y2]]. unfold grule_of. rewrite of_table_mul_raw. reflexivity. Qed.

  Lemma compatb_sound g1 g2 :
    compatb S1 T1 S2 T2 g1 g2 = true -> compat (of_table S1 T1 seqb1 teqb1 g1) (of_table S2 T2 seqb2 teqb2 g2).
  Proof.
    unfold compatb, compat. intros H x1 x2 f a1 z1 a2 z2 Ht H1 H2.
    unfold grule_of in H1, H2.
    destruct (of_table S1 T1 seqb1 teqb1 g1 x1) as [l1|] eqn:E1; try discriminate.
    destruct (of_table S2 T2 seqb2 teqb2 g2 x2) as [l2|] eqn:E2; try discriminate.
    apply (of_table_in S1 T1 seqb1 teqb1 seqb1_spec teqb1_spec) in E1.
    apply (of_table_in S2 T2 seqb2 teqb2 seqb2_spec teqb2_spec) in E2.
    apply alookup_sym_in in H1. apply alookup_sym_in in H2.
    rewrite forallb_forall in H. specialize (H _ E1). rewrite forallb_forall in H. specialize (H _ E2).
    cbn [fst snd] in H. rewrite Ht, ty_eqb_refl in H. cbn in H.
    rewrite forallb_forall in H. specialize (H _ H1). rewrite forallb_forall in H. specialize (H _ H2).
    cbn [fst snd] in H. rewrite (proj2 (sym_eqb_spec f f) eq_refl) in H. cbn in H.
    apply (list_eqb_spec ty_eqb ty_eqb_spec) in H. exact H.
  Qed.

  (** the product before cleaning: membership is the conjunction *)
  Lemma contains_mul_raw g1 g2 (x1 : gnt S1 T1) (x2 : gnt S2 T2) p :
    compat (of_table S1 T1 seqb1 teqb1 g1) (of_table S2 T2 seqb2 teqb2 g2) ->
    fst (fst x1) = fst (fst x2) ->
    gcontains S12 T12 (of_table S12 T12 seqb12 teqb12 (mul_raw S1 T1 S2 T2 g1 g2)) (mul_start S1 T1 S2 T2 x1 x2) p =
    gcontains S1 T1 (of_table S1 T1 seqb1 teqb1 g1) x1 p && gcontains S2 T2 (of_table S2 T2 seqb2 teqb2 g2) x2 p.
  Proof.
    intros Hc Ht. rewrite !gcontains_run.
    rewrite (run_ext _ _ _ _ (grule_of_mul_raw g1 g2)).
    destruct x1 as [[t1 s1] y1], x2 as [[t2 s2] y2]; cbn in Ht; subst t2. unfold mul_start; cbn [fst snd].
    rewrite run_mul by assumption.
    destruct (run S1 T1 _ (t1, s1, y1) p), (run S2 T2 _ (t1, s2, y2) p); reflexivity.
  Qed.
End ProductProofs.

(* ====================================================================== *)
(** * TTCFG.clean preserves the language *)
Section CleanProofs.
  Variables S T : Type.
  Variable seqb : S -> S -> bool.
  Variable teqb : T -> T -> bool.
  Hypothesis seqb_spec : forall a b, seqb a b = true <-> a = b.
  Hypothesis teqb_spec : forall a b, teqb a b = true <-> a = b.
  Variable tbl : gtable S T.

  Notation gnt := (gnt S T).
  Notation garg := (garg S).
  Notation grhs := (grhs S T).
  Notation config := (config S T).
  Notation nrmap := (nrmap S T).
  Notation geqb := (gnt_eqb S T seqb teqb).
  Notation R := (of_table S T seqb teqb tbl).
  Notation intbl := (in_tbl S T seqb teqb tbl).
  Notation nrmem := (nr_mem S T seqb teqb).
  Notation nrdel := (nr_del S T seqb teqb).

  Let geqb_spec := gnt_eqb_spec S T seqb teqb seqb_spec teqb_spec.

  (** one step of the traversal: the configuration reached by deriving one symbol *)
  Definition cstep (c c' : config) : Prop :=
    exists P r, grule_of S T R (fst c) P = Some r /\
                gderive S T (snd c) r = (snd c', GAt (fst c')) /\ intbl (fst c') = true.
  Definition creach (start : gnt) (c : config) : Prop := clos_refl_trans config cstep (start, []) c.

  Lemma creach_step start c c' : creach start c -> cstep c c' -> creach start c'.
  Proof. intros H H'. eapply rt_trans; [exact H|apply rt_step; exact H']. Qed.

  Lemma cstep_succs x info rs c' :
    R x = Some rs -> cstep (x, info) c' -> In c' (succs S T seqb teqb tbl info rs).
  Proof.
    intros HR (P & r & Hr & Hd & Hin). cbn [fst snd] in *.
    unfold grule_of in Hr. rewrite HR in Hr. apply alookup_sym_in in Hr.
    unfold succs. apply in_flat_map. exists (P, r); split; auto. cbn [snd].
    rewrite Hd, Hin. destruct c'; left; reflexivity.
  Qed.

  (* ---- the map new_rules ---- *)
  Lemma nrdel_same x (nr : nrmap) : alookup geqb x (nrdel x nr) = None.
  Proof.
    unfold nr_del. induction nr as [|[k v] r IH]; cbn; auto.
    destruct (geqb x k) eqn:E; cbn; auto. rewrite E. auto.
  Qed.

  Lemma nrdel_other x x0 (nr : nrmap) : x0 <> x -> alookup geqb x0 (nrdel x nr) = alookup geqb x0 nr.
  Proof.
    intros Hn. unfold nr_del. induction nr as [|[k v] r IH]; cbn; auto.
    destruct (geqb x k) eqn:E; cbn.
    - apply geqb_spec in E; subst k. rewrite (keqb_neq geqb geqb_spec x0 x Hn). auto.
    - destruct (geqb x0 k); auto.
  Qed.

  Lemma nrmem_app x (nr nr' : nrmap) : nrmem x (nr ++ nr') = nrmem x nr || nrmem x nr'.
  Proof. unfold nr_mem. rewrite alookup_app. destruct (alookup geqb x nr); reflexivity. Qed.

  (* ---- pass 1 ---- *)
  Definition full (nr : nrmap) : Prop :=
    forall x syms, alookup geqb x nr = Some syms -> exists rs, R x = Some rs /\ syms = map fst rs.

  Lemma reach_spec : forall fuel wl nr nr',
      reach S T seqb teqb fuel tbl wl nr = Some nr' -> full nr ->
      full nr' /\ (forall x, nrmem x nr = true -> nrmem x nr' = true) /\
      (forall c, In c wl -> forall c', clos_refl_trans_1n config cstep c c' -> nrmem (fst c') nr' = true).
  Proof.
    induction fuel as [|f IH]; intros wl nr nr' H Hfull; [discriminate|].
    cbn in H. destruct wl as [|[x info] rest].
    - inversion H; subst. repeat split; auto; intros c [].
    - destruct (R x) as [rs|] eqn:HR; try discriminate.
      set (nr1 := if nrmem x nr then nr else nr ++ [(x, map fst rs)]) in H.
      assert (Hfull1 : full nr1).
      { subst nr1. destruct (nrmem x nr) eqn:Em; auto.
        intros x0 syms. rewrite alookup_app. destruct (alookup geqb x0 nr) eqn:E0.
        - intros E; inversion E; subst. eapply Hfull; eauto.
        - cbn. destruct (geqb x0 x) eqn:Ex; try discriminate.
          apply geqb_spec in Ex; subst x0. intros E; inversion E; subst. eauto. }
      assert (Hmono1 : forall x0, nrmem x0 nr = true -> nrmem x0 nr1 = true).
      { subst nr1. destruct (nrmem x nr); auto. intros x0 Hx0. rewrite nrmem_app, Hx0. reflexivity. }
      assert (Hx1 : nrmem x nr1 = true).
      { subst nr1. destruct (nrmem x nr) eqn:Em; auto. rewrite nrmem_app. unfold nr_mem at 2. cbn.
        rewrite (keqb_refl geqb geqb_spec). apply orb_true_r. }
      destruct (IH _ _ _ H Hfull1) as (Hf' & Hm' & He').
      repeat split; auto.
      intros c [Hc|Hc] c' Hpath.
      + subst c. inversion Hpath as [|c1 c2 Hs Hp]; subst.
        * cbn. auto.
        * eapply He'; [|exact Hp]. apply in_or_app; left. apply -> in_rev.
          eapply cstep_succs; eauto.
      + eapply He'; [|exact Hpath]. apply in_or_app; right; auto.
  Qed.

  (* ---- pass 2 ---- *)
  Definition dead (x : gnt) : Prop := forall p, run S T R x p = None.
  Definition deadrule (r : grhs) : Prop := exists t s a, fst r = (t, s) :: a /\ dead (t, s, snd r).

  Definition Inv (start : gnt) (nr : nrmap) : Prop :=
    (forall c, creach start c -> nrmem (fst c) nr = false -> dead (fst c)) /\
    (forall x syms, alookup geqb x nr = Some syms ->
                    forall P r, grule_of S T R x P = Some r -> In P syms \/ deadrule r).

  Lemma dead_of_rules x : (forall P r, grule_of S T R x P = Some r -> deadrule r) -> dead x.
  Proof.
    intros H p. destruct p as [s|f ps].
    - rewrite run_leaf. destruct (grule_of S T R x s) as [[args y]|] eqn:E; auto.
      destruct (H _ _ E) as (t & s0 & a & Ha & _). cbn in Ha. subst args. reflexivity.
    - rewrite run_fun. destruct (grule_of S T R x f) as [[args y]|] eqn:E; auto.
      destruct (H _ _ E) as (t & s0 & a & Ha & Hd). cbn in Ha, Hd. subst args.
      destruct ps as [|p0 pr]; cbn; auto. rewrite Hd. reflexivity.
  Qed.

  Lemma sym_remove_in P q syms : In q (sym_remove P syms) <-> In q syms /\ q <> P.
  Proof.
    unfold sym_remove. rewrite filter_In. split; intros [H1 H2]; split; auto.
    - intros ->. rewrite (proj2 (sym_eqb_spec P P) eq_refl) in H2. discriminate.
    - destruct (sym_eqb P q) eqn:E; auto. apply sym_eqb_spec in E. congruence.
  Qed.

  Lemma sweep_sym_inv start x info nr pushed ch P nr' pushed' ch' :
    Inv start nr -> creach start (x, info) -> (forall c, In c pushed -> creach start c) ->
    sweep_sym S T seqb teqb tbl x info (nr, pushed, ch) P = (nr', pushed', ch') ->
    Inv start nr' /\ (forall c, In c pushed' -> creach start c).
  Proof.
    intros HI Hx Hp. unfold sweep_sym.
    destruct (grule_of S T R x P) as [r|] eqn:Er; [|intros E; inversion E; subst; auto].
    destruct (gderive S T info r) as [info' [x'|ye]] eqn:Ed; [|intros E; inversion E; subst; auto].
    assert (Hreach' : intbl x' = true -> creach start (x', info')).
    { intros Hin. eapply creach_step; [exact Hx|]. exists P, r; cbn; auto. }
    destruct (negb (nrmem x' nr) && intbl x' && (length info <=? length info')) eqn:Ec.
    - apply andb_true_iff in Ec as [Ec Hlen]. apply andb_true_iff in Ec as [Hnm Hin].
      apply negb_true_iff in Hnm. apply Nat.leb_le in Hlen.
      (* the rule has arguments and its first argument's non-terminal is dead *)
      assert (Hdr : deadrule r).
      { destruct r as [args y]. unfold gderive, gnext in Ed; cbn [fst snd] in Ed.
        destruct args as [|[t s] a].
        - cbn in Ed. destruct info as [|[t s] rest]; inversion Ed; subst. cbn in Hlen. lia.
        - cbn in Ed. inversion Ed; subst. exists t, s, a; split; auto. cbn [snd].
          destruct HI as [HI1 _]. apply (HI1 ((t, s, y), a ++ info)); auto. }
      destruct (alookup geqb x nr) as [syms|] eqn:Es; [|intros E; inversion E; subst; auto].
      destruct HI as [HI1 HI2].
      destruct (sym_remove P syms) as [|q0 qs] eqn:Erm; intros E; inversion E; subst; clear E; split; auto.
      + split.
        * intros c Hc Hm. destruct (geqb (fst c) x) eqn:Ecx.
          -- apply geqb_spec in Ecx. rewrite Ecx. apply dead_of_rules. intros P0 r0 H0.
             destruct (HI2 _ _ Es _ _ H0) as [Hin0|]; auto.
             assert (P0 = P).
             { destruct (sym_eqb P P0) eqn:E0; [apply sym_eqb_spec in E0; auto|].
               assert (In P0 (sym_remove P syms)) by (apply sym_remove_in; split; auto; intros ->;
                 rewrite (proj2 (sym_eqb_spec P P) eq_refl) in E0; discriminate).
               rewrite Erm in H. destruct H. }
             subst P0. rewrite Er in H0. inversion H0; subst. auto.
          -- apply HI1; auto. unfold nr_mem in *. rewrite nrdel_other in Hm; auto.
             intros Heq. rewrite Heq, (keqb_refl geqb geqb_spec) in Ecx. discriminate.
        * intros x0 syms0 H0. destruct (geqb x0 x) eqn:E0.
          -- apply geqb_spec in E0; subst x0. rewrite nrdel_same in H0. discriminate.
          -- rewrite nrdel_other in H0; [eapply HI2; eauto|].
             intros Heq. rewrite Heq, (keqb_refl geqb geqb_spec) in E0. discriminate.
      + split.
        * intros c Hc Hm. apply HI1; auto. unfold nr_mem in *.
          destruct (geqb x (fst c)) eqn:Ecx.
          -- apply geqb_spec in Ecx. rewrite <- Ecx in Hm. rewrite (alookup_ainsert_same geqb geqb_spec) in Hm. discriminate.
          -- rewrite (alookup_ainsert_other geqb geqb_spec) in Hm; auto.
             intros Heq. rewrite Heq, (keqb_refl geqb geqb_spec) in Ecx. discriminate.
        * intros x0 syms0 H0 P0 r0 Hr0. destruct (geqb x x0) eqn:E0.
          -- apply geqb_spec in E0; subst x0. rewrite (alookup_ainsert_same geqb geqb_spec) in H0.
             inversion H0; subst syms0. rewrite <- Erm.
             destruct (HI2 _ _ Es _ _ Hr0) as [Hin0|]; auto.
             destruct (sym_eqb P P0) eqn:E0.
             ++ apply sym_eqb_spec in E0; subst P0. rewrite Er in Hr0. inversion Hr0; subst. auto.
             ++ left. apply sym_remove_in; split; auto. intros ->.
                rewrite (proj2 (sym_eqb_spec P P) eq_refl) in E0. discriminate.
          -- rewrite (alookup_ainsert_other geqb geqb_spec) in H0; [eapply HI2; eauto|].
             intros Heq. rewrite Heq, (keqb_refl geqb geqb_spec) in E0. discriminate.
    - destruct (intbl x') eqn:Hin; intros E; inversion E; subst; split; auto.
      intros c Hc. apply in_app_or in Hc as [Hc|[Hc|[]]]; auto. subst c. auto.
  Qed.

  Lemma sweep_fold_inv start x info : forall l nr pushed ch nr' pushed' ch',
      Inv start nr -> creach start (x, info) -> (forall c, In c pushed -> creach start c) ->
      fold_left (sweep_sym S T seqb teqb tbl x info) l (nr, pushed, ch) = (nr', pushed', ch') ->
      Inv start nr' /\ (forall c, In c pushed' -> creach start c).
  Proof.
    induction l as [|P l IH]; intros nr pushed ch nr' pushed' ch' HI Hx Hp H.
    - cbn in H. inversion H; subst; auto.
    - cbn [fold_left] in H.
      destruct (sweep_sym S T seqb teqb tbl x info (nr, pushed, ch) P) as [[nr1 pushed1] ch1] eqn:E1.
      destruct (sweep_sym_inv _ _ _ _ _ _ _ _ _ _ HI Hx Hp E1) as [HI1 Hp1].
      eapply IH; eauto.
  Qed.

  Lemma sweep_inv start ord : forall fuel wl nr ch nr' ch',
      sweep S T seqb teqb fuel tbl ord wl nr ch = Some (nr', ch') ->
      Inv start nr -> (forall c, In c wl -> creach start c) -> Inv start nr'.
  Proof.
    induction fuel as [|f IH]; intros wl nr ch nr' ch' H HI Hwl; [discriminate|].
    cbn in H. destruct wl as [|[x info] rest]; [inversion H; subst; auto|].
    assert (Hrest : forall c, In c rest -> creach start c) by (intros c Hc; apply Hwl; right; auto).
    assert (Hx : creach start (x, info)) by (apply Hwl; left; auto).
    destruct (alookup geqb x nr) as [[|q syms]|] eqn:Es.
    - (* empty: deleted *)
      eapply IH; [exact H| |exact Hrest].
      destruct HI as [HI1 HI2]. split.
      + intros c Hc Hm. destruct (geqb (fst c) x) eqn:Ecx.
        * apply geqb_spec in Ecx. rewrite Ecx. apply dead_of_rules. intros P0 r0 H0.
          destruct (HI2 _ _ Es _ _ H0) as [[]|]; auto.
        * apply HI1; auto. unfold nr_mem in *. rewrite nrdel_other in Hm; auto.
          intros Heq. rewrite Heq, (keqb_refl geqb geqb_spec) in Ecx. discriminate.
      + intros x0 syms0 H0. destruct (geqb x0 x) eqn:E0.
        * apply geqb_spec in E0; subst x0. rewrite nrdel_same in H0. discriminate.
        * rewrite nrdel_other in H0; [eapply HI2; eauto|].
          intros Heq. rewrite Heq, (keqb_refl geqb geqb_spec) in E0. discriminate.
    - destruct (fold_left (sweep_sym S T seqb teqb tbl x info) (ord (q :: syms)) (nr, [], ch)) as [[nr1 pushed1] ch1] eqn:Ef.
      destruct (sweep_fold_inv start x info _ _ _ _ _ _ _ HI Hx (fun c (F : In c []) => match F with end) Ef) as [HI1 Hp1].
      eapply IH; [exact H|exact HI1|].
      intros c Hc. apply in_app_or in Hc as [Hc|Hc]; auto. apply Hp1. apply in_rev; auto.
    - eapply IH; eauto.
  Qed.

  Lemma sweeps_inv start ord fuel : forall outer nr nr',
      sweeps S T seqb teqb outer fuel tbl ord start nr = Some nr' -> Inv start nr -> Inv start nr'.
  Proof.
    induction outer as [|o IH]; intros nr nr' H HI; [discriminate|].
    cbn in H. destruct (sweep S T seqb teqb fuel tbl ord [(start, [])] nr false) as [[nr1 [|]]|] eqn:E; try discriminate.
    - eapply IH; [exact H|]. eapply sweep_inv; [exact E|exact HI|].
      intros c [<-|[]]. apply rt_refl.
    - inversion H; subst. eapply sweep_inv; [exact E|exact HI|].
      intros c [<-|[]]. apply rt_refl.
  Qed.

  (* ---- the final table ---- *)
  Definition keep_rules (x : gnt) (syms : list sym) : list (grule S T) :=
    flat_map (fun P => match grule_of S T R x P with Some r => [(P, r)] | None => [] end) syms.

  Lemma of_table_restrict (nr : nrmap) x :
    of_table S T seqb teqb (restrict S T seqb teqb tbl nr) x =
    match alookup geqb x nr with Some syms => Some (keep_rules x syms) | None => None end.
  Proof.
    unfold of_table, restrict. induction nr as [|[k syms] r IH]; cbn; auto.
    destruct (geqb x k) eqn:E; auto. apply geqb_spec in E; subst k. reflexivity.
  Qed.

  Lemma keep_rules_sub x syms P r : alookup sym_eqb P (keep_rules x syms) = Some r -> grule_of S T R x P = Some r.
  Proof.
    unfold keep_rules. induction syms as [|q l IH]; cbn; try discriminate.
    destruct (grule_of S T R x q) as [rq|] eqn:Eq; cbn; auto.
    destruct (sym_eqb P q) eqn:E; auto. apply sym_eqb_spec in E; subst q. intros H; inversion H; subst; auto.
  Qed.

  Lemma keep_rules_keep x syms P r : In P syms -> grule_of S T R x P = Some r -> alookup sym_eqb P (keep_rules x syms) = Some r.
  Proof.
    unfold keep_rules. induction syms as [|q l IH]; cbn; intros [] Hr.
    - subst q. rewrite Hr. cbn. rewrite (proj2 (sym_eqb_spec P P) eq_refl). reflexivity.
    - destruct (grule_of S T R x q) as [rq|] eqn:Eq; cbn; auto.
      destruct (sym_eqb P q) eqn:E; auto. apply sym_eqb_spec in E; subst q. congruence.
  Qed.

  Lemma restrict_sub (nr : nrmap) x P r :
    grule_of S T (of_table S T seqb teqb (restrict S T seqb teqb tbl nr)) x P = Some r -> grule_of S T R x P = Some r.
  Proof.
    unfold grule_of at 1. rewrite of_table_restrict. destruct (alookup geqb x nr); try discriminate.
    apply keep_rules_sub.
  Qed.

  Definition after (start : gnt) (info : list garg) (y : T) : Prop :=
    match info with
    | [] => True
    | (t, s) :: rest => intbl (t, s, y) = true -> creach start ((t, s, y), rest)
    end.

  Lemma after_rule start x info f args y0 :
    creach start (x, info) -> grule_of S T R x f = Some (args, y0) -> after start (args ++ info) y0.
  Proof.
    intros Hx Hr. unfold after. destruct (args ++ info) as [|[t s] rest] eqn:E; auto.
    intros Hin. eapply creach_step; [exact Hx|]. exists f, (args, y0); cbn [fst snd]. repeat split; auto.
    unfold gderive, gnext; cbn [fst snd]. rewrite E. reflexivity.
  Qed.

  Lemma clean_keep start (nr : nrmap) : Inv start nr ->
    forall p x info y, creach start (x, info) -> run S T R x p = Some y ->
      run S T (of_table S T seqb teqb (restrict S T seqb teqb tbl nr)) x p = Some y /\ after start info y.
  Proof.
    intros [HI1 HI2].
    set (R' := of_table S T seqb teqb (restrict S T seqb teqb tbl nr)).
    assert (Hkeep : forall x info f args y0, creach start (x, info) -> grule_of S T R x f = Some (args, y0) ->
                      (forall t s a, args = (t, s) :: a -> ~ dead (t, s, y0)) -> ~ dead x ->
                      grule_of S T R' x f = Some (args, y0)).
    { intros x info f args y0 Hx Hr Hnd Hndx.
      destruct (nrmem x nr) eqn:Em.
      - unfold nr_mem in Em. destruct (alookup geqb x nr) as [syms|] eqn:Es; try discriminate.
        unfold grule_of, R'. rewrite of_table_restrict, Es. apply keep_rules_keep; auto.
        destruct (HI2 _ _ Es _ _ Hr) as [|(t & s & a & Ha & Hd)]; auto.
        cbn in Ha, Hd. exfalso. eapply Hnd; eauto.
      - exfalso. apply Hndx. apply (HI1 (x, info)); auto. }
    induction p as [s|f ps IH] using prog_ind'; intros x info y Hx Hrun.
    - assert (Hndx : ~ dead x) by (intros Hd; rewrite Hd in Hrun; discriminate).
      rewrite run_leaf in *. destruct (grule_of S T R x s) as [[[|a0 ar] y0]|] eqn:Er; try discriminate.
      inversion Hrun; subst y0.
      rewrite (Hkeep _ _ _ _ _ Hx Er); auto; [|intros; discriminate].
      split; auto. apply (after_rule start x info s [] y Hx Er).
    - assert (Hndx : ~ dead x) by (intros Hd; rewrite Hd in Hrun; discriminate).
      rewrite run_fun in *. destruct (grule_of S T R x f) as [[args y0]|] eqn:Er; try discriminate.
      rewrite (Hkeep _ _ _ _ _ Hx Er); auto.
      + pose proof (after_rule start x info f args y0 Hx Er) as Haft.
        clear Er Hkeep. revert args y0 Hrun Haft.
        induction IH as [|a pr Ha _ IHl]; intros [|[t s] ar] y0 Hrun Haft; cbn in Hrun; try discriminate.
        * inversion Hrun; subst. cbn. auto.
        * cbn. destruct (run S T R (t, s, y0) a) as [y1|] eqn:E1; try discriminate.
          cbn [app] in Haft. unfold after in Haft.
          assert (Hc : creach start ((t, s, y0), ar ++ info)).
          { apply Haft. eapply run_in_tbl; eauto. }
          destruct (Ha _ _ _ Hc E1) as [Hr1 Haft1]. rewrite Hr1. apply IHl; auto.
      + intros t s a -> Hd. destruct ps as [|p0 pr]; cbn in Hrun; try discriminate.
        rewrite Hd in Hrun. discriminate.
  Qed.

  Lemma inv_init start nr fuel :
    reach S T seqb teqb fuel tbl [(start, [])] [] = Some nr -> Inv start nr.
  Proof.
    intros H.
    destruct (reach_spec _ _ _ _ H) as (Hfull & _ & Hexp); [intros x syms E; discriminate|].
    split.
    - intros c Hc Hm. rewrite (Hexp (start, []) (or_introl eq_refl) c) in Hm; [discriminate|].
      apply clos_rt_rt1n. exact Hc.
    - intros x syms Es P r Hr. left. destruct (Hfull _ _ Es) as (rs & HR & ->).
      unfold grule_of in Hr. rewrite HR in Hr. apply alookup_sym_in in Hr.
      apply in_map_iff. exists (P, r); auto.
  Qed.

  (** C13_clean_language, generic form *)
  Theorem clean_language fuel ord start g' p :
    gclean S T seqb teqb fuel ord tbl start = Some g' ->
    gcontains S T (of_table S T seqb teqb g') start p = gcontains S T R start p.
  Proof.
    unfold gclean. destruct (reach S T seqb teqb fuel tbl [(start, [])] []) as [nr|] eqn:E1; try discriminate.
    destruct (sweeps S T seqb teqb fuel fuel tbl ord start nr) as [nr'|] eqn:E2; try discriminate.
    intros H; inversion H; subst g'; clear H.
    assert (HI : Inv start nr') by (eapply sweeps_inv; [exact E2|]; eapply inv_init; eauto).
    rewrite !gcontains_run.
    destruct (run S T R start p) as [y|] eqn:Er.
    - destruct (clean_keep start nr' HI p start [] y (rt_refl _ _ _) Er) as [-> _]. reflexivity.
    - destruct (run S T (of_table S T seqb teqb (restrict S T seqb teqb tbl nr')) start p) as [y|] eqn:Er'; auto.
      erewrite run_mono in Er; [discriminate| |exact Er']. intros x f r. apply restrict_sub.
  Qed.
End CleanProofs.

(* ====================================================================== *)
(** * Product followed by clean: C13_product, generic form *)
Section ProductClean.
  Variables S1 T1 S2 T2 : Type.
  Variable seqb1 : S1 -> S1 -> bool.
  Variable teqb1 : T1 -> T1 -> bool.
  Variable seqb2 : S2 -> S2 -> bool.
  Variable teqb2 : T2 -> T2 -> bool.
  Hypothesis seqb1_spec : forall a b, seqb1 a b = true <-> a = b.
  Hypothesis teqb1_spec : forall a b, teqb1 a b = true <-> a = b.
  Hypothesis seqb2_spec : forall a b, seqb2 a b = true <-> a = b.
  Hypothesis teqb2_spec : forall a b, teqb2 a b = true <-> a = b.

  Theorem product_language fuel ord g1 (x1 : gnt S1 T1) g2 (x2 : gnt S2 T2) g p :
    compat S1 T1 S2 T2 (of_table S1 T1 seqb1 teqb1 g1) (of_table S2 T2 seqb2 teqb2 g2) ->
    fst (fst x1) = fst (fst x2) ->
    gmul S1 T1 S2 T2 seqb1 teqb1 seqb2 teqb2 fuel ord g1 x1 g2 x2 = Some g ->
    gcontains (S1 * S2) (T1 * T2) (of_table (S1 * S2) (T1 * T2) (pair_eqb seqb1 seqb2) (pair_eqb teqb1 teqb2) g)
              (mul_start S1 T1 S2 T2 x1 x2) p =
    gcontains S1 T1 (of_table S1 T1 seqb1 teqb1 g1) x1 p && gcontains S2 T2 (of_table S2 T2 seqb2 teqb2 g2) x2 p.
  Proof.
    intros Hc Ht Hm. unfold gmul in Hm.
    rewrite (clean_language (S1 * S2) (T1 * T2) (pair_eqb seqb1 seqb2) (pair_eqb teqb1 teqb2)
                            (pair_eqb_spec seqb1 seqb2 seqb1_spec seqb2_spec)
                            (pair_eqb_spec teqb1 teqb2 teqb1_spec teqb2_spec) _ _ _ _ _ p Hm).
    apply contains_mul_raw; auto.
  Qed.
End ProductClean.

(* ====================================================================== *)
(** * Transfer of membership between two rule sources along reachable configurations *)
Section Transfer.
  Variables S T : Type.
  Variables R R' : oracle S T.
  Variable good : config S T -> Prop.
  Hypothesis good_step : forall x info f args y0 t s rest,
      good (x, info) -> grule_of S T R x f = Some (args, y0) -> args ++ info = (t, s) :: rest ->
      good ((t, s, y0), rest).
  Hypothesis keep : forall x info f r, good (x, info) -> grule_of S T R x f = Some r -> grule_of S T R' x f = Some r.

  Lemma transfer : forall p x info y,
      good (x, info) -> run S T R x p = Some y ->
      run S T R' x p = Some y /\ (forall t s rest, info = (t, s) :: rest -> good ((t, s, y), rest)).
  Proof.
    induction p as [s|f ps IH] using prog_ind'; intros x info y Hx Hrun.
    - rewrite run_leaf in *. destruct (grule_of S T R x s) as [[[|a0 ar] y0]|] eqn:Er; try discriminate.
      inversion Hrun; subst y0. rewrite (keep _ _ _ _ Hx Er). split; auto.
      intros t s0 rest ->. eapply good_step; eauto.
    - rewrite run_fun in *. destruct (grule_of S T R x f) as [[args y0]|] eqn:Er; try discriminate.
      rewrite (keep _ _ _ _ Hx Er).
      assert (Haft : forall t s rest, args ++ info = (t, s) :: rest -> good ((t, s, y0), rest)).
      { intros; eapply good_step; eauto. }
      clear Er. revert args y0 Hrun Haft.
      induction IH as [|a pr Ha _ IHl]; intros [|[t s] ar] y0 Hrun Haft; cbn in Hrun; try discriminate.
      + inversion Hrun; subst. cbn. split; auto.
      + cbn. destruct (run S T R (t, s, y0) a) as [y1|] eqn:E1; try discriminate.
        assert (Hc : good ((t, s, y0), ar ++ info)) by (apply Haft; reflexivity).
        destruct (Ha _ _ _ Hc E1) as [Hr1 Haft1]. rewrite Hr1. apply IHl; auto.
  Qed.
End Transfer.

(* ====================================================================== *)
(** * The saturation builder *)
Section SatProofs.
  Variables S T : Type.
  Variable seqb : S -> S -> bool.
  Variable teqb : T -> T -> bool.
  Hypothesis seqb_spec : forall a b, seqb a b = true <-> a = b.
  Hypothesis teqb_spec : forall a b, teqb a b = true <-> a = b.
  Variable brules : gnt S T -> list (grule S T).

  Notation gnt := (gnt S T).
  Notation garg := (garg S).
  Notation config := (config S T).
  Notation item := (item S T).
  Notation geqb := (gnt_eqb S T seqb teqb).
  Notation ceqb := (config_eqb S T seqb teqb).
  Notation Rb := (fun x : gnt => Some (brules x)).
  Let geqb_spec := gnt_eqb_spec S T seqb teqb seqb_spec teqb_spec.

  Lemma config_eqb_spec : forall a b : config, ceqb a b = true <-> a = b.
  Proof.
    intros [x i] [x' i']; unfold config_eqb; cbn.
    rewrite andb_true_iff, geqb_spec, (list_eqb_spec _ (garg_eqb_spec S seqb seqb_spec)).
    split; [intros [-> ->]; reflexivity | intros E; inversion E; auto].
  Qed.

  (** a step of the derivation in the grammar given by brules *)
  Definition ostep (c c' : config) : Prop :=
    exists P r, In (P, r) (brules (fst c)) /\ gderive S T (snd c) r = (snd c', GAt (fst c')).
  Definition oreach (start : gnt) (c : config) : Prop := clos_refl_trans config ostep (start, []) c.

  Definition item_of (c : config) : item := ((fst (fst (fst c)), snd (fst (fst c))), snd (fst c), snd c).
  Definition config_of (i : item) : config := ((fst (fst (fst i)), snd (fst (fst i)), snd (fst i)), snd i).

  Lemma config_item c : config_of (item_of c) = c.
  Proof. destruct c as [[[t s] y] st]; reflexivity. Qed.

  (** whatever the visited test, every entry of the table is brules at its key *)
  Lemma sat_sound confkey : forall fuel wl seen tbl tbl',
      sat S T seqb teqb brules confkey fuel wl seen tbl = Some tbl' ->
      (forall x rs, of_table S T seqb teqb tbl x = Some rs -> rs = brules x) ->
      forall x rs, of_table S T seqb teqb tbl' x = Some rs -> rs = brules x.
  Proof.
    induction fuel as [|f IH]; intros wl seen tbl tbl' H Hok; [discriminate|].
    cbn in H. destruct wl as [|[[a y] stack] rest]; [inversion H; subst; auto|].
    match type of H with (if ?b then _ else _) = _ => destruct b end; [eapply IH; eauto|].
    eapply IH; [exact H|].
    destruct (in_tbl S T seqb teqb tbl (fst a, snd a, y)) eqn:E; auto.
    intros x rs. unfold of_table. rewrite alookup_app.
    destruct (alookup geqb x tbl) eqn:E1.
    - intros E2; inversion E2; subst. apply Hok; auto.
    - cbn. destruct (geqb x (fst a, snd a, y)) eqn:E2; try discriminate.
      apply geqb_spec in E2; subst x. intros E3; inversion E3; auto.
  Qed.

  Definition Jinv (wl : list item) (seen : list config) (tbl : gtable S T) : Prop :=
    (forall x rs, of_table S T seqb teqb tbl x = Some rs -> rs = brules x) /\
    (forall c, In c seen -> of_table S T seqb teqb tbl (fst c) = Some (brules (fst c))) /\
    (forall c, In c seen -> forall c', ostep c c' -> In c' seen \/ In (item_of c') wl).

  (** with the visited set keyed by configurations the exploration is complete *)
  Lemma sat_complete : forall fuel wl seen tbl tbl',
      sat S T seqb teqb brules true fuel wl seen tbl = Some tbl' -> Jinv wl seen tbl ->
      exists seen', Jinv [] seen' tbl' /\ incl seen seen' /\ (forall i, In i wl -> In (config_of i) seen').
  Proof.
    induction fuel as [|f IH]; intros wl seen tbl tbl' H HJ; [discriminate|].
    cbn in H. destruct wl as [|[[a y] stack] rest].
    - inversion H; subst. exists seen. repeat split; try apply HJ. apply incl_refl. intros i [].
    - set (x := (fst a, snd a, y)) in *.
      match type of H with (if ?b then _ else _) = _ => destruct b eqn:Em end.
      + apply (memb_spec ceqb config_eqb_spec) in Em.
        destruct HJ as (J1 & J2 & J3).
        destruct (IH _ _ _ _ H) as (seen' & HJ' & Hincl & Hwl).
        { repeat split; auto. intros c Hc c' Hs. destruct (J3 c Hc c' Hs) as [|[Hi|Hi]]; auto.
          left. rewrite <- (config_item c'), <- Hi. destruct a; exact Em. }
        exists seen'. split; [exact HJ'|split; [exact Hincl|]].
        intros i [<-|Hi]; auto; apply Hincl; destruct a; exact Em.
      + set (pushes := flat_map (fun r : grule S T =>
                                   match fst (snd r) ++ stack with
                                   | [] => []
                                   | a0 :: st' => [(a0, snd (snd r), st')]
                                   end) (brules x)) in *.
        set (tbl1 := if in_tbl S T seqb teqb tbl x then tbl else tbl ++ [(x, brules x)]) in *.
        destruct HJ as (J1 & J2 & J3).
        assert (Hmono : forall x0 rs, of_table S T seqb teqb tbl x0 = Some rs -> of_table S T seqb teqb tbl1 x0 = Some rs).
        { intros x0 rs E. subst tbl1. destruct (in_tbl S T seqb teqb tbl x); auto.
          unfold of_table in *. rewrite alookup_app, E. reflexivity. }
        assert (Hx1 : of_table S T seqb teqb tbl1 x = Some (brules x)).
        { subst tbl1. unfold in_tbl. destruct (of_table S T seqb teqb tbl x) as [rs|] eqn:E.
          - rewrite E. f_equal. apply J1; auto.
          - unfold of_table in *. rewrite alookup_app, E. cbn. rewrite (keqb_refl geqb geqb_spec). reflexivity. }
        destruct (IH _ _ _ _ H) as (seen' & HJ' & Hincl & Hwl).
        { repeat split.
          - intros x0 rs. subst tbl1. destruct (in_tbl S T seqb teqb tbl x); auto.
            unfold of_table. rewrite alookup_app. destruct (alookup geqb x0 tbl) eqn:E1.
            + intros E2; inversion E2; subst. apply J1; auto.
            + cbn. destruct (geqb x0 x) eqn:E2; try discriminate.
              apply geqb_spec in E2; subst x0. intros E3; inversion E3; auto.
          - intros c [<-|Hc]; auto.
          - intros c [<-|Hc] c' Hs.
            + right. apply in_or_app; left. apply -> in_rev.
              destruct Hs as (P & r & Hin & Hd). destruct c' as [[[t1 s1] y1] st1]. cbn [fst snd] in Hin, Hd.
              subst pushes. apply in_flat_map. exists (P, r); split; auto. cbn [fst snd].
              unfold gderive, gnext in Hd. destruct (fst r ++ stack) as [|[t0 s0] st'].
              * discriminate.
              * inversion Hd; subst. left; reflexivity.
            + destruct (J3 c Hc c' Hs) as [|[Hi|Hi]]; auto.
              * left. right; auto.
              * left. left. rewrite <- (config_item c'), <- Hi. destruct a; reflexivity.
              * right. apply in_or_app; right; auto. }
        exists seen'. split; [exact HJ'|split].
        * intros c Hc. apply Hincl. right; auto.
        * intros i [<-|Hi].
          -- apply Hincl. left. destruct a; reflexivity.
          -- apply Hwl. apply in_or_app; right; auto.
  Qed.

  Lemma grule_of_Rb_in x f r : grule_of S T Rb x f = Some r -> In (f, r) (brules x).
  Proof. unfold grule_of. apply alookup_sym_in. Qed.

  (** the table built from the start item contains every non-terminal a derivation can reach *)
  Lemma sat_reaches fuel (start : gnt) tbl' :
    sat S T seqb teqb brules true fuel [item_of (start, [])] [] [] = Some tbl' ->
    (forall x rs, of_table S T seqb teqb tbl' x = Some rs -> rs = brules x) /\
    (forall c, oreach start c -> of_table S T seqb teqb tbl' (fst c) = Some (brules (fst c))).
  Proof.
    intros H. destruct (sat_complete _ _ _ _ _ H) as (seen' & (J1 & J2 & J3) & _ & Hwl).
    { repeat split; [intros x rs E; discriminate|intros c []|intros c []]. }
    split; auto.
    assert (Hall : forall c, oreach start c -> In c seen').
    { intros c Hc. unfold oreach in Hc. apply clos_rt_rtn1 in Hc.
      induction Hc as [|c1 c2 Hs _ IHc].
      - specialize (Hwl _ (or_introl eq_refl)). rewrite config_item in Hwl. exact Hwl.
      - destruct (J3 _ IHc _ Hs) as [|[]]; auto. }
    intros c Hc. apply J2. auto.
  Qed.

  (** the built table and the rule function have the same members *)
  Theorem sat_language fuel (start : gnt) tbl' p :
    sat S T seqb teqb brules true fuel [item_of (start, [])] [] [] = Some tbl' ->
    gcontains S T (of_table S T seqb teqb tbl') start p = gcontains S T Rb start p.
  Proof.
    intros H. destruct (sat_reaches _ _ _ H) as [Hok Hall].
    rewrite !gcontains_run.
    assert (Hsub : forall x f r, grule_of S T (of_table S T seqb teqb tbl') x f = Some r -> grule_of S T Rb x f = Some r).
    { intros x f r. unfold grule_of. destruct (of_table S T seqb teqb tbl' x) as [rs|] eqn:E; try discriminate.
      rewrite (Hok _ _ E). auto. }
    destruct (run S T Rb start p) as [y|] eqn:Er.
    - destruct (transfer S T Rb (of_table S T seqb teqb tbl') (oreach start)) with (p := p) (x := start) (info := @nil garg) (y := y)
        as [-> _]; auto.
      + intros x info f args y0 t s rest Hx Hr Happ. eapply rt_trans; [exact Hx|apply rt_step].
        exists f, (args, y0); cbn [fst snd]; split; [apply grule_of_Rb_in; auto|].
        unfold gderive, gnext; cbn [fst snd]. rewrite Happ. reflexivity.
      + intros x info f r Hx Hr. unfold grule_of in *. pose proof (Hall _ Hx) as Hx'. cbn [fst] in Hx'.
        rewrite Hx'. exact Hr.
      + apply rt_refl.
    - destruct (run S T (of_table S T seqb teqb tbl') start p) as [y|] eqn:Er'; auto.
      erewrite run_mono in Er; [discriminate|exact Hsub|exact Er'].
  Qed.

  (** with the visited-rule shortcut (or without) the built table has no member the rule function lacks *)
  Theorem sat_language_sound confkey fuel wl (start : gnt) tbl' p :
    sat S T seqb teqb brules confkey fuel wl [] [] = Some tbl' ->
    gcontains S T (of_table S T seqb teqb tbl') start p = true -> gcontains S T Rb start p = true.
  Proof.
    intros H. rewrite !gcontains_run.
    destruct (run S T (of_table S T seqb teqb tbl') start p) as [y|] eqn:Er; try discriminate. intros _.
    erewrite run_mono; [reflexivity| |exact Er].
    intros x f r. unfold grule_of. destruct (of_table S T seqb teqb tbl' x) as [rs|] eqn:E; try discriminate.
    assert (Hnil : forall x0 rs0, of_table S T seqb teqb [] x0 = Some rs0 -> rs0 = brules x0) by (intros; discriminate).
    rewrite (sat_sound _ _ _ _ _ _ H Hnil _ _ E). auto.
  Qed.
End SatProofs.

(* ====================================================================== *)
(** * The grammars the builders saturate towards denote the specified languages *)
Lemma ends_with_rec_unfold self other acc :
  ends_with_rec self other acc =
  if ty_eqb self other then Some acc
  else match self with TArrow a b => ends_with_rec b other (acc ++ [a]) | _ => None end.
Proof. destruct self; reflexivity. Qed.

Lemma ends_with_rec_spec : forall self other acc l,
    ends_with_rec self other acc = Some l -> length acc <= length l /\ (length l = length acc -> self = other).
Proof.
  induction self; intros other acc l; rewrite ends_with_rec_unfold;
    match goal with |- context [ty_eqb ?a ?b] => destruct (ty_eqb a b) eqn:E end;
    try (intros H; inversion H; subst; split; [lia|intros _; apply ty_eqb_spec; exact E]);
    try discriminate.
  intros H. apply IHself2 in H. rewrite app_length in H. cbn in H. destruct H as [H1 H2]. split; [lia|intros; lia].
Qed.

Lemma ends_with_nil a t : ends_with a t = Some [] -> a = t.
Proof. intros H. apply ends_with_rec_spec in H. apply H. reflexivity. Qed.

Lemma ends_with_refl t : ends_with t t = Some [].
Proof. unfold ends_with. rewrite ends_with_rec_unfold, ty_eqb_refl. reflexivity. Qed.

Lemma enumerate_from_in {X} (l : list X) : forall k i (a : X),
    In (i, a) (Cfg.enumerate_from k l) <-> k <= i /\ nth_error l (i - k) = Some a.
Proof.
  induction l as [|x r IH]; intros k i a; cbn.
  - split; [intros []|intros [_ H]; destruct (i - k); discriminate].
  - rewrite IH. split.
    + intros [E|[H1 H2]].
      * inversion E; subst. split; auto. rewrite Nat.sub_diag. reflexivity.
      * split; [lia|]. replace (i - k) with (S (i - S k)) by lia. exact H2.
    + intros [H1 H2]. destruct (i - k) as [|j] eqn:E.
      * left. cbn in H2. inversion H2; subst. f_equal. lia.
      * right. split; [lia|]. replace (i - S k) with j by lia. exact H2.
Qed.

Lemma enumerate_in {X} (l : list X) i (a : X) : In (i, a) (Cfg.enumerate l) <-> nth_error l i = Some a.
Proof. unfold Cfg.enumerate. rewrite enumerate_from_in, Nat.sub_0_r. split; [intros [_ H]; exact H|intros H; split; [lia|exact H]]. Qed.

Lemma alookup_of_in {V} (l : list (sym * V)) h v :
  In (h, v) l -> (forall v', In (h, v') l -> v' = v) -> alookup sym_eqb h l = Some v.
Proof.
  induction l as [|[k w] r IH]; cbn; intros [] Hf.
  - inversion H; subst. rewrite (proj2 (sym_eqb_spec h h) eq_refl). reflexivity.
  - destruct (sym_eqb h k) eqn:E.
    + apply sym_eqb_spec in E; subst k. f_equal. apply Hf. left; reflexivity.
    + apply IH; auto.
Qed.

Lemma ctx_parent_succ n (g : ctx) x : 2 <= n -> ctx_parent (Cfg.ctx_succ n g x) = Some x.
Proof.
  intros Hn. unfold Cfg.ctx_succ. destruct g as [|y g']; cbn [length].
  - destruct (Nat.ltb n (1 + 1)) eqn:E; [apply Nat.ltb_lt in E; lia|reflexivity].
  - destruct (Nat.ltb n (S (S (length g')) + 1)); reflexivity.
Qed.

Definition sumsize (ps : list prog) : nat := fold_right (fun a acc => psize a + acc) 0 ps.
Definition sumocc (prim : N) (ps : list prog) : nat := fold_right (fun a acc => occurrences prim a + acc) 0 ps.

Lemma psize_pos p : 1 <= psize p.
Proof. destruct p; cbn; lia. Qed.
Lemma sumsize_length ps : length ps <= sumsize ps.
Proof. induction ps as [|a r IH]; cbn; auto. pose proof (psize_pos a). unfold sumsize in IH. lia. Qed.

(** named versions of the local fixpoints of WT and forb_free *)
Fixpoint WT_all (va : bool) (P : bparams) (tys : list ty) (ps : list prog) : Prop :=
  match ps, tys with
  | [], [] => True
  | a :: pr, u :: tr => WT va P u a /\ WT_all va P tr pr
  | _, _ => False
  end.
Fixpoint forb_all (P : bparams) (f : sym) (i : nat) (ps : list prog) : Prop :=
  match ps with
  | [] => True
  | a :: pr => forb_free P (Some (f, i)) a /\ forb_all P f (S i) pr
  end.
Definition forb_head (P : bparams) (parent : option (sym * nat)) (s : sym) : Prop :=
  match s with SPrim n _ => ~ In n (forb_names P parent) | _ => True end.

Lemma WT_fun va P t f ps :
  WT va P t (PFun f ps) <->
  head_ok P f = true /\ exists tys, ends_with (sym_type f) t = Some tys /\ app_ok va f tys /\ WT_all va P tys ps.
Proof.
  cbn. assert (E : forall ps tys,
    (fix all2 (tys : list ty) (ps : list prog) {struct ps} : Prop :=
       match ps, tys with
       | [], [] => True
       | a :: pr, u :: tr => WT va P u a /\ all2 tr pr
       | _, _ => False
       end) tys ps <-> WT_all va P tys ps).
  { induction ps0 as [|a pr IH]; intros [|u tr]; cbn; try tauto. rewrite IH. tauto. }
  split; intros [H1 (tys & H2 & H3 & H4)]; split; auto; exists tys; repeat split; auto; apply E; auto.
Qed.

Lemma forb_fun P parent f ps :
  forb_free P parent (PFun f ps) <-> forb_head P parent f /\ forb_all P f 0 ps.
Proof.
  cbn. assert (E : forall ps i,
    (fix all (i : nat) (ps : list prog) {struct ps} : Prop :=
       match ps with
       | [] => True
       | a :: pr => forb_free P (Some (f, i)) a /\ all (S i) pr
       end) i ps <-> forb_all P f i ps).
  { induction ps0 as [|a pr IH]; intros i; cbn; try tauto. rewrite IH. tauto. }
  unfold forb_head. rewrite E. tauto.
Qed.

Lemma WT_all_length va P : forall tys ps, WT_all va P tys ps -> length tys = length ps.
Proof. induction tys as [|u tr IH]; intros [|a pr]; cbn; try tauto. intros [_ H]. f_equal; auto. Qed.

Section BuilderSpec.
  Variable Tst : Type.
  Variable fx : fixes.
  Variable P : bparams.
  Variable trans : gnt ctx Tst -> sym -> nat -> bool * Tst.
  Variable tr : Tst -> sym -> nat -> bool * Tst.
  Hypothesis trans_tr : forall x h k, trans x h k = tr (snd x) h k.
  Hypothesis Hforbid : fx_forbid fx = true.
  Hypothesis Hngram : 2 <= b_ngram P.

  Notation va := (fx_varapp fx).
  Notation Rb := (fun x : gnt ctx Tst => Some (brules_gen Tst fx P trans x)).

  (** the T state threaded through a term, structurally *)
  Fixpoint thr_args_with (thr : Tst -> prog -> option Tst) (y : Tst) (ps : list prog) : option Tst :=
    match ps with
    | [] => Some y
    | a :: pr => match thr y a with Some y1 => thr_args_with thr y1 pr | None => None end
    end.
  Fixpoint thr (y : Tst) (p : prog) {struct p} : option Tst :=
    match p with
    | PLeaf h => if fst (tr y h 0) then Some (snd (tr y h 0)) else None
    | PFun h ps =>
      if fst (tr y h (length ps)) then
        (fix go (y : Tst) (ps : list prog) {struct ps} : option Tst :=
           match ps with
           | [] => Some y
           | a :: pr => match thr y a with Some y1 => go y1 pr | None => None end
           end) (snd (tr y h (length ps))) ps
      else None
    end.
  Lemma thr_fun y h ps :
    thr y (PFun h ps) = if fst (tr y h (length ps)) then thr_args_with thr (snd (tr y h (length ps))) ps else None.
  Proof.
    cbn. destruct (fst (tr y h (length ps))); auto. generalize (snd (tr y h (length ps))).
    induction ps as [|a pr IH]; intros y0; cbn; auto. destruct (thr y0 a); auto.
  Qed.

  Lemma heads_at_spec t h tys :
    In (h, tys) (heads_at fx P t) <->
    head_ok P h = true /\ ends_with (sym_type h) t = Some tys /\ app_ok va h tys.
  Proof.
    unfold heads_at. rewrite in_app_iff, !in_flat_map. split.
    - intros [([i a] & Hin & Hh)|([n pt] & Hin & Hh)]; cbn [fst snd] in Hh.
      + apply enumerate_in in Hin. destruct (fx_varapp fx) eqn:Ev.
        * destruct (ends_with a t) as [tys'|] eqn:Ee; [|destruct Hh].
          destruct Hh as [Hh|[]]. inversion Hh; subst. cbn. rewrite Hin, ty_eqb_refl. auto.
        * destruct (ty_eqb t a) eqn:Et; [|destruct Hh]. apply ty_eqb_spec in Et; subst a.
          destruct Hh as [Hh|[]]. inversion Hh; subst. cbn. rewrite Hin, ty_eqb_refl.
          repeat split; auto. apply ends_with_refl.
      + destruct (ends_with pt t) as [tys'|] eqn:Ee; [|destruct Hh].
        destruct Hh as [Hh|[]]. inversion Hh; subst. cbn. repeat split; auto.
        apply (memb_spec (fun a b : N * ty => N.eqb (fst a) (fst b) && ty_eqb (snd a) (snd b))); auto.
        intros [x1 x2] [y1 y2]; cbn. rewrite andb_true_iff, N.eqb_eq, ty_eqb_spec.
        split; [intros [-> ->]; reflexivity|intros E; inversion E; auto].
    - intros (Hok & He & Ha). destruct h as [n pt|i a|c v]; cbn in Hok; try discriminate.
      + right. exists (n, pt). cbn [fst snd]. cbn [sym_type] in He. rewrite He. split; [|left; reflexivity].
        apply (memb_spec (fun a b : N * ty => N.eqb (fst a) (fst b) && ty_eqb (snd a) (snd b))) in Hok; auto.
        intros [x1 x2] [y1 y2]; cbn. rewrite andb_true_iff, N.eqb_eq, ty_eqb_spec.
        split; [intros [-> ->]; reflexivity|intros E; inversion E; auto].
      + left. destruct (nth_error (arguments (b_request P)) i) as [a'|] eqn:En; try discriminate.
        apply ty_eqb_spec in Hok; subst a'. exists (i, a). split; [apply enumerate_in; auto|].
        cbn [fst snd]. cbn [sym_type] in He. cbn [app_ok] in Ha. destruct (fx_varapp fx) eqn:Ev.
        * rewrite He. left; reflexivity.
        * destruct Ha as [Ha|Ha]; [discriminate|]. subst tys. apply ends_with_nil in He. subst a.
          rewrite ty_eqb_refl. left; reflexivity.
  Qed.

  Definition decorate_from (i : nat) (g : ctx) (h : sym) (tys : list ty) : list (garg ctx) :=
    map (fun ia : nat * ty => (snd ia, Cfg.ctx_succ (b_ngram P) g (h, fst ia))) (Cfg.enumerate_from i tys).

  Lemma decorate_length g h tys : length (decorate P g h tys) = length tys.
  Proof.
    unfold decorate, Cfg.enumerate. rewrite map_length. generalize 0.
    induction tys as [|u r IH]; intros k; cbn; auto.
  Qed.

  Definition forb_ok (g : ctx) (h : sym) : Prop := forb_head P (ctx_parent g) h.

  Lemma forbidden_here_false g h : forbidden_here fx P g h = false <-> forb_ok g h.
  Proof.
    unfold forbidden_here, forb_ok, forb_head. rewrite Hforbid. cbn [andb].
    destruct h as [n pt|i a|c v]; try (split; auto; fail).
    split.
    - intros H Hin. apply (memb_spec N.eqb N.eqb_eq) in Hin. congruence.
    - intros H. destruct (memb N.eqb n (forb_names P (ctx_parent g))) eqn:E; auto.
      apply (memb_spec N.eqb N.eqb_eq) in E. contradiction.
  Qed.

  Lemma brule_spec t g y h args y' :
    grule_of ctx Tst Rb (t, g, y) h = Some (args, y') <->
    exists tys, head_ok P h = true /\ ends_with (sym_type h) t = Some tys /\ app_ok va h tys /\
                forb_ok g h /\ tr y h (length tys) = (true, y') /\ args = decorate P g h tys.
  Proof.
    unfold grule_of. cbn [brules_gen].
    set (F := fun ht : sym * list ty =>
                if forbidden_here fx P g (fst ht) then []
                else let '(ok, y'0) := trans (t, g, y) (fst ht) (length (snd ht)) in
                     if ok then [(fst ht, (decorate P g (fst ht) (snd ht), y'0))] else []).
    assert (Hin : forall v, In (h, v) (flat_map F (heads_at fx P t)) <->
                            exists tys, In (h, tys) (heads_at fx P t) /\ forb_ok g h /\
                                        tr y h (length tys) = (true, snd v) /\ fst v = decorate P g h tys).
    { intros [a0 y0]. rewrite in_flat_map. split.
      - intros ([h' tys] & Hh & Hf). unfold F in Hf. cbn [fst snd] in Hf.
        destruct (forbidden_here fx P g h') eqn:Ef; [destruct Hf|].
        rewrite trans_tr in Hf. cbn [snd] in Hf. destruct (tr y h' (length tys)) as [ok y1] eqn:Et.
        destruct ok; [|destruct Hf]. destruct Hf as [Hf|[]]. inversion Hf; subst.
        exists tys. repeat split; auto. apply forbidden_here_false; auto.
      - intros (tys & Hh & Hf & Ht & Ha). cbn [fst snd] in *. exists (h, tys). split; auto.
        unfold F. cbn [fst snd]. apply forbidden_here_false in Hf. rewrite Hf, trans_tr. cbn [snd].
        rewrite Ht. left. subst a0. reflexivity. }
    split.
    - intros H. apply alookup_sym_in in H. apply Hin in H. cbn [fst snd] in H.
      destruct H as (tys & Hh & Hf & Ht & Ha). apply heads_at_spec in Hh. destruct Hh as (H1 & H2 & H3).
      exists tys. repeat split; auto.
    - intros (tys & H1 & H2 & H3 & Hf & Ht & Ha). apply alookup_of_in.
      + apply Hin. exists tys. cbn [fst snd]. repeat split; auto. apply heads_at_spec; auto.
      + intros [a1 y1] H. apply Hin in H. cbn [fst snd] in H. destruct H as (tys' & Hh & _ & Ht' & Ha').
        apply heads_at_spec in Hh. destruct Hh as (_ & H2' & _). rewrite H2 in H2'. inversion H2'; subst tys'.
        rewrite Ht in Ht'. inversion Ht'; subst. reflexivity.
  Qed.

  (** membership in the rule function = typing + forbidden patterns + threading *)
  Theorem builder_run : forall p t g y y',
      run ctx Tst Rb (t, g, y) p = Some y' <->
      WT va P t p /\ forb_free P (ctx_parent g) p /\ thr y p = Some y'.
  Proof.
    induction p as [h|h ps IH] using prog_ind'; intros t g y y'.
    - rewrite run_leaf. cbn [WT forb_free thr]. split.
      + destruct (grule_of ctx Tst Rb (t, g, y) h) as [[[|a0 ar] y0]|] eqn:E; try discriminate.
        intros H; inversion H; subst y0. apply brule_spec in E.
        destruct E as (tys & H1 & H2 & H3 & H4 & H5 & H6).
        assert (tys = []) by (destruct tys; auto; pose proof (decorate_length g h (t0 :: tys)) as L; rewrite <- H6 in L; discriminate).
        subst tys. cbn in H5. rewrite H5. cbn. repeat split; auto.
      + intros ((H1 & H2) & H3 & H4).
        destruct (fst (tr y h 0)) eqn:Ef; try discriminate. inversion H4; subst y'.
        assert (E : grule_of ctx Tst Rb (t, g, y) h = Some ([], snd (tr y h 0))).
        { apply brule_spec. exists []. repeat split; auto.
          - destruct h; cbn; auto.
          - cbn. destruct (tr y h 0); cbn in *; subst; reflexivity. }
        rewrite E. reflexivity.
    - rewrite run_fun, WT_fun, forb_fun, thr_fun.
      (* the argument lists *)
      assert (Hargs : forall tys ps0 i y0 y1, Forall (fun p => forall t g y y', run ctx Tst Rb (t, g, y) p = Some y' <->
                                       WT va P t p /\ forb_free P (ctx_parent g) p /\ thr y p = Some y') ps0 ->
                 (run_args ctx Tst Rb (decorate_from i g h tys) ps0 y0 = Some y1 <->
                  WT_all va P tys ps0 /\ forb_all P h i ps0 /\ thr_args_with thr y0 ps0 = Some y1)).
      { clear IH. intros tys ps0. revert tys. induction ps0 as [|a pr IHl]; intros [|u tr0] i y0 y1 HF;
          unfold decorate_from; cbn [Cfg.enumerate_from map run_args WT_all forb_all thr_args_with fst snd].
        - split; [intros H; inversion H; auto|intros (_ & _ & H); exact H].
        - split; [discriminate|intros ([] & _)].
        - split; [discriminate|intros ([] & _)].
        - inversion HF as [|? ? Ha Hr]; subst.
          pose proof (IHl tr0 (S i)) as IHn. unfold decorate_from in IHn.
          match goal with |- context [match ?r with Some _ => _ | None => None end = Some y1 <-> _] =>
                          destruct r as [y2|] eqn:E end.
          + apply Ha in E. rewrite (ctx_parent_succ _ _ _ Hngram) in E. destruct E as (E1 & E2 & E3).
            rewrite E3. rewrite (IHn y2 y1 Hr). tauto.
          + split; [discriminate|]. intros ((E1 & E1') & (E2 & E2') & E3).
            destruct (thr y0 a) as [y2|] eqn:E4; try discriminate.
            assert (E5 : run ctx Tst Rb (u, Cfg.ctx_succ (b_ngram P) g (h, i), y0) a = Some y2).
            { apply Ha. rewrite (ctx_parent_succ _ _ _ Hngram). auto. }
            pose proof (eq_trans (eq_sym E) E5) as X. discriminate X. }
      split.
      + destruct (grule_of ctx Tst Rb (t, g, y) h) as [[args y0]|] eqn:E; try discriminate.
        apply brule_spec in E. destruct E as (tys & H1 & H2 & H3 & H4 & H5 & H6). subst args.
        intros Hr. apply (Hargs tys ps 0 y0 y' IH) in Hr. destruct Hr as (R1 & R2 & R3).
        pose proof (WT_all_length _ _ _ _ R1) as L. rewrite <- L, H5. cbn [fst snd].
        repeat split; auto. exists tys; auto.
      + intros ((H1 & tys & H2 & H3 & H4) & (H5 & H6) & H7).
        pose proof (WT_all_length _ _ _ _ H4) as L. rewrite <- L in H7.
        destruct (tr y h (length tys)) as [ok y0] eqn:Et. cbn [fst snd] in H7. destruct ok; try discriminate.
        assert (E : grule_of ctx Tst Rb (t, g, y) h = Some (decorate P g h tys, y0)).
        { apply brule_spec. exists tys. repeat split; auto. }
        rewrite E. apply (Hargs tys ps 0 y0 y' IH). auto.
  Qed.
End BuilderSpec.

(* ---------------------------------------------------------------------- *)
(** ** size_constraint: the threading is the size bound *)
Definition size_tr (fx : fixes) (m : nat) (y : nat * nat) (h : sym) (k : nat) : bool * (nat * nat) :=
  size_trans fx m (TUnknown, [], y) h k.

Lemma size_trans_tr fx m x h k : size_trans fx m x h k = size_tr fx m (snd x) h k.
Proof. destruct x as [[t g] [s f]]; reflexivity. Qed.

Lemma size_tr_ok fx m s f h k y' : fx_taken fx = true ->
  size_tr fx m (s, f) h k = (true, y') <-> s + k + Nat.max f 1 <= m /\ y' = (s + 1, Nat.max f 1 + k - 1).
Proof.
  intros Ht. unfold size_tr, size_trans. cbn [snd]. rewrite Ht.
  destruct (Nat.ltb m s) eqn:E1; [apply Nat.ltb_lt in E1|apply Nat.ltb_ge in E1].
  - split; [discriminate|intros [H _]; lia].
  - destruct (Nat.ltb 0 f) eqn:E2; [apply Nat.ltb_lt in E2|apply Nat.ltb_ge in E2].
    + replace (Nat.max f 1) with f by lia. split.
      * intros H; inversion H as [[H1 H2]]. apply Nat.leb_le in H1. split; [lia|reflexivity].
      * intros [H1 ->]. f_equal. apply Nat.leb_le. lia.
    + replace (Nat.max f 1) with 1 by lia. assert (f = 0) by lia. subst f. split.
      * intros H; inversion H as [[H1 H2]]. apply Nat.leb_le in H1. split; [lia|f_equal; lia].
      * intros [H1 ->]. f_equal; [apply Nat.leb_le; lia|f_equal; lia].
Qed.

Lemma size_thr fx m (Ht : fx_taken fx = true) : forall p s f y',
    thr (nat * nat) (size_tr fx m) (s, f) p = Some y' <->
    s + psize p + (Nat.max f 1 - 1) <= m /\ y' = (s + psize p, Nat.max f 1 - 1).
Proof.
  induction p as [h|h ps IH] using prog_ind'; intros s f y'.
  - cbn [thr psize]. destruct (size_tr fx m (s, f) h 0) as [ok y0] eqn:E. cbn [fst snd]. destruct ok.
    + apply (size_tr_ok fx m s f h 0 y0 Ht) in E. destruct E as [E1 ->]. split.
      * intros H; inversion H; subst. split; [lia|f_equal; lia].
      * intros [_ ->]. do 2 f_equal; lia.
    + split; [discriminate|]. intros [H1 _].
      assert (E' : size_tr fx m (s, f) h 0 = (true, (s + 1, Nat.max f 1 + 0 - 1))) by (apply size_tr_ok; auto; split; auto; lia).
      rewrite E' in E. discriminate.
  - rewrite thr_fun.
    assert (Hargs : forall ps0, Forall (fun p => forall s f y', thr (nat * nat) (size_tr fx m) (s, f) p = Some y' <->
                                   s + psize p + (Nat.max f 1 - 1) <= m /\ y' = (s + psize p, Nat.max f 1 - 1)) ps0 ->
              forall s0 c n y1, n = length ps0 + c ->
                (thr_args_with (nat * nat) (thr (nat * nat) (size_tr fx m)) (s0, n) ps0 = Some y1 <->
                 (ps0 <> [] -> s0 + sumsize ps0 + c <= m) /\ y1 = (s0 + sumsize ps0, c))).
    { induction 1 as [|a pr Ha _ IHl]; intros s0 c n y1 Hn; cbn [thr_args_with sumsize fold_right length] in *.
      - subst n. cbn. split.
        + intros H; inversion H; subst. split; [congruence|f_equal; lia].
        + intros [_ ->]. do 2 f_equal; lia.
      - fold (sumsize pr).
        destruct (thr (nat * nat) (size_tr fx m) (s0, n) a) as [y2|] eqn:E.
        + apply Ha in E. destruct E as [E1 ->].
          replace (Nat.max n 1 - 1) with (length pr + c) in * by lia.
          rewrite (IHl (s0 + psize a) c (length pr + c) y1 eq_refl).
          pose proof (sumsize_length pr). split.
          * intros [H1 ->]. split; [|f_equal; lia]. intros _.
            destruct pr as [|b pr']; [cbn in *; lia|]. assert (b :: pr' <> []) by discriminate. specialize (H1 H0). lia.
          * intros [H1 ->]. split; [|f_equal; lia]. intros Hne. assert (a :: pr <> []) by discriminate. specialize (H1 H0). lia.
        + split; [discriminate|]. intros [H1 _]. assert (Hne : a :: pr <> []) by discriminate. specialize (H1 Hne).
          pose proof (sumsize_length pr).
          assert (E' : thr (nat * nat) (size_tr fx m) (s0, n) a = Some (s0 + psize a, Nat.max n 1 - 1)).
          { apply Ha. split; auto. lia. }
          rewrite E' in E. discriminate. }
    destruct (size_tr fx m (s, f) h (length ps)) as [ok y0] eqn:E. cbn [fst snd]. destruct ok.
    + apply (size_tr_ok fx m s f h (length ps) y0 Ht) in E. destruct E as [E1 ->].
      rewrite (Hargs ps IH (s + 1) (Nat.max f 1 - 1) (Nat.max f 1 + length ps - 1) y') by lia.
      cbn [psize]. fold (sumsize ps). pose proof (sumsize_length ps). split.
      * intros [H1 ->]. split; [|f_equal; lia].
        destruct ps as [|b pr']; [cbn in *; lia|]. assert (b :: pr' <> []) by discriminate. specialize (H1 H0). lia.
      * intros [H1 ->]. split; [|f_equal; lia]. intros _. lia.
    + split; [discriminate|]. intros [H1 _]. cbn [psize] in H1. fold (sumsize ps) in H1. pose proof (sumsize_length ps).
      assert (E' : size_tr fx m (s, f) h (length ps) = (true, (s + 1, Nat.max f 1 + length ps - 1))) by (apply size_tr_ok; auto; split; auto; lia).
      rewrite E' in E. discriminate.
Qed.

(* ---------------------------------------------------------------------- *)
(** ** at_most_k: the threading is the occurrence bound *)
Definition occ_tr (prim : N) (y : nat) (h : sym) (k : nat) : bool * nat := occ_trans prim (TUnknown, [], y) h k.
Lemma occ_trans_tr prim x h k : occ_trans prim x h k = occ_tr prim (snd x) h k.
Proof. destruct x as [[t g] y]; reflexivity. Qed.

Definition occ_here (prim : N) (s : sym) : nat := match s with SPrim n _ => if N.eqb n prim then 1 else 0 | _ => 0 end.

Lemma occ_tr_ok prim y h k y' : occ_tr prim y h k = (true, y') <-> occ_here prim h <= y /\ y' = y - occ_here prim h.
Proof.
  unfold occ_tr, occ_trans, occ_here. cbn [snd]. destruct h as [n pt|i a|c v]; try (split; [intros H; inversion H; split; lia|intros [_ ->]; f_equal; lia]).
  destruct (N.eqb n prim).
  - destruct (Nat.ltb 0 y) eqn:E; [apply Nat.ltb_lt in E|apply Nat.ltb_ge in E]; split; try discriminate.
    + intros H; inversion H; split; lia.
    + intros [_ ->]. reflexivity.
    + intros [H _]. lia.
  - split; [intros H; inversion H; split; lia|intros [_ ->]; f_equal; lia].
Qed.

Lemma occurrences_leaf prim h : occurrences prim (PLeaf h) = occ_here prim h.
Proof. reflexivity. Qed.
Lemma occurrences_fun prim h ps : occurrences prim (PFun h ps) = occ_here prim h + sumocc prim ps.
Proof. reflexivity. Qed.

Lemma occ_thr prim : forall p y y',
    thr nat (occ_tr prim) y p = Some y' <-> occurrences prim p <= y /\ y' = y - occurrences prim p.
Proof.
  induction p as [h|h ps IH] using prog_ind'; intros y y'.
  - cbn [thr]. rewrite occurrences_leaf. destruct (occ_tr prim y h 0) as [ok y0] eqn:E. cbn [fst snd]. destruct ok.
    + apply occ_tr_ok in E. destruct E as [E1 ->]. split; [intros H; inversion H; auto|intros [_ ->]; reflexivity].
    + split; [discriminate|]. intros [H1 _].
      assert (E' : occ_tr prim y h 0 = (true, y - occ_here prim h)) by (apply occ_tr_ok; auto).
      rewrite E' in E. discriminate.
  - rewrite thr_fun, occurrences_fun.
    assert (Hargs : forall ps0, Forall (fun p => forall y y', thr nat (occ_tr prim) y p = Some y' <->
                                   occurrences prim p <= y /\ y' = y - occurrences prim p) ps0 ->
              forall y0 y1, thr_args_with nat (thr nat (occ_tr prim)) y0 ps0 = Some y1 <->
                            sumocc prim ps0 <= y0 /\ y1 = y0 - sumocc prim ps0).
    { induction 1 as [|a pr Ha _ IHl]; intros y0 y1; cbn [thr_args_with sumocc fold_right].
      - split; [intros H; inversion H; split; lia|intros [_ ->]; f_equal; lia].
      - fold (sumocc prim pr). destruct (thr nat (occ_tr prim) y0 a) as [y2|] eqn:E.
        + apply Ha in E. destruct E as [E1 ->]. rewrite IHl. split; intros [H1 ->]; split; lia.
        + split; [discriminate|]. intros [H1 _].
          assert (E' : thr nat (occ_tr prim) y0 a = Some (y0 - occurrences prim a)) by (apply Ha; split; auto; lia).
          rewrite E' in E. discriminate. }
    destruct (occ_tr prim y h (length ps)) as [ok y0] eqn:E. cbn [fst snd]. destruct ok.
    + apply occ_tr_ok in E. destruct E as [E1 ->]. rewrite (Hargs ps IH). split; intros [H1 ->]; split; lia.
    + split; [discriminate|]. intros [H1 _].
      assert (E' : occ_tr prim y h (length ps) = (true, y - occ_here prim h)) by (apply occ_tr_ok; split; auto; lia).
      rewrite E' in E. discriminate.
Qed.

(* ---------------------------------------------------------------------- *)
(** ** The language theorems *)
Section Languages.
  Variable fx : fixes.
  Variable P : bparams.
  Hypothesis Hforbid : fx_forbid fx = true.
  Hypothesis Hngram : 2 <= b_ngram P.

  (** the rule function of size_constraint denotes the sized terms *)
  Theorem size_oracle_language (Htaken : fx_taken fx = true) m p :
    gcontains ctx (nat * nat) (size_oracle fx P m) (size_start P) p = true <-> sized (fx_varapp fx) P m p.
  Proof.
    rewrite gcontains_run. unfold size_oracle, size_rules, size_start, sized.
    destruct (run ctx (nat * nat) _ (returns (b_request P), [], (0, 0)) p) as [y|] eqn:E.
    - apply (builder_run (nat * nat) fx P (size_trans fx m) (size_tr fx m) (size_trans_tr fx m) Hforbid Hngram) in E.
      destruct E as (E1 & E2 & E3). apply (size_thr fx m Htaken) in E3. cbn in E3.
      split; auto. intros _. repeat split; auto. lia.
    - split; [discriminate|]. intros (H1 & H2 & H3).
      assert (E' : run ctx (nat * nat) (fun x => Some (brules_gen (nat * nat) fx P (size_trans fx m) x))
                       (returns (b_request P), [], (0, 0)) p = Some (0 + psize p, Nat.max 0 1 - 1)).
      { apply (builder_run (nat * nat) fx P (size_trans fx m) (size_tr fx m) (size_trans_tr fx m) Hforbid Hngram).
        repeat split; auto. apply (size_thr fx m Htaken). cbn. split; auto. lia. }
      pose proof (eq_trans (eq_sym E) E') as X. discriminate X.
  Qed.

  (** the rule function of at_most_k denotes the terms with at most k occurrences *)
  Theorem occ_oracle_language prim k p :
    gcontains ctx nat (occ_oracle fx P prim) (occ_start P k) p = true <-> at_most (fx_varapp fx) P prim k p.
  Proof.
    rewrite gcontains_run. unfold occ_oracle, occ_rules, occ_start, at_most.
    destruct (run ctx nat _ (returns (b_request P), [], k) p) as [y|] eqn:E.
    - apply (builder_run nat fx P (occ_trans prim) (occ_tr prim) (occ_trans_tr prim) Hforbid Hngram) in E.
      destruct E as (E1 & E2 & E3). apply occ_thr in E3. split; auto. intros _. repeat split; auto. apply E3.
    - split; [discriminate|]. intros (H1 & H2 & H3).
      assert (E' : run ctx nat (fun x => Some (brules_gen nat fx P (occ_trans prim) x))
                       (returns (b_request P), [], k) p = Some (k - occurrences prim p)).
      { apply (builder_run nat fx P (occ_trans prim) (occ_tr prim) (occ_trans_tr prim) Hforbid Hngram).
        repeat split; auto. apply occ_thr. auto. }
      pose proof (eq_trans (eq_sym E) E') as X. discriminate X.
  Qed.

  Lemma ctx_eqb_spec : forall a b : ctx, ctx_eqb a b = true <-> a = b.
  Proof.
    apply list_eqb_spec. intros [s i] [s' i']; unfold Cfg.pred_eqb; cbn.
    rewrite andb_true_iff, sym_eqb_spec, Nat.eqb_eq. split; [intros [-> ->]; reflexivity|intros E; inversion E; auto].
  Qed.
  Lemma nat2_eqb_spec : forall a b : nat * nat, nat2_eqb a b = true <-> a = b.
  Proof.
    intros [a1 a2] [b1 b2]; unfold nat2_eqb; cbn. rewrite andb_true_iff, !Nat.eqb_eq.
    split; [intros [-> ->]; reflexivity|intros E; inversion E; auto].
  Qed.

  (** TTCFG.size_constraint as repaired (build keyed by configurations, then clean as coded) *)
  Theorem size_constraint_language (Htaken : fx_taken fx = true) (Hkey : fx_confkey fx = true) fuel ord m g p :
    size_constraint fx fuel ord P m = Some g ->
    (gcontains ctx (nat * nat) (of_table ctx (nat * nat) ctx_eqb nat2_eqb g) (size_start P) p = true <->
     sized (fx_varapp fx) P m p).
  Proof.
    unfold size_constraint, size_raw. rewrite Hkey.
    destruct (sat ctx (nat * nat) ctx_eqb nat2_eqb (size_rules fx P m) true fuel
                  [(returns (b_request P), [], (0, 0), [])] [] []) as [raw|] eqn:Es; try discriminate.
    intros Hc.
    rewrite (clean_language ctx (nat * nat) ctx_eqb nat2_eqb ctx_eqb_spec nat2_eqb_spec raw fuel ord _ _ p Hc).
    rewrite (sat_language ctx (nat * nat) ctx_eqb nat2_eqb ctx_eqb_spec nat2_eqb_spec (size_rules fx P m) fuel (size_start P) raw p Es).
    apply size_oracle_language; auto.
  Qed.

  Theorem at_most_k_language (Hkey : fx_confkey fx = true) fuel ord prim k g p :
    at_most_k fx fuel ord P prim k = Some g ->
    (gcontains ctx nat (of_table ctx nat ctx_eqb Nat.eqb g) (occ_start P k) p = true <->
     at_most (fx_varapp fx) P prim k p).
  Proof.
    unfold at_most_k, occ_raw. rewrite Hkey.
    destruct (sat ctx nat ctx_eqb Nat.eqb (occ_rules fx P prim) true fuel
                  [(returns (b_request P), [], k, [])] [] []) as [raw|] eqn:Es; try discriminate.
    intros Hc.
    rewrite (clean_language ctx nat ctx_eqb Nat.eqb ctx_eqb_spec Nat.eqb_eq raw fuel ord _ _ p Hc).
    rewrite (sat_language ctx nat ctx_eqb Nat.eqb ctx_eqb_spec Nat.eqb_eq (occ_rules fx P prim) fuel (occ_start P k) raw p Es).
    apply occ_oracle_language; auto.
  Qed.

  (** with the visited-rule shortcut the builders are still sound *)
  Theorem size_constraint_sound (Htaken : fx_taken fx = true) fuel ord m g p :
    size_constraint fx fuel ord P m = Some g ->
    gcontains ctx (nat * nat) (of_table ctx (nat * nat) ctx_eqb nat2_eqb g) (size_start P) p = true ->
    sized (fx_varapp fx) P m p.
  Proof.
    unfold size_constraint, size_raw.
    destruct (sat ctx (nat * nat) ctx_eqb nat2_eqb (size_rules fx P m) (fx_confkey fx) fuel
                  [(returns (b_request P), [], (0, 0), [])] [] []) as [raw|] eqn:Es; try discriminate.
    intros Hc.
    rewrite (clean_language ctx (nat * nat) ctx_eqb nat2_eqb ctx_eqb_spec nat2_eqb_spec raw fuel ord _ _ p Hc).
    intros H. apply (sat_language_sound ctx (nat * nat) ctx_eqb nat2_eqb ctx_eqb_spec nat2_eqb_spec _ _ _ _ _ _ _ Es) in H.
    apply size_oracle_language; auto.
  Qed.

  Theorem at_most_k_sound fuel ord prim k g p :
    at_most_k fx fuel ord P prim k = Some g ->
    gcontains ctx nat (of_table ctx nat ctx_eqb Nat.eqb g) (occ_start P k) p = true ->
    at_most (fx_varapp fx) P prim k p.
  Proof.
    unfold at_most_k, occ_raw.
    destruct (sat ctx nat ctx_eqb Nat.eqb (occ_rules fx P prim) (fx_confkey fx) fuel
                  [(returns (b_request P), [], k, [])] [] []) as [raw|] eqn:Es; try discriminate.
    intros Hc.
    rewrite (clean_language ctx nat ctx_eqb Nat.eqb ctx_eqb_spec Nat.eqb_eq raw fuel ord _ _ p Hc).
    intros H. apply (sat_language_sound ctx nat ctx_eqb Nat.eqb ctx_eqb_spec Nat.eqb_eq _ _ _ _ _ _ _ Es) in H.
    apply occ_oracle_language; auto.
  Qed.
End Languages.

(* ====================================================================== *)
(** * programs(): the repaired counter counts the language *)
Section CountProofs.
  Variables S T : Type.
  Variable seqb : S -> S -> bool.
  Variable teqb : T -> T -> bool.
  Hypothesis seqb_spec : forall a b, seqb a b = true <-> a = b.
  Hypothesis teqb_spec : forall a b, teqb a b = true <-> a = b.
  Variable R : oracle S T.

  Notation cmap := (cmap T).
  Notation cadd := (cadd T teqb).
  Notation garg := (garg S).

  (** the multiset a counter dictionary stands for *)
  Definition expand (d : cmap) : list T := flat_map (fun e : T * N => repeat (fst e) (N.to_nat (snd e))) d.

  Lemma expand_app d d' : expand (d ++ d') = expand d ++ expand d'.
  Proof. apply flat_map_app. Qed.

  Lemma expand_ainsert y m n : forall d,
      alookup teqb y d = Some m -> Permutation (expand (ainsert teqb y (m + n)%N d)) (repeat y (N.to_nat n) ++ expand d).
  Proof.
    induction d as [|[k v] r IH]; cbn [alookup ainsert]; try discriminate.
    destruct (teqb y k) eqn:E; intros H.
    - apply teqb_spec in E; subst k. inversion H; subst v.
      cbn [expand flat_map fst snd]. rewrite N2Nat.inj_add, repeat_app, <- app_assoc.
      apply Permutation_app_swap_app.
    - cbn [expand flat_map fst snd]. fold (expand (ainsert teqb y (m + n)%N r)). fold (expand r).
      rewrite (IH H). apply Permutation_app_swap_app.
  Qed.

  Lemma expand_cadd y n d : Permutation (expand (cadd y n d)) (repeat y (N.to_nat n) ++ expand d).
  Proof.
    unfold Ttcfg.cadd. destruct (alookup teqb y d) as [m|] eqn:E.
    - apply expand_ainsert; auto.
    - rewrite expand_app. cbn. rewrite app_nil_r. apply Permutation_app_comm.
  Qed.

  Lemma ctotal_expand d : ctotal T d = N.of_nat (length (expand d)).
  Proof.
    induction d as [|[k v] r IH]; cbn; auto. fold (expand r).
    rewrite app_length, repeat_length, Nat2N.inj_add, N2Nat.id. unfold ctotal in IH. rewrite IH. reflexivity.
  Qed.

  Lemma expand_fold_cadd : forall (l o : cmap),
      Permutation (expand (fold_left (fun o (e : T * N) => cadd (fst e) (snd e) o) l o)) (expand o ++ expand l).
  Proof.
    induction l as [|[k v] r IH]; intros o; cbn [fold_left].
    - cbn. rewrite app_nil_r. reflexivity.
    - rewrite IH, expand_cadd. cbn [fst snd expand flat_map]. fold (expand r).
      rewrite <- app_assoc. apply Permutation_app_swap_app.
  Qed.

  Lemma concat_repeat_app {X} (l1 l2 : list X) c :
    Permutation (concat (repeat (l1 ++ l2) c)) (concat (repeat l1 c) ++ concat (repeat l2 c)).
  Proof.
    induction c as [|c IH]; cbn; auto. rewrite IH, <- !app_assoc. apply Permutation_app_head.
    apply Permutation_app_swap_app.
  Qed.

  Lemma concat_repeat_repeat {X} (k : X) v c : concat (repeat (repeat k v) c) = repeat k (v * c).
  Proof.
    induction c as [|c IH]; cbn.
    - rewrite Nat.mul_0_r. reflexivity.
    - rewrite IH, <- repeat_app. f_equal. lia.
  Qed.

  Lemma expand_fold_scaled cnt : forall (d nl : cmap),
      Permutation (expand (fold_left (fun nl (e : T * N) => cadd (fst e) (snd e * cnt)%N nl) d nl))
                  (expand nl ++ concat (repeat (expand d) (N.to_nat cnt))).
  Proof.
    induction d as [|[k v] r IH]; intros nl; cbn [fold_left].
    - cbn. assert (E : concat (repeat (@nil T) (N.to_nat cnt)) = []) by (induction (N.to_nat cnt); cbn; auto).
      rewrite E, app_nil_r. reflexivity.
    - rewrite IH, expand_cadd. cbn [fst snd expand flat_map]. fold (expand r).
      rewrite concat_repeat_app, concat_repeat_repeat, N2Nat.inj_mul, <- !app_assoc.
      apply Permutation_app_swap_app.
  Qed.

  Lemma flat_map_repeat {X Y} (g : X -> list Y) v c : flat_map g (repeat v c) = concat (repeat (g v) c).
  Proof. induction c as [|c IH]; cbn; auto. rewrite IH. reflexivity. Qed.

  Lemma concat_repeat_perm {X} (l l' : list X) c : Permutation l l' -> Permutation (concat (repeat l c)) (concat (repeat l' c)).
  Proof. intros H. induction c as [|c IH]; cbn; auto. apply Permutation_app; auto. Qed.

  (* ---- the language, with its local fixpoint named ---- *)
  Fixpoint gseqs (f : nat) (args : list garg) (y : T) : list (list prog * T) :=
    match args with
    | [] => [([], y)]
    | (t, sa) :: ar =>
      flat_map (fun py => map (fun ly => (fst py :: fst ly, snd ly)) (gseqs f ar (snd py)))
               (glang_at S T f R (t, sa, y))
    end.

  Definition rule_lang (f : nat) (r : grule S T) : list (prog * T) :=
    match fst (snd r) with
    | [] => [(PLeaf (fst r), snd (snd r))]
    | _ => map (fun ay => (PFun (fst r) (fst ay), snd ay)) (gseqs f (fst (snd r)) (snd (snd r)))
    end.

  Lemma seqs_gseqs f : forall args y,
      (fix seqs (args : list garg) (y : T) : list (list prog * T) :=
         match args with
         | [] => [([], y)]
         | (t, sa) :: ar =>
           flat_map (fun py => map (fun ly => (fst py :: fst ly, snd ly)) (seqs ar (snd py)))
                    (glang_at S T f R (t, sa, y))
         end) args y = gseqs f args y.
  Proof.
    induction args as [|[t sa] l IH]; intros y; cbn [gseqs]; auto.
    apply flat_map_ext. intros py. rewrite IH. reflexivity.
  Qed.

  Lemma glang_at_S f x :
    glang_at S T (Datatypes.S f) R x = match R x with None => [] | Some rs => flat_map (rule_lang f) rs end.
  Proof.
    cbn [glang_at]. destruct (R x) as [rs|]; auto. apply flat_map_ext. intros [s [args y]].
    unfold rule_lang. cbn [fst snd]. rewrite (seqs_gseqs f args y). reflexivity.
  Qed.

  Definition Lf (f : nat) (b : garg) (v : T) : list T := map snd (glang_at S T f R (fst b, snd b, v)).
  Fixpoint thread (f : nat) (bases : list garg) (ms : list T) : list T :=
    match bases with
    | [] => ms
    | b :: br => thread f br (flat_map (Lf f b) ms)
    end.

  Lemma thread_app f : forall bs l1 l2, thread f bs (l1 ++ l2) = thread f bs l1 ++ thread f bs l2.
  Proof. induction bs as [|b br IH]; intros l1 l2; cbn; auto. rewrite flat_map_app, IH. reflexivity. Qed.

  Lemma thread_flat f bs : forall ms, thread f bs ms = flat_map (fun v => thread f bs [v]) ms.
  Proof.
    induction ms as [|v r IH]; cbn.
    - induction bs as [|b br IHb]; cbn; auto.
    - change (v :: r) with ([v] ++ r). rewrite thread_app, IH. reflexivity.
  Qed.

  Instance thread_perm f bs : Proper (@Permutation T ==> @Permutation T) (thread f bs).
  Proof.
    induction bs as [|b br IH]; intros l l' H; cbn; auto. apply IH. apply Permutation_flat_map. exact H.
  Qed.

  Lemma map_snd_gseqs f : forall args y, map snd (gseqs f args y) = thread f args [y].
  Proof.
    induction args as [|[t sa] ar IH]; intros y; cbn [gseqs thread]; auto.
    cbn [flat_map]. rewrite app_nil_r. unfold Lf. cbn [fst snd].
    rewrite (thread_flat f ar (map snd _)).
    generalize (glang_at S T f R (t, sa, y)). intros L.
    induction L as [|py L' IHL]; cbn; auto.
    rewrite map_app, IHL, map_map. cbn [snd]. f_equal.
    rewrite <- IH; try reflexivity.
  Qed.

  Lemma map_snd_rule_lang f r : map snd (rule_lang f r) = thread f (fst (snd r)) [snd (snd r)].
  Proof.
    unfold rule_lang. destruct (fst (snd r)) as [|a ar] eqn:E; auto.
    rewrite map_map. cbn [snd]. rewrite <- E. rewrite <- map_snd_gseqs. reflexivity.
  Qed.

  (* ---- the counter, with its local fixpoints named ---- *)
  Notation cpos := (count_pos S T teqb).

  Fixpoint inner_c (f : nat) (base : garg) (loc : cmap) (next_local : cmap) : option cmap :=
    match loc with
    | [] => Some next_local
    | (v, cnt) :: lr =>
      match cpos f R (GAt (fst base, snd base, v)) with
      | None => None
      | Some d => inner_c f base lr (fold_left (fun nl (e : T * N) => cadd (fst e) (snd e * cnt)%N nl) d next_local)
      end
    end.
  Fixpoint loop_c (f : nat) (bases : list garg) (local : cmap) : option cmap :=
    match bases with
    | [] => Some local
    | base :: br => match inner_c f base local [] with None => None | Some nl => loop_c f br nl end
    end.
  Definition rule_count (f : nat) (acc : option cmap) (r : grule S T) : option cmap :=
    match acc with
    | None => None
    | Some output =>
      match cpos f R (snd (gderive S T [] (snd r))) with
      | None => None
      | Some local =>
        match loop_c f (fst (gderive S T [] (snd r))) local with
        | None => None
        | Some local2 => Some (fold_left (fun o (e : T * N) => cadd (fst e) (snd e) o) local2 output)
        end
      end
    end.

  Lemma inner_eq f base : forall loc nl,
      (fix inner (loc : cmap) (next_local : cmap) {struct loc} : option cmap :=
         match loc with
         | [] => Some next_local
         | (v, cnt) :: lr =>
           match cpos f R (GAt (fst base, snd base, v)) with
           | None => None
           | Some d => inner lr (fold_left (fun nl (e : T * N) => cadd (fst e) (snd e * cnt)%N nl) d next_local)
           end
         end) loc nl = inner_c f base loc nl.
  Proof.
    induction loc as [|[v cnt] lr IH]; intros nl; cbn [inner_c]; auto.
    destruct (cpos f R (GAt (fst base, snd base, v))); auto.
  Qed.

  Lemma loop_eq f : forall bases local,
      (fix loop (bases : list garg) (local : cmap) {struct bases} : option cmap :=
         match bases with
         | [] => Some local
         | base :: br =>
           match
             (fix inner (loc : cmap) (next_local : cmap) {struct loc} : option cmap :=
                match loc with
                | [] => Some next_local
                | (v, cnt) :: lr =>
                  match cpos f R (GAt (fst base, snd base, v)) with
                  | None => None
                  | Some d => inner lr (fold_left (fun nl (e : T * N) => cadd (fst e) (snd e * cnt)%N nl) d next_local)
                  end
                end) local []
           with
           | None => None
           | Some nl => loop br nl
           end
         end) bases local = loop_c f bases local.
  Proof.
    induction bases as [|b br IH]; intros local; cbn [loop_c]; auto.
    rewrite inner_eq. destruct (inner_c f b local []); auto.
  Qed.

  Lemma fold_left_ext_eq {X Y} (g h : X -> Y -> X) : (forall a b, g a b = h a b) -> forall l a, fold_left g l a = fold_left h l a.
  Proof. intros E. induction l as [|y l IH]; intros a; cbn; auto. rewrite E. apply IH. Qed.

  Lemma count_pos_S f here :
    cpos (Datatypes.S f) R here =
    match here with
    | GEnd y => Some [(y, 1%N)]
    | GAt x => match R x with None => Some [] | Some rs => fold_left (rule_count f) rs (Some []) end
    end.
  Proof.
    cbn [count_pos]. destruct here as [x|y]; auto. destruct (R x) as [rs|]; auto. apply fold_left_ext_eq.
    intros [output|] r; auto. unfold rule_count. destruct (cpos f R (snd (gderive S T [] (snd r)))); auto.
    rewrite loop_eq. reflexivity.
  Qed.

  (** what a position stands for: the final states of the members below it *)
  Definition pos_states (f : nat) (here : gpos S T) : list T :=
    match here with GEnd y => [y] | GAt x => map snd (glang_at S T f R x) end.

  Lemma gderive_nil (args : list garg) (y : T) :
    gderive S T [] (args, y) = match args with [] => ([], GEnd y) | (t, s) :: ar => (ar, GAt (t, s, y)) end.
  Proof. unfold gderive, gnext; cbn [fst snd]. rewrite app_nil_r. destruct args as [|[t s] ar]; reflexivity. Qed.

  Section Step.
    Variable f : nat.
    Hypothesis IHf : forall here d, cpos f R here = Some d -> Permutation (expand d) (pos_states f here).

    Lemma inner_spec base : forall loc nl0 res,
        inner_c f base loc nl0 = Some res ->
        Permutation (expand res) (expand nl0 ++ flat_map (Lf f base) (expand loc)).
    Proof.
      induction loc as [|[v cnt] lr IH]; intros nl0 res H; cbn [inner_c] in H.
      - inversion H; subst. cbn. rewrite app_nil_r. reflexivity.
      - destruct (cpos f R (GAt (fst base, snd base, v))) as [d|] eqn:E; try discriminate.
        rewrite (IH _ _ H), expand_fold_scaled. cbn [expand flat_map fst snd]. fold (expand lr).
        rewrite flat_map_app, flat_map_repeat, <- app_assoc. apply Permutation_app_head, Permutation_app_tail.
        apply concat_repeat_perm. apply (IHf _ _ E).
    Qed.

    Lemma loop_spec : forall bases local res,
        loop_c f bases local = Some res -> Permutation (expand res) (thread f bases (expand local)).
    Proof.
      induction bases as [|b br IH]; intros local res H; cbn [loop_c] in H.
      - inversion H; subst. reflexivity.
      - destruct (inner_c f b local []) as [nl|] eqn:E; try discriminate.
        rewrite (IH _ _ H). cbn [thread]. apply thread_perm.
        rewrite (inner_spec _ _ _ _ E). reflexivity.
    Qed.

    Lemma rule_spec r local local2 :
      cpos f R (snd (gderive S T [] (snd r))) = Some local ->
      loop_c f (fst (gderive S T [] (snd r))) local = Some local2 ->
      Permutation (expand local2) (map snd (rule_lang f r)).
    Proof.
      destruct r as [s [args y]]. cbn [snd]. rewrite gderive_nil, map_snd_rule_lang. cbn [fst snd].
      destruct args as [|[t sa] ar]; cbn [fst snd]; intros H1 H2.
      - apply IHf in H1. cbn [loop_c] in H2. inversion H2; subst. exact H1.
      - apply IHf in H1. rewrite (loop_spec _ _ _ H2). cbn [thread flat_map]. rewrite app_nil_r.
        apply thread_perm. exact H1.
    Qed.

    Lemma rules_spec : forall rs acc0 out0 res,
        acc0 = Some out0 -> fold_left (rule_count f) rs acc0 = Some res ->
        Permutation (expand res) (expand out0 ++ map snd (flat_map (rule_lang f) rs)).
    Proof.
      induction rs as [|r rs IH]; intros acc0 out0 res -> H; cbn [fold_left] in H.
      - inversion H; subst. cbn. rewrite app_nil_r. reflexivity.
      - unfold rule_count at 2 in H.
        destruct (cpos f R (snd (gderive S T [] (snd r)))) as [local|] eqn:E0;
          [destruct (loop_c f (fst (gderive S T [] (snd r))) local) as [local2|] eqn:E|].
        + rewrite (IH _ _ _ eq_refl H), expand_fold_cadd, (rule_spec _ _ _ E0 E).
          cbn [flat_map]. rewrite map_app, <- app_assoc. reflexivity.
        + exfalso. clear -H. induction rs as [|r' rs' IH']; cbn in H; [discriminate|auto].
        + exfalso. clear -H. induction rs as [|r' rs' IH']; cbn in H; [discriminate|auto].
    Qed.
  End Step.

  Theorem count_rep : forall fuel here d,
      cpos fuel R here = Some d -> Permutation (expand d) (pos_states fuel here).
  Proof.
    induction fuel as [|f IH]; intros here d H; [discriminate|].
    rewrite count_pos_S in H. destruct here as [x|y].
    - cbn [pos_states]. rewrite glang_at_S. destruct (R x) as [rs|].
      + rewrite (rules_spec f IH rs (Some []) [] d eq_refl H). reflexivity.
      + inversion H; subst. reflexivity.
    - inversion H; subst. reflexivity.
  Qed.

  Corollary count_total fuel x n :
    gcount S T teqb fuel R x = Some n -> n = N.of_nat (length (glang_at S T fuel R x)).
  Proof.
    unfold gcount. destruct (cpos fuel R (GAt x)) as [d|] eqn:E; try discriminate.
    intros H; inversion H; subst. rewrite ctotal_expand, (Permutation_length (count_rep _ _ _ E)). cbn [pos_states].
    rewrite map_length. reflexivity.
  Qed.

  (* ---- the language list: sound, complete, duplicate free ---- *)
  (** rule dictionaries have one entry per symbol *)
  Definition nodup_rules : Prop := forall x rs, R x = Some rs -> NoDup (map fst rs).

  (** no empty application Function(P, []) *)
  Fixpoint properb (p : prog) : bool :=
    match p with
    | PLeaf _ => true
    | PFun _ ps => negb (Nat.eqb (length ps) 0) && forallb properb ps
    end.

  Lemma nodup_fst_functional {K V} (l : list (K * V)) k v v' :
    NoDup (map fst l) -> In (k, v) l -> In (k, v') l -> v = v'.
  Proof.
    induction l as [|[k0 v0] r IH]; cbn; intros Hn [] [].
    - congruence.
    - inversion H; subst. inversion Hn; subst. exfalso. apply H3. apply in_map_iff. exists (k, v'); auto.
    - inversion H0; subst. inversion Hn; subst. exfalso. apply H3. apply in_map_iff. exists (k, v); auto.
    - inversion Hn; subst. eauto.
  Qed.

  Lemma grule_of_in x rs s r : nodup_rules -> R x = Some rs -> In (s, r) rs -> grule_of S T R x s = Some r.
  Proof.
    intros Hn HR Hin. unfold grule_of. rewrite HR. apply alookup_of_in; auto.
    intros v' Hv. eapply nodup_fst_functional; eauto.
  Qed.

  Lemma gseqs_sound f :
    (forall x p y, In (p, y) (glang_at S T f R x) -> run S T R x p = Some y /\ properb p = true) ->
    forall args y0 l y, In (l, y) (gseqs f args y0) ->
                        run_args S T R args l y0 = Some y /\ forallb properb l = true /\ length l = length args.
  Proof.
    intros IH. induction args as [|[t sa] ar IHa]; intros y0 l y H; cbn [gseqs] in H.
    - destruct H as [H|[]]. inversion H; subst. cbn. auto.
    - apply in_flat_map in H. destruct H as ([a y1] & H1 & H2). cbn [fst snd] in H2.
      apply in_map_iff in H2. destruct H2 as ([l' y'] & E & H2). cbn [fst snd] in E. inversion E; subst.
      destruct (IH _ _ _ H1) as [R1 R2]. destruct (IHa _ _ _ H2) as (A1 & A2 & A3).
      cbn. rewrite R1, R2, A2. auto.
  Qed.

  Lemma lang_sound : nodup_rules -> forall fuel x p y,
      In (p, y) (glang_at S T fuel R x) -> run S T R x p = Some y /\ properb p = true.
  Proof.
    intros Hn. induction fuel as [|f IH]; intros x p y H; [destruct H|].
    rewrite glang_at_S in H. destruct (R x) as [rs|] eqn:HR; [|destruct H].
    apply in_flat_map in H. destruct H as ([s [args y0]] & Hr & H).
    pose proof (grule_of_in _ _ _ _ Hn HR Hr) as Hg.
    unfold rule_lang in H. cbn [fst snd] in H. destruct args as [|a ar].
    - destruct H as [H|[]]. inversion H; subst. rewrite run_leaf, Hg. auto.
    - apply in_map_iff in H. destruct H as ([l y'] & E & H). cbn [fst snd] in E. inversion E; subst.
      destruct (gseqs_sound f IH _ _ _ _ H) as (A1 & A2 & A3).
      rewrite run_fun, Hg. split; auto. cbn [properb]. rewrite A2, A3. reflexivity.
  Qed.

  Lemma inner_calls f base : forall loc nl0 res,
      inner_c f base loc nl0 = Some res ->
      forall v cnt, In (v, cnt) loc -> exists d, cpos f R (GAt (fst base, snd base, v)) = Some d.
  Proof.
    induction loc as [|[v0 c0] lr IH]; intros nl0 res H v cnt []; cbn [inner_c] in H;
      destruct (cpos f R (GAt (fst base, snd base, v0))) as [d|] eqn:E; try discriminate.
    - inversion H0; subst. eauto.
    - eapply IH; eauto.
  Qed.

  Lemma in_expand v (d : cmap) : In v (expand d) -> exists cnt, In (v, cnt) d.
  Proof.
    unfold expand. rewrite in_flat_map. intros ([k c] & H1 & H2). cbn [fst snd] in H2.
    apply repeat_spec in H2. subst. eauto.
  Qed.

  Lemma fold_rule_count_all f : forall rs acc d,
      fold_left (rule_count f) rs acc = Some d ->
      acc <> None /\
      forall r, In r rs -> exists local l2, cpos f R (snd (gderive S T [] (snd r))) = Some local /\
                                            loop_c f (fst (gderive S T [] (snd r))) local = Some l2.
  Proof.
    induction rs as [|r rs IH]; intros acc d H; cbn [fold_left] in H.
    - split; [congruence|intros r []].
    - destruct (IH _ _ H) as [Hacc Hall]. unfold rule_count in Hacc at 1.
      destruct acc as [output|]; [|congruence].
      destruct (cpos f R (snd (gderive S T [] (snd r)))) as [local|] eqn:E0; [|congruence].
      destruct (loop_c f (fst (gderive S T [] (snd r))) local) as [l2|] eqn:E; [|congruence].
      split; [congruence|]. intros r0 [<-|Hr]; eauto.
  Qed.

  Lemma gseqs_complete f :
    (forall x d, cpos f R (GAt x) = Some d ->
                 forall p y, properb p = true -> run S T R x p = Some y -> In (p, y) (glang_at S T f R x)) ->
    forall args local res y0 ps y,
      loop_c f args local = Some res -> In y0 (expand local) -> forallb properb ps = true ->
      run_args S T R args ps y0 = Some y -> In (ps, y) (gseqs f args y0).
  Proof.
    intros IH. induction args as [|[t sa] ar IHa]; intros local res y0 ps y Hl Hin Hp Hr.
    - destruct ps; cbn in Hr; try discriminate. inversion Hr; subst. left; reflexivity.
    - destruct ps as [|a pr]; cbn in Hr; try discriminate.
      destruct (run S T R (t, sa, y0) a) as [y1|] eqn:E1; try discriminate.
      cbn in Hp. apply andb_true_iff in Hp as [Hp1 Hp2].
      cbn [loop_c] in Hl. destruct (inner_c f (t, sa) local []) as [nl|] eqn:Ei; try discriminate.
      destruct (in_expand _ _ Hin) as (cnt & Hc).
      destruct (inner_calls _ _ _ _ _ Ei _ _ Hc) as (d0 & Hd0). cbn [fst snd] in Hd0.
      pose proof (IH _ _ Hd0 _ _ Hp1 E1) as Ha.
      assert (Hy1 : In y1 (expand nl)).
      { eapply Permutation_in; [symmetry; apply (inner_spec f (count_rep f) _ _ _ _ Ei)|].
        cbn [expand flat_map app]. apply in_flat_map. exists y0. split; auto.
        unfold Lf. cbn [fst snd]. apply in_map_iff. exists (a, y1); auto. }
      cbn [gseqs]. apply in_flat_map. exists (a, y1). split; auto. cbn [fst snd].
      apply in_map_iff. exists (pr, y). split; auto. eapply IHa; eauto.
  Qed.

  Lemma lang_complete : forall fuel x d,
      cpos fuel R (GAt x) = Some d ->
      forall p y, properb p = true -> run S T R x p = Some y -> In (p, y) (glang_at S T fuel R x).
  Proof.
    induction fuel as [|f IH]; intros x d H p y Hp Hr; [discriminate|].
    rewrite count_pos_S in H. rewrite glang_at_S.
    destruct (R x) as [rs|] eqn:HR.
    - destruct (fold_rule_count_all _ _ _ _ H) as [_ Hall].
      destruct p as [s|s ps].
      + rewrite run_leaf in Hr. unfold grule_of in Hr. rewrite HR in Hr.
        destruct (alookup sym_eqb s rs) as [[[|a0 ar] y0]|] eqn:E; try discriminate. inversion Hr; subst.
        apply alookup_sym_in in E. apply in_flat_map. exists (s, ([], y)). split; auto. left; reflexivity.
      + rewrite run_fun in Hr. unfold grule_of in Hr. rewrite HR in Hr.
        destruct (alookup sym_eqb s rs) as [[args y0]|] eqn:E; try discriminate.
        apply alookup_sym_in in E. apply in_flat_map. exists (s, (args, y0)). split; auto.
        cbn [properb] in Hp. apply andb_true_iff in Hp as [Hp1 Hp2].
        pose proof (run_args_length _ _ _ _ _ _ _ Hr) as L.
        unfold rule_lang. cbn [fst snd]. destruct args as [|[t sa] ar].
        * destruct ps; cbn in Hp1; [discriminate|cbn in L; discriminate].
        * apply in_map_iff. exists (ps, y). split; auto.
          destruct (Hall _ E) as (local & l2 & Hl1 & Hl2). cbn [snd] in Hl1, Hl2.
          rewrite gderive_nil in Hl1, Hl2. cbn [fst snd] in Hl1, Hl2.
          destruct ps as [|p0 pr]; cbn in Hr; try discriminate.
          destruct (run S T R (t, sa, y0) p0) as [y1|] eqn:E1; try discriminate.
          cbn in Hp2. apply andb_true_iff in Hp2 as [Hp0 Hpr].
          pose proof (IH _ _ Hl1 _ _ Hp0 E1) as Ha.
          assert (Hy1 : In y1 (expand local)).
          { eapply Permutation_in; [symmetry; apply (count_rep _ _ _ Hl1)|].
            cbn [pos_states]. apply in_map_iff. exists (p0, y1); auto. }
          cbn [gseqs]. apply in_flat_map. exists (p0, y1). split; auto. cbn [fst snd].
          apply in_map_iff. exists (pr, y). split; auto.
          eapply (gseqs_complete f IH); eauto.
    - destruct p as [s|s ps]; [rewrite run_leaf in Hr|rewrite run_fun in Hr]; unfold grule_of in Hr; rewrite HR in Hr; discriminate.
  Qed.

  Lemma NoDup_app_intro {X} (l1 l2 : list X) :
    NoDup l1 -> NoDup l2 -> (forall x, In x l1 -> ~ In x l2) -> NoDup (l1 ++ l2).
  Proof.
    induction l1 as [|a r IH]; cbn; intros H1 H2 H; auto.
    inversion H1; subst. constructor.
    - rewrite in_app_iff. intros [Hi|Hi]; [contradiction|]. apply (H a); auto.
    - apply IH; auto.
  Qed.

  Lemma NoDup_flat_map_key {X Y K} (g : X -> list Y) (key : Y -> K) (kx : X -> K) : forall l,
      (forall x, In x l -> NoDup (g x)) -> (forall x y, In x l -> In y (g x) -> key y = kx x) ->
      NoDup (map kx l) -> NoDup (flat_map g l).
  Proof.
    induction l as [|a r IH]; cbn; intros H1 H2 H3; [constructor|].
    inversion H3; subst. apply NoDup_app_intro; auto.
    intros y Hy Hy'. apply in_flat_map in Hy'. destruct Hy' as (x & Hx & Hyx).
    apply H4. apply in_map_iff. exists x. split; auto.
    rewrite <- (H2 x y (or_intror Hx) Hyx). apply H2; auto.
  Qed.

  Lemma NoDup_map_inj {X Y} (g : X -> Y) l : (forall a b, g a = g b -> a = b) -> NoDup l -> NoDup (map g l).
  Proof.
    intros Hi. induction 1; cbn; constructor; auto.
    intros Hin. apply in_map_iff in Hin. destruct Hin as (x0 & E & Hx0). apply Hi in E. subst. contradiction.
  Qed.

  Lemma map_fst_flat_map {X A B} (g : X -> list (A * B)) l : map fst (flat_map g l) = flat_map (fun x => map fst (g x)) l.
  Proof. induction l as [|a r IH]; cbn; auto. rewrite map_app, IH. reflexivity. Qed.

  Lemma gseqs_nodup f : (forall x, NoDup (map fst (glang_at S T f R x))) ->
                        forall args y0, NoDup (map fst (gseqs f args y0)).
  Proof.
    intros IH. induction args as [|[t sa] ar IHa]; intros y0; cbn [gseqs].
    - cbn. constructor; auto. constructor.
    - rewrite map_fst_flat_map.
      apply (NoDup_flat_map_key _ (fun l : list prog => hd_error l) (fun py : prog * T => Some (fst py))).
      + intros [a y1] _. cbn [fst snd]. rewrite map_map. cbn [fst].
        rewrite <- (map_map fst (cons a)). apply NoDup_map_inj; [intros ? ? E; inversion E; auto|apply IHa].
      + intros [a y1] l _ Hl. cbn [fst snd] in *. rewrite map_map in Hl. apply in_map_iff in Hl.
        destruct Hl as (x0 & <- & _). reflexivity.
      + rewrite <- (map_map fst Some). apply NoDup_map_inj; [intros ? ? E; inversion E; auto|apply IH].
  Qed.

  Lemma lang_nodup : nodup_rules -> forall fuel x, NoDup (map fst (glang_at S T fuel R x)).
  Proof.
    intros Hn. induction fuel as [|f IH]; intros x; [constructor|].
    rewrite glang_at_S. destruct (R x) as [rs|] eqn:HR; [|constructor].
    rewrite map_fst_flat_map.
    apply (NoDup_flat_map_key _ head (fun r : grule S T => fst r)).
    - intros [s [args y0]] _. unfold rule_lang. cbn [fst snd]. destruct args as [|a ar].
      + cbn. constructor; auto. constructor.
      + rewrite map_map. cbn [fst]. rewrite <- (map_map fst (PFun s)).
        apply NoDup_map_inj; [intros ? ? E; inversion E; auto|apply gseqs_nodup; auto].
    - intros [s [args y0]] p _ Hp. unfold rule_lang in Hp. cbn [fst snd] in *. destruct args as [|a ar].
      + destruct Hp as [<-|[]]. reflexivity.
      + rewrite map_map in Hp. apply in_map_iff in Hp. destruct Hp as (x0 & <- & _). reflexivity.
    - apply Hn in HR. exact HR.
  Qed.

  (** C13_count, generic form: the repaired counter returns the number of
      distinct members of the language *)
  Theorem count_language fuel x n :
    nodup_rules -> gcount S T teqb fuel R x = Some n ->
    let L := map fst (glang_at S T fuel R x) in
    NoDup L /\ (forall p, properb p = true -> (In p L <-> gcontains S T R x p = true)) /\ n = N.of_nat (length L).
  Proof.
    intros Hn Hc L. subst L. split; [apply lang_nodup; auto|]. split.
    - intros p Hp. rewrite gcontains_run. split.
      + intros Hin. apply in_map_iff in Hin. destruct Hin as ([p' y] & E & Hin). cbn [fst] in E. subst p'.
        destruct (lang_sound Hn _ _ _ _ Hin) as [-> _]. reflexivity.
      + destruct (run S T R x p) as [y|] eqn:E; try discriminate. intros _.
        unfold gcount in Hc. destruct (cpos fuel R (GAt x)) as [d|] eqn:Ed; try discriminate.
        apply in_map_iff. exists (p, y). split; auto. eapply lang_complete; eauto.
    - rewrite map_length. apply count_total; auto.
  Qed.

  (* ---- the memo of __compute__ is transparent ---- *)
  Notation pc := (pcompute S T seqb teqb true).
  Notation memo_t := (memo_t S T).
  Notation geqb := (gnt_eqb S T seqb teqb).
  Let geqb_spec := gnt_eqb_spec S T seqb teqb seqb_spec teqb_spec.

  Fixpoint pinner (f : nat) (base : garg) (loc : cmap) (memo : memo_t) (next_local : cmap) : option (memo_t * cmap) :=
    match loc with
    | [] => Some (memo, next_local)
    | (v, cnt) :: lr =>
      match pc f R memo (GAt (fst base, snd base, v)) with
      | None => None
      | Some (memo', d) =>
        pinner f base lr memo' (fold_left (fun nl (e : T * N) => cadd (fst e) (snd e * cnt)%N nl) d next_local)
      end
    end.
  Fixpoint ploop (f : nat) (bases : list garg) (memo : memo_t) (local : cmap) : option (memo_t * cmap) :=
    match bases with
    | [] => Some (memo, local)
    | base :: br =>
      match pinner f base local memo [] with
      | None => None
      | Some (memo', nl) => ploop f br memo' nl
      end
    end.
  Definition prule (f : nat) (acc : option (memo_t * cmap)) (r : grule S T) : option (memo_t * cmap) :=
    match acc with
    | None => None
    | Some (memo0, output) =>
      match pc f R memo0 (snd (gderive S T [] (snd r))) with
      | None => None
      | Some (memo1, local) =>
        match ploop f (fst (gderive S T [] (snd r))) memo1 local with
        | None => None
        | Some (memo2, local2) => Some (memo2, fold_left (fun o (e : T * N) => cadd (fst e) (snd e) o) local2 output)
        end
      end
    end.

  Lemma pinner_eq f base : forall loc memo nl,
      (fix inner (loc : cmap) (memo : memo_t) (next_local : cmap) {struct loc} : option (memo_t * cmap) :=
         match loc with
         | [] => Some (memo, next_local)
         | (v, cnt) :: lr =>
           match pc f R memo (GAt (fst base, snd base, v)) with
           | None => None
           | Some (memo', d) =>
             inner lr memo' (fold_left (fun nl (e : T * N) => cadd (fst e) (snd e * cnt)%N nl) d next_local)
           end
         end) loc memo nl = pinner f base loc memo nl.
  Proof.
    induction loc as [|[v cnt] lr IH]; intros memo nl; cbn [pinner]; auto.
    destruct (pc f R memo (GAt (fst base, snd base, v))) as [[memo' d]|]; auto.
  Qed.

  Lemma ploop_eq f : forall bases memo local,
      (fix loop (bases : list garg) (memo : memo_t) (local : cmap) {struct bases} : option (memo_t * cmap) :=
         match bases with
         | [] => Some (memo, local)
         | base :: br =>
           match
             (fix inner (loc : cmap) (memo : memo_t) (next_local : cmap) {struct loc} : option (memo_t * cmap) :=
                match loc with
                | [] => Some (memo, next_local)
                | (v, cnt) :: lr =>
                  match pc f R memo (GAt (fst base, snd base, v)) with
                  | None => None
                  | Some (memo', d) =>
                    inner lr memo' (fold_left (fun nl (e : T * N) => cadd (fst e) (snd e * cnt)%N nl) d next_local)
                  end
                end) local memo []
           with
           | None => None
           | Some (memo', nl) => loop br memo' nl
           end
         end) bases memo local = ploop f bases memo local.
  Proof.
    induction bases as [|b br IH]; intros memo local; cbn [ploop]; auto.
    rewrite pinner_eq. destruct (pinner f b local memo []) as [[memo' nl]|]; auto.
  Qed.

  Lemma pcompute_S f memo here :
    pc (Datatypes.S f) R memo here =
    match here with
    | GEnd y => Some (memo, [(y, 1%N)])
    | GAt x =>
      match alookup geqb x memo with
      | Some d => Some (memo, d)
      | None =>
        match R x with
        | None => Some (memo, [])
        | Some rs =>
          match fold_left (prule f) rs (Some (memo, [])) with
          | None => None
          | Some (memo', output) => Some (ainsert geqb x output memo', output)
          end
        end
      end
    end.
  Proof.
    cbn [pcompute]. destruct here as [x|y]; auto.
    destruct (alookup geqb x memo); auto. destruct (R x) as [rs|]; auto.
    match goal with |- match ?a with _ => _ end = match ?b with _ => _ end => replace a with b; [reflexivity|] end.
    apply fold_left_ext_eq. intros [[memo0 output]|] r; auto. unfold prule.
    destruct (gderive S T [] (snd r)) as [info first]. cbn [fst snd].
    destruct (pc f R memo0 first) as [[memo1 local]|]; auto. rewrite ploop_eq. reflexivity.
  Qed.

  (* monotonicity of the memo-free counter in its fuel *)
  Lemma fold_rule_count_none f : forall rs, fold_left (rule_count f) rs None = None.
  Proof. induction rs as [|r rs IH]; cbn; auto. Qed.

  Lemma cpos_mono : forall f here d, cpos f R here = Some d -> cpos (Datatypes.S f) R here = Some d.
  Proof.
    induction f as [|f IH]; intros here d H; [discriminate|].
    rewrite count_pos_S in *. destruct here as [x|y]; auto. destruct (R x) as [rs|]; auto.
    assert (Hin : forall base loc nl res, inner_c f base loc nl = Some res -> inner_c (Datatypes.S f) base loc nl = Some res).
    { intros base. induction loc as [|[v cnt] lr IHl]; intros nl res Hi; cbn [inner_c] in *; auto.
      destruct (cpos f R (GAt (fst base, snd base, v))) as [d0|] eqn:E; try discriminate.
      rewrite (IH _ _ E). auto. }
    assert (Hlo : forall bases local res, loop_c f bases local = Some res -> loop_c (Datatypes.S f) bases local = Some res).
    { induction bases as [|b br IHb]; intros local res Hl; cbn [loop_c] in *; auto.
      destruct (inner_c f b local []) as [nl|] eqn:E; try discriminate. rewrite (Hin _ _ _ _ E). auto. }
    assert (Hfold : forall rs0 acc d0, fold_left (rule_count f) rs0 acc = Some d0 ->
                                       fold_left (rule_count (Datatypes.S f)) rs0 acc = Some d0).
    { induction rs0 as [|r rs0 IHr]; intros acc d0; cbn [fold_left]; auto.
      destruct (rule_count f acc r) as [o|] eqn:E; [|rewrite fold_rule_count_none; discriminate].
      intros H0.
      assert (E' : rule_count (Datatypes.S f) acc r = Some o).
      { unfold rule_count in *. destruct acc as [output|]; try discriminate.
        destruct (cpos f R (snd (gderive S T [] (snd r)))) as [local|] eqn:E0; try discriminate.
        rewrite (IH _ _ E0).
        destruct (loop_c f (fst (gderive S T [] (snd r))) local) as [l2|] eqn:E1; try discriminate.
        rewrite (Hlo _ _ _ E1). exact E. }
      rewrite E'. apply IHr. exact H0. }
    apply Hfold. exact H.
  Qed.

  Lemma cpos_mono_le f f' here d : f <= f' -> cpos f R here = Some d -> cpos f' R here = Some d.
  Proof. induction 1; auto. intros H0. apply cpos_mono. auto. Qed.

  (** holds for every sufficiently large fuel *)
  Definition ev (Q : nat -> Prop) : Prop := exists F, forall f', F <= f' -> Q f'.
  Lemma ev_and Q1 Q2 : ev Q1 -> ev Q2 -> ev (fun f => Q1 f /\ Q2 f).
  Proof. intros [F1 H1] [F2 H2]. exists (Nat.max F1 F2). intros f' Hf. split; [apply H1|apply H2]; lia. Qed.
  Lemma ev_impl (Q1 Q2 : nat -> Prop) : (forall f, Q1 f -> Q2 f) -> ev Q1 -> ev Q2.
  Proof. intros H [F H1]. exists F. auto. Qed.
  Lemma ev_cpos here d : (exists f, cpos f R here = Some d) -> ev (fun f' => cpos f' R here = Some d).
  Proof. intros [f H]. exists f. intros f' Hf. eapply cpos_mono_le; eauto. Qed.

  Definition memo_ok (memo : memo_t) : Prop :=
    forall x d, alookup geqb x memo = Some d -> exists f', cpos f' R (GAt x) = Some d.

  Lemma memo_transparent : forall fuel memo here memo' d,
      memo_ok memo -> pc fuel R memo here = Some (memo', d) ->
      memo_ok memo' /\ ev (fun f' => cpos f' R here = Some d).
  Proof.
    induction fuel as [|f IH]; intros memo here memo' d Hok H; [discriminate|].
    rewrite pcompute_S in H. destruct here as [x|y].
    2:{ inversion H; subst. split; auto. exists 1. intros f' Hf. destruct f'; [lia|]. rewrite count_pos_S. reflexivity. }
    destruct (alookup geqb x memo) as [d0|] eqn:Em.
    { inversion H; subst. split; auto. apply ev_cpos. eauto. }
    destruct (R x) as [rs|] eqn:HR.
    2:{ inversion H; subst. split; auto. exists 1. intros f' Hf. destruct f'; [lia|]. rewrite count_pos_S, HR. reflexivity. }
    (* the loops *)
    assert (Hinner : forall base loc memo0 nl memo1 res,
               memo_ok memo0 -> pinner f base loc memo0 nl = Some (memo1, res) ->
               memo_ok memo1 /\ ev (fun f' => inner_c f' base loc nl = Some res)).
    { intros base. induction loc as [|[v cnt] lr IHl]; intros memo0 nl memo1 res Hok0 Hp; cbn [pinner] in Hp.
      - inversion Hp; subst. split; auto. exists 0. reflexivity.
      - destruct (pc f R memo0 (GAt (fst base, snd base, v))) as [[memo2 d2]|] eqn:E; try discriminate.
        destruct (IH _ _ _ _ Hok0 E) as [Hok2 Hev2]. destruct (IHl _ _ _ _ Hok2 Hp) as [Hok1 Hev1].
        split; auto. eapply ev_impl; [|apply (ev_and _ _ Hev2 Hev1)].
        intros f0 [H1 H2]. cbn [inner_c]. rewrite H1. exact H2. }
    assert (Hloop : forall bases memo0 local memo1 res,
               memo_ok memo0 -> ploop f bases memo0 local = Some (memo1, res) ->
               memo_ok memo1 /\ ev (fun f' => loop_c f' bases local = Some res)).
    { induction bases as [|b br IHb]; intros memo0 local memo1 res Hok0 Hp; cbn [ploop] in Hp.
      - inversion Hp; subst. split; auto. exists 0. reflexivity.
      - destruct (pinner f b local memo0 []) as [[memo2 nl]|] eqn:E; try discriminate.
        destruct (Hinner _ _ _ _ _ _ Hok0 E) as [Hok2 Hev2]. destruct (IHb _ _ _ _ Hok2 Hp) as [Hok1 Hev1].
        split; auto. eapply ev_impl; [|apply (ev_and _ _ Hev2 Hev1)].
        intros f0 [H1 H2]. cbn [loop_c]. rewrite H1. exact H2. }
    assert (Hrules : forall rs0 memo0 out0 memo1 out1,
               memo_ok memo0 -> fold_left (prule f) rs0 (Some (memo0, out0)) = Some (memo1, out1) ->
               memo_ok memo1 /\ ev (fun f' => fold_left (rule_count f') rs0 (Some out0) = Some out1)).
    { induction rs0 as [|r rs0 IHr]; intros memo0 out0 memo1 out1 Hok0 Hp; cbn [fold_left] in Hp.
      - inversion Hp; subst. split; auto. exists 0. reflexivity.
      - destruct (prule f (Some (memo0, out0)) r) as [[memo2 out2]|] eqn:E.
        2:{ exfalso. clear -Hp. induction rs0 as [|r' rs' IH']; cbn in Hp; [discriminate|auto]. }
        unfold prule in E.
        destruct (pc f R memo0 (snd (gderive S T [] (snd r)))) as [[memo3 local]|] eqn:E0; try discriminate.
        destruct (ploop f (fst (gderive S T [] (snd r))) memo3 local) as [[memo4 local2]|] eqn:E1; try discriminate.
        inversion E; subst memo4 out2. clear E.
        destruct (IH _ _ _ _ Hok0 E0) as [Hok3 Hev3]. destruct (Hloop _ _ _ _ _ Hok3 E1) as [Hok2 Hev2].
        destruct (IHr _ _ _ _ Hok2 Hp) as [Hok1 Hev1].
        split; auto. eapply ev_impl; [|apply (ev_and _ _ Hev3 (ev_and _ _ Hev2 Hev1))].
        intros f0 (H1 & H2 & H3). cbn [fold_left]. unfold rule_count at 2. rewrite H1, H2. exact H3. }
    destruct (fold_left (prule f) rs (Some (memo, []))) as [[memo1 output]|] eqn:Ef; try discriminate.
    inversion H; subst memo' d. clear H.
    destruct (Hrules _ _ _ _ _ Hok Ef) as [Hok1 [F HF]].
    assert (Hx : forall f', Datatypes.S F <= f' -> cpos f' R (GAt x) = Some output).
    { intros f' Hf. destruct f'; [lia|]. rewrite count_pos_S, HR. apply HF. lia. }
    split; [|exists (Datatypes.S F); exact Hx].
    intros x0 d0 H0. destruct (geqb x x0) eqn:E.
    - apply geqb_spec in E; subst x0. rewrite (alookup_ainsert_same geqb geqb_spec) in H0. inversion H0; subst. eauto.
    - rewrite (alookup_ainsert_other geqb geqb_spec) in H0; [apply Hok1; auto|].
      intros Heq. rewrite Heq, (keqb_refl geqb geqb_spec) in E. discriminate.
  Qed.

  (** the repaired programs() with its memo equals the memo-free counter at some fuel *)
  Lemma gprograms_memo_free fuel x n :
    gprograms S T seqb teqb true fuel R x = Some n -> exists f', gcount S T teqb f' R x = Some n.
  Proof.
    unfold gprograms, gcount. destruct (pc fuel R [] (GAt x)) as [[memo' d]|] eqn:E; try discriminate.
    intros H; inversion H; subst.
    assert (Hnil : memo_ok []) by (intros x0 d0 H0; discriminate).
    destruct (memo_transparent _ _ _ _ _ Hnil E) as [_ [F HF]].
    exists F. rewrite (HF F (le_n F)). reflexivity.
  Qed.

  (** C13_count: programs() as repaired, memo included *)
  Theorem programs_language fuel x n :
    nodup_rules -> gprograms S T seqb teqb true fuel R x = Some n ->
    exists L, NoDup L /\ (forall p, properb p = true -> (In p L <-> gcontains S T R x p = true)) /\ n = N.of_nat (length L).
  Proof.
    intros Hn H. destruct (gprograms_memo_free _ _ _ H) as [f' Hc].
    exists (map fst (glang_at S T f' R x)). apply count_language; auto.
  Qed.

  Lemma table_nodupb_sound (g : gtable S T) :
    table_nodupb S T seqb teqb g = true -> forall x rs, of_table S T seqb teqb g x = Some rs -> NoDup (map fst rs).
  Proof.
    unfold table_nodupb. intros H x rs Hx. apply andb_true_iff in H as [_ H].
    apply (of_table_in S T seqb teqb seqb_spec teqb_spec) in Hx.
    rewrite forallb_forall in H. specialize (H _ Hx). cbn [snd] in H.
    apply (nodupb_spec sym_eqb sym_eqb_spec). exact H.
  Qed.
End CountProofs.

(** C13_count for tables *)
Theorem programs_language_table (S T : Type) (seqb : S -> S -> bool) (teqb : T -> T -> bool) :
  (forall a b, seqb a b = true <-> a = b) -> (forall a b, teqb a b = true <-> a = b) ->
  forall (g : gtable S T) fuel x n,
    table_nodupb S T seqb teqb g = true ->
    count_of S T seqb teqb true fuel (of_table S T seqb teqb g) x = Some n ->
    exists L, NoDup L /\
              (forall p, properb p = true -> (In p L <-> gcontains S T (of_table S T seqb teqb g) x p = true)) /\
              n = N.of_nat (length L).
Proof.
  intros Hs Ht g fuel x n Hn Hc. apply (programs_language S T seqb teqb Hs Ht _ fuel); auto.
  intros x0 rs. apply (table_nodupb_sound S T seqb teqb Hs Ht g Hn).
Qed.

(* ====================================================================== *)
(** * The dead-end enumeration is sound: no dead end reported = every started derivation completes *)
Section DeadEnds.
  Variables S T : Type.
  Variable R : oracle S T.
  Notation config := (config S T).

  (** some derivation from c reaches the end marker *)
  Inductive live : config -> Prop :=
  | live_end c rs P r info' y :
      R (fst c) = Some rs -> In (P, r) rs -> gderive S T (snd c) r = (info', GEnd y) -> live c
  | live_step c rs P r info' x' :
      R (fst c) = Some rs -> In (P, r) rs -> gderive S T (snd c) r = (info', GAt x') -> live (x', info') -> live c.

  Definition rstep (c c' : config) : Prop :=
    exists rs P r, R (fst c) = Some rs /\ In (P, r) rs /\ gderive S T (snd c) r = (snd c', GAt (fst c')).

  (** every rule applicable at c leads to the end marker or to a configuration from which it can be reached *)
  Definition rules_ok (c : config) : Prop :=
    forall rs P r, R (fst c) = Some rs -> In (P, r) rs ->
                   match gderive S T (snd c) r with
                   | (_, GEnd _) => True
                   | (info', GAt x') => live (x', info')
                   end.

  (** "every derivation that can be started can be completed" *)
  Definition complete_from (c : config) : Prop := forall c', clos_refl_trans config rstep c c' -> rules_ok c'.

  Lemma chk_live : forall f c, fst (chk_complete S T f R c) = true -> live c.
  Proof.
    induction f as [|f IH]; intros c H; [discriminate|].
    cbn [chk_complete] in H. destruct (R (fst c)) as [rs|] eqn:HR; [|discriminate].
    assert (Hl : forall l, incl l rs ->
               fst (fold_right (fun (r : grule S T) (acc : bool * bool) =>
                                  match gderive S T (snd c) (snd r) with
                                  | (_, GEnd _) => (true, snd acc)
                                  | (info', GAt x') =>
                                    let lo := chk_complete S T f R (x', info') in
                                    (fst lo || fst acc, fst lo && snd lo && snd acc)
                                  end) (false, true) l) = true -> live c).
    { induction l as [|[P r] l IHl]; intros Hi; cbn [fold_right]; [discriminate|].
      cbn [snd]. destruct (gderive S T (snd c) r) as [info' [x'|y]] eqn:Ed.
      - cbn [fst]. intros Ho. apply orb_true_iff in Ho as [Ho|Ho].
        + eapply live_step; eauto. apply Hi; left; reflexivity.
        + apply IHl; auto. intros z Hz; apply Hi; right; auto.
      - intros _. eapply live_end; eauto. apply Hi; left; reflexivity. }
    apply (Hl rs); auto. apply incl_refl.
  Qed.

  Lemma flat_map_nil {X Y} (g : X -> list Y) l : flat_map g l = [] -> forall x, In x l -> g x = [].
  Proof.
    induction l as [|a r IH]; cbn; intros H x []; apply app_eq_nil in H as [H1 H2]; subst; auto.
  Qed.

  Theorem dead_prefixes_sound : forall f c pre, dead_prefixes S T f R c pre = [] -> complete_from c.
  Proof.
    induction f as [|f IH]; intros c pre H; [discriminate|].
    cbn [dead_prefixes] in H. destruct (R (fst c)) as [rs|] eqn:HR.
    - assert (Hsucc : forall P r, In (P, r) rs ->
                 match gderive S T (snd c) r with
                 | (_, GEnd _) => True
                 | (info', GAt x') => live (x', info') /\ complete_from (x', info')
                 end).
      { intros P r Hin. pose proof (flat_map_nil _ _ H _ Hin) as Hr. cbn [fst snd] in Hr.
        destruct (gderive S T (snd c) r) as [info' [x'|y]]; auto.
        destruct (fst (chk_complete S T f R (x', info'))) eqn:Ec; [|discriminate].
        split; [apply (chk_live f); auto|eapply IH; eauto]. }
      intros c' Hpath. apply clos_rt_rt1n in Hpath. destruct Hpath as [|c1 c2 Hs Hp].
      + intros rs0 P r HR0 Hin. rewrite HR in HR0. inversion HR0; subst rs0.
        specialize (Hsucc _ _ Hin). destruct (gderive S T (snd c) r) as [info' [x'|y]]; auto. apply Hsucc.
      + destruct Hs as (rs0 & P & r & HR0 & Hin & Hd). rewrite HR in HR0. inversion HR0; subst rs0.
        specialize (Hsucc _ _ Hin). rewrite Hd in Hsucc. destruct Hsucc as [_ Hc].
        destruct c1 as [x1 i1]. apply Hc. apply clos_rt1n_rt. exact Hp.
    - intros c' Hpath. apply clos_rt_rt1n in Hpath. destruct Hpath as [|c1 c2 Hs Hp].
      + intros rs0 P r HR0. rewrite HR in HR0. discriminate.
      + destruct Hs as (rs0 & P & r & HR0 & _). rewrite HR in HR0. discriminate.
  Qed.

  Corollary gdead_sound fuel start : gdead S T fuel R start = [] -> complete_from (start, []).
  Proof. apply dead_prefixes_sound. Qed.
End DeadEnds.

(* ====================================================================== *)
(** * Products of built grammars *)
Lemma compat_sub S1 T1 S2 T2 (R1 R1' : oracle S1 T1) (R2 R2' : oracle S2 T2) :
  compat S1 T1 S2 T2 R1 R2 ->
  (forall x f r, grule_of S1 T1 R1' x f = Some r -> grule_of S1 T1 R1 x f = Some r) ->
  (forall x f r, grule_of S2 T2 R2' x f = Some r -> grule_of S2 T2 R2 x f = Some r) ->
  compat S1 T1 S2 T2 R1' R2'.
Proof. intros Hc H1 H2 x1 x2 f a1 z1 a2 z2 Ht E1 E2. eapply Hc; eauto. Qed.

Lemma clean_sub S T seqb teqb (seqb_spec : forall a b : S, seqb a b = true <-> a = b)
      (teqb_spec : forall a b : T, teqb a b = true <-> a = b) (tbl : gtable S T) fuel ord start g' :
  gclean S T seqb teqb fuel ord tbl start = Some g' ->
  forall x f r, grule_of S T (of_table S T seqb teqb g') x f = Some r -> grule_of S T (of_table S T seqb teqb tbl) x f = Some r.
Proof.
  unfold gclean. destruct (reach S T seqb teqb fuel tbl [(start, [])] []) as [nr|]; try discriminate.
  destruct (sweeps S T seqb teqb fuel fuel tbl ord start nr) as [nr'|]; try discriminate.
  intros H; inversion H; subst. intros x f r. apply (restrict_sub S T seqb teqb seqb_spec teqb_spec).
Qed.

Lemma sat_sub S T seqb teqb (seqb_spec : forall a b : S, seqb a b = true <-> a = b)
      (teqb_spec : forall a b : T, teqb a b = true <-> a = b) (brules : gnt S T -> list (grule S T))
      confkey fuel wl tbl' :
  sat S T seqb teqb brules confkey fuel wl [] [] = Some tbl' ->
  forall x f r, grule_of S T (of_table S T seqb teqb tbl') x f = Some r ->
                grule_of S T (fun x => Some (brules x)) x f = Some r.
Proof.
  intros H x f r. unfold grule_of. destruct (of_table S T seqb teqb tbl' x) as [rs|] eqn:E; try discriminate.
  assert (Hnil : forall x0 rs0, of_table S T seqb teqb [] x0 = Some rs0 -> rs0 = brules x0) by (intros; discriminate).
  rewrite (sat_sound S T seqb teqb seqb_spec teqb_spec brules _ _ _ _ _ _ H Hnil _ _ E). auto.
Qed.

Lemma map_fst_decorate P g h tys : map fst (decorate P g h tys) = tys.
Proof.
  unfold decorate, Cfg.enumerate. rewrite map_map. cbn [fst]. generalize 0.
  induction tys as [|u r IH]; intros k; cbn; auto. rewrite IH. reflexivity.
Qed.

(** in a built grammar the argument types of a rule are determined by its symbol and the type of the non-terminal *)
Lemma builder_arg_types Tst fx P trans tr :
  (forall x h k, trans x h k = tr (snd x) h k) -> fx_forbid fx = true ->
  forall t g y h args y',
    grule_of ctx Tst (fun x => Some (brules_gen Tst fx P trans x)) (t, g, y) h = Some (args, y') ->
    ends_with (sym_type h) t = Some (map fst args).
Proof.
  intros Htr Hf t g y h args y' H.
  apply (brule_spec Tst fx P trans tr Htr Hf) in H. destruct H as (tys & _ & H2 & _ & _ & _ & ->).
  rewrite map_fst_decorate. exact H2.
Qed.

Lemma builders_compat Tst1 Tst2 fx1 fx2 P1 P2 trans1 tr1 trans2 tr2 :
  (forall x h k, trans1 x h k = tr1 (snd x) h k) -> (forall x h k, trans2 x h k = tr2 (snd x) h k) ->
  fx_forbid fx1 = true -> fx_forbid fx2 = true ->
  compat ctx Tst1 ctx Tst2 (fun x => Some (brules_gen Tst1 fx1 P1 trans1 x)) (fun x => Some (brules_gen Tst2 fx2 P2 trans2 x)).
Proof.
  intros H1 H2 F1 F2 [[t1 g1] y1] [[t2 g2] y2] f a1 z1 a2 z2 Ht E1 E2. cbn in Ht. subst t2.
  apply (builder_arg_types Tst1 fx1 P1 trans1 tr1 H1 F1) in E1.
  apply (builder_arg_types Tst2 fx2 P2 trans2 tr2 H2 F2) in E2. congruence.
Qed.

(** size_constraint * at_most_k over one DSL and request: exactly the programs common to both *)
Theorem size_times_occurrences (fx : fixes) (P : bparams) :
  fx_forbid fx = true -> 2 <= b_ngram P -> fx_taken fx = true -> fx_confkey fx = true ->
  forall fuel ord m prim k g1 g2 g p,
    size_constraint fx fuel ord P m = Some g1 -> at_most_k fx fuel ord P prim k = Some g2 ->
    gmul ctx (nat * nat) ctx nat ctx_eqb nat2_eqb ctx_eqb Nat.eqb fuel ord g1 (size_start P) g2 (occ_start P k) = Some g ->
    (gcontains (ctx * ctx) ((nat * nat) * nat)
               (of_table (ctx * ctx) ((nat * nat) * nat) (pair_eqb ctx_eqb ctx_eqb) (pair_eqb nat2_eqb Nat.eqb) g)
               (mul_start ctx (nat * nat) ctx nat (size_start P) (occ_start P k)) p = true <->
     sized (fx_varapp fx) P m p /\ at_most (fx_varapp fx) P prim k p).
Proof.
  intros Hf Hn Ht Hk fuel ord m prim k g1 g2 g p H1 H2 Hm.
  assert (Hc : compat ctx (nat * nat) ctx nat (of_table ctx (nat * nat) ctx_eqb nat2_eqb g1) (of_table ctx nat ctx_eqb Nat.eqb g2)).
  { eapply compat_sub; [apply (builders_compat (nat * nat) nat fx fx P P (size_trans fx m) (size_tr fx m) (occ_trans prim) (occ_tr prim)
                                               (size_trans_tr fx m) (occ_trans_tr prim) Hf Hf)| |].
    - unfold size_constraint, size_raw in H1.
      destruct (sat ctx (nat * nat) ctx_eqb nat2_eqb (size_rules fx P m) (fx_confkey fx) fuel _ [] []) as [raw|] eqn:Es; try discriminate.
      intros x f r Hr. apply (clean_sub ctx (nat * nat) ctx_eqb nat2_eqb ctx_eqb_spec nat2_eqb_spec _ _ _ _ _ H1) in Hr.
      apply (sat_sub ctx (nat * nat) ctx_eqb nat2_eqb ctx_eqb_spec nat2_eqb_spec _ _ _ _ _ Es) in Hr. exact Hr.
    - unfold at_most_k, occ_raw in H2.
      destruct (sat ctx nat ctx_eqb Nat.eqb (occ_rules fx P prim) (fx_confkey fx) fuel _ [] []) as [raw|] eqn:Es; try discriminate.
      intros x f r Hr. apply (clean_sub ctx nat ctx_eqb Nat.eqb ctx_eqb_spec Nat.eqb_eq _ _ _ _ _ H2) in Hr.
      apply (sat_sub ctx nat ctx_eqb Nat.eqb ctx_eqb_spec Nat.eqb_eq _ _ _ _ _ Es) in Hr. exact Hr. }
  rewrite (product_language ctx (nat * nat) ctx nat ctx_eqb nat2_eqb ctx_eqb Nat.eqb ctx_eqb_spec nat2_eqb_spec ctx_eqb_spec Nat.eqb_eq
                            fuel ord g1 (size_start P) g2 (occ_start P k) g p Hc eq_refl Hm).
  rewrite andb_true_iff.
  rewrite (size_constraint_language fx P Hf Hn Ht Hk fuel ord m g1 p H1).
  rewrite (at_most_k_language fx P Hf Hn Hk fuel ord prim k g2 p H2). reflexivity.
Qed.
