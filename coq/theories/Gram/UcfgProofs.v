(** Proofs about Gram/Ucfg.v, part 2: the grammar read off a deterministic
    automaton derives p from the non-terminal of state q exactly when the
    automaton's run on p is q, and then in exactly one way. *)
From Coq Require Import ZArith NArith QArith List Bool Arith Lia Setoid.
From PS Require Import Base.ListX Base.Sexp Base.Ty Base.Value Base.Prog Gram.Det Gram.U Gram.UProofs
  Auto.Dfta Auto.DftaBase Gram.Ucfg Gram.UcfgBase.
Import ListNotations.
Local Open Scope nat_scope.

Definition ind (b : bool) : nat := if b then 1 else 0.

Lemma existsb_sum {X} (F : X -> bool) l : existsb F l = negb (Nat.eqb (sumnat (map (fun x => ind (F x)) l)) 0).
Proof. induction l as [|x r IH]; cbn; [reflexivity|]. destruct (F x); cbn; auto. Qed.

Lemma nub_map_inj {X Y} (ex : X -> X -> bool) (ey : Y -> Y -> bool)
      (sx : forall a b, ex a b = true <-> a = b) (sy : forall a b, ey a b = true <-> a = b) (h : X -> Y) :
  (forall a b, h a = h b -> a = b) -> forall l, nub ey (map h l) = map h (nub ex l).
Proof.
  intros Hinj. induction l as [|x r IH]; cbn; [reflexivity|]. rewrite IH. f_equal.
  rewrite filter_map_comm. f_equal. apply filter_ext. intros a.
  destruct (ex a x) eqn:E.
  - apply sx in E. subst. rewrite (eqb_refl' ey sy). reflexivity.
  - rewrite (eqb_false ey sy); auto. intros H. apply Hinj in H. subst. rewrite (eqb_refl' ex sx) in E. discriminate.
Qed.

Section Aut.
  Context {Q : Type} (qeqb : Q -> Q -> bool).
  Hypothesis qspec : forall a b, qeqb a b = true <-> a = b.
  Variable A : dfta sym Q.
  Variable ar : sym -> nat.
  Hypothesis Hdet : deterministic A.
  Hypothesis Hrk : forall l args d, In ((l, args), d) (rules A) -> length args = ar l.
  Notation runA := (run sym_eqb qeqb A).

  Lemma mentioned_final q : In q (finals A) -> In q (mentioned A).
  Proof. intros H. unfold mentioned. apply in_or_app. auto. Qed.
  Lemma mentioned_dst l args d : In ((l, args), d) (rules A) -> In d (mentioned A).
  Proof.
    intros H. unfold mentioned. apply in_or_app. right. apply in_or_app. left.
    apply (in_map snd) in H. exact H.
  Qed.
  Lemma mentioned_arg l args d a : In ((l, args), d) (rules A) -> In a args -> In a (mentioned A).
  Proof.
    intros H Ha. unfold mentioned. apply in_or_app. right. apply in_or_app. right.
    apply in_flat_map. exists ((l, args), d). auto.
  Qed.
  Lemma mentioned_run t q : runA t = Some q -> In q (mentioned A).
  Proof.
    intros H. apply (run_is_dst sym_eqb qeqb sym_eqb_spec qspec) in H.
    apply in_map_iff in H. destruct H as [[[l args] d] [<- H]]. eapply mentioned_dst; eauto.
  Qed.

  (** an accepted program respects the arities *)
  Lemma run_well_ranked : forall p q, runA (tree_of p) = Some q -> well_ranked ar p = true.
  Proof.
    induction p as [s|f ps IH] using prog_ind'; intros q H.
    - cbn in H. apply (read_in sym_eqb qeqb sym_eqb_spec qspec) in H. apply Hrk in H. cbn in H. cbn.
      apply Nat.eqb_eq. auto.
    - cbn [tree_of] in H. rewrite (run_eq sym_eqb qeqb) in H.
      destruct (omapo runA (map tree_of ps)) as [args|] eqn:E; [|discriminate].
      apply (read_in sym_eqb qeqb sym_eqb_spec qspec) in H. apply Hrk in H.
      pose proof (omapo_length _ _ _ E) as Hl. rewrite map_length in Hl. cbn.
      apply andb_true_iff. split; [apply Nat.eqb_eq; lia|].
      apply omapo_some in E. apply forallb_forall. intros a Ha.
      rewrite Forall_forall in IH.
      assert (Hex : exists y, runA (tree_of a) = Some y).
      { clear - E Ha. remember (map tree_of ps) as ts eqn:Ets. revert ps Ets Ha.
        induction E as [|t y ts ys Hty _ IHE]; intros ps Ets Ha.
        - destruct ps; [destruct Ha|discriminate].
        - destruct ps as [|b br]; [discriminate|]. cbn in Ets. inversion Ets; subst.
          destruct Ha as [->|Ha]; [eauto|]. eapply IHE; eauto. }
      destruct Hex as [y Hy]. eapply IH; eauto.
  Qed.

  Section Flat.
    Variable d2 : Q -> unt.
    Hypothesis Hinj : forall q q', In q (mentioned A) -> In q' (mentioned A) -> d2 q = d2 q' -> q = q'.
    Let rs := raw_rules d2 A.

    Lemma d2_eqb d q : In d (mentioned A) -> In q (mentioned A) -> unt_eqb (d2 d) (d2 q) = qeqb d q.
    Proof.
      intros Hd Hq. destruct (qeqb d q) eqn:E.
      - apply qspec in E. subst. apply unt_eqb_spec. reflexivity.
      - apply (eqb_false unt_eqb unt_eqb_spec). intros H. apply Hinj in H; auto. subst.
        rewrite (eqb_refl' qeqb qspec) in E. discriminate.
    Qed.

    Lemma cnt_run (nd : unt -> prog -> nat) ps :
      Forall (fun p => forall q, In q (mentioned A) ->
                nd (d2 q) p = ind (option_eqb qeqb (runA (tree_of p)) (Some q))) ps ->
      forall args, length args = length ps -> (forall a, In a args -> In a (mentioned A)) ->
      cntN nd ps (map d2 args) = ind (option_eqb (list_eqb qeqb) (omapo runA (map tree_of ps)) (Some args)).
    Proof.
      induction 1 as [|a ar0 Ha _ IH]; intros [|x r] Hl Hm; cbn in Hl; try discriminate; [reflexivity|].
      cbn [map cntN omapo]. rewrite Ha by (apply Hm; left; reflexivity).
      rewrite IH by (try lia; intros z Hz; apply Hm; right; exact Hz).
      destruct (runA (tree_of a)) as [y|]; cbn; [|reflexivity].
      destruct (omapo runA (map tree_of ar0)) as [ys|]; cbn.
      - destruct (qeqb y x), (list_eqb qeqb ys r); reflexivity.
      - destruct (qeqb y x); reflexivity.
    Qed.

    Lemma nder_run_fun f ps :
      Forall (fun p => forall q, In q (mentioned A) ->
                nder (contrib rs) (d2 q) p = ind (option_eqb qeqb (runA (tree_of p)) (Some q))) ps ->
      length ps = ar f -> forall q, In q (mentioned A) ->
      nder (contrib rs) (d2 q) (PFun f ps) = ind (option_eqb qeqb (runA (tree_of (PFun f ps))) (Some q)).
    Proof.
      intros HF Hlen q Hq. cbn [nder tree_of]. rewrite (run_eq sym_eqb qeqb).
      unfold contrib. rewrite map_map. cbn [fst snd].
      rewrite <- (sumnat_filter (fun r : rrule => unt_eqb (snd r) (d2 q))
                                (fun r : rrule => if sym_eqb (fst (fst r)) f
                                                  then cntN (fun nu' a => nder (contrib rs) nu' a) ps (snd (fst r)) else 0)).
      unfold rs at 2. unfold raw_rules. rewrite map_map. cbn [fst snd].
      destruct (omapo runA (map tree_of ps)) as [qs|] eqn:ER.
      - transitivity (sumnat (map (fun kv : (sym * list Q) * Q =>
                                     if key_eqb sym_eqb qeqb (fst kv) (f, qs) then ind (qeqb (snd kv) q) else 0) (rules A))).
        + apply sumnat_ext. intros [[l args] d] Hin. cbn [fst snd]. unfold key_eqb. cbn [fst snd].
          rewrite (d2_eqb d q) by (eauto using mentioned_dst).
          destruct (qeqb d q); [|destruct (sym_eqb l f && list_eqb qeqb args qs); reflexivity].
          destruct (sym_eqb l f) eqn:El; [|reflexivity]. apply sym_eqb_spec in El. subst l.
          rewrite (cnt_run (fun nu' a => nder (contrib rs) nu' a) ps HF args).
          * rewrite ER. cbn. rewrite (eqb_sym (list_eqb qeqb) (list_eqb_spec qeqb qspec) qs args).
            destruct (list_eqb qeqb args qs); reflexivity.
          * rewrite (Hrk _ _ _ Hin). auto.
          * intros a Ha. eapply mentioned_arg; eauto.
        + rewrite (sum_key_lookup (key_eqb sym_eqb qeqb) (key_eqb_spec sym_eqb qeqb sym_eqb_spec qspec) (rules A) (f, qs) (fun d => ind (qeqb d q))) by exact Hdet.
          unfold read. destruct (alookup (key_eqb sym_eqb qeqb) (f, qs) (rules A)); reflexivity.
      - cbn. apply sumnat_zero. intros [[l args] d] Hin. cbn [fst snd].
        destruct (unt_eqb (d2 d) (d2 q)); [|reflexivity].
        destruct (sym_eqb l f) eqn:El; [|reflexivity]. apply sym_eqb_spec in El. subst l.
        rewrite (cnt_run (fun nu' a => nder (contrib rs) nu' a) ps HF args).
        + rewrite ER. reflexivity.
        + rewrite (Hrk _ _ _ Hin). auto.
        + intros a Ha. eapply mentioned_arg; eauto.
    Qed.

    (** the number of derivations of p from the non-terminal of q is 1 if the run
        of the automaton on p is q, and 0 otherwise *)
    Theorem nder_run : forall p, well_ranked ar p = true -> forall q, In q (mentioned A) ->
      nder (contrib rs) (d2 q) p = ind (option_eqb qeqb (runA (tree_of p)) (Some q)).
    Proof.
      induction p as [s|f ps IH] using prog_ind'; intros Hw q Hq.
      - change (nder (contrib rs) (d2 q) (PLeaf s)) with (nder (contrib rs) (d2 q) (PFun s [])).
        change (tree_of (PLeaf s)) with (tree_of (PFun s [])).
        apply nder_run_fun; auto. cbn in Hw. apply Nat.eqb_eq in Hw. auto.
      - cbn in Hw. apply andb_true_iff in Hw. destruct Hw as [Hl Hw]. apply Nat.eqb_eq in Hl.
        rewrite forallb_forall in Hw. apply nder_run_fun; auto.
        rewrite Forall_forall in *. intros p Hp q' Hq'. apply IH; auto.
    Qed.

    Lemma contrib_ranked : forall x c, In c (contrib rs x) -> length (snd c) = ar (fst c).
    Proof.
      intros x c Hc. unfold contrib in Hc. apply in_map_iff in Hc. destruct Hc as [r [<- Hr]].
      apply filter_In in Hr. destruct Hr as [Hr _]. unfold rs, raw_rules in Hr. apply in_map_iff in Hr.
      destruct Hr as [[[l args] d] [<- Hin]]. cbn. rewrite map_length. eapply Hrk; eauto.
    Qed.

    (** sums over the start symbols: [e] is any injective naming of the final states *)
    Lemma memb_map_inj (e : Q -> unt) q0 l :
      (forall q q', In q (mentioned A) -> In q' (mentioned A) -> e q = e q' -> q = q') ->
      In q0 (mentioned A) -> incl l (mentioned A) -> memb unt_eqb (e q0) (map e l) = memb qeqb q0 l.
    Proof.
      intros He H0 Hl. induction l as [|x r IH]; cbn; [reflexivity|].
      rewrite IH by (intros z Hz; apply Hl; right; exact Hz). f_equal.
      destruct (qeqb q0 x) eqn:E.
      - apply qspec in E. subst. apply unt_eqb_spec. reflexivity.
      - apply (eqb_false unt_eqb unt_eqb_spec). intros H. apply He in H; auto.
        + subst. rewrite (eqb_refl' qeqb qspec) in E. discriminate.
        + apply Hl. left. reflexivity.
    Qed.

    Lemma starts_sum (e : Q -> unt) (F : unt -> nat) t :
      (forall q q', In q (mentioned A) -> In q' (mentioned A) -> e q = e q' -> q = q') ->
      (forall qf, In qf (finals A) -> F (e qf) = ind (option_eqb qeqb (runA t) (Some qf))) ->
      sumnat (map F (nub unt_eqb (map e (finals A)))) = ind (accepts sym_eqb qeqb A t).
    Proof.
      intros He HF. unfold accepts. destruct (runA t) as [q0|] eqn:ER.
      - assert (H0 : In q0 (mentioned A)) by (eapply mentioned_run; eauto).
        transitivity (sumnat (map (fun x => if unt_eqb x (e q0) then 1 else 0) (nub unt_eqb (map e (finals A))))).
        + apply sumnat_ext. intros x Hx. apply (proj1 (in_nub unt_eqb unt_eqb_spec _ _)) in Hx.
          apply in_map_iff in Hx. destruct Hx as [qf [<- Hqf]]. rewrite (HF qf Hqf). cbn.
          destruct (qeqb q0 qf) eqn:E.
          * apply qspec in E. subst. rewrite (eqb_refl' unt_eqb unt_eqb_spec). reflexivity.
          * rewrite (eqb_false unt_eqb unt_eqb_spec); [reflexivity|]. intros H. apply He in H; auto using mentioned_final.
            subst. rewrite (eqb_refl' qeqb qspec) in E. discriminate.
        + rewrite (sum_indicator unt_eqb unt_eqb_spec) by (apply (NoDup_nub unt_eqb unt_eqb_spec)).
          rewrite (memb_nub unt_eqb unt_eqb_spec). rewrite (memb_map_inj e q0 (finals A)); auto.
          intros z Hz. apply mentioned_final. exact Hz.
      - apply sumnat_zero. intros x Hx. apply (proj1 (in_nub unt_eqb unt_eqb_spec _ _)) in Hx.
        apply in_map_iff in Hx. destruct Hx as [qf [<- Hqf]]. rewrite (HF qf Hqf). reflexivity.
    Qed.
  End Flat.
End Aut.

(** * from_raw: the keys are closed and contain the start symbols; the fuel suffices *)
Lemma succs_in_universe rs fin x y : In y (succs (contrib rs) x) -> In y (universe rs fin).
Proof.
  intros H. unfold succs in H. apply in_flat_map in H. destruct H as [c [Hc Hy]].
  unfold contrib in Hc. apply in_map_iff in Hc. destruct Hc as [r [<- Hr]]. apply filter_In in Hr. destruct Hr as [Hr _].
  unfold universe. apply (in_nub unt_eqb unt_eqb_spec). apply in_or_app. right. apply in_or_app. right.
  apply in_flat_map. exists r. auto.
Qed.

Lemma from_raw_inv rs fin starts tbl : from_raw rs fin = GOk (starts, tbl) ->
  exists keys, tbl = build (fun x => x) (contrib rs) keys /\ starts = nub unt_eqb fin /\ starts <> [] /\ incl starts keys
               /\ (forall x, In x keys -> forall y, In y (succs (contrib rs) x) -> In y keys).
Proof.
  unfold from_raw. destruct (nub unt_eqb fin) as [|s0 sr] eqn:Es; [discriminate|].
  destruct (closure unt_eqb (succs (contrib rs)) _ (s0 :: sr)) as [keys|] eqn:Ec; [|discriminate].
  intros H. inversion H; subst. exists keys. split; [reflexivity|]. split; [reflexivity|]. split; [discriminate|]. split.
  - eapply closure_incl; eauto.
  - eapply (closure_closed unt_eqb unt_eqb_spec); eauto.
Qed.

Lemma from_raw_total rs fin : from_raw rs fin <> GFuel.
Proof.
  unfold from_raw. destruct (nub unt_eqb fin) as [|s0 sr] eqn:Es; [discriminate|].
  destruct (closure unt_eqb (succs (contrib rs)) _ (s0 :: sr)) as [keys|] eqn:Ec; [discriminate|].
  exfalso. revert Ec. apply (closure_total unt_eqb unt_eqb_spec (succs (contrib rs)) (universe rs fin)).
  - intros x _ y Hy. eapply succs_in_universe; eauto.
  - rewrite <- Es. apply (NoDup_nub unt_eqb unt_eqb_spec).
  - rewrite <- Es. intros x Hx. apply (proj1 (in_nub unt_eqb unt_eqb_spec _ _)) in Hx.
    unfold universe. apply (in_nub unt_eqb unt_eqb_spec). apply in_or_app. left. exact Hx.
  - cbn. lia.
Qed.

Lemma build_id_key rs keys x : urules_of (build (fun x => x) (contrib rs) keys) x <> None <-> In x keys.
Proof.
  split.
  - intros H. destruct (urules_of _ x) as [r|] eqn:E; [|congruence].
    unfold urules_of, build in E. apply (alookup_map_in unt_eqb unt_eqb_spec) in E. destruct E as [nu [Hin [-> _]]]. exact Hin.
  - intros H. rewrite (urules_build (fun x => x) (contrib rs)); auto. discriminate.
Qed.

(** * the two main theorems, for any naming [d2] of the states that is injective *)
Section Main.
  Context {Q : Type} (qeqb : Q -> Q -> bool).
  Hypothesis qspec : forall a b, qeqb a b = true <-> a = b.
  Variables (A : dfta sym Q) (ar : sym -> nat) (d2 : Q -> unt).
  Hypothesis Hdet : deterministic A.
  Hypothesis Hrk : forall l args d, In ((l, args), d) (rules A) -> length args = ar l.
  Hypothesis Hinj : forall q q', In q (mentioned A) -> In q' (mentioned A) -> d2 q = d2 q' -> q = q'.
  Variables (starts : list unt) (tbl : utable).
  Hypothesis Hg : from_DFTA_gen d2 A = GOk (starts, tbl).
  Notation runA := (run sym_eqb qeqb A).

  Theorem from_dfta_derivations q p : In q (mentioned A) -> urules_of tbl (d2 q) <> None -> well_ranked ar p = true ->
    uderivations tbl (d2 q) p = ind (option_eqb qeqb (runA (tree_of p)) (Some q)).
  Proof.
    intros Hq Hk Hw. unfold from_DFTA_gen in Hg. apply from_raw_inv in Hg.
    destruct Hg as [keys [-> [_ [_ [_ Hcl]]]]]. apply build_id_key in Hk.
    rewrite (uderivations_build (fun x => x) (contrib (raw_rules d2 A)) keys ar); auto.
    - apply (nder_run qeqb qspec A ar Hdet Hrk d2 Hinj); auto.
    - apply (contrib_ranked A ar Hrk d2).
  Qed.

  Theorem from_dfta_member q p : In q (mentioned A) -> urules_of tbl (d2 q) <> None ->
    ucontains_at tbl (d2 q) p = option_eqb qeqb (runA (tree_of p)) (Some q).
  Proof.
    intros Hq Hk. unfold from_DFTA_gen in Hg. apply from_raw_inv in Hg.
    destruct Hg as [keys [-> [_ [_ [_ Hcl]]]]]. apply build_id_key in Hk.
    rewrite (ucontains_build (fun x => x) (contrib (raw_rules d2 A)) keys ar); auto.
    - destruct (well_ranked ar p) eqn:Hw; cbn.
      + rewrite (nder_run qeqb qspec A ar Hdet Hrk d2 Hinj); auto.
        destruct (option_eqb qeqb (runA (tree_of p)) (Some q)); reflexivity.
      + destruct (runA (tree_of p)) as [q'|] eqn:E; [|reflexivity].
        apply (run_well_ranked qeqb qspec A ar Hrk) in E. congruence.
    - apply (contrib_ranked A ar Hrk d2).
  Qed.

  Lemma start_is_key qf : In qf (finals A) -> urules_of tbl (d2 qf) <> None.
  Proof.
    intros Hf. unfold from_DFTA_gen in Hg. apply from_raw_inv in Hg.
    destruct Hg as [keys [-> [Hs [_ [Hi _]]]]]. apply build_id_key. apply Hi. rewrite Hs.
    apply (in_nub unt_eqb unt_eqb_spec). apply in_map. exact Hf.
  Qed.

  Lemma starts_eq : starts = nub unt_eqb (map d2 (finals A)).
  Proof. unfold from_DFTA_gen in Hg. apply from_raw_inv in Hg. destruct Hg as [keys [_ [Hs _]]]. exact Hs. Qed.

  Theorem from_dfta_unambiguous p : well_ranked ar p = true ->
    sumnat (map (fun x => uderivations tbl x p) starts) = ind (accepts sym_eqb qeqb A (tree_of p)).
  Proof.
    intros Hw. rewrite starts_eq. apply (starts_sum qeqb qspec A d2 (fun x => uderivations tbl x p)); auto.
    intros qf Hf. apply from_dfta_derivations; auto using mentioned_final, start_is_key.
  Qed.

  Theorem from_dfta_language p : ucontains tbl starts p = accepts sym_eqb qeqb A (tree_of p).
  Proof.
    unfold ucontains. rewrite existsb_sum. rewrite starts_eq.
    rewrite (starts_sum qeqb qspec A d2 (fun x => ind (ucontains_at tbl x p)) (tree_of p)); auto.
    - destruct (accepts sym_eqb qeqb A (tree_of p)); reflexivity.
    - intros qf Hf. rewrite from_dfta_member; auto using mentioned_final, start_is_key.
  Qed.
End Main.
