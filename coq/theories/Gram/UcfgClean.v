(** Proofs about Gram/Ucfg.v, part 6: UCFG.clean does not change membership
    from the start symbols (whenever its exploration returns). *)
From Coq Require Import ZArith NArith QArith List Bool Arith Lia Setoid.
From PS Require Import Base.ListX Base.Sexp Base.Ty Base.Value Base.Prog Gram.Det Gram.U Gram.UProofs
  Auto.Dfta Auto.DftaBase Gram.Ucfg Gram.UcfgBase.
Import ListNotations.
Local Open Scope nat_scope.

Lemma upos_eqb_spec a b : upos_eqb a b = true <-> a = b.
Proof.
  destruct a as [x|], b as [y|]; cbn; try (split; congruence).
  rewrite unt_eqb_spec. split; congruence.
Qed.

Lemma cstate_eqb_spec a b : cstate_eqb a b = true <-> a = b.
Proof.
  destruct a as [i h], b as [i' h']. unfold cstate_eqb. cbn.
  rewrite andb_true_iff, (list_eqb_spec unt_eqb unt_eqb_spec), upos_eqb_spec.
  split; [intros [-> ->]; reflexivity|intros E; inversion E; auto].
Qed.

(** the set-insertions of one pop *)
Lemma add_new_spec succ : forall d n,
  (forall c, In c (fst (fold_left add_new succ (d, n))) <-> In c d \/ In c succ)
  /\ (forall c, In c n -> In c (snd (fold_left add_new succ (d, n))))
  /\ (forall c, In c (fst (fold_left add_new succ (d, n))) -> In c d \/ In c (snd (fold_left add_new succ (d, n)))).
Proof.
  induction succ as [|c0 r IH]; intros d n; cbn [fold_left].
  - cbn. split; [intros c; tauto|]. split; auto.
  - replace (add_new (d, n) c0) with (if memb cstate_eqb c0 d then (d, n) else (c0 :: d, c0 :: n)) by reflexivity.
    destruct (memb cstate_eqb c0 d) eqn:E.
    + apply (memb_spec cstate_eqb cstate_eqb_spec) in E. destruct (IH d n) as [H1 [H2 H3]]. split; [|split]; auto.
      intros c. rewrite H1. cbn. split; [tauto|]. intros [H|[H|H]]; auto. subst. auto.
    + destruct (IH (c0 :: d) (c0 :: n)) as [H1 [H2 H3]]. split; [|split].
      * intros c. rewrite H1. cbn. tauto.
      * intros c Hc. apply H2. right. exact Hc.
      * intros c Hc. apply H3 in Hc. destruct Hc as [[Hc|Hc]|Hc]; auto. subst. right. apply H2. left. reflexivity.
Qed.

Section CleanLoop.
  Variable tbl : utable.

  Definition expanded_in (done : list cstate) (c : cstate) : Prop :=
    match snd c with
    | UAt x => exists succ, derive_all1 tbl (fst c) x = Some succ /\ incl succ done
    | UEnd => True
    end.
  Definition pending (todo : list (unt * list unt)) (c : cstate) : Prop :=
    match snd c with UAt x => In (x, fst c) todo | UEnd => False end.

  Lemma expanded_mono d d' c : incl d d' -> expanded_in d c -> expanded_in d' c.
  Proof.
    unfold expanded_in. destruct (snd c); auto. intros Hi [succ [H1 H2]]. exists succ. split; auto.
    intros z Hz. auto.
  Qed.

  Lemma clean_loop_closed : forall fuel todo done Done,
    clean_loop fuel tbl todo done = GOk Done ->
    (forall c, In c done -> pending todo c \/ expanded_in done c) ->
    incl done Done /\ forall c, In c Done -> expanded_in Done c.
  Proof.
    induction fuel as [|f IH]; intros todo done Done H Hinv.
    - cbn in H. destruct todo as [|[x info] rest]; [|discriminate]. inversion H; subst. split; [apply incl_refl|].
      intros c Hc. destruct (Hinv c Hc) as [Hp|He]; auto. unfold pending in Hp. unfold expanded_in.
      destruct (snd c); [destruct Hp|exact I].
    - cbn in H. destruct todo as [|[x info] rest].
      + inversion H; subst. split; [apply incl_refl|].
        intros c Hc. destruct (Hinv c Hc) as [Hp|He]; auto. unfold pending in Hp. unfold expanded_in.
        destruct (snd c); [destruct Hp|exact I].
      + destruct (derive_all1 tbl info x) as [succ|] eqn:Ed; [|discriminate].
        destruct (add_new_spec succ done []) as [F1 [_ F3]].
        set (acc := fold_left add_new succ (done, [])) in *.
        assert (Hi : incl done (fst acc)) by (intros c Hc; apply F1; left; exact Hc).
        apply IH in H.
        * destruct H as [H1 H2]. split; auto. intros c Hc. apply H1. apply Hi. exact Hc.
        * intros c Hc. apply F3 in Hc. destruct Hc as [Hc|Hc].
          -- destruct (Hinv c Hc) as [Hp|He].
             ++ unfold pending in Hp. destruct c as [i h]. cbn [fst snd] in *. destruct h as [y|]; [|destruct Hp].
                destruct Hp as [Hp|Hp].
                ** inversion Hp; subst. right. unfold expanded_in. cbn [fst snd]. exists succ. split; auto.
                   intros z Hz. apply F1. right. exact Hz.
                ** left. unfold pending. cbn [fst snd]. apply in_or_app. right. exact Hp.
             ++ right. eapply expanded_mono; eauto.
          -- destruct c as [i h]. destruct h as [y|].
             ++ left. unfold pending. cbn [fst snd]. apply in_or_app. left. apply in_flat_map.
                exists (i, UAt y). split; auto. cbn. left. reflexivity.
             ++ right. unfold expanded_in. cbn. exact I.
  Qed.
End CleanLoop.

Lemma alookup_filter_key {K V} (keqb : K -> K -> bool) (spec : forall a b, keqb a b = true <-> a = b)
      (Qk : K -> bool) (l : list (K * V)) k :
  Qk k = true -> alookup keqb k (filter (fun e => Qk (fst e)) l) = alookup keqb k l.
Proof.
  intros Hk. induction l as [|[k' v] r IH]; cbn; [reflexivity|].
  destruct (keqb k k') eqn:E.
  - apply spec in E. subst k'. rewrite Hk. cbn. rewrite (proj2 (spec k k) eq_refl). reflexivity.
  - destruct (Qk k'); cbn; [rewrite E|]; exact IH.
Qed.

Lemma existsb_filter_irrelevant {X} (F H : X -> bool) l :
  (forall x, In x l -> H x = false -> F x = false) -> existsb F (filter H l) = existsb F l.
Proof.
  induction l as [|x r IH]; cbn; intros Hx; [reflexivity|].
  destruct (H x) eqn:E; cbn.
  - rewrite IH; auto.
  - rewrite (Hx x (or_introl eq_refl) E). cbn. apply IH. auto.
Qed.

Lemma existsb_ext_in {X} (F G : X -> bool) l : (forall x, In x l -> F x = G x) -> existsb F l = existsb G l.
Proof. induction l as [|x r IH]; cbn; intros H; [reflexivity|]. rewrite (H x), IH; auto. Qed.

(** every rule has at least one alternative (the code indexes possibles[0]) *)
Definition alts_nonempty (tbl : utable) : Prop :=
  forall x rs, urules_of tbl x = Some rs -> forall r, In r rs -> snd r <> [].

Section CleanMember.
  Variables (tbl : utable) (starts : list unt) (Done : list cstate).
  Hypothesis Hclosed : forall c, In c Done -> expanded_in tbl Done c.
  Let reached := reached_in starts Done.
  Let tbl' := filter (fun e : unt * list urule => reached (fst e)) tbl.

  Lemma reached_done info x : In (info, UAt x) Done -> reached x = true.
  Proof.
    intros H. unfold reached, reached_in. apply orb_true_iff. right. apply existsb_exists.
    exists (info, UAt x). split; auto. cbn. apply unt_eqb_spec. reflexivity.
  Qed.

  Lemma urules_clean x : reached x = true -> urules_of tbl' x = urules_of tbl x.
  Proof. intros H. unfold urules_of, tbl'. apply (alookup_filter_key unt_eqb unt_eqb_spec reached). exact H. Qed.

  Lemma ualts_clean x f : reached x = true -> ualts_of tbl' x f = ualts_of tbl x f.
  Proof. intros H. unfold ualts_of. rewrite urules_clean; auto. Qed.

  Lemma derive_in_done info x f alts alt : In (info, UAt x) Done -> ualts_of tbl x f = Some alts -> In alt alts ->
    In (uderive1 info alt) Done.
  Proof.
    intros Hd Ha Hin. specialize (Hclosed _ Hd). unfold expanded_in in Hclosed. cbn [fst snd] in Hclosed.
    destruct Hclosed as [succ [Hs Hi]]. apply Hi. unfold derive_all1 in Hs. unfold ualts_of in Ha.
    destruct (urules_of tbl x) as [rs|]; [|discriminate]. inversion Hs; subst.
    apply in_flat_map. exists (f, alts). split.
    - apply (alookup_in sym_eqb sym_eqb_spec). exact Ha.
    - cbn. apply in_map. exact Hin.
  Qed.

  Definition agree (p : prog) : Prop := forall info x, In (info, UAt x) Done ->
    ucontains_rec tbl' p (UAt x) info = ucontains_rec tbl p (UAt x) info
    /\ forall possibles, ucontains_rec tbl p (UAt x) info = Some possibles -> incl possibles Done.

  Lemma agree_at p c : agree p -> In c Done ->
    ucontains_rec tbl' p (snd c) (fst c) = ucontains_rec tbl p (snd c) (fst c)
    /\ forall possibles, ucontains_rec tbl p (snd c) (fst c) = Some possibles -> incl possibles Done.
  Proof.
    intros Ha Hc. destruct c as [i [x|]]; cbn [fst snd].
    - apply Ha. exact Hc.
    - destruct p; cbn; split; auto; discriminate.
  Qed.

  Lemma thread_agree args : Forall agree args -> forall possibles, incl possibles Done ->
    uthread (ucontains_rec tbl') args possibles = uthread (ucontains_rec tbl) args possibles
    /\ forall res, uthread (ucontains_rec tbl) args possibles = Some res -> incl res Done.
  Proof.
    induction 1 as [|a ar0 Ha _ IH]; intros possibles Hp.
    - cbn. split; auto. intros res E. inversion E; subst. exact Hp.
    - cbn [uthread].
      assert (E : flat_map (fun ip : list unt * upos =>
                              match ucontains_rec tbl' a (snd ip) (fst ip) with Some l => l | None => [] end) possibles
                  = flat_map (fun ip : list unt * upos =>
                                match ucontains_rec tbl a (snd ip) (fst ip) with Some l => l | None => [] end) possibles).
      { apply flat_map_ext_in. intros ip Hip. destruct (agree_at a ip Ha (Hp ip Hip)) as [E _]. rewrite E. reflexivity. }
      rewrite E.
      assert (Hn : incl (flat_map (fun ip : list unt * upos =>
                                     match ucontains_rec tbl a (snd ip) (fst ip) with Some l => l | None => [] end) possibles) Done).
      { intros c Hc. apply in_flat_map in Hc. destruct Hc as [ip [Hip Hc]].
        destruct (agree_at a ip Ha (Hp ip Hip)) as [_ Hi].
        destruct (ucontains_rec tbl a (snd ip) (fst ip)) as [l|]; [|destruct Hc]. eapply Hi; eauto. }
      match type of Hn with incl ?np Done => remember np as NP eqn:En end.
      destruct NP as [|c0 cr].
      + split; auto. discriminate.
      + apply IH. exact Hn.
  Qed.

  Theorem clean_agree : forall p, agree p.
  Proof.
    induction p as [s|f ps IH] using prog_ind'; intros info x Hd.
    - cbn [ucontains_rec]. rewrite (ualts_clean x s (reached_done _ _ Hd)). split; [reflexivity|].
      intros possibles H. destruct (ualts_of tbl x s) as [alts|] eqn:Ea; [|discriminate].
      destruct (Nat.eqb (uarity alts) 0); [|discriminate]. inversion H; subst.
      intros c Hc. apply in_map_iff in Hc. destruct Hc as [alt [<- Hin]]. eapply derive_in_done; eauto.
    - rewrite !ucontains_rec_fun. rewrite (ualts_clean x f (reached_done _ _ Hd)).
      destruct (ualts_of tbl x f) as [alts|] eqn:Ea; [|split; [reflexivity|discriminate]].
      destruct (Nat.eqb (uarity alts) (length ps)); [|split; [reflexivity|discriminate]].
      apply thread_agree; auto.
      intros c Hc. apply in_map_iff in Hc. destruct Hc as [alt [<- Hin]]. eapply derive_in_done; eauto.
  Qed.
End CleanMember.

Theorem clean_preserves_membership_gen fuel starts tbl starts' tbl' : alts_nonempty tbl ->
  clean fuel (starts, tbl) = GOk (starts', tbl') ->
  forall p, ucontains tbl' starts' p = ucontains tbl starts p.
Proof.
  intros Hne H p. unfold clean in H. cbn [fst snd] in H.
  destruct (clean_loop fuel tbl _ _) as [Done| |] eqn:El; try discriminate. inversion H; subst. clear H.
  apply clean_loop_closed in El.
  2:{ intros c Hc. apply in_map_iff in Hc. destruct Hc as [x [<- Hx]]. left. unfold pending. cbn.
      apply in_map_iff. exists x. auto. }
  destruct El as [Hi Hcl].
  assert (Hst : forall x, In x starts -> In ([], UAt x) Done).
  { intros x Hx. apply Hi. apply in_map_iff. exists x. auto. }
  unfold ucontains.
  set (T' := filter (fun e : unt * list urule => reached_in starts Done (fst e)) tbl).
  rewrite existsb_filter_irrelevant.
  - apply existsb_ext_in. intros x Hx. unfold ucontains_at.
    destruct (clean_agree tbl starts Done Hcl p [] x (Hst x Hx)) as [E _]. fold T' in E. rewrite E. reflexivity.
  - intros x Hx Hh. unfold ucontains_at.
    destruct (clean_agree tbl starts Done Hcl p [] x (Hst x Hx)) as [E _]. fold T' in E. rewrite E.
    unfold has_one in Hh.
    assert (Er : urules_of T' x = urules_of tbl x).
    { apply (urules_clean tbl starts Done). eapply reached_done; eauto. }
    rewrite Er in Hh.
    assert (Hno : forall s, ualts_of tbl x s = None).
    { intros s. unfold ualts_of. destruct (urules_of tbl x) as [rs|] eqn:Eu; [|reflexivity].
      destruct (alookup sym_eqb s rs) as [alts|] eqn:Ea; [|reflexivity]. exfalso.
      pose proof (alookup_in sym_eqb sym_eqb_spec _ _ _ Ea) as Hin.
      pose proof (Hne x rs Eu (s, alts) Hin) as Hn. cbn in Hn. destruct alts as [|alt ar]; [congruence|].
      assert (Hd : In (uderive1 [] alt) Done).
      { eapply (derive_in_done tbl Done Hcl [] x s (alt :: ar)); eauto.
        - unfold ualts_of. rewrite Eu. exact Ea.
        - left. reflexivity. }
      assert (Hex : existsb (fun r : urule =>
                               existsb (fun alt0 : ualt => memb cstate_eqb (uderive1 [] alt0) Done
                                                          || upos_eqb (snd (uderive1 [] alt0)) UEnd) (snd r)) rs = true).
      { apply existsb_exists. exists (s, alt :: ar). split; [exact Hin|]. cbn [snd existsb].
        apply orb_true_iff. left. apply orb_true_iff. left. apply (memb_spec cstate_eqb cstate_eqb_spec). exact Hd. }
      congruence. }
    destruct p as [s|f ps]; [cbn [ucontains_rec]|rewrite ucontains_rec_fun]; rewrite Hno; reflexivity.
Qed.

(** the same for the derivation lists (reduce_derivations): clean does not
    change the number of derivations from a start symbol it keeps *)
Section CleanDerivs.
  Variables (tbl : utable) (starts : list unt) (Done : list cstate) (w : uwtable).
  Hypothesis Hclosed : forall c, In c Done -> expanded_in tbl Done c.
  Let reached := reached_in starts Done.
  Let tbl' := filter (fun e : unt * list urule => reached (fst e)) tbl.

  Definition dagree (p : prog) : Prop := forall info x, In (info, UAt x) Done ->
    uprob_rec tbl' w p (UAt x) info = uprob_rec tbl w p (UAt x) info
    /\ forall d, In d (uprob_rec tbl w p (UAt x) info) -> In (snd d) Done.

  Lemma dagree_at p (c : cstate) : dagree p -> In c Done ->
    uprob_rec tbl' w p (snd c) (fst c) = uprob_rec tbl w p (snd c) (fst c)
    /\ forall d, In d (uprob_rec tbl w p (snd c) (fst c)) -> In (snd d) Done.
  Proof.
    intros Ha Hc. destruct c as [i [x|]]; cbn [fst snd].
    - apply Ha. exact Hc.
    - destruct p; cbn; split; auto; intros d [].
  Qed.

  Lemma upthread_agree args : Forall dagree args -> forall l : list (option Q * (list unt * upos)),
    (forall d, In d l -> In (snd d) Done) ->
    upthread (uprob_rec tbl' w) args l = upthread (uprob_rec tbl w) args l
    /\ forall d, In d (upthread (uprob_rec tbl w) args l) -> In (snd d) Done.
  Proof.
    induction 1 as [|a ar0 Ha _ IH]; intros l Hl.
    - cbn. split; auto.
    - cbn [upthread].
      match goal with |- upthread _ _ ?L1 = upthread _ _ ?L2 /\ _ => assert (E : L1 = L2) end.
      { apply flat_map_ext_in. intros qip Hq. destruct (dagree_at a (snd qip) Ha (Hl qip Hq)) as [E _]. rewrite E. reflexivity. }
      rewrite E. apply IH. intros d Hd. apply in_flat_map in Hd. destruct Hd as [qip [Hq Hd]].
      apply in_map_iff in Hd. destruct Hd as [d0 [<- Hd0]]. cbn [snd].
      destruct (dagree_at a (snd qip) Ha (Hl qip Hq)) as [_ Hi]. apply Hi. exact Hd0.
  Qed.

  Theorem clean_dagree : forall p, dagree p.
  Proof.
    induction p as [s|f ps IH] using prog_ind'; intros info x Hd.
    - cbn [uprob_rec].
      assert (Eu : ualts_of tbl' x s = ualts_of tbl x s)
        by (apply (ualts_clean tbl starts Done); eapply reached_done; eauto).
      rewrite Eu. split; [reflexivity|].
      intros d H. destruct (ualts_of tbl x s) as [alts|] eqn:Ea; [|destruct H].
      apply in_map_iff in H. destruct H as [alt [<- Hin]]. cbn [snd]. eapply (derive_in_done tbl Done Hclosed); eauto.
    - rewrite !uprob_rec_fun.
      assert (Eu : ualts_of tbl' x f = ualts_of tbl x f)
        by (apply (ualts_clean tbl starts Done); eapply reached_done; eauto).
      rewrite Eu.
      destruct (ualts_of tbl x f) as [alts|] eqn:Ea; [|split; [reflexivity|intros d []]].
      apply upthread_agree; [exact IH|].
      intros d H. apply in_map_iff in H. destruct H as [alt [<- Hin]]. cbn [snd]. eapply (derive_in_done tbl Done Hclosed); eauto.
  Qed.
End CleanDerivs.

Theorem clean_preserves_derivations fuel starts tbl starts' tbl' :
  clean fuel (starts, tbl) = GOk (starts', tbl') ->
  forall x p, In x starts -> uderivations tbl' x p = uderivations tbl x p.
Proof.
  intros H x p Hx. unfold clean in H. cbn [fst snd] in H.
  destruct (clean_loop fuel tbl _ _) as [Done| |] eqn:El; try discriminate. inversion H; subst. clear H.
  apply clean_loop_closed in El.
  2:{ intros c Hc. apply in_map_iff in Hc. destruct Hc as [y [<- Hy]]. left. unfold pending. cbn.
      apply in_map_iff. exists y. auto. }
  destruct El as [Hi Hcl].
  assert (Hst : In ([], UAt x) Done) by (apply Hi; apply in_map_iff; exists x; auto).
  unfold uderivations. destruct (clean_dagree tbl starts Done [] Hcl p [] x Hst) as [E _]. rewrite E. reflexivity.
Qed.
