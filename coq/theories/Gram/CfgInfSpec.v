(** Specification side of the last sentence of property C01 (grammar compiled
    without a depth bound): the typing judgement [wt_inf], written by
    structural recursion on the program, without depth bound and without
    minimum variable depth.  Nothing here mentions the grammar construction;
    only the record of inputs [params] and the forbidden-table lookup (through
    [par_forb]) are shared with the model.  Also: the positions at which
    variables and constants occur ([vars_deep]), and derivations as lists of
    rule applications in pre-order ([Derives]). *)
From Coq Require Import ZArith NArith List Bool Lia Arith.
From PS Require Import Base.ListX Base.Sexp Base.Ty Base.Value Base.Prog Gram.Cfg Gram.CfgSpec Gram.CfgInf.
Import ListNotations.

(** [s] alone is a term of type [t] below [par]. *)
Definition wt_leaf_inf (P : params) (t : ty) (par : option (sym * nat)) (s : sym) : bool :=
  match s with
  | SVar i t' => ty_eqb t' t && option_eqb ty_eqb (nth_error (arguments (request P)) i) (Some t)
  | SConst t' None => ty_eqb t' t && memb ty_eqb t (const_types P)
  | SConst _ (Some _) => false
  | SPrim n tp => ty_eqb tp t && memb dsl_eqb (n, tp) (dsl P) && negb (memb N.eqb n (par_forb P par))
  end.

(** [s] applied to at least one argument gives a term of type [t] below [par]:
    the types the arguments must have. *)
Definition wt_head_inf (P : params) (t : ty) (par : option (sym * nat)) (s : sym) : option (list ty) :=
  match s with
  | SPrim n tp =>
    if memb dsl_eqb (n, tp) (dsl P) && negb (memb N.eqb n (par_forb P par)) then ends_with tp t else None
  | SVar v tv =>
    if option_eqb ty_eqb (nth_error (arguments (request P)) v) (Some tv) then ends_with tv t else None
  | SConst _ _ => None
  end.

(** [wt_inf P t par p]: [p] is a well-formed term of type [t] whose parent is
    [par] (head symbol of the parent, argument index).  [PFun f []] is treated
    as [PLeaf f]. *)
Fixpoint wt_inf (P : params) (t : ty) (par : option (sym * nat)) (p : prog) : bool :=
  match p with
  | PLeaf s => wt_leaf_inf P t par s
  | PFun f args =>
    match args with
    | [] => wt_leaf_inf P t par f
    | _ :: _ =>
      match wt_head_inf P t par f with
      | Some tys =>
        (fix go (i : nat) (tys : list ty) (args : list prog) {struct args} : bool :=
           match tys, args with
           | [], [] => true
           | ty :: tr, a :: ar => wt_inf P ty (Some (f, i)) a && go (S i) tr ar
           | _, _ => false
           end) 0 tys args
      | None => false
      end
    end
  end.

(** Variables and constant slots (as leaves or as heads) occur only at nesting
    depth >= [mv]; [d] is the nesting depth of the root of [p]. *)
Definition sym_deep (mv d : nat) (s : sym) : bool :=
  match s with SPrim _ _ => true | _ => Nat.leb mv d end.

Fixpoint vars_deep (mv d : nat) (p : prog) : bool :=
  match p with
  | PLeaf s => sym_deep mv d s
  | PFun f args => sym_deep mv d f && forallb (vars_deep mv (S d)) args
  end.

(** Derivations: [Derives R x p l] when [l] is the list of (non-terminal,
    rule) applied, in pre-order, by a derivation of [p] from [x] in [R]. *)
Inductive Derives (R : cnt -> list rule) : cnt -> prog -> list (cnt * rule) -> Prop :=
| der_leaf : forall x s, In (s, []) (R x) -> Derives R x (PLeaf s) [(x, (s, []))]
| der_fun : forall x f nts args ls,
    In (f, nts) (R x) -> DerivesL R nts args ls ->
    Derives R x (PFun f args) ((x, (f, nts)) :: concat ls)
with DerivesL (R : cnt -> list rule) : list cnt -> list prog -> list (list (cnt * rule)) -> Prop :=
| derl_nil : DerivesL R [] [] []
| derl_cons : forall n nr a ar l ls,
    Derives R n a l -> DerivesL R nr ar ls -> DerivesL R (n :: nr) (a :: ar) (l :: ls).

(** The derivation computed structurally (meaningful for members). *)
Fixpoint deriv (R : cnt -> list rule) (x : cnt) (p : prog) : list (cnt * rule) :=
  match p with
  | PLeaf s => [(x, (s, []))]
  | PFun f args =>
    match rlookup f (R x) with
    | Some nts =>
      (x, (f, nts)) ::
      (fix go (nts : list cnt) (args : list prog) {struct args} : list (cnt * rule) :=
         match nts, args with
         | n :: nr, a :: ar => deriv R n a ++ go nr ar
         | _, _ => []
         end) nts args
    | None => []
    end
  end.

(** What derive_all must list for a derivation [l] (non-terminal, "is an
    application node") in pre-order: an application node lists its own
    non-terminal, and every node lists the position reached after its symbol,
    i.e. the non-terminal of the next node in pre-order, or the end marker. *)
Definition next_pos (l : list (cnt * bool)) : dpos :=
  match l with [] => DEnd | (x, _) :: _ => DAt x end.

Fixpoint trace_of (l : list (cnt * bool)) : list dpos :=
  match l with
  | [] => []
  | (x, isf) :: rest => (if isf then [DAt x] else []) ++ [next_pos rest] ++ trace_of rest
  end.

(** pre-order list of (non-terminal, is application node) of a member *)
Fixpoint nodes (R : cnt -> list rule) (x : cnt) (p : prog) : list (cnt * bool) :=
  match p with
  | PLeaf s => [(x, false)]
  | PFun f args =>
    (x, true) ::
    match rlookup f (R x) with
    | Some nts =>
      (fix go (nts : list cnt) (args : list prog) {struct args} : list (cnt * bool) :=
         match nts, args with
         | n :: nr, a :: ar => nodes R n a ++ go nr ar
         | _, _ => []
         end) nts args
    | None => []
    end
  end.

(** Rule graph of a grammar: [y] is connected to [x]. *)
Inductive Conn (R : cnt -> list rule) (x : cnt) : cnt -> Prop :=
| conn_refl : Conn R x x
| conn_step : forall y r z, Conn R x y -> In r (R y) -> In z (snd r) -> Conn R x z.
