(** Model of CFG.infinite (synth/syntax/grammars/cfg.py), the builder used by
    CFG.depth_constraint when max_depth < 0, with recursive=False, followed by
    the constructor's clean() (= _remove_non_productive_ then
    _remove_non_reachable_), membership, programs(), and the derivation API
    DetGrammar.derive_all / reduce_derivations specialised to CFGs.

    Non-terminals are the [cnt] of Gram/Cfg.v with the depth component frozen
    at 0, exactly as in the code ((type, ((n-gram, 0), None))).  The fields
    [max_depth] and [min_var] of [params] are not read by anything in this
    file.  The work-list order of the builder is not modelled: a grammar is the
    function giving the rules of a non-terminal. *)
From Coq Require Import ZArith NArith List Bool Lia Arith.
From PS Require Import Base.ListX Base.Sexp Base.Ty Base.Value Base.Prog Gram.Cfg.
Import ListNotations.

Definition decorate_inf (P : params) (g : ctx) (s : sym) (args : list ty) : list cnt :=
  map (fun ia => (snd ia, ctx_succ (n_gram P) g (s, fst ia), 0)) (enumerate args).

(** The rules CFG.infinite attaches to a non-terminal (before cleaning).
    In the order of the code:
    - every variable of the request whose type is the current type, as a leaf
      (no minimum variable depth in this builder);
    - a constant slot when the current type is a declared constant type;
    - every non-forbidden primitive of exactly the current type, as a leaf;
    - every non-forbidden primitive whose type ends with the current type.  The
      code assigns the rule also when ends_with answers the empty list; the
      primitive then has exactly the current type and the rule written is the
      leaf rule of the previous loop again, so only non-empty answers are
      listed here;
    - every variable whose type ends with the current type with at least one
      argument.  The code has no [len(varg.arguments()) > 0] guard here and
      assigns the rule inside the loop over the arguments: with an empty
      answer (variable of exactly the current type) the loop body does not run
      and no rule is assigned, the leaf rule of the first loop stays; with a
      non-empty answer the same list object is assigned at every iteration
      and is complete when the loop ends.  Nothing observable differs from the
      guarded loop of the bounded builder. *)
Definition rules_inf (P : params) (x : cnt) : list rule :=
  let '(t, g, _) := x in
  let vars := enumerate (arguments (request P)) in
  flat_map (fun ia => if ty_eqb t (snd ia) then [(SVar (fst ia) t, [])] else []) vars
  ++ (if memb ty_eqb t (const_types P) then [(SConst t None, [])] else [])
  ++ flat_map (fun nt => if ty_eqb (snd nt) t && negb (is_forbidden P g (fst nt))
                         then [(SPrim (fst nt) (snd nt), [])] else []) (dsl P)
  ++ flat_map (fun nt =>
                 if is_forbidden P g (fst nt) then []
                 else match ends_with (snd nt) t with
                      | Some (a :: r) =>
                        [(SPrim (fst nt) (snd nt), decorate_inf P g (SPrim (fst nt) (snd nt)) (a :: r))]
                      | _ => []
                      end) (dsl P)
  ++ flat_map (fun ia =>
                 match ends_with (snd ia) t with
                 | Some (a :: r) =>
                   [(SVar (fst ia) (snd ia), decorate_inf P g (SVar (fst ia) (snd ia)) (a :: r))]
                 | _ => []
                 end) vars.

(** Membership in the grammar as built (same traversal as the bounded model). *)
Definition contains_inf (P : params) (p : prog) : bool := contains_gen (rules_inf P) (start P) p.

(** * clean(), for any rule function [R] *)

Definition inb (x : cnt) (l : list cnt) : bool := memb cnt_eqb x l.
Definition succs (R : cnt -> list rule) (x : cnt) : list cnt := flat_map snd (R x).

(** Non-terminals connected to [seen] through [R]; [None] = out of fuel. *)
Fixpoint closure (R : cnt -> list rule) (fuel : nat) (seen : list cnt) : option (list cnt) :=
  match fuel with
  | O => None
  | S f =>
    match dedup cnt_eqb (filter (fun y => negb (inb y seen)) (flat_map (succs R) seen)) with
    | [] => Some seen
    | new => closure R f (seen ++ new)
    end
  end.

Definition rule_ok (Q : list cnt) (r : rule) : bool := forallb (fun n => inb n Q) (snd r).

(** _remove_non_productive_, step 1: the non-terminals of [U] that produce a
    program, by rounds; [None] = out of fuel. *)
Fixpoint prodset (R : cnt -> list rule) (U : list cnt) (fuel : nat) (Q : list cnt) : option (list cnt) :=
  match fuel with
  | O => None
  | S f =>
    match filter (fun x => negb (inb x Q) && existsb (rule_ok Q) (R x)) U with
    | [] => Some Q
    | new => prodset R U f (Q ++ new)
    end
  end.

(** _remove_non_productive_, steps 2 and 3 *)
Definition prune (Q : list cnt) (R : cnt -> list rule) (x : cnt) : list rule :=
  if inb x Q then filter (rule_ok Q) (R x) else [].

(** _remove_non_reachable_ *)
Definition restrict (Rch : list cnt) (R : cnt -> list rule) (x : cnt) : list rule :=
  if inb x Rch then R x else [].

(** The result of clean(): productive non-terminals, and those of them that
    are connected to the start symbol by the pruned rules (none when the start
    symbol produces nothing: the language is empty). *)
Record cleaned : Type := { c_prod : list cnt; c_reach : list cnt }.

Definition clean_gen (R : cnt -> list rule) (s : cnt) (fuel : nat) : option cleaned :=
  match closure R fuel [s] with
  | None => None
  | Some U =>
    match prodset R U fuel [] with
    | None => None
    | Some Q =>
      if inb s Q then
        match closure (prune Q R) fuel [s] with
        | Some Rch => Some {| c_prod := Q; c_reach := Rch |}
        | None => None
        end
      else Some {| c_prod := Q; c_reach := [] |}
    end
  end.

Definition clean_rules (R : cnt -> list rule) (c : cleaned) : cnt -> list rule :=
  restrict (c_reach c) (prune (c_prod c) R).

Definition clean_inf (P : params) (fuel : nat) : option cleaned := clean_gen (rules_inf P) (start P) fuel.
Definition crules_inf (P : params) (c : cleaned) : cnt -> list rule := clean_rules (rules_inf P) c.

(** Membership in the cleaned grammar *)
Definition contains_clean (P : params) (c : cleaned) (p : prog) : bool :=
  contains_gen (crules_inf P c) (start P) p.

(** (type, depth = 0, symbol) of every rule of the cleaned grammar *)
Definition rule_triples_inf (P : params) (c : cleaned) : list (ty * nat * sym) :=
  flat_map (fun x => map (fun r : rule => (nt_type x, nt_depth x, fst r)) (crules_inf P c x)) (c_reach c).

(** * programs()
    A height certificate [rk] (non-terminal -> rank) is accepted when every
    rule of every listed non-terminal only has listed arguments of strictly
    smaller rank (programs of a non-terminal of rank k then have height at
    most k + 1).  A certificate exists exactly when the cleaned grammar has
    no cycle; it is searched by rounds ([ranks]); only the acceptance test is
    used by the theorems. *)
Definition rank_of (rk : list (cnt * nat)) (x : cnt) : option nat := alookup cnt_eqb x rk.

Definition rank_ok_at (R : cnt -> list rule) (rk : list (cnt * nat)) (x : cnt) (k : nat) : bool :=
  forallb (fun r : rule =>
             forallb (fun n => match rank_of rk n with Some j => Nat.ltb j k | None => false end) (snd r))
          (R x).

Definition ranks_ok (R : cnt -> list rule) (rk : list (cnt * nat)) : bool :=
  forallb (fun xk => rank_ok_at R rk (fst xk) (snd xk)) rk.

(** one round: the non-terminals of [U] not yet ranked all of whose arguments are ranked *)
Fixpoint ranks (R : cnt -> list rule) (U : list cnt) (fuel : nat) (k : nat) (rk : list (cnt * nat)) : list (cnt * nat) :=
  match fuel with
  | O => rk
  | S f =>
    match filter (fun x => match rank_of rk x with
                           | Some _ => false
                           | None => forallb (fun r : rule =>
                                                forallb (fun n => match rank_of rk n with Some _ => true | None => false end)
                                                        (snd r)) (R x)
                           end) U with
    | [] => rk
    | new => ranks R U f (S k) (rk ++ map (fun x => (x, k)) new)
    end
  end.

(** [Some h]: the cleaned grammar is acyclic and every program has height at
    most [h]; [None]: no certificate (the grammar has a cycle: as every
    remaining non-terminal is reachable and productive the language is
    infinite, and the code answers -1). *)
Definition height_inf (P : params) (c : cleaned) : option nat :=
  let R := crules_inf P c in
  let rk := ranks R (c_reach c) (S (length (c_reach c))) 0 [] in
  if ranks_ok R rk then
    match c_reach c with
    | [] => Some 0
    | _ => match rank_of rk (start P) with Some k => Some (S k) | None => None end
    end
  else None.

(** The depth-bounded instance with the same DSL, request, constants and
    n-gram width, bound [d] and variables allowed everywhere. *)
Definition bounded (P : params) (d : nat) : params :=
  {| dsl := dsl P; forbidden := forbidden P; request := request P; max_depth := d; min_var := 0;
     n_gram := n_gram P; const_types := const_types P |}.

(** programs() of a grammar compiled without depth bound whose language is
    finite = programs() of the depth-[h] grammar (theorem C01_recursive_count). *)
Definition programs_inf (P : params) (c : cleaned) : option N :=
  match height_inf P c with
  | Some h => Some (programs (bounded P h))
  | None => None
  end.

(** programs() as implemented today, kept for the classifier of the recorded
    defect c01_inf_programs_reports_recursive: CFG.programs visits the
    non-terminals by decreasing depth component; here all are 0, the order is
    the insertion order and the start symbol comes first, so the first rule
    with an argument raises the KeyError that is read as "recursive grammar".
    A count comes out only when every rule of the start symbol is a leaf. *)
Definition programs_inf_pinned (P : params) (c : cleaned) : option N :=
  let rs := crules_inf P c (start P) in
  if forallb (fun r : rule => match snd r with [] => true | _ => false end) rs
  then Some (N.of_nat (length rs)) else None.

(** * Derivation API (DetGrammar.derive_all, reduce_derivations; TTCFG.derive)
    The information threaded by the code is the list of pending argument
    non-terminals.  Positions: at a non-terminal, or the end marker
    (UnknownType, ...). *)
Inductive dpos : Type := DAt (x : cnt) | DEnd.

(** TTCFG.derive: [None] where the code raises KeyError (no such rule) or
    would look up the end marker. *)
Definition derive1 (R : cnt -> list rule) (info : list cnt) (here : dpos) (s : sym) : option (list cnt * dpos) :=
  match here with
  | DEnd => None
  | DAt x =>
    match rlookup s (R x) with
    | None => None
    | Some nts =>
      match nts ++ info with
      | [] => Some ([], DEnd)
      | y :: rest => Some (rest, DAt y)
      end
    end
  end.

Definition last_pos (cur : list dpos) (d : dpos) : dpos := last cur d.

(** DetGrammar.derive_all: returns the information and the list [current]
    (positions appended in order). *)
Fixpoint derive_all (R : cnt -> list rule) (p : prog) (info : list cnt) (here : dpos) (cur : list dpos)
  : option (list cnt * list dpos) :=
  match p with
  | PLeaf s =>
    match derive1 R info here s with
    | Some (info', nxt) => Some (info', cur ++ [nxt])
    | None => None
    end
  | PFun f args =>
    match derive1 R info here f with
    | Some (info', nxt) =>
      (fix go (args : list prog) (st : list cnt * list dpos) {struct args} : option (list cnt * list dpos) :=
         match args with
         | [] => Some st
         | a :: ar =>
           match derive_all R a (fst st) (last_pos (snd st) DEnd) (snd st) with
           | Some st' => go ar st'
           | None => None
           end
         end) args (info', (cur ++ [here]) ++ [nxt])
    | None => None
    end
  end.

(** reduce_derivations: [red] is the user's operator, called with the
    non-terminal, the symbol and the right-hand side of the rule. *)
Section Reduce.
  Context {T : Type} (red : T -> cnt -> sym -> list cnt -> T).

  Fixpoint reduce_rec (R : cnt -> list rule) (p : prog) (v : T) (info : list cnt) (here : dpos)
    : option (T * list cnt * dpos) :=
    match here with
    | DEnd => None
    | DAt x =>
      match p with
      | PLeaf s =>
        match derive1 R info here s, rlookup s (R x) with
        | Some (info', nxt), Some nts => Some (red v x s nts, info', nxt)
        | _, _ => None
        end
      | PFun f args =>
        match derive1 R info here f, rlookup f (R x) with
        | Some (info', nxt), Some nts =>
          (fix go (args : list prog) (st : T * list cnt * dpos) {struct args} : option (T * list cnt * dpos) :=
             match args with
             | [] => Some st
             | a :: ar =>
               match reduce_rec R a (fst (fst st)) (snd (fst st)) (snd st) with
               | Some st' => go ar st'
               | None => None
               end
             end) args (red v x f nts, info', nxt)
        | _, _ => None
        end
      end
    end.

  Definition reduce_derivations (R : cnt -> list rule) (s : cnt) (init : T) (p : prog) : option T :=
    match reduce_rec R p init [] (DAt s) with
    | Some (v, _, _) => Some v
    | None => None
    end.
End Reduce.
