(** Instantiating constants: model of TTCFG/UCFG.instantiate_constants (rule
    tables), ProbDetGrammar/ProbUGrammar.instantiate_constants (weights) and
    Program.all_constants_instantiation (programs).

    A rule keyed by a constant of type t, t being a key of the table of values,
    is replaced by one rule per value; its weight is divided by the number of
    rules created (REPAIRED: the pinned code divides by the length of the value
    list even when equal values collapse into one rule - inst_weights_pinned).
    An empty value list removes the rule (its mass is lost: recorded finding). *)
From Coq Require Import ZArith NArith QArith List Bool Lia.
From PS Require Import Base.ListX Base.Sexp Base.Ty Base.Value Base.Prog Gram.Det Gram.U.
Import ListNotations.

Definition vtable : Type := list (ty * list value).          (* Dict[Type, List[Any]] *)
Definition values_of (vt : vtable) (t : ty) : option (list value) := alookup ty_eqb t vt.

(** order-preserving removal of later duplicates (the keys of a Python dict
    built by successive insertion) *)
Fixpoint dedup_values (l : list value) : list value :=
  match l with
  | [] => []
  | v :: r => v :: filter (fun v' => negb (value_eqb v v')) (dedup_values r)
  end.

(** A rule dictionary rebuilt by successive insertion: [tr r n] is the payload of
    each of the n rules created from a slot with payload r. *)
Definition inst_gen {R} (tr : R -> nat -> R) (vt : vtable) (rs : list (sym * R)) : list (sym * R) :=
  fold_left
    (fun acc (sr : sym * R) =>
       match fst sr with
       | SConst t _ =>
         match values_of vt t with
         | Some vs =>
           fold_left (fun acc v => ainsert sym_eqb (SConst t (Some v)) (tr (snd sr) (length (dedup_values vs))) acc) vs acc
         | None => ainsert sym_eqb (fst sr) (snd sr) acc
         end
       | _ => ainsert sym_eqb (fst sr) (snd sr) acc
       end) rs [].

Definition qdiv_n (q : Q) (n : nat) : Q := q / inject_Z (Z.of_nat n).

(** TTCFG.instantiate_constants *)
Definition inst_table (vt : vtable) (tbl : table) : table :=
  map (fun xr : nt * list drule => (fst xr, inst_gen (fun r _ => r) vt (snd xr))) tbl.
(** ProbDetGrammar.instantiate_constants (tags) *)
Definition inst_weights (vt : vtable) (w : wtable) : wtable :=
  map (fun xw : nt * list (sym * Q) => (fst xw, inst_gen qdiv_n vt (snd xw))) w.

(** the pinned weights: division by the length of the value list *)
Definition inst_gen_pinned (vt : vtable) (rs : list (sym * Q)) : list (sym * Q) :=
  fold_left
    (fun acc (sr : sym * Q) =>
       match fst sr with
       | SConst t _ =>
         match values_of vt t with
         | Some vs => fold_left (fun acc v => ainsert sym_eqb (SConst t (Some v)) (qdiv_n (snd sr) (length vs)) acc) vs acc
         | None => ainsert sym_eqb (fst sr) (snd sr) acc
         end
       | _ => ainsert sym_eqb (fst sr) (snd sr) acc
       end) rs [].
Definition inst_weights_pinned (vt : vtable) (w : wtable) : wtable :=
  map (fun xw : nt * list (sym * Q) => (fst xw, inst_gen_pinned vt (snd xw))) w.

(** UCFG.instantiate_constants and ProbUGrammar.instantiate_constants *)
Definition inst_utable (vt : vtable) (tbl : utable) : utable :=
  map (fun xr : unt * list urule => (fst xr, inst_gen (fun r _ => r) vt (snd xr))) tbl.
Definition inst_uweights (vt : vtable) (w : uwtable) : uwtable :=
  map (fun xw : unt * list (sym * list (ualt * Q)) =>
         (fst xw, inst_gen (fun aqs n => map (fun aq : ualt * Q => (fst aq, qdiv_n (snd aq) n)) aqs) vt (snd xw))) w.

(** Program.all_constants_instantiation; None = KeyError (the type of a constant
    of the program is not a key of the table).  REPAIRED: equal values give one
    instantiation (the pinned code yields it once per occurrence). *)
Definition sym_insts_py (vt : vtable) (s : sym) : option (list sym) :=
  match s with
  | SConst t _ => match values_of vt t with Some vs => Some (map (fun v => SConst t (Some v)) (dedup_values vs)) | None => None end
  | _ => Some [s]
  end.

Definition omapf {X Y} (f : X -> option Y) : list X -> option (list Y) :=
  fix go (l : list X) : option (list Y) :=
    match l with
    | [] => Some []
    | x :: r => match f x, go r with Some y, Some ys => Some (y :: ys) | _, _ => None end
    end.

Fixpoint insts_py (vt : vtable) (p : prog) {struct p} : option (list prog) :=
  match p with
  | PLeaf s => match sym_insts_py vt s with Some l => Some (map PLeaf l) | None => None end
  | PFun f args =>
    match sym_insts_py vt f with
    | None => None
    | Some [] => Some []                       (* the generator never looks at the arguments *)
    | Some fs =>
      match omapf (fun a => insts_py vt a) args with
      | Some ls => Some (flat_map (fun f' => map (PFun f') (uprods ls)) fs)
      | None => None
      end
    end
  end.

(** Specification: all instantiations of a template; a constant whose type is
    not a key of the table is kept. *)
Definition sym_insts (vt : vtable) (s : sym) : list sym :=
  match s with
  | SConst t _ => match values_of vt t with Some vs => map (fun v => SConst t (Some v)) (dedup_values vs) | None => [s] end
  | _ => [s]
  end.

Fixpoint insts (vt : vtable) (p : prog) {struct p} : list prog :=
  match p with
  | PLeaf s => map PLeaf (sym_insts vt s)
  | PFun f args => flat_map (fun f' => map (PFun f') (uprods (map (fun a => insts vt a) args))) (sym_insts vt f)
  end.
