(** The cleaning of the unbounded grammar ends within an explicit fuel: the
    non-terminals reachable from the start symbol all lie in a finite universe
    (types = argument types of the DSL / of the request's variables, contexts =
    lists of at most n_gram (head, index) pairs), and every round of [closure]
    and of [prodset] that does not stop adds a new element. *)
From Coq Require Import ZArith NArith List Bool Lia Arith Setoid.
From PS Require Import Base.ListX Base.Sexp Base.Ty Base.Value Base.Prog
  Gram.Cfg Gram.CfgSpec Gram.CfgProofs Gram.CfgInf Gram.CfgInfSpec Gram.CfgInfProofs.
Import ListNotations.

Lemma NoDup_dedup l : NoDup (dedup cnt_eqb l).
Proof.
  induction l as [|x r IH]; cbn [dedup]; [constructor|].
  destruct (memb cnt_eqb x r) eqn:E; auto. constructor; auto.
  intros H. apply In_dedup in H. apply (memb_spec cnt_eqb cnt_eqb_spec) in H. congruence.
Qed.

Section Total.
  Variable univ : list cnt.

  Lemma grow_bound (seen new : list cnt) fuel :
    NoDup (seen ++ new) -> incl (seen ++ new) univ -> new <> [] ->
    length univ - length seen < S fuel -> length univ - length (seen ++ new) < fuel.
  Proof.
    intros Hn Hi Hne Hf. pose proof (NoDup_incl_length Hn Hi) as Hl. rewrite app_length in *.
    destruct new; [congruence|]. cbn [length] in *. lia.
  Qed.

  Lemma closure_total R : (forall x n, In x univ -> In n (succs R x) -> In n univ) ->
    forall fuel seen, NoDup seen -> incl seen univ -> length univ - length seen < fuel ->
    exists U, closure R fuel seen = Some U /\ NoDup U /\ incl U univ.
  Proof.
    intros Hcl. induction fuel as [|f IH]; intros seen Hn Hi Hf; [lia|]. cbn [closure].
    destruct (dedup cnt_eqb (filter (fun y => negb (inb y seen)) (flat_map (succs R) seen))) as [|a l] eqn:E.
    - exists seen; auto.
    - rewrite <- E. set (new := dedup cnt_eqb _) in *.
      assert (Hnew : forall y, In y new -> ~ In y seen /\ In y univ).
      { intros y Hy. apply In_dedup, filter_In in Hy. destruct Hy as [Hy Hb]. split.
        - apply negb_true_iff, inb_false in Hb. exact Hb.
        - apply in_flat_map in Hy. destruct Hy as [x [Hx Hy]]. eapply Hcl; eauto. }
      assert (Hn' : NoDup (seen ++ new)).
      { apply NoDup_app_intro; auto; [apply NoDup_dedup|]. intros y H1 H2. apply Hnew in H2. tauto. }
      assert (Hi' : incl (seen ++ new) univ).
      { intros y Hy. apply in_app_iff in Hy. destruct Hy as [Hy|Hy]; auto. apply Hnew in Hy; tauto. }
      apply IH; auto. apply grow_bound; auto. rewrite E; discriminate.
  Qed.

  Lemma prodset_total R U : NoDup U -> forall fuel Q, NoDup Q -> incl Q U -> length U - length Q < fuel ->
    exists Q', prodset R U fuel Q = Some Q'.
  Proof.
    intros HU. induction fuel as [|f IH]; intros Q Hn Hi Hf; [lia|]. cbn [prodset].
    destruct (filter (fun x => negb (inb x Q) && existsb (rule_ok Q) (R x)) U) as [|a l] eqn:E; [eauto|].
    rewrite <- E. set (new := filter _ U) in *.
    assert (Hnew : forall y, In y new -> ~ In y Q /\ In y U).
    { intros y Hy. apply filter_In in Hy. destruct Hy as [Hy Hb]. split; auto.
      apply andb_true_iff in Hb. destruct Hb as [Hb _]. apply negb_true_iff, inb_false in Hb. exact Hb. }
    assert (Hn' : NoDup (Q ++ new)).
    { apply NoDup_app_intro; auto; [apply NoDup_filter; auto|]. intros y H1 H2. apply Hnew in H2. tauto. }
    assert (Hi' : incl (Q ++ new) U).
    { intros y Hy. apply in_app_iff in Hy. destruct Hy as [Hy|Hy]; auto. apply Hnew in Hy; tauto. }
    apply IH; auto.
    pose proof (NoDup_incl_length Hn' Hi') as Hl. rewrite app_length in *.
    assert (length new <> 0) by (rewrite E; discriminate). lia.
  Qed.

  Theorem clean_gen_total R s : (forall x n, In x univ -> In n (succs R x) -> In n univ) -> In s univ ->
    forall fuel, length univ < fuel -> exists c, clean_gen R s fuel = Some c.
  Proof.
    intros Hcl Hs fuel Hf. unfold clean_gen.
    destruct (closure_total R Hcl fuel [s]) as [U [EU [HnU HiU]]].
    { repeat constructor; cbn; tauto. } { intros y [<-|[]]; auto. } { cbn. lia. }
    rewrite EU. pose proof (NoDup_incl_length HnU HiU) as HlU.
    destruct (prodset_total R U HnU fuel []) as [Q EQ]; [constructor|intros y []|cbn; lia|].
    rewrite EQ. destruct (inb s Q); [|eauto].
    destruct (closure_total (prune Q R)) with (fuel := fuel) (seen := [s]) as [Rch [ER _]].
    - intros x n Hx Hn. apply In_succs in Hn. destruct Hn as [r [Hr Hn]]. apply In_prune in Hr.
      eapply Hcl; eauto. apply In_succs. exists r; tauto.
    - repeat constructor; cbn; tauto.
    - intros y [<-|[]]; auto.
    - cbn. lia.
    - rewrite ER. eauto.
  Qed.
End Total.

(** * The universe of the unbounded builder *)

Definition types_of (P : params) : list ty :=
  returns (request P) :: flat_map (fun nt => arguments (snd nt)) (dsl P) ++ flat_map arguments (arguments (request P)).

Definition heads_of (P : params) : list sym :=
  map (fun nt => SPrim (fst nt) (snd nt)) (dsl P)
  ++ map (fun ia => SVar (fst ia) (snd ia)) (enumerate (arguments (request P))).

Definition alphabet (P : params) : list (sym * nat) :=
  flat_map (fun s => map (fun i => (s, i)) (seq 0 (length (arguments (sym_type s))))) (heads_of P).

Fixpoint lists_upto {X} (n : nat) (A : list X) : list (list X) :=
  match n with
  | O => [[]]
  | S k => [] :: flat_map (fun a => map (cons a) (lists_upto k A)) A
  end.

Lemma In_lists_upto {X} (A : list X) : forall n l,
  length l <= n -> (forall a, In a l -> In a A) -> In l (lists_upto n A).
Proof.
  induction n as [|k IH]; intros l Hl Ha.
  - destruct l; cbn in *; [auto|lia].
  - destruct l as [|a r]; cbn [lists_upto]; [left; reflexivity|right].
    apply in_flat_map. exists a. split; [apply Ha; cbn; auto|].
    apply in_map. apply IH; [cbn in Hl; lia|intros; apply Ha; cbn; auto].
Qed.

Definition univ_inf (P : params) : list cnt :=
  flat_map (fun t => map (fun g => (t, g, 0)) (lists_upto (n_gram P) (alphabet P))) (types_of P).

Lemma In_univ_inf P t g :
  In t (types_of P) -> length g <= n_gram P -> (forall a, In a g -> In a (alphabet P)) -> In (t, g, 0) (univ_inf P).
Proof.
  intros Ht Hl Ha. apply in_flat_map. exists t. split; auto.
  apply in_map_iff. exists g. split; auto. apply In_lists_upto; auto.
Qed.

Lemma lists_upto_inv {X} (A : list X) : forall n l, In l (lists_upto n A) ->
  length l <= n /\ forall a, In a l -> In a A.
Proof.
  induction n as [|k IH]; intros l; cbn [lists_upto].
  - intros [<-|[]]. split; [cbn; lia|intros a []].
  - intros [<-|H]; [split; [cbn; lia|intros a []]|].
    apply in_flat_map in H. destruct H as [a [Ha H]]. apply in_map_iff in H. destruct H as [r [<- Hr]].
    apply IH in Hr. destruct Hr as [H1 H2]. split; [cbn; lia|]. intros b [<-|Hb]; auto.
Qed.

Lemma ends_with_rec_prefix : forall self other acc l, ends_with_rec self other acc = Some l ->
  exists pre suf, l = acc ++ pre /\ arguments self = pre ++ suf.
Proof.
  induction self; intros other acc l; cbn [ends_with_rec];
    try (destruct (ty_eqb _ other); [|discriminate]; intros E; inversion E; subst;
         exists [], []; rewrite app_nil_r; split; reflexivity).
  destruct (ty_eqb (TArrow self1 self2) other).
  - intros E; inversion E; subst. exists [], (arguments (TArrow self1 self2)). rewrite app_nil_r. split; reflexivity.
  - intros H. apply IHself2 in H. destruct H as [pre [suf [-> Hs]]].
    exists (self1 :: pre), suf. rewrite <- app_assoc. cbn [app arguments]. rewrite Hs. split; reflexivity.
Qed.

Lemma ends_with_prefix tp t l : ends_with tp t = Some l -> exists suf, arguments tp = l ++ suf.
Proof. intros H. apply ends_with_rec_prefix in H. destruct H as [pre [suf [-> Hs]]]. eauto. Qed.

Lemma ctx_succ_bound n g x A : length g <= n -> (forall a, In a g -> In a A) -> In x A ->
  length (ctx_succ n g x) <= n /\ forall a, In a (ctx_succ n g x) -> In a A.
Proof.
  intros Hl Ha Hx. unfold ctx_succ.
  assert (Hall : forall a, In a (x :: g) -> In a A) by (intros a [<-|H]; auto).
  destruct (Nat.ltb n (length (x :: g) + 1)) eqn:E.
  - split.
    + destruct (exists_last (l := x :: g)) as [l' [z Ez]]; [discriminate|].
      rewrite Ez, removelast_last. assert (length (x :: g) = length (l' ++ [z])) by (rewrite Ez; reflexivity).
      rewrite app_length in H. cbn in H. lia.
    + intros a H. apply Hall. revert H. generalize (x :: g). intros l.
      induction l as [|b r IH]; cbn [removelast]; [tauto|]. destruct r; [intros []|].
      intros [<-|H]; [left; reflexivity|right; auto].
  - apply Nat.ltb_ge in E. split; [lia|auto].
Qed.

Lemma univ_inf_closed P x n : In x (univ_inf P) -> In n (succs (rules_inf P) x) -> In n (univ_inf P).
Proof.
  intros Hx Hn. apply In_succs in Hn. destruct Hn as [[s nts] [Hr Hn]]. cbn [snd] in Hn.
  unfold univ_inf in Hx. apply in_flat_map in Hx. destruct Hx as [t [Ht Hx]].
  apply in_map_iff in Hx. destruct Hx as [g [<- Hg]]. apply lists_upto_inv in Hg. destruct Hg as [Hgl Hga].
  apply In_rules_inf in Hr. unfold rule_of_inf in Hr.
  destruct (wt_leaf_inf P t (hd_error g) s); [inversion Hr; subst; destruct Hn|].
  destruct (wt_head_inf P t (hd_error g) s) as [[|a r]|] eqn:Hh; try discriminate.
  inversion Hr; subst nts; clear Hr. unfold decorate_inf in Hn. apply in_map_iff in Hn.
  destruct Hn as [[i ty0] [<- Hi]]. cbn [fst snd]. apply In_enumerate in Hi.
  assert (Hs : In s (heads_of P) /\ exists suf, arguments (sym_type s) = (a :: r) ++ suf).
  { destruct s as [m tp|v tv|t' c]; cbn [wt_head_inf] in Hh; try discriminate.
    - destruct (memb dsl_eqb (m, tp) (dsl P) && _) eqn:Ec; [|discriminate].
      apply andb_true_iff in Ec. destruct Ec as [Hm _]. apply memb_dsl in Hm. split.
      + apply in_app_iff. left. apply in_map_iff. exists (m, tp). split; auto.
      + cbn [sym_type]. eapply ends_with_prefix; eauto.
    - destruct (option_eqb ty_eqb (nth_error (arguments (request P)) v) (Some tv)) eqn:Ev; [|discriminate].
      apply nth_eqb_spec in Ev. split.
      + apply in_app_iff. right. apply in_map_iff. exists (v, tv). split; auto. apply In_enumerate; auto.
      + cbn [sym_type]. eapply ends_with_prefix; eauto. }
  destruct Hs as [Hs [suf Hsuf]].
  assert (Hty : In ty0 (arguments (sym_type s))).
  { rewrite Hsuf. apply in_app_iff. left. eapply nth_error_In; eauto. }
  assert (Hi' : i < length (arguments (sym_type s))).
  { rewrite Hsuf, app_length. assert (i < length (a :: r)) by (apply nth_error_Some; rewrite Hi; discriminate). lia. }
  assert (Hal : In (s, i) (alphabet P)).
  { apply in_flat_map. exists s. split; auto. apply in_map. apply in_seq. lia. }
  destruct (ctx_succ_bound (n_gram P) g (s, i) (alphabet P) Hgl Hga Hal) as [H1 H2].
  apply In_univ_inf; auto.
  unfold types_of. right. apply in_app_iff.
  apply in_app_iff in Hs. destruct Hs as [Hs|Hs]; apply in_map_iff in Hs; destruct Hs as [y [<- Hy]].
  - left. apply in_flat_map. exists y. split; auto.
  - right. apply in_flat_map. exists (snd y). split; auto.
    destruct y as [v tv]. apply In_enumerate in Hy. cbn [snd]. eapply nth_error_In; eauto.
Qed.

Lemma start_in_univ P : In (start P) (univ_inf P).
Proof. unfold start. apply In_univ_inf; [left; reflexivity|cbn; lia|intros a []]. Qed.

(** The cleaning of the unbounded grammar succeeds with any fuel above the
    size of the universe. *)
Theorem clean_inf_total P : forall fuel, length (univ_inf P) < fuel -> exists c, clean_inf P fuel = Some c.
Proof.
  intros fuel Hf. apply (clean_gen_total (univ_inf P)); auto.
  - intros x n. apply univ_inf_closed.
  - apply start_in_univ.
Qed.

(** non-vacuity: the bound for the DSL of [Ex] *)
Example ex_total : length (univ_inf Ex.ex_P) = 657 /\ exists c, clean_inf Ex.ex_P 658 = Some c.
Proof. split; [vm_compute; reflexivity|]. apply clean_inf_total. vm_compute. lia. Qed.
