(** Proofs about Gram/Ucfg.v, part 3: the enumerated language of a ranked
    unambiguous-grammar table lists every program once per derivation, and
    programs() (U.ucount) is its length. *)
From Coq Require Import ZArith NArith QArith List Bool Arith Lia Setoid.
From PS Require Import Base.ListX Base.Sexp Base.Ty Base.Value Base.Prog Gram.Det Gram.U Gram.UProofs
  Auto.Dfta Auto.DftaBase Gram.Ucfg Gram.UcfgBase Gram.UcfgProofs.
Import ListNotations.
Local Open Scope nat_scope.

(** * occurrences *)
Definition occ (p : prog) (l : list prog) : nat := length (filter (prog_eqb p) l).
Definition occl (ps : list prog) (l : list (list prog)) : nat := length (filter (list_eqb prog_eqb ps) l).

Lemma occ_sum p l : occ p l = sumnat (map (fun b => ind (prog_eqb p b)) l).
Proof. unfold occ. induction l as [|b r IH]; cbn; [reflexivity|]. destruct (prog_eqb p b); cbn; lia. Qed.

Lemma occ_app p l1 l2 : occ p (l1 ++ l2) = occ p l1 + occ p l2.
Proof. unfold occ. rewrite filter_app, app_length. reflexivity. Qed.

Lemma occ_flat_map {X} p (g : X -> list prog) l : occ p (flat_map g l) = sumnat (map (fun a => occ p (g a)) l).
Proof. induction l as [|a r IH]; cbn [flat_map map sumnat]; [reflexivity|]. rewrite occ_app, IH. reflexivity. Qed.

Lemma occ_map_fun f ps s Lh : occ (PFun f ps) (map (PFun s) Lh) = if sym_eqb f s then occl ps Lh else 0.
Proof.
  unfold occ, occl. destruct (sym_eqb f s) eqn:E.
  - induction Lh as [|l0 r IH]; cbn [map filter]; [reflexivity|]. cbn [prog_eqb]. rewrite E. cbn [andb].
    destruct (list_eqb prog_eqb ps l0); cbn [length]; [f_equal|]; exact IH.
  - induction Lh as [|l0 r IH]; cbn [map filter]; [reflexivity|]. cbn [prog_eqb]. rewrite E. cbn [andb]. exact IH.
Qed.

Lemma occ_leaf_map s s' Lh : occ (PLeaf s) (map (PFun s') Lh) = 0.
Proof. unfold occ. induction Lh; cbn; auto. Qed.

Lemma occ_in p l : In p l <-> 1 <= occ p l.
Proof.
  unfold occ. split.
  - intros H. assert (Hin : In p (filter (prog_eqb p) l)) by (apply filter_In; split; auto; apply prog_eqb_refl).
    destruct (filter (prog_eqb p) l); [destruct Hin|cbn; lia].
  - intros H. destruct (filter (prog_eqb p) l) as [|b r] eqn:E; [cbn in H; lia|].
    assert (Hin : In b (filter (prog_eqb p) l)) by (rewrite E; left; reflexivity).
    apply filter_In in Hin. destruct Hin as [Hin Hb]. apply prog_eqb_spec in Hb. subst. exact Hin.
Qed.

Lemma occ_nodup l : (forall p, occ p l <= 1) -> NoDup l.
Proof.
  induction l as [|b r IH]; intros H; [constructor|]. constructor.
  - intros Hin. apply occ_in in Hin. specialize (H b). unfold occ in *. cbn in H. rewrite prog_eqb_refl in H. cbn in H. lia.
  - apply IH. intros p. specialize (H p). unfold occ in *. cbn in H. destruct (prog_eqb p b); cbn in H; lia.
Qed.

(** products *)
Lemma uprods_cons {X} (Lh : list X) Ls : uprods (Lh :: Ls) = flat_map (fun a => map (cons a) (uprods Ls)) Lh.
Proof. reflexivity. Qed.

Definition cntL (O : prog -> list prog -> nat) : list prog -> list (list prog) -> nat :=
  fix go (ps : list prog) (Ls : list (list prog)) {struct ps} : nat :=
    match ps, Ls with
    | [], [] => 1
    | a :: ar, Lh :: Lr => O a Lh * go ar Lr
    | _, _ => 0
    end.

Lemma occl_cons a ar b X : occl (a :: ar) (map (cons b) X) = if prog_eqb a b then occl ar X else 0.
Proof.
  unfold occl. destruct (prog_eqb a b) eqn:E.
  - induction X as [|x r IH]; cbn [map filter]; [reflexivity|]. cbn [list_eqb]. rewrite E. cbn [andb].
    destruct (list_eqb prog_eqb ar x); cbn [length]; [f_equal|]; exact IH.
  - induction X as [|x r IH]; cbn [map filter]; [reflexivity|]. cbn [list_eqb]. rewrite E. cbn [andb]. exact IH.
Qed.

Lemma occl_nil_cons b X : occl [] (map (cons b) X) = 0.
Proof. unfold occl. induction X; cbn; auto. Qed.

Lemma occl_flat_map {X} ps (g : X -> list (list prog)) l : occl ps (flat_map g l) = sumnat (map (fun a => occl ps (g a)) l).
Proof.
  unfold occl. induction l as [|a r IH]; cbn; [reflexivity|]. rewrite filter_app, app_length, IH. reflexivity.
Qed.

Lemma occl_uprods Ls : forall ps, occl ps (uprods Ls) = cntL occ ps Ls.
Proof.
  induction Ls as [|Lh Lr IH]; intros ps.
  - destruct ps; reflexivity.
  - rewrite uprods_cons, occl_flat_map. destruct ps as [|a ar].
    + cbn [cntL]. apply sumnat_zero. intros b _. apply occl_nil_cons.
    + cbn [cntL]. rewrite occ_sum. rewrite <- IH.
      induction Lh as [|b r IHL]; cbn [map sumnat]; [reflexivity|]. rewrite IHL, occl_cons.
      destruct (prog_eqb a b); cbn; lia.
Qed.

Lemma cntL_length O ps Ls : length ps <> length Ls -> cntL O ps Ls = 0.
Proof.
  revert Ls. induction ps as [|a ar IH]; intros [|Lh Lr] H; cbn in *; try congruence.
  rewrite IH by lia. lia.
Qed.

Lemma cntL_spec (c : prog -> bool) (D : unt -> prog -> nat) (Lf : unt -> list prog) ps :
  Forall (fun a => forall y, occ a (Lf y) = if c a then D y a else 0) ps ->
  forall alt, length alt = length ps ->
  cntL occ ps (map Lf alt) = if forallb c ps then cntN D ps alt else 0.
Proof.
  induction 1 as [|a ar Ha _ IH]; intros [|y r] Hl; cbn in Hl; try discriminate; [reflexivity|].
  cbn [map cntL forallb cntN]. rewrite Ha, IH by lia.
  destruct (c a); cbn; [|reflexivity]. destruct (forallb c ar); lia.
Qed.

(** depth of an application *)
Lemma pdepth_pos' p : 1 <= pdepth p.
Proof. destruct p; cbn; lia. Qed.

Lemma pdepth_fun_le f ps n : ps <> [] ->
  (pdepth (PFun f ps) <=? S n) = forallb (fun a => pdepth a <=? n) ps.
Proof.
  intros Hne. cbn [pdepth].
  assert (H : forall l, l <> [] ->
              (fold_right (fun a acc => Nat.max (pdepth a) acc) 1 l <= n <-> forall a, In a l -> pdepth a <= n)).
  { induction l as [|a r IH]; intros Hl; [congruence|]. cbn [fold_right].
    destruct r as [|b r'].
    - cbn [fold_right]. pose proof (pdepth_pos' a). split.
      + intros H1 a' [<-|[]]. lia.
      + intros H1. specialize (H1 a (or_introl eq_refl)). lia.
    - assert (Hb : b :: r' <> []) by discriminate. specialize (IH Hb). split.
      + intros H1 a' [<-|Ha']; [lia|]. apply IH; [lia|exact Ha'].
      + intros H1. assert (H2 : fold_right (fun a acc => Nat.max (pdepth a) acc) 1 (b :: r') <= n).
        { apply IH. intros a' Ha'. apply H1. right. exact Ha'. }
        specialize (H1 a (or_introl eq_refl)). lia. }
  assert (H' : forall l, l <> [] ->
              (fold_right (fun a acc => Nat.max (pdepth a) acc) 1 l <=? n) = forallb (fun a => pdepth a <=? n) l).
  { intros l Hl. apply Bool.eq_iff_eq_true. rewrite Nat.leb_le, forallb_forall, (H l Hl).
    split; intros H1 a Ha; specialize (H1 a Ha); [apply Nat.leb_le|apply Nat.leb_le in H1]; exact H1. }
  change (1 + fold_right (fun a acc => Nat.max (pdepth a) acc) 1 ps <=? S n)
    with (fold_right (fun a acc => Nat.max (pdepth a) acc) 1 ps <=? n).
  apply H'. exact Hne.
Qed.

(** * the language list has one entry per derivation *)
Definition tbl_nodup (tbl : utable) : Prop := forall x rs, urules_of tbl x = Some rs -> NoDup (map fst rs).

Definition lcond (ar : sym -> nat) (fuel : nat) (p : prog) : bool :=
  well_ranked ar p && normal p && (pdepth p <=? fuel).

Section LangOcc.
  Variables (ar : sym -> nat) (tbl : utable) (w : uwtable).
  Hypothesis Hr : tbl_ranked ar tbl.
  Hypothesis Hn : tbl_nodup tbl.

  Lemma occ_ualt_lang_leaf Lf s0 s alt :
    occ (PLeaf s0) (ualt_lang Lf s alt) = if sym_eqb s s0 then match alt with [] => 1 | _ => 0 end else 0.
  Proof.
    destruct alt as [|y r]; cbn [ualt_lang].
    - unfold occ. cbn. rewrite (eqb_sym sym_eqb sym_eqb_spec s0 s). destruct (sym_eqb s s0); reflexivity.
    - rewrite occ_leaf_map. destruct (sym_eqb s s0); reflexivity.
  Qed.

  Lemma occ_ualt_lang_fun Lf f ps s alt :
    occ (PFun f ps) (ualt_lang Lf s alt) =
    if sym_eqb s f then match alt with [] => 0 | _ => cntL occ ps (map Lf alt) end else 0.
  Proof.
    destruct alt as [|y r]; cbn [ualt_lang].
    - unfold occ. cbn. destruct (sym_eqb s f); reflexivity.
    - rewrite occ_map_fun, occl_uprods. rewrite (eqb_sym sym_eqb sym_eqb_spec f s). reflexivity.
  Qed.

  Theorem ulang_occ : forall fuel x p,
    occ p (ulang_at fuel tbl x) = if lcond ar fuel p then length (uderivs tbl w x p) else 0.
  Proof.
    induction fuel as [|n IH]; intros x p.
    - cbn [ulang_at]. unfold lcond. pose proof (pdepth_pos' p).
      replace (pdepth p <=? 0) with false by (symmetry; apply Nat.leb_gt; lia). rewrite andb_false_r. reflexivity.
    - cbn [ulang_at]. destruct (urules_of tbl x) as [rs|] eqn:Er.
      2:{ assert (E : forall s, ualts_of tbl x s = None) by (intros s; unfold ualts_of; rewrite Er; reflexivity).
          destruct p as [s|f ps]; [rewrite uderivs_length_leaf|rewrite uderivs_length]; rewrite E;
            destruct (lcond ar (S n) _); reflexivity. }
      pose proof (Hn x rs Er) as Hnd.
      rewrite occ_flat_map.
      destruct p as [s0|f ps].
      + (* leaf *)
        transitivity (sumnat (map (fun r : urule => if sym_eqb (fst r) s0
                                                    then sumnat (map (fun alt : ualt => match alt with [] => 1 | _ => 0 end) (snd r))
                                                    else 0) rs)).
        { apply sumnat_ext. intros [s alts] _. cbn [fst snd]. rewrite occ_flat_map.
          destruct (sym_eqb s s0) eqn:E.
          - apply sumnat_ext. intros alt _. rewrite occ_ualt_lang_leaf, E. reflexivity.
          - apply sumnat_zero. intros alt _. rewrite occ_ualt_lang_leaf, E. reflexivity. }
        pose proof (sum_key_lookup sym_eqb sym_eqb_spec rs s0
                   (fun alts => sumnat (map (fun alt : ualt => match alt with [] => 1 | _ => 0 end) alts)) Hnd) as Hs.
        cbv beta in Hs. etransitivity; [exact Hs|]. clear Hs.
        rewrite uderivs_length_leaf. unfold ualts_of. rewrite Er.
        destruct (alookup sym_eqb s0 rs) as [alts|] eqn:Ea; [|destruct (lcond ar (S n) (PLeaf s0)); reflexivity].
        assert (Hal : ualts_of tbl x s0 = Some alts) by (unfold ualts_of; rewrite Er; exact Ea).
        destruct (Hr x s0 alts Hal) as [_ Hlen].
        unfold lcond. cbn [well_ranked normal pdepth]. rewrite andb_true_r.
        replace (1 <=? S n) with true by (symmetry; apply Nat.leb_le; lia). rewrite andb_true_r.
        destruct (Nat.eqb (ar s0) 0) eqn:E0.
        * apply Nat.eqb_eq in E0. rewrite (sumnat_ext _ (fun _ => 1)); [rewrite sumnat_const; lia|].
          intros alt Ha. apply Hlen in Ha. destruct alt; [reflexivity|cbn in Ha; lia].
        * apply Nat.eqb_neq in E0. apply sumnat_zero. intros alt Ha. apply Hlen in Ha. destruct alt; [cbn in Ha; lia|reflexivity].
      + (* application *)
        set (Lf := ulang_at n tbl).
        transitivity (sumnat (map (fun r : urule => if sym_eqb (fst r) f
                                                    then sumnat (map (fun alt : ualt => match alt with [] => 0 | _ => cntL occ ps (map Lf alt) end) (snd r))
                                                    else 0) rs)).
        { apply sumnat_ext. intros [s alts] _. cbn [fst snd]. rewrite occ_flat_map.
          destruct (sym_eqb s f) eqn:E.
          - apply sumnat_ext. intros alt _. rewrite occ_ualt_lang_fun, E. reflexivity.
          - apply sumnat_zero. intros alt _. rewrite occ_ualt_lang_fun, E. reflexivity. }
        pose proof (sum_key_lookup sym_eqb sym_eqb_spec rs f
                   (fun alts => sumnat (map (fun alt : ualt => match alt with [] => 0 | _ => cntL occ ps (map Lf alt) end) alts)) Hnd) as Hs.
        cbv beta in Hs. etransitivity; [exact Hs|]. clear Hs.
        rewrite uderivs_length. unfold ualts_of. rewrite Er.
        destruct (alookup sym_eqb f rs) as [alts|] eqn:Ea; [|destruct (lcond ar (S n) (PFun f ps)); reflexivity].
        assert (Hal : ualts_of tbl x f = Some alts) by (unfold ualts_of; rewrite Er; exact Ea).
        destruct (Hr x f alts Hal) as [_ Hlen].
        unfold lcond. cbn [well_ranked normal].
        destruct (Nat.eqb (length ps) (ar f)) eqn:El; cbn [andb].
        2:{ apply Nat.eqb_neq in El. apply sumnat_zero. intros alt Ha. apply Hlen in Ha.
            destruct alt; [reflexivity|]. apply cntL_length. rewrite map_length. lia. }
        apply Nat.eqb_eq in El.
        destruct ps as [|a0 ar0] eqn:Eps.
        { cbn [length Nat.eqb negb andb]. rewrite andb_false_r. cbn [andb].
          apply sumnat_zero. intros alt Ha. apply Hlen in Ha. destruct alt; [reflexivity|]. cbn in *. lia. }
        rewrite <- Eps in *. assert (Hne : ps <> []) by (rewrite Eps; discriminate).
        replace (Nat.eqb (length ps) 0) with false by (symmetry; apply Nat.eqb_neq; rewrite Eps; cbn; lia).
        cbn [negb andb]. rewrite (pdepth_fun_le f ps n Hne).
        transitivity (sumnat (map (fun alt : ualt => if forallb (lcond ar n) ps
                                                     then cntN (fun x' a => length (uderivs tbl w x' a)) ps alt else 0) alts)).
        { apply sumnat_ext. intros alt Ha. apply Hlen in Ha.
          destruct alt as [|y r] eqn:Ealt; [rewrite Eps in El; cbn in *; lia|]. rewrite <- Ealt in *.
          apply (cntL_spec (lcond ar n) (fun x' a => length (uderivs tbl w x' a)) Lf ps); [|lia].
          apply Forall_forall. intros a _ y'. unfold Lf. apply IH. }
        assert (Ec : forallb (lcond ar n) ps
                     = forallb (well_ranked ar) ps && forallb normal ps && forallb (fun a => pdepth a <=? n) ps).
        { clear. unfold lcond. induction ps as [|a r IHr]; cbn; [reflexivity|]. rewrite IHr.
          destruct (well_ranked ar a), (normal a), (pdepth a <=? n), (forallb (well_ranked ar) r), (forallb normal r); reflexivity. }
        rewrite Ec.
        destruct (forallb (well_ranked ar) ps && forallb normal ps && forallb (fun a => pdepth a <=? n) ps); [reflexivity|].
        apply sumnat_zero. reflexivity.
  Qed.
End LangOcc.

(** * programs() = length of the language list *)
Definition tbl_closed (tbl : utable) : Prop :=
  forall x rs, urules_of tbl x = Some rs -> forall r, In r rs -> forall alt, In alt (snd r) ->
  forall y, In y alt -> urules_of tbl y <> None.

Lemma length_uprods {X} (Ls : list (list X)) : length (uprods Ls) = fold_right Nat.mul 1 (map (@length X) Ls).
Proof.
  induction Ls as [|Lh Lr IH]; [reflexivity|]. rewrite uprods_cons. cbn [map fold_right]. rewrite <- IH.
  induction Lh as [|a r IHL]; cbn; [reflexivity|]. rewrite app_length, map_length, IHL. reflexivity.
Qed.

Lemma length_ualt_lang Lf s alt : length (ualt_lang Lf s alt) = fold_right Nat.mul 1 (map (fun y => length (Lf y)) alt).
Proof.
  destruct alt as [|y r]; [reflexivity|]. cbn [ualt_lang]. rewrite map_length, length_uprods, map_map. reflexivity.
Qed.

Lemma Nsum_of_nat {X} (g : X -> nat) l :
  fold_right N.add 0%N (map (fun x => N.of_nat (g x)) l) = N.of_nat (sumnat (map g l)).
Proof. induction l as [|x r IH]; cbn [map fold_right sumnat]; [reflexivity|]. rewrite IH. lia. Qed.

Lemma Nprod_of_nat {X} (g : X -> nat) l :
  fold_right N.mul 1%N (map (fun x => N.of_nat (g x)) l) = N.of_nat (fold_right Nat.mul 1 (map g l)).
Proof. induction l as [|x r IH]; cbn [map fold_right]; [reflexivity|]. rewrite IH. lia. Qed.

Lemma length_flat_map' {X Y} (g : X -> list Y) l : length (flat_map g l) = sumnat (map (fun x => length (g x)) l).
Proof. induction l as [|x r IH]; cbn; [reflexivity|]. rewrite app_length, IH. reflexivity. Qed.

Lemma map_ext_in' {X Y} (g h : X -> Y) l : (forall x, In x l -> g x = h x) -> map g l = map h l.
Proof. apply map_ext_in. Qed.

Theorem ucount_at_length tbl : tbl_closed tbl -> forall fuel x, urules_of tbl x <> None ->
  ucount_at fuel tbl x = N.of_nat (length (ulang_at fuel tbl x)).
Proof.
  intros Hc. induction fuel as [|n IH]; intros x Hx; [reflexivity|].
  cbn [ucount_at ulang_at]. destruct (urules_of tbl x) as [rs|] eqn:Er; [|congruence].
  rewrite length_flat_map'. rewrite <- Nsum_of_nat. f_equal. apply map_ext_in. intros r Hr.
  rewrite length_flat_map'. rewrite <- Nsum_of_nat. f_equal. apply map_ext_in. intros alt Ha.
  rewrite length_ualt_lang. rewrite <- Nprod_of_nat. f_equal. apply map_ext_in. intros y Hy.
  apply IH. eapply Hc; eauto.
Qed.

Theorem ucount_length tbl starts : tbl_closed tbl -> (forall x, In x starts -> urules_of tbl x <> None) ->
  forall fuel, ucount fuel tbl starts = N.of_nat (length (ulanguage fuel tbl starts)).
Proof.
  intros Hc Hs fuel. unfold ucount, ulanguage. rewrite length_flat_map'. rewrite <- Nsum_of_nat. f_equal.
  apply map_ext_in. intros x Hx. apply ucount_at_length; auto.
Qed.

(** built tables are duplicate free and closed *)
Lemma build_nodup {N} (encN : N -> unt) (contribN : N -> list (sym * list N)) keys : tbl_nodup (build encN contribN keys).
Proof.
  intros x rs H. unfold urules_of, build in H. apply (alookup_map_in unt_eqb unt_eqb_spec) in H.
  destruct H as [nu [_ [_ ->]]]. unfold rules_for. rewrite map_map. cbn [fst]. rewrite map_id.
  apply (NoDup_nub sym_eqb sym_eqb_spec).
Qed.

Lemma build_closed {N} (encN : N -> unt) (contribN : N -> list (sym * list N)) keys :
  (forall a b, encN a = encN b -> a = b) ->
  (forall nu, In nu keys -> forall y, In y (succs contribN nu) -> In y keys) ->
  tbl_closed (build encN contribN keys).
Proof.
  intros Hinj Hcl x rs H r Hr alt Ha y Hy. unfold urules_of, build in H.
  apply (alookup_map_in unt_eqb unt_eqb_spec) in H. destruct H as [nu [Hnu [-> ->]]].
  unfold rules_for in Hr. apply in_map_iff in Hr. destruct Hr as [f [<- _]]. cbn [snd] in Ha.
  apply in_map_iff in Ha. destruct Ha as [a [<- Ha]]. apply in_map_iff in Hy. destruct Hy as [y' [<- Hy']].
  rewrite (urules_build encN contribN Hinj keys y'); [discriminate|].
  eapply (alts_for_closed contribN keys Hcl); eauto.
Qed.

(** * the language of the grammar read off an automaton *)
Section AutLang.
  Context {Q : Type} (qeqb : Q -> Q -> bool).
  Hypothesis qspec : forall a b, qeqb a b = true <-> a = b.
  Variables (A : dfta sym Q) (ar : sym -> nat).
  Hypothesis Hdet : deterministic A.
  Hypothesis Hrk : forall l args d, In ((l, args), d) (rules A) -> length args = ar l.
  Variables (starts : list unt) (tbl : utable) (e : Q -> unt).
  Hypothesis He : forall q q', In q (mentioned A) -> In q' (mentioned A) -> e q = e q' -> q = q'.
  Hypothesis Hst : starts = nub unt_eqb (map e (finals A)).
  Hypothesis Hr : tbl_ranked ar tbl.
  Hypothesis Hn : tbl_nodup tbl.
  Hypothesis Hc : tbl_closed tbl.
  Hypothesis Hk : forall qf, In qf (finals A) -> urules_of tbl (e qf) <> None.
  Hypothesis Hd : forall qf p, In qf (finals A) -> well_ranked ar p = true ->
    length (uderivs tbl [] (e qf) p) = ind (option_eqb qeqb (run sym_eqb qeqb A (tree_of p)) (Some qf)).

  Lemma ulanguage_occ fuel p :
    occ p (ulanguage fuel tbl starts) = if lcond ar fuel p then ind (accepts sym_eqb qeqb A (tree_of p)) else 0.
  Proof.
    unfold ulanguage. rewrite occ_flat_map.
    rewrite (sumnat_ext _ (fun x => if lcond ar fuel p then length (uderivs tbl [] x p) else 0))
      by (intros x _; apply (ulang_occ ar tbl [] Hr Hn)).
    destruct (lcond ar fuel p) eqn:El.
    - rewrite Hst. apply (starts_sum qeqb qspec A e (fun x => length (uderivs tbl [] x p))); auto.
      intros qf Hf. apply Hd; auto. unfold lcond in El. apply andb_true_iff in El. destruct El as [El _].
      apply andb_true_iff in El. tauto.
    - apply sumnat_zero. reflexivity.
  Qed.

  Theorem aut_language_count fuel :
    ucount fuel tbl starts = N.of_nat (length (ulanguage fuel tbl starts))
    /\ NoDup (ulanguage fuel tbl starts)
    /\ forall p, In p (ulanguage fuel tbl starts) <->
                 accepts sym_eqb qeqb A (tree_of p) = true /\ normal p = true /\ pdepth p <= fuel.
  Proof.
    split; [|split].
    - apply ucount_length; auto. intros x Hx. rewrite Hst in Hx. apply (proj1 (in_nub unt_eqb unt_eqb_spec _ _)) in Hx.
      apply in_map_iff in Hx. destruct Hx as [qf [<- Hf]]. auto.
    - apply occ_nodup. intros p. rewrite ulanguage_occ.
      destruct (lcond ar fuel p); [destruct (accepts sym_eqb qeqb A (tree_of p)); cbn; lia|lia].
    - intros p. rewrite occ_in, ulanguage_occ. unfold lcond. split.
      + intros H. destruct (well_ranked ar p), (normal p), (pdepth p <=? fuel) eqn:E, (accepts sym_eqb qeqb A (tree_of p));
          cbn in H; try lia. apply Nat.leb_le in E. auto.
      + intros [Ha [Hnm Hdp]]. rewrite Ha, Hnm. apply Nat.leb_le in Hdp. rewrite Hdp.
        assert (Hw : well_ranked ar p = true).
        { unfold accepts in Ha. destruct (run sym_eqb qeqb A (tree_of p)) as [q|] eqn:E; [|discriminate].
          eapply (run_well_ranked qeqb qspec A ar Hrk); eauto. }
        rewrite Hw. cbn. lia.
  Qed.
End AutLang.

(** acyclic automata: every accepted program is shallow *)
Section Acyclic.
  Context {Q : Type} (qeqb : Q -> Q -> bool).
  Hypothesis qspec : forall a b, qeqb a b = true <-> a = b.
  Variables (A : dfta sym Q) (rk : Q -> nat).
  Hypothesis Hrank : forall l args d, In ((l, args), d) (rules A) -> forall a, In a args -> rk a < rk d.

  Lemma run_depth : forall p q, run sym_eqb qeqb A (tree_of p) = Some q -> normal p = true -> pdepth p <= S (rk q).
  Proof.
    induction p as [s|f ps IH] using prog_ind'; intros q H Hnm; [cbn; lia|].
    cbn [tree_of] in H. rewrite (run_eq sym_eqb qeqb) in H.
    destruct (omapo (run sym_eqb qeqb A) (map tree_of ps)) as [args|] eqn:E; [|discriminate].
    apply (read_in sym_eqb qeqb sym_eqb_spec qspec) in H. pose proof (Hrank _ _ _ H) as Hlt.
    cbn in Hnm. apply andb_true_iff in Hnm. destruct Hnm as [Hne Hnm]. rewrite forallb_forall in Hnm.
    apply omapo_some in E. cbn [pdepth].
    assert (Hm : fold_right (fun a acc => Nat.max (pdepth a) acc) 1 ps <= rk q).
    { clear H. remember (map tree_of ps) as ts eqn:Ets. revert ps Ets IH Hne Hnm.
      induction E as [|t y ts ys Hty E' IHE]; intros ps Ets IH Hne Hnm.
      - destruct ps; [discriminate|discriminate].
      - destruct ps as [|b br]; [discriminate|]. cbn in Ets. inversion Ets; subst. cbn [fold_right].
        inversion IH as [|? ? Hb Hbr]; subst.
        assert (Hb' : pdepth b <= S (rk y)) by (apply Hb; auto; apply Hnm; left; reflexivity).
        assert (Hy : rk y < rk q) by (apply Hlt; left; reflexivity).
        destruct br as [|c cr].
        + cbn. lia.
        + assert (fold_right (fun a acc => Nat.max (pdepth a) acc) 1 (c :: cr) <= rk q).
          { apply IHE; auto.
            - intros a Ha. apply Hlt. right. exact Ha.
            - intros a Ha. apply Hnm. right. exact Ha. }
          lia. }
    lia.
  Qed.
End Acyclic.
