(** Proofs about Gram/Ucfg.v, part 1: list tools, the closure, tables built
    by [build], and the link between the derivation lists of Gram/U.v
    ([uderivs], stack free) and the structural count [nder]. *)
From Coq Require Import ZArith NArith QArith List Bool Arith Lia Setoid.
From PS Require Import Base.ListX Base.Sexp Base.Ty Base.Value Base.Prog Gram.Det Gram.U Gram.UProofs
  Auto.Dfta Auto.DftaBase Gram.Ucfg.
Import ListNotations.
Local Open Scope nat_scope.

(** * equalities *)
Lemma unt_eqb_spec (a b : unt) : unt_eqb a b = true <-> a = b.
Proof.
  destruct a as [t s], b as [t' s']. unfold unt_eqb. cbn.
  rewrite andb_true_iff, ty_eqb_spec, sexp_eqb_spec. split; [intros [-> ->]; reflexivity|intros E; inversion E; auto].
Qed.

Lemma eqb_sym {X} (eqb : X -> X -> bool) (spec : forall a b, eqb a b = true <-> a = b) a b : eqb a b = eqb b a.
Proof.
  destruct (eqb a b) eqn:E1, (eqb b a) eqn:E2; auto.
  - apply spec in E1. subst. rewrite (proj2 (spec b b) eq_refl) in E2. discriminate.
  - apply spec in E2. subst. rewrite (proj2 (spec a a) eq_refl) in E1. discriminate.
Qed.

Lemma eqb_refl' {X} (eqb : X -> X -> bool) (spec : forall a b, eqb a b = true <-> a = b) a : eqb a a = true.
Proof. apply spec. reflexivity. Qed.

Lemma eqb_false {X} (eqb : X -> X -> bool) (spec : forall a b, eqb a b = true <-> a = b) a b : a <> b -> eqb a b = false.
Proof. intros H. destruct (eqb a b) eqn:E; auto. apply spec in E. contradiction. Qed.

(** * sums *)
Lemma sumnat_app l1 l2 : sumnat (l1 ++ l2) = sumnat l1 + sumnat l2.
Proof. induction l1; cbn; lia. Qed.

Lemma sumnat_const {X} (l : list X) c : sumnat (map (fun _ => c) l) = length l * c.
Proof. induction l; cbn; lia. Qed.

Lemma sumnat_zero {X} (g : X -> nat) l : (forall x, In x l -> g x = 0) -> sumnat (map g l) = 0.
Proof. induction l as [|x r IH]; cbn; intros H; [reflexivity|]. rewrite (H x), IH; auto. Qed.

Lemma sumnat_ext {X} (g h : X -> nat) l : (forall x, In x l -> g x = h x) -> sumnat (map g l) = sumnat (map h l).
Proof. induction l as [|x r IH]; cbn; intros H; [reflexivity|]. rewrite (H x), IH; auto. Qed.

Lemma sumnat_filter {X} (P : X -> bool) (g : X -> nat) l :
  sumnat (map (fun x => if P x then g x else 0) l) = sumnat (map g (filter P l)).
Proof. induction l as [|x r IH]; cbn; [reflexivity|]. destruct (P x); cbn; lia. Qed.

Lemma sumnat_flat_map {X Y} (g : X -> list Y) (h : Y -> nat) l :
  sumnat (map h (flat_map g l)) = sumnat (map (fun x => sumnat (map h (g x))) l).
Proof. induction l as [|x r IH]; cbn; [reflexivity|]. rewrite map_app, sumnat_app, IH. reflexivity. Qed.

Lemma length_sumnat {X} (l : list X) : length l = sumnat (map (fun _ => 1) l).
Proof. rewrite sumnat_const. lia. Qed.

Lemma filter_map_comm {X Y} (P : Y -> bool) (g : X -> Y) l : filter P (map g l) = map g (filter (fun x => P (g x)) l).
Proof. induction l as [|x r IH]; cbn; [reflexivity|]. destruct (P (g x)); cbn; rewrite IH; reflexivity. Qed.

(** sum of an indicator over a dict = lookup *)
Lemma sum_key_lookup {K V} (keqb : K -> K -> bool) (spec : forall a b, keqb a b = true <-> a = b)
      (l : list (K * V)) k (g : V -> nat) :
  NoDup (map fst l) ->
  sumnat (map (fun kv : K * V => if keqb (fst kv) k then g (snd kv) else 0) l)
  = match alookup keqb k l with Some v => g v | None => 0 end.
Proof.
  induction l as [|[k' v] r IH]; cbn; intros Hn; [reflexivity|].
  inversion Hn as [|? ? Hni Hnr]; subst. rewrite (eqb_sym keqb spec k' k).
  destruct (keqb k k') eqn:E.
  - apply spec in E. subst k'. rewrite sumnat_zero; [lia|].
    intros [k2 v2] Hin. cbn. destruct (keqb k2 k) eqn:E2; [|reflexivity].
    apply spec in E2. subst. exfalso. apply Hni. apply (in_map fst) in Hin. exact Hin.
  - rewrite IH; auto.
Qed.

(** sum of an indicator over a duplicate-free list = membership *)
Lemma sum_indicator {X} (eqb : X -> X -> bool) (spec : forall a b, eqb a b = true <-> a = b) (l : list X) y :
  NoDup l -> sumnat (map (fun x => if eqb x y then 1 else 0) l) = if memb eqb y l then 1 else 0.
Proof.
  induction l as [|x r IH]; cbn; intros Hn; [reflexivity|]. inversion Hn as [|? ? Hni Hnr]; subst.
  rewrite (eqb_sym eqb spec y x). destruct (eqb x y) eqn:E; cbn.
  - apply spec in E. subst. rewrite sumnat_zero; [reflexivity|].
    intros z Hz. destruct (eqb z y) eqn:E2; [|reflexivity]. apply spec in E2. subst. contradiction.
  - apply IH; auto.
Qed.

(** * nub *)
Section Nub.
  Context {X : Type} (eqb : X -> X -> bool) (spec : forall a b, eqb a b = true <-> a = b).

  Lemma in_nub x l : In x (nub eqb l) <-> In x l.
  Proof.
    induction l as [|y r IH]; cbn; [tauto|]. rewrite filter_In, IH, negb_true_iff. split.
    - intros [H|[H _]]; auto.
    - intros [H|H]; auto. destruct (eqb x y) eqn:E; [left; apply spec in E; auto|right; auto].
  Qed.

  Lemma NoDup_nub l : NoDup (nub eqb l).
  Proof.
    induction l as [|y r IH]; cbn; [constructor|]. constructor.
    - rewrite filter_In, negb_true_iff. intros [_ H]. rewrite (eqb_refl' eqb spec) in H. discriminate.
    - apply NoDup_filter. exact IH.
  Qed.

  Lemma nub_nil l : nub eqb l = [] -> l = [].
  Proof. destruct l; cbn; [reflexivity|discriminate]. Qed.

  Lemma memb_nub x l : memb eqb x (nub eqb l) = memb eqb x l.
  Proof.
    destruct (memb eqb x l) eqn:E.
    - apply (memb_spec eqb spec). apply (proj2 (in_nub x l)). apply (memb_spec eqb spec). exact E.
    - destruct (memb eqb x (nub eqb l)) eqn:E2; [|reflexivity].
      apply (proj1 (memb_spec eqb spec x _)) in E2. apply (proj1 (in_nub x l)) in E2.
      apply (proj2 (memb_spec eqb spec x _)) in E2. congruence.
  Qed.
End Nub.

Lemma NoDup_app_intro' {A} (l1 l2 : list A) :
  NoDup l1 -> NoDup l2 -> (forall a, In a l1 -> In a l2 -> False) -> NoDup (l1 ++ l2).
Proof.
  induction l1 as [|a r IH]; cbn; auto. intros H1 H2 Hd. inversion H1; subst. constructor.
  - rewrite in_app_iff. intros [H|H]; [tauto|]. eapply Hd; eauto.
  - apply IH; auto. intros b Hb; apply Hd; auto.
Qed.

(** * closure *)
Section ClosureProofs.
  Context {X : Type} (eqb : X -> X -> bool) (spec : forall a b, eqb a b = true <-> a = b) (step : X -> list X).

  Lemma in_fresh R cand x : In x (fresh eqb R cand) <-> In x cand /\ ~ In x R.
  Proof.
    unfold fresh. rewrite (in_nub eqb spec), filter_In, negb_true_iff. split; intros [H1 H2]; split; auto.
    - intros H. apply (memb_spec eqb spec) in H. congruence.
    - destruct (memb eqb x R) eqn:E; auto. apply (memb_spec eqb spec) in E. contradiction.
  Qed.

  Lemma closure_incl fuel : forall R K, closure eqb step fuel R = Some K -> incl R K.
  Proof.
    induction fuel as [|f IH]; cbn; intros R K H; [discriminate|].
    destruct (fresh eqb R (flat_map step R)) as [|n0 nr] eqn:E.
    - inversion H; subst. apply incl_refl.
    - apply IH in H. intros x Hx. apply H. apply in_or_app. left. exact Hx.
  Qed.

  Lemma closure_closed fuel : forall R K, closure eqb step fuel R = Some K ->
    forall x, In x K -> forall y, In y (step x) -> In y K.
  Proof.
    induction fuel as [|f IH]; cbn; intros R K H; [discriminate|].
    destruct (fresh eqb R (flat_map step R)) as [|n0 nr] eqn:E.
    - inversion H; subst. intros x Hx y Hy.
      destruct (memb eqb y K) eqn:Em; [apply (memb_spec eqb spec); exact Em|].
      exfalso. assert (Hin : In y (fresh eqb K (flat_map step K))).
      { apply in_fresh. split; [apply in_flat_map; eauto|]. intros Hk. apply (memb_spec eqb spec) in Hk. congruence. }
      rewrite E in Hin. destruct Hin.
    - eapply IH; eauto.
  Qed.

  (** everything in the closure satisfies an invariant of the seeds kept by [step] *)
  Lemma closure_ind (P : X -> Prop) fuel : forall R K,
    (forall x, P x -> forall y, In y (step x) -> P y) ->
    closure eqb step fuel R = Some K -> (forall x, In x R -> P x) -> forall x, In x K -> P x.
  Proof.
    induction fuel as [|f IH]; cbn; intros R K Hs H HR; [discriminate|].
    destruct (fresh eqb R (flat_map step R)) as [|n0 nr] eqn:E.
    - inversion H; subst. exact HR.
    - eapply IH; eauto. intros x Hx. apply in_app_or in Hx. destruct Hx as [Hx|Hx]; auto.
      rewrite <- E in Hx. apply in_fresh in Hx. destruct Hx as [Hx _]. apply in_flat_map in Hx.
      destruct Hx as [z [Hz Hx]]. eapply Hs; eauto.
  Qed.

  Lemma closure_nodup fuel : forall R K, NoDup R -> closure eqb step fuel R = Some K -> NoDup K.
  Proof.
    induction fuel as [|f IH]; cbn; intros R K Hn H; [discriminate|].
    destruct (fresh eqb R (flat_map step R)) as [|n0 nr] eqn:E.
    - inversion H; subst. exact Hn.
    - eapply IH; [|exact H]. rewrite <- E. apply NoDup_app_intro'; auto.
      + apply (NoDup_nub eqb spec).
      + intros x Hx Hx'. apply in_fresh in Hx'. tauto.
  Qed.

  (** the fuel is enough when everything lives in a finite universe closed under [step] *)
  Lemma closure_total (U : list X) : (forall x, In x U -> forall y, In y (step x) -> In y U) ->
    forall fuel R, NoDup R -> incl R U -> length U < fuel + length R -> closure eqb step fuel R <> None.
  Proof.
    intros HU. induction fuel as [|f IH]; intros R Hn Hi Hl.
    - exfalso. assert (length R <= length U) by (apply NoDup_incl_length; auto). cbn in Hl. lia.
    - cbn. destruct (fresh eqb R (flat_map step R)) as [|n0 nr] eqn:E; [discriminate|].
      apply IH.
      + rewrite <- E. apply NoDup_app_intro'; auto.
        * apply (NoDup_nub eqb spec).
        * intros x Hx Hx'. apply in_fresh in Hx'. tauto.
      + intros x Hx. apply in_app_or in Hx. destruct Hx as [Hx|Hx]; auto.
        rewrite <- E in Hx. apply in_fresh in Hx. destruct Hx as [Hx _]. apply in_flat_map in Hx.
        destruct Hx as [z [Hz Hx]]. eapply HU; eauto.
      + rewrite app_length. cbn. cbn in Hl. lia.
  Qed.
End ClosureProofs.

(** * lookups in tables built by [build] *)
Lemma alookup_map_key {K V N} (keqb : K -> K -> bool) (spec : forall a b, keqb a b = true <-> a = b)
      (e : N -> K) (g : N -> V) keys nu :
  (forall a b, e a = e b -> a = b) -> In nu keys ->
  alookup keqb (e nu) (map (fun a => (e a, g a)) keys) = Some (g nu).
Proof.
  intros Hinj. induction keys as [|a r IH]; cbn; intros Hin; [destruct Hin|].
  destruct (keqb (e nu) (e a)) eqn:E.
  - apply spec in E. apply Hinj in E. subst. reflexivity.
  - destruct Hin as [->|Hin]; [rewrite (eqb_refl' keqb spec) in E; discriminate|auto].
Qed.

Lemma alookup_map_self {K V} (keqb : K -> K -> bool) (spec : forall a b, keqb a b = true <-> a = b)
      (g : K -> V) keys k :
  alookup keqb k (map (fun a => (a, g a)) keys) = if memb keqb k keys then Some (g k) else None.
Proof.
  induction keys as [|a r IH]; cbn; [reflexivity|].
  destruct (keqb k a) eqn:E; cbn; [apply spec in E; subst; reflexivity|exact IH].
Qed.

Lemma alookup_map_in {K V N} (keqb : K -> K -> bool) (spec : forall a b, keqb a b = true <-> a = b)
      (e : N -> K) (g : N -> V) keys k v :
  alookup keqb k (map (fun a => (e a, g a)) keys) = Some v -> exists nu, In nu keys /\ k = e nu /\ v = g nu.
Proof.
  induction keys as [|a r IH]; cbn; [discriminate|].
  destruct (keqb k (e a)) eqn:E.
  - apply spec in E. intros H. inversion H; subst. exists a. auto.
  - intros H. destruct (IH H) as [nu [H1 H2]]. exists nu. auto.
Qed.

Definition nonempty {X} (l : list X) : option (list X) := match l with [] => None | _ => Some l end.

Section BuildProofs.
  Context {N : Type} (encN : N -> unt) (contribN : N -> list (sym * list N)).
  Hypothesis enc_inj : forall a b, encN a = encN b -> a = b.

  Lemma alts_for_nil nu f : alts_for contribN nu f = [] <-> ~ In f (map fst (contribN nu)).
  Proof.
    unfold alts_for. induction (contribN nu) as [|c r IH]; cbn; [tauto|].
    destruct (sym_eqb (fst c) f) eqn:E; cbn.
    - apply sym_eqb_spec in E. split; [discriminate|]. intros H. exfalso. apply H. auto.
    - rewrite IH. split; [|tauto]. intros H [H1|H1]; auto. subst. rewrite (eqb_refl' sym_eqb sym_eqb_spec) in E. discriminate.
  Qed.

  Lemma urules_build keys nu : In nu keys -> urules_of (build encN contribN keys) (encN nu) = Some (rules_for encN contribN nu).
  Proof. intros Hin. unfold urules_of, build. apply (alookup_map_key unt_eqb unt_eqb_spec); auto. Qed.

  Lemma rules_for_lookup nu f :
    alookup sym_eqb f (rules_for encN contribN nu) = option_map (map (map encN)) (nonempty (alts_for contribN nu f)).
  Proof.
    unfold rules_for. rewrite (alookup_map_self sym_eqb sym_eqb_spec).
    rewrite (memb_nub sym_eqb sym_eqb_spec).
    destruct (alts_for contribN nu f) as [|a0 ar] eqn:E.
    - apply alts_for_nil in E. destruct (memb sym_eqb f (map fst (contribN nu))) eqn:Em; [|reflexivity].
      apply (memb_spec sym_eqb sym_eqb_spec) in Em. contradiction.
    - destruct (memb sym_eqb f (map fst (contribN nu))) eqn:Em; [reflexivity|].
      exfalso. assert (H : alts_for contribN nu f = []).
      { apply alts_for_nil. intros Hin. apply (memb_spec sym_eqb sym_eqb_spec) in Hin. congruence. }
      congruence.
  Qed.

  Lemma ualts_build keys nu f : In nu keys ->
    ualts_of (build encN contribN keys) (encN nu) f = option_map (map (map encN)) (nonempty (alts_for contribN nu f)).
  Proof. intros Hin. unfold ualts_of. rewrite (urules_build keys nu Hin). apply rules_for_lookup. Qed.

  (** any entry of a built table comes from a key *)
  Lemma ualts_build_inv keys x f alts : ualts_of (build encN contribN keys) x f = Some alts ->
    exists nu, In nu keys /\ x = encN nu /\ alts_for contribN nu f <> [] /\ alts = map (map encN) (alts_for contribN nu f).
  Proof.
    unfold ualts_of, urules_of, build. destruct (alookup unt_eqb x _) as [rs|] eqn:E; [|discriminate].
    apply (alookup_map_in unt_eqb unt_eqb_spec) in E. destruct E as [nu [Hin [-> ->]]].
    rewrite rules_for_lookup. intros H. exists nu. split; auto. split; auto.
    destruct (alts_for contribN nu f); cbn in H; [discriminate|]. inversion H. split; [discriminate|reflexivity].
  Qed.

  Lemma urules_build_none keys x : (forall nu, In nu keys -> encN nu <> x) -> urules_of (build encN contribN keys) x = None.
  Proof.
    intros H. unfold urules_of, build. destruct (alookup unt_eqb x _) as [rs|] eqn:E; [|reflexivity].
    apply (alookup_map_in unt_eqb unt_eqb_spec) in E. destruct E as [nu [Hin [-> _]]]. exfalso. eapply H; eauto.
  Qed.
End BuildProofs.

(** * the length of the derivation list of U.v *)
Lemma athread_length (D : unt -> prog -> list (option Q)) ps : forall l,
  length (athread D ps l) = sumnat (map (fun qr : option Q * list unt => cntN (fun x a => length (D x a)) ps (snd qr)) l).
Proof.
  induction ps as [|a ar IH]; intros l.
  - cbn. apply length_sumnat.
  - cbn [athread]. rewrite IH. rewrite sumnat_flat_map. apply sumnat_ext. intros [q rest] _. cbn [fst snd].
    destruct rest as [|x r]; [reflexivity|]. rewrite map_map. cbn [snd]. rewrite sumnat_const. reflexivity.
Qed.

Lemma uderivs_length tbl w x f ps :
  length (uderivs tbl w x (PFun f ps)) =
  match ualts_of tbl x f with
  | Some alts => sumnat (map (cntN (fun x' a => length (uderivs tbl w x' a)) ps) alts)
  | None => 0
  end.
Proof.
  rewrite uderivs_fun. destruct (ualts_of tbl x f) as [alts|]; [|reflexivity].
  rewrite map_length, athread_length, map_map. reflexivity.
Qed.

Lemma uderivs_length_leaf tbl w x s :
  length (uderivs tbl w x (PLeaf s)) = match ualts_of tbl x s with Some alts => length alts | None => 0 end.
Proof. cbn. destruct (ualts_of tbl x s); [apply map_length|reflexivity]. Qed.

Lemma cntN_ext {N} (encN : N -> unt) (keys : list N) (D : unt -> prog -> nat) (E : N -> prog -> nat) ps :
  Forall (fun p => forall nu, In nu keys -> D (encN nu) p = E nu p) ps ->
  forall alt, (forall y, In y alt -> In y keys) -> cntN D ps (map encN alt) = cntN E ps alt.
Proof.
  induction 1 as [|a ar Ha _ IH]; intros alt Hk; [reflexivity|].
  destruct alt as [|y r]; [reflexivity|]. cbn. rewrite Ha by (apply Hk; left; reflexivity).
  rewrite IH by (intros z Hz; apply Hk; right; exact Hz). reflexivity.
Qed.

Section DerivsBuild.
  Context {N : Type} (encN : N -> unt) (contribN : N -> list (sym * list N)) (keys : list N).
  Hypothesis enc_inj : forall a b, encN a = encN b -> a = b.
  Hypothesis closed : forall nu, In nu keys -> forall y, In y (succs contribN nu) -> In y keys.

  Lemma alts_for_closed nu f alt y : In nu keys -> In alt (alts_for contribN nu f) -> In y alt -> In y keys.
  Proof.
    intros Hin Ha Hy. apply (closed nu Hin). unfold succs. apply in_flat_map.
    unfold alts_for in Ha. apply in_map_iff in Ha. destruct Ha as [c [<- Hc]]. apply filter_In in Hc. exists c. tauto.
  Qed.

  (** the derivation list of the built table has [nder] entries *)
  Theorem uderivs_build w : forall p nu, In nu keys ->
    length (uderivs (build encN contribN keys) w (encN nu) p) = nder contribN nu p.
  Proof.
    induction p as [s|f ps IH] using prog_ind'; intros nu Hin.
    - rewrite uderivs_length_leaf, (ualts_build encN contribN enc_inj keys nu s Hin). cbn [nder].
      rewrite sumnat_filter, sumnat_const. unfold alts_for.
      destruct (filter _ (contribN nu)) as [|c0 cr]; cbn; [reflexivity|]. rewrite !map_length. lia.
    - rewrite uderivs_length, (ualts_build encN contribN enc_inj keys nu f Hin). cbn [nder].
      rewrite sumnat_filter.
      replace (sumnat (map (fun c : sym * list N => cntN (fun nu' a => nder contribN nu' a) ps (snd c))
                           (filter (fun c : sym * list N => sym_eqb (fst c) f) (contribN nu))))
        with (sumnat (map (cntN (fun nu' a => nder contribN nu' a) ps) (alts_for contribN nu f)))
        by (unfold alts_for; rewrite map_map; reflexivity).
      destruct (alts_for contribN nu f) as [|a0 ar] eqn:E; [reflexivity|]. cbn [nonempty option_map]. rewrite <- E.
      rewrite map_map. apply sumnat_ext. intros alt Halt.
      apply (cntN_ext encN keys (fun x' a => length (uderivs (build encN contribN keys) w x' a))
                      (fun nu' a => nder contribN nu' a) ps).
      + rewrite Forall_forall in *. intros p Hp nu' Hnu'. apply IH; auto.
      + intros y Hy. eapply alts_for_closed; eauto.
  Qed.
End DerivsBuild.

(** * ranked tables: shape_ok for well-ranked programs, no membership otherwise *)
Definition tbl_ranked (ar : sym -> nat) (tbl : utable) : Prop :=
  forall x f alts, ualts_of tbl x f = Some alts -> alts <> [] /\ forall alt, In alt alts -> length alt = ar f.

Lemma build_ranked {N} (encN : N -> unt) (contribN : N -> list (sym * list N)) ar keys :
  (forall nu c, In c (contribN nu) -> length (snd c) = ar (fst c)) -> tbl_ranked ar (build encN contribN keys).
Proof.
  intros Hr x f alts H. apply ualts_build_inv in H. destruct H as [nu [Hin [-> [Hne ->]]]]. split.
  - destruct (alts_for contribN nu f); [congruence|discriminate].
  - intros alt Ha. apply in_map_iff in Ha. destruct Ha as [a [<- Ha]]. rewrite map_length.
    unfold alts_for in Ha. apply in_map_iff in Ha. destruct Ha as [c [<- Hc]]. apply filter_In in Hc.
    destruct Hc as [Hc Hf]. apply sym_eqb_spec in Hf. subst f. apply (Hr nu); auto.
Qed.

Lemma forall2b_all (F : unt -> prog -> bool) xs ps :
  length xs = length ps -> Forall (fun p => forall x, F x p = true) ps -> forall2b F xs ps = true.
Proof.
  intros Hl HF. revert xs Hl. induction HF as [|a ar Ha _ IH]; intros [|x xr] Hl; cbn in *; try discriminate; auto.
  rewrite Ha, IH; auto.
Qed.

Lemma ranked_shape_ok ar tbl : tbl_ranked ar tbl -> forall p, well_ranked ar p = true -> forall x, shape_ok tbl x p = true.
Proof.
  intros Hr. induction p as [s|f ps IH] using prog_ind'; intros Hw x.
  - cbn [shape_ok]. destruct (ualts_of tbl x s) as [alts|] eqn:E; [|reflexivity].
    destruct (Hr x s alts E) as [Hne Hlen]. cbn in Hw. apply Nat.eqb_eq in Hw.
    apply andb_true_iff. split.
    + destruct alts; [congruence|reflexivity].
    + apply forallb_forall. intros alt Ha. apply Nat.eqb_eq. rewrite (Hlen alt Ha). exact Hw.
  - rewrite shape_ok_fun. destruct (ualts_of tbl x f) as [alts|] eqn:E; [|reflexivity].
    destruct (Hr x f alts E) as [Hne Hlen]. cbn in Hw. apply andb_true_iff in Hw. destruct Hw as [Hw1 Hw2].
    apply Nat.eqb_eq in Hw1. rewrite forallb_forall in Hw2.
    apply andb_true_iff. split.
    + destruct alts; [congruence|reflexivity].
    + apply forallb_forall. intros alt Ha. apply forall2b_all.
      * rewrite (Hlen alt Ha). auto.
      * rewrite Forall_forall in *. intros p Hp x'. apply IH; auto.
Qed.

Lemma uthread_none (C : prog -> upos -> list unt -> option (list (list unt * upos))) args :
  Exists (fun a => forall h i, C a h i = None) args -> forall possibles, uthread C args possibles = None.
Proof.
  induction args as [|a ar IH]; intros He possibles; [inversion He|]. cbn [uthread].
  inversion He as [? ? Ha|? ? Hr]; subst.
  - replace (flat_map _ possibles) with (@nil (list unt * upos)); [reflexivity|].
    symmetry. induction possibles as [|ip r IHp]; cbn; [reflexivity|]. rewrite Ha. cbn. exact IHp.
  - destruct (flat_map _ possibles); [reflexivity|]. apply IH. exact Hr.
Qed.

Lemma forallb_false_Exists {X} (P : X -> bool) l : forallb P l = false -> Exists (fun x => P x = false) l.
Proof.
  induction l as [|x r IH]; cbn; [discriminate|]. destruct (P x) eqn:E; cbn; intros H.
  - right. auto.
  - left. exact E.
Qed.

Lemma ranked_not_member ar tbl : tbl_ranked ar tbl -> forall p, well_ranked ar p = false ->
  forall h info, ucontains_rec tbl p h info = None.
Proof.
  intros Hr. induction p as [s|f ps IH] using prog_ind'; intros Hw h info; destruct h as [x|]; try reflexivity.
  - cbn [ucontains_rec]. destruct (ualts_of tbl x s) as [alts|] eqn:E; [|reflexivity].
    destruct (Hr x s alts E) as [Hne Hlen]. cbn in Hw. destruct alts as [|a0 ar0]; [congruence|].
    cbn [uarity]. rewrite (Hlen a0 (or_introl eq_refl)), Hw. reflexivity.
  - rewrite ucontains_rec_fun. destruct (ualts_of tbl x f) as [alts|] eqn:E; [|reflexivity].
    destruct (Hr x f alts E) as [Hne Hlen]. destruct alts as [|a0 ar0]; [congruence|].
    cbn [uarity]. rewrite (Hlen a0 (or_introl eq_refl)). cbn in Hw.
    destruct (Nat.eqb (ar f) (length ps)) eqn:El; [|reflexivity].
    apply Nat.eqb_eq in El. rewrite El, Nat.eqb_refl in Hw. cbn in Hw.
    apply uthread_none. apply forallb_false_Exists in Hw.
    apply Exists_exists in Hw. destruct Hw as [a [Hin Ha]]. apply Exists_exists. exists a. split; auto.
    rewrite Forall_forall in IH. intros h' i'. apply IH; auto.
Qed.

(** membership and derivations of the built table in terms of [nder] *)
Section Assembly1.
  Context {N : Type} (encN : N -> unt) (contribN : N -> list (sym * list N)) (keys : list N) (ar : sym -> nat).
  Hypothesis enc_inj : forall a b, encN a = encN b -> a = b.
  Hypothesis closed : forall nu, In nu keys -> forall y, In y (succs contribN nu) -> In y keys.
  Hypothesis ranked : forall nu c, In c (contribN nu) -> length (snd c) = ar (fst c).
  Let tbl := build encN contribN keys.

  Lemma uderivations_build nu p : In nu keys -> well_ranked ar p = true ->
    uderivations tbl (encN nu) p = nder contribN nu p.
  Proof.
    intros Hin Hw. rewrite uderivations_spec by (apply (ranked_shape_ok ar); auto; apply build_ranked; auto).
    apply uderivs_build; auto.
  Qed.

  Lemma ucontains_build nu p : In nu keys ->
    ucontains_at tbl (encN nu) p = well_ranked ar p && negb (Nat.eqb (nder contribN nu p) 0).
  Proof.
    intros Hin. destruct (well_ranked ar p) eqn:Hw; cbn.
    - rewrite (ucontains_at_spec tbl [] (encN nu) p) by (apply (ranked_shape_ok ar); auto; apply build_ranked; auto).
      unfold tbl. rewrite uderivs_build; auto.
    - unfold ucontains_at. rewrite (ranked_not_member ar tbl); auto. apply build_ranked; auto.
  Qed.
End Assembly1.
