(** Proofs about Gram/U.v: the stack-threaded traversals of UGrammar
    (__contains_rec__, reduce_derivations) are the structural derivation list
    uderivs on programs whose arities agree with the grammar. *)
From Coq Require Import ZArith NArith QArith List Bool Lia Setoid.
From PS Require Import Base.ListX Base.Sexp Base.Ty Base.Value Base.Prog Gram.Det Gram.U.
Import ListNotations.
Local Open Scope nat_scope.

Definition unext (info : list unt) : list unt * upos := uderive1 info [].

Lemma uderive1_cons info x r : uderive1 info (x :: r) = (r ++ info, UAt x).
Proof. reflexivity. Qed.

Lemma unext_app r info : unext (r ++ info) = uderive1 info r.
Proof. destruct r as [|y r']; reflexivity. Qed.

Lemma flat_map_map {A B C} (h : A -> B) (g : B -> list C) l : flat_map g (map h l) = flat_map (fun a => g (h a)) l.
Proof. induction l as [|a r IH]; cbn; [reflexivity|]. rewrite IH; reflexivity. Qed.

Lemma map_flat_map' {A B C} (g : A -> list B) (h : B -> C) l :
  map h (flat_map g l) = flat_map (fun a => map h (g a)) l.
Proof. induction l as [|a r IH]; cbn; [reflexivity|]. rewrite map_app, IH; reflexivity. Qed.

Lemma flat_map_ext_in {A B} (g g' : A -> list B) l : (forall a, In a l -> g a = g' a) -> flat_map g l = flat_map g' l.
Proof.
  induction l as [|a r IH]; cbn; intros H; [reflexivity|].
  rewrite (H a (or_introl eq_refl)), IH; [reflexivity|]. intros; apply H; right; auto.
Qed.

(** unfolding of the nested fixpoints *)
Lemma uprob_rec_fun tbl w f args x info :
  uprob_rec tbl w (PFun f args) (UAt x) info =
  match ualts_of tbl x f with
  | Some alts => upthread (uprob_rec tbl w) args (map (fun alt => (uweight_of w x f alt, uderive1 info alt)) alts)
  | None => []
  end.
Proof. reflexivity. Qed.

Lemma ucontains_rec_fun tbl f args x info :
  ucontains_rec tbl (PFun f args) (UAt x) info =
  match ualts_of tbl x f with
  | Some alts => if Nat.eqb (uarity alts) (length args)
                 then uthread (ucontains_rec tbl) args (map (uderive1 info) alts) else None
  | None => None
  end.
Proof. reflexivity. Qed.

Lemma uderivs_fun tbl w x f ps :
  uderivs tbl w x (PFun f ps) =
  match ualts_of tbl x f with
  | Some alts => map fst (athread (uderivs tbl w) ps (map (fun alt => (uweight_of w x f alt, alt)) alts))
  | None => []
  end.
Proof. reflexivity. Qed.

Lemma shape_ok_fun tbl x f ps :
  shape_ok tbl x (PFun f ps) =
  match ualts_of tbl x f with
  | Some alts => negb (Nat.eqb (length alts) 0) && forallb (fun alt : ualt => forall2b (shape_ok tbl) alt ps) alts
  | None => true
  end.
Proof. reflexivity. Qed.

(** ** reduce_derivations *)
Definition lift (info : list unt) (qr : option Q * list unt) : option Q * (list unt * upos) :=
  (fst qr, uderive1 info (snd qr)).

Definition shaped tbl (ps : list prog) (l : list (option Q * list unt)) : Prop :=
  forall qr, In qr l -> forall2b (shape_ok tbl) (snd qr) ps = true.

Lemma athread_nil D ps : athread D ps [] = [].
Proof. induction ps; cbn; auto. Qed.

Lemma upthread_spec tbl w ps :
  Forall (fun p => forall x info, shape_ok tbl x p = true ->
                   uprob_rec tbl w p (UAt x) info = map (fun q => (q, unext info)) (uderivs tbl w x p)) ps ->
  forall info l, shaped tbl ps l ->
    upthread (uprob_rec tbl w) ps (map (lift info) l) = map (lift info) (athread (uderivs tbl w) ps l)
    /\ Forall (fun qr => snd qr = []) (athread (uderivs tbl w) ps l).
Proof.
  induction 1 as [|a ar Ha _ IH]; intros info l Hs.
  - cbn. split; auto. apply Forall_forall. intros qr Hin. apply Hs in Hin. destruct (snd qr); [reflexivity|discriminate].
  - cbn [upthread athread]. rewrite flat_map_map.
    set (step := fun qr : option Q * list unt =>
                   match snd qr with
                   | x :: r => map (fun d => (omul (fst qr) d, r)) (uderivs tbl w x a)
                   | [] => []
                   end).
    assert (E : flat_map (fun qip => map (fun d : option Q * (list unt * upos) => (omul (fst (lift info qip)) (fst d), snd d))
                                         (uprob_rec tbl w a (snd (snd (lift info qip))) (fst (snd (lift info qip))))) l
                = map (lift info) (flat_map step l)).
    { rewrite map_flat_map'. apply flat_map_ext_in. intros [q rest] Hin. apply Hs in Hin. cbn [snd] in Hin.
      unfold step, lift. cbn [fst snd]. destruct rest as [|x r]; [discriminate|].
      cbn in Hin. apply andb_true_iff in Hin. destruct Hin as [Hx _].
      rewrite uderive1_cons. cbn [fst snd]. rewrite (Ha x (r ++ info) Hx), !map_map. cbn [fst snd].
      rewrite unext_app. reflexivity. }
    rewrite E. apply IH.
    intros qr Hin. apply in_flat_map in Hin. destruct Hin as [[q rest] [Hin Hm]]. apply Hs in Hin. cbn [snd] in Hin.
    unfold step in Hm. cbn [fst snd] in Hm. destruct rest as [|x r]; [destruct Hm|].
    apply in_map_iff in Hm. destruct Hm as [d [<- _]]. cbn [snd]. cbn in Hin. apply andb_true_iff in Hin. tauto.
Qed.

Theorem uprob_rec_spec tbl w p : forall x info, shape_ok tbl x p = true ->
  uprob_rec tbl w p (UAt x) info = map (fun q => (q, unext info)) (uderivs tbl w x p).
Proof.
  induction p as [s|f ps IH] using prog_ind'; intros x info Hs.
  - cbn [uprob_rec uderivs shape_ok] in *. destruct (ualts_of tbl x s) as [alts|]; [|reflexivity].
    apply andb_true_iff in Hs. destruct Hs as [_ Hall]. rewrite forallb_forall in Hall.
    rewrite map_map. apply map_ext_in. intros alt Hin. apply Hall in Hin. apply Nat.eqb_eq in Hin.
    destruct alt; [reflexivity|discriminate].
  - rewrite uprob_rec_fun, uderivs_fun. rewrite shape_ok_fun in Hs.
    destruct (ualts_of tbl x f) as [alts|]; [|reflexivity].
    apply andb_true_iff in Hs. destruct Hs as [_ Hall]. rewrite forallb_forall in Hall.
    set (l := map (fun alt => (uweight_of w x f alt, alt)) alts).
    assert (Hsh : shaped tbl ps l).
    { intros qr Hin. unfold l in Hin. apply in_map_iff in Hin. destruct Hin as [alt [<- Hin]]. cbn. auto. }
    destruct (upthread_spec tbl w ps IH info l Hsh) as [E Hnil].
    replace (map (fun alt => (uweight_of w x f alt, uderive1 info alt)) alts) with (map (lift info) l)
      by (unfold l; rewrite map_map; reflexivity).
    rewrite E, map_map. apply map_ext_in. intros qr Hin. rewrite Forall_forall in Hnil. apply Hnil in Hin.
    unfold lift. rewrite Hin. reflexivity.
Qed.

(** ** membership *)
Lemma uthread_spec tbl w ps :
  Forall (fun p => forall x info, shape_ok tbl x p = true ->
                   ucontains_rec tbl p (UAt x) info =
                   match uderivs tbl w x p with [] => None | l => Some (map (fun _ => unext info) l) end) ps ->
  forall info l, shaped tbl ps l -> l <> [] ->
    uthread (ucontains_rec tbl) ps (map (fun qr => uderive1 info (snd qr)) l) =
    match athread (uderivs tbl w) ps l with
    | [] => None
    | l' => Some (map (fun qr => uderive1 info (snd qr)) l')
    end.
Proof.
  induction 1 as [|a ar Ha _ IH]; intros info l Hs Hne.
  - cbn. destruct l; [congruence|reflexivity].
  - cbn [uthread athread]. rewrite flat_map_map. cbv beta.
    set (step := fun qr : option Q * list unt =>
                   match snd qr with
                   | x :: r => map (fun d => (omul (fst qr) d, r)) (uderivs tbl w x a)
                   | [] => []
                   end).
    match goal with |- match flat_map ?g l with _ => _ end = _ =>
      assert (E : flat_map g l = map (fun qr : option Q * list unt => uderive1 info (snd qr)) (flat_map step l)) end.
    { rewrite map_flat_map'. apply flat_map_ext_in. intros [q rest] Hin. apply Hs in Hin. cbn [snd] in Hin.
      unfold step. cbn [fst snd]. destruct rest as [|x r]; [discriminate|].
      cbn in Hin. apply andb_true_iff in Hin. destruct Hin as [Hx _].
      rewrite uderive1_cons. cbn [fst snd]. rewrite (Ha x (r ++ info) Hx), map_map. cbn [snd].
      rewrite unext_app. destruct (uderivs tbl w x a); reflexivity. }
    rewrite E. clear E.
    assert (Hs' : shaped tbl ar (flat_map step l)).
    { intros qr Hin. apply in_flat_map in Hin. destruct Hin as [[q rest] [Hin Hm]]. apply Hs in Hin. cbn [snd] in Hin.
      unfold step in Hm. cbn [fst snd] in Hm. destruct rest as [|x r]; [destruct Hm|].
      apply in_map_iff in Hm. destruct Hm as [d [<- _]]. cbn [snd]. cbn in Hin. apply andb_true_iff in Hin. tauto. }
    destruct (flat_map step l) as [|qr0 l0].
    + cbn. rewrite athread_nil. reflexivity.
    + specialize (IH info (qr0 :: l0) Hs'). cbn [map] in *. apply IH. discriminate.
Qed.

Lemma forall2b_length F xs ps : forall2b F xs ps = true -> length xs = length ps.
Proof.
  revert xs. induction ps as [|a ar IH]; intros [|x xr]; cbn; try discriminate; auto.
  intros H. apply andb_true_iff in H. destruct H as [_ H]. apply IH in H. lia.
Qed.

Theorem ucontains_rec_spec tbl w p : forall x info, shape_ok tbl x p = true ->
  ucontains_rec tbl p (UAt x) info =
  match uderivs tbl w x p with [] => None | l => Some (map (fun _ => unext info) l) end.
Proof.
  induction p as [s|f ps IH] using prog_ind'; intros x info Hs.
  - cbn [ucontains_rec uderivs shape_ok] in *. destruct (ualts_of tbl x s) as [alts|]; [|reflexivity].
    apply andb_true_iff in Hs. destruct Hs as [Hne Hall]. rewrite forallb_forall in Hall.
    destruct alts as [|alt0 alts']; [discriminate|].
    assert (H0 : forall alt, In alt (alt0 :: alts') -> alt = []).
    { intros alt Hin. apply Hall in Hin. apply Nat.eqb_eq in Hin. destruct alt; [reflexivity|discriminate]. }
    cbn [uarity]. rewrite (H0 alt0 (or_introl eq_refl)). cbn [length Nat.eqb].
    change (map (uweight_of w x s) ([] :: alts')) with (uweight_of w x s [] :: map (uweight_of w x s) alts').
    rewrite <- (H0 alt0 (or_introl eq_refl)).
    change (uweight_of w x s alt0 :: map (uweight_of w x s) alts') with (map (uweight_of w x s) (alt0 :: alts')).
    rewrite map_map. f_equal. apply map_ext_in. intros alt Hin. rewrite (H0 alt Hin). reflexivity.
  - rewrite ucontains_rec_fun, uderivs_fun. rewrite shape_ok_fun in Hs.
    destruct (ualts_of tbl x f) as [alts|]; [|reflexivity].
    apply andb_true_iff in Hs. destruct Hs as [Hne Hall]. rewrite forallb_forall in Hall.
    destruct alts as [|alt0 alts'] eqn:Ealts; [discriminate|]. rewrite <- Ealts in *.
    assert (Hlen : uarity alts = length ps).
    { rewrite Ealts. cbn. eapply forall2b_length. apply Hall. rewrite Ealts. left; reflexivity. }
    rewrite Hlen, Nat.eqb_refl.
    set (l := map (fun alt => (uweight_of w x f alt, alt)) alts).
    assert (Hsh : shaped tbl ps l).
    { intros qr Hin. unfold l in Hin. apply in_map_iff in Hin. destruct Hin as [alt [<- Hin]]. cbn. auto. }
    assert (Hl : l <> []) by (unfold l; rewrite Ealts; discriminate).
    replace (map (uderive1 info) alts) with (map (fun qr : option Q * ualt => uderive1 info (snd qr)) l)
      by (unfold l; rewrite map_map; reflexivity).
    rewrite (uthread_spec tbl w ps IH info l Hsh Hl).
    assert (HF : Forall (fun p => forall x0 info0, shape_ok tbl x0 p = true ->
                                 uprob_rec tbl w p (UAt x0) info0 = map (fun q => (q, unext info0)) (uderivs tbl w x0 p)) ps)
      by (apply Forall_forall; intros p _ x0 info0 H; apply uprob_rec_spec; auto).
    destruct (upthread_spec tbl w ps HF info l Hsh) as [_ Hnil].
    destruct (athread (uderivs tbl w) ps l) as [|qr0 l0] eqn:Ea; [reflexivity|].
    cbn [map]. f_equal. rewrite Forall_forall in Hnil.
    destruct qr0 as [q0 r0]. assert (E0 : r0 = []) by (apply (Hnil (q0, r0)); left; reflexivity). subst r0.
    cbn [snd]. f_equal. rewrite map_map. apply map_ext_in. intros [q r] Hin.
    assert (E1 : r = []) by (apply (Hnil (q, r)); right; auto). subst r. reflexivity.
Qed.

Lemma forallb_map_fst (r : list (option Q)) info :
  forallb (fun d : option Q * (list unt * upos) => match fst d with Some _ => true | None => false end)
          (map (fun q => (q, unext info)) r)
  = forallb (fun o : option Q => match o with Some _ => true | None => false end) r.
Proof. induction r as [|o r IH]; [reflexivity|]. cbn [map forallb fst]. rewrite IH. reflexivity. Qed.

(** ** Top-level statements *)
Definition is_some {X} (o : option X) : bool := match o with Some _ => true | None => false end.

Theorem ucontains_at_spec tbl w x p : shape_ok tbl x p = true ->
  ucontains_at tbl x p = negb (Nat.eqb (length (uderivs tbl w x p)) 0).
Proof.
  intros Hs. unfold ucontains_at. rewrite (ucontains_rec_spec tbl w p x [] Hs).
  destruct (uderivs tbl w x p); reflexivity.
Qed.

Theorem uderivations_spec tbl x p : shape_ok tbl x p = true ->
  uderivations tbl x p = length (uderivs tbl [] x p).
Proof.
  intros Hs. unfold uderivations. rewrite (uprob_rec_spec tbl [] p x [] Hs), map_length. reflexivity.
Qed.

Theorem uprobability_at_spec tbl w x p : shape_ok tbl x p = true ->
  uprobability_at tbl w x p =
  match uderivs tbl w x p with
  | Some q :: r => if forallb is_some r then q else 0%Q
  | _ => 0%Q
  end.
Proof.
  intros Hs. unfold uprobability_at. rewrite (ucontains_at_spec tbl w x p Hs), (uprob_rec_spec tbl w p x [] Hs).
  destruct (uderivs tbl w x p) as [|[q|] r]; cbn; try reflexivity.
  change ([], UEnd) with (unext []). rewrite forallb_map_fst. reflexivity.
Qed.

Corollary uprobability_at_unique tbl w x p q : shape_ok tbl x p = true ->
  uderivs tbl w x p = [Some q] -> uprobability_at tbl w x p = q.
Proof. intros Hs E. rewrite (uprobability_at_spec tbl w x p Hs), E. reflexivity. Qed.

Theorem uprobability_starts tbl w sw starts p :
  uprobability tbl w sw starts p =
  match find (fun x => ucontains_at tbl x p) starts with
  | Some x => (start_weight sw x * uprobability_at tbl w x p)%Q
  | None => 0%Q
  end.
Proof.
  induction starts as [|x r IH]; cbn; [reflexivity|]. destruct (ucontains_at tbl x p); auto.
Qed.

Theorem uprobability_outside tbl w sw starts p : ucontains tbl starts p = false -> uprobability tbl w sw starts p = 0%Q.
Proof.
  unfold ucontains. induction starts as [|x r IH]; cbn; [reflexivity|].
  destruct (ucontains_at tbl x p); cbn; [discriminate|auto].
Qed.

(** non-vacuity: two start symbols, a rule with two alternatives *)
Module UExample.
  Local Open Scope Q_scope.
  Definition int := TPrim 0.
  Definition one := SPrim 1 int.
  Definition zero := SPrim 3 int.
  Definition plus := SPrim 2 (TArrow int (TArrow int int)).
  Definition s0 : unt := (int, A 0%Z).
  Definition s1 : unt := (int, A 1%Z).
  Definition a1 : unt := (int, A 2%Z).
  Definition a0 : unt := (int, A 3%Z).
  (** s0 -> + a1 a0 | + a0 a1 ;  s1 -> 1 ;  a1 -> 1 ; a0 -> 0 *)
  Definition tbl : utable :=
    [ (s0, [ (plus, [[a1; a0]; [a0; a1]]) ]); (s1, [ (one, [[]]) ]); (a1, [ (one, [[]]) ]); (a0, [ (zero, [[]]) ]) ].
  Definition w : uwtable :=
    [ (s0, [ (plus, [([a1; a0], 1 # 3); ([a0; a1], 2 # 3)]) ]); (s1, [ (one, [([], 1)]) ]);
      (a1, [ (one, [([], 1)]) ]); (a0, [ (zero, [([], 1)]) ]) ].
  Definition sw : swtable := [ (s0, 3 # 4); (s1, 1 # 4) ].
  Definition p01 := PFun plus [PLeaf zero; PLeaf one].

  Example ex_shape : shape_ok tbl s0 p01 = true /\ uderivs tbl w s0 p01 = [Some ((2 # 3) * 1 * 1)].
  Proof. split; vm_compute; reflexivity. Qed.
  Example ex_prob : uprobability tbl w sw [s0; s1] p01 == 1 # 2
                    /\ uprobability tbl w sw [s0; s1] (PLeaf one) == 1 # 4
                    /\ uprobability tbl w sw [s0; s1] (PFun plus [PLeaf one]) == 0.
  Proof. repeat split; vm_compute; reflexivity. Qed.
  Example ex_sum : qsum (map (uprobability tbl w sw [s0; s1]) (ulanguage 3 tbl [s0; s1])) == 1
                   /\ ucount 3 tbl [s0; s1] = 3%N /\ length (ulanguage 3 tbl [s0; s1]) = 3%nat.
  Proof. repeat split; vm_compute; reflexivity. Qed.
End UExample.
