(** Unambiguous grammars given as explicit rule tables: model of UGrammar /
    UCFG (u_grammar.py, u_cfg.py) membership, derivations, languages, counting,
    and of ProbUGrammar (tagged_u_grammar.py) probabilities over exact
    rationals.  A rule S -> f has a list of alternative argument lists; there
    may be several start symbols, each with a start weight.  The model follows
    the repaired probability(): 0 outside the language, start weight included. *)
From Coq Require Import ZArith NArith QArith List Bool Lia.
From PS Require Import Base.ListX Base.Sexp Base.Ty Base.Value Base.Prog Gram.Det.
Import ListNotations.

Definition unt : Type := ty * state.                   (* (type, U) *)
Definition ualt : Type := list unt.                    (* one alternative: the argument non-terminals *)
Definition urule : Type := sym * list ualt.
Definition utable : Type := list (unt * list urule).

Definition unt_eqb (a b : unt) : bool := ty_eqb (fst a) (fst b) && sexp_eqb (snd a) (snd b).
Definition ualt_eqb : ualt -> ualt -> bool := list_eqb unt_eqb.

Definition urules_of (tbl : utable) (x : unt) : option (list urule) := alookup unt_eqb x tbl.
Definition ualts_of (tbl : utable) (x : unt) (s : sym) : option (list ualt) :=
  match urules_of tbl x with Some rs => alookup sym_eqb s rs | None => None end.

Inductive upos : Type := UAt (x : unt) | UEnd.

(** UCFG.derive, for one alternative. *)
Definition uderive1 (info : list unt) (args : ualt) : list unt * upos :=
  match args with
  | a :: ar => (ar ++ info, UAt a)
  | [] => match info with
          | i :: rest => (rest, UAt i)
          | [] => ([], UEnd)
          end
  end.

(** UCFG.arguments_length_for: the length of the first alternative. *)
Definition uarity (alts : list ualt) : nat := match alts with a :: _ => length a | [] => 0 end.

Definition uthread (C : prog -> upos -> list unt -> option (list (list unt * upos))) :
  list prog -> list (list unt * upos) -> option (list (list unt * upos)) :=
  fix go (args : list prog) (possibles : list (list unt * upos)) {struct args} :=
    match args with
    | [] => Some possibles
    | a :: ar =>
      match flat_map (fun ip : list unt * upos =>
                        match C a (snd ip) (fst ip) with Some l => l | None => [] end) possibles with
      | [] => None
      | np => go ar np
      end
    end.

(** UGrammar.__contains_rec__ (with the arity test): None = not contained,
    Some possibles = the (information, next) pairs after the program. *)
Fixpoint ucontains_rec (tbl : utable) (p : prog) (here : upos) (info : list unt) {struct p}
  : option (list (list unt * upos)) :=
  match here with
  | UEnd => None
  | UAt x =>
    match p with
    | PLeaf s =>
      match ualts_of tbl x s with
      | Some alts => if Nat.eqb (uarity alts) 0 then Some (map (uderive1 info) alts) else None
      | None => None
      end
    | PFun f args =>
      match ualts_of tbl x f with
      | Some alts =>
        if Nat.eqb (uarity alts) (length args)
        then uthread (fun a h i => ucontains_rec tbl a h i) args (map (uderive1 info) alts)
        else None
      | None => None
      end
    end
  end.

Definition ucontains_at (tbl : utable) (x : unt) (p : prog) : bool :=
  match ucontains_rec tbl p (UAt x) [] with Some _ => true | None => false end.
Definition ucontains (tbl : utable) (starts : list unt) (p : prog) : bool :=
  existsb (fun x => ucontains_at tbl x p) starts.

(** ---- weights ---- *)
Definition uwtable : Type := list (unt * list (sym * list (ualt * Q))).
Definition swtable : Type := list (unt * Q).             (* start_tags *)

Definition uweight_of (w : uwtable) (x : unt) (s : sym) (alt : ualt) : option Q :=
  match alookup unt_eqb x w with
  | Some ws => match alookup sym_eqb s ws with Some aw => alookup ualt_eqb alt aw | None => None end
  | None => None
  end.

(** reduce_derivations with multiplication: one entry per complete derivation,
    None inside an entry when a tag is missing (KeyError). *)
Definition omul (a b : option Q) : option Q :=
  match a, b with Some x, Some y => Some (x * y) | _, _ => None end.

Definition upthread (R : prog -> upos -> list unt -> list (option Q * (list unt * upos))) :
  list prog -> list (option Q * (list unt * upos)) -> list (option Q * (list unt * upos)) :=
  fix go (args : list prog) (possibles : list (option Q * (list unt * upos))) {struct args} :=
    match args with
    | [] => possibles
    | a :: ar =>
      go ar (flat_map (fun qip : option Q * (list unt * upos) =>
                         map (fun d : option Q * (list unt * upos) => (omul (fst qip) (fst d), snd d))
                             (R a (snd (snd qip)) (fst (snd qip)))) possibles)
    end.

Fixpoint uprob_rec (tbl : utable) (w : uwtable) (p : prog) (here : upos) (info : list unt) {struct p}
  : list (option Q * (list unt * upos)) :=
  match here with
  | UEnd => []
  | UAt x =>
    match p with
    | PLeaf s =>
      match ualts_of tbl x s with
      | Some alts => map (fun alt => (uweight_of w x s alt, uderive1 info alt)) alts
      | None => []
      end
    | PFun f args =>
      match ualts_of tbl x f with
      | Some alts =>
        upthread (fun a h i => uprob_rec tbl w a h i) args
                 (map (fun alt => (uweight_of w x f alt, uderive1 info alt)) alts)
      | None => []
      end
    end
  end.

(** Number of derivations of p from x (length of reduce_derivations). *)
Definition uderivations (tbl : utable) (x : unt) (p : prog) : nat := length (uprob_rec tbl [] p (UAt x) []).

(** ProbUGrammar.probability(program, start): product along the first
    derivation; a missing tag in any derivation gives 0. *)
Definition uprobability_at (tbl : utable) (w : uwtable) (x : unt) (p : prog) : Q :=
  if ucontains_at tbl x p then
    let ds := uprob_rec tbl w p (UAt x) [] in
    if forallb (fun d : option Q * (list unt * upos) => match fst d with Some _ => true | None => false end) ds
    then match ds with (Some q, _) :: _ => q | _ => 0 end
    else 0
  else 0.

Definition start_weight (sw : swtable) (x : unt) : Q :=
  match alookup unt_eqb x sw with Some q => q | None => 0 end.

(** ProbUGrammar.probability(program) (repaired): the first start symbol that
    derives the program, its start weight times the product along the first
    derivation; 0 outside the language. *)
Fixpoint uprobability (tbl : utable) (w : uwtable) (sw : swtable) (starts : list unt) (p : prog) : Q :=
  match starts with
  | [] => 0
  | x :: r => if ucontains_at tbl x p then start_weight sw x * uprobability_at tbl w x p
              else uprobability tbl w sw r p
  end.

(** ---- language (one entry per derivation) and counting ---- *)
Definition uprods {X} (Ls : list (list X)) : list (list X) :=
  fold_right (fun L acc => flat_map (fun a => map (cons a) acc) L) [[]] Ls.

Definition ualt_lang (L : unt -> list prog) (s : sym) (alt : ualt) : list prog :=
  match alt with
  | [] => [PLeaf s]
  | _ => map (PFun s) (uprods (map L alt))
  end.

Fixpoint ulang_at (fuel : nat) (tbl : utable) (x : unt) : list prog :=
  match fuel with
  | O => []
  | S f =>
    match urules_of tbl x with
    | None => []
    | Some rs => flat_map (fun r : urule => flat_map (ualt_lang (ulang_at f tbl) (fst r)) (snd r)) rs
    end
  end.

Definition ulanguage (fuel : nat) (tbl : utable) (starts : list unt) : list prog :=
  flat_map (ulang_at fuel tbl) starts.

(** UCFG.programs(): product over the arguments, sum over alternatives, rules
    and start symbols; a non-terminal without rules counts 1. *)
Fixpoint ucount_at (fuel : nat) (tbl : utable) (x : unt) : N :=
  match fuel with
  | O => 0%N
  | S f =>
    match urules_of tbl x with
    | None => 1%N
    | Some rs =>
      fold_right N.add 0%N
        (map (fun r : urule =>
                fold_right N.add 0%N
                  (map (fun alt : ualt => fold_right N.mul 1%N (map (ucount_at f tbl) alt)) (snd r))) rs)
    end
  end.
Definition ucount (fuel : nat) (tbl : utable) (starts : list unt) : N :=
  fold_right N.add 0%N (map (ucount_at fuel tbl) starts).

(** uniform() and normalise() *)
Definition nalts (rs : list urule) : nat := fold_right (fun r acc => (length (snd r) + acc)%nat) O rs.
Definition uuniform (tbl : utable) : uwtable :=
  map (fun xr : unt * list urule =>
         (fst xr, map (fun r : urule =>
                         (fst r, map (fun alt => (alt, 1 / inject_Z (Z.of_nat (nalts (snd xr))))) (snd r))) (snd xr))) tbl.
Definition uuniform_starts (starts : list unt) : swtable :=
  map (fun x => (x, 1 / inject_Z (Z.of_nat (length starts)))) starts.
Definition unormalise (w : uwtable) : uwtable :=
  map (fun xw : unt * list (sym * list (ualt * Q)) =>
         let s := qsum (map (fun sa : sym * list (ualt * Q) => qsum (map snd (snd sa))) (snd xw)) in
         (fst xw, map (fun sa : sym * list (ualt * Q) =>
                         (fst sa, map (fun aq : ualt * Q => (fst aq, snd aq / s)) (snd sa))) (snd xw))) w.
Definition unormalise_starts (sw : swtable) : swtable :=
  let s := qsum (map snd sw) in map (fun xq : unt * Q => (fst xq, snd xq / s)) sw.

(** ---- structural specification (no information stack) ----
    uderivs tbl w x p lists, for every derivation of p from x, the product of the
    weights of its rules (None when a tag is missing), in the order of
    reduce_derivations:
      D(x, f a1 .. ak) = [ w(x,f,alt) * q1 * .. * qk | alt in alts(x,f), q1 in D(alt_1,a1), .., qk in D(alt_k,ak) ] *)
Definition athread (D : unt -> prog -> list (option Q)) : list prog -> list (option Q * list unt) -> list (option Q * list unt) :=
  fix go (ps : list prog) (l : list (option Q * list unt)) {struct ps} : list (option Q * list unt) :=
    match ps with
    | [] => l
    | a :: ar =>
      go ar (flat_map (fun qr : option Q * list unt =>
                         match snd qr with
                         | x :: r => map (fun d => (omul (fst qr) d, r)) (D x a)
                         | [] => []
                         end) l)
    end.

Fixpoint uderivs (tbl : utable) (w : uwtable) (x : unt) (p : prog) {struct p} : list (option Q) :=
  match p with
  | PLeaf s =>
    match ualts_of tbl x s with
    | Some alts => map (uweight_of w x s) alts
    | None => []
    end
  | PFun f ps =>
    match ualts_of tbl x f with
    | Some alts => map fst (athread (fun x' a => uderivs tbl w x' a) ps (map (fun alt => (uweight_of w x f alt, alt)) alts))
    | None => []
    end
  end.

(** The arities met by the traversal of p from x agree with p (true of typed
    programs in grammars whose rule arities follow the types); every rule has
    at least one alternative. *)
Definition forall2b (F : unt -> prog -> bool) : list unt -> list prog -> bool :=
  fix go (xs : list unt) (ps : list prog) {struct ps} : bool :=
    match xs, ps with
    | [], [] => true
    | x :: xr, a :: ar => F x a && go xr ar
    | _, _ => false
    end.

Fixpoint shape_ok (tbl : utable) (x : unt) (p : prog) {struct p} : bool :=
  match p with
  | PLeaf s =>
    match ualts_of tbl x s with
    | Some alts => negb (Nat.eqb (length alts) 0) && forallb (fun alt : ualt => Nat.eqb (length alt) 0) alts
    | None => true
    end
  | PFun f ps =>
    match ualts_of tbl x f with
    | Some alts => negb (Nat.eqb (length alts) 0)
                   && forallb (fun alt : ualt => forall2b (fun x' a => shape_ok tbl x' a) alt ps) alts
    | None => true
    end
  end.
