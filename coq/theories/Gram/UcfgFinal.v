(** Proofs about Gram/Ucfg.v, part 5: the statements of property C06 for
    automata whose states are Python values, and non-vacuity examples. *)
From Coq Require Import ZArith NArith QArith List Bool Arith Lia Setoid.
From PS Require Import Base.ListX Base.Sexp Base.Ty Base.Value Base.Prog Gram.Det Gram.U Gram.UProofs
  Auto.Dfta Auto.DftaBase Gram.Ucfg Gram.UcfgBase Gram.UcfgProofs Gram.UcfgLang Gram.UcfgMore Gram.UcfgClean.
From PS Require Gram.Cfg Gram.CfgSpec Gram.CfgProofs.
Import ListNotations.
Local Open Scope nat_scope.

Definition inj_on {X Y : Type} (f : X -> Y) (l : list X) : Prop :=
  forall a b, In a l -> In b l -> f a = f b -> a = b.

(** every rule of the automaton has as many arguments as its letter's arity *)
Definition ranked {Q : Type} (ar : sym -> nat) (A : dfta sym Q) : Prop :=
  forall l args d, In ((l, args), d) (rules A) -> length args = ar l.

(** rank function witnessing acyclicity *)
Definition acyclic_by {Q : Type} (rk : Q -> nat) (A : dfta sym Q) : Prop :=
  forall l args d, In ((l, args), d) (rules A) -> forall a, In a args -> rk a < rk d.

Definition one_if (b : bool) : nat := if b then 1 else 0.

Notation runP A p := (run sym_eqb pst_eqb A (tree_of p)).
Notation acceptsP A p := (accepts sym_eqb pst_eqb A (tree_of p)).

Section Final.
  Variables (A : dfta sym pst) (ar : sym -> nat).
  Hypothesis Hdet : deterministic A.
  Hypothesis Hrk : ranked ar A.

  Section AnyFlattening.
    Variable d2o : pst -> option unt.
    Hypothesis Hinj : inj_on d2o (mentioned A).
    Variables (starts : list unt) (tbl : utable).

    Theorem with_nonterminal : from_DFTA_with d2o A = GOk (starts, tbl) ->
      forall q x, In q (mentioned A) -> d2o q = Some x -> urules_of tbl x <> None ->
      forall p, ucontains_at tbl x p = option_eqb pst_eqb (runP A p) (Some q)
                /\ (well_ranked ar p = true -> uderivations tbl x p = one_if (option_eqb pst_eqb (runP A p) (Some q))).
    Proof.
      intros Hg q x Hq Hx Hk p. destruct (with_defined A d2o _ Hg) as [Hg' Hdef].
      assert (Ex : x = total d2o q) by (rewrite (Hdef q Hq) in Hx; congruence). subst x.
      pose proof (total_inj A d2o Hinj Hdef) as Hti. split.
      - apply (from_dfta_member pst_eqb pst_eqb_spec A ar (total d2o) Hdet Hrk Hti starts tbl Hg'); auto.
      - intros Hw. apply (from_dfta_derivations pst_eqb pst_eqb_spec A ar (total d2o) Hdet Hrk Hti starts tbl Hg'); auto.
    Qed.

    Theorem with_language : from_DFTA_with d2o A = GOk (starts, tbl) ->
      forall p, ucontains tbl starts p = acceptsP A p.
    Proof.
      intros Hg p. destruct (with_defined A d2o _ Hg) as [Hg' Hdef].
      apply (from_dfta_language pst_eqb pst_eqb_spec A ar (total d2o) Hdet Hrk (total_inj A d2o Hinj Hdef) starts tbl Hg').
    Qed.

    Theorem with_unambiguous : from_DFTA_with d2o A = GOk (starts, tbl) ->
      forall p, (acceptsP A p = true -> well_ranked ar p = true)
                /\ (well_ranked ar p = true ->
                    sumnat (map (fun x => uderivations tbl x p) starts) = one_if (acceptsP A p)).
    Proof.
      intros Hg p. destruct (with_defined A d2o _ Hg) as [Hg' Hdef]. split.
      - unfold accepts. destruct (runP A p) as [q|] eqn:E; [|discriminate]. intros _.
        eapply (run_well_ranked pst_eqb pst_eqb_spec A ar Hrk); eauto.
      - apply (from_dfta_unambiguous pst_eqb pst_eqb_spec A ar (total d2o) Hdet Hrk (total_inj A d2o Hinj Hdef) starts tbl Hg').
    Qed.

    Theorem with_starts : from_DFTA_with d2o A = GOk (starts, tbl) ->
      NoDup starts /\ forall x, In x starts <-> exists q, In q (finals A) /\ d2o q = Some x.
    Proof.
      intros Hg. destruct (with_defined A d2o _ Hg) as [Hg' Hdef].
      rewrite (starts_eq A (total d2o) starts tbl Hg'). split; [apply (NoDup_nub unt_eqb unt_eqb_spec)|].
      intros x. rewrite (in_nub unt_eqb unt_eqb_spec), in_map_iff. split.
      - intros [q [<- Hq]]. exists q. split; auto. apply Hdef. apply mentioned_final. exact Hq.
      - intros [q [Hq Hx]]. exists q. split; auto. rewrite (Hdef q (mentioned_final A q Hq)) in Hx. congruence.
    Qed.

    Theorem with_count : from_DFTA_with d2o A = GOk (starts, tbl) ->
      forall (rk : pst -> nat) fuel, acyclic_by rk A -> (forall q, In q (mentioned A) -> rk q < fuel) ->
      ucount fuel tbl starts = N.of_nat (length (ulanguage fuel tbl starts))
      /\ NoDup (ulanguage fuel tbl starts)
      /\ forall p, In p (ulanguage fuel tbl starts) <-> acceptsP A p = true /\ normal p = true.
    Proof.
      intros Hg rk fuel Hac Hb. destruct (with_defined A d2o _ Hg) as [Hg' Hdef].
      destruct (plain_count pst_eqb pst_eqb_spec A ar (total d2o) Hdet Hrk (total_inj A d2o Hinj Hdef) starts tbl Hg' fuel)
        as [H1 [H2 H3]].
      split; [exact H1|]. split; [exact H2|]. intros p. rewrite H3. split; [tauto|].
      intros [Ha Hn]. split; [exact Ha|]. split; [exact Hn|].
      unfold accepts in Ha. destruct (runP A p) as [q|] eqn:E; [|discriminate].
      pose proof (run_depth pst_eqb pst_eqb_spec A rk Hac p q E Hn) as Hd.
      pose proof (Hb q (mentioned_run pst_eqb pst_eqb_spec A _ _ E)). lia.
    Qed.

    (** n-gram version *)
    Variables (n fuel : nat).
    Theorem with_ngrams : from_DFTA_ngrams_with d2o n fuel A = GOk (starts, tbl) ->
      (forall p, ucontains tbl starts p = acceptsP A p)
      /\ (forall p, well_ranked ar p = true ->
                    sumnat (map (fun x => uderivations tbl x p) starts) = one_if (acceptsP A p))
      /\ (forall g q x p, In q (mentioned A) -> d2o q = Some x -> urules_of tbl (enc_nnt (g, x)) <> None ->
                          ucontains_at tbl (enc_nnt (g, x)) p = option_eqb pst_eqb (runP A p) (Some q)
                          /\ (well_ranked ar p = true ->
                              uderivations tbl (enc_nnt (g, x)) p = one_if (option_eqb pst_eqb (runP A p) (Some q))))
      /\ (forall (rk : pst -> nat) fuel', acyclic_by rk A -> (forall q, In q (mentioned A) -> rk q < fuel') ->
          ucount fuel' tbl starts = N.of_nat (length (ulanguage fuel' tbl starts))
          /\ NoDup (ulanguage fuel' tbl starts)
          /\ forall p, In p (ulanguage fuel' tbl starts) <-> acceptsP A p = true /\ normal p = true).
    Proof.
      intros Hg. destruct (ng_with_defined A d2o n fuel _ Hg) as [Hg' Hdef].
      pose proof (total_inj A d2o Hinj Hdef) as Hti.
      split; [|split; [|split]].
      - apply (ng_language pst_eqb pst_eqb_spec A ar (total d2o) n fuel Hdet Hrk Hti starts tbl Hg').
      - apply (ng_unambiguous pst_eqb pst_eqb_spec A ar (total d2o) n fuel Hdet Hrk Hti starts tbl Hg').
      - intros g q x p Hq Hx Hk.
        assert (Ex : x = total d2o q) by (rewrite (Hdef q Hq) in Hx; congruence). subst x. split.
        + apply (ng_member pst_eqb pst_eqb_spec A ar (total d2o) n fuel Hdet Hrk Hti starts tbl Hg'); auto.
        + intros Hw. apply (ng_derivations pst_eqb pst_eqb_spec A ar (total d2o) n fuel Hdet Hrk Hti starts tbl Hg'); auto.
      - intros rk fuel' Hac Hb.
        destruct (ng_count pst_eqb pst_eqb_spec A ar (total d2o) n fuel Hdet Hrk Hti starts tbl Hg' fuel') as [H1 [H2 H3]].
        split; [exact H1|]. split; [exact H2|]. intros p. rewrite H3. split; [tauto|].
        intros [Ha Hn]. split; [exact Ha|]. split; [exact Hn|].
        unfold accepts in Ha. destruct (runP A p) as [q|] eqn:E; [|discriminate].
        pose proof (run_depth pst_eqb pst_eqb_spec A rk Hac p q E Hn) as Hd.
        pose proof (Hb q (mentioned_run pst_eqb pst_eqb_spec A _ _ E)). lia.
    Qed.
  End AnyFlattening.
End Final.

Theorem from_dfta_total (A : dfta sym pst) d2o : from_DFTA_with d2o A <> GFuel.
Proof.
  unfold from_DFTA_with. destruct (forallb (defined d2o) (mentioned A)); [|discriminate].
  unfold from_DFTA_gen. apply from_raw_total.
Qed.

(** * non-vacuity: a product-shaped automaton satisfying every hypothesis *)
Module Example.
  Definition int := TPrim 0.
  Definition one := SPrim 1 int.
  Definition var := SVar 0 int.
  Definition plus := SPrim 2 (TArrow int (TArrow int int)).
  Definition ar (s : sym) : nat := length (arguments (sym_type s)).
  (** states: pairs of (type, payload) leaves, as read_product produces *)
  Definition st (a b : Z) : pst := PTup [PTup [PT int; PI a]; PTup [PT int; PI b]].
  Definition q0 := st 0 0.   (* a leaf that is 1 *)
  Definition q1 := st 0 1.   (* var0 *)
  Definition q2 := st 1 0.   (* 1 + leaf *)
  Definition q3 := st 2 0.   (* 1 + (1 + leaf) *)
  Definition aut : dfta sym pst :=
    mkDfta [ ((one, []), q0); ((var, []), q1); ((plus, [q0; q0]), q2); ((plus, [q0; q1]), q2); ((plus, [q0; q2]), q3) ]
           [q1; q2; q3].
  Definition rk (q : pst) : nat := if pst_eqb q q2 then 1 else if pst_eqb q q3 then 2 else 0.
  Lemma hyp_acyclic : acyclic_by rk aut /\ forall q, In q (mentioned aut) -> rk q < 3.
  Proof.
    split.
    - intros l args d H a Ha. cbn in H. repeat destruct H as [H|H]; try (inversion H; subst; clear H);
        cbn in Ha; repeat destruct Ha as [Ha|Ha]; try destruct Ha; subst; vm_compute; lia.
    - intros q Hq. cbn in Hq. repeat destruct Hq as [Hq|Hq]; try destruct Hq; subst; vm_compute; lia.
  Qed.

  Lemma hyp_det : deterministic aut.
  Proof. unfold deterministic. apply (nodupb_spec (key_eqb sym_eqb pst_eqb) (key_eqb_spec sym_eqb pst_eqb sym_eqb_spec pst_eqb_spec)). vm_compute. reflexivity. Qed.
  Lemma hyp_ranked : ranked ar aut.
  Proof. intros l args d H. cbn in H. repeat destruct H as [H|H]; try (inversion H; subst; reflexivity). Qed.
  Lemma hyp_inj : inj_on d2state (mentioned aut).
  Proof.
    intros a b Ha Hb E. apply (d2state_injective_shapes 2); auto.
    - cbn in Ha. repeat destruct Ha as [Ha|Ha]; try destruct Ha; subst;
        (apply ps_tup; [apply ps_leaf; reflexivity|repeat constructor; eexists; apply ps_leaf; reflexivity]).
    - cbn in Hb. repeat destruct Hb as [Hb|Hb]; try destruct Hb; subst;
        (apply ps_tup; [apply ps_leaf; reflexivity|repeat constructor; eexists; apply ps_leaf; reflexivity]).
  Qed.
  Definition p_in := PFun plus [PLeaf one; PFun plus [PLeaf one; PLeaf var]].
  Definition p_out := PFun plus [PLeaf var; PLeaf one].
  Example ex_conv :
    match from_DFTA aut with
    | GOk (starts, tbl) =>
      length starts = 3 /\ ucontains tbl starts p_in = true /\ ucontains tbl starts p_out = false
      /\ map (fun x => uderivations tbl x p_in) starts = [0; 0; 1]
      /\ programs (starts, tbl) = 5%N
    | _ => False
    end.
  Proof. vm_compute. repeat split; reflexivity. Qed.
  Example ex_ngrams :
    match from_DFTA_ngrams 2 aut with
    | GOk (starts, tbl) =>
      length starts = 3 /\ ucontains tbl starts p_in = true /\ ucontains tbl starts p_out = false
      /\ map (fun x => uderivations tbl x p_in) starts = [0; 0; 1]
      /\ programs (starts, tbl) = 5%N /\ length tbl = 7
    | _ => False
    end.
  Proof. vm_compute. repeat split; reflexivity. Qed.
End Example.

(** * the statements of Props/C06.v *)
Lemma c06_from_dfta : forall (A : dfta sym pst) (ar : sym -> nat) starts tbl,
  deterministic A -> ranked ar A -> inj_on d2state (mentioned A) ->
  from_DFTA A = GOk (starts, tbl) ->
  forall q x, In q (mentioned A) -> d2state q = Some x -> urules_of tbl x <> None ->
  forall p, ucontains_at tbl x p = option_eqb pst_eqb (runP A p) (Some q)
            /\ (well_ranked ar p = true -> uderivations tbl x p = one_if (option_eqb pst_eqb (runP A p) (Some q))).
Proof. intros A ar starts tbl Hd Hr Hi. exact (with_nonterminal A ar Hd Hr d2state Hi starts tbl). Qed.

Lemma c06_from_dfta_language : forall (A : dfta sym pst) (ar : sym -> nat) starts tbl,
  deterministic A -> ranked ar A -> inj_on d2state (mentioned A) ->
  from_DFTA A = GOk (starts, tbl) ->
  (forall p, ucontains tbl starts p = acceptsP A p)
  /\ NoDup starts /\ (forall x, In x starts <-> exists q, In q (finals A) /\ d2state q = Some x).
Proof.
  intros A ar starts tbl Hd Hr Hi Hg. split.
  - exact (with_language A ar Hd Hr d2state Hi starts tbl Hg).
  - exact (with_starts A d2state starts tbl Hg).
Qed.

Lemma c06_unambiguous : forall (A : dfta sym pst) (ar : sym -> nat) starts tbl,
  deterministic A -> ranked ar A -> inj_on d2state (mentioned A) ->
  from_DFTA A = GOk (starts, tbl) ->
  forall p, (acceptsP A p = true -> well_ranked ar p = true)
            /\ (well_ranked ar p = true ->
                sumnat (map (fun x => uderivations tbl x p) starts) = one_if (acceptsP A p)).
Proof. intros A ar starts tbl Hd Hr Hi. exact (with_unambiguous A ar Hd Hr d2state Hi starts tbl). Qed.

Lemma c06_from_dfta_total : forall (A : dfta sym pst), from_DFTA A <> GFuel.
Proof. intros A. exact (from_dfta_total A d2state). Qed.

Lemma c06_collision :
  exists q1 q2, pshape 5 q1 /\ pshape 5 q2 /\ q1 <> q2
                /\ d2state_pinned q1 = d2state_pinned q2 /\ d2state_pinned q1 <> None.
Proof.
  exists Collision.q1, Collision.q2. split; [apply Collision.shape|]. split; [apply Collision.shape|].
  destruct Collision.collide as [H1 [H2 H3]]. auto.
Qed.

Lemma c06_pinned_language :
  exists (A : dfta sym pst) p, deterministic A /\ acceptsP A p = false
    /\ match from_DFTA_pinned A with GOk g => ucontains (snd g) (fst g) p | _ => false end = true
    /\ match from_DFTA A with GOk g => ucontains (snd g) (fst g) p | _ => true end = false.
Proof. exists Collision.aut, (PLeaf Collision.a). exact Collision.wrong_language. Qed.

Lemma c06_ngrams : forall (A : dfta sym pst) (ar : sym -> nat) n fuel starts tbl,
  deterministic A -> ranked ar A -> inj_on d2state (mentioned A) ->
  from_DFTA_ngrams_with d2state n fuel A = GOk (starts, tbl) ->
  (forall p, ucontains tbl starts p = acceptsP A p)
  /\ (forall p, well_ranked ar p = true ->
                sumnat (map (fun x => uderivations tbl x p) starts) = one_if (acceptsP A p))
  /\ (forall g q x p, In q (mentioned A) -> d2state q = Some x -> urules_of tbl (enc_nnt (g, x)) <> None ->
                      ucontains_at tbl (enc_nnt (g, x)) p = option_eqb pst_eqb (runP A p) (Some q)
                      /\ (well_ranked ar p = true ->
                          uderivations tbl (enc_nnt (g, x)) p = one_if (option_eqb pst_eqb (runP A p) (Some q))))
  /\ (forall (rk : pst -> nat) fuel', acyclic_by rk A -> (forall q, In q (mentioned A) -> rk q < fuel') ->
      ucount fuel' tbl starts = N.of_nat (length (ulanguage fuel' tbl starts))
      /\ NoDup (ulanguage fuel' tbl starts)
      /\ forall p, In p (ulanguage fuel' tbl starts) <-> acceptsP A p = true /\ normal p = true).
Proof. intros A ar n fuel starts tbl Hd Hr Hi. exact (with_ngrams A ar Hd Hr d2state Hi starts tbl n fuel). Qed.

Lemma c06_count : forall (A : dfta sym pst) (ar : sym -> nat) starts tbl,
  deterministic A -> ranked ar A -> inj_on d2state (mentioned A) ->
  from_DFTA A = GOk (starts, tbl) ->
  forall (rk : pst -> nat) fuel, acyclic_by rk A -> (forall q, In q (mentioned A) -> rk q < fuel) ->
  ucount fuel tbl starts = N.of_nat (length (ulanguage fuel tbl starts))
  /\ NoDup (ulanguage fuel tbl starts)
  /\ forall p, In p (ulanguage fuel tbl starts) <-> acceptsP A p = true /\ normal p = true.
Proof. intros A ar starts tbl Hd Hr Hi. exact (with_count A ar Hd Hr d2state Hi starts tbl). Qed.

(** the tables of the conversions have no empty alternative list *)
Lemma build_alts_nonempty {N} (encN : N -> unt) (contribN : N -> list (sym * list N)) keys :
  alts_nonempty (build encN contribN keys).
Proof.
  intros x rs H r Hr. unfold urules_of, build in H. apply (alookup_map_in unt_eqb unt_eqb_spec) in H.
  destruct H as [nu [_ [_ ->]]]. unfold rules_for in Hr. apply in_map_iff in Hr. destruct Hr as [f [<- Hf]]. cbn [snd].
  apply (proj1 (in_nub sym_eqb sym_eqb_spec _ _)) in Hf.
  destruct (alts_for contribN nu f) eqn:E; [|discriminate].
  apply (proj1 (alts_for_nil contribN nu f)) in E. contradiction.
Qed.

Lemma c06_conversions_nonempty : forall (A : dfta sym pst) n fuel starts tbl,
  (from_DFTA A = GOk (starts, tbl) \/ from_DFTA_ngrams_with d2state n fuel A = GOk (starts, tbl)) -> alts_nonempty tbl.
Proof.
  intros A n fuel starts tbl [H|H].
  - unfold from_DFTA, from_DFTA_with in H. destruct (forallb _ _); [|discriminate].
    unfold from_DFTA_gen in H. apply from_raw_inv in H. destruct H as [keys [-> _]]. apply build_alts_nonempty.
  - unfold from_DFTA_ngrams_with in H. destruct (forallb _ _); [|discriminate].
    unfold from_DFTA_ngrams_gen in H. apply from_raw_ngrams_inv in H. destruct H as [keys [-> _]]. apply build_alts_nonempty.
Qed.

Lemma c06_instance :
  deterministic Example.aut /\ ranked Example.ar Example.aut /\ inj_on d2state (mentioned Example.aut)
  /\ acyclic_by Example.rk Example.aut /\ from_DFTA Example.aut <> GErr.
Proof.
  split; [exact Example.hyp_det|]. split; [exact Example.hyp_ranked|]. split; [exact Example.hyp_inj|].
  split; [exact (proj1 Example.hyp_acyclic)|]. vm_compute. discriminate.
Qed.

(** * the n-gram work-list ends within (largest rank of a final state) + 2 rounds
    on an acyclic automaton *)
Section ClosureRank.
  Context {X : Type} (eqb : X -> X -> bool) (spec : forall a b, eqb a b = true <-> a = b) (step : X -> list X).
  Variable rkX : X -> nat.
  Hypothesis Hdec : forall x y, In y (step x) -> rkX y < rkX x.

  Lemma closure_rank : forall fuel Old New b,
    (forall x, In x Old -> forall y, In y (step x) -> In y (Old ++ New)) ->
    (forall x, In x New -> rkX x <= b) -> b < fuel -> closure eqb step fuel (Old ++ New) <> None.
  Proof.
    induction fuel as [|f IH]; intros Old New b Hold Hnew Hb; [lia|].
    cbn [closure]. destruct (fresh eqb (Old ++ New) (flat_map step (Old ++ New))) as [|n0 nr] eqn:E; [discriminate|].
    assert (Hfresh : forall y, In y (n0 :: nr) -> exists x, In x New /\ In y (step x)).
    { intros y Hy. rewrite <- E in Hy. apply (in_fresh eqb spec) in Hy. destruct Hy as [Hy Hn].
      apply in_flat_map in Hy. destruct Hy as [x [Hx Hy]]. apply in_app_or in Hx. destruct Hx as [Hx|Hx].
      - exfalso. apply Hn. eapply Hold; eauto.
      - eauto. }
    assert (Hb1 : 1 <= b).
    { destruct (Hfresh n0 (or_introl eq_refl)) as [x [Hx Hy]]. specialize (Hnew x Hx). specialize (Hdec _ _ Hy). lia. }
    apply (IH (Old ++ New) (n0 :: nr) (b - 1)).
    - intros x Hx y Hy. destruct (memb eqb y (Old ++ New)) eqn:Em.
      + apply in_or_app. left. apply (memb_spec eqb spec). exact Em.
      + apply in_or_app. right. rewrite <- E. apply (in_fresh eqb spec). split.
        * apply in_flat_map. eauto.
        * intros Hin. apply (memb_spec eqb spec) in Hin. congruence.
    - intros y Hy. destruct (Hfresh y Hy) as [x [Hx Hyx]]. specialize (Hnew x Hx). specialize (Hdec _ _ Hyx). lia.
    - lia.
  Qed.
End ClosureRank.

Section NgTotal.
  Context {Q : Type} (qeqb : Q -> Q -> bool).
  Hypothesis qspec : forall a b, qeqb a b = true <-> a = b.
  Variables (A : dfta sym Q) (d2 : Q -> unt) (rk : Q -> nat) (n : nat).
  Hypothesis Hinj : forall q q', In q (mentioned A) -> In q' (mentioned A) -> d2 q = d2 q' -> q = q'.
  Hypothesis Hac : acyclic_by rk A.

  Definition rku (x : unt) : nat :=
    match find (fun q => unt_eqb (d2 q) x) (mentioned A) with Some q => rk q | None => 0 end.

  Lemma rku_d2 q : In q (mentioned A) -> rku (d2 q) = rk q.
  Proof.
    intros Hq. unfold rku. destruct (find _ (mentioned A)) as [q'|] eqn:E.
    - apply find_some in E. destruct E as [Hq' E]. apply unt_eqb_spec in E. f_equal. apply Hinj; auto.
    - exfalso. apply (find_none _ _ E q) in Hq. rewrite (eqb_refl' unt_eqb unt_eqb_spec) in Hq. discriminate.
  Qed.

  Lemma ng_step_decreases nu y : In y (succs (contrib_ng n (raw_rules d2 A)) nu) -> rku (snd y) < rku (snd nu).
  Proof.
    intros H. unfold succs in H. apply in_flat_map in H. destruct H as [c [Hc Hy]].
    unfold contrib_ng in Hc. apply in_map_iff in Hc. destruct Hc as [c0 [<- Hc0]]. cbn [snd] in Hy.
    unfold decorate in Hy. apply in_map_iff in Hy. destruct Hy as [[i u] [<- Hiu]]. cbn [snd fst].
    assert (Hu : In u (snd c0)).
    { clear - Hiu. unfold Cfg.enumerate in Hiu. revert Hiu. generalize 0. induction (snd c0) as [|z r IH]; intros k H; cbn in *; [exact H|].
      destruct H as [H|H]; [inversion H; auto|right; eapply IH; eauto]. }
    unfold contrib in Hc0. apply in_map_iff in Hc0. destruct Hc0 as [r [<- Hr]]. apply filter_In in Hr.
    destruct Hr as [Hr Hd]. apply unt_eqb_spec in Hd. unfold raw_rules in Hr. apply in_map_iff in Hr.
    destruct Hr as [[[l args] d] [<- Hin]]. cbn [fst snd] in *. apply in_map_iff in Hu. destruct Hu as [a [<- Ha]].
    rewrite <- Hd. rewrite (rku_d2 a) by (eapply mentioned_arg; eauto). rewrite (rku_d2 d) by (eapply mentioned_dst; eauto).
    eapply Hac; eauto.
  Qed.

  Theorem ngrams_total fuel : (forall q, In q (finals A) -> rk q < fuel) ->
    from_DFTA_ngrams_gen d2 n fuel A <> GFuel.
  Proof.
    intros Hb. unfold from_DFTA_ngrams_gen, from_raw_ngrams.
    destruct (nub unt_eqb (map d2 (finals A))) as [|s0 sr] eqn:Es; [discriminate|].
    match goal with |- context [closure ?e ?st ?f ?R] => destruct (closure e st f R) as [keys|] eqn:Ec end; [discriminate|].
    exfalso. revert Ec.
    assert (Hmax : forall x, In x (s0 :: sr) -> rku x <= fuel - 1).
    { intros x Hx. rewrite <- Es in Hx. apply (proj1 (in_nub unt_eqb unt_eqb_spec _ _)) in Hx.
      apply in_map_iff in Hx. destruct Hx as [q [<- Hq]]. rewrite rku_d2 by (apply mentioned_final; exact Hq).
      specialize (Hb q Hq). lia. }
    assert (Hf : 0 < fuel).
    { assert (Hin : In s0 (nub unt_eqb (map d2 (finals A)))) by (rewrite Es; left; reflexivity).
      apply (proj1 (in_nub unt_eqb unt_eqb_spec _ _)) in Hin. apply in_map_iff in Hin. destruct Hin as [q [_ Hq]].
      specialize (Hb q Hq). lia. }
    apply (closure_rank nnt_eqb nnt_eqb_spec _ (fun nu => rku (snd nu)) ng_step_decreases fuel []
                        (map (fun x : unt => (([] : ctx), x)) (s0 :: sr)) (fuel - 1)).
    - intros x [].
    - intros nu Hnu. apply in_map_iff in Hnu. destruct Hnu as [x [<- Hx]]. cbn [snd]. apply Hmax. exact Hx.
    - lia.
  Qed.
End NgTotal.

Lemma c06_ngrams_total : forall (A : dfta sym pst) (rk : pst -> nat) n fuel,
  inj_on d2state (mentioned A) -> acyclic_by rk A -> (forall q, In q (finals A) -> rk q < fuel) ->
  from_DFTA_ngrams_with d2state n fuel A <> GFuel.
Proof.
  intros A rk n fuel Hi Hac Hb. unfold from_DFTA_ngrams_with.
  destruct (forallb (defined d2state) (mentioned A)) eqn:E; [|discriminate].
  assert (Hdef : forall q, In q (mentioned A) -> d2state q = Some (total d2state q)).
  { intros q Hq. rewrite forallb_forall in E. specialize (E q Hq). unfold defined, total in *.
    destruct (d2state q); [reflexivity|discriminate]. }
  apply (ngrams_total A (total d2state) rk n (total_inj A d2state Hi Hdef) Hac fuel Hb).
Qed.
