(** Concrete instances for property C13: non-vacuity examples of the theorems'
    hypotheses and the witnesses of the _refuted theorems (defects of the
    pinned tree, replayed by vm_compute on the faithful model). *)
From Coq Require Import ZArith NArith List Bool Lia Arith.
From PS Require Import Base.ListX Base.Sexp Base.Ty Base.Value Base.Prog Gram.Ttcfg Gram.TtcfgProofs.
Import ListNotations.

Definition tINT := TPrim 0.
Definition tBOOL := TPrim 1.
Definition tA := TPrim 10.
Definition tB := TPrim 11.
Definition tR := TPrim 12.
Definition tT := TPrim 13.
Definition tU := TPrim 14.
Definition fn (args : list ty) (r : ty) : ty := function_type args r.
Definition leaf (n : N) (t : ty) : prog := PLeaf (SPrim n t).
Definition app (n : N) (t : ty) (l : list prog) : prog := PFun (SPrim n t) l.
Definition idord : list sym -> list sym := fun l => l.

(** every repair except the builder's visited set *)
Definition shortcut_only : fixes := {| fx_forbid := true; fx_taken := true; fx_varapp := true; fx_confkey := false |}.

Definition size_in (fx : fixes) (P : bparams) (m : nat) (p : prog) : option bool :=
  match size_constraint fx 200 idord P m with
  | Some g => Some (gcontains ctx (nat * nat) (of_table ctx (nat * nat) ctx_eqb nat2_eqb g) (size_start P) p)
  | None => None
  end.
Definition occ_in (fx : fixes) (P : bparams) (prim : N) (k : nat) (p : prog) : option bool :=
  match at_most_k fx 200 idord P prim k with
  | Some g => Some (gcontains ctx nat (of_table ctx nat ctx_eqb Nat.eqb g) (occ_start P k) p)
  | None => None
  end.
Definition size_programs (fx : fixes) (count_fixed : bool) (P : bparams) (m : nat) : option N :=
  match size_constraint fx 200 idord P m with
  | Some g => count_of ctx (nat * nat) ctx_eqb nat2_eqb count_fixed 200 (of_table ctx (nat * nat) ctx_eqb nat2_eqb g) (size_start P)
  | None => None
  end.

(* ---------------------------------------------------------------------- *)
(** W1: the visited-rule shortcut.  f, h : A -> B -> R, g : T -> A, x : T, b : B. *)
Definition P1 : bparams :=
  {| b_dsl := [(100%N, fn [tA; tB] tR); (101%N, fn [tA; tB] tR); (102%N, fn [tT] tA); (103%N, tT); (104%N, tB)];
     b_forb := []; b_request := tR; b_ngram := 2 |}.
Definition p1 (head : N) : prog :=
  app head (fn [tA; tB] tR) [app 102 (fn [tT] tA) [leaf 103 tT]; leaf 104 tB].

Lemma shortcut_witness :
  sized true P1 4 (p1 100) /\ size_in shortcut_only P1 4 (p1 100) = Some false /\
  size_in pinned P1 4 (p1 100) = Some false /\ size_in all_fixed P1 4 (p1 100) = Some true /\
  size_in all_fixed P1 4 (p1 101) = Some true /\ size_in pinned P1 4 (p1 101) = Some true.
Proof.
  split; [|vm_compute; auto].
  apply (size_oracle_language all_fixed P1 eq_refl (le_n 2) eq_refl). vm_compute. reflexivity.
Qed.

Lemma shortcut_occ_witness :
  at_most true P1 102 1 (p1 100) /\ occ_in shortcut_only P1 102 1 (p1 100) = Some false /\
  occ_in all_fixed P1 102 1 (p1 100) = Some true.
Proof.
  split; [|vm_compute; auto].
  apply (occ_oracle_language all_fixed P1 eq_refl (le_n 2)). vm_compute. reflexivity.
Qed.

(* ---------------------------------------------------------------------- *)
(** W2: forbidden patterns.  + : int -> int -> int, 1, 0 : int; ("+", 1) forbids "0". *)
Definition P2 : bparams :=
  {| b_dsl := [(100%N, fn [tINT; tINT] tINT); (101%N, tINT); (102%N, tINT)];
     b_forb := [((100%N, 1), [102%N])]; b_request := tINT; b_ngram := 2 |}.
Definition p2 : prog := app 100 (fn [tINT; tINT] tINT) [leaf 101 tINT; leaf 102 tINT].

Lemma forbidden_witness :
  ~ forb_free P2 None p2 /\ size_in pinned P2 3 p2 = Some true /\ occ_in pinned P2 100 1 p2 = Some true /\
  size_in all_fixed P2 3 p2 = Some false /\ occ_in all_fixed P2 100 1 p2 = Some false.
Proof.
  split; [|vm_compute; auto].
  cbn. intros (_ & _ & H & _). apply H. left; reflexivity.
Qed.

(* ---------------------------------------------------------------------- *)
(** W3: a primitive used as a value.  map : (int -> int) -> int -> int, inc : int -> int, 1 : int. *)
Definition P3 : bparams :=
  {| b_dsl := [(100%N, fn [fn [tINT] tINT; tINT] tINT); (101%N, fn [tINT] tINT); (102%N, tINT)];
     b_forb := []; b_request := tINT; b_ngram := 2 |}.
Definition p3 : prog :=
  app 100 (fn [fn [tINT] tINT; tINT] tINT) [leaf 101 (fn [tINT] tINT); leaf 102 tINT].

Lemma higher_order_witness :
  sized true P3 3 p3 /\ size_in pinned P3 3 p3 = Some false /\ size_in all_fixed P3 3 p3 = Some true.
Proof.
  split; [|vm_compute; auto].
  apply (size_oracle_language all_fixed P3 eq_refl (le_n 2) eq_refl). vm_compute. reflexivity.
Qed.

(* ---------------------------------------------------------------------- *)
(** W4/W5: an uninhabited later argument.  q : int -> U -> int, 1 : int. *)
Definition P4 : bparams :=
  {| b_dsl := [(100%N, fn [tINT; tU] tINT); (101%N, tINT)]; b_forb := []; b_request := tINT; b_ngram := 2 |}.
Definition q4 : sym := SPrim 100 (fn [tINT; tU] tINT).

Definition lang_size (fx : fixes) (P : bparams) (m : nat) : option nat :=
  match size_constraint fx 200 idord P m with
  | Some g => Some (length (glang_at ctx (nat * nat) 200 (of_table ctx (nat * nat) ctx_eqb nat2_eqb g) (size_start P)))
  | None => None
  end.

Lemma count_witness :
  lang_size pinned P4 3 = Some 1 /\ size_programs pinned false P4 3 = Some 2%N /\
  lang_size all_fixed P4 3 = Some 1 /\ size_programs all_fixed true P4 3 = Some 1%N.
Proof. vm_compute. auto. Qed.

(** the counter with an arity-3 primitive (pending arguments popped from the wrong end):
    f : int -> int -> int -> int, 1 : int, h : int -> int; request int -> int, size 4 *)
Definition P5 : bparams :=
  {| b_dsl := [(100%N, fn [tINT; tINT; tINT] tINT); (101%N, tINT); (102%N, fn [tINT] tINT)];
     b_forb := []; b_request := fn [tINT] tINT; b_ngram := 2 |}.
Lemma count_arity3_witness :
  lang_size pinned P5 4 = Some 16 /\ size_programs pinned false P5 4 = Some 12%N /\
  size_programs all_fixed true P5 4 = Some 16%N.
Proof. vm_compute. auto. Qed.

(** the empty language is reported as one program *)
Definition P6 : bparams := {| b_dsl := [(100%N, fn [tU] tINT)]; b_forb := []; b_request := tINT; b_ngram := 2 |}.
Lemma count_empty_witness :
  lang_size pinned P6 3 = Some 0 /\ size_programs pinned false P6 3 = Some 1%N /\ size_programs all_fixed true P6 3 = Some 0%N.
Proof. vm_compute. auto. Qed.

(** clean keeps q at the start symbol although no member starts with q *)
Definition cleaned4 : option (gtable ctx (nat * nat)) := size_constraint all_fixed 200 idord P4 3.

Lemma no_U_nonterminal :
  match cleaned4 with
  | Some g => forallb (fun e : gnt ctx (nat * nat) * list (grule ctx (nat * nat)) => negb (ty_eqb (fst (fst (fst e))) tU)) g = true
  | None => False
  end.
Proof. vm_compute. reflexivity. Qed.

Lemma dead_end_witness :
  exists g, cleaned4 = Some g /\
            (exists r, grule_of ctx (nat * nat) (of_table ctx (nat * nat) ctx_eqb nat2_eqb g) (size_start P4) q4 = Some r) /\
            (forall ps, gcontains ctx (nat * nat) (of_table ctx (nat * nat) ctx_eqb nat2_eqb g) (size_start P4) (PFun q4 ps) = false) /\
            gcontains ctx (nat * nat) (of_table ctx (nat * nat) ctx_eqb nat2_eqb g) (size_start P4) (PLeaf q4) = false /\
            gcomplete ctx (nat * nat) 200 (of_table ctx (nat * nat) ctx_eqb nat2_eqb g) (size_start P4) = false.
Proof.
  pose proof no_U_nonterminal as HU.
  destruct cleaned4 as [g|] eqn:E; [|destruct HU].
  exists g. split; auto.
  assert (Hg : g = match cleaned4 with Some g => g | None => [] end) by (rewrite E; reflexivity).
  assert (HnoU : forall s y, of_table ctx (nat * nat) ctx_eqb nat2_eqb g (tU, s, y) = None).
  { intros s y. unfold of_table. clear Hg E. induction g as [|[[[t s0] y0] rs] g' IH]; cbn; auto.
    cbn in HU. apply andb_true_iff in HU as [H1 H2]. apply negb_true_iff in H1.
    unfold gnt_eqb; cbn [fst snd]. destruct (ty_eqb tU t) eqn:Et.
    - apply ty_eqb_spec in Et; subst t. cbn in H1. discriminate.
    - cbn [andb]. apply IH. exact H2. }
  split; [|split; [|split]].
  - rewrite Hg. vm_compute. eexists; reflexivity.
  - intros ps. rewrite (gcontains_run ctx (nat * nat)). rewrite (run_fun ctx (nat * nat)).
    assert (Hr : grule_of ctx (nat * nat) (of_table ctx (nat * nat) ctx_eqb nat2_eqb g) (size_start P4) q4
                 = Some ([(tINT, [(q4, 0)]); (tU, [(q4, 1)])], (1, 2))) by (rewrite Hg; vm_compute; reflexivity).
    rewrite Hr. set (Rg := of_table ctx (nat * nat) ctx_eqb nat2_eqb g) in *.
    destruct ps as [|a [|b pr]]; cbn [run_args]; auto.
    + match goal with |- context [run ?a1 ?b1 ?c1 ?d1 ?e1] => destruct (run a1 b1 c1 d1 e1) end; reflexivity.
    + match goal with |- context [run ?a1 ?b1 ?c1 ?d1 ?e1] => destruct (run a1 b1 c1 d1 e1) as [y1|] end; auto.
      assert (Hb : run ctx (nat * nat) Rg (tU, [(q4, 1)], y1) b = None).
      { destruct b as [s|f l]; [rewrite (run_leaf ctx (nat * nat))|rewrite (run_fun ctx (nat * nat))];
          unfold grule_of; rewrite HnoU; reflexivity. }
      match goal with |- context [run ?a1 ?b1 ?c1 ?d1 ?e1] =>
                      replace (run a1 b1 c1 d1 e1) with (@None (nat * nat)) by (symmetry; exact Hb) end.
      reflexivity.
  - rewrite Hg. vm_compute. reflexivity.
  - rewrite Hg. vm_compute. reflexivity.
Qed.

(* ---------------------------------------------------------------------- *)
(** W6: the type request.  + : int -> int -> int, 1 : int; request bool -> int -> int. *)
Definition P7 : bparams :=
  {| b_dsl := [(100%N, fn [tINT; tINT] tINT); (101%N, tINT)]; b_forb := []; b_request := fn [tBOOL; tINT] tINT; b_ngram := 2 |}.
Lemma request_witness :
  match size_raw pinned 200 P7 3 with
  | Some raw => reported_request false P7 raw = tINT /\ reported_request true P7 raw = fn [tBOOL; tINT] tINT
  | None => False
  end.
Proof. vm_compute. auto. Qed.

(* ---------------------------------------------------------------------- *)
(** Non-vacuity of the product theorem: size 5 x at most one occurrence of + over
    + : int -> int -> int, 1 : int, neg : bool -> int, t : bool. *)
Definition P8 : bparams :=
  {| b_dsl := [(100%N, fn [tINT; tINT] tINT); (101%N, tINT); (102%N, fn [tBOOL] tINT); (103%N, tBOOL)];
     b_forb := []; b_request := tINT; b_ngram := 2 |}.
Definition product8 :=
  match size_constraint all_fixed 200 idord P8 5, at_most_k all_fixed 200 idord P8 100 1 with
  | Some g1, Some g2 =>
    match gmul ctx (nat * nat) ctx nat ctx_eqb nat2_eqb ctx_eqb Nat.eqb 200 idord g1 (size_start P8) g2 (occ_start P8 1) with
    | Some g => Some (g1, g2, g)
    | None => None
    end
  | _, _ => None
  end.
Lemma product_example :
  match product8 with
  | Some (g1, g2, g) =>
    compatb ctx (nat * nat) ctx nat g1 g2 = true /\
    length (glang_at (ctx * ctx) ((nat * nat) * nat) 200
                     (of_table (ctx * ctx) ((nat * nat) * nat) (pair_eqb ctx_eqb ctx_eqb) (pair_eqb nat2_eqb Nat.eqb) g)
                     (mul_start ctx (nat * nat) ctx nat (size_start P8) (occ_start P8 1))) = 6 /\
    length (glang_at ctx (nat * nat) 200 (of_table ctx (nat * nat) ctx_eqb nat2_eqb g1) (size_start P8)) = 8
  | None => False
  end.
Proof. vm_compute. auto. Qed.

(* ---------------------------------------------------------------------- *)
(** * The statements quoted by Props/C13.v *)

(** the visited-rule shortcut loses a sized program, with every other repair applied and on the pinned tree *)
Lemma shortcut_refuted :
  exists P m p, sized true P m p /\ size_in shortcut_only P m p = Some false /\ size_in pinned P m p = Some false /\
                size_in all_fixed P m p = Some true.
Proof. exists P1, 4, (p1 100). pose proof shortcut_witness. tauto. Qed.

Lemma shortcut_occ_refuted :
  exists P prim k p, at_most true P prim k p /\ occ_in shortcut_only P prim k p = Some false /\
                     occ_in all_fixed P prim k p = Some true.
Proof. exists P1, 102%N, 1, (p1 100). exact shortcut_occ_witness. Qed.

(** the pinned builders contain a program with a forbidden pattern *)
Lemma forbidden_refuted :
  exists P m prim k p, ~ forb_free P None p /\ 2 <= b_ngram P /\
                       size_in pinned P m p = Some true /\ occ_in pinned P prim k p = Some true /\
                       size_in all_fixed P m p = Some false /\ occ_in all_fixed P prim k p = Some false.
Proof. exists P2, 3, 100%N, 1, p2. pose proof forbidden_witness. cbn [b_ngram P2]. repeat split; try tauto; auto. Qed.

(** the pinned size grammar misses a sized program that uses a primitive as a value *)
Lemma higher_order_refuted :
  exists P m p, sized true P m p /\ size_in pinned P m p = Some false /\ size_in all_fixed P m p = Some true.
Proof. exists P3, 3, p3. exact higher_order_witness. Qed.

(** the pinned programs() differs from the size of the language: dead ends counted
    (2 for 1), pending arguments popped from the wrong end (12 for 16), empty language (1 for 0) *)
Lemma count_refuted :
  (exists P m, lang_size pinned P m = Some 1 /\ size_programs pinned false P m = Some 2%N /\
               size_programs all_fixed true P m = Some 1%N) /\
  (exists P m, lang_size pinned P m = Some 16 /\ size_programs pinned false P m = Some 12%N /\
               size_programs all_fixed true P m = Some 16%N) /\
  (exists P m, lang_size pinned P m = Some 0 /\ size_programs pinned false P m = Some 1%N /\
               size_programs all_fixed true P m = Some 0%N).
Proof.
  split; [|split].
  - exists P4, 3. pose proof count_witness. tauto.
  - exists P5, 4. exact count_arity3_witness.
  - exists P6, 3. exact count_empty_witness.
Qed.

(** after clean a rule of the start symbol survives although no program derived with it can be completed *)
Lemma clean_complete_refuted :
  exists P m g q,
    size_constraint all_fixed 200 idord P m = Some g /\
    (exists r, grule_of ctx (nat * nat) (of_table ctx (nat * nat) ctx_eqb nat2_eqb g) (size_start P) q = Some r) /\
    (forall ps, gcontains ctx (nat * nat) (of_table ctx (nat * nat) ctx_eqb nat2_eqb g) (size_start P) (PFun q ps) = false) /\
    gcontains ctx (nat * nat) (of_table ctx (nat * nat) ctx_eqb nat2_eqb g) (size_start P) (PLeaf q) = false /\
    gcomplete ctx (nat * nat) 200 (of_table ctx (nat * nat) ctx_eqb nat2_eqb g) (size_start P) = false.
Proof. destruct dead_end_witness as (g & H). exists P4, 3, g, q4. exact H. Qed.

(** the pinned builders report a guessed request *)
Lemma type_request_refuted :
  exists P m raw, size_raw pinned 200 P m = Some raw /\ reported_request false P raw <> b_request P /\
                  reported_request true P raw = b_request P.
Proof.
  pose proof request_witness as H. destruct (size_raw pinned 200 P7 3) as [raw|] eqn:E; [|destruct H].
  exists P7, 3, raw. destruct H as [H1 H2]. repeat split; auto. rewrite H1. cbn. discriminate.
Qed.

Lemma type_request_recorded {S T} (P : bparams) (raw : gtable S T) : reported_request true P raw = b_request P.
Proof. reflexivity. Qed.

(** Non-vacuity of C13_count_tables: the cleaned size-4 table of P5 has one entry per
    key and the repaired programs() returns its 16 programs. *)
Lemma count_example :
  match size_constraint all_fixed 200 idord P5 4 with
  | Some g =>
    table_nodupb ctx (nat * nat) ctx_eqb nat2_eqb g = true /\
    count_of ctx (nat * nat) ctx_eqb nat2_eqb true 200 (of_table ctx (nat * nat) ctx_eqb nat2_eqb g) (size_start P5) = Some 16%N /\
    gcount ctx (nat * nat) nat2_eqb 200 (of_table ctx (nat * nat) ctx_eqb nat2_eqb g) (size_start P5) = Some 16%N
  | None => False
  end.
Proof. vm_compute. auto. Qed.

(** Non-vacuity of C13_clean_language: a raw table on which clean removes rules
    (the empty U non-terminal of P4 and nothing of the language). *)
Lemma clean_example :
  match size_raw all_fixed 200 P4 3 with
  | Some raw =>
    match gclean ctx (nat * nat) ctx_eqb nat2_eqb 200 idord raw (size_start P4) with
    | Some g => length raw = 3 /\ length g = 2
    | None => False
    end
  | None => False
  end.
Proof. vm_compute. auto. Qed.
