(** Generic deterministic (tree-traversing) grammars given as explicit rule
    tables: model of DetGrammar / TTCFG (det_grammar.py, ttcfg.py) membership,
    derivation threading, languages, and of ProbDetGrammar (tagged_det_grammar.py)
    probabilities over exact rationals. *)
From Coq Require Import ZArith NArith QArith List Bool Lia.
From PS Require Import Base.ListX Base.Sexp Base.Ty Base.Value Base.Prog.
Import ListNotations.

Definition state := sexp.                              (* opaque S and T components *)
Definition nt : Type := ty * state * state.            (* (type, (S, T)) *)
Definition argnt : Type := ty * state.                 (* (type, S) as stored in a rule *)
Definition rhs : Type := list argnt * state.           (* argument list, T after the symbol *)
Definition drule : Type := sym * rhs.
Definition table : Type := list (nt * list drule).

Definition nt_eqb (a b : nt) : bool :=
  ty_eqb (fst (fst a)) (fst (fst b)) && sexp_eqb (snd (fst a)) (snd (fst b)) && sexp_eqb (snd a) (snd b).

Definition rules_of (tbl : table) (x : nt) : option (list drule) := alookup nt_eqb x tbl.
Definition rule_of (tbl : table) (x : nt) (s : sym) : option rhs :=
  match rules_of tbl x with Some rs => alookup sym_eqb s rs | None => None end.

(** Position of the traversal: at a non-terminal, or past the end (the
    (UnknownType, ...) marker of TTCFG.derive). *)
Inductive pos : Type := At (x : nt) | End.

(** TTCFG.derive *)
Definition derive (info : list argnt) (r : rhs) : list argnt * pos :=
  match fst r ++ info with
  | [] => ([], End)
  | (t, s) :: rest => (rest, At (t, s, snd r))
  end.

(** DetGrammar.__contains_rec__ (with the arity test). *)
Fixpoint contains_rec (tbl : table) (p : prog) (here : pos) (info : list argnt) : option (list argnt * pos) :=
  match here with
  | End => None
  | At x =>
    match p with
    | PLeaf s =>
      match rule_of tbl x s with
      | Some r => if Nat.eqb (length (fst r)) 0 then Some (derive info r) else None
      | None => None
      end
    | PFun f args =>
      match rule_of tbl x f with
      | Some r =>
        if Nat.eqb (length (fst r)) (length args) then
          (fix go (args : list prog) (st : list argnt * pos) {struct args} : option (list argnt * pos) :=
             match args with
             | [] => Some st
             | a :: ar =>
               match contains_rec tbl a (snd st) (fst st) with
               | Some st' => go ar st'
               | None => None
               end
             end) args (derive info r)
        else None
      | None => None
      end
    end
  end.

Definition contains (tbl : table) (start : nt) (p : prog) : bool :=
  match contains_rec tbl p (At start) [] with Some _ => true | None => false end.

(** ---- structural view: programs derivable at a non-terminal together with
    the T state reached after them ---- *)
Fixpoint lang_at (fuel : nat) (tbl : table) (x : nt) : list (prog * state) :=
  match fuel with
  | O => []
  | S f =>
    match rules_of tbl x with
    | None => []
    | Some rs =>
      flat_map (fun r : drule =>
        let '(s, (args, y)) := r in
        match args with
        | [] => [(PLeaf s, y)]
        | _ =>
          map (fun ay => (PFun s (fst ay), snd ay))
              ((fix seqs (args : list argnt) (y : state) : list (list prog * state) :=
                  match args with
                  | [] => [([], y)]
                  | (t, sa) :: ar =>
                    flat_map (fun py => map (fun ly => (fst py :: fst ly, snd ly)) (seqs ar (snd py)))
                             (lang_at f tbl (t, sa, y))
                  end) args y)
        end) rs
    end
  end.

Definition language (fuel : nat) (tbl : table) (start : nt) : list prog := map fst (lang_at fuel tbl start).

(** ---- probabilities ---- *)
Definition wtable : Type := list (nt * list (sym * Q)).
Definition weight_of (w : wtable) (x : nt) (s : sym) : option Q :=
  match alookup nt_eqb x w with Some ws => alookup sym_eqb s ws | None => None end.

(** reduce_derivations with multiplication: Some (q, info, pos) or None for a KeyError. *)
Fixpoint prob_rec (tbl : table) (w : wtable) (p : prog) (here : pos) (info : list argnt) : option (Q * (list argnt * pos)) :=
  match here with
  | End => None
  | At x =>
    match p with
    | PLeaf s =>
      match rule_of tbl x s, weight_of w x s with
      | Some r, Some q => Some (q, derive info r)
      | _, _ => None
      end
    | PFun f args =>
      match rule_of tbl x f, weight_of w x f with
      | Some r, Some q =>
        (fix go (args : list prog) (acc : Q * (list argnt * pos)) {struct args} : option (Q * (list argnt * pos)) :=
           match args with
           | [] => Some acc
           | a :: ar =>
             match prob_rec tbl w a (snd (snd acc)) (fst (snd acc)) with
             | Some (qa, st') => go ar (fst acc * qa, st')
             | None => None
             end
           end) args (q, derive info r)
      | _, _ => None
      end
    end
  end.

(** ProbDetGrammar.probability: 0 outside the language. *)
Definition probability (tbl : table) (w : wtable) (start : nt) (p : prog) : Q :=
  if contains tbl start p then
    match prob_rec tbl w p (At start) [] with Some (q, _) => q | None => 0 end
  else 0.

Definition qsum (l : list Q) : Q := fold_right Qplus 0 l.

(** uniform() and normalise() *)
Definition uniform (tbl : table) : wtable :=
  map (fun xr : nt * list drule =>
         (fst xr, map (fun r : drule => (fst r, 1 / inject_Z (Z.of_nat (length (snd xr))))) (snd xr))) tbl.
Definition normalise (w : wtable) : wtable :=
  map (fun xw : nt * list (sym * Q) =>
         let s := qsum (map snd (snd xw)) in
         (fst xw, map (fun sq : sym * Q => (fst sq, snd sq / s)) (snd xw))) w.

(** Well-formedness of a weighted table along everything reachable from x:
    rules exist, the weights of the rules are positive and sum to 1, and every
    sequence of argument non-terminals that the threading can produce is again
    well formed. *)
Definition weights_ok (tbl : table) (w : wtable) (x : nt) (rs : list drule) : bool :=
  forallb (fun r : drule => match weight_of w x (fst r) with Some q => Qle_bool 0 q && negb (Qeq_bool q 0) | None => false end) rs
  && Qeq_bool (qsum (map (fun r : drule => match weight_of w x (fst r) with Some q => q | None => 0 end) rs)) 1
  && nodupb sym_eqb (map fst rs).

Fixpoint wf_at (fuel : nat) (tbl : table) (w : wtable) (x : nt) : bool :=
  match fuel with
  | O => false
  | S f =>
    match rules_of tbl x with
    | None => false
    | Some rs =>
      weights_ok tbl w x rs &&
      forallb (fun r : drule =>
        let '(s, (args, y)) := r in
        (fix wf_seq (args : list argnt) (y : state) : bool :=
           match args with
           | [] => true
           | (t, sa) :: ar =>
             wf_at f tbl w (t, sa, y) && forallb (fun py => wf_seq ar (snd py)) (lang_at f tbl (t, sa, y))
           end) args y) rs
    end
  end.
