(** Generic deterministic (tree-traversing) grammars given as explicit rule
    tables: model of DetGrammar / TTCFG (det_grammar.py, ttcfg.py) membership,
    derivation threading, languages, and of ProbDetGrammar (tagged_det_grammar.py)
    probabilities over exact rationals. *)
From Coq Require Import ZArith NArith QArith List Bool Lia.
From PS Require Import Base.ListX Base.Sexp Base.Ty Base.Value Base.Prog.
Import ListNotations.

Definition state := sexp.                              (* opaque S and T components *)
Definition nt : Type := ty * state * state.            (* (type, (S, T)) *)
Definition argnt : Type := ty * state.                 (* (type, S) as stored in a rule *)
Definition rhs : Type := list argnt * state.           (* argument list, T after the symbol *)
Definition drule : Type := sym * rhs.
Definition table : Type := list (nt * list drule).

Definition nt_eqb (a b : nt) : bool :=
  ty_eqb (fst (fst a)) (fst (fst b)) && sexp_eqb (snd (fst a)) (snd (fst b)) && sexp_eqb (snd a) (snd b).

Definition rules_of (tbl : table) (x : nt) : option (list drule) := alookup nt_eqb x tbl.
Definition rule_of (tbl : table) (x : nt) (s : sym) : option rhs :=
  match rules_of tbl x with Some rs => alookup sym_eqb s rs | None => None end.

(** Position of the traversal: at a non-terminal, or past the end (the
    (UnknownType, ...) marker of TTCFG.derive). *)
Inductive pos : Type := At (x : nt) | End.

(** TTCFG.derive *)
Definition derive (info : list argnt) (r : rhs) : list argnt * pos :=
  match fst r ++ info with
  | [] => ([], End)
  | (t, s) :: rest => (rest, At (t, s, snd r))
  end.

(** DetGrammar.__contains_rec__ (with the arity test). *)
Fixpoint contains_rec (tbl : table) (p : prog) (here : pos) (info : list argnt) : option (list argnt * pos) :=
  match here with
  | End => None
  | At x =>
    match p with
    | PLeaf s =>
      match rule_of tbl x s with
      | Some r => if Nat.eqb (length (fst r)) 0 then Some (derive info r) else None
      | None => None
      end
    | PFun f args =>
      match rule_of tbl x f with
      | Some r =>
        if Nat.eqb (length (fst r)) (length args) then
          (fix go (args : list prog) (st : list argnt * pos) {struct args} : option (list argnt * pos) :=
             match args with
             | [] => Some st
             | a :: ar =>
               match contains_rec tbl a (snd st) (fst st) with
               | Some st' => go ar st'
               | None => None
               end
             end) args (derive info r)
        else None
      | None => None
      end
    end
  end.

Definition contains (tbl : table) (start : nt) (p : prog) : bool :=
  match contains_rec tbl p (At start) [] with Some _ => true | None => false end.

(** ---- structural view: programs derivable at a non-terminal together with
    the T state reached after them ---- *)
Fixpoint lang_at (fuel : nat) (tbl : table) (x : nt) : list (prog * state) :=
  match fuel with
  | O => []
  | S f =>
    match rules_of tbl x with
    | None => []
    | Some rs =>
      flat_map (fun r : drule =>
        let '(s, (args, y)) := r in
        match args with
        | [] => [(PLeaf s, y)]
        | _ =>
          map (fun ay => (PFun s (fst ay), snd ay))
              ((fix seqs (args : list argnt) (y : state) : list (list prog * state) :=
                  match args with
                  | [] => [([], y)]
                  | (t, sa) :: ar =>
                    flat_map (fun py => map (fun ly => (fst py :: fst ly, snd ly)) (seqs ar (snd py)))
                             (lang_at f tbl (t, sa, y))
                  end) args y)
        end) rs
    end
  end.

Definition language (fuel : nat) (tbl : table) (start : nt) : list prog := map fst (lang_at fuel tbl start).

(** ---- probabilities ---- *)
Definition wtable : Type := list (nt * list (sym * Q)).
Definition weight_of (w : wtable) (x : nt) (s : sym) : option Q :=
  match alookup nt_eqb x w with Some ws => alookup sym_eqb s ws | None => None end.

(** reduce_derivations with multiplication: Some (q, info, pos) or None for a KeyError. *)
Fixpoint prob_rec (tbl : table) (w : wtable) (p : prog) (here : pos) (info : list argnt) : option (Q * (list argnt * pos)) :=
  match here with
  | End => None
  | At x =>
    match p with
    | PLeaf s =>
      match rule_of tbl x s, weight_of w x s with
      | Some r, Some q => Some (q, derive info r)
      | _, _ => None
      end
    | PFun f args =>
      match rule_of tbl x f, weight_of w x f with
      | Some r, Some q =>
        (fix go (args : list prog) (acc : Q * (list argnt * pos)) {struct args} : option (Q * (list argnt * pos)) :=
           match args with
           | [] => Some acc
           | a :: ar =>
             match prob_rec tbl w a (snd (snd acc)) (fst (snd acc)) with
             | Some (qa, st') => go ar (fst acc * qa, st')
             | None => None
             end
           end) args (q, derive info r)
      | _, _ => None
      end
    end
  end.

(** ProbDetGrammar.probability: 0 outside the language. *)
Definition probability (tbl : table) (w : wtable) (start : nt) (p : prog) : Q :=
  if contains tbl start p then
    match prob_rec tbl w p (At start) [] with Some (q, _) => q | None => 0 end
  else 0.

Definition qsum (l : list Q) : Q := fold_right Qplus 0 l.

(** uniform() and normalise() *)
Definition uniform (tbl : table) : wtable :=
  map (fun xr : nt * list drule =>
         (fst xr, map (fun r : drule => (fst r, 1 / inject_Z (Z.of_nat (length (snd xr))))) (snd xr))) tbl.
Definition normalise (w : wtable) : wtable :=
  map (fun xw : nt * list (sym * Q) =>
         let s := qsum (map snd (snd xw)) in
         (fst xw, map (fun sq : sym * Q => (fst sq, snd sq / s)) (snd xw))) w.

(** The distinct T states reached after the programs of a non-terminal. *)
Fixpoint dedup_states (l : list state) : list state :=
  match l with
  | [] => []
  | y :: r => if memb sexp_eqb y r then dedup_states r else y :: dedup_states r
  end.
Definition outs_at (fuel : nat) (tbl : table) (x : nt) : list state := dedup_states (map snd (lang_at fuel tbl x)).

(** Well-formedness of a weighted table along everything reachable from x:
    rules exist, the weights of the rules are positive and sum to 1, and every
    sequence of argument non-terminals that the threading can produce is again
    well formed. *)
Definition weights_ok (tbl : table) (w : wtable) (x : nt) (rs : list drule) : bool :=
  forallb (fun r : drule => match weight_of w x (fst r) with Some q => Qle_bool 0 q && negb (Qeq_bool q 0) | None => false end) rs
  && Qeq_bool (qsum (map (fun r : drule => match weight_of w x (fst r) with Some q => q | None => 0 end) rs)) 1
  && nodupb sym_eqb (map fst rs).

Fixpoint wf_at (fuel : nat) (tbl : table) (w : wtable) (x : nt) : bool :=
  match fuel with
  | O => false
  | S f =>
    match rules_of tbl x with
    | None => false
    | Some rs =>
      weights_ok tbl w x rs &&
      forallb (fun r : drule =>
        let '(s, (args, y)) := r in
        (fix wf_seq (args : list argnt) (y : state) : bool :=
           match args with
           | [] => true
           | (t, sa) :: ar =>
             wf_at f tbl w (t, sa, y) && forallb (fun y' => wf_seq ar y') (outs_at f tbl (t, sa, y))
           end) args y) rs
    end
  end.

(** ---- structural specification (no stack): the T state after deriving p
    at x, threading the state left to right through the arguments ---- *)
Definition thread_out (D : nt -> prog -> option state) : list prog -> list argnt -> state -> option state :=
  fix go (ps : list prog) (ants : list argnt) (y : state) {struct ps} : option state :=
    match ps, ants with
    | [], [] => Some y
    | a :: ar, (t, s) :: antr =>
      match D (t, s, y) a with Some y' => go ar antr y' | None => None end
    | _, _ => None
    end.

Fixpoint der_out (tbl : table) (x : nt) (p : prog) {struct p} : option state :=
  match p with
  | PLeaf s =>
    match rule_of tbl x s with
    | Some r => if Nat.eqb (length (fst r)) 0 then Some (snd r) else None
    | None => None
    end
  | PFun f ps =>
    match rule_of tbl x f with
    | Some r =>
      if Nat.eqb (length (fst r)) (length ps)
      then thread_out (fun x' a => der_out tbl x' a) ps (fst r) (snd r)
      else None
    | None => None
    end
  end.

(** Programs without the empty application Function(P, []). *)
Fixpoint normal (p : prog) : bool :=
  match p with
  | PLeaf _ => true
  | PFun _ ps => negb (Nat.eqb (length ps) 0) && forallb normal ps
  end.

(** The symbol keys of every rule dictionary are pairwise distinct (always true
    of a Python dict). *)
Definition table_ok (tbl : table) : bool :=
  forallb (fun xr : nt * list drule => nodupb sym_eqb (map fst (snd xr))) tbl.

(** Weight of a rule, 0 when it has no tag (a KeyError turned into 0). *)
Definition wt (w : wtable) (x : nt) (s : sym) : Q :=
  match weight_of w x s with Some q => q | None => 0 end.

(** Product of the rule weights along the derivation, by structural recursion:
    P(x, f a1 .. ak) = w(x, f) * P(x1, a1) * ... * P(xk, ak) where xi is the
    i-th argument non-terminal of the rule with the T state reached after a(i-1). *)
Definition thread_prob (D : nt -> prog -> option state) (P : nt -> prog -> Q) : list prog -> list argnt -> state -> Q :=
  fix go (ps : list prog) (ants : list argnt) (y : state) {struct ps} : Q :=
    match ps, ants with
    | a :: ar, (t, s) :: antr =>
      P (t, s, y) a * match D (t, s, y) a with Some y' => go ar antr y' | None => 1 end
    | _, _ => 1
    end.

Fixpoint sprob (tbl : table) (w : wtable) (x : nt) (p : prog) {struct p} : Q :=
  match p with
  | PLeaf s => wt w x s
  | PFun f ps =>
    match rule_of tbl x f with
    | Some r => wt w x f * thread_prob (der_out tbl) (fun x' a => sprob tbl w x' a) ps (fst r) (snd r)
    | None => 0
    end
  end.

(** Weighted enumeration: lang_at carrying the product of the rule weights. *)
Definition wseqs_with (L : nt -> list (prog * state * Q)) : list argnt -> state -> list (list prog * state * Q) :=
  fix seqs (args : list argnt) (y : state) {struct args} : list (list prog * state * Q) :=
    match args with
    | [] => [([], y, 1)]
    | (t, sa) :: ar =>
      flat_map (fun pyq : prog * state * Q =>
                  map (fun lyq : list prog * state * Q =>
                         (fst (fst pyq) :: fst (fst lyq), snd (fst lyq), snd pyq * snd lyq))
                      (seqs ar (snd (fst pyq))))
               (L (t, sa, y))
    end.

Definition wrule_lang (L : nt -> list (prog * state * Q)) (w : wtable) (x : nt) (r : drule) : list (prog * state * Q) :=
  let '(s, (args, y)) := r in
  match args with
  | [] => [(PLeaf s, y, wt w x s)]
  | _ => map (fun ayq : list prog * state * Q => (PFun s (fst (fst ayq)), snd (fst ayq), wt w x s * snd ayq))
             (wseqs_with L args y)
  end.

Fixpoint wlang_at (fuel : nat) (tbl : table) (w : wtable) (x : nt) : list (prog * state * Q) :=
  match fuel with
  | O => []
  | S f =>
    match rules_of tbl x with
    | None => []
    | Some rs => flat_map (wrule_lang (wlang_at f tbl w) w x) rs
    end
  end.

(** ---- ProbDetGrammar.pcfg_from_samples (add_count): the rules used by the
    samples, None when the Python code raises (KeyError / IndexError). *)
Definition uses_args (U : nt -> prog -> option (list (nt * sym))) : list prog -> list argnt -> state -> option (list (nt * sym)) :=
  fix go (ps : list prog) (ants : list argnt) (y : state) {struct ps} : option (list (nt * sym)) :=
    match ps, ants with
    | [], _ => Some []
    | a :: ar, (t, s) :: antr =>
      match U (t, s, y) a, go ar antr y with
      | Some l1, Some l2 => Some (l1 ++ l2)
      | _, _ => None
      end
    | _ :: _, [] => None
    end.

Fixpoint uses (tbl : table) (x : nt) (p : prog) {struct p} : option (list (nt * sym)) :=
  match p with
  | PLeaf s =>
    match rules_of tbl x with
    | None => None
    | Some rs => match alookup sym_eqb s rs with Some _ => Some [(x, s)] | None => Some [] end
    end
  | PFun f ps =>
    match rule_of tbl x f with
    | None => None
    | Some r =>
      match uses_args (fun x' a => uses tbl x' a) ps (fst r) (snd r) with
      | Some l => Some ((x, f) :: l)
      | None => None
      end
    end
  end.

Definition count_use (l : list (nt * sym)) (x : nt) (s : sym) : nat :=
  length (filter (fun u : nt * sym => nt_eqb (fst u) x && sym_eqb (snd u) s) l).

Definition from_samples (tbl : table) (start : nt) (samples : list prog) : option wtable :=
  match omap (uses tbl start) samples with
  | None => None
  | Some ls =>
    let l := concat ls in
    Some (flat_map (fun xr : nt * list drule =>
                      let total := fold_right Nat.add O (map (fun r : drule => count_use l (fst xr) (fst r)) (snd xr)) in
                      match total with
                      | O => []
                      | _ => [(fst xr, map (fun r : drule =>
                                              (fst r, inject_Z (Z.of_nat (count_use l (fst xr) (fst r))) / inject_Z (Z.of_nat total)))
                                           (snd xr))]
                      end) tbl)
  end.

(** The same well-formedness check iterating over every (program, state) of the
    language instead of over the distinct out-states; kept because the sampling
    proofs (property C09) were written against it. *)
Fixpoint wf_at_lang (fuel : nat) (tbl : table) (w : wtable) (x : nt) : bool :=
  match fuel with
  | O => false
  | S f =>
    match rules_of tbl x with
    | None => false
    | Some rs =>
      weights_ok tbl w x rs &&
      forallb (fun r : drule =>
        let '(s, (args, y)) := r in
        (fix wf_seq (args : list argnt) (y : state) : bool :=
           match args with
           | [] => true
           | (t, sa) :: ar =>
             wf_at_lang f tbl w (t, sa, y) && forallb (fun py => wf_seq ar (snd py)) (lang_at f tbl (t, sa, y))
           end) args y) rs
    end
  end.
