(** Specification side of property C01: an independent typing judgement for
    applicative terms, written by structural recursion on the program.  Nothing
    here mentions the grammar construction (rules_at, crules, productive, ...);
    only the record of inputs [params] and the forbidden-table lookup [forb]
    are shared with the model. *)
From Coq Require Import ZArith NArith List Bool Lia Arith.
From PS Require Import Base.ListX Base.Sexp Base.Ty Base.Value Base.Prog Gram.Cfg.
Import ListNotations.

Definition dsl_eqb (a b : N * ty) : bool := N.eqb (fst a) (fst b) && ty_eqb (snd a) (snd b).

(** names forbidden below the parent [par] = (head of the parent, argument index) *)
Definition par_forb (P : params) (par : option (sym * nat)) : list N :=
  match par with Some x => forb P [x] | None => [] end.

(** [s] alone (no argument supplied) is a term of type [t] at nesting depth [d]
    below [par]. *)
Definition wt_leaf (P : params) (t : ty) (par : option (sym * nat)) (d : nat) (s : sym) : bool :=
  match s with
  | SVar i t' =>
    ty_eqb t' t && option_eqb ty_eqb (nth_error (arguments (request P)) i) (Some t)
    && Nat.leb (min_var P) d && Nat.ltb d (max_depth P)
  | SConst t' None =>
    ty_eqb t' t && memb ty_eqb t (const_types P) && Nat.leb (min_var P) d && Nat.ltb d (max_depth P)
  | SConst _ (Some _) => false
  | SPrim n tp =>
    ty_eqb tp t && memb dsl_eqb (n, tp) (dsl P) && Nat.ltb d (max_depth P)
    && negb (memb N.eqb n (par_forb P par))
  end.

(** [s] applied to at least one argument gives a term of type [t] at depth [d]
    below [par]: the types the arguments must have. *)
Definition wt_head (P : params) (t : ty) (par : option (sym * nat)) (d : nat) (s : sym) : option (list ty) :=
  match s with
  | SPrim n tp =>
    if memb dsl_eqb (n, tp) (dsl P) && negb (memb N.eqb n (par_forb P par)) && Nat.ltb (S d) (max_depth P)
    then ends_with tp t else None
  | SVar v tv =>
    if option_eqb ty_eqb (nth_error (arguments (request P)) v) (Some tv)
       && Nat.leb (min_var P) d && Nat.ltb (S d) (max_depth P)
    then ends_with tv t else None
  | SConst _ _ => None
  end.

(** [wt P t par d p]: [p] is a well-formed term of type [t] at nesting depth
    [d] whose parent is [par].  [PFun f []] is treated as [PLeaf f]. *)
Fixpoint wt (P : params) (t : ty) (par : option (sym * nat)) (d : nat) (p : prog) : bool :=
  match p with
  | PLeaf s => wt_leaf P t par d s
  | PFun f args =>
    match args with
    | [] => wt_leaf P t par d f
    | _ :: _ =>
      match wt_head P t par d f with
      | Some tys =>
        (fix go (i : nat) (tys : list ty) (args : list prog) {struct args} : bool :=
           match tys, args with
           | [], [] => true
           | ty :: tr, a :: ar => wt P ty (Some (f, i)) (S d) a && go (S i) tr ar
           | _, _ => false
           end) 0 tys args
      | None => false
      end
    end
  end.

(** Typed terms of the request. *)
Definition typed (P : params) (p : prog) : bool := wt P (returns (request P)) None 0 p.

(** No application node with an empty argument list (the grammar's own
    enumeration never builds one). *)
Fixpoint normal (p : prog) : bool :=
  match p with
  | PLeaf _ => true
  | PFun _ args =>
    match args with [] => false | _ :: _ => forallb normal args end
  end.

(** Height: a leaf, and an application without arguments, count 1.  Equal to
    [pdepth] on normal programs. *)
Fixpoint ht (p : prog) : nat :=
  match p with
  | PLeaf _ => 1
  | PFun _ args => S (fold_right (fun a acc => Nat.max (ht a) acc) 0 args)
  end.

(** [Uses R y p x r]: the derivation of [p] from non-terminal [y] in the
    grammar [R] applies rule [r] at non-terminal [x]. *)
Inductive Uses (R : cnt -> list rule) : cnt -> prog -> cnt -> rule -> Prop :=
| uses_here : forall x p r,
    In r (R x) -> head p = fst r -> Uses R x p x r
| uses_arg : forall y p nts n a x r,
    rlookup (head p) (R y) = Some nts ->
    In (n, a) (combine nts (pargs p)) ->
    Uses R n a x r ->
    Uses R y p x r.

(** Non-terminals connected to the start symbol by rules of the cleaned grammar. *)
Inductive Reach (P : params) : cnt -> Prop :=
| reach_start : Reach P (start P)
| reach_step : forall x r y, Reach P x -> In r (crules P x) -> In y (snd r) -> Reach P y.

(** Well-formedness needed by the counting theorem only: no primitive is
    listed twice. *)
Definition wf_params (P : params) : bool := nodupb dsl_eqb (dsl P).
