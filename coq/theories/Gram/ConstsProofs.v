(** Proofs about Gram/Consts.v (deterministic / tree-traversing grammars):
    the language of the instantiated table is the set of instantiations of the
    original programs, each exactly once; the mass of a template is carried by
    its instantiations; a well-formed weighted grammar stays well formed. *)
From Coq Require Import ZArith NArith QArith List Bool Lia Setoid Permutation Lqa Morphisms.
From PS Require Import Base.ListX Base.Sexp Base.Ty Base.Value Base.Prog Gram.Det Gram.DetProofs Gram.U Gram.Consts.
Import ListNotations.
Local Open Scope nat_scope.

(** * Dictionaries rebuilt by insertion *)
Lemma ainsert_fresh {K V} (eqb : K -> K -> bool) (spec : forall a b, eqb a b = true <-> a = b) k (v : V) l :
  ~ In k (map fst l) -> ainsert eqb k v l = l ++ [(k, v)].
Proof.
  induction l as [|[k' v'] r IH]; cbn; intros H; [reflexivity|].
  destruct (eqb k k') eqn:E.
  - apply spec in E; subst. tauto.
  - rewrite IH; auto.
Qed.

Lemma NoDup_app_l {A} (l1 l2 : list A) : NoDup (l1 ++ l2) -> NoDup l1.
Proof. induction l1 as [|a r IH]; cbn; [constructor|]. intros H; inversion H; subst. constructor; auto. rewrite in_app_iff in *; tauto. Qed.

Lemma NoDup_app_notin {A} (l1 l2 : list A) a : NoDup (l1 ++ a :: l2) -> ~ In a l1.
Proof.
  induction l1 as [|b r IH]; cbn; [tauto|]. intros H; inversion H; subst. intros [E|Hin].
  - subst. apply H2. rewrite in_app_iff; right; left; reflexivity.
  - apply IH; auto.
Qed.

Definition ins {R} (acc : list (sym * R)) (kv : sym * R) : list (sym * R) := ainsert sym_eqb (fst kv) (snd kv) acc.

Lemma fold_ins_fresh {R} (l : list (sym * R)) : forall acc,
  NoDup (map fst (acc ++ l)) -> fold_left ins l acc = acc ++ l.
Proof.
  induction l as [|[k c] r IH]; intros acc Hn; cbn; [rewrite app_nil_r; reflexivity|].
  unfold ins at 2. cbn [fst snd].
  rewrite (ainsert_fresh sym_eqb sym_eqb_spec).
  - rewrite IH; rewrite <- app_assoc; [reflexivity|exact Hn].
  - rewrite map_app in Hn. cbn in Hn. eapply NoDup_app_notin; eauto.
Qed.

(** the instantiated dictionary as a plain list *)
Definition inst_one {R} (tr : R -> nat -> R) (vt : vtable) (sr : sym * R) : list (sym * R) :=
  match fst sr with
  | SConst t _ =>
    match values_of vt t with
    | Some vs => map (fun v => (SConst t (Some v), tr (snd sr) (length (dedup_values vs)))) vs
    | None => [sr]
    end
  | _ => [sr]
  end.
Definition inst_flat {R} (tr : R -> nat -> R) (vt : vtable) (rs : list (sym * R)) : list (sym * R) :=
  flat_map (inst_one tr vt) rs.

Lemma fold_left_map {A B C} (f : A -> C -> A) (g : B -> C) l : forall a,
  fold_left f (map g l) a = fold_left (fun a b => f a (g b)) l a.
Proof. induction l; cbn; auto. Qed.

Lemma inst_gen_step {R} (tr : R -> nat -> R) vt (sr : sym * R) acc :
  match fst sr with
  | SConst t _ =>
    match values_of vt t with
    | Some vs =>
      fold_left (fun acc v => ainsert sym_eqb (SConst t (Some v)) (tr (snd sr) (length (dedup_values vs))) acc) vs acc
    | None => ainsert sym_eqb (fst sr) (snd sr) acc
    end
  | _ => ainsert sym_eqb (fst sr) (snd sr) acc
  end = fold_left ins (inst_one tr vt sr) acc.
Proof.
  unfold inst_one. destruct (fst sr) as [n t|i t|t o] eqn:E; try (cbn; unfold ins; rewrite E; reflexivity).
  destruct (values_of vt t) as [vs|]; [|cbn; unfold ins; rewrite E; reflexivity].
  rewrite fold_left_map. reflexivity.
Qed.

Lemma fold_left_ext {A B} (f g : A -> B -> A) l : (forall a b, f a b = g a b) -> forall a, fold_left f l a = fold_left g l a.
Proof. intros H. induction l; cbn; intros; auto. rewrite H; auto. Qed.

Theorem inst_gen_flat {R} (tr : R -> nat -> R) vt (rs : list (sym * R)) :
  NoDup (map fst (inst_flat tr vt rs)) -> inst_gen tr vt rs = inst_flat tr vt rs.
Proof.
  unfold inst_gen. intros Hn.
  rewrite (fold_left_ext _ (fun acc sr => fold_left ins (inst_one tr vt sr) acc)) by (intros; apply inst_gen_step).
  change (inst_flat tr vt rs) with ([] ++ inst_flat tr vt rs).
  change (NoDup (map fst ([] ++ inst_flat tr vt rs))) in Hn.
  generalize dependent (@nil (sym * R)). induction rs as [|sr rs IH]; intros acc Hn; cbn [fold_left].
  - cbn. rewrite app_nil_r. reflexivity.
  - cbn [inst_flat flat_map] in *. rewrite fold_ins_fresh.
    + rewrite IH; rewrite <- app_assoc; [reflexivity|exact Hn].
    + rewrite app_assoc, map_app in Hn. eapply NoDup_app_l; eauto.
Qed.

(** * Conditions on the table of values and on the dictionaries *)
Definition covered (vt : vtable) (t : ty) : bool := match values_of vt t with Some _ => true | None => false end.
(** a key that is not an already-valued constant of a type of the table *)
Definition clean_key (vt : vtable) (s : sym) : bool :=
  match s with SConst t (Some _) => negb (covered vt t) | _ => true end.
Definition vt_ok (vt : vtable) : Prop := forall t vs, values_of vt t = Some vs -> NoDup vs.

Definition keys_ok {R} (vt : vtable) (rs : list (sym * R)) : Prop :=
  NoDup (map fst rs) /\ forall k, In k (map fst rs) -> clean_key vt k = true.

Lemma filter_id {A} (f : A -> bool) l : (forall a, In a l -> f a = true) -> filter f l = l.
Proof. induction l as [|a r IH]; cbn; intros H; [reflexivity|]. rewrite (H a (or_introl eq_refl)), IH; auto. Qed.

Lemma dedup_values_In v l : In v (dedup_values l) -> In v l.
Proof.
  revert v. induction l as [|a r IH]; cbn; [tauto|]. intros v [E|H]; auto.
  apply filter_In in H. destruct H as [H _]. auto.
Qed.

Lemma dedup_nodup l : NoDup l -> dedup_values l = l.
Proof.
  induction 1 as [|a r Hnot Hr IH]; cbn; [reflexivity|]. rewrite IH. f_equal. apply filter_id.
  intros b Hb. apply negb_true_iff. destruct (value_eqb a b) eqn:E; auto. apply value_eqb_spec in E; subst; tauto.
Qed.

Definition erase_sym (vt : vtable) (s : sym) : sym :=
  match s with SConst t (Some _) => if covered vt t then SConst t None else s | _ => s end.

Lemma sym_insts_disjoint vt k k' s' :
  clean_key vt k = true -> clean_key vt k' = true -> In s' (sym_insts vt k) -> In s' (sym_insts vt k') -> k = k'.
Proof.
  intros Hc Hc' Hi Hi'.
  assert (Hk : forall k0, clean_key vt k0 = true -> In s' (sym_insts vt k0) ->
                          k0 = erase_sym vt s').
  { intros k0 Hc0 Hi0. destruct k0 as [n t|i t|t o]; cbn in Hi0; try (destruct Hi0 as [<-|[]]; reflexivity).
    cbn in Hc0. unfold covered in *. destruct (values_of vt t) as [vs|] eqn:Ev.
    - apply in_map_iff in Hi0. destruct Hi0 as [v [<- _]]. cbn. unfold covered. rewrite Ev.
      destruct o; [discriminate|reflexivity].
    - destruct Hi0 as [<-|[]]. destruct o; cbn; unfold covered; try rewrite Ev; reflexivity. }
  rewrite (Hk k Hc Hi), (Hk k' Hc' Hi'). reflexivity.
Qed.

Lemma sym_insts_NoDup vt k : vt_ok vt -> NoDup (sym_insts vt k).
Proof.
  intros Hv. destruct k as [n t|i t|t o]; cbn; try (constructor; [tauto|constructor]).
  destruct (values_of vt t) as [vs|] eqn:Ev; [|constructor; [tauto|constructor]].
  apply NoDup_map_inj; [intros a a' E; inversion E; auto|]. rewrite dedup_nodup; eauto.
Qed.

Lemma inst_flat_keys {R} (tr : R -> nat -> R) vt (rs : list (sym * R)) : vt_ok vt ->
  map fst (inst_flat tr vt rs) = flat_map (sym_insts vt) (map fst rs).
Proof.
  intros Hv. unfold inst_flat. induction rs as [|[s r] rs IH]; cbn [flat_map map]; [reflexivity|].
  rewrite map_app, IH. f_equal. unfold inst_one. cbn [fst snd].
  destruct s as [n t|i t|t o]; cbn; try reflexivity.
  destruct (values_of vt t) as [vs|] eqn:Ev; [|reflexivity].
  rewrite map_map. cbn [fst]. rewrite dedup_nodup; eauto.
Qed.

Lemma inst_flat_NoDup {R} (tr : R -> nat -> R) vt (rs : list (sym * R)) :
  vt_ok vt -> keys_ok vt rs -> NoDup (map fst (inst_flat tr vt rs)).
Proof.
  intros Hv [Hn Hc]. rewrite inst_flat_keys; auto. apply NoDup_flat_map; auto.
  - intros; apply sym_insts_NoDup; auto.
  - intros k k' s' Hk Hk' Hi Hi'. eapply sym_insts_disjoint; eauto.
Qed.

Theorem inst_gen_spec {R} (tr : R -> nat -> R) vt (rs : list (sym * R)) :
  vt_ok vt -> keys_ok vt rs -> inst_gen tr vt rs = inst_flat tr vt rs.
Proof. intros Hv Hk. apply inst_gen_flat. apply inst_flat_NoDup; auto. Qed.

(** * Lookup in an instantiated dictionary *)
Definition payload {R} (tr : R -> nat -> R) (vt : vtable) (s : sym) (r : R) : R :=
  match s with
  | SConst t _ => match values_of vt t with Some vs => tr r (length vs) | None => r end
  | _ => r
  end.

Lemma inst_one_In {R} (tr : R -> nat -> R) vt s (r : R) s' c : vt_ok vt ->
  (In (s', c) (inst_one tr vt (s, r)) <-> In s' (sym_insts vt s) /\ c = payload tr vt s r).
Proof.
  intros Hv. unfold inst_one, payload. cbn [fst snd].
  destruct s as [n t|i t|t o]; cbn [sym_insts];
    try (cbn; split; [intros [E|[]]; inversion E; auto | intros [[E|[]] ->]; subst; auto]).
  destruct (values_of vt t) as [vs|] eqn:Ev.
  - rewrite (dedup_nodup vs) by eauto. rewrite !in_map_iff. split.
    + intros [v [E Hin]]. inversion E; subst. split; eauto.
    + intros [[v [E Hin]] ->]. subst. exists v. auto.
  - cbn; split; [intros [E|[]]; inversion E; auto | intros [[E|[]] ->]; subst; auto].
Qed.

Lemma inst_flat_In {R} (tr : R -> nat -> R) vt (rs : list (sym * R)) s' c : vt_ok vt ->
  (In (s', c) (inst_flat tr vt rs) <-> exists s r, In (s, r) rs /\ In s' (sym_insts vt s) /\ c = payload tr vt s r).
Proof.
  intros Hv. unfold inst_flat. rewrite in_flat_map. split.
  - intros [[s r] [Hin H]]. apply inst_one_In in H; auto. exists s, r. tauto.
  - intros [s [r [Hin H]]]. exists (s, r). split; auto. apply inst_one_In; auto.
Qed.

Lemma inst_lookup {R} (tr : R -> nat -> R) vt (rs : list (sym * R)) s' c : vt_ok vt -> keys_ok vt rs ->
  (alookup sym_eqb s' (inst_gen tr vt rs) = Some c <->
   exists s r, alookup sym_eqb s rs = Some r /\ In s' (sym_insts vt s) /\ c = payload tr vt s r).
Proof.
  intros Hv Hk. rewrite inst_gen_spec; auto. pose proof (inst_flat_NoDup tr vt rs Hv Hk) as Hn. split.
  - intros H. apply (alookup_In sym_eqb sym_eqb_spec) in H. apply inst_flat_In in H; auto.
    destruct H as [s [r [Hin H]]]. exists s, r. split; auto. apply In_alookup; auto using sym_eqb_spec. apply Hk.
  - intros [s [r [Hl H]]]. apply In_alookup; auto using sym_eqb_spec. apply inst_flat_In; auto.
    exists s, r. split; auto. eapply alookup_In; eauto using sym_eqb_spec.
Qed.

Lemma inst_lookup_none {R} (tr : R -> nat -> R) vt (rs : list (sym * R)) s s' : vt_ok vt -> keys_ok vt rs ->
  In s' (sym_insts vt s) -> clean_key vt s = true -> alookup sym_eqb s rs = None -> alookup sym_eqb s' (inst_gen tr vt rs) = None.
Proof.
  intros Hv Hk Hi Hc Hnone. destruct (alookup sym_eqb s' (inst_gen tr vt rs)) as [c|] eqn:E; auto.
  apply inst_lookup in E; auto. destruct E as [s0 [r [Hl [Hi0 _]]]].
  assert (s0 = s).
  { eapply sym_insts_disjoint; eauto. apply Hk. apply (alookup_In sym_eqb sym_eqb_spec) in Hl.
    change s0 with (fst (s0, r)). apply in_map; auto. }
  subst. congruence.
Qed.

(** conditions on a whole rule table / weight table *)
Definition dict_ok {K R} (vt : vtable) (tbl : list (K * list (sym * R))) : Prop :=
  forall x rs, In (x, rs) tbl -> keys_ok vt rs.

Definition dict_okb {K R} (vt : vtable) (tbl : list (K * list (sym * R))) : bool :=
  forallb (fun xr : K * list (sym * R) =>
             nodupb sym_eqb (map fst (snd xr)) && forallb (fun r : sym * R => clean_key vt (fst r)) (snd xr)) tbl.

Lemma dict_okb_ok {K R} vt (tbl : list (K * list (sym * R))) : dict_okb vt tbl = true -> dict_ok vt tbl.
Proof.
  unfold dict_okb, dict_ok. rewrite forallb_forall. intros H x rs Hin. apply H in Hin. cbn in Hin.
  apply andb_true_iff in Hin. destruct Hin as [Hn Hc]. split.
  - apply (nodupb_spec sym_eqb sym_eqb_spec); auto.
  - rewrite forallb_forall in Hc. intros k Hk. apply in_map_iff in Hk. destruct Hk as [r [<- Hr]]. auto.
Qed.

Lemma rules_of_inst vt tbl x :
  rules_of (inst_table vt tbl) x = option_map (inst_gen (fun r _ => r) vt) (rules_of tbl x).
Proof.
  unfold rules_of, inst_table. destruct (alookup nt_eqb x tbl) as [rs|] eqn:E.
  - exact (alookup_map_entry nt_eqb nt_eqb_spec (fun xr : nt * list drule => inst_gen (fun r _ => r) vt (snd xr)) x tbl rs E).
  - exact (alookup_map_none nt_eqb (fun xr : nt * list drule => inst_gen (fun r _ => r) vt (snd xr)) x tbl E).
Qed.

Lemma rule_of_inst vt tbl x s' r : vt_ok vt -> dict_ok vt tbl ->
  (rule_of (inst_table vt tbl) x s' = Some r <-> exists s, rule_of tbl x s = Some r /\ In s' (sym_insts vt s)).
Proof.
  intros Hv Hd. unfold rule_of. rewrite rules_of_inst. destruct (rules_of tbl x) as [rs|] eqn:Hrs; cbn [option_map].
  - rewrite inst_lookup; auto; [|eapply Hd, rules_of_In; eauto]. split.
    + intros [s [r0 [Hl [Hi E]]]]. exists s. split; auto. rewrite Hl. f_equal.
      rewrite E. unfold payload. destruct s; auto. destruct (values_of vt t); auto.
    + intros [s [Hl Hi]]. exists s, r. split; auto. split; auto.
      unfold payload. destruct s; auto. destruct (values_of vt t); auto.
  - split; [discriminate|]. intros [s [H _]]. discriminate.
Qed.

(** * Programs: instantiations *)
Lemma uprods_In {X} (Ls : list (list X)) : forall qs, In qs (uprods Ls) <-> Forall2 (fun L q => In q L) Ls qs.
Proof.
  induction Ls as [|L Ls IH]; intros qs; cbn.
  - split; [intros [<-|[]]; constructor | intros H; inversion H; auto].
  - rewrite in_flat_map. split.
    + intros [a [Ha Hm]]. apply in_map_iff in Hm. destruct Hm as [r [<- Hr]]. constructor; auto. apply IH; auto.
    + intros H. inversion H as [|? q ? r Hq Hr]; subst. exists q. split; auto. apply in_map_iff. exists r. split; auto. apply IH; auto.
Qed.

Lemma insts_fun vt f args :
  insts vt (PFun f args) = flat_map (fun f' => map (PFun f') (uprods (map (insts vt) args))) (sym_insts vt f).
Proof. reflexivity. Qed.

Lemma insts_fun_In vt f args q :
  In q (insts vt (PFun f args)) <->
  exists f' qs, q = PFun f' qs /\ In f' (sym_insts vt f) /\ Forall2 (fun p q => In q (insts vt p)) args qs.
Proof.
  rewrite insts_fun, in_flat_map. split.
  - intros [f' [Hf Hm]]. apply in_map_iff in Hm. destruct Hm as [qs [<- Hq]]. apply uprods_In in Hq.
    exists f', qs. split; auto. split; auto. clear -Hq. remember (map (insts vt) args) as Ls eqn:E.
    revert args E. induction Hq; intros [|a ar] E; cbn in E; try discriminate; constructor; inversion E; subst; auto.
  - intros [f' [qs [-> [Hf HF]]]]. exists f'. split; auto. apply in_map. apply uprods_In.
    clear -HF. induction HF; cbn; constructor; auto.
Qed.

Lemma Forall2_length {A B} (R : A -> B -> Prop) l l' : Forall2 R l l' -> length l = length l'.
Proof. induction 1; cbn; auto. Qed.

Section Inst.
  Variable vt : vtable.
  Variable tbl : table.
  Hypothesis Hv : vt_ok vt.
  Hypothesis Hd : dict_ok vt tbl.
  Let tbl' := inst_table vt tbl.

  (** every instantiation of a derivable template is derivable, with the same T state *)
  Lemma thread_out_inst ps :
    Forall (fun p => forall x y q, der_out tbl x p = Some y -> In q (insts vt p) -> der_out tbl' x q = Some y) ps ->
    forall qs ants y y', Forall2 (fun p q => In q (insts vt p)) ps qs ->
      thread_out (der_out tbl) ps ants y = Some y' -> thread_out (der_out tbl') qs ants y = Some y'.
  Proof.
    induction 1 as [|p ps Hp _ IH]; intros qs ants y y' HF Ht; inversion HF; subst.
    - destruct ants; cbn in *; auto.
    - destruct ants as [|[t s] antr]; cbn in Ht; [discriminate|].
      destruct (der_out tbl (t, s, y) p) as [y1|] eqn:Hd1; [|discriminate].
      cbn [thread_out]. rewrite (Hp _ _ _ Hd1 H1). eapply IH; eauto.
  Qed.

  Theorem der_out_inst p : forall x y q, der_out tbl x p = Some y -> In q (insts vt p) -> der_out tbl' x q = Some y.
  Proof.
    induction p as [s|f ps IH] using prog_ind'; intros x y q Hder Hin.
    - cbn [insts] in Hin. apply in_map_iff in Hin. destruct Hin as [s' [<- Hs']].
      cbn [der_out] in *. destruct (rule_of tbl x s) as [r|] eqn:Hr; [|discriminate].
      assert (Hr' : rule_of tbl' x s' = Some r) by (apply rule_of_inst; eauto).
      rewrite Hr'. exact Hder.
    - apply insts_fun_In in Hin. destruct Hin as [f' [qs [-> [Hf HF]]]].
      rewrite der_out_fun in *. destruct (rule_of tbl x f) as [r|] eqn:Hr; [|discriminate].
      assert (Hr' : rule_of tbl' x f' = Some r) by (apply rule_of_inst; eauto).
      rewrite Hr'. rewrite <- (Forall2_length _ _ _ HF).
      destruct (Nat.eqb (length (fst r)) (length ps)); [|discriminate].
      eapply thread_out_inst; eauto.
  Qed.

  (** conversely every program of the instantiated grammar is an instantiation of a template *)
  Lemma thread_out_inst_inv qs :
    Forall (fun q => forall x y, der_out tbl' x q = Some y -> exists p, der_out tbl x p = Some y /\ In q (insts vt p)) qs ->
    forall ants y y', thread_out (der_out tbl') qs ants y = Some y' ->
      exists ps, thread_out (der_out tbl) ps ants y = Some y' /\ Forall2 (fun p q => In q (insts vt p)) ps qs.
  Proof.
    induction 1 as [|q qs Hq _ IH]; intros ants y y' Ht.
    - destruct ants; cbn in Ht; [|discriminate]. exists []. split; auto.
    - destruct ants as [|[t s] antr]; cbn in Ht; [discriminate|].
      destruct (der_out tbl' (t, s, y) q) as [y1|] eqn:Hd1; [|discriminate].
      destruct (Hq _ _ Hd1) as [p [Hp Hi]]. destruct (IH _ _ _ Ht) as [ps [Hps HF]].
      exists (p :: ps). split; [|constructor; auto]. cbn. rewrite Hp. exact Hps.
  Qed.

  Theorem der_out_inst_inv q : forall x y, der_out tbl' x q = Some y -> exists p, der_out tbl x p = Some y /\ In q (insts vt p).
  Proof.
    induction q as [s'|f' qs IH] using prog_ind'; intros x y Hder.
    - cbn [der_out] in Hder. destruct (rule_of tbl' x s') as [r|] eqn:Hr'; [|discriminate].
      apply rule_of_inst in Hr'; auto. destruct Hr' as [s [Hr Hs]].
      exists (PLeaf s). split; [cbn [der_out]; rewrite Hr; exact Hder|]. cbn [insts]. apply in_map; auto.
    - rewrite der_out_fun in Hder. destruct (rule_of tbl' x f') as [r|] eqn:Hr'; [|discriminate].
      apply rule_of_inst in Hr'; auto. destruct Hr' as [f [Hr Hf]].
      destruct (Nat.eqb (length (fst r)) (length qs)) eqn:El; [|discriminate].
      destruct (thread_out_inst_inv qs IH _ _ _ Hder) as [ps [Hps HF]].
      exists (PFun f ps). split.
      + rewrite der_out_fun, Hr, (Forall2_length _ _ _ HF), El. exact Hps.
      + apply insts_fun_In. exists f', qs. auto.
  Qed.

  Theorem contains_inst x q :
    contains tbl' x q = true <-> exists p, contains tbl x p = true /\ In q (insts vt p).
  Proof.
    rewrite contains_der_out. split.
    - destruct (der_out tbl' x q) as [y|] eqn:E; [|discriminate]. intros _.
      destruct (der_out_inst_inv q x y E) as [p [Hp Hi]]. exists p. split; auto. rewrite contains_der_out, Hp. reflexivity.
    - intros [p [Hc Hi]]. rewrite contains_der_out in Hc. destruct (der_out tbl x p) as [y|] eqn:E; [|discriminate].
      rewrite (der_out_inst p x y q E Hi). reflexivity.
  Qed.
End Inst.

(** * Each instantiation exactly once *)
Lemma NoDup_uprods {X} (Ls : list (list X)) : Forall (@NoDup X) Ls -> NoDup (uprods Ls).
Proof.
  induction 1 as [|L Ls HL _ IH]; cbn; [constructor; [tauto|constructor]|].
  apply NoDup_flat_map; auto.
  - intros a _. apply NoDup_map_inj; auto. intros r r' E; inversion E; auto.
  - intros a a' b _ _ Hb Hb'. apply in_map_iff in Hb, Hb'. destruct Hb as [r [<- _]], Hb' as [r' [E _]]. inversion E; auto.
Qed.

Theorem insts_NoDup vt p : vt_ok vt -> NoDup (insts vt p).
Proof.
  intros Hv. induction p as [s|f ps IH] using prog_ind'.
  - cbn. apply NoDup_map_inj; [intros a a' E; inversion E; auto|apply sym_insts_NoDup; auto].
  - rewrite insts_fun. apply NoDup_flat_map.
    + apply sym_insts_NoDup; auto.
    + intros f' _. apply NoDup_map_inj; [intros a a' E; inversion E; auto|].
      apply NoDup_uprods. rewrite Forall_map. exact IH.
    + intros a a' b _ _ Hb Hb'. apply in_map_iff in Hb, Hb'. destruct Hb as [r [<- _]], Hb' as [r' [E _]]. inversion E; auto.
Qed.

Lemma insts_shape vt p q : In q (insts vt p) -> pdepth q = pdepth p /\ normal q = normal p.
Proof.
  revert q. induction p as [s|f ps IH] using prog_ind'; intros q Hin.
  - cbn in Hin. apply in_map_iff in Hin. destruct Hin as [s' [<- _]]. auto.
  - apply insts_fun_In in Hin. destruct Hin as [f' [qs [-> [_ HF]]]]. cbn [pdepth normal].
    assert (H : fold_right (fun a acc => Nat.max (pdepth a) acc) 1 qs = fold_right (fun a acc => Nat.max (pdepth a) acc) 1 ps
                /\ forallb normal qs = forallb normal ps /\ length qs = length ps).
    { induction HF as [|p q ps' qs' Hpq _ IHF]; [auto|]. inversion IH; subst.
      destruct (IHF H2) as [E1 [E2 E3]]. destruct (H1 _ Hpq) as [D N]. cbn. rewrite D, N, E1, E2, E3. auto. }
    destruct H as [E1 [E2 E3]]. rewrite E1, E2, E3. auto.
Qed.

Section Once.
  Variable vt : vtable.
  Variable tbl : table.
  Hypothesis Hv : vt_ok vt.
  Hypothesis Hd : dict_ok vt tbl.
  Let tbl' := inst_table vt tbl.

  Lemma rule_key_clean x s r : rule_of tbl x s = Some r -> clean_key vt s = true.
  Proof.
    intros H. apply rule_of_In in H. destruct H as [rs [Hrs Hin]]. apply rules_of_In in Hrs.
    apply Hd in Hrs. apply Hrs. change s with (fst (s, r)). apply in_map; auto.
  Qed.

  Lemma thread_inj ps :
    Forall (fun p => forall x y p' y' q, der_out tbl x p = Some y -> der_out tbl x p' = Some y' ->
                     In q (insts vt p) -> In q (insts vt p') -> p = p') ps ->
    forall ps2 qs ants y y1 y2,
      thread_out (der_out tbl) ps ants y = Some y1 -> thread_out (der_out tbl) ps2 ants y = Some y2 ->
      Forall2 (fun p q => In q (insts vt p)) ps qs -> Forall2 (fun p q => In q (insts vt p)) ps2 qs -> ps = ps2.
  Proof.
    induction 1 as [|p ps Hp _ IH]; intros ps2 qs ants y y1 y2 Ht Ht2 HF HF2; inversion HF; subst; inversion HF2; subst; [reflexivity|].
    destruct ants as [|[t s] antr]; cbn in Ht, Ht2; [discriminate|].
    destruct (der_out tbl (t, s, y) p) as [ya|] eqn:Ea; [|discriminate].
    destruct (der_out tbl (t, s, y) x) as [yb|] eqn:Eb; [|discriminate].
    assert (p = x) by (eapply Hp; eauto). subst x. rewrite Ea in Eb. inversion Eb; subst yb.
    f_equal. eapply IH; eauto.
  Qed.

  Theorem insts_inj p : forall x y p' y' q, der_out tbl x p = Some y -> der_out tbl x p' = Some y' ->
    In q (insts vt p) -> In q (insts vt p') -> p = p'.
  Proof.
    induction p as [s|f ps IH] using prog_ind'; intros x y p' y' q Hp Hp' Hq Hq'.
    - cbn in Hq. apply in_map_iff in Hq. destruct Hq as [s' [<- Hs']].
      destruct p' as [s2|f2 ps2].
      + cbn in Hq'. apply in_map_iff in Hq'. destruct Hq' as [s2' [E Hs2']]. inversion E; subst s2'.
        cbn [der_out] in Hp, Hp'.
        destruct (rule_of tbl x s) as [r|] eqn:Hr; [|discriminate].
        destruct (rule_of tbl x s2) as [r2|] eqn:Hr2; [|discriminate].
        f_equal. eapply sym_insts_disjoint; eauto using rule_key_clean.
      + apply insts_fun_In in Hq'. destruct Hq' as [f' [qs [E _]]]. discriminate.
    - apply insts_fun_In in Hq. destruct Hq as [f' [qs [-> [Hf HF]]]].
      destruct p' as [s2|f2 ps2].
      + cbn in Hq'. apply in_map_iff in Hq'. destruct Hq' as [s2' [E _]]. discriminate.
      + apply insts_fun_In in Hq'. destruct Hq' as [f'' [qs' [E [Hf2 HF2]]]]. inversion E; subst f'' qs'.
        rewrite der_out_fun in Hp, Hp'.
        destruct (rule_of tbl x f) as [r|] eqn:Hr; [|discriminate].
        destruct (rule_of tbl x f2) as [r2|] eqn:Hr2; [|discriminate].
        assert (f = f2) by (eapply sym_insts_disjoint; eauto using rule_key_clean). subst f2.
        rewrite Hr in Hr2. inversion Hr2; subst r2.
        destruct (Nat.eqb (length (fst r)) (length ps)); [|discriminate].
        destruct (Nat.eqb (length (fst r)) (length ps2)); [|discriminate].
        f_equal. eapply thread_inj; eauto.
  Qed.

  Lemma table_ok_inst : table_ok tbl' = true.
  Proof.
    unfold table_ok, tbl', inst_table. apply forallb_forall. intros [x rs'] Hin.
    apply in_map_iff in Hin. destruct Hin as [[x0 rs] [E Hin]]. cbn [fst snd] in E. inversion E; subst. cbn [snd].
    apply (nodupb_spec sym_eqb sym_eqb_spec). rewrite inst_gen_spec; eauto. apply inst_flat_NoDup; eauto.
  Qed.

  Lemma table_ok_orig : table_ok tbl = true.
  Proof.
    unfold table_ok. apply forallb_forall. intros [x rs] Hin. cbn [snd].
    apply (nodupb_spec sym_eqb sym_eqb_spec). apply (Hd x rs Hin).
  Qed.

  Theorem language_inst_perm f x :
    Permutation (language f tbl' x) (flat_map (insts vt) (language f tbl x)).
  Proof.
    pose proof table_ok_inst as Hok'. pose proof table_ok_orig as Hok.
    apply NoDup_Permutation.
    - apply language_NoDup; auto.
    - apply NoDup_flat_map.
      + apply language_NoDup; auto.
      + intros; apply insts_NoDup; auto.
      + intros p p' q Hp Hp' Hq Hq'.
        apply (language_spec tbl f x p Hok) in Hp. apply (language_spec tbl f x p' Hok) in Hp'.
        destruct Hp as [Hc _], Hp' as [Hc' _]. rewrite contains_der_out in Hc, Hc'.
        destruct (der_out tbl x p) as [y|] eqn:E; [|discriminate].
        destruct (der_out tbl x p') as [y'|] eqn:E'; [|discriminate].
        eapply insts_inj; eauto.
    - intros q. rewrite (language_spec tbl' f x q Hok'), in_flat_map. unfold tbl'. rewrite (contains_inst vt tbl Hv Hd). split.
      + intros [[p [Hc Hi]] [Hdep Hn]]. exists p. split; auto. apply (language_spec tbl f x p Hok).
        destruct (insts_shape vt p q Hi) as [D N]. rewrite <- D, <- N. auto.
      + intros [p [Hp Hi]]. apply (language_spec tbl f x p Hok) in Hp. destruct Hp as [Hc [Hdep Hn]].
        destruct (insts_shape vt p q Hi) as [D N]. rewrite D, N. split; eauto.
  Qed.
End Once.

(** * Mass conservation *)
Local Open Scope Q_scope.

Definition nonempty_for {K R} (vt : vtable) (d : list (K * list (sym * R))) : Prop :=
  forall x rs t o r, In (x, rs) d -> In (SConst t o, r) rs -> values_of vt t <> Some [].

Definition nonempty_forb {K R} (vt : vtable) (d : list (K * list (sym * R))) : bool :=
  forallb (fun xr : K * list (sym * R) =>
             forallb (fun r : sym * R => match fst r with
                                         | SConst t _ => match values_of vt t with Some [] => false | _ => true end
                                         | _ => true
                                         end) (snd xr)) d.

Lemma nonempty_forb_ok {K R} vt (d : list (K * list (sym * R))) : nonempty_forb vt d = true -> nonempty_for vt d.
Proof.
  unfold nonempty_forb, nonempty_for. rewrite forallb_forall. intros H x rs t o r Hin Hr. apply H in Hin. cbn in Hin.
  rewrite forallb_forall in Hin. apply Hin in Hr. cbn in Hr. intros E. rewrite E in Hr. discriminate.
Qed.

Lemma qsum_scale_r {A} (c : Q) (h : A -> Q) l : qsum (map (fun a => h a * c) l) == qsum (map h l) * c.
Proof. induction l as [|a r IH]; qs; [ring|]. rewrite IH; ring. Qed.

Lemma qsum_zero {A} (h : A -> Q) l : (forall a, In a l -> h a == 0) -> qsum (map h l) == 0.
Proof. intros H. rewrite (qsum_ext h (fun _ => 0)); auto. rewrite qsum_const. ring. Qed.

Lemma weight_of_inst vt w x :
  forall s', weight_of (inst_weights vt w) x s' =
             match alookup nt_eqb x w with Some ws => alookup sym_eqb s' (inst_gen qdiv_n vt ws) | None => None end.
Proof.
  intros s'. unfold weight_of, inst_weights. destruct (alookup nt_eqb x w) as [ws|] eqn:E.
  - rewrite (alookup_map_entry nt_eqb nt_eqb_spec (fun xw : nt * list (sym * Q) => inst_gen qdiv_n vt (snd xw)) x w ws E). reflexivity.
  - rewrite (alookup_map_none nt_eqb (fun xw : nt * list (sym * Q) => inst_gen qdiv_n vt (snd xw)) x w E). reflexivity.
Qed.

Section Mass.
  Variable vt : vtable.
  Variable tbl : table.
  Variable w : wtable.
  Hypothesis Hv : vt_ok vt.
  Hypothesis Hd : dict_ok vt tbl.
  Hypothesis Hdw : dict_ok vt w.
  Hypothesis Hne : nonempty_for vt w.
  Let tbl' := inst_table vt tbl.
  Let w' := inst_weights vt w.

  Lemma wt_inst_sum x s : clean_key vt s = true -> qsum (map (wt w' x) (sym_insts vt s)) == wt w x s.
  Proof.
    intros Hc. unfold wt, w'. unfold weight_of at 2.
    destruct (alookup nt_eqb x w) as [ws|] eqn:Ex.
    2:{ apply qsum_zero. intros s' _. rewrite weight_of_inst, Ex. reflexivity. }
    assert (Hk : keys_ok vt ws) by (eapply Hdw; eapply (alookup_In nt_eqb nt_eqb_spec); eauto).
    destruct (alookup sym_eqb s ws) as [q|] eqn:Es.
    2:{ apply qsum_zero. intros s' Hs'. rewrite weight_of_inst, Ex.
        rewrite (inst_lookup_none qdiv_n vt ws s s' Hv Hk Hs' Hc Es). reflexivity. }
    assert (Hall : forall s', In s' (sym_insts vt s) ->
                    weight_of (inst_weights vt w) x s' = Some (payload qdiv_n vt s q)).
    { intros s' Hs'. rewrite weight_of_inst, Ex. apply inst_lookup; auto. exists s, q. auto. }
    rewrite (qsum_ext _ (fun _ => payload qdiv_n vt s q)).
    2:{ intros s' Hs'. rewrite (Hall s' Hs'). reflexivity. }
    rewrite qsum_const. unfold payload.
    destruct s as [n t|i t|t o]; cbn [sym_insts length]; try (cbn; ring).
    destruct (values_of vt t) as [vs|] eqn:Ev; [|cbn; ring].
    rewrite map_length, (dedup_nodup vs) by eauto. unfold qdiv_n.
    assert (Hl : vs <> []).
    { intros ->. eapply Hne; eauto.
      - eapply (alookup_In nt_eqb nt_eqb_spec); eauto.
      - eapply (alookup_In sym_eqb sym_eqb_spec); eauto. }
    field. intros E. destruct vs; [congruence|]. cbn [length] in E.
    assert (H0 : 0 < inject_Z (Z.of_nat (S (length vs)))) by (change 0 with (inject_Z 0); rewrite <- Zlt_Qlt; lia).
    rewrite E in H0. apply (Qlt_irrefl 0); auto.
  Qed.

  Lemma thread_prob_inst_sum ps :
    Forall (fun p => forall x y, der_out tbl x p = Some y -> qsum (map (sprob tbl' w' x) (insts vt p)) == sprob tbl w x p) ps ->
    forall ants y y', thread_out (der_out tbl) ps ants y = Some y' ->
      qsum (map (fun qs => thread_prob (der_out tbl') (sprob tbl' w') qs ants y) (uprods (map (insts vt) ps)))
      == thread_prob (der_out tbl) (sprob tbl w) ps ants y.
  Proof.
    induction 1 as [|p ps Hp _ IH]; intros ants y y' Ht.
    - destruct ants; cbn in Ht; [|discriminate]. cbn. ring.
    - destruct ants as [|[t s] antr]; cbn in Ht; [discriminate|].
      destruct (der_out tbl (t, s, y) p) as [y1|] eqn:Hd1; [|discriminate].
      cbn [map uprods fold_right]. fold (uprods (map (insts vt) ps)).
      rewrite (qsum_flat_map _ _ (fun a => sprob tbl' w' (t, s, y) a * thread_prob (der_out tbl) (sprob tbl w) ps antr y1)).
      + rewrite qsum_scale_r, (Hp _ _ Hd1). cbn [thread_prob]. rewrite Hd1. reflexivity.
      + intros a Ha. rewrite map_map. cbn [thread_prob].
        unfold tbl'. rewrite (der_out_inst vt tbl Hv Hd p _ _ a Hd1 Ha). fold tbl'.
        rewrite (qsum_scale (sprob tbl' w' (t, s, y) a)). rewrite (IH antr y1 y' Ht). reflexivity.
  Qed.

  Theorem sprob_inst_sum p : forall x y, der_out tbl x p = Some y ->
    qsum (map (sprob tbl' w' x) (insts vt p)) == sprob tbl w x p.
  Proof.
    induction p as [s|f ps IH] using prog_ind'; intros x y Hder.
    - cbn [insts sprob]. rewrite map_map. cbn [sprob]. cbn [der_out] in Hder.
      destruct (rule_of tbl x s) as [r|] eqn:Hr; [|discriminate].
      apply wt_inst_sum. eapply rule_key_clean; eauto.
    - rewrite insts_fun, sprob_fun. rewrite der_out_fun in Hder.
      destruct (rule_of tbl x f) as [r|] eqn:Hr; [|discriminate].
      destruct (Nat.eqb (length (fst r)) (length ps)); [|discriminate].
      rewrite (qsum_flat_map _ _ (fun f' => wt w' x f' * thread_prob (der_out tbl) (sprob tbl w) ps (fst r) (snd r))).
      + rewrite qsum_scale_r. rewrite wt_inst_sum; [reflexivity|eapply rule_key_clean; eauto].
      + intros f' Hf'. rewrite map_map.
        assert (Hr' : rule_of tbl' x f' = Some r) by (apply rule_of_inst; eauto).
        rewrite (qsum_ext _ (fun qs => wt w' x f' * thread_prob (der_out tbl') (sprob tbl' w') qs (fst r) (snd r))).
        * rewrite qsum_scale. rewrite (thread_prob_inst_sum ps IH _ _ _ Hder). reflexivity.
        * intros qs _. rewrite sprob_fun, Hr'. reflexivity.
  Qed.

  Theorem mass_conserved x p : contains tbl x p = true ->
    qsum (map (probability tbl' w' x) (insts vt p)) == probability tbl w x p.
  Proof.
    intros Hc. rewrite (probability_member tbl w x p Hc). rewrite contains_der_out in Hc.
    destruct (der_out tbl x p) as [y|] eqn:E; [|discriminate].
    rewrite <- (sprob_inst_sum p x y E). apply qsum_ext. intros q Hq. apply probability_member.
    rewrite contains_der_out. unfold tbl'. rewrite (der_out_inst vt tbl Hv Hd p x y q E Hq). reflexivity.
  Qed.
End Mass.

(** * A well-formed weighted grammar stays well formed *)
Lemma wf_seq_mono (W W' : nt -> bool) (O O' : nt -> list state) :
  (forall x, W x = true -> W' x = true) -> (forall x y, In y (O' x) -> In y (O x)) ->
  forall args y, wf_seq_with W O args y = true -> wf_seq_with W' O' args y = true.
Proof.
  intros HW HO. induction args as [|[t sa] ar IH]; intros y H; cbn in *; auto.
  apply andb_true_iff in H. destruct H as [Hw Hall]. rewrite forallb_forall in Hall.
  apply andb_true_iff. split; auto. apply forallb_forall. intros y' Hy'. apply IH. apply Hall. apply HO. auto.
Qed.

Section Normalised.
  Variable vt : vtable.
  Variable tbl : table.
  Variable w : wtable.
  Hypothesis Hv : vt_ok vt.
  Hypothesis Hd : dict_ok vt tbl.
  Hypothesis Hdw : dict_ok vt w.
  Hypothesis Hne : nonempty_for vt w.
  Let tbl' := inst_table vt tbl.
  Let w' := inst_weights vt w.

  Lemma outs_inst_sub f x y : In y (outs_at f tbl' x) -> In y (outs_at f tbl x).
  Proof.
    unfold outs_at. rewrite !dedup_states_In, !in_map_iff. intros [[q y0] [E Hin]]. cbn in E; subst y0.
    apply (lang_at_spec tbl' (table_ok_inst vt tbl Hv Hd)) in Hin. destruct Hin as [Hder [Hdep Hn]].
    destruct (der_out_inst_inv vt tbl Hv Hd q x y Hder) as [p [Hp Hi]].
    exists (p, y). split; auto. apply (lang_at_spec tbl (table_ok_orig vt tbl Hd)). split; auto.
    destruct (insts_shape vt p q Hi) as [D N]. unfold good. rewrite <- D, <- N. auto.
  Qed.

  Lemma payload_pos s q : (0 < q)%Q -> (forall t o, s = SConst t o -> values_of vt t <> Some []) ->
    (0 < payload qdiv_n vt s q)%Q.
  Proof.
    intros Hq Hn. unfold payload. destruct s as [n t|i t|t o]; auto.
    destruct (values_of vt t) as [vs|] eqn:Ev; auto. unfold qdiv_n, Qdiv.
    apply Qmult_lt_0_compat; auto. apply Qinv_lt_0_compat.
    destruct vs; [exfalso; eapply Hn; eauto|]. change 0%Q with (inject_Z 0). rewrite <- Zlt_Qlt. cbn [length]. lia.
  Qed.

  Theorem wf_inst : forall f x, wf_at f tbl w x = true -> wf_at f tbl' w' x = true.
  Proof.
    induction f as [|f IH]; intros x Hwf; [discriminate|].
    rewrite wf_at_S in *. unfold tbl' at 1. rewrite rules_of_inst.
    destruct (rules_of tbl x) as [rs|] eqn:Hrs; [|discriminate]. cbn [option_map].
    assert (Hk : keys_ok vt rs) by (eapply Hd, rules_of_In; eauto).
    rewrite (inst_gen_spec _ vt rs Hv Hk).
    apply andb_true_iff in Hwf. destruct Hwf as [Hw Hseq]. rewrite forallb_forall in Hseq.
    pose proof (weights_ok_sum _ _ _ _ Hw) as Hsum.
    unfold weights_ok in Hw. rewrite !andb_true_iff in Hw. destruct Hw as [[Hpos _] _]. rewrite forallb_forall in Hpos.
    apply andb_true_iff. split.
    - unfold weights_ok. rewrite !andb_true_iff. split; [split|].
      + apply forallb_forall. intros [s' r'] Hin. cbn [fst].
        apply (inst_flat_In (fun r _ => r) vt rs s' r' Hv) in Hin. destruct Hin as [s [r [Hin [Hs' _]]]].
        specialize (Hpos (s, r) Hin). cbn [fst] in Hpos.
        destruct (weight_of w x s) as [q|] eqn:Hq; [|discriminate].
        unfold weight_of in Hq. destruct (alookup nt_eqb x w) as [ws|] eqn:Ex; [|discriminate].
        assert (Hkw : keys_ok vt ws) by (eapply Hdw; eapply (alookup_In nt_eqb nt_eqb_spec); eauto).
        assert (Hw' : weight_of w' x s' = Some (payload qdiv_n vt s q)).
        { unfold w'. rewrite weight_of_inst, Ex. apply inst_lookup; auto. exists s, q. auto. }
        rewrite Hw'. apply pos_check. apply payload_pos.
        * apply andb_true_iff in Hpos. destruct Hpos as [H1 H2]. apply Qle_bool_iff in H1.
          apply negb_true_iff in H2. apply Qle_lteq in H1. destruct H1 as [H1|H1]; auto.
          exfalso. assert (Qeq_bool q 0 = true) by (apply Qeq_bool_iff; symmetry; auto). congruence.
        * intros t o ->. eapply Hne.
          -- eapply (alookup_In nt_eqb nt_eqb_spec); eauto.
          -- eapply (alookup_In sym_eqb sym_eqb_spec); eauto.
      + apply Qeq_bool_iff. rewrite <- Hsum.
        change (qsum (map (fun r : drule => wt w' x (fst r)) (inst_flat (fun r _ => r) vt rs))
                == qsum (map (fun r : drule => wt w x (fst r)) rs))%Q.
        unfold inst_flat. apply qsum_flat_map. intros [s r] Hin. cbn [fst].
        assert (E : map (fun r0 : drule => wt w' x (fst r0)) (inst_one (fun r0 _ => r0) vt (s, r))
                    = map (wt w' x) (sym_insts vt s)).
        { pose proof (inst_flat_keys (fun (r0 : rhs) (_ : nat) => r0) vt [(s, r)] Hv) as E.
          cbn in E. rewrite !app_nil_r in E. rewrite <- E, map_map. reflexivity. }
        rewrite E. apply (wt_inst_sum vt w Hv Hdw Hne). apply Hk. change s with (fst (s, r)). apply in_map; auto.
      + apply (nodupb_spec sym_eqb sym_eqb_spec). apply inst_flat_NoDup; auto.
    - apply forallb_forall. intros [s' r'] Hin.
      apply (inst_flat_In (fun r _ => r) vt rs s' r' Hv) in Hin. destruct Hin as [s [r [Hin [_ E]]]].
      assert (Hp : payload (fun (r0 : rhs) (_ : nat) => r0) vt s r = r)
        by (unfold payload; destruct s; auto; destruct (values_of vt t); auto).
      rewrite Hp in E. subst r'.
      specialize (Hseq (s, r) Hin). cbn [fst snd] in *.
      eapply wf_seq_mono; [| |exact Hseq]; [apply IH|apply outs_inst_sub].
  Qed.
End Normalised.

(** * Boolean forms of the hypotheses, program-side instantiation, summary statements *)
Definition vt_okb (vt : vtable) : bool := forallb (fun tv : ty * list value => nodupb value_eqb (snd tv)) vt.

Lemma vt_okb_ok vt : vt_okb vt = true -> vt_ok vt.
Proof.
  unfold vt_okb, vt_ok, values_of. rewrite forallb_forall. intros H t vs E.
  apply (alookup_In ty_eqb ty_eqb_spec) in E. apply H in E. cbn in E. apply (nodupb_spec value_eqb value_eqb_spec); auto.
Qed.

Lemma sym_insts_py_spec vt s l : sym_insts_py vt s = Some l -> l = sym_insts vt s.
Proof.
  destruct s as [n t|i t|t o]; cbn; try (intros E; inversion E; reflexivity).
  destruct (values_of vt t); intros E; inversion E; reflexivity.
Qed.

Theorem insts_py_spec vt p : forall l, insts_py vt p = Some l -> l = insts vt p.
Proof.
  induction p as [s|f ps IH] using prog_ind'; intros l.
  - cbn [insts_py insts]. destruct (sym_insts_py vt s) as [l'|] eqn:E; [|discriminate].
    intros H; inversion H. rewrite (sym_insts_py_spec vt s l' E). reflexivity.
  - cbn [insts_py]. rewrite insts_fun. destruct (sym_insts_py vt f) as [fs|] eqn:E; [|discriminate].
    rewrite <- (sym_insts_py_spec vt f fs E).
    destruct fs as [|f0 fs']; [intros H; inversion H; reflexivity|].
    destruct (omapf (fun a => insts_py vt a) ps) as [ls|] eqn:El; [|discriminate].
    intros H; inversion H. clear H H1.
    assert (Hls : ls = map (insts vt) ps).
    { clear E. revert ls El. induction IH as [|p ps Hp _ IHps]; intros ls El; cbn in El.
      - inversion El; reflexivity.
      - destruct (insts_py vt p) as [lp|] eqn:Ep; [|discriminate].
        destruct (omapf (fun a => insts_py vt a) ps) as [lr|] eqn:Er; [|discriminate].
        inversion El. cbn. rewrite (Hp lp eq_refl), (IHps lr eq_refl). reflexivity. }
    rewrite Hls. reflexivity.
Qed.

Theorem sum_after_inst vt tbl w f x :
  vt_okb vt = true -> dict_okb vt tbl = true -> dict_okb vt w = true -> nonempty_forb vt w = true ->
  wf_at f tbl w x = true ->
  (qsum (map (probability (inst_table vt tbl) (inst_weights vt w) x) (language f (inst_table vt tbl) x)) == 1)%Q.
Proof.
  intros Hv Hd Hdw Hne Hwf. apply vt_okb_ok in Hv. apply dict_okb_ok in Hd. apply dict_okb_ok in Hdw.
  apply nonempty_forb_ok in Hne. apply sum_to_one.
  - apply table_ok_inst; auto.
  - apply wf_inst; auto.
Qed.

(** * Witnesses *)
Module CExample.
  Local Open Scope Q_scope.
  Definition int := TPrim 0.
  Definition one := SPrim 1 int.
  Definition neg := SPrim 2 (TArrow int int).
  Definition slot := SConst int None.
  Definition x0 : nt := (int, A 0%Z, A 0%Z).
  Definition x1 : nt := (int, A 1%Z, A 0%Z).
  (** x0 -> 1 | <int> | neg x1 ;  x1 -> 1 | <int> *)
  Definition tbl : table :=
    [ (x0, [ (one, ([], A 0%Z)); (slot, ([], A 0%Z)); (neg, ([(int, A 1%Z)], A 0%Z)) ]);
      (x1, [ (one, ([], A 0%Z)); (slot, ([], A 0%Z)) ]) ].
  Definition w : wtable :=
    [ (x0, [ (one, 1 # 4); (slot, 1 # 2); (neg, 1 # 4) ]); (x1, [ (one, 1 # 2); (slot, 1 # 2) ]) ].
  Definition vt2 : vtable := [ (int, [VInt 5; VInt 6]) ].
  Definition vt_empty : vtable := [ (int, []) ].
  Definition vt_dup : vtable := [ (int, [VInt 5; VInt 5]) ].

  (** the hypotheses of the theorems are satisfiable, language 4 -> 9 programs *)
  Example ex_hyps : vt_okb vt2 = true /\ dict_okb vt2 tbl = true /\ dict_okb vt2 w = true /\ nonempty_forb vt2 w = true
                    /\ wf_at 3 tbl w x0 = true /\ wf_at 3 (inst_table vt2 tbl) (inst_weights vt2 w) x0 = true
                    /\ length (language 3 tbl x0) = 4%nat /\ length (language 3 (inst_table vt2 tbl) x0) = 6%nat.
  Proof. vm_compute. repeat split; reflexivity. Qed.

  (** an empty list of values loses the mass of the slot: the sum drops to 3/8 *)
  Example ex_empty : wf_at 3 tbl w x0 = true /\ vt_okb vt_empty = true /\ dict_okb vt_empty tbl = true /\ dict_okb vt_empty w = true
                     /\ qsum (map (probability (inst_table vt_empty tbl) (inst_weights vt_empty w) x0)
                                  (language 3 (inst_table vt_empty tbl) x0)) == 3 # 8.
  Proof. vm_compute. repeat split; reflexivity. Qed.

  (** pinned weights: values [5; 5] create one rule that carries half of the slot's mass *)
  Example ex_dup_pinned :
    weight_of (inst_weights_pinned vt_dup w) x0 (SConst int (Some (VInt 5))) = Some ((1 # 2) / inject_Z 2)
    /\ length (language 3 (inst_table vt_dup tbl) x0) = 4%nat
    /\ qsum (map (probability (inst_table vt_dup tbl) (inst_weights_pinned vt_dup w) x0)
                 (language 3 (inst_table vt_dup tbl) x0)) == 11 # 16.
  Proof. vm_compute. repeat split; reflexivity. Qed.

  (** repaired weights: the single rule carries the whole mass of the slot *)
  Example ex_dup_repaired :
    qsum (map (probability (inst_table vt_dup tbl) (inst_weights vt_dup w) x0) (language 3 (inst_table vt_dup tbl) x0)) == 1.
  Proof. vm_compute. reflexivity. Qed.
End CExample.
