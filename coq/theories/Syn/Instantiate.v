(** Model of [DSL.instantiate_polymorphic_types] (synth/syntax/dsl.py:36-103)
    and of the type-system functions it calls (synth/syntax/type_system.py:
    decompose_type, can_be / is_instance, unify, size, all_versions,
    arguments, without_unit_arguments, the [__eq__] methods).

    A syntax is the list of (primitive name, declared type) in the order of
    [DSL.list_primitives].  Python [set]s are modelled as duplicate-free lists
    under structural equality: set membership is "same hash and [__eq__]", the
    hashes are structural except that a restricted variable hashes by its name
    only, so on syntaxes whose restricted variables carry the same annotation
    at every occurrence (documented requirement) this is structural equality
    (64-bit hash collisions are outside the model).  The iteration order of a
    set never reaches the observables that are compared (sorted lists).
    Python [list] operations ([in], [remove]) use [__eq__] alone: modelled by
    [ty_eqb_py].

    Two switches select the behaviour of the pinned code or of the proposed
    repair (proposed_fixes/C14-1.diff):
      [fu] = true: [without_unit_arguments] drops every unit argument
             (pinned: looks at the first arrow only);
      [fd] = true: sum expansion and unit removal do not create duplicates
             (pinned: versions appended unconditionally, unit removal in place).
    [instantiate] is the repaired behaviour (all theorems of Props/C14.v),
    [instantiate_pinned] the code as it is. *)
From Coq Require Import ZArith NArith List Bool Arith.
From PS Require Import Base.ListX Base.Ty.
Import ListNotations.

Definition N_LIST : N := 2%N.     (* "list"  (harness/lib/semantics.py TYPE_NAMES) *)
Definition N_UNIT : N := 4%N.     (* "unit" *)
Definition UNIT : ty := TPrim N_UNIT.
Definition TList (t : ty) : ty := TGeneric N_LIST [t].

Definition prim : Type := (N * ty)%type.

(** ** Python equality of types ([__eq__]).
    PrimitiveType, Arrow: structural.  Generic: same name and the arguments
    zipped (the shorter list decides).  PolymorphicType: same name, and a
    restricted variable never equals an unrestricted one (the subclass's
    reflected [__eq__] runs first and answers False).  FixedPolymorphicType:
    the two lists of allowed types are equal as sets, the name is ignored.
    Sum: the alternatives are equal as sets. *)
Definition set_eqb (l l' : list ty) : bool :=
  forallb (fun x => memb ty_eqb x l') l && forallb (fun y => memb ty_eqb y l) l'.

Fixpoint zip_all (f : ty -> ty -> bool) (l l' : list ty) : bool :=
  match l, l' with
  | x :: r, y :: r' => f x y && zip_all f r r'
  | _, _ => true
  end.

Fixpoint ty_eqb_py (a b : ty) {struct a} : bool :=
  match a, b with
  | TPrim n, TPrim m => N.eqb n m
  | TArrow a1 a2, TArrow b1 b2 => ty_eqb_py a1 b1 && ty_eqb_py a2 b2
  | TGeneric n l, TGeneric m l' =>
    N.eqb n m &&
    (fix go (l l' : list ty) : bool :=
       match l, l' with
       | x :: r, y :: r' => ty_eqb_py x y && go r r'
       | _, _ => true
       end) l l'
  | TPoly n, TPoly m => N.eqb n m
  | TFixedPoly _ l, TFixedPoly _ l' => set_eqb l l'
  | TSum l, TSum l' => set_eqb l l'
  | TUnknown, TUnknown => true
  | _, _ => false
  end.

Definition prim_eqb_py (p q : prim) : bool :=
  N.eqb (fst p) (fst q) && ty_eqb_py (snd p) (snd q).

(** [x in l] and [l.remove(x)] of a Python list: the item is the left operand. *)
Definition memb_py (x : prim) (l : list prim) : bool := existsb (fun y => prim_eqb_py y x) l.
Fixpoint remove_first_py (x : prim) (l : list prim) : list prim :=
  match l with
  | [] => []
  | y :: r => if prim_eqb_py y x then r else y :: remove_first_py x r
  end.

(** ** decompose_type *)
Fixpoint base_prims (t : ty) : list N :=
  match t with
  | TPrim n => [n]
  | TArrow a b => base_prims a ++ base_prims b
  | TGeneric _ l => flat_map base_prims l
  | TSum l => flat_map base_prims l
  | _ => []
  end.

Fixpoint poly_vars (t : ty) : list ty :=
  match t with
  | TPoly _ => [t]
  | TFixedPoly _ _ => [t]
  | TArrow a b => poly_vars a ++ poly_vars b
  | TGeneric _ l => flat_map poly_vars l
  | TSum l => flat_map poly_vars l
  | _ => []
  end.

Definition var_name (v : ty) : N :=
  match v with TPoly n => n | TFixedPoly n _ => n | _ => 0%N end.

Fixpoint dedup {X} (eqb : X -> X -> bool) (l : list X) : list X :=
  match l with
  | [] => []
  | x :: r => if memb eqb x r then dedup eqb r else x :: dedup eqb r
  end.

(** ** is_polymorphic, sums *)
Fixpoint is_polymorphic (t : ty) : bool :=
  match t with
  | TPoly _ => true
  | TFixedPoly _ _ => true
  | TArrow a b => is_polymorphic a || is_polymorphic b
  | TGeneric _ l => existsb is_polymorphic l
  | TSum l => existsb is_polymorphic l
  | _ => false
  end.

(** a sum anywhere outside a restriction annotation *)
Fixpoint has_sum (t : ty) : bool :=
  match t with
  | TSum _ => true
  | TArrow a b => has_sum a || has_sum b
  | TGeneric _ l => existsb has_sum l
  | _ => false
  end.

(** ** is_instance: [arg_is_a x t] is [x.__arg_is_a__(t)], i.e. [t.is_instance(x)]. *)
Fixpoint arg_is_a (x t : ty) {struct x} : bool :=
  match x with
  | TPrim _ => ty_eqb_py t x
  | TUnknown => ty_eqb_py t x
  | TPoly _ => true
  | TArrow a b => match t with TArrow c d => arg_is_a a c && arg_is_a b d | _ => false end
  | TGeneric n xs =>
    match t with
    | TGeneric m ts => N.eqb m n && forallb (fun tt => existsb (fun x' => arg_is_a x' tt) xs) ts
    | _ => false
    end
  | TFixedPoly _ xs =>
    match t with
    | TSum ts => forallb (fun tt => existsb (fun x' => arg_is_a x' tt) xs) ts
    | TFixedPoly _ ts => forallb (fun tt => existsb (fun x' => arg_is_a x' tt) xs) ts
    | _ => existsb (fun x' => arg_is_a x' t) xs
    end
  | TSum xs =>
    match t with
    | TSum ts => forallb (fun tt => existsb (fun x' => arg_is_a x' tt) xs) ts
    | TFixedPoly _ ts => forallb (fun tt => existsb (fun x' => arg_is_a x' tt) xs) ts
    | _ => existsb (fun x' => arg_is_a x' t) xs
    end
  end.

(** [v.can_be(t)] for a type variable [v]. *)
Definition can_be (v t : ty) : bool :=
  match v with
  | TPoly _ => true
  | TFixedPoly _ _ => arg_is_a v t
  | _ => false
  end.

(** ** unify with a one-entry dictionary *)
Fixpoint unify1 (n : N) (s : ty) (t : ty) : ty :=
  match t with
  | TPoly m => if N.eqb m n then s else t
  | TFixedPoly m _ => if N.eqb m n then s else t
  | TArrow a b => TArrow (unify1 n s a) (unify1 n s b)
  | TGeneric g l => TGeneric g (map (unify1 n s) l)
  | TSum l => TSum (map (unify1 n s) l)
  | _ => t
  end.

(** ** all_versions *)
Fixpoint list_product {X} (ls : list (list X)) : list (list X) :=
  match ls with
  | [] => [[]]
  | l :: rest => flat_map (fun x => map (cons x) (list_product rest)) l
  end.

Fixpoint all_versions (t : ty) : list ty :=
  match t with
  | TArrow a b => flat_map (fun x => map (TArrow x) (all_versions b)) (all_versions a)
  | TGeneric n l => map (TGeneric n) (list_product (map all_versions l))
  | TSum l => flat_map all_versions l
  | _ => [t]
  end.

(** ** unit arguments *)
Definition is_unit (t : ty) : bool := ty_eqb_py t UNIT.

(** pinned: only the first arrow is inspected, and an argument [x -> unit]
    is replaced by [x]. *)
Definition without_unit_pinned (t : ty) : ty :=
  match t with
  | TArrow a b =>
    if is_unit a then b
    else match a with
         | TArrow a1 a2 => if is_unit a2 then TArrow a1 b else t
         | _ => t
         end
  | _ => t
  end.

(** repaired: every argument equal to unit is dropped. *)
Fixpoint without_unit (t : ty) : ty :=
  match t with
  | TArrow a b => if is_unit a then without_unit b else TArrow a (without_unit b)
  | _ => t
  end.

Definition has_unit_arg (t : ty) : bool := existsb is_unit (arguments t).

(** ** the type universe (dsl.py:45-62) *)
Definition basic_types (syn : list prim) : list N :=
  filter (fun n => negb (N.eqb n N_UNIT)) (dedup N.eqb (flat_map (fun p => base_prims (snd p)) syn)).

Definition universe (B : list N) : list ty :=
  dedup ty_eqb
    (map TPrim B ++
     flat_map (fun b => TList (TPrim b) :: TList (TList (TPrim b)) :: map (fun b2 => TArrow (TPrim b) (TPrim b2)) B) B).

(** ** the substitution loop (dsl.py:69-84) *)
Definition inst_step (U : list ty) (bound : nat) (cur : list ty) (v : ty) : list ty :=
  dedup ty_eqb
    (flat_map (fun s => if can_be v s && (ty_size s <=? bound)
                        then map (unify1 (var_name v) s) cur else []) U).

Definition type_vars (t : ty) : list ty := dedup ty_eqb (poly_vars t).

Definition instances (U : list ty) (bound : nat) (t : ty) : list ty :=
  fold_left (inst_step U bound) (type_vars t) [t].

(** ** the three loops.  Each iterates over a copy of the list and edits the
    list itself. *)
Definition gappend (L : list prim) (news : list prim) : list prim :=
  fold_left (fun L x => if memb_py x L then L else L ++ [x]) news L.

Definition replace_step (active : prim -> bool) (news : prim -> list ty) (L : list prim) (P : prim) : list prim :=
  if active P then remove_first_py P (gappend L (map (pair (fst P)) (news P))) else L.

Definition replace_loop active news (L : list prim) : list prim :=
  fold_left (replace_step active news) L L.

(* loop 1: dsl.py:65-89 *)
Definition poly_active (P : prim) : bool := match poly_vars (snd P) with [] => false | _ => true end.
Definition loop_poly (U : list ty) (bound : nat) : list prim -> list prim :=
  replace_loop poly_active (fun P => instances U bound (snd P)).

(* loop 2: dsl.py:92-98 *)
Definition sum_active (P : prim) : bool := 1 <? length (all_versions (snd P)).
Definition loop_sum : list prim -> list prim :=
  replace_loop sum_active (fun P => all_versions (snd P)).
Definition loop_sum_pinned (L : list prim) : list prim :=
  fold_left (fun L P => if sum_active P
                        then remove_first_py P (L ++ map (pair (fst P)) (all_versions (snd P)))
                        else L) L L.

(* loop 3: dsl.py:101-103 *)
Definition unit_active (P : prim) : bool := has_unit_arg (snd P).
Definition loop_unit (wu : ty -> ty) : list prim -> list prim :=
  replace_loop unit_active (fun P => [wu (snd P)]).
Definition loop_unit_pinned (wu : ty -> ty) (L : list prim) : list prim :=
  map (fun P => if unit_active P then (fst P, wu (snd P)) else P) L.

Definition instantiate_gen (fu fd : bool) (bound : nat) (syn : list prim) : list prim :=
  let U := universe (basic_types syn) in
  let wu := if fu then without_unit else without_unit_pinned in
  let L1 := loop_poly U bound syn in
  let L2 := if fd then loop_sum L1 else loop_sum_pinned L1 in
  if fd then loop_unit wu L2 else loop_unit_pinned wu L2.

Definition instantiate : nat -> list prim -> list prim := instantiate_gen true true.
Definition instantiate_pinned : nat -> list prim -> list prim := instantiate_gen false false.

(** ** the pinned behaviour up to the iteration order of Python sets.
    Which of several instances that are equal for [__eq__] (sums whose
    alternatives are permuted or repeated) survives the [not in] test of loop 1
    depends on the iteration order of a set of types, and in the pinned code
    (versions appended unguarded) that choice shows in the multiplicities of
    the result.  [pinned_groups] lists, for every declared primitive, the
    classes of its instances under [ty_eqb_py]; for every member of a class,
    what the pinned code yields after one and after two calls if that member is
    the one kept.  The known-finding classifier accepts an implementation
    answer iff it is the union of one alternative per class. *)
Fixpoint py_class_insert (x : ty) (cs : list (list ty)) : list (list ty) :=
  match cs with
  | [] => [[x]]
  | c :: r => if existsb (fun y => ty_eqb_py y x) c then (c ++ [x]) :: r else c :: py_class_insert x r
  end.
Definition py_classes (l : list ty) : list (list ty) := fold_left (fun cs x => py_class_insert x cs) l [].

Definition pinned_alt (bound : nat) (p : prim) : list prim * list prim :=
  let once := loop_unit_pinned without_unit_pinned (loop_sum_pinned [p]) in
  (once, instantiate_pinned bound once).

Definition pinned_groups (bound : nat) (syn : list prim) : list (list (list prim * list prim)) :=
  let U := universe (basic_types syn) in
  flat_map (fun P => if poly_active P
                     then map (fun cls => map (fun t => pinned_alt bound (fst P, t)) cls)
                              (py_classes (instances U bound (snd P)))
                     else [[pinned_alt bound P]]) syn.
