(** Property C16, first half: equality and hashing of every type class and
    program class of ProgSynth (synth/syntax/type_system.py, program.py), as
    the constructors can build them.

    Two models live here.

    - The *abstract repaired* model [ty_eq]/[prog_eq] and [ty_key]/[prog_key]:
      the behaviour after the proposed repairs C16-1..C16-5 (see the comments
      at each constructor).  The theorems of Props/C16.v are about it.  Set
      based comparisons ([Sum], [FixedPolymorphicType]) are written as mutual
      inclusion modulo [==]; that is what CPython's [set] operations compute
      when [==] is an equivalence that agrees with [hash], which is exactly
      what is proved (EqHashProofs.v).

    - The *literal* model [lit_ty_eq]/[lit_ty_key], [lit_prog_eq]/[lit_prog_key]:
      a line by line transcription of every [__eq__] and of every tuple a
      constructor feeds to [hash()], including Python's operand order, the
      reflected-operand rule of [==] for subclasses, short-circuiting, and
      CPython's hash-then-equality set algorithms (construction of [set],
      [symmetric_difference]).  It is parametrised by the set of repairs that
      are applied ([fixes]); [pinned] (none applied) is the code as it is at
      the pinned commit, and the [..._refuted] theorems are about it.  It runs
      on explicit fuel ([None] = out of fuel, never produced for the fuel the
      glue supplies).

    Strings and integers are hashed by arbitrary per-process functions (a
    record [hashers], quantified in the theorems); a cached hash is
    [hash_of H key] for the key tree below.  Python guarantees equal keys give
    equal hashes; the converse (distinct keys give distinct hashes) is only
    *assumed*, and only where the comments say so (refutation witnesses are
    stated with a concrete collision-free hasher, and the correspondence
    check treats a hash collision between distinct keys as not expected). *)
From Coq Require Import ZArith NArith List Bool.
From PS Require Import Base.ListX Base.Sexp.
Import ListNotations.

(** * Python strings that matter for [str(value)] *)

(** [SLit n]: an interned string literal that is not the [str()] of a modelled
    number/boolean/None (names of types and primitives, ordinary string
    constants).  The other constructors are the renderings [str] produces:
    ["12"], ["12.0"], ["True"], ["False"], ["None"]; a string constant may
    carry one of those texts (e.g. the constant ["1"]). *)
Inductive pystr : Type :=
| SLit (n : N)
| SDec (z : Z)
| SDecDot0 (z : Z)
| STrue
| SFalse
| SNoneS.

Definition pystr_eqb (a b : pystr) : bool :=
  match a, b with
  | SLit n, SLit m => N.eqb n m
  | SDec x, SDec y => Z.eqb x y
  | SDecDot0 x, SDecDot0 y => Z.eqb x y
  | STrue, STrue => true
  | SFalse, SFalse => true
  | SNoneS, SNoneS => true
  | _, _ => false
  end.

(** * Values a [Constant] may hold: None, ints, integer-valued floats (below
    1e16 in absolute value so that [str] prints "z.0"), bools, strings. *)
Inductive cval : Type :=
| CNone
| CInt (z : Z)
| CFloat (z : Z)
| CBool (b : bool)
| CStr (s : pystr).

(** Python's [str(value)]. *)
Definition py_str (v : cval) : pystr :=
  match v with
  | CNone => SNoneS
  | CInt z => SDec z
  | CFloat z => SDecDot0 z
  | CBool true => STrue
  | CBool false => SFalse
  | CStr s => s
  end.

Definition num_of (v : cval) : option Z :=
  match v with
  | CInt z => Some z
  | CFloat z => Some z
  | CBool b => Some (if b then 1%Z else 0%Z)
  | _ => None
  end.

(** Python's [v == w] on those values: numbers (bools included) by numeric
    value, strings by text, None only to None. *)
Definition val_eq (v w : cval) : bool :=
  match v, w with
  | CNone, CNone => true
  | CStr s, CStr t => pystr_eqb s t
  | _, _ => match num_of v, num_of w with
            | Some x, Some y => Z.eqb x y
            | _, _ => false
            end
  end.

(** State of a Constant: ([value], [_has_value]).  The constructor computes
    [_has_value = has_value or value is not None]; [assign]/[reset] reach the
    same states.  [CUnset] is (None, False), [CSet v] is (v, True). *)
Inductive cstate : Type :=
| CUnset
| CSet (v : cval).

Definition cs_value (c : cstate) : cval := match c with CUnset => CNone | CSet v => v end.
Definition cs_flag (c : cstate) : bool := match c with CUnset => false | CSet _ => true end.
Definition is_none (v : cval) : bool := match v with CNone => true | _ => false end.
(** [Constant(type, value, has_value)] with [has_value] None / True / False. *)
Definition mk_cstate (v : cval) (hv : option bool) : cstate :=
  if (match hv with Some true => true | _ => false end) || negb (is_none v) then CSet v else CUnset.

(** * Objects *)

Inductive oty : Type :=
| OPrim (n : N)                                   (* PrimitiveType(type_name) *)
| OArrow (a b : oty)                              (* Arrow(type_in, type_out) *)
| OGeneric (n : N) (ts : list oty) (infix : bool) (* Generic(name, *types, infix=) *)
| OPoly (n : N)                                   (* PolymorphicType(name) *)
| OFixed (n : N) (ts : list oty)                  (* FixedPolymorphicType(name, *types) *)
| OSum (ts : list oty)                            (* Sum of types *)
| OUnknown.                                       (* UnknownType() *)

Inductive oprog : Type :=
| OPrimitive (n : N) (t : oty)                    (* Primitive(primitive, type) *)
| OVariable (i : N) (t : oty)                     (* Variable(variable, type) *)
| OConstant (t : oty) (c : cstate)                (* Constant(type, value, has_value) *)
| OFunction (f : oprog) (args : list oprog)       (* Function(function, arguments): any head *)
| OLambda (body : oprog) (t : oty).               (* Lambda(body, type) *)

Section OtyInd.
  Variable P : oty -> Prop.
  Hypothesis HPrim : forall n, P (OPrim n).
  Hypothesis HArrow : forall a b, P a -> P b -> P (OArrow a b).
  Hypothesis HGen : forall n l i, Forall P l -> P (OGeneric n l i).
  Hypothesis HPoly : forall n, P (OPoly n).
  Hypothesis HFixed : forall n l, Forall P l -> P (OFixed n l).
  Hypothesis HSum : forall l, Forall P l -> P (OSum l).
  Hypothesis HUnk : P OUnknown.
  Fixpoint oty_ind' (t : oty) : P t :=
    let fix go (l : list oty) : Forall P l :=
      match l with
      | [] => Forall_nil _
      | x :: r => Forall_cons _ (oty_ind' x) (go r)
      end in
    match t with
    | OPrim n => HPrim n
    | OArrow a b => HArrow a b (oty_ind' a) (oty_ind' b)
    | OGeneric n l i => HGen n l i (go l)
    | OPoly n => HPoly n
    | OFixed n l => HFixed n l (go l)
    | OSum l => HSum l (go l)
    | OUnknown => HUnk
    end.
End OtyInd.

Section OprogInd.
  Variable P : oprog -> Prop.
  Hypothesis HPrimitive : forall n t, P (OPrimitive n t).
  Hypothesis HVariable : forall i t, P (OVariable i t).
  Hypothesis HConstant : forall t c, P (OConstant t c).
  Hypothesis HFunction : forall f l, P f -> Forall P l -> P (OFunction f l).
  Hypothesis HLambda : forall b t, P b -> P (OLambda b t).
  Fixpoint oprog_ind' (p : oprog) : P p :=
    let fix go (l : list oprog) : Forall P l :=
      match l with
      | [] => Forall_nil _
      | x :: r => Forall_cons _ (oprog_ind' x) (go r)
      end in
    match p with
    | OPrimitive n t => HPrimitive n t
    | OVariable i t => HVariable i t
    | OConstant t c => HConstant t c
    | OFunction f l => HFunction f l (oprog_ind' f) (go l)
    | OLambda b t => HLambda b t (oprog_ind' b)
    end.
End OprogInd.

(** * Hash keys *)

(** The tree a constructor feeds to [hash()].  [KAtomI] also stands for
    booleans ([hash(True) = hash(1)]).  [KOffset z k] is [hash(z + hash(k))]
    (Lambda).  [KSet l] is a frozenset whose (already deduplicated) members
    have keys [l]: its hash does not depend on the order of [l]. *)
Inductive key : Type :=
| KAtomS (s : pystr)
| KAtomI (z : Z)
| KTuple (l : list key)
| KOffset (z : Z) (k : key)
| KSet (l : list key).

Section All2.
  Context {X Y : Type} (f : X -> Y -> bool).
  (** [all(f x y for x, y in zip(l, l'))]: stops at the shorter list. *)
  Fixpoint all2 (l : list X) (l' : list Y) : bool :=
    match l, l' with
    | x :: r, y :: r' => f x y && all2 r r'
    | _, _ => true
    end.
End All2.

Fixpoint remove_first {X : Type} (p : X -> bool) (l : list X) : option (list X) :=
  match l with
  | [] => None
  | y :: r => if p y then Some r
              else match remove_first p r with Some r' => Some (y :: r') | None => None end
  end.

Section Msub.
  Context {X : Type} (eqv : X -> X -> bool).
  (** multiset equality modulo [eqv] by repeated removal *)
  Fixpoint mseq (l l' : list X) : bool :=
    match l with
    | [] => match l' with [] => true | _ => false end
    | x :: r => match remove_first (eqv x) l' with
                | Some l'' => mseq r l''
                | None => false
                end
    end.
End Msub.

(** Equality of keys (hence of hashes, for every hasher): structural, except
    that frozenset keys are compared as multisets. *)
Fixpoint key_eqv (a b : key) {struct a} : bool :=
  match a, b with
  | KAtomS s, KAtomS t => pystr_eqb s t
  | KAtomI x, KAtomI y => Z.eqb x y
  | KTuple l, KTuple l' => Nat.eqb (length l) (length l') && all2 key_eqv l l'
  | KOffset z k, KOffset z' k' => Z.eqb z z' && key_eqv k k'
  | KSet l, KSet l' => mseq key_eqv l l'
  | _, _ => false
  end.

(** The per-process hash functions: of strings (seeded by PYTHONHASHSEED), of
    integers, of tuples (from the members' hashes), of frozensets. *)
Record hashers : Type := {
  h_str : pystr -> Z;
  h_int : Z -> Z;
  h_tup : list Z -> Z;
  h_set : list Z -> Z
}.

Fixpoint hash_of (H : hashers) (k : key) : Z :=
  match k with
  | KAtomS s => h_str H s
  | KAtomI z => h_int H z
  | KTuple l => h_tup H (map (hash_of H) l)
  | KOffset z k' => h_int H (z + hash_of H k')%Z
  | KSet l => h_set H (map (hash_of H) l)
  end.

(** * Abstract repaired model *)

Fixpoint ty_eq (a b : oty) {struct a} : bool :=
  match a, b with
  | OPrim n, OPrim m => N.eqb n m
  | OArrow a1 a2, OArrow b1 b2 => ty_eq a1 b1 && ty_eq a2 b2
  | OGeneric n ts _, OGeneric m us _ =>
    (* C16-3: arities are compared; [infix] is only used by __str__ *)
    N.eqb n m && Nat.eqb (length ts) (length us) && all2 ty_eq ts us
  | OPoly n, OPoly m => N.eqb n m
    (* OPoly vs OFixed: FixedPolymorphicType is a subclass of PolymorphicType,
       so Python runs the reflected FixedPolymorphicType.__eq__ first, whose
       isinstance test fails: False in both directions *)
  | OFixed n ts, OFixed m us =>
    (* C16-5: names are compared; members as sets *)
    N.eqb n m
    && forallb (fun x => existsb (ty_eq x) us) ts
    && forallb (fun y => existsb (fun x => ty_eq x y) ts) us
  | OSum ts, OSum us =>
    forallb (fun x => existsb (ty_eq x) us) ts
    && forallb (fun y => existsb (fun x => ty_eq x y) ts) us
  | OUnknown, OUnknown => true
  | _, _ => false
  end.

(** members kept by [set]/[frozenset(...)]: first occurrence of each
    [==]-class; as a mask so that it can be applied to the list of keys *)
Section Dedup.
  Context {X : Type} (eqb : X -> X -> bool).
  Fixpoint dedup_mask_acc (seen : list X) (l : list X) : list bool :=
    match l with
    | [] => []
    | x :: r => if existsb (fun y => eqb y x) seen then false :: dedup_mask_acc seen r
                else true :: dedup_mask_acc (seen ++ [x]) r
    end.
  Definition dedup_mask (l : list X) : list bool := dedup_mask_acc [] l.
End Dedup.
Fixpoint select {X : Type} (mask : list bool) (l : list X) : list X :=
  match mask, l with
  | true :: m, x :: r => x :: select m r
  | false :: m, _ :: r => select m r
  | _, _ => []
  end.
Definition dedup {X : Type} (eqb : X -> X -> bool) (l : list X) : list X := select (dedup_mask eqb l) l.

Fixpoint ty_key (t : oty) : key :=
  match t with
  | OPrim n => KAtomS (SLit n)                           (* hash(type_name) *)
  | OArrow a b => KTuple [ty_key a; ty_key b]            (* hash((type_in, type_out)) *)
  | OGeneric n ts _ => KTuple [KAtomS (SLit n); KTuple (map ty_key ts)]   (* hash((name, types)) *)
  | OPoly n => KAtomS (SLit n)                           (* hash(name) *)
  | OFixed n _ => KAtomS (SLit n)                        (* hash(name), inherited *)
  | OSum ts => KSet (select (dedup_mask ty_eq ts) (map ty_key ts))   (* C16-2: hash(frozenset(types)) *)
  | OUnknown => KAtomI 1984                              (* hash(1984) *)
  end.

Definition cstate_eq (c d : cstate) : bool :=
  (* C16-4: value == value, same [_has_value], same str(value) *)
  val_eq (cs_value c) (cs_value d)
  && Bool.eqb (cs_flag c) (cs_flag d)
  && pystr_eqb (py_str (cs_value c)) (py_str (cs_value d)).

Fixpoint prog_eq (a b : oprog) {struct a} : bool :=
  match a, b with
  | OPrimitive n t, OPrimitive m u => N.eqb n m && ty_eq t u
  | OVariable i _, OVariable j _ => N.eqb i j
  | OConstant t c, OConstant u d => ty_eq t u && cstate_eq c d
  | OFunction f l, OFunction g l' =>
    prog_eq f g && Nat.eqb (length l) (length l') && all2 prog_eq l l'
  | OLambda x _, OLambda y _ => prog_eq x y
  | _, _ => false
  end.

Definition of_bool (b : bool) : Z := if b then 1%Z else 0%Z.

Fixpoint prog_key (p : oprog) : key :=
  match p with
  | OPrimitive n t => KTuple [KAtomS (SLit n); ty_key t]        (* hash((primitive, type)) *)
  | OVariable i _ => KAtomI (Z.of_N i)                          (* C16-1: hash(variable) *)
  | OConstant t c =>                                            (* hash((str(value), _has_value, type)) *)
    KTuple [KAtomS (py_str (cs_value c)); KAtomI (of_bool (cs_flag c)); ty_key t]
  | OFunction f l => KTuple (map prog_key l ++ [prog_key f])    (* hash(tuple(arguments + [function])) *)
  | OLambda b _ => KOffset 94135 (prog_key b)                   (* hash(94135 + hash(body)) *)
  end.

(** Any object: [==] between a type and a program is False (the isinstance
    tests fail in both classes). *)
Inductive obj : Type :=
| OT (t : oty)
| OP (p : oprog).
Definition py_eq (a b : obj) : bool :=
  match a, b with
  | OT t, OT u => ty_eq t u
  | OP p, OP q => prog_eq p q
  | _, _ => false
  end.
Definition hash_key (a : obj) : key :=
  match a with OT t => ty_key t | OP p => prog_key p end.

(** * Literal model, parametrised by the repairs applied *)

Record fixes : Type := {
  fx_var : bool;      (* C16-1  Variable.hash = hash(variable) *)
  fx_sum : bool;      (* C16-2  Sum.hash = hash(frozenset(types)) *)
  fx_generic : bool;  (* C16-3  Generic.__eq__ compares len(types) *)
  fx_const : bool;    (* C16-4  Constant.__eq__ compares _has_value and str(value) too *)
  fx_fixed : bool     (* C16-5  FixedPolymorphicType.__eq__ compares name *)
}.
Definition pinned : fixes := Build_fixes false false false false false.
Definition repaired : fixes := Build_fixes true true true true true.

Section SetOps.
  (** CPython sets of objects: entries are kept with their hash key; a probe
      matches a stored entry when the hashes agree (here: keys agree, no
      accidental collision) and [stored == probe]. *)
  Variable eqf : oty -> oty -> option bool.
  Definition entry : Type := (key * oty)%type.

  (** [None]: out of fuel.  [Some None]: not found.  [Some (Some s')]: found,
      [s'] is the table without the entry that matched. *)
  Fixpoint s_split (k : key) (x : oty) (s : list entry) : option (option (list entry)) :=
    match s with
    | [] => Some None
    | (k', y) :: r =>
      do hit <- (if key_eqv k' k then eqf y x else Some false);
      if hit then Some (Some r)
      else do res <- s_split k x r;
           Some (match res with Some r' => Some ((k', y) :: r') | None => None end)
    end.

  (** [set(l)] *)
  Fixpoint s_build (s : list entry) (l : list entry) : option (list entry) :=
    match l with
    | [] => Some s
    | (k, x) :: r =>
      do res <- s_split k x s;
      match res with
      | Some _ => s_build s r
      | None => s_build (s ++ [(k, x)]) r
      end
    end.

  (** [tbl.symmetric_difference_update(keys)]: every entry of [keys] is
      discarded from [tbl] if present, added otherwise. *)
  Fixpoint s_symdiff (tbl : list entry) (keys : list entry) : option (list entry) :=
    match keys with
    | [] => Some tbl
    | (k, x) :: r =>
      do res <- s_split k x tbl;
      match res with
      | Some tbl' => s_symdiff tbl' r
      | None => s_symdiff (tbl ++ [(k, x)]) r
      end
    end.

  (** [len(set(o_types).symmetric_difference(self_types)) == 0].  CPython
      (set_symmetric_difference) copies the *argument* into a new set and
      updates that copy with the entries of the receiver: the stored operand of
      every comparison is a member of [self_types], the probe one of [o_types]. *)
  Definition symdiff_empty (o_types self_types : list entry) : option bool :=
    do so <- s_build [] o_types;
    do otherset <- s_build [] self_types;
    do res <- s_symdiff otherset so;
    Some (match res with [] => true | _ => false end).
End SetOps.

(** short-circuit [and] on possibly failing computations *)
Definition oand (a : option bool) (b : unit -> option bool) : option bool :=
  match a with Some true => b tt | other => other end.

Section OAll2.
  Context {X Y : Type} (f : X -> Y -> option bool).
  Fixpoint oall2 (l : list X) (l' : list Y) : option bool :=
    match l, l' with
    | x :: r, y :: r' => oand (f x y) (fun _ => oall2 r r')
    | _, _ => Some true
    end.
End OAll2.

Section Literal.
  Variable fx : fixes.

  Fixpoint lit_ty_key (fuel : nat) (t : oty) {struct fuel} : option key :=
    match fuel with
    | O => None
    | S n =>
      match t with
      | OPrim s => Some (KAtomS (SLit s))
      | OPoly s => Some (KAtomS (SLit s))
      | OFixed s _ => Some (KAtomS (SLit s))
      | OUnknown => Some (KAtomI 1984)
      | OArrow a b => do ka <- lit_ty_key n a; do kb <- lit_ty_key n b; Some (KTuple [ka; kb])
      | OGeneric s ts _ => do ks <- omap (lit_ty_key n) ts; Some (KTuple [KAtomS (SLit s); KTuple ks])
      | OSum ts =>
        do ks <- omap (lit_ty_key n) ts;
        if fx_sum fx then
          do st <- s_build (lit_ty_eq n) [] (combine ks ts);
          Some (KSet (map fst st))
        else Some (KTuple ks)
      end
    end
  (** [a == b] *)
  with lit_ty_eq (fuel : nat) (a b : oty) {struct fuel} : option bool :=
    match fuel with
    | O => None
    | S n =>
      let entries (l : list oty) : option (list entry) :=
        do ks <- omap (lit_ty_key n) l; Some (combine ks l) in
      (* the __eq__ method of [self]'s class applied to [o] *)
      let meth (self o : oty) : option bool :=
        match self, o with
        | OPrim s, OPrim s' => Some (N.eqb s' s)
        | OPoly s, OPoly s' => Some (N.eqb s' s)
        | OPoly s, OFixed s' _ => Some (N.eqb s' s)      (* isinstance(o, PolymorphicType) holds *)
        | OFixed s ts, OFixed s' us =>
          oand (Some (if fx_fixed fx then N.eqb s' s else true))
               (fun _ => do eo <- entries us; do es <- entries ts; symdiff_empty (lit_ty_eq n) eo es)
        | OSum ts, OSum us =>
          do eo <- entries us; do es <- entries ts; symdiff_empty (lit_ty_eq n) eo es
        | OArrow a1 a2, OArrow b1 b2 =>
          oand (lit_ty_eq n b1 a1) (fun _ => lit_ty_eq n b2 a2)   (* o.type_in == self.type_in and ... *)
        | OGeneric s ts _, OGeneric s' us _ =>
          oand (Some (N.eqb s' s))
               (fun _ => oand (Some (if fx_generic fx then Nat.eqb (length ts) (length us) else true))
                              (fun _ => oall2 (lit_ty_eq n) ts us))   (* x == y for x, y in zip(self.types, o.types) *)
        | OUnknown, OUnknown => Some true
        | _, _ => Some false
        end in
      (* reflected operand first when type(b) is a proper subclass of type(a) *)
      match a, b with
      | OPoly _, OFixed _ _ => meth b a
      | _, _ => meth a b
      end
    end.

  Definition lit_cstate_eq (c d : cstate) : bool :=
    val_eq (cs_value c) (cs_value d)
    && (if fx_const fx
        then Bool.eqb (cs_flag c) (cs_flag d) && pystr_eqb (py_str (cs_value c)) (py_str (cs_value d))
        else true).

  Fixpoint lit_prog_key (fuel : nat) (p : oprog) {struct fuel} : option key :=
    match fuel with
    | O => None
    | S n =>
      match p with
      | OPrimitive s t => do kt <- lit_ty_key n t; Some (KTuple [KAtomS (SLit s); kt])
      | OVariable i t =>
        if fx_var fx then Some (KAtomI (Z.of_N i))
        else do kt <- lit_ty_key n t; Some (KTuple [KAtomI (Z.of_N i); kt])
      | OConstant t c =>
        do kt <- lit_ty_key n t;
        Some (KTuple [KAtomS (py_str (cs_value c)); KAtomI (of_bool (cs_flag c)); kt])
      | OFunction f l =>
        do ks <- omap (lit_prog_key n) l; do kf <- lit_prog_key n f; Some (KTuple (ks ++ [kf]))
      | OLambda b _ => do kb <- lit_prog_key n b; Some (KOffset 94135 kb)
      end
    end.

  (** [a == b]: no program class is a subclass of another, so this is
      [a.__eq__(b)] *)
  Fixpoint lit_prog_eq (fuel : nat) (a b : oprog) {struct fuel} : option bool :=
    match fuel with
    | O => None
    | S n =>
      match a, b with
      | OPrimitive s t, OPrimitive s' t' =>
        oand (Some (N.eqb s s')) (fun _ => lit_ty_eq n t t')
      | OVariable i _, OVariable j _ => Some (N.eqb i j)
      | OConstant t c, OConstant t' c' =>
        oand (lit_ty_eq n t t') (fun _ => Some (lit_cstate_eq c c'))
      | OFunction f l, OFunction g l' =>
        oand (lit_prog_eq n f g)
             (fun _ => oand (Some (Nat.eqb (length l) (length l')))
                            (fun _ => oall2 (lit_prog_eq n) l l'))
      | OLambda x _, OLambda y _ => lit_prog_eq n x y
      | _, _ => Some false
      end
    end.
End Literal.

(** fuel that is always enough for the objects the glue decodes: every
    recursive call is on strict sub-objects of the two operands *)
Fixpoint ty_size (t : oty) : nat :=
  match t with
  | OArrow a b => 1 + ty_size a + ty_size b
  | OGeneric _ l _ => 1 + fold_right (fun x acc => ty_size x + acc) 0 l
  | OFixed _ l => 1 + fold_right (fun x acc => ty_size x + acc) 0 l
  | OSum l => 1 + fold_right (fun x acc => ty_size x + acc) 0 l
  | _ => 1
  end.
Fixpoint prog_size (p : oprog) : nat :=
  match p with
  | OPrimitive _ t => 1 + ty_size t
  | OVariable _ t => 1 + ty_size t
  | OConstant t _ => 1 + ty_size t
  | OFunction f l => 1 + prog_size f + fold_right (fun x acc => prog_size x + acc) 0 l
  | OLambda b t => 1 + prog_size b + ty_size t
  end.
