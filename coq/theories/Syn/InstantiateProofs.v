(** Proofs about the model of instantiate_polymorphic_types (Syn/Instantiate.v). *)
From Coq Require Import ZArith NArith List Bool Arith Lia Setoid Permutation.
From PS Require Import Base.ListX Base.Ty Syn.Instantiate Syn.InstantiateSpec.
Import ListNotations.

(** * Part A: list-level lemmas (Python list [in] / [remove], guarded append) *)

Lemma memb_ty_spec x l : memb ty_eqb x l = true <-> In x l.
Proof. apply memb_spec. apply ty_eqb_spec. Qed.

Lemma set_eqb_refl l : set_eqb l l = true.
Proof.
  unfold set_eqb. rewrite andb_true_iff; split; apply forallb_forall; intros x Hx; apply memb_ty_spec; auto.
Qed.

Lemma ty_eqb_py_refl t : ty_eqb_py t t = true.
Proof.
  induction t as [n|a b IHa IHb|n l IH|n|n l IH|l IH|] using ty_ind'; cbn; auto using N.eqb_refl, set_eqb_refl.
  - rewrite IHa, IHb; auto.
  - rewrite N.eqb_refl; cbn. induction IH as [|x r Hx Hr IHr]; auto. rewrite Hx; cbn; auto.
Qed.

Lemma prim_eqb_py_refl p : prim_eqb_py p p = true.
Proof. unfold prim_eqb_py. rewrite N.eqb_refl, ty_eqb_py_refl; auto. Qed.

Lemma prim_eqb_py_name p q : prim_eqb_py p q = true -> fst p = fst q.
Proof. unfold prim_eqb_py. intros H. apply andb_true_iff in H. apply N.eqb_eq. tauto. Qed.

Lemma memb_py_false x L : memb_py x L = false <-> forall y, In y L -> prim_eqb_py y x = false.
Proof.
  unfold memb_py. split.
  - intros H y Hy. destruct (prim_eqb_py y x) eqn:E; auto.
    assert (existsb (fun y => prim_eqb_py y x) L = true) by (apply existsb_exists; eauto). congruence.
  - intros H. destruct (existsb _ L) eqn:E; auto. apply existsb_exists in E. destruct E as [y [Hy E]].
    rewrite H in E; auto.
Qed.

Lemma memb_py_true x L : memb_py x L = true <-> exists y, In y L /\ prim_eqb_py y x = true.
Proof. unfold memb_py. apply existsb_exists. Qed.

(** earlier elements are never equal (as left operands) to later ones *)
Inductive PyDistinct : list prim -> Prop :=
| PD_nil : PyDistinct []
| PD_cons x r : (forall y, In y r -> prim_eqb_py x y = false) -> PyDistinct r -> PyDistinct (x :: r).

Lemma PyDistinct_NoDup L : PyDistinct L -> NoDup L.
Proof.
  induction 1 as [|x r Hx Hr IH]; constructor; auto.
  intros Hin. apply Hx in Hin. rewrite prim_eqb_py_refl in Hin. discriminate.
Qed.

Lemma PyDistinct_snoc L x : PyDistinct L -> memb_py x L = false -> PyDistinct (L ++ [x]).
Proof.
  intros HD Hm. rewrite memb_py_false in Hm. induction HD as [|z r Hz Hr IH]; cbn.
  - constructor; [intros y []|constructor].
  - constructor.
    + intros y Hy. apply in_app_or in Hy. destruct Hy as [Hy|[<-|[]]]; auto. apply Hm; left; auto.
    + apply IH. intros y Hy. apply Hm; right; auto.
Qed.

Lemma remove_first_py_incl x L q : In q (remove_first_py x L) -> In q L.
Proof.
  induction L as [|y r IH]; cbn; auto. destruct (prim_eqb_py y x); cbn; intuition.
Qed.

Lemma PyDistinct_remove x L : PyDistinct L -> PyDistinct (remove_first_py x L).
Proof.
  induction 1 as [|z r Hz Hr IH]; cbn; [constructor|].
  destruct (prim_eqb_py z x); auto. constructor; auto.
  intros y Hy. apply Hz. eapply remove_first_py_incl; eauto.
Qed.

Lemma remove_first_py_spec x L : PyDistinct L -> In x L ->
  forall q, In q (remove_first_py x L) <-> In q L /\ q <> x.
Proof.
  intros HD. induction HD as [|z r Hz Hr IH]; intros Hin q; [destruct Hin|].
  pose proof (PyDistinct_NoDup _ (PD_cons _ _ Hz Hr)) as ND. inversion ND as [|? ? Hnz NDr]; subst.
  cbn. destruct Hin as [->|Hin].
  - rewrite prim_eqb_py_refl. split.
    + intros Hq. split; auto. intros ->. contradiction.
    + intros [[<-|Hq] Hne]; [congruence|auto].
  - rewrite (Hz x Hin). cbn. rewrite (IH Hin q). split.
    + intros [<-|[Hq Hne]]; [split; auto; intros ->; contradiction|auto].
    + intros [[<-|Hq] Hne]; auto.
Qed.

Lemma gappend_app L ns x : gappend L (ns ++ [x]) =
  (if memb_py x (gappend L ns) then gappend L ns else gappend L ns ++ [x]).
Proof. unfold gappend. rewrite fold_left_app. reflexivity. Qed.

Lemma gappend_sound L ns q : In q (gappend L ns) -> In q L \/ In q ns.
Proof.
  revert L. induction ns as [|x r IH]; intros L; cbn; auto.
  intros H. apply IH in H. destruct (memb_py x L).
  - destruct H; auto.
  - destruct H as [H|H]; auto. apply in_app_or in H. destruct H as [H|[<-|[]]]; auto.
Qed.

Lemma gappend_keep L ns q : In q L -> In q (gappend L ns).
Proof.
  revert L. induction ns as [|x r IH]; intros L; cbn; auto.
  intros H. apply IH. destruct (memb_py x L); auto. apply in_or_app; auto.
Qed.

Lemma gappend_complete L ns x : In x ns -> exists y, In y (gappend L ns) /\ prim_eqb_py y x = true.
Proof.
  revert L. induction ns as [|z r IH]; intros L; cbn; [intros []|].
  intros [->|Hx]; [|apply IH; auto].
  destruct (memb_py x L) eqn:E.
  - apply memb_py_true in E. destruct E as [y [Hy E]]. exists y; split; auto. apply gappend_keep; auto.
  - exists x; split; [|apply prim_eqb_py_refl]. apply gappend_keep. apply in_or_app; right; left; auto.
Qed.

Lemma gappend_distinct L ns : PyDistinct L -> PyDistinct (gappend L ns).
Proof.
  revert L. induction ns as [|x r IH]; intros L HD; cbn; auto.
  apply IH. destruct (memb_py x L) eqn:E; auto. apply PyDistinct_snoc; auto.
Qed.

(** * The generic replace loop *)
Section Loop.
  Variable active : prim -> bool.
  Variable news : prim -> list ty.

  Definition loop_inv (rest Lc : list prim) : Prop :=
    PyDistinct Lc /\ NoDup rest /\ (forall P, In P rest -> In P Lc).

  Lemma loop_inv_step P rest Lc : loop_inv (P :: rest) Lc -> loop_inv rest (replace_step active news Lc P).
  Proof.
    intros [HD [ND Hin]]. inversion ND as [|? ? HnP NDr]; subst.
    unfold replace_step. destruct (active P).
    - set (G := gappend Lc (map (pair (fst P)) (news P))).
      assert (HDG : PyDistinct G) by (apply gappend_distinct; auto).
      assert (HPG : In P G) by (apply gappend_keep; apply Hin; left; auto).
      split; [apply PyDistinct_remove; auto|]. split; auto.
      intros P' HP'. apply (remove_first_py_spec P G HDG HPG). split.
      + apply gappend_keep. apply Hin; right; auto.
      + intros ->. contradiction.
    - split; auto. split; auto. intros P' HP'. apply Hin; right; auto.
  Qed.

  Lemma loop_distinct rest Lc : loop_inv rest Lc -> PyDistinct (fold_left (replace_step active news) rest Lc).
  Proof.
    revert Lc. induction rest as [|P r IH]; intros Lc HI; cbn; [apply HI|].
    apply IH. apply loop_inv_step; auto.
  Qed.

  Lemma loop_sound rest Lc q : loop_inv rest Lc -> In q (fold_left (replace_step active news) rest Lc) ->
    (In q Lc /\ ~ (In q rest /\ active q = true)) \/
    (exists P, In P rest /\ active P = true /\ fst q = fst P /\ In (snd q) (news P)).
  Proof.
    revert Lc. induction rest as [|P r IH]; intros Lc HI; cbn.
    - intros H; left; split; auto. intros [[] _].
    - intros H. pose proof (loop_inv_step _ _ _ HI) as HI'. apply (IH _ HI') in H.
      destruct H as [[Hq Hn]|[P' [HP' H]]]; [|right; exists P'; split; [right|]; auto].
      destruct HI as [HD [ND Hin]]. unfold replace_step in Hq, Hn. destruct (active P) eqn:EP.
      + set (G := gappend Lc (map (pair (fst P)) (news P))) in *.
        assert (HDG : PyDistinct G) by (apply gappend_distinct; auto).
        assert (HPG : In P G) by (apply gappend_keep; apply Hin; left; auto).
        apply (remove_first_py_spec P G HDG HPG) in Hq. destruct Hq as [Hq Hne].
        apply gappend_sound in Hq. destruct Hq as [Hq|Hq].
        * left; split; auto. intros [[->|Hr] Ha]; [congruence|]. apply Hn; auto.
        * right. exists P. split; [left; auto|]. split; auto.
          apply in_map_iff in Hq. destruct Hq as [t [<- Ht]]. cbn; auto.
      + left; split; auto. intros [[->|Hr] Ha]; [congruence|]. apply Hn; auto.
  Qed.

  Lemma loop_keep rest Lc q : loop_inv rest Lc -> In q Lc -> active q = false ->
    In q (fold_left (replace_step active news) rest Lc).
  Proof.
    revert Lc. induction rest as [|P r IH]; intros Lc HI Hq Ha; cbn; auto.
    apply IH; [apply loop_inv_step; auto| |auto].
    destruct HI as [HD [ND Hin]]. unfold replace_step. destruct (active P) eqn:EP; auto.
    set (G := gappend Lc (map (pair (fst P)) (news P))) in *.
    assert (HDG : PyDistinct G) by (apply gappend_distinct; auto).
    assert (HPG : In P G) by (apply gappend_keep; apply Hin; left; auto).
    apply (remove_first_py_spec P G HDG HPG). split; [apply gappend_keep; auto|]. intros ->. congruence.
  Qed.

  Lemma loop_complete rest Lc P x : loop_inv rest Lc -> In P rest -> active P = true -> In x (news P) ->
    (forall y, prim_eqb_py y (fst P, x) = true -> active y = false) ->
    exists y, In y (fold_left (replace_step active news) rest Lc) /\ prim_eqb_py y (fst P, x) = true.
  Proof.
    revert Lc. induction rest as [|P0 r IH]; intros Lc HI HP Ha Hx Hst; [destruct HP|].
    cbn. pose proof (loop_inv_step _ _ _ HI) as HI'. destruct HP as [->|HP]; [|apply IH; auto].
    destruct HI as [HD [ND Hin]].
    assert (exists y, In y (replace_step active news Lc P) /\ prim_eqb_py y (fst P, x) = true) as [y [Hy Ey]].
    { unfold replace_step. rewrite Ha.
      set (G := gappend Lc (map (pair (fst P)) (news P))) in *.
      assert (HDG : PyDistinct G) by (apply gappend_distinct; auto).
      assert (HPG : In P G) by (apply gappend_keep; apply Hin; left; auto).
      destruct (gappend_complete Lc (map (pair (fst P)) (news P)) (fst P, x)) as [y [Hy Ey]].
      { apply in_map; auto. }
      exists y; split; auto. apply (remove_first_py_spec P G HDG HPG). split; auto.
      intros ->. rewrite (Hst _ Ey) in Ha. discriminate. }
    exists y; split; auto. apply loop_keep; auto.
  Qed.

  (** the loop as the code runs it: the copy and the list start equal *)
  Lemma loop_inv_start L : PyDistinct L -> loop_inv L L.
  Proof. intros HD. split; auto. split; auto. apply PyDistinct_NoDup; auto. Qed.

  Lemma replace_loop_sound L q : PyDistinct L -> In q (replace_loop active news L) ->
    (In q L /\ active q = false) \/
    (exists P, In P L /\ active P = true /\ fst q = fst P /\ In (snd q) (news P)).
  Proof.
    intros HD H. apply loop_sound in H; [|apply loop_inv_start; auto].
    destruct H as [[Hq Hn]|H]; auto. left; split; auto.
    destruct (active q) eqn:E; auto. exfalso; apply Hn; auto.
  Qed.

  Lemma replace_loop_keep L q : PyDistinct L -> In q L -> active q = false -> In q (replace_loop active news L).
  Proof. intros HD. apply loop_keep. apply loop_inv_start; auto. Qed.

  Lemma replace_loop_complete L P x : PyDistinct L -> In P L -> active P = true -> In x (news P) ->
    (forall y, prim_eqb_py y (fst P, x) = true -> active y = false) ->
    exists y, In y (replace_loop active news L) /\ prim_eqb_py y (fst P, x) = true.
  Proof. intros HD. apply loop_complete. apply loop_inv_start; auto. Qed.

  Lemma replace_loop_distinct L : PyDistinct L -> PyDistinct (replace_loop active news L).
  Proof. intros HD. apply loop_distinct. apply loop_inv_start; auto. Qed.

  Lemma replace_loop_id L : (forall q, In q L -> active q = false) -> replace_loop active news L = L.
  Proof.
    unfold replace_loop. intros H.
    assert (G : forall rest Lc, (forall q, In q rest -> active q = false) ->
                fold_left (replace_step active news) rest Lc = Lc).
    { induction rest as [|P r IH]; intros Lc Hr; cbn; auto.
      unfold replace_step at 2. rewrite (Hr P (or_introl eq_refl)). apply IH. intros q Hq; apply Hr; right; auto. }
    apply G; auto.
  Qed.
End Loop.

(** * Part B: types *)

Definition simple (t : ty) : Prop := has_sum t = false /\ is_polymorphic t = false.

Lemma existsb_false {X} (f : X -> bool) l : existsb f l = false <-> forall x, In x l -> f x = false.
Proof.
  induction l as [|y r IH]; cbn; [split; auto; intros _ x []|].
  rewrite orb_false_iff, IH. split.
  - intros [H1 H2] x [<-|Hx]; auto.
  - intros H; split; auto.
Qed.

Lemma simple_arrow a b : simple (TArrow a b) <-> simple a /\ simple b.
Proof. unfold simple; cbn. rewrite !orb_false_iff. tauto. Qed.

Lemma simple_generic n l : simple (TGeneric n l) <-> forall x, In x l -> simple x.
Proof.
  unfold simple; cbn. rewrite !existsb_false. split.
  - intros [H1 H2] x Hx; auto.
  - intros H; split; intros x Hx; apply H; auto.
Qed.

Lemma forallb_In {X} (f : X -> bool) l x : forallb f l = true -> In x l -> f x = true.
Proof. intros H Hx. rewrite forallb_forall in H; auto. Qed.

(** the zipped comparison of generics, named *)
Fixpoint zip_py (l l' : list ty) : bool :=
  match l, l' with
  | x :: r, y :: r' => ty_eqb_py x y && zip_py r r'
  | _, _ => true
  end.

Lemma ty_eqb_py_generic n l m l' : ty_eqb_py (TGeneric n l) (TGeneric m l') = N.eqb n m && zip_py l l'.
Proof.
  reflexivity.
Qed.

Lemma set_eqb_in l l' : set_eqb l l' = true -> forall x, In x l <-> In x l'.
Proof.
  unfold set_eqb. rewrite andb_true_iff, !forallb_forall. intros [H1 H2] x. split; intros Hx.
  - apply memb_ty_spec; auto.
  - apply memb_ty_spec; auto.
Qed.

(** (S') Python equality with a simple type is structural equality, once every
    generic name has one arity. *)
Lemma py_eq_simple ar a : forall b, ty_eqb_py a b = true -> arity_ok ar a = true -> arity_ok ar b = true ->
  simple b -> a = b.
Proof.
  induction a as [n|a1 a2 IH1 IH2|n l IH|n|n l IH|l IH|] using ty_ind'; intros b E Ha Hb Hs;
    destruct b as [m|b1 b2|m l'|m|m l'|l'|]; try discriminate E.
  - cbn in E. apply N.eqb_eq in E. congruence.
  - cbn in E, Ha, Hb. apply andb_true_iff in E, Ha, Hb. apply simple_arrow in Hs.
    f_equal; [apply IH1|apply IH2]; tauto.
  - rewrite ty_eqb_py_generic in E. apply andb_true_iff in E. destruct E as [En Ez].
    apply N.eqb_eq in En. subst m. cbn in Ha, Hb. apply andb_true_iff in Ha, Hb.
    destruct Ha as [La Ha], Hb as [Lb Hb]. apply Nat.eqb_eq in La, Lb.
    assert (Hlen : length l = length l') by congruence.
    rewrite simple_generic in Hs. f_equal. clear La Lb.
    revert l' Ez Hb Hs Hlen. induction IH as [|x r Hx Hr IHr]; intros [|y r'] Ez Hb Hs Hlen; try discriminate Hlen; auto.
    cbn in Ez, Ha, Hb. apply andb_true_iff in Ez, Ha, Hb. f_equal.
    + apply Hx; try tauto. apply Hs; left; auto.
    + apply IHr; try tauto. intros z Hz; apply Hs; right; auto. cbn in Hlen; lia.
  - cbn in E. apply N.eqb_eq in E. congruence.
  - destruct Hs as [_ Hs]. discriminate Hs.
  - destruct Hs as [Hs _]. discriminate Hs.
  - reflexivity.
Qed.

(** (VF) only polymorphic types are equal to polymorphic types *)
Lemma py_eq_poly ar a : forall b, ty_eqb_py a b = true -> arity_ok ar a = true -> arity_ok ar b = true ->
  is_polymorphic b = false -> is_polymorphic a = false.
Proof.
  induction a as [n|a1 a2 IH1 IH2|n l IH|n|n l IH|l IH|] using ty_ind'; intros b E Ha Hb Hs;
    destruct b as [m|b1 b2|m l'|m|m l'|l'|]; try discriminate E; auto.
  - cbn in *. apply andb_true_iff in E, Ha, Hb. apply orb_false_iff in Hs. apply orb_false_iff.
    split; [apply (IH1 b1)|apply (IH2 b2)]; tauto.
  - rewrite ty_eqb_py_generic in E. apply andb_true_iff in E. destruct E as [En Ez].
    apply N.eqb_eq in En. subst m. cbn in Ha, Hb. apply andb_true_iff in Ha, Hb.
    destruct Ha as [La Ha], Hb as [Lb Hb]. apply Nat.eqb_eq in La, Lb.
    assert (Hlen : length l = length l') by congruence. cbn in Hs |- *. clear La Lb.
    revert l' Ez Hb Hs Hlen. induction IH as [|x r Hx Hr IHr]; intros [|y r'] Ez Hb Hs Hlen; try discriminate Hlen; auto.
    cbn in *. apply andb_true_iff in Ez, Ha, Hb. apply orb_false_iff in Hs. apply orb_false_iff. split.
    + apply (Hx y); tauto.
    + apply (IHr (proj2 Ha) r'); try tauto. lia.
  - cbn in E, Hs |- *. pose proof (set_eqb_in _ _ E) as Hin.
    rewrite existsb_false in Hs |- *. intros x Hx. apply Hs. apply Hin; auto.
Qed.

(** ** all_versions *)
Lemma in_list_product {X} (ls : list (list X)) l' :
  In l' (list_product ls) <-> Forall2 (fun l x => In x l) ls l'.
Proof.
  revert l'. induction ls as [|l rest IH]; intros l'; cbn.
  - split; [intros [<-|[]]; constructor|intros H; inversion H; auto].
  - rewrite in_flat_map. split.
    + intros [x [Hx H]]. apply in_map_iff in H. destruct H as [r [<- Hr]]. constructor; auto. apply IH; auto.
    + intros H. inversion H as [|? x ? r Hx Hr]; subst. exists x; split; auto. apply in_map. apply IH; auto.
Qed.

Lemma Forall2_map_l {X Y Z} (R : Y -> Z -> Prop) (f : X -> Y) l l' :
  Forall2 R (map f l) l' <-> Forall2 (fun x z => R (f x) z) l l'.
Proof.
  revert l'. induction l as [|x r IH]; intros l'; cbn.
  - split; intros H; inversion H; constructor.
  - split; intros H; inversion H; subst; constructor; auto; apply IH; auto.
Qed.

Lemma Forall2_len {X Y} (R : X -> Y -> Prop) l l' : Forall2 R l l' -> length l = length l'.
Proof. induction 1; cbn; auto. Qed.

Lemma in_versions_arrow a b u : In u (all_versions (TArrow a b)) <->
  exists x y, u = TArrow x y /\ In x (all_versions a) /\ In y (all_versions b).
Proof.
  cbn. rewrite in_flat_map. split.
  - intros [x [Hx H]]. apply in_map_iff in H. destruct H as [y [<- Hy]]. eauto.
  - intros [x [y [-> [Hx Hy]]]]. exists x; split; auto. apply in_map; auto.
Qed.

Lemma in_versions_generic n l u : In u (all_versions (TGeneric n l)) <->
  exists l', u = TGeneric n l' /\ Forall2 (fun x x' => In x' (all_versions x)) l l'.
Proof.
  cbn. rewrite in_map_iff. split.
  - intros [l' [<- H]]. exists l'; split; auto. apply in_list_product in H. apply Forall2_map_l in H. auto.
  - intros [l' [-> H]]. exists l'; split; auto. apply in_list_product. apply Forall2_map_l. auto.
Qed.

Lemma in_versions_sum l u : In u (all_versions (TSum l)) <-> exists x, In x l /\ In u (all_versions x).
Proof. cbn. apply in_flat_map. Qed.

Lemma choose_iff_versions t : forall u, choose t u <-> In u (all_versions t).
Proof.
  induction t as [n|a b IHa IHb|n l IH|n|n l IH|l IH|] using ty_ind'; intros u.
  - cbn. split; [intros H; inversion H; auto|intros [<-|[]]; constructor].
  - rewrite in_versions_arrow. split.
    + intros H; inversion H; subst. do 2 eexists; split; eauto. split; [apply IHa|apply IHb]; auto.
    + intros [x [y [-> [Hx Hy]]]]. constructor; [apply IHa|apply IHb]; auto.
  - rewrite in_versions_generic. split.
    + intros H; inversion H as [| | | | |? ? l' HF|]; subst. exists l'; split; auto.
      clear H. induction HF as [|x x' r r' Hx Hr IHr]; constructor.
      * inversion IH; subst. apply H1; auto.
      * inversion IH; subst. apply IHr; auto.
    + intros [l' [-> HF]]. constructor.
      induction HF as [|x x' r r' Hx Hr IHr]; constructor.
      * inversion IH; subst. apply H1; auto.
      * inversion IH; subst. apply IHr; auto.
  - cbn. split; [intros H; inversion H; auto|intros [<-|[]]; constructor].
  - cbn. split; [intros H; inversion H; auto|intros [<-|[]]; constructor].
  - rewrite in_versions_sum. rewrite Forall_forall in IH. split.
    + intros H; inversion H; subst. eexists; split; eauto. apply IH; auto.
    + intros [x [Hx Hu]]. econstructor; eauto. apply IH; auto.
  - cbn. split; [intros H; inversion H; auto|intros [<-|[]]; constructor].
Qed.

Lemma versions_no_sum t : forall u, In u (all_versions t) -> has_sum u = false.
Proof.
  induction t as [n|a b IHa IHb|n l IH|n|n l IH|l IH|] using ty_ind'; intros u.
  - cbn; intros [<-|[]]; auto.
  - rewrite in_versions_arrow. intros [x [y [-> [Hx Hy]]]]. cbn. rewrite (IHa x), (IHb y); auto.
  - rewrite in_versions_generic. intros [l' [-> HF]]. cbn. apply existsb_false.
    induction HF as [|x x' r r' Hx Hr IHr]; [intros ? []|].
    inversion IH; subst. intros z [<-|Hz]; auto.
  - cbn; intros [<-|[]]; auto.
  - cbn; intros [<-|[]]; auto.
  - rewrite in_versions_sum. rewrite Forall_forall in IH. intros [x [Hx Hu]]. eapply IH; eauto.
  - cbn; intros [<-|[]]; auto.
Qed.

Lemma versions_no_poly t : is_polymorphic t = false -> forall u, In u (all_versions t) -> is_polymorphic u = false.
Proof.
  induction t as [n|a b IHa IHb|n l IH|n|n l IH|l IH|] using ty_ind'; intros Hp u.
  - cbn; intros [<-|[]]; auto.
  - cbn in Hp. apply orb_false_iff in Hp.
    rewrite in_versions_arrow. intros [x [y [-> [Hx Hy]]]]. cbn. rewrite (IHa (proj1 Hp) x), (IHb (proj2 Hp) y); auto.
  - cbn in Hp. rewrite existsb_false in Hp.
    rewrite in_versions_generic. intros [l' [-> HF]]. cbn. apply existsb_false.
    induction HF as [|x x' r r' Hx Hr IHr]; [intros ? []|].
    inversion IH; subst. intros z [<-|Hz].
    + apply (H1 (Hp x (or_introl eq_refl))); auto.
    + apply IHr; auto. intros w Hw; apply Hp; right; auto.
  - discriminate Hp.
  - discriminate Hp.
  - cbn in Hp. rewrite existsb_false in Hp.
    rewrite in_versions_sum. rewrite Forall_forall in IH. intros [x [Hx Hu]]. eapply IH; eauto.
  - cbn; intros [<-|[]]; auto.
Qed.

Lemma versions_self t : has_sum t = false -> all_versions t = [t].
Proof.
  induction t as [n|a b IHa IHb|n l IH|n|n l IH|l IH|] using ty_ind'; intros Hs; auto.
  - cbn in Hs. apply orb_false_iff in Hs. cbn. rewrite (IHa (proj1 Hs)), (IHb (proj2 Hs)). reflexivity.
  - cbn in Hs. rewrite existsb_false in Hs. cbn.
    assert (E : list_product (map all_versions l) = [l]).
    { induction IH as [|x r Hx Hr IHr]; auto. cbn. rewrite (Hx (Hs x (or_introl eq_refl))). cbn.
      rewrite IHr; auto. intros z Hz; apply Hs; right; auto. }
    rewrite E; reflexivity.
  - discriminate Hs.
Qed.

Lemma versions_arity ar t : arity_ok ar t = true -> forall u, In u (all_versions t) -> arity_ok ar u = true.
Proof.
  induction t as [n|a b IHa IHb|n l IH|n|n l IH|l IH|] using ty_ind'; intros Ha u.
  - cbn; intros [<-|[]]; auto.
  - cbn in Ha. apply andb_true_iff in Ha.
    rewrite in_versions_arrow. intros [x [y [-> [Hx Hy]]]]. cbn. rewrite (IHa (proj1 Ha) x), (IHb (proj2 Ha) y); auto.
  - cbn in Ha. apply andb_true_iff in Ha. destruct Ha as [Hl Ha].
    rewrite in_versions_generic. intros [l' [-> HF]]. cbn. apply andb_true_iff. split.
    + rewrite <- (Forall2_len _ _ _ HF). auto.
    + clear Hl. apply forallb_forall. induction HF as [|x x' r r' Hx Hr IHr]; [intros ? []|].
      cbn in Ha. apply andb_true_iff in Ha. inversion IH; subst. intros z [<-|Hz].
      * apply (H1 (proj1 Ha)); auto.
      * apply IHr; auto. tauto.
  - cbn; intros [<-|[]]; auto.
  - cbn; intros [<-|[]]; auto.
  - cbn in Ha. rewrite in_versions_sum. rewrite Forall_forall in IH. intros [x [Hx Hu]].
    eapply IH; eauto. eapply forallb_In; eauto.
  - cbn; intros [<-|[]]; auto.
Qed.

(** with proper sums a type has a version, and two as soon as it contains a sum *)
Lemma length_flat_map_ge {X Y} (f : X -> list Y) l k :
  (forall x, In x l -> k <= length (f x)) -> k * length l <= length (flat_map f l).
Proof.
  induction l as [|x r IH]; intros H; cbn; [lia|]. rewrite app_length.
  pose proof (H x (or_introl eq_refl)). assert (k * length r <= length (flat_map f r)) by (apply IH; intros; apply H; right; auto). lia.
Qed.

Lemma list_product_length_ge {X} (ls : list (list X)) :
  (forall l, In l ls -> 1 <= length l) -> 1 <= length (list_product ls).
Proof.
  induction ls as [|l rest IH]; intros H; cbn; auto.
  destruct l as [|x l]; [specialize (H [] (or_introl eq_refl)); cbn in H; lia|].
  cbn. rewrite app_length, map_length. assert (1 <= length (list_product rest)) by (apply IH; intros; apply H; right; auto). lia.
Qed.

Lemma list_product_length_two {X} (ls : list (list X)) l0 :
  (forall l, In l ls -> 1 <= length l) -> In l0 ls -> 2 <= length l0 -> 2 <= length (list_product ls).
Proof.
  induction ls as [|l rest IH]; intros H Hin H2; [destruct Hin|].
  assert (Hr : 1 <= length (list_product rest)) by (apply list_product_length_ge; intros; apply H; right; auto).
  cbn. destruct Hin as [->|Hin].
  - destruct l0 as [|x [|y l]]; cbn in H2; try lia. cbn. rewrite !app_length, !map_length. lia.
  - assert (2 <= length (list_product rest)) by (apply IH; auto; intros; apply H; right; auto).
    specialize (H l (or_introl eq_refl)). destruct l as [|x l]; cbn in H; [lia|].
    cbn. rewrite app_length, map_length. lia.
Qed.

Lemma versions_length t : proper_sums t = true ->
  1 <= length (all_versions t) /\ (has_sum t = true -> 2 <= length (all_versions t)).
Proof.
  induction t as [n|a b IHa IHb|n l IH|n|n l IH|l IH|] using ty_ind'; intros Hp;
    try (cbn; split; [lia|discriminate]).
  - cbn in Hp. apply andb_true_iff in Hp. destruct (IHa (proj1 Hp)) as [A1 A2], (IHb (proj2 Hp)) as [B1 B2].
    assert (L : forall k, k <= length (all_versions b) -> k * length (all_versions a) <= length (all_versions (TArrow a b))).
    { intros k Hk. cbn. apply length_flat_map_ge. intros x _. rewrite map_length; auto. }
    split.
    + specialize (L 1 B1). lia.
    + cbn [has_sum]. intros Hs. apply orb_true_iff in Hs. destruct Hs as [Hs|Hs].
      * specialize (A2 Hs). specialize (L 1 B1). lia.
      * specialize (B2 Hs). specialize (L 2 B2). lia.
  - cbn in Hp. cbn [all_versions]. rewrite map_length.
    assert (H1 : forall l0, In l0 (map all_versions l) -> 1 <= length l0).
    { intros l0 Hl0. apply in_map_iff in Hl0. destruct Hl0 as [x [<- Hx]].
      rewrite Forall_forall in IH. apply IH; auto. eapply forallb_In; eauto. }
    split; [apply list_product_length_ge; auto|].
    cbn [has_sum]. intros Hs. apply existsb_exists in Hs. destruct Hs as [x [Hx Hs]].
    apply (list_product_length_two _ (all_versions x)); auto.
    + apply in_map; auto.
    + rewrite Forall_forall in IH. apply IH; auto. eapply forallb_In; eauto.
  - cbn [proper_sums] in Hp. apply andb_true_iff in Hp. destruct Hp as [Hl Hp]. apply Nat.leb_le in Hl.
    assert (2 <= length (all_versions (TSum l))).
    { cbn. pose proof (length_flat_map_ge all_versions l 1) as L.
      assert (1 * length l <= length (flat_map all_versions l)).
      { apply L. intros x Hx. rewrite Forall_forall in IH. apply IH; auto. eapply forallb_In; eauto. }
      lia. }
    split; [lia|auto].
Qed.


(** (V) equal (in Python's sense) ground types have the same versions *)
Lemma py_eq_versions ar y : forall x, ty_eqb_py y x = true -> arity_ok ar y = true -> arity_ok ar x = true ->
  is_polymorphic x = false -> forall u, In u (all_versions x) -> In u (all_versions y).
Proof.
  induction y as [n|a1 a2 IH1 IH2|n l IH|n|n l IH|l IH|] using ty_ind'; intros x E Hy Hx Hp u Hu;
    destruct x as [m|b1 b2|m l'|m|m l'|l'|]; try discriminate E; try discriminate Hp.
  - cbn in E. apply N.eqb_eq in E. subst; auto.
  - cbn in E, Hy, Hx, Hp. apply andb_true_iff in E, Hy, Hx. apply orb_false_iff in Hp.
    apply in_versions_arrow in Hu. destruct Hu as [p [q [-> [Hp1 Hq]]]].
    apply in_versions_arrow. exists p, q. split; auto. split.
    + apply (IH1 b1); tauto.
    + apply (IH2 b2); tauto.
  - rewrite ty_eqb_py_generic in E. apply andb_true_iff in E. destruct E as [En Ez].
    apply N.eqb_eq in En. subst m. cbn in Hy, Hx, Hp. apply andb_true_iff in Hy, Hx.
    destruct Hy as [La Hy], Hx as [Lb Hx]. apply Nat.eqb_eq in La, Lb.
    assert (Hlen : length l = length l') by congruence. clear La Lb.
    apply in_versions_generic in Hu. destruct Hu as [us [-> HF]].
    apply in_versions_generic. exists us. split; auto.
    rewrite existsb_false in Hp.
    revert l' us Ez Hx Hp Hlen HF. induction IH as [|z r Hz Hr IHr]; intros [|z' r'] us Ez Hx Hp Hlen HF; try discriminate Hlen.
    + inversion HF; constructor.
    + inversion HF as [|? w ? ws Hw Hws]; subst. cbn in Ez, Hy, Hx. apply andb_true_iff in Ez, Hy, Hx.
      constructor.
      * apply (Hz z'); try tauto. apply Hp; left; auto.
      * apply (IHr (proj2 Hy) r'); try tauto. intros q Hq; apply Hp; right; auto. cbn in Hlen; lia.
  - cbn in E. pose proof (set_eqb_in _ _ E) as Hin.
    apply in_versions_sum in Hu. destruct Hu as [z [Hz Hu]].
    apply in_versions_sum. exists z. split; auto. apply Hin; auto.
  - auto.
Qed.

(** ** unit arguments *)
Lemma is_unit_spec a : is_unit a = true <-> a = UNIT.
Proof.
  unfold is_unit, UNIT. destruct a; cbn; try (split; [discriminate|congruence]).
  rewrite N.eqb_eq. split; congruence.
Qed.

Lemma is_unit_ty_eqb a : is_unit a = ty_eqb a UNIT.
Proof.
  destruct (is_unit a) eqn:E.
  - apply is_unit_spec in E. subst. symmetry. apply ty_eqb_refl.
  - destruct (ty_eqb a UNIT) eqn:E'; auto. apply ty_eqb_spec in E'. apply is_unit_spec in E'. congruence.
Qed.

Lemma without_unit_drop t : without_unit t = drop_units t.
Proof.
  unfold drop_units. induction t as [n|a b IHa IHb|n l IH|n|n l IH|l IH|] using ty_ind'; auto.
  cbn. rewrite <- is_unit_ty_eqb. destruct (is_unit a); cbn; auto. rewrite IHb; auto.
Qed.

Lemma without_unit_no_unit t : has_unit_arg (without_unit t) = false.
Proof.
  unfold has_unit_arg. induction t as [n|a b IHa IHb|n l IH|n|n l IH|l IH|] using ty_ind'; auto.
  cbn. destruct (is_unit a) eqn:E; auto. cbn. rewrite E, IHb. auto.
Qed.

Lemma without_unit_id t : has_unit_arg t = false -> without_unit t = t.
Proof.
  unfold has_unit_arg. induction t as [n|a b IHa IHb|n l IH|n|n l IH|l IH|] using ty_ind'; auto.
  cbn. intros H. apply orb_false_iff in H. destruct H as [H1 H2]. rewrite H1, IHb; auto.
Qed.

Lemma without_unit_simple t : simple t -> simple (without_unit t).
Proof.
  induction t as [n|a b IHa IHb|n l IH|n|n l IH|l IH|] using ty_ind'; auto.
  intros H. apply simple_arrow in H. cbn. destruct (is_unit a); [tauto|]. apply simple_arrow. tauto.
Qed.

Lemma without_unit_arity ar t : arity_ok ar t = true -> arity_ok ar (without_unit t) = true.
Proof.
  induction t as [n|a b IHa IHb|n l IH|n|n l IH|l IH|] using ty_ind'; auto.
  cbn. intros H. apply andb_true_iff in H. destruct (is_unit a); [tauto|]. cbn. apply andb_true_iff. tauto.
Qed.

(** ** is_polymorphic and the list of variables *)
Lemma flat_map_nil {X Y} (f : X -> list Y) l : flat_map f l = [] <-> forall x, In x l -> f x = [].
Proof.
  induction l as [|x r IH]; cbn; [split; auto; intros _ ? []|].
  split.
  - intros H. apply app_eq_nil in H. destruct H as [H1 H2]. intros z [<-|Hz]; auto. apply IH; auto.
  - intros H. rewrite (H x (or_introl eq_refl)). cbn. apply IH. intros z Hz; apply H; right; auto.
Qed.

Lemma poly_vars_nil t : poly_vars t = [] <-> is_polymorphic t = false.
Proof.
  induction t as [n|a b IHa IHb|n l IH|n|n l IH|l IH|] using ty_ind'; cbn.
  - split; auto.
  - split.
    + intros H. apply app_eq_nil in H. apply orb_false_iff. split; [apply IHa|apply IHb]; tauto.
    + intros H. apply orb_false_iff in H. destruct H as [H1 H2]. apply IHa in H1. apply IHb in H2.
      rewrite H1, H2; auto.
  - rewrite flat_map_nil, existsb_false. rewrite Forall_forall in IH. split; intros H x Hx; apply IH; auto.
  - split; discriminate.
  - split; discriminate.
  - rewrite flat_map_nil, existsb_false. rewrite Forall_forall in IH. split; intros H x Hx; apply IH; auto.
  - split; auto.
Qed.

Lemma poly_active_spec P : poly_active P = false <-> is_polymorphic (snd P) = false.
Proof.
  unfold poly_active. rewrite <- poly_vars_nil. destruct (poly_vars (snd P)); split; auto; discriminate.
Qed.

Lemma sum_active_false t : proper_sums t = true -> sum_active (0%N, t) = false -> has_sum t = false.
Proof.
  unfold sum_active. cbn [snd]. intros Hp H. apply Nat.ltb_ge in H.
  destruct (versions_length t Hp) as [_ H2]. destruct (has_sum t); auto. specialize (H2 eq_refl). lia.
Qed.

Lemma sum_active_simple t : has_sum t = false -> sum_active (0%N, t) = false.
Proof. unfold sum_active. cbn [snd]. intros H. rewrite (versions_self t H). reflexivity. Qed.

(** * Part C: the substitution loop computes the admissible substitutions *)

Lemma dedup_in {X} (eqb : X -> X -> bool) (H : forall x y, eqb x y = true <-> x = y) l x :
  In x (dedup eqb l) <-> In x l.
Proof.
  induction l as [|y r IH]; cbn; [tauto|].
  destruct (memb eqb y r) eqn:E; cbn; rewrite IH.
  - apply (memb_spec eqb H) in E. split; auto. intros [<-|Hx]; auto.
  - tauto.
Qed.

Lemma dedup_nodup {X} (eqb : X -> X -> bool) (H : forall x y, eqb x y = true <-> x = y) l : NoDup (dedup eqb l).
Proof.
  induction l as [|y r IH]; cbn; [constructor|].
  destruct (memb eqb y r) eqn:E; auto. constructor; auto.
  rewrite (dedup_in eqb H). intros Hy. apply (memb_spec eqb H) in Hy. congruence.
Qed.

Fixpoint apply_on (ns : list N) (sigma : N -> ty) (t : ty) : ty :=
  match t with
  | TPoly m => if memb N.eqb m ns then sigma m else t
  | TFixedPoly m _ => if memb N.eqb m ns then sigma m else t
  | TArrow a b => TArrow (apply_on ns sigma a) (apply_on ns sigma b)
  | TGeneric g l => TGeneric g (map (apply_on ns sigma) l)
  | TSum l => TSum (map (apply_on ns sigma) l)
  | _ => t
  end.

Definition upd (sigma : N -> ty) (n : N) (s : ty) : N -> ty := fun m => if N.eqb m n then s else sigma m.

Lemma map_id_in {X} (f : X -> X) l : (forall x, In x l -> f x = x) -> map f l = l.
Proof. induction l as [|x r IH]; cbn; intros H; auto. rewrite H, IH; auto. Qed.

Lemma map_ext_in' {X Y} (f g : X -> Y) l : (forall x, In x l -> f x = g x) -> map f l = map g l.
Proof. induction l as [|x r IH]; cbn; intros H; auto. rewrite H, IH; auto. Qed.

Lemma apply_on_nopoly ns sigma t : is_polymorphic t = false -> apply_on ns sigma t = t.
Proof.
  induction t as [n|a b IHa IHb|n l IH|n|n l IH|l IH|] using ty_ind'; cbn; auto; try discriminate.
  - intros H. apply orb_false_iff in H. rewrite IHa, IHb; tauto.
  - intros H. rewrite existsb_false in H. rewrite Forall_forall in IH. rewrite map_id_in; auto.
  - intros H. rewrite existsb_false in H. rewrite Forall_forall in IH. rewrite map_id_in; auto.
Qed.

Lemma apply_on_unify ns sigma n s c : is_polymorphic s = false ->
  apply_on ns sigma (unify1 n s c) = apply_on (n :: ns) (upd sigma n s) c.
Proof.
  intros Hs. induction c as [m|a b IHa IHb|g l IH|m|m l IH|l IH|] using ty_ind'; cbn; auto.
  - rewrite IHa, IHb; auto.
  - rewrite map_map. f_equal. apply map_ext_in'. rewrite Forall_forall in IH. auto.
  - unfold upd. destruct (N.eqb m n) eqn:E; cbn.
    + apply apply_on_nopoly; auto.
    + reflexivity.
  - unfold upd. destruct (N.eqb m n) eqn:E; cbn.
    + apply apply_on_nopoly; auto.
    + reflexivity.
  - rewrite map_map. f_equal. apply map_ext_in'. rewrite Forall_forall in IH. auto.
Qed.

Lemma apply_on_ext ns sigma sigma' t : (forall m, sigma m = sigma' m) -> apply_on ns sigma t = apply_on ns sigma' t.
Proof.
  intros H. induction t as [m|a b IHa IHb|g l IH|m|m l IH|l IH|] using ty_ind'; cbn; auto.
  - rewrite IHa, IHb; auto.
  - f_equal. apply map_ext_in'. rewrite Forall_forall in IH. auto.
  - rewrite H; auto.
  - rewrite H; auto.
  - f_equal. apply map_ext_in'. rewrite Forall_forall in IH. auto.
Qed.

Lemma memb_N_spec m ns : memb N.eqb m ns = true <-> In m ns.
Proof. apply memb_spec. apply N.eqb_eq. Qed.

Lemma apply_on_all ns sigma t : (forall v, In v (poly_vars t) -> In (var_name v) ns) ->
  apply_on ns sigma t = apply_subst sigma t.
Proof.
  induction t as [m|a b IHa IHb|g l IH|m|m l IH|l IH|] using ty_ind'; cbn; intros H; auto.
  - rewrite IHa, IHb; auto; intros v Hv; apply H; apply in_or_app; auto.
  - f_equal. apply map_ext_in'. rewrite Forall_forall in IH. intros x Hx. apply IH; auto.
    intros v Hv. apply H. apply in_flat_map. eauto.
  - assert (E : memb N.eqb m ns = true) by (apply memb_N_spec; apply (H (TPoly m)); auto). rewrite E; auto.
  - assert (E : memb N.eqb m ns = true) by (apply memb_N_spec; apply (H (TFixedPoly m l)); auto). rewrite E; auto.
  - f_equal. apply map_ext_in'. rewrite Forall_forall in IH. intros x Hx. apply IH; auto.
    intros v Hv. apply H. apply in_flat_map. eauto.
Qed.

Section Instances.
  Variable U : list ty.
  Variable bound : nat.
  Hypothesis U_ground : forall s, In s U -> is_polymorphic s = false.

  Definition ok (v s : ty) : Prop := In s U /\ can_be v s = true /\ ty_size s <= bound.

  Lemma in_inst_step cur v c : In c (inst_step U bound cur v) <->
    exists s c0, ok v s /\ In c0 cur /\ c = unify1 (var_name v) s c0.
  Proof.
    unfold inst_step. rewrite (dedup_in ty_eqb ty_eqb_spec), in_flat_map. split.
    - intros [s [Hs H]]. destruct (can_be v s && (ty_size s <=? bound)) eqn:E; [|destruct H].
      apply andb_true_iff in E. destruct E as [E1 E2]. apply Nat.leb_le in E2.
      apply in_map_iff in H. destruct H as [c0 [<- Hc0]]. exists s, c0. unfold ok; auto.
    - intros [s [c0 [[Hs [E1 E2]] [Hc0 ->]]]]. exists s. split; auto.
      apply Nat.leb_le in E2. rewrite E1, E2. cbn. apply in_map; auto.
  Qed.

  Lemma fold_inst_sound vs : NoDup (map var_name vs) -> forall cur c, In c (fold_left (inst_step U bound) vs cur) ->
    exists c0 sigma, In c0 cur /\ (forall v, In v vs -> ok v (sigma (var_name v))) /\
                     c = apply_on (map var_name vs) sigma c0.
  Proof.
    induction vs as [|v r IH]; intros ND cur c Hc; cbn in *.
    - exists c, (fun _ => TUnknown). split; auto. split; [intros ? []|].
      symmetry. clear. induction c as [m|a b IHa IHb|g l IH|m|m l IH|l IH|] using ty_ind'; cbn; auto.
      + rewrite IHa, IHb; auto.
      + f_equal. rewrite Forall_forall in IH. apply map_id_in; auto.
      + f_equal. rewrite Forall_forall in IH. apply map_id_in; auto.
    - inversion ND as [|? ? Hn NDr]; subst.
      destruct (IH NDr _ _ Hc) as [c0' [sigma [Hc0' [Hok ->]]]].
      apply in_inst_step in Hc0'. destruct Hc0' as [s [c0 [Hs [Hc0 ->]]]].
      exists c0, (upd sigma (var_name v) s). split; auto. split.
      + intros w [<-|Hw].
        * unfold upd. rewrite N.eqb_refl; auto.
        * unfold upd. destruct (N.eqb (var_name w) (var_name v)) eqn:E; [|apply Hok; auto].
          apply N.eqb_eq in E. exfalso. apply Hn. rewrite <- E. apply in_map; auto.
      + apply apply_on_unify. apply U_ground. apply Hs.
  Qed.

  Lemma fold_inst_complete vs sigma : (forall v, In v vs -> ok v (sigma (var_name v))) ->
    forall cur c0, In c0 cur -> In (apply_on (map var_name vs) sigma c0) (fold_left (inst_step U bound) vs cur).
  Proof.
    induction vs as [|v r IH]; intros Hok cur c0 Hc0; cbn.
    - assert (E : apply_on [] sigma c0 = c0); [|rewrite E; auto].
      clear. induction c0 as [m|a b IHa IHb|g l IH|m|m l IH|l IH|] using ty_ind'; cbn; auto.
      + rewrite IHa, IHb; auto.
      + f_equal. rewrite Forall_forall in IH. apply map_id_in; auto.
      + f_equal. rewrite Forall_forall in IH. apply map_id_in; auto.
    - assert (Hs : ok v (sigma (var_name v))) by (apply Hok; left; auto).
      assert (H1 : In (unify1 (var_name v) (sigma (var_name v)) c0) (inst_step U bound cur v)).
      { apply in_inst_step. exists (sigma (var_name v)), c0. auto. }
      pose proof (IH (fun w Hw => Hok w (or_intror Hw)) _ _ H1) as H2.
      rewrite apply_on_unify in H2; [|apply U_ground; apply Hs].
      erewrite apply_on_ext; [exact H2|]. intros m. unfold upd.
      destruct (N.eqb m (var_name v)) eqn:E; auto. apply N.eqb_eq in E. subst; auto.
  Qed.

  Lemma type_vars_names t : consistent_vars t -> NoDup (map var_name (type_vars t)).
  Proof.
    intros HC. unfold type_vars.
    assert (ND : NoDup (dedup ty_eqb (poly_vars t))) by (apply dedup_nodup; apply ty_eqb_spec).
    assert (Hin : forall v, In v (dedup ty_eqb (poly_vars t)) -> In v (poly_vars t))
      by (intros v; apply (dedup_in ty_eqb ty_eqb_spec)).
    induction ND as [|v r Hv NDr IH]; cbn; constructor.
    - intros Hm. apply in_map_iff in Hm. destruct Hm as [w [E Hw]].
      assert (w = v) by (apply HC; auto; [apply Hin; right; auto|apply Hin; left; auto]). subst. contradiction.
    - apply IH. intros w Hw; apply Hin; right; auto.
  Qed.

  Lemma instances_spec t : consistent_vars t -> forall c,
    In c (instances U bound t) <->
    exists sigma, (forall v, In v (poly_vars t) -> ok v (sigma (var_name v))) /\ c = apply_subst sigma t.
  Proof.
    intros HC c. unfold instances.
    assert (Hall : forall sigma, apply_on (map var_name (type_vars t)) sigma t = apply_subst sigma t).
    { intros sigma. apply apply_on_all. intros v Hv. apply in_map. unfold type_vars.
      apply (dedup_in ty_eqb ty_eqb_spec); auto. }
    split.
    - intros H. apply fold_inst_sound in H; [|apply type_vars_names; auto].
      destruct H as [c0 [sigma [[<-|[]] [Hok ->]]]]. exists sigma. split; auto.
      intros v Hv. apply Hok. unfold type_vars. apply (dedup_in ty_eqb ty_eqb_spec); auto.
    - intros [sigma [Hok ->]]. rewrite <- Hall. apply fold_inst_complete; [|left; auto].
      intros v Hv. apply Hok. unfold type_vars in Hv. apply -> (dedup_in ty_eqb ty_eqb_spec) in Hv; auto.
  Qed.
End Instances.

(** ** the universe, base types, restricted variables *)
Definition InB (B : list N) : N -> Prop := fun b => In b B.

Lemma universe_spec B s : In s (universe B) <-> in_universe (InB B) s.
Proof.
  unfold universe, in_universe, InB. rewrite (dedup_in ty_eqb ty_eqb_spec), in_app_iff, in_map_iff, in_flat_map. split.
  - intros [[b [<- Hb]]|[b [Hb H]]]; [left; eauto|].
    destruct H as [<-|[<-|H]]; [right; left; eauto|right; right; left; eauto|].
    apply in_map_iff in H. destruct H as [b2 [<- Hb2]]. right; right; right. eauto.
  - intros [[b [Hb ->]]|[[b [Hb ->]]|[[b [Hb ->]]|[a [b [Ha [Hb ->]]]]]]].
    + left; eauto.
    + right. exists b; split; auto. left; auto.
    + right. exists b; split; auto. right; left; auto.
    + right. exists a; split; auto. right; right. apply in_map_iff. eauto.
Qed.

Lemma basic_types_spec syn b : In b (basic_types syn) <-> dsl_base_type syn b.
Proof.
  unfold basic_types, dsl_base_type. rewrite filter_In, (dedup_in N.eqb N.eqb_eq), in_flat_map, negb_true_iff, N.eqb_neq.
  tauto.
Qed.

Fixpoint gsimple (t : ty) : bool :=
  match t with
  | TPrim _ => true
  | TArrow a b => gsimple a && gsimple b
  | TGeneric _ l => match l with [a] => gsimple a | _ => false end
  | _ => false
  end.

Lemma universe_facts B ar s : ar N_LIST = 1 -> in_universe B s ->
  is_polymorphic s = false /\ has_sum s = false /\ proper_sums s = true /\ arity_ok ar s = true /\ gsimple s = true.
Proof.
  intros Har [[b [Hb ->]]|[[b [Hb ->]]|[[b [Hb ->]]|[a [b [Ha [Hb ->]]]]]]]; cbn; rewrite ?Har; auto.
Qed.

Lemma arg_is_a_choose x : forall s, gsimple s = true -> plain_ann x = true -> (arg_is_a x s = true <-> choose x s).
Proof.
  induction x as [n|a b IHa IHb|n l IH|n|n l IH|l IH|] using ty_ind'; intros s Hs Hp.
  - destruct s; cbn in *; try discriminate; try (split; [discriminate|intros H; inversion H]).
    rewrite N.eqb_eq. split; [intros ->; constructor|intros H; inversion H; auto].
  - destruct s as [m|c d|m ts|m|m ts|ts|]; cbn in Hs, Hp |- *; try discriminate;
      try (split; [discriminate|intros H; inversion H]).
    apply andb_true_iff in Hs, Hp. rewrite andb_true_iff, (IHa c), (IHb d); try tauto.
    split; [intros []; constructor; auto|intros H; inversion H; auto].
  - cbn in Hp. apply andb_true_iff in Hp. destruct Hp as [Hl Hp]. apply Nat.eqb_eq in Hl.
    destruct l as [|x1 [|? ?]]; try discriminate Hl. cbn in Hp. rewrite andb_true_r in Hp.
    inversion IH as [|? ? IH1 _]; subst.
    destruct s as [m|c d|m ts|m|m ts|ts|]; cbn in Hs |- *; try discriminate;
      try (split; [discriminate|intros H; inversion H]).
    destruct ts as [|t1 [|? ?]]; try discriminate Hs. cbn. rewrite !orb_false_r, andb_true_r, andb_true_iff, N.eqb_eq, (IH1 t1); auto.
    split.
    + intros [-> H]. constructor. constructor; auto.
    + intros H. inversion H as [| | | | |? ? ? HF|]; subst. inversion HF; subst. auto.
  - discriminate Hp.
  - discriminate Hp.
  - cbn in Hp. rewrite Forall_forall in IH.
    assert (E : arg_is_a (TSum l) s = existsb (fun x' => arg_is_a x' s) l).
    { destruct s; cbn in Hs |- *; auto; discriminate. }
    rewrite E, existsb_exists. split.
    + intros [x [Hx H]]. econstructor; eauto. apply IH; auto. eapply forallb_In; eauto.
    + intros H. inversion H; subst. eexists; split; eauto. apply IH; auto. eapply forallb_In; eauto.
  - destruct s; cbn in *; try discriminate; split; try discriminate; intros H; inversion H.
Qed.

Lemma poly_vars_shape t v : In v (poly_vars t) ->
  (exists n, v = TPoly n) \/ (exists n l, v = TFixedPoly n l /\ (ann_ok t = true -> forallb plain_ann l = true)).
Proof.
  induction t as [n|a b IHa IHb|n l IH|n|n l IH|l IH|] using ty_ind'; cbn; try tauto.
  - intros H. apply in_app_or in H. destruct H as [H|H]; [destruct (IHa H) as [?|[m [l [-> Hl]]]]|destruct (IHb H) as [?|[m [l [-> Hl]]]]]; auto;
      right; exists m, l; split; auto; intros E; apply andb_true_iff in E; tauto.
  - intros H. apply in_flat_map in H. destruct H as [x [Hx H]]. rewrite Forall_forall in IH.
    destruct (IH x Hx H) as [?|[m [l' [-> Hl]]]]; auto. right; exists m, l'; split; auto.
    intros E. apply Hl. eapply forallb_In; eauto.
  - intros [<-|[]]. left; eauto.
  - intros [<-|[]]. right. exists n, l. auto.
  - intros H. apply in_flat_map in H. destruct H as [x [Hx H]]. rewrite Forall_forall in IH.
    destruct (IH x Hx H) as [?|[m [l' [-> Hl]]]]; auto. right; exists m, l'; split; auto.
    intros E. apply Hl. eapply forallb_In; eauto.
Qed.

Lemma can_be_spec t v s : In v (poly_vars t) -> ann_ok t = true -> gsimple s = true ->
  (can_be v s = true <-> allowed_by v s).
Proof.
  intros Hv Ha Hs. destruct (poly_vars_shape t v Hv) as [[n ->]|[n [l [-> Hl]]]]; [cbn; tauto|].
  specialize (Hl Ha). cbn [can_be allowed_by].
  assert (E : arg_is_a (TFixedPoly n l) s = existsb (fun x' => arg_is_a x' s) l).
  { destruct s; cbn in Hs |- *; auto; discriminate. }
  rewrite E, existsb_exists. split.
  - intros [x [Hx H]]. exists x; split; auto. apply arg_is_a_choose; auto. eapply forallb_In; eauto.
  - intros [x [Hx H]]. exists x; split; auto. apply arg_is_a_choose; auto. eapply forallb_In; eauto.
Qed.

(** ** substitution preserves the well-formedness facts *)
Lemma apply_subst_nopoly sigma t : (forall v, In v (poly_vars t) -> is_polymorphic (sigma (var_name v)) = false) ->
  is_polymorphic (apply_subst sigma t) = false.
Proof.
  induction t as [m|a b IHa IHb|g l IH|m|m l IH|l IH|] using ty_ind'; cbn; intros H; auto.
  - rewrite IHa, IHb; auto; intros v Hv; apply H; apply in_or_app; auto.
  - apply existsb_false. intros y Hy. apply in_map_iff in Hy. destruct Hy as [x [<- Hx]].
    rewrite Forall_forall in IH. apply IH; auto. intros v Hv. apply H. apply in_flat_map; eauto.
  - apply (H (TPoly m)); auto.
  - apply (H (TFixedPoly m l)); auto.
  - apply existsb_false. intros y Hy. apply in_map_iff in Hy. destruct Hy as [x [<- Hx]].
    rewrite Forall_forall in IH. apply IH; auto. intros v Hv. apply H. apply in_flat_map; eauto.
Qed.

Lemma forallb_map {X Y} (f : Y -> bool) (g : X -> Y) l : forallb f (map g l) = forallb (fun x => f (g x)) l.
Proof. induction l; cbn; auto. rewrite IHl; auto. Qed.

Lemma forallb_ext_in {X} (f g : X -> bool) l : (forall x, In x l -> f x = true -> g x = true) -> forallb f l = true -> forallb g l = true.
Proof.
  intros H E. apply forallb_forall. intros x Hx. apply H; auto. eapply forallb_In; eauto.
Qed.

Lemma apply_subst_arity ar sigma t : arity_ok ar t = true ->
  (forall v, In v (poly_vars t) -> arity_ok ar (sigma (var_name v)) = true) -> arity_ok ar (apply_subst sigma t) = true.
Proof.
  induction t as [m|a b IHa IHb|g l IH|m|m l IH|l IH|] using ty_ind'; cbn; intros Ha H; auto.
  - apply andb_true_iff in Ha. rewrite IHa, IHb; try tauto; intros v Hv; apply H; apply in_or_app; auto.
  - apply andb_true_iff in Ha. destruct Ha as [Hl Ha]. rewrite map_length, Hl. cbn.
    rewrite forallb_map. revert Ha. apply forallb_ext_in. intros x Hx E. rewrite Forall_forall in IH.
    apply IH; auto. intros v Hv. apply H. apply in_flat_map; eauto.
  - apply (H (TPoly m)); auto.
  - apply (H (TFixedPoly m l)); auto.
  - rewrite forallb_map. revert Ha. apply forallb_ext_in. intros x Hx E. rewrite Forall_forall in IH.
    apply IH; auto. intros v Hv. apply H. apply in_flat_map; eauto.
Qed.

Lemma apply_subst_proper sigma t : proper_sums t = true ->
  (forall v, In v (poly_vars t) -> proper_sums (sigma (var_name v)) = true) -> proper_sums (apply_subst sigma t) = true.
Proof.
  induction t as [m|a b IHa IHb|g l IH|m|m l IH|l IH|] using ty_ind'; cbn [proper_sums apply_subst poly_vars]; intros Ha H; auto.
  - apply andb_true_iff in Ha. rewrite IHa, IHb; try tauto; intros v Hv; apply H; apply in_or_app; auto.
  - rewrite forallb_map. revert Ha. apply forallb_ext_in. intros x Hx E. rewrite Forall_forall in IH.
    apply IH; auto. intros v Hv. apply H. apply in_flat_map; eauto.
  - apply (H (TPoly m)); left; auto.
  - apply (H (TFixedPoly m l)); left; auto.
  - apply andb_true_iff in Ha. destruct Ha as [Hl Ha]. rewrite map_length, Hl. cbn [andb].
    rewrite forallb_map. revert Ha. apply forallb_ext_in. intros x Hx E. rewrite Forall_forall in IH.
    apply IH; auto. intros v Hv. apply H. apply in_flat_map; eauto.
Qed.

Lemma apply_subst_id sigma t : is_polymorphic t = false -> apply_subst sigma t = t.
Proof.
  intros H. rewrite <- (apply_on_all [] sigma t).
  - apply apply_on_nopoly; auto.
  - apply poly_vars_nil in H. rewrite H. intros v [].
Qed.

(** * Part D: the three loops together *)

Section LoopQ.
  Variable active : prim -> bool.
  Variable news : prim -> list ty.
  Variable Q : prim -> Prop.

  Lemma replace_loop_forall L : PyDistinct L -> (forall q, In q L -> Q q) ->
    (forall P x, In P L -> active P = true -> In x (news P) -> Q (fst P, x)) ->
    forall q, In q (replace_loop active news L) -> Q q.
  Proof.
    intros HD H0 Hn q Hq. apply replace_loop_sound in Hq; auto.
    destruct Hq as [[Hq _]|[P [HP [Ha [En Hx]]]]]; auto.
    destruct q as [n t]; cbn in *. subst n. apply Hn; auto.
  Qed.

  Lemma step_Q Lc P0 : (forall q, In q Lc -> Q q) ->
    (forall x', active P0 = true -> In x' (news P0) -> Q (fst P0, x')) ->
    forall q, In q (replace_step active news Lc P0) -> Q q.
  Proof.
    intros HQ Hn q Hq. unfold replace_step in Hq. destruct (active P0) eqn:E0; auto.
    apply remove_first_py_incl in Hq. apply gappend_sound in Hq. destruct Hq as [Hq|Hq]; auto.
    apply in_map_iff in Hq. destruct Hq as [t [<- Ht]]. auto.
  Qed.

  Lemma loop_complete_Q rest Lc P x : loop_inv rest Lc -> (forall q, In q Lc -> Q q) ->
    (forall P' x', In P' rest -> active P' = true -> In x' (news P') -> Q (fst P', x')) ->
    In P rest -> active P = true -> In x (news P) ->
    (forall y, Q y -> prim_eqb_py y (fst P, x) = true -> active y = false) ->
    exists y, In y (fold_left (replace_step active news) rest Lc) /\ prim_eqb_py y (fst P, x) = true.
  Proof.
    revert Lc. induction rest as [|P0 r IH]; intros Lc HI HQ HQn HP Ha Hx Hst; [destruct HP|].
    cbn. pose proof (loop_inv_step active news _ _ _ HI) as HI'.
    assert (HQ' : forall q, In q (replace_step active news Lc P0) -> Q q).
    { apply step_Q; auto. intros x' E Hx'. apply HQn; auto. left; auto. }
    destruct HP as [->|HP]; [|apply IH; auto; intros; apply HQn; auto; right; auto].
    destruct HI as [HD [ND Hin]].
    assert (exists y, In y (replace_step active news Lc P) /\ prim_eqb_py y (fst P, x) = true) as [y [Hy Ey]].
    { unfold replace_step. rewrite Ha.
      set (G := gappend Lc (map (pair (fst P)) (news P))) in *.
      assert (HDG : PyDistinct G) by (apply gappend_distinct; auto).
      assert (HPG : In P G) by (apply gappend_keep; apply Hin; left; auto).
      destruct (gappend_complete Lc (map (pair (fst P)) (news P)) (fst P, x)) as [y [Hy Ey]].
      { apply in_map; auto. }
      exists y; split; auto. apply (remove_first_py_spec P G HDG HPG). split; auto.
      intros ->. assert (QP : Q P) by (apply HQ; apply Hin; left; auto).
      rewrite (Hst _ QP Ey) in Ha. discriminate. }
    exists y; split; auto. apply loop_keep; auto.
  Qed.

  Lemma replace_loop_complete_Q L P x : PyDistinct L -> (forall q, In q L -> Q q) ->
    (forall P' x', In P' L -> active P' = true -> In x' (news P') -> Q (fst P', x')) ->
    In P L -> active P = true -> In x (news P) ->
    (forall y, Q y -> prim_eqb_py y (fst P, x) = true -> active y = false) ->
    exists y, In y (replace_loop active news L) /\ prim_eqb_py y (fst P, x) = true.
  Proof. intros HD. apply loop_complete_Q. apply loop_inv_start; auto. Qed.
End LoopQ.

Lemma PyDistinct_names L : NoDup (map fst L) -> PyDistinct L.
Proof.
  induction L as [|x r IH]; cbn; intros ND; [constructor|]. inversion ND as [|? ? Hn NDr]; subst.
  constructor; auto. intros y Hy. destruct (prim_eqb_py x y) eqn:E; auto.
  apply prim_eqb_py_name in E. exfalso. apply Hn. rewrite E. apply in_map; auto.
Qed.

Lemma in_universe_ext (P Q : N -> Prop) s : (forall b, P b <-> Q b) -> in_universe P s <-> in_universe Q s.
Proof.
  intros H. unfold in_universe. split;
    (intros [[b [Hb ->]]|[[b [Hb ->]]|[[b [Hb ->]]|[a [b [Ha [Hb ->]]]]]]];
     [left|right; left|right; right; left|right; right; right]; try (exists b; split; auto; apply H; auto);
     exists a, b; repeat split; auto; apply H; auto).
Qed.

Section Main.
  Variable syn : list prim.
  Variable bound : nat.
  Variable ar : N -> nat.
  Hypothesis Hnames : NoDup (map fst syn).
  Hypothesis Har : ar N_LIST = 1.
  Hypothesis Hwf : forall p, In p syn -> wf_type ar (snd p).

  Local Notation U := (universe (basic_types syn)).
  Local Notation L1 := (loop_poly U bound syn).
  Local Notation L2 := (loop_sum L1).
  Local Notation L3 := (loop_unit without_unit L2).
  Local Notation BT := (dsl_base_type syn).

  Lemma U_spec s : In s U <-> in_universe BT s.
  Proof. rewrite universe_spec. apply in_universe_ext. intros b. apply basic_types_spec. Qed.

  Lemma U_facts s : In s U ->
    is_polymorphic s = false /\ has_sum s = false /\ proper_sums s = true /\ arity_ok ar s = true /\ gsimple s = true.
  Proof. intros H. apply U_spec in H. eapply universe_facts; eauto. Qed.

  Lemma U_ground s : In s U -> is_polymorphic s = false.
  Proof. intros H. apply U_facts in H. tauto. Qed.

  Lemma ok_admissible t sigma : ann_ok t = true ->
    ((forall v, In v (poly_vars t) -> ok U bound v (sigma (var_name v))) <-> admissible BT bound t sigma).
  Proof.
    intros Ha. unfold admissible, ok. split; intros H v Hv; destruct (H v Hv) as [H1 [H2 H3]].
    - split; [apply U_spec; auto|]. split; auto.
      apply (can_be_spec t v _ Hv Ha); auto. apply U_facts in H1. tauto.
    - apply U_spec in H1. split; auto. split; auto.
      apply (can_be_spec t v _ Hv Ha); auto. apply U_facts in H1. tauto.
  Qed.

  Definition Q1 (q : prim) : Prop := arity_ok ar (snd q) = true /\ proper_sums (snd q) = true.

  Lemma syn_distinct : PyDistinct syn.
  Proof. apply PyDistinct_names; auto. Qed.

  Lemma admissible_values t sigma : admissible BT bound t sigma -> forall v, In v (poly_vars t) ->
    is_polymorphic (sigma (var_name v)) = false /\ proper_sums (sigma (var_name v)) = true /\
    arity_ok ar (sigma (var_name v)) = true.
  Proof.
    intros H v Hv. destruct (H v Hv) as [H1 _]. apply U_spec in H1. apply U_facts in H1. tauto.
  Qed.

  Lemma instance_facts t sigma : wf_type ar t -> admissible BT bound t sigma ->
    is_polymorphic (apply_subst sigma t) = false /\ Q1 (0%N, apply_subst sigma t).
  Proof.
    intros [Hp [Ha [Hn Hc]]] Hs. pose proof (admissible_values t sigma Hs) as Hv. split; [|split]; cbn.
    - apply apply_subst_nopoly. intros v H. apply Hv; auto.
    - apply apply_subst_arity; auto. intros v H. apply Hv; auto.
    - apply apply_subst_proper; auto. intros v H. apply Hv; auto.
  Qed.

  Lemma L1_sound q : In q L1 ->
    exists t sigma, In (fst q, t) syn /\ admissible BT bound t sigma /\ snd q = apply_subst sigma t.
  Proof.
    intros Hq. apply replace_loop_sound in Hq; [|apply syn_distinct].
    destruct Hq as [[Hq Ha]|[P [HP [Ha [En Hx]]]]].
    - exists (snd q), (fun _ => TUnknown). destruct q as [n t]; cbn in *. split; auto.
      apply poly_active_spec in Ha. cbn in Ha. split.
      + apply poly_vars_nil in Ha. intros v Hv. rewrite Ha in Hv. destruct Hv.
      + symmetry. apply apply_subst_id; auto.
    - destruct (Hwf P HP) as [Hp [Hr [Hn Hc]]].
      apply (instances_spec U bound U_ground (snd P) Hc) in Hx. destruct Hx as [sigma [Hok E]].
      exists (snd P), sigma. rewrite En. destruct P as [n t]; cbn in *. split; auto. split; auto.
      apply ok_admissible; auto.
  Qed.

  Lemma L1_facts q : In q L1 -> is_polymorphic (snd q) = false /\ Q1 q.
  Proof.
    intros Hq. destruct (L1_sound q Hq) as [t [sigma [Ht [Hs E]]]].
    destruct (instance_facts t sigma (Hwf _ Ht) Hs) as [H1 H2]. unfold Q1 in *. cbn in *. rewrite E. auto.
  Qed.

  Lemma L1_distinct : PyDistinct L1.
  Proof. apply replace_loop_distinct. apply syn_distinct. Qed.

  Lemma L1_complete n t sigma : In (n, t) syn -> admissible BT bound t sigma ->
    exists s1, In (n, s1) L1 /\ ty_eqb_py s1 (apply_subst sigma t) = true.
  Proof.
    intros Ht Hs. destruct (Hwf _ Ht) as [Hp [Hr [Hn Hc]]]. cbn in *.
    destruct (poly_active (n, t)) eqn:Ea.
    - assert (Hx : In (apply_subst sigma t) (instances U bound (snd (n, t)))).
      { apply (instances_spec U bound U_ground t Hc). exists sigma. split; auto. apply ok_admissible; auto. }
      destruct (replace_loop_complete_Q poly_active (fun P => instances U bound (snd P)) Q1 syn (n, t)
                  (apply_subst sigma t) syn_distinct) as [y [Hy Ey]]; auto.
      + intros q Hq. destruct (Hwf q Hq) as [? [? _]]. split; auto.
      + intros P' x' HP' _ Hx'. destruct (Hwf P' HP') as [Hp' [Hr' [Hn' Hc']]].
        apply (instances_spec U bound U_ground (snd P') Hc') in Hx'. destruct Hx' as [sg [Hok ->]].
        apply ok_admissible in Hok; auto.
        destruct (instance_facts (snd P') sg (Hwf P' HP') Hok) as [_ H]. exact H.
      + intros y [Qa Qp] Ey. apply poly_active_spec.
        unfold prim_eqb_py in Ey. apply andb_true_iff in Ey. destruct Ey as [_ Ey]. cbn in Ey.
        destruct (instance_facts t sigma (Hwf _ Ht) Hs) as [H1 [H2 H3]]. cbn in *.
        apply (py_eq_poly ar _ _ Ey); auto.
      + destruct y as [m s1]. pose proof (prim_eqb_py_name _ _ Ey) as En. cbn in En. subst m.
        exists s1. split; auto. unfold prim_eqb_py in Ey. apply andb_true_iff in Ey. apply Ey.
    - exists t. split.
      + apply replace_loop_keep; auto. apply syn_distinct.
      + apply poly_active_spec in Ea. cbn in Ea. rewrite apply_subst_id; auto. apply ty_eqb_py_refl.
  Qed.

  (** loop 2 *)
  Lemma L2_sound q : In q L2 -> exists p1, In p1 L1 /\ fst q = fst p1 /\ In (snd q) (all_versions (snd p1)).
  Proof.
    intros Hq. apply replace_loop_sound in Hq; [|apply L1_distinct].
    destruct Hq as [[Hq Ha]|[P [HP [Ha [En Hx]]]]].
    - exists q. split; auto. split; auto. destruct (L1_facts q Hq) as [_ [_ Hp]].
      change (sum_active (0%N, snd q) = false) in Ha. apply sum_active_false in Ha; auto.
      rewrite versions_self; auto. left; auto.
    - exists P; auto.
  Qed.

  Definition Q2 (q : prim) : Prop := arity_ok ar (snd q) = true.

  Lemma L2_facts q : In q L2 -> simple (snd q) /\ Q2 q.
  Proof.
    intros Hq. destruct (L2_sound q Hq) as [p1 [Hp1 [_ Hv]]]. destruct (L1_facts p1 Hp1) as [Hn [Ha Hp]].
    split; [split|].
    - eapply versions_no_sum; eauto.
    - eapply versions_no_poly; eauto.
    - unfold Q2. eapply versions_arity; eauto.
  Qed.

  Lemma L2_distinct : PyDistinct L2.
  Proof. apply replace_loop_distinct. apply L1_distinct. Qed.

  Lemma L2_complete p1 u : In p1 L1 -> In u (all_versions (snd p1)) -> In (fst p1, u) L2.
  Proof.
    intros Hp1 Hu. destruct (L1_facts p1 Hp1) as [Hn [Ha Hp]].
    assert (Hsu : simple u) by (split; [eapply versions_no_sum|eapply versions_no_poly]; eauto).
    assert (Hau : arity_ok ar u = true) by (eapply versions_arity; eauto).
    destruct (sum_active p1) eqn:Ea.
    - destruct (replace_loop_complete_Q sum_active (fun P => all_versions (snd P)) Q2 L1 p1 u L1_distinct)
        as [y [Hy Ey]]; auto.
      + intros q Hq. apply L1_facts in Hq. unfold Q2. apply Hq.
      + intros P' x' HP' _ Hx'. unfold Q2; cbn. destruct (L1_facts P' HP') as [_ [? _]]. eapply versions_arity; eauto.
      + intros y Qy Ey. unfold prim_eqb_py in Ey. apply andb_true_iff in Ey. destruct Ey as [_ Ey]. cbn in Ey.
        pose proof (py_eq_simple ar _ _ Ey Qy Hau Hsu) as E.
        change (sum_active (0%N, snd y) = false). rewrite E. apply sum_active_simple. apply Hsu.
      + assert (Qy : Q2 y).
        { apply (replace_loop_forall sum_active (fun P => all_versions (snd P)) Q2 L1 L1_distinct); auto.
          - intros q Hq. apply L1_facts in Hq. apply Hq.
          - intros P' x' HP' _ Hx'. unfold Q2; cbn. destruct (L1_facts P' HP') as [_ [? _]]. eapply versions_arity; eauto. }
        destruct y as [m s]. pose proof (prim_eqb_py_name _ _ Ey) as En. cbn in En. subst m.
        unfold prim_eqb_py in Ey. apply andb_true_iff in Ey. destruct Ey as [_ Ey]. cbn in Ey.
        rewrite <- (py_eq_simple ar _ _ Ey Qy Hau Hsu). auto.
    - change (sum_active (0%N, snd p1) = false) in Ea. apply sum_active_false in Ea; [|apply Hp].
      rewrite versions_self in Hu; auto. destruct Hu as [<-|[]].
      destruct p1 as [n t]. apply replace_loop_keep; auto. apply L1_distinct.
      change (sum_active (0%N, t) = false). apply sum_active_simple. auto.
  Qed.

  (** loop 3 *)
  Lemma L3_sound q : In q L3 -> exists p2, In p2 L2 /\ fst q = fst p2 /\ snd q = without_unit (snd p2).
  Proof.
    intros Hq. apply replace_loop_sound in Hq; [|apply L2_distinct].
    destruct Hq as [[Hq Ha]|[P [HP [Ha [En Hx]]]]].
    - exists q. split; auto. split; auto. symmetry. apply without_unit_id. exact Ha.
    - exists P. split; auto. split; auto. destruct Hx as [<-|[]]. auto.
  Qed.

  Lemma L3_facts q : In q L3 -> simple (snd q) /\ arity_ok ar (snd q) = true /\ has_unit_arg (snd q) = false.
  Proof.
    intros Hq. destruct (L3_sound q Hq) as [p2 [Hp2 [_ E]]]. destruct (L2_facts p2 Hp2) as [Hs Ha].
    rewrite E. split; [apply without_unit_simple; auto|]. split; [apply without_unit_arity; auto|].
    apply without_unit_no_unit.
  Qed.

  Lemma L3_distinct : PyDistinct L3.
  Proof. apply replace_loop_distinct. apply L2_distinct. Qed.

  Lemma L3_complete p2 : In p2 L2 -> In (fst p2, without_unit (snd p2)) L3.
  Proof.
    intros Hp2. destruct (L2_facts p2 Hp2) as [Hs Ha].
    assert (Hsw : simple (without_unit (snd p2))) by (apply without_unit_simple; auto).
    assert (Haw : arity_ok ar (without_unit (snd p2)) = true) by (apply without_unit_arity; auto).
    destruct (unit_active p2) eqn:Ea.
    - destruct (replace_loop_complete_Q unit_active (fun P => [without_unit (snd P)]) Q2 L2 p2
                  (without_unit (snd p2)) L2_distinct) as [y [Hy Ey]]; auto.
      + intros q Hq. apply L2_facts in Hq. apply Hq.
      + intros P' x' HP' _ [<-|[]]. unfold Q2; cbn. apply without_unit_arity. apply (L2_facts P' HP').
      + left; auto.
      + intros y Qy Ey. unfold prim_eqb_py in Ey. apply andb_true_iff in Ey. destruct Ey as [_ Ey]. cbn in Ey.
        pose proof (py_eq_simple ar _ _ Ey Qy Haw Hsw) as E.
        unfold unit_active. rewrite E. apply without_unit_no_unit.
      + assert (Qy : Q2 y).
        { apply (replace_loop_forall unit_active (fun P => [without_unit (snd P)]) Q2 L2 L2_distinct); auto.
          - intros q Hq. apply L2_facts in Hq. apply Hq.
          - intros P' x' HP' _ [<-|[]]. unfold Q2; cbn. apply without_unit_arity. apply (L2_facts P' HP'). }
        destruct y as [m s]. pose proof (prim_eqb_py_name _ _ Ey) as En. cbn in En. subst m.
        unfold prim_eqb_py in Ey. apply andb_true_iff in Ey. destruct Ey as [_ Ey]. cbn in Ey.
        rewrite <- (py_eq_simple ar _ _ Ey Qy Haw Hsw). auto.
    - rewrite without_unit_id; [|exact Ea]. destruct p2 as [n t]. apply replace_loop_keep; auto. apply L2_distinct.
  Qed.

  (** ** the four statements *)
  Lemma main_sound q : In q (instantiate bound syn) -> admissible_instance syn bound q.
  Proof.
    intros Hq. change (In q L3) in Hq.
    destruct (L3_sound q Hq) as [p2 [Hp2 [E2 Hw]]].
    destruct (L2_sound p2 Hp2) as [p1 [Hp1 [E1 Hv]]].
    destruct (L1_sound p1 Hp1) as [t [sigma [Ht [Hs E]]]].
    exists t. split; [rewrite E2, E1; auto|].
    exists sigma, (snd p2). split; auto. split.
    - apply choose_iff_versions. rewrite <- E. auto.
    - rewrite Hw. apply without_unit_drop.
  Qed.

  Lemma main_complete q : admissible_instance syn bound q -> In q (instantiate bound syn).
  Proof.
    intros [t [Ht [sigma [u [Hs [Hc E]]]]]]. change (In q L3).
    destruct (L1_complete (fst q) t sigma Ht Hs) as [s1 [H1 E1]].
    destruct (L1_facts _ H1) as [Hn [Ha Hp]]. cbn in Hn, Ha, Hp.
    destruct (instance_facts t sigma (Hwf _ Ht) Hs) as [Hn' [Ha' Hp']]. cbn in Ha', Hp'.
    apply choose_iff_versions in Hc.
    assert (Hu : In u (all_versions s1)) by (apply (py_eq_versions ar s1 _ E1); auto).
    pose proof (L2_complete (fst q, s1) u H1 Hu) as H2. cbn in H2.
    pose proof (L3_complete _ H2) as H3. cbn in H3.
    rewrite without_unit_drop, <- E in H3. destruct q; auto.
  Qed.

  Lemma main_nodup : NoDup (instantiate bound syn).
  Proof. apply PyDistinct_NoDup. exact L3_distinct. Qed.

  Lemma main_no_poly_no_sum q : In q (instantiate bound syn) ->
    is_polymorphic (snd q) = false /\ has_sum (snd q) = false.
  Proof. intros Hq. destruct (L3_facts q Hq) as [[H1 H2] _]. auto. Qed.

  Lemma main_idempotent : instantiate bound (instantiate bound syn) = instantiate bound syn.
  Proof.
    change (instantiate bound syn) with L3.
    unfold instantiate, instantiate_gen. unfold loop_poly, loop_sum, loop_unit.
    rewrite (replace_loop_id poly_active _ L3).
    2:{ intros q Hq. apply poly_active_spec. apply (L3_facts q Hq). }
    rewrite (replace_loop_id sum_active _ L3).
    2:{ intros q Hq. change (sum_active (0%N, snd q) = false). apply sum_active_simple. apply (L3_facts q Hq). }
    apply (replace_loop_id unit_active _ L3).
    intros q Hq. apply (L3_facts q Hq).
  Qed.
End Main.

(** * The statements of property C14 for the repaired behaviour *)

Theorem instantiate_no_poly_no_sum syn bound : wf_syntax syn ->
  forall p, In p (instantiate bound syn) -> is_polymorphic (snd p) = false /\ has_sum (snd p) = false.
Proof. intros [ND [ar [Har Hwf]]]. eapply main_no_poly_no_sum; eauto. Qed.

Theorem instantiate_sound syn bound : wf_syntax syn ->
  forall p, In p (instantiate bound syn) -> admissible_instance syn bound p.
Proof. intros [ND [ar [Har Hwf]]]. apply main_sound with (ar := ar); auto. Qed.

Theorem instantiate_complete_once syn bound : wf_syntax syn ->
  (forall p, admissible_instance syn bound p -> In p (instantiate bound syn)) /\ NoDup (instantiate bound syn).
Proof.
  intros [ND [ar [Har Hwf]]]. split.
  - apply main_complete with (ar := ar); auto.
  - apply main_nodup; auto.
Qed.

Theorem instantiate_idempotent syn bound : wf_syntax syn ->
  instantiate bound (instantiate bound syn) = instantiate bound syn.
Proof. intros [ND [ar [Har Hwf]]]. apply main_idempotent with (ar := ar); auto. Qed.

(** * Decidable well-formedness (for examples and for the harness) *)
Lemma consistent_varsb_sound t : consistent_varsb t = true -> consistent_vars t.
Proof.
  unfold consistent_varsb, consistent_vars. intros H v w Hv Hw E.
  pose proof (forallb_In _ _ _ (forallb_In _ _ _ H Hv) Hw) as H1. cbn in H1.
  rewrite E, N.eqb_refl in H1. cbn in H1. apply ty_eqb_spec; auto.
Qed.

Definition wf_syntaxb (ar : N -> nat) (syn : list prim) : bool :=
  nodupb N.eqb (map fst syn) && (ar N_LIST =? 1) &&
  forallb (fun p => proper_sums (snd p) && arity_ok ar (snd p) && ann_ok (snd p) && consistent_varsb (snd p)) syn.

Lemma wf_syntaxb_sound ar syn : wf_syntaxb ar syn = true -> wf_syntax syn.
Proof.
  unfold wf_syntaxb. intros H. apply andb_true_iff in H. destruct H as [H H3].
  apply andb_true_iff in H. destruct H as [H1 H2]. split.
  - apply (nodupb_spec N.eqb N.eqb_eq); auto.
  - exists ar. split; [apply Nat.eqb_eq; auto|]. intros p Hp.
    pose proof (forallb_In _ _ _ H3 Hp) as H. cbn in H.
    apply andb_true_iff in H. destruct H as [H Hc]. apply andb_true_iff in H. destruct H as [H Ha].
    apply andb_true_iff in H. destruct H as [Hs Hr]. repeat split; auto. apply consistent_varsb_sound; auto.
Qed.

(** * Examples and refutations for the pinned code *)
Definition ar_std (n : N) : nat := if N.eqb n 8 then 2 else 1.
Definition T_INT := TPrim 0.
Definition T_BOOL := TPrim 1.

(* map : ('a -> 'b) -> 'a list -> 'b list;  add : 'c[int|bool] -> 'c[int|bool] -> 'c[int|bool];
   get : int optional -> int optional -> bool  (optional t = unit | t);  zero : int; t : bool *)
Definition ex_syn : list prim :=
  [(0%N, TArrow (TArrow (TPoly 0) (TPoly 1)) (TArrow (TList (TPoly 0)) (TList (TPoly 1))));
   (1%N, let c := TFixedPoly 2 [TSum [T_INT; T_BOOL]] in TArrow c (TArrow c c));
   (2%N, let o := TSum [UNIT; T_INT] in TArrow o (TArrow o T_BOOL));
   (3%N, T_INT); (4%N, T_BOOL)].

Example ex_syn_wf : wf_syntax ex_syn.
Proof. apply (wf_syntaxb_sound ar_std). vm_compute. reflexivity. Qed.

(* 2 base types, bound 2: 4 universe types; 16 map + 2 add + 3 get (bool, int -> bool, int -> int -> bool) + 2 *)
Example ex_syn_count : length (instantiate 2 ex_syn) = 23.
Proof. vm_compute. reflexivity. Qed.

Example ex_syn_get : filter (fun p => N.eqb (fst p) 2) (instantiate 2 ex_syn) =
  [(2%N, TArrow T_INT (TArrow T_INT T_BOOL)); (2%N, T_BOOL); (2%N, TArrow T_INT T_BOOL)].
Proof. vm_compute. reflexivity. Qed.

Definition prim_eqb (p q : prim) : bool := N.eqb (fst p) (fst q) && ty_eqb (snd p) (snd q).
Lemma prim_eqb_spec p q : prim_eqb p q = true <-> p = q.
Proof.
  destruct p as [n t], q as [m u]. unfold prim_eqb; cbn. rewrite andb_true_iff, N.eqb_eq, ty_eqb_spec.
  split; [intros [-> ->]; auto|intros E; inversion E; auto].
Qed.

(* f : int -> unit -> int *)
Definition bad_unit : list prim := [(0%N, TArrow T_INT (TArrow UNIT T_INT))].
(* f : unit -> unit -> int *)
Definition bad_unit2 : list prim := [(0%N, TArrow UNIT (TArrow UNIT T_INT))].
(* f : ('a | int) -> 'a *)
Definition bad_dup : list prim := [(0%N, TArrow (TSum [TPoly 0; T_INT]) (TPoly 0))].

Lemma bad_unit_wf : wf_syntax bad_unit. Proof. apply (wf_syntaxb_sound ar_std). vm_compute. reflexivity. Qed.
Lemma bad_unit2_wf : wf_syntax bad_unit2. Proof. apply (wf_syntaxb_sound ar_std). vm_compute. reflexivity. Qed.
Lemma bad_dup_wf : wf_syntax bad_dup. Proof. apply (wf_syntaxb_sound ar_std). vm_compute. reflexivity. Qed.

(** the pinned code keeps a unit argument that is not the first one: the result
    is not an admissible instance *)
Theorem pinned_sound_refuted : exists syn bound p, wf_syntax syn /\
  In p (instantiate_pinned bound syn) /\ ~ admissible_instance syn bound p.
Proof.
  exists bad_unit, 1, (0%N, TArrow T_INT (TArrow UNIT T_INT)). split; [apply bad_unit_wf|]. split.
  - vm_compute. auto.
  - intros H. apply (proj1 (instantiate_complete_once bad_unit 1 bad_unit_wf)) in H.
    apply (memb_spec prim_eqb prim_eqb_spec) in H. vm_compute in H. discriminate H.
Qed.

(** ... and the admissible instance [int -> int] is missing; sum expansion produces duplicates *)
Theorem pinned_complete_once_refuted :
  (exists syn bound p, wf_syntax syn /\ admissible_instance syn bound p /\ ~ In p (instantiate_pinned bound syn)) /\
  (exists syn bound, wf_syntax syn /\ ~ NoDup (instantiate_pinned bound syn)).
Proof.
  split.
  - exists bad_unit, 1, (0%N, TArrow T_INT T_INT). split; [apply bad_unit_wf|]. split.
    + apply (instantiate_sound bad_unit 1 bad_unit_wf). vm_compute. auto.
    + intros H. apply (memb_spec prim_eqb prim_eqb_spec) in H. vm_compute in H. discriminate H.
  - exists bad_dup, 1. split; [apply bad_dup_wf|].
    intros H. apply (nodupb_spec prim_eqb prim_eqb_spec) in H. vm_compute in H. discriminate H.
Qed.

(** a second call removes one more unit argument *)
Theorem pinned_idempotent_refuted : exists syn bound, wf_syntax syn /\
  instantiate_pinned bound (instantiate_pinned bound syn) <> instantiate_pinned bound syn.
Proof.
  exists bad_unit2, 1. split; [apply bad_unit2_wf|]. vm_compute. discriminate.
Qed.

(** the hypothesis on sums is needed: a sum with a single alternative is not expanded *)
Theorem single_alternative_sum_kept : exists syn bound p,
  NoDup (map fst syn) /\ In p (instantiate bound syn) /\ has_sum (snd p) = true.
Proof.
  exists [(0%N, TSum [T_INT])], 1, (0%N, TSum [T_INT]). split; [repeat constructor; intros []|].
  vm_compute. auto.
Qed.
