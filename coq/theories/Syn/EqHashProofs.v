(** Proofs for Syn/EqHash.v: the repaired equality is an equivalence on all
    objects the constructors can build, equal objects have equal hashes for
    every per-process hash function, and the witnesses showing that the pinned
    definitions do not have these properties. *)
From Coq Require Import ZArith NArith List Bool Lia Permutation Setoid.
From PS Require Import Base.ListX Base.Sexp Syn.EqHash.
Import ListNotations.

(** * Atoms *)

Lemma pystr_eqb_spec a b : pystr_eqb a b = true <-> a = b.
Proof.
  destruct a, b; cbn; try (split; congruence);
    rewrite ?N.eqb_eq, ?Z.eqb_eq; split; congruence.
Qed.

Lemma pystr_eqb_refl a : pystr_eqb a a = true.
Proof. apply pystr_eqb_spec; reflexivity. Qed.

Local Opaque Z.eqb.
Lemma val_eq_refl v : val_eq v v = true.
Proof. destruct v as [|z|z|[]|s]; cbn; auto using Z.eqb_refl, pystr_eqb_refl. Qed.

Lemma val_eq_sym v w : val_eq v w = val_eq w v.
Proof.
  destruct v as [|x|x|[]|s], w as [|y|y|[]|t]; cbn; auto using Z.eqb_sym.
  apply eq_true_iff_eq; rewrite !pystr_eqb_spec; split; congruence.
Qed.

(** Python's [==] on the modelled values is transitive (1 == 1.0 == True). *)
Lemma val_eq_trans u v w : val_eq u v = true -> val_eq v w = true -> val_eq u w = true.
Proof.
  destruct u as [|x|x|[]|s], v as [|y|y|[]|t], w as [|z|z|[]|r]; cbn;
    rewrite ?Z.eqb_eq, ?pystr_eqb_spec; try congruence; try lia.
Qed.

Lemma cstate_eq_spec c d : cstate_eq c d = true <-> c = d.
Proof.
  unfold cstate_eq; split.
  - rewrite !andb_true_iff, pystr_eqb_spec, Bool.eqb_true_iff; intros [[Hv Hf] Hs].
    destruct c as [|v], d as [|w]; cbn in *; try congruence.
    destruct v as [|x|x|[]|s], w as [|y|y|[]|t]; cbn in *;
      rewrite ?Z.eqb_eq, ?pystr_eqb_spec in *; congruence.
  - intros <-. rewrite val_eq_refl, Bool.eqb_reflx, pystr_eqb_refl; reflexivity.
Qed.

Local Transparent Z.eqb.

(** * Lists *)

Lemma all2_refl_in {X} (f : X -> X -> bool) l :
  (forall x, In x l -> f x x = true) -> all2 f l l = true.
Proof.
  induction l as [|x r IH]; cbn; auto; intros H.
  rewrite (H x (or_introl eq_refl)), IH; auto.
Qed.

Lemma all2_sym_in {X} (f : X -> X -> bool) l : forall l',
  (forall x, In x l -> forall y, f x y = f y x) -> all2 f l l' = all2 f l' l.
Proof.
  induction l as [|x r IH]; intros [|y r'] H; cbn; auto.
  rewrite (H x (or_introl eq_refl) y), IH; auto. intros z Hz; apply H; right; auto.
Qed.

Lemma all2_trans_in {X} (f : X -> X -> bool) l : forall l' l'',
  (forall x, In x l -> forall y z, f x y = true -> f y z = true -> f x z = true) ->
  length l = length l' ->
  all2 f l l' = true -> all2 f l' l'' = true -> all2 f l l'' = true.
Proof.
  induction l as [|x r IH]; intros [|y r'] [|z r''] H Hl; cbn in *; auto; try discriminate.
  rewrite !andb_true_iff; intros [H1 H2] [H3 H4]; split.
  - eapply (H x); eauto.
  - apply (IH r' r''); auto. intros w Hw; apply H; right; auto.
Qed.

Lemma select_map {X Y} (f : X -> Y) mask : forall l, select mask (map f l) = map f (select mask l).
Proof.
  induction mask as [|[] m IH]; intros [|x r]; cbn; auto. rewrite IH; reflexivity.
Qed.

Section DedupFacts.
  Context {X : Type} (R : X -> X -> bool).

  Fixpoint dedup_acc (seen l : list X) : list X :=
    match l with
    | [] => []
    | x :: r => if existsb (fun y => R y x) seen then dedup_acc seen r
                else x :: dedup_acc (seen ++ [x]) r
    end.

  Lemma select_dedup_mask_acc l : forall seen, select (dedup_mask_acc R seen l) l = dedup_acc seen l.
  Proof.
    induction l as [|x r IH]; intros seen; cbn; auto.
    destruct (existsb (fun y => R y x) seen); cbn; rewrite IH; reflexivity.
  Qed.

  Lemma dedup_is_acc l : dedup R l = dedup_acc [] l.
  Proof. apply select_dedup_mask_acc. Qed.

  Lemma dedup_acc_incl l : forall seen x, In x (dedup_acc seen l) -> In x l.
  Proof.
    induction l as [|y r IH]; intros seen x; cbn; auto.
    destruct (existsb (fun z => R z y) seen); cbn; intros H.
    - right; eapply IH; eauto.
    - destruct H; auto. right; eapply IH; eauto.
  Qed.

  (** pairwise unrelated *)
  Inductive RNoDup : list X -> Prop :=
  | RNoDup_nil : RNoDup []
  | RNoDup_cons x r : (forall y, In y r -> R x y = false) -> RNoDup r -> RNoDup (x :: r).

  Lemma dedup_acc_nodup l : forall seen,
    RNoDup (dedup_acc seen l) /\
    (forall z, In z (dedup_acc seen l) -> forall y, In y seen -> R y z = false).
  Proof.
    induction l as [|x r IH]; intros seen; cbn.
    - split; [constructor|intros z []].
    - destruct (existsb (fun y => R y x) seen) eqn:E.
      + apply IH.
      + destruct (IH (seen ++ [x])) as [Hn Hs]. split.
        * constructor; auto. intros y Hy. apply (Hs y Hy x). apply in_or_app; right; left; auto.
        * intros z [<-|Hz] y Hy.
          -- destruct (R y x) eqn:Ey; auto.
             assert (existsb (fun y => R y x) seen = true) by (apply existsb_exists; eauto). congruence.
          -- apply (Hs z Hz y). apply in_or_app; auto.
  Qed.

  Hypothesis Rrefl : forall x, R x x = true.
  Hypothesis Rsym : forall x y, R x y = R y x.
  Hypothesis Rtrans : forall x y z, R x y = true -> R y z = true -> R x z = true.

  (** every member is represented, by the accumulator or by the result *)
  Lemma dedup_acc_complete l : forall seen x, In x l ->
    (exists y, In y seen /\ R y x = true) \/ (exists y, In y (dedup_acc seen l) /\ R y x = true).
  Proof.
    induction l as [|a r IH]; intros seen x; cbn; [tauto|].
    intros [<-|Hx].
    - destruct (existsb (fun y => R y a) seen) eqn:E.
      + left. apply existsb_exists in E; auto.
      + right. exists a; split; [left; auto|apply Rrefl].
    - destruct (existsb (fun y => R y a) seen) eqn:E.
      + apply IH; auto.
      + destruct (IH (seen ++ [a]) x Hx) as [[y [Hy Hr]]|[y [Hy Hr]]].
        * apply in_app_or in Hy; destruct Hy as [Hy|[<-|[]]].
          -- left; eauto.
          -- right; exists a; split; [left; auto|auto].
        * right; exists y; split; [right; auto|auto].
  Qed.

  Lemma RNoDup_middle l1 y l2 : RNoDup (l1 ++ y :: l2) ->
    RNoDup (l1 ++ l2) /\ forall w, In w (l1 ++ l2) -> R y w = false.
  Proof.
    induction l1 as [|a r IH]; cbn; intros H; inversion H as [|? ? Ha Hr]; subst.
    - split; auto.
    - destruct (IH Hr) as [Hn Hy]. split.
      + constructor; auto. intros w Hw. apply Ha. apply in_app_or in Hw; apply in_or_app.
        destruct Hw; [left|right; right]; auto.
      + intros w [<-|Hw]; auto. rewrite Rsym. apply Ha. apply in_or_app; right; left; auto.
  Qed.

  (** Two duplicate-free lists that represent the same classes are in
      bijection, class by class: any function constant on classes maps them to
      permutations of each other. *)
  Lemma classes_permutation {Z : Type} (f : X -> Z) l : forall l',
    RNoDup l -> RNoDup l' ->
    (forall x, In x l -> exists y, In y l' /\ R x y = true) ->
    (forall y, In y l' -> exists x, In x l /\ R x y = true) ->
    (forall x, In x l -> forall y, R x y = true -> f x = f y) ->
    Permutation (map f l) (map f l').
  Proof.
    induction l as [|x r IH]; intros l' Hn Hn' H1 H2 Hf.
    - destruct l' as [|y r']; [constructor|].
      destruct (H2 y (or_introl eq_refl)) as [x [[] _]].
    - destruct (H1 x (or_introl eq_refl)) as [y [Hy Hxy]].
      apply in_split in Hy; destruct Hy as [l1 [l2 ->]].
      inversion Hn as [|? ? Hx Hr]; subst.
      destruct (RNoDup_middle _ _ _ Hn') as [Hn'' Hyw].
      rewrite map_app; cbn. rewrite (Hf x (or_introl eq_refl) y Hxy).
      apply Permutation_cons_app. rewrite <- map_app.
      apply IH; auto.
      + intros z Hz. destruct (H1 z (or_intror Hz)) as [w [Hw Hzw]].
        exists w; split; auto.
        apply in_app_or in Hw; apply in_or_app; destruct Hw as [Hw|[<-|Hw]]; auto.
        exfalso. assert (R x z = true) by (eapply Rtrans; [exact Hxy|rewrite Rsym; exact Hzw]).
        rewrite (Hx z Hz) in H; discriminate.
      + intros w Hw.
        assert (Hw' : In w (l1 ++ y :: l2)).
        { apply in_app_or in Hw; apply in_or_app; destruct Hw; [left|right; right]; auto. }
        destruct (H2 w Hw') as [z [[<-|Hz] Hzw]]; [|eauto].
        exfalso. assert (R y w = true) by (eapply Rtrans; [rewrite Rsym; exact Hxy|exact Hzw]).
        rewrite (Hyw w Hw) in H; discriminate.
      + intros z Hz; apply Hf; right; auto.
  Qed.
End DedupFacts.

(** * Types: the repaired equality is an equivalence *)

Lemma inclb_spec (f : oty -> oty -> bool) ts us :
  forallb (fun x => existsb (f x) us) ts = true <->
  (forall x, In x ts -> exists y, In y us /\ f x y = true).
Proof.
  rewrite forallb_forall. split; intros H x Hx.
  - apply existsb_exists; auto.
  - apply existsb_exists; auto.
Qed.

Lemma inclb'_spec (f : oty -> oty -> bool) ts us :
  forallb (fun y => existsb (fun x => f x y) ts) us = true <->
  (forall y, In y us -> exists x, In x ts /\ f x y = true).
Proof.
  rewrite forallb_forall. split; intros H x Hx.
  - apply existsb_exists; auto.
  - apply existsb_exists; auto.
Qed.

Lemma ty_eq_refl : forall a, ty_eq a a = true.
Proof.
  induction a as [n|a1 a2 IH1 IH2|n l i IH|n|n l IH|l IH|] using oty_ind'; cbn;
    rewrite ?N.eqb_refl, ?Nat.eqb_refl, ?IH1, ?IH2; auto.
  - rewrite Forall_forall in IH. apply all2_refl_in; auto.
  - rewrite Forall_forall in IH. cbn.
    apply andb_true_iff; split; [apply (inclb_spec ty_eq l l)|apply (inclb'_spec ty_eq l l)]; intros x Hx; eauto.
  - rewrite Forall_forall in IH.
    apply andb_true_iff; split; [apply (inclb_spec ty_eq l l)|apply (inclb'_spec ty_eq l l)]; intros x Hx; eauto.
Qed.

Lemma set_eq_sym ts us :
  (forall x, In x ts -> forall y, ty_eq x y = ty_eq y x) ->
  forallb (fun x => existsb (ty_eq x) us) ts && forallb (fun y => existsb (fun x => ty_eq x y) ts) us
  = forallb (fun x => existsb (ty_eq x) ts) us && forallb (fun y => existsb (fun x => ty_eq x y) us) ts.
Proof.
  intros IH. apply eq_true_iff_eq.
  rewrite !andb_true_iff. split; intros [H1 H2].
  - pose proof (proj1 (inclb_spec ty_eq ts us) H1) as G1.
    pose proof (proj1 (inclb'_spec ty_eq ts us) H2) as G2. split.
    + apply (inclb_spec ty_eq us ts). intros y Hy. destruct (G2 y Hy) as [x [Hx E]].
      exists x; split; auto. rewrite <- IH; auto.
    + apply (inclb'_spec ty_eq us ts). intros x Hx. destruct (G1 x Hx) as [y [Hy E]].
      exists y; split; auto. rewrite <- IH; auto.
  - pose proof (proj1 (inclb_spec ty_eq us ts) H1) as G1.
    pose proof (proj1 (inclb'_spec ty_eq us ts) H2) as G2. split.
    + apply (inclb_spec ty_eq ts us). intros x Hx. destruct (G2 x Hx) as [y [Hy E]].
      exists y; split; auto. rewrite IH; auto.
    + apply (inclb'_spec ty_eq ts us). intros y Hy. destruct (G1 y Hy) as [x [Hx E]].
      exists x; split; auto. rewrite IH; auto.
Qed.

Lemma ty_eq_sym : forall a b, ty_eq a b = ty_eq b a.
Proof.
  induction a as [n|a1 a2 IH1 IH2|n l i IH|n|n l IH|l IH|] using oty_ind';
    intros [m|b1 b2|m l' i'|m|m l'|l'|]; cbn; auto using N.eqb_sym.
  - rewrite IH1, IH2; reflexivity.
  - rewrite Forall_forall in IH.
    rewrite (N.eqb_sym n m), (Nat.eqb_sym (length l)), (all2_sym_in ty_eq l l'); auto.
  - rewrite Forall_forall in IH.
    rewrite (N.eqb_sym n m), <- !andb_assoc. f_equal. apply set_eq_sym; auto.
  - rewrite Forall_forall in IH. apply set_eq_sym; auto.
Qed.

Lemma set_eq_trans ts us vs :
  (forall x, In x ts -> forall y z, ty_eq x y = true -> ty_eq y z = true -> ty_eq x z = true) ->
  forallb (fun x => existsb (ty_eq x) us) ts && forallb (fun y => existsb (fun x => ty_eq x y) ts) us = true ->
  forallb (fun x => existsb (ty_eq x) vs) us && forallb (fun y => existsb (fun x => ty_eq x y) us) vs = true ->
  forallb (fun x => existsb (ty_eq x) vs) ts && forallb (fun y => existsb (fun x => ty_eq x y) ts) vs = true.
Proof.
  intros IH. rewrite !andb_true_iff.
  intros [H1 H2] [H3 H4].
  pose proof (proj1 (inclb_spec ty_eq ts us) H1) as G1.
  pose proof (proj1 (inclb'_spec ty_eq ts us) H2) as G2.
  pose proof (proj1 (inclb_spec ty_eq us vs) H3) as G3.
  pose proof (proj1 (inclb'_spec ty_eq us vs) H4) as G4.
  split.
  - apply (inclb_spec ty_eq ts vs).
    intros x Hx. destruct (G1 x Hx) as [y [Hy E1]]. destruct (G3 y Hy) as [z [Hz E2]].
    exists z; split; auto. eapply (IH x); eauto.
  - apply (inclb'_spec ty_eq ts vs).
    intros z Hz. destruct (G4 z Hz) as [y [Hy E2]]. destruct (G2 y Hy) as [x [Hx E1]].
    exists x; split; auto. eapply (IH x); eauto.
Qed.

Lemma ty_eq_trans : forall a b c, ty_eq a b = true -> ty_eq b c = true -> ty_eq a c = true.
Proof.
  induction a as [n|a1 a2 IH1 IH2|n l i IH|n|n l IH|l IH|] using oty_ind';
    intros [m|b1 b2|m l' i'|m|m l'|l'|] [k|c1 c2|k l'' i''|k|k l''|l''|]; cbn; try discriminate; auto.
  - rewrite !N.eqb_eq; congruence.
  - rewrite !andb_true_iff; intros [H1 H2] [H3 H4]; split; eauto.
  - rewrite Forall_forall in IH.
    rewrite !andb_true_iff, !N.eqb_eq, !Nat.eqb_eq. intros [[-> Hl] H1] [[-> Hl'] H2].
    repeat split; try congruence. eapply all2_trans_in; eauto.
  - rewrite !N.eqb_eq; congruence.
  - rewrite Forall_forall in IH.
    rewrite <- !andb_assoc. rewrite !(andb_true_iff (N.eqb _ _)), !N.eqb_eq.
    intros [-> H1] [-> H2]. split; auto. eapply set_eq_trans; eauto.
  - rewrite Forall_forall in IH. intros H1 H2. eapply set_eq_trans; eauto.
Qed.

(** * Types: equal objects have equal hashes *)

Definition perm_inv (H : hashers) : Prop :=
  forall l l', Permutation l l' -> h_set H l = h_set H l'.

Lemma map_ext_all2 (H : hashers) l : forall l',
  (forall x, In x l -> forall y, ty_eq x y = true -> hash_of H (ty_key x) = hash_of H (ty_key y)) ->
  length l = length l' -> all2 ty_eq l l' = true ->
  map (hash_of H) (map ty_key l) = map (hash_of H) (map ty_key l').
Proof.
  induction l as [|x r IH]; intros [|y r'] Hx Hl; cbn in *; auto; try discriminate.
  rewrite andb_true_iff; intros [E1 E2]. f_equal; auto.
Qed.

Theorem ty_eq_hash (H : hashers) : perm_inv H ->
  forall a b, ty_eq a b = true -> hash_of H (ty_key a) = hash_of H (ty_key b).
Proof.
  intros HP.
  induction a as [n|a1 a2 IH1 IH2|n l i IH|n|n l IH|l IH|] using oty_ind';
    intros [m|b1 b2|m l' i'|m|m l'|l'|]; cbn; try discriminate; auto.
  - rewrite N.eqb_eq; congruence.
  - rewrite andb_true_iff; intros [E1 E2]. rewrite (IH1 _ E1), (IH2 _ E2); reflexivity.
  - rewrite Forall_forall in IH.
    rewrite !andb_true_iff, N.eqb_eq, Nat.eqb_eq. intros [[-> Hl] E].
    rewrite (map_ext_all2 H l l'); auto.
  - rewrite N.eqb_eq; congruence.
  - rewrite !andb_true_iff, N.eqb_eq. intros [[-> _] _]; reflexivity.
  - rewrite Forall_forall in IH.
    rewrite andb_true_iff. intros [H1 H2].
    pose proof (proj1 (inclb_spec ty_eq l l') H1) as G1. pose proof (proj1 (inclb'_spec ty_eq l l') H2) as G2.
    clear H1 H2; rename G1 into H1; rename G2 into H2.
    apply HP. rewrite !select_map, !map_map.
    change (select (dedup_mask ty_eq l) l) with (dedup ty_eq l).
    change (select (dedup_mask ty_eq l') l') with (dedup ty_eq l').
    rewrite !dedup_is_acc.
    apply (classes_permutation ty_eq ty_eq_sym ty_eq_trans).
    + apply dedup_acc_nodup.
    + apply dedup_acc_nodup.
    + intros x Hx. apply dedup_acc_incl in Hx. destruct (H1 x Hx) as [y [Hy E]].
      destruct (dedup_acc_complete ty_eq ty_eq_refl l' [] y Hy) as [[w [[] _]]|[w [Hw Ew]]].
      exists w; split; auto. eapply ty_eq_trans; eauto. rewrite ty_eq_sym; auto.
    + intros y Hy. apply dedup_acc_incl in Hy. destruct (H2 y Hy) as [x [Hx E]].
      destruct (dedup_acc_complete ty_eq ty_eq_refl l [] x Hx) as [[w [[] _]]|[w [Hw Ew]]].
      exists w; split; auto. eapply ty_eq_trans; eauto.
    + intros x Hx y E. apply dedup_acc_incl in Hx. apply IH; auto.
Qed.

(** * Programs *)

Lemma prog_eq_refl : forall a, prog_eq a a = true.
Proof.
  induction a as [n t|i t|t c|f l IHf IH|b t IHb] using oprog_ind'; cbn;
    rewrite ?N.eqb_refl, ?ty_eq_refl, ?Nat.eqb_refl; auto.
  - apply cstate_eq_spec; reflexivity.
  - rewrite IHf. rewrite Forall_forall in IH. apply all2_refl_in; auto.
Qed.

Lemma cstate_eq_sym c d : cstate_eq c d = cstate_eq d c.
Proof. apply eq_true_iff_eq; rewrite !cstate_eq_spec; split; congruence. Qed.

Lemma prog_eq_sym : forall a b, prog_eq a b = prog_eq b a.
Proof.
  induction a as [n t|i t|t c|f l IHf IH|x t IHb] using oprog_ind';
    intros [m u|j u|u d|g l'|y u]; cbn; auto.
  - rewrite (N.eqb_sym n m), (ty_eq_sym t u); reflexivity.
  - apply N.eqb_sym.
  - rewrite (ty_eq_sym t u), (cstate_eq_sym c d); reflexivity.
  - rewrite Forall_forall in IH.
    rewrite IHf, (Nat.eqb_sym (length l)), (all2_sym_in prog_eq l l'); auto.
Qed.

Lemma prog_eq_trans : forall a b c, prog_eq a b = true -> prog_eq b c = true -> prog_eq a c = true.
Proof.
  induction a as [n t|i t|t c|f l IHf IH|x t IHb] using oprog_ind';
    intros [m u|j u|u d|g l'|y u] [k v|h v|v e|g' l''|z v]; cbn; try discriminate; auto.
  - rewrite !andb_true_iff, !N.eqb_eq. intros [-> E1] [-> E2]; split; auto. eapply ty_eq_trans; eauto.
  - rewrite !N.eqb_eq; congruence.
  - rewrite !andb_true_iff, !cstate_eq_spec. intros [E1 ->] [E2 ->]; split; auto. eapply ty_eq_trans; eauto.
  - rewrite Forall_forall in IH.
    rewrite !andb_true_iff, !Nat.eqb_eq. intros [[E1 Hl] A1] [[E2 Hl'] A2].
    repeat split; eauto; try congruence. eapply all2_trans_in; eauto.
  - intros; eapply IHb; eauto.
Qed.

Lemma map_ext_all2_prog (H : hashers) l : forall l',
  (forall x, In x l -> forall y, prog_eq x y = true -> hash_of H (prog_key x) = hash_of H (prog_key y)) ->
  length l = length l' -> all2 prog_eq l l' = true ->
  map (hash_of H) (map prog_key l) = map (hash_of H) (map prog_key l').
Proof.
  induction l as [|x r IH]; intros [|y r'] Hx Hl; cbn in *; auto; try discriminate.
  rewrite andb_true_iff; intros [E1 E2]. f_equal; auto.
Qed.

Theorem prog_eq_hash (H : hashers) : perm_inv H ->
  forall a b, prog_eq a b = true -> hash_of H (prog_key a) = hash_of H (prog_key b).
Proof.
  intros HP.
  induction a as [n t|i t|t c|f l IHf IH|x t IHb] using oprog_ind';
    intros [m u|j u|u d|g l'|y u]; cbn; try discriminate; auto.
  - rewrite andb_true_iff, N.eqb_eq. intros [-> E]. rewrite (ty_eq_hash H HP t u E); reflexivity.
  - rewrite N.eqb_eq; congruence.
  - rewrite andb_true_iff, cstate_eq_spec. intros [E ->]. rewrite (ty_eq_hash H HP t u E); reflexivity.
  - rewrite Forall_forall in IH.
    rewrite !andb_true_iff, Nat.eqb_eq. intros [[E Hl] A].
    rewrite !map_app, (map_ext_all2_prog H l l'); auto. cbn [map]. rewrite (IHf g E); reflexivity.
  - intros E. rewrite (IHb y E); reflexivity.
Qed.

(** * Any object *)

Theorem py_eq_equivalence :
  (forall a, py_eq a a = true) /\
  (forall a b, py_eq a b = py_eq b a) /\
  (forall a b c, py_eq a b = true -> py_eq b c = true -> py_eq a c = true).
Proof.
  split; [|split].
  - intros [t|p]; cbn; auto using ty_eq_refl, prog_eq_refl.
  - intros [t|p] [u|q]; cbn; auto using ty_eq_sym, prog_eq_sym.
  - intros [t|p] [u|q] [v|r]; cbn; try discriminate; eauto using ty_eq_trans, prog_eq_trans.
Qed.

Theorem py_eq_hash : forall a b, py_eq a b = true ->
  forall H, perm_inv H -> hash_of H (hash_key a) = hash_of H (hash_key b).
Proof.
  intros [t|p] [u|q]; cbn; try discriminate; intros E H HP.
  - apply ty_eq_hash; auto.
  - apply prog_eq_hash; auto.
Qed.

(** equal objects are interchangeable as dict/set keys: a table lookup
    (same hash, then [==]) cannot tell them apart *)
Definition table_match (H : hashers) (stored probe : obj) : bool :=
  Z.eqb (hash_of H (hash_key stored)) (hash_of H (hash_key probe)) && py_eq stored probe.

Theorem py_eq_interchangeable : forall H, perm_inv H -> forall a b, py_eq a b = true ->
  forall c, table_match H c a = table_match H c b /\ table_match H a c = table_match H b c.
Proof.
  intros H HP a b E c. destruct py_eq_equivalence as [Hr [Hs Ht]].
  unfold table_match. rewrite (py_eq_hash a b E H HP).
  assert (E1 : py_eq c a = py_eq c b).
  { apply eq_true_iff_eq; split; intros G.
    - apply (Ht c a b); auto.
    - apply (Ht c b a); auto. rewrite Hs; auto. }
  assert (E2 : py_eq a c = py_eq b c) by (rewrite (Hs a c), (Hs b c); auto).
  rewrite E1, E2; auto.
Qed.

(** * Equal keys give equal hashes, for every hasher *)

Section KeyInd.
  Variable P : key -> Prop.
  Hypothesis HS : forall s, P (KAtomS s).
  Hypothesis HI : forall z, P (KAtomI z).
  Hypothesis HT : forall l, Forall P l -> P (KTuple l).
  Hypothesis HO : forall z k, P k -> P (KOffset z k).
  Hypothesis HSet : forall l, Forall P l -> P (KSet l).
  Fixpoint key_ind' (k : key) : P k :=
    let fix go (l : list key) : Forall P l :=
      match l with
      | [] => Forall_nil _
      | x :: r => Forall_cons _ (key_ind' x) (go r)
      end in
    match k with
    | KAtomS s => HS s
    | KAtomI z => HI z
    | KTuple l => HT l (go l)
    | KOffset z k' => HO z k' (key_ind' k')
    | KSet l => HSet l (go l)
    end.
End KeyInd.

Lemma remove_first_split {X} (p : X -> bool) l : forall l',
  remove_first p l = Some l' -> exists l1 y l2, l = l1 ++ y :: l2 /\ l' = l1 ++ l2 /\ p y = true.
Proof.
  induction l as [|a r IH]; cbn; intros l'; [discriminate|].
  destruct (p a) eqn:E.
  - intros [= <-]. exists [], a, r; auto.
  - destruct (remove_first p r) as [r'|] eqn:Er; [|discriminate]. intros [= <-].
    destruct (IH r' eq_refl) as [l1 [y [l2 [-> [-> Hy]]]]].
    exists (a :: l1), y, l2; auto.
Qed.

Theorem key_eqv_hash (H : hashers) : perm_inv H ->
  forall a b, key_eqv a b = true -> hash_of H a = hash_of H b.
Proof.
  intros HP.
  induction a as [s|z|l IH|z k IH|l IH] using key_ind'; intros [t|y|l'|y k'|l']; cbn; try discriminate.
  - rewrite pystr_eqb_spec; congruence.
  - rewrite Z.eqb_eq; congruence.
  - rewrite andb_true_iff, Nat.eqb_eq. intros [Hl A]. f_equal.
    rewrite Forall_forall in IH. revert l' Hl A.
    induction l as [|x r IHr]; intros [|y r'] Hl A; cbn in *; auto; try discriminate.
    apply andb_true_iff in A; destruct A as [E A]. f_equal.
    + apply IH; auto.
    + apply IHr; auto.
  - rewrite andb_true_iff, Z.eqb_eq. intros [-> E]. rewrite (IH _ E); reflexivity.
  - intros A. apply HP. rewrite Forall_forall in IH. revert l' A.
    induction l as [|x r IHr]; intros l' A; cbn in *.
    + destruct l'; [constructor|discriminate].
    + destruct (remove_first (key_eqv x) l') as [l''|] eqn:E; [|discriminate].
      destruct (remove_first_split _ _ _ E) as [l1 [y [l2 [-> [-> Hy]]]]].
      rewrite map_app; cbn. rewrite (IH x (or_introl eq_refl) y Hy).
      apply Permutation_cons_app. rewrite <- map_app. apply IHr; auto.
  Qed.

(** * The pinned definitions: witnesses *)

(** a hasher without collisions on the witnesses below *)
Definition toy_str (s : pystr) : Z :=
  match s with
  | SLit n => 1000 + Z.of_N n
  | SDec z => 2000 + 2 * z
  | SDecDot0 z => 2001 + 2 * z
  | STrue => 11
  | SFalse => 12
  | SNoneS => 13
  end%Z.
Fixpoint toy_tup (l : list Z) : Z :=
  match l with [] => 7 | x :: r => (x + 1) * 1000003 + 31 * toy_tup r end%Z.
Definition toy_set (l : list Z) : Z := fold_right Z.add 5%Z (map (fun x => x * x + 17)%Z l).
Definition toy : hashers := {| h_str := toy_str; h_int := fun z => z; h_tup := toy_tup; h_set := toy_set |}.

Lemma toy_perm_inv : perm_inv toy.
Proof.
  intros l l' HP; cbn; unfold toy_set. induction HP; cbn; auto; lia.
Qed.

Definition T_INT := OPrim 1.
Definition T_BOOL := OPrim 2.
Definition T_STRING := OPrim 3.

Definition ty_refutes (a b : oty) : Prop :=
  lit_ty_eq pinned 50 a b = Some true /\ lit_ty_eq pinned 50 b a = Some true /\
  exists ka kb, lit_ty_key pinned 50 a = Some ka /\ lit_ty_key pinned 50 b = Some kb /\
                hash_of toy ka <> hash_of toy kb.
Definition prog_refutes (a b : oprog) : Prop :=
  lit_prog_eq pinned 50 a b = Some true /\ lit_prog_eq pinned 50 b a = Some true /\
  exists ka kb, lit_prog_key pinned 50 a = Some ka /\ lit_prog_key pinned 50 b = Some kb /\
                hash_of toy ka <> hash_of toy kb.

Ltac refute := split; [vm_compute; reflexivity|split; [vm_compute; reflexivity|
  eexists; eexists; split; [vm_compute; reflexivity|split; [vm_compute; reflexivity|vm_compute; discriminate]]]].

(** Variable(0, INT) == Variable(0, BOOL), different hashes *)
Lemma pinned_variable_refuted : prog_refutes (OVariable 0 T_INT) (OVariable 0 T_BOOL).
Proof. refute. Qed.

(** Sum(INT, BOOL) == Sum(BOOL, INT), different hashes *)
Lemma pinned_sum_order_refuted : ty_refutes (OSum [T_INT; T_BOOL]) (OSum [T_BOOL; T_INT]).
Proof. refute. Qed.

(** Sum(INT, INT) == Sum(INT), different hashes *)
Lemma pinned_sum_duplicate_refuted : ty_refutes (OSum [T_INT; T_INT]) (OSum [T_INT]).
Proof. refute. Qed.

(** Generic("pair", INT) == Generic("pair", INT, BOOL), different hashes *)
Lemma pinned_generic_refuted :
  ty_refutes (OGeneric 9 [T_INT] false) (OGeneric 9 [T_INT; T_BOOL] false).
Proof. refute. Qed.

(** ... and equality of generics is not transitive *)
Lemma pinned_generic_not_transitive :
  lit_ty_eq pinned 50 (OGeneric 9 [T_INT; T_BOOL] false) (OGeneric 9 [T_INT] false) = Some true /\
  lit_ty_eq pinned 50 (OGeneric 9 [T_INT] false) (OGeneric 9 [T_INT; T_STRING] false) = Some true /\
  lit_ty_eq pinned 50 (OGeneric 9 [T_INT; T_BOOL] false) (OGeneric 9 [T_INT; T_STRING] false) = Some false.
Proof. vm_compute; auto. Qed.

(** Constant(INT, 1) == Constant(INT, 1.0) == Constant(INT, True), different hashes *)
Lemma pinned_constant_float_refuted :
  prog_refutes (OConstant T_INT (CSet (CInt 1))) (OConstant T_INT (CSet (CFloat 1))).
Proof. refute. Qed.
Lemma pinned_constant_bool_refuted :
  prog_refutes (OConstant T_INT (CSet (CInt 1))) (OConstant T_INT (CSet (CBool true))).
Proof. refute. Qed.

(** Constant(INT, None, True) == Constant(INT), different hashes *)
Lemma pinned_constant_flag_refuted :
  prog_refutes (OConstant T_INT (mk_cstate CNone (Some true))) (OConstant T_INT (mk_cstate CNone None)).
Proof. refute. Qed.

(** FixedPolymorphicType("a", INT) == FixedPolymorphicType("b", INT), different hashes *)
Lemma pinned_fixed_refuted : ty_refutes (OFixed 20 [T_INT]) (OFixed 21 [T_INT]).
Proof. refute. Qed.

(** The defects propagate through every constructor that hashes its parts:
    Function(f, [var0:INT]) == Function(f, [var0:BOOL]) *)
Lemma pinned_nested_refuted :
  prog_refutes (OFunction (OPrimitive 30 (OArrow T_INT T_INT)) [OVariable 0 T_INT])
               (OFunction (OPrimitive 30 (OArrow T_INT T_INT)) [OVariable 0 T_BOOL]).
Proof. refute. Qed.

(** * Non-vacuity and agreement of the two models on fixed cases *)

(** the hypothesis of the hash theorems is satisfiable ([toy_perm_inv]) and
    the conclusion is not trivial: equal but not identical objects *)
Example eq_hash_instance :
  ty_eq (OSum [T_INT; OGeneric 9 [T_BOOL] true; T_INT]) (OSum [OGeneric 9 [T_BOOL] false; T_INT]) = true /\
  hash_of toy (ty_key (OSum [T_INT; OGeneric 9 [T_BOOL] true; T_INT]))
  = hash_of toy (ty_key (OSum [OGeneric 9 [T_BOOL] false; T_INT])) /\
  ty_eq (OSum [T_INT]) (OSum [T_BOOL]) = false.
Proof. vm_compute; auto. Qed.

(** the literal model with every repair applied computes the abstract one *)
Example literal_repaired_agrees :
  let a := OSum [OFixed 20 [T_INT; T_BOOL]; OArrow T_INT (OGeneric 9 [T_INT; OPoly 4] false); T_INT] in
  let b := OSum [T_INT; OArrow T_INT (OGeneric 9 [T_INT; OPoly 4] true); OFixed 20 [T_BOOL; T_INT; T_BOOL]] in
  lit_ty_eq repaired 50 a b = Some (ty_eq a b) /\ ty_eq a b = true /\
  match lit_ty_key repaired 50 a with Some k => key_eqv k (ty_key a) | None => false end = true /\
  match lit_ty_key repaired 50 a, lit_ty_key repaired 50 b with
  | Some k, Some k' => key_eqv k k' | _, _ => false end = true.
Proof. vm_compute; auto. Qed.
