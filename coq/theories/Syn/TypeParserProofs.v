(** Proofs about the [auto_type] model: totality for the fuel used, and the
    round trip on the documented notation. *)
From Coq Require Import NArith List Bool Arith Lia.
From PS Require Import Base.ListX Base.Ty Syn.TypeParser.
Import ListNotations.
Local Open Scope N_scope.

(** ** Characters *)
Ltac chars :=
  unfold is_namechar, is_alpha, is_digit, is_space, ends_op,
    c_space, c_quote, c_lpar, c_rpar, c_lbr, c_rbr, c_us, c_bar in *;
  repeat match goal with
         | H : _ && _ = true |- _ => apply andb_true_iff in H; destruct H
         | H : _ || _ = true |- _ => apply orb_true_iff in H; destruct H
         | H : _ || _ = false |- _ => apply orb_false_iff in H; destruct H
         | H : negb _ = true |- _ => apply negb_true_iff in H
         | H : negb _ = false |- _ => apply negb_false_iff in H
         | H : (_ <=? _) = true |- _ => apply N.leb_le in H
         | H : (_ <=? _) = false |- _ => apply N.leb_gt in H
         | H : (_ =? _) = true |- _ => apply N.eqb_eq in H
         | H : (_ =? _) = false |- _ => apply N.eqb_neq in H
         end;
  repeat match goal with
         | |- context [?a <=? ?b] => destruct (N.leb_spec a b)
         | |- context [?a =? ?b] => destruct (N.eqb_spec a b)
         end; cbn; try reflexivity; try lia; try (exfalso; lia).

Lemma alpha_namechar c : is_alpha c = true -> is_namechar c = true.
Proof. intros H. unfold is_namechar. rewrite H. reflexivity. Qed.
Lemma namechar_nonspace c : is_namechar c = true -> is_space c = false.
Proof. intros H. chars. Qed.
Lemma alpha_nonspace c : is_alpha c = true -> is_space c = false.
Proof. intros H. chars. Qed.

(** ** span, strip *)
Lemma span_app p a rest :
  forallb p a = true -> match rest with [] => True | c :: _ => p c = false end ->
  span p (a ++ rest) = (a, rest).
Proof.
  intros Ha Hr. induction a as [|c a IH]; cbn in *.
  - destruct rest as [|c r]; cbn; auto. rewrite Hr. reflexivity.
  - apply andb_true_iff in Ha. destruct Ha as [Hc Ha]. rewrite Hc, (IH Ha). reflexivity.
Qed.

Lemma span_length p s a b : span p s = (a, b) -> (length a + length b = length s)%nat.
Proof.
  revert a b. induction s as [|c s IH]; cbn; intros a b H.
  - inversion H. reflexivity.
  - destruct (p c).
    + destruct (span p s) as [a' b'] eqn:E. inversion H; subst. cbn. rewrite (IH a' b eq_refl). reflexivity.
    + inversion H; subst. reflexivity.
Qed.

Lemma lstrip_length s : (length (lstrip s) <= length s)%nat.
Proof. induction s as [|c s IH]; cbn; auto. destruct (is_space c); cbn; lia. Qed.
Lemma rstrip_length s : (length (rstrip s) <= length s)%nat.
Proof. unfold rstrip. rewrite rev_length. etransitivity; [apply lstrip_length|]. rewrite rev_length. lia. Qed.
Lemma strip_length s : (length (strip s) <= length s)%nat.
Proof. unfold strip. etransitivity; [apply rstrip_length|apply lstrip_length]. Qed.

Lemma lstrip_spaces k s : lstrip (spaces k ++ s) = lstrip s.
Proof. induction k; cbn; auto. Qed.
Lemma lstrip_nonspace c s : is_space c = false -> lstrip (c :: s) = c :: s.
Proof. intros H. cbn. rewrite H. reflexivity. Qed.

(** strings whose last character is not a blank (or empty) *)
Inductive tailok : str -> Prop :=
| tailok_nil : tailok []
| tailok_snoc s c : is_space c = false -> tailok (s ++ [c]).

Lemma tailok_rstrip s : tailok s -> rstrip s = s.
Proof.
  intros [|s' c H]; [reflexivity|]. unfold rstrip. rewrite rev_app_distr. cbn. rewrite H.
  cbn. rewrite rev_involutive. reflexivity.
Qed.

Lemma tailok_suffix a b : tailok (a ++ b) -> tailok b.
Proof.
  intros H. destruct b as [|x b] using rev_ind; [constructor|].
  inversion H as [E|s c Hc E].
  - destruct a; cbn in E; [destruct b; discriminate|discriminate].
  - rewrite app_assoc in E. apply app_inj_tail in E. destruct E as [_ ->]. constructor; auto.
Qed.

Lemma tailok_app a b : tailok b -> b <> [] -> tailok (a ++ b).
Proof.
  intros H Hn. inversion H as [E|s c Hc E]; subst; [congruence|]. rewrite app_assoc. constructor; auto.
Qed.

Lemma tailok_lstrip s : tailok s -> tailok (lstrip s).
Proof.
  induction s as [|c s IH]; cbn; intros H; auto. destruct (is_space c); auto.
  apply IH. apply (tailok_suffix [c] s H).
Qed.

Lemma strip_tailok s : tailok s -> strip s = lstrip s.
Proof. intros H. unfold strip. apply tailok_rstrip, tailok_lstrip, H. Qed.

Lemma repeat_snoc' (x : N) k : repeat x k ++ [x] = x :: repeat x k.
Proof. induction k; cbn; congruence. Qed.
Lemma rev_repeat' (x : N) k : rev (repeat x k) = repeat x k.
Proof. induction k; cbn; auto. rewrite IHk. apply repeat_snoc'. Qed.

Lemma rstrip_spaces s k : rstrip (s ++ spaces k) = rstrip s.
Proof.
  unfold rstrip. rewrite rev_app_distr. unfold spaces. rewrite rev_repeat'.
  change (repeat c_space k) with (spaces k). rewrite lstrip_spaces. reflexivity.
Qed.

Lemma strip_padded k1 k2 s c r : s = c :: r -> is_space c = false -> tailok s ->
  strip (spaces k1 ++ s ++ spaces k2) = s.
Proof.
  intros -> Hc Ht. unfold strip. rewrite lstrip_spaces.
  change ((c :: r) ++ spaces k2) with (c :: (r ++ spaces k2)). rewrite lstrip_nonspace by auto.
  change (c :: r ++ spaces k2) with ((c :: r) ++ spaces k2). rewrite rstrip_spaces.
  apply tailok_rstrip, Ht.
Qed.

(** ** match_go *)
Lemma match_go_length c lvl s i r : match_go c lvl s = Some (i, r) -> (length i + length r + 1 = length s)%nat.
Proof.
  revert lvl i r. induction s as [|l s IH]; cbn; intros lvl i r H; [discriminate|].
  match type of H with context [match ?L with O => _ | S _ => _ end] => destruct L eqn:EL end.
  - inversion H; subst. cbn. lia.
  - destruct (match_go c (S n) s) as [[i' r']|] eqn:E; [|discriminate].
    inversion H; subst. cbn. rewrite <- (IH _ _ _ E). lia.
Qed.

Lemma next_token_length fx text tok rest :
  next_token fx text = Some (tok, rest) ->
  (length rest < length text)%nat /\
  match tok with TkParen w | TkBracket w => (length w < length text)%nat | _ => True end.
Proof.
  destruct text as [|c r]; cbn; [discriminate|].
  destruct ((c =? c_lpar) || (c =? c_lbr)).
  - destruct (match_go c 1 r) as [[i r']|] eqn:E; [|discriminate].
    intros H. inversion H; subst. apply match_go_length in E. destruct (c =? c_lbr); split; lia.
  - destruct (c =? c_bar).
    + intros H; inversion H; subst. split; auto.
    + destruct (negb (is_alpha c) && negb (c =? c_quote)).
      * destruct (span _ r) as [a b] eqn:E. intros H; inversion H; subst.
        apply span_length in E. split; auto. lia.
      * destruct (span is_namechar r) as [a b] eqn:E. intros H; inversion H; subst.
        apply span_length in E. split; [lia|]. destruct (c =? c_quote); auto.
Qed.

(** ** Fuel: [length text < fuel] is enough, results are stable under more fuel *)
Lemma prep_length fx w : (length (prep fx w) <= length w)%nat.
Proof. destruct fx; cbn; [apply strip_length|lia]. Qed.

Lemma or_block_cases stack li ops orf :
  or_block stack li ops orf = None \/ exists st', or_block stack li ops orf = Some st'.
Proof. destruct (or_block stack li ops orf); eauto. Qed.

Lemma loop_fuel_enough fx : forall f text st, (length text < f)%nat -> loop fx f text st <> OutOfFuel.
Proof.
  induction f as [|f IH]; intros text st Hl; [lia|].
  destruct text as [|c r]; [cbn; destruct (finish _ _); discriminate|].
  cbn [loop]. destruct (next_token fx (c :: r)) as [[tok rest]|] eqn:E; [|discriminate].
  apply next_token_length in E. destruct E as [Hr Hw]. destruct st as [stack li ops orf].
  assert (Hrest : forall o, match o with Some st' => loop fx f (strip rest) st' | None => Err end <> OutOfFuel).
  { intros [st'|]; [|discriminate]. apply IH. pose proof (strip_length rest). lia. }
  assert (Hsub : forall w, (length w < length (c :: r))%nat -> loop fx f (prep fx w) st0 <> OutOfFuel).
  { intros w Hlw. apply IH. pose proof (prep_length fx w). lia. }
  destruct tok as [w|w| |w|w|w]; try apply Hrest; try apply (Hrest (Some _)).
  - specialize (Hsub w Hw). destruct (loop fx f (prep fx w) st0); try congruence. apply Hrest.
  - destruct stack as [|last stack']; [discriminate|].
    specialize (Hsub w Hw).
    destruct last; try discriminate; (destruct (loop fx f (prep fx w) st0); try congruence; apply Hrest).
  - destruct ((li <? length stack)%nat && negb orf).
    + destruct stack; [cbn; discriminate|apply Hrest].
    + apply Hrest.
Qed.

Lemma loop_mono fx : forall f text st r, loop fx f text st = r -> r <> OutOfFuel ->
  forall f', (f <= f')%nat -> loop fx f' text st = r.
Proof.
  induction f as [|f IH]; intros text st r H Hr f' Hle; [cbn in H; congruence|].
  destruct f' as [|f']; [lia|]. assert (Hle' : (f <= f')%nat) by lia.
  destruct text as [|c t]; [exact H|].
  cbn [loop] in *. destruct (next_token fx (c :: t)) as [[tok rest]|]; [|exact H].
  destruct st as [stack li ops orf].
  assert (Hrest : forall o, match o with Some st' => loop fx f (strip rest) st' | None => Err end = r ->
                            match o with Some st' => loop fx f' (strip rest) st' | None => Err end = r).
  { intros [st'|] Ho; [|exact Ho]. apply (IH _ _ _ Ho Hr _ Hle'). }
  assert (Hsub : forall w, loop fx f (prep fx w) st0 <> OutOfFuel ->
                           loop fx f' (prep fx w) st0 = loop fx f (prep fx w) st0).
  { intros w Hn. apply (IH _ _ _ eq_refl Hn _ Hle'). }
  destruct tok as [w|w| |w|w|w]; try (apply Hrest; exact H); try (apply (Hrest (Some _)); exact H).
  - destruct (loop fx f (prep fx w) st0) eqn:E.
    + rewrite (Hsub w) by congruence. rewrite E. apply Hrest, H.
    + rewrite (Hsub w) by congruence. rewrite E. exact H.
    + congruence.
  - destruct stack as [|last stack']; [exact H|].
    destruct last; try exact H;
      (destruct (loop fx f (prep fx w) st0) eqn:E;
       [rewrite (Hsub w) by congruence; rewrite E; apply Hrest, H
       |rewrite (Hsub w) by congruence; rewrite E; exact H
       |congruence]).
  - destruct ((li <? length stack)%nat && negb orf).
    + destruct stack; [exact H|apply Hrest, H].
    + apply Hrest, H.
Qed.

Lemma loop_det fx f1 f2 text st t :
  loop fx f1 text st = Ok t -> loop fx f2 text st <> OutOfFuel -> loop fx f2 text st = Ok t.
Proof.
  intros H1 H2.
  assert (A : loop fx (Nat.max f1 f2) text st = Ok t) by (apply (loop_mono fx f1); auto; [discriminate|lia]).
  assert (B : loop fx (Nat.max f1 f2) text st = loop fx f2 text st) by (apply (loop_mono fx f2); auto; lia).
  congruence.
Qed.

(** The fuel given by [auto_type] is always sufficient. *)
Lemma auto_type_gen_fuel fx el : auto_type_gen fx el <> OutOfFuel.
Proof. unfold auto_type_gen. apply loop_fuel_enough. pose proof (prep_length fx el). lia. Qed.

(** ** Tokens of well-formed text *)
Definition name_end (rest : str) : Prop :=
  match rest with [] => True | c :: _ => is_namechar c = false end.
Definition op_end (fx : bool) (rest : str) : Prop :=
  match rest with [] => True | c :: _ => ends_op fx c = true end.

Lemma valid_name_inv n : valid_name n = true ->
  exists c r, n = c :: r /\ is_alpha c = true /\ forallb is_namechar r = true.
Proof.
  destruct n as [|c r]; cbn; [discriminate|]. intros H. apply andb_true_iff in H. destruct H. eauto.
Qed.

Lemma valid_name_chars n : valid_name n = true -> forall x, In x n -> is_namechar x = true.
Proof.
  intros H. destruct (valid_name_inv n H) as (c & r & -> & Hc & Hr). intros x [<-|Hx].
  - apply alpha_namechar, Hc.
  - rewrite forallb_forall in Hr. auto.
Qed.

Lemma alpha_facts c : is_alpha c = true ->
  (c =? c_lpar) = false /\ (c =? c_lbr) = false /\ (c =? c_bar) = false /\ (c =? c_quote) = false.
Proof. intros H. repeat split; chars. Qed.

Lemma nt_name fx w rest : valid_name w = true -> name_end rest ->
  next_token fx (w ++ rest) = Some (TkName w, rest).
Proof.
  intros Hv He. destruct (valid_name_inv w Hv) as (c & r & -> & Hc & Hr).
  destruct (alpha_facts c Hc) as (E1 & E2 & E3 & E4).
  rewrite <- app_comm_cons. cbn [next_token]. rewrite E1, E2, E3, E4, Hc. cbn [orb negb andb].
  rewrite (span_app is_namechar r rest Hr); [reflexivity|]. destruct rest; auto.
Qed.

Lemma nt_poly fx n rest : forallb is_namechar n = true -> name_end rest ->
  next_token fx (c_quote :: n ++ rest) = Some (TkPoly n, rest).
Proof.
  intros Hn He. cbn [next_token].
  change ((c_quote =? c_lpar) || (c_quote =? c_lbr)) with false.
  change (c_quote =? c_bar) with false. change (negb (is_alpha c_quote) && negb (c_quote =? c_quote)) with false.
  cbn match. rewrite (span_app is_namechar n rest Hn); [reflexivity|]. destruct rest; auto.
Qed.

Lemma nt_or fx rest : next_token fx (c_bar :: rest) = Some (TkOr, rest).
Proof. reflexivity. Qed.

Lemma nt_infix fx c a rest :
  ((c =? c_lpar) || (c =? c_lbr)) = false -> (c =? c_bar) = false ->
  (negb (is_alpha c) && negb (c =? c_quote)) = true ->
  forallb (fun x => negb (ends_op fx x)) a = true -> op_end fx rest ->
  next_token fx (c :: a ++ rest) = Some (TkInfix (c :: a), rest).
Proof.
  intros H1 H2 H3 H4 H5. cbn [next_token]. rewrite H1, H2, H3.
  rewrite (span_app _ a rest H4); [reflexivity|]. destruct rest; auto. cbn in H5. rewrite H5. reflexivity.
Qed.

Lemma nt_arrow rest : op_end true rest -> next_token true (s_arrow ++ rest) = Some (TkInfix s_arrow, rest).
Proof. intros H. apply (nt_infix true 45 [62] rest); auto. Qed.

(** brackets: strings that [__matching__] crosses without noticing *)
Definition transp (c : N) (s : str) : Prop :=
  forall lvl tail, match_go c (S lvl) (s ++ tail) =
                   match match_go c (S lvl) tail with Some (i, r) => Some (s ++ i, r) | None => None end.

Lemma transp_nil c : transp c [].
Proof. intros lvl tail. cbn. destruct (match_go c (S lvl) tail) as [[i r]|]; reflexivity. Qed.

Lemma transp_app c a b : transp c a -> transp c b -> transp c (a ++ b).
Proof.
  intros Ha Hb lvl tail. rewrite <- app_assoc, Ha, Hb.
  destruct (match_go c (S lvl) tail) as [[i r]|]; [rewrite app_assoc|]; reflexivity.
Qed.

Lemma transp_inert c x :
  (x =? c) = false -> ((c =? c_lpar) && (x =? c_rpar)) = false -> ((c =? c_lbr) && (x =? c_rbr)) = false ->
  transp c [x].
Proof.
  intros H1 H2 H3 lvl tail. cbn [app match_go]. rewrite H1, H2, H3.
  destruct (match_go c (S lvl) tail) as [[i r]|]; reflexivity.
Qed.

Definition inert_char (x : N) : Prop :=
  is_namechar x = true \/ x = c_space \/ x = c_quote \/ x = c_bar \/ x = 45 \/ x = 62.

Lemma transp_inert_all c s : c = c_lpar \/ c = c_lbr -> (forall x, In x s -> inert_char x) -> transp c s.
Proof.
  intros Hc. induction s as [|x s IH]; intros H; [apply transp_nil|].
  change (x :: s) with ([x] ++ s). apply transp_app; [|apply IH; intros; apply H; right; auto].
  assert (Hx : inert_char x) by (apply H; left; auto).
  apply transp_inert; destruct Hc as [-> | ->];
    destruct Hx as [Hx|[->|[->|[->|[->| ->]]]]]; try reflexivity; chars.
Qed.

Lemma transp_cons c x s : transp c [x] -> transp c s -> transp c (x :: s).
Proof. intros. change (x :: s) with ([x] ++ s). apply transp_app; auto. Qed.

Lemma transp_wrap_par s : transp c_lpar s -> transp c_lpar (c_lpar :: s ++ [c_rpar]).
Proof.
  intros Hs lvl tail. rewrite <- app_comm_cons, <- app_assoc.
  cbn [match_go]. change (c_lpar =? c_lpar) with true. cbn match.
  rewrite (Hs (S lvl)). cbn [app match_go].
  change (c_rpar =? c_lpar) with false. change ((c_lpar =? c_lpar) && (c_rpar =? c_rpar)) with true.
  cbn match. cbn [pred]. destruct (match_go c_lpar (S lvl) tail) as [[i r]|]; [|reflexivity].
  rewrite <- app_assoc. reflexivity.
Qed.

Lemma transp_wrap_br s : transp c_lbr s -> transp c_lbr (c_lbr :: s ++ [c_rbr]).
Proof.
  intros Hs lvl tail. rewrite <- app_comm_cons, <- app_assoc.
  cbn [match_go]. change (c_lbr =? c_lbr) with true. cbn match.
  rewrite (Hs (S lvl)). cbn [app match_go].
  change (c_rbr =? c_lbr) with false. change ((c_lbr =? c_lpar) && (c_rbr =? c_rpar)) with false.
  change ((c_lbr =? c_lbr) && (c_rbr =? c_rbr)) with true.
  cbn match. cbn [pred]. destruct (match_go c_lbr (S lvl) tail) as [[i r]|]; [|reflexivity].
  rewrite <- app_assoc. reflexivity.
Qed.

Lemma transp_cross_par s : transp c_lbr s -> transp c_lbr (c_lpar :: s ++ [c_rpar]).
Proof.
  intros Hs. apply transp_cons; [apply transp_inert; reflexivity|].
  apply transp_app; [exact Hs|apply transp_inert; reflexivity].
Qed.

Lemma transp_cross_br s : transp c_lpar s -> transp c_lpar (c_lbr :: s ++ [c_rbr]).
Proof.
  intros Hs. apply transp_cons; [apply transp_inert; reflexivity|].
  apply transp_app; [exact Hs|apply transp_inert; reflexivity].
Qed.

Lemma match_close_par s rest : transp c_lpar s -> match_go c_lpar 1 (s ++ c_rpar :: rest) = Some (s, rest).
Proof. intros H. rewrite (H 0%nat). cbn. rewrite app_nil_r. reflexivity. Qed.
Lemma match_close_br s rest : transp c_lbr s -> match_go c_lbr 1 (s ++ c_rbr :: rest) = Some (s, rest).
Proof. intros H. rewrite (H 0%nat). cbn. rewrite app_nil_r. reflexivity. Qed.

Lemma nt_paren fx s rest : transp c_lpar s ->
  next_token fx (c_lpar :: s ++ c_rpar :: rest) = Some (TkParen s, rest).
Proof. intros H. cbn [next_token]. change ((c_lpar =? c_lpar) || (c_lpar =? c_lbr)) with true. cbn match.
  rewrite (match_close_par s rest H). reflexivity. Qed.
Lemma nt_bracket fx s rest : transp c_lbr s ->
  next_token fx (c_lbr :: s ++ c_rbr :: rest) = Some (TkBracket s, rest).
Proof. intros H. cbn [next_token]. change ((c_lbr =? c_lpar) || (c_lbr =? c_lbr)) with true. cbn match.
  rewrite (match_close_br s rest H). reflexivity. Qed.

(** ** Big-step reading of the loop (repaired tokenizer) *)
Definition run (text : str) (st : state) (t : ty) : Prop := exists f, loop true f text st = Ok t.

Lemma run_nil stack li ops orf t : finish stack ops = Some t -> run [] (St stack li ops orf) t.
Proof. intros H. exists 1%nat. cbn. rewrite H. reflexivity. Qed.

Lemma run_simple tok text rest st st' t :
  next_token true text = Some (tok, rest) -> tailok rest ->
  (forall f, loop true (S f) text st =
             match next_token true text with
             | Some (_, rest) => loop true f (strip rest) st'
             | None => Err
             end) ->
  run (lstrip rest) st' t -> run text st t.
Proof.
  intros Hn Ht Hs [f Hf]. exists (S f). rewrite Hs, Hn, strip_tailok by auto. exact Hf.
Qed.

Lemma run_name_prim w rest stack li ops orf st' t :
  valid_name w = true -> name_end rest -> tailok rest ->
  ((li <? length stack)%nat && negb orf) = false ->
  or_block (TPrim (intern w) :: stack) li ops orf = Some st' ->
  run (lstrip rest) st' t -> run (w ++ rest) (St stack li ops orf) t.
Proof.
  intros Hv He Ht Hc Ho Hr. pose proof (nt_name true w rest Hv He) as Hn.
  eapply run_simple; [exact Hn|exact Ht| |exact Hr]. intros f.
  destruct (valid_name_inv w Hv) as (c & r & -> & _). rewrite <- app_comm_cons in *.
  cbn [loop]. rewrite Hn, Hc, Ho. reflexivity.
Qed.

Lemma run_name_post w rest x stack li ops t :
  valid_name w = true -> name_end rest -> tailok rest ->
  (li <? S (length stack))%nat = true ->
  run (lstrip rest) (St ((if str_eqb w s_optional then TSum [t_unit; x] else TGeneric (intern w) [x]) :: stack) li ops false) t ->
  run (w ++ rest) (St (x :: stack) li ops false) t.
Proof.
  intros Hv He Ht Hc Hr. pose proof (nt_name true w rest Hv He) as Hn.
  eapply run_simple; [exact Hn|exact Ht| |exact Hr]. intros f.
  destruct (valid_name_inv w Hv) as (c & r & -> & _). rewrite <- app_comm_cons in *.
  cbn [loop]. rewrite Hn. cbn [length]. rewrite Hc. reflexivity.
Qed.

Lemma run_poly n rest stack li ops orf st' t :
  forallb is_namechar n = true -> name_end rest -> tailok rest ->
  or_block (TPoly (intern n) :: stack) li ops orf = Some st' ->
  run (lstrip rest) st' t -> run (c_quote :: n ++ rest) (St stack li ops orf) t.
Proof.
  intros Hv He Ht Ho Hr. pose proof (nt_poly true n rest Hv He) as Hn.
  eapply run_simple; [exact Hn|exact Ht| |exact Hr]. intros f.
  cbn [loop]. rewrite Hn, Ho. reflexivity.
Qed.

Lemma run_or rest stack li ops orf t :
  tailok rest -> run (lstrip rest) (St stack li ops true) t -> run (c_bar :: rest) (St stack li ops orf) t.
Proof.
  intros Ht Hr. eapply run_simple; [exact (nt_or true rest)|exact Ht| |exact Hr]. intros f. reflexivity.
Qed.

Lemma run_arrow rest stack li ops t :
  op_end true rest -> tailok rest ->
  run (lstrip rest) (St stack (S li) (s_arrow :: ops) false) t ->
  run (s_arrow ++ rest) (St stack li ops false) t.
Proof.
  intros He Ht Hr. pose proof (nt_arrow rest He) as Hn.
  eapply run_simple; [exact Hn|exact Ht| |exact Hr]. intros f.
  unfold s_arrow in *. rewrite <- !app_comm_cons in *. cbn [loop]. rewrite Hn. reflexivity.
Qed.

Lemma run_paren s rest stack li ops orf t1 st' t :
  transp c_lpar s -> tailok rest -> run (strip s) st0 t1 ->
  or_block (t1 :: stack) li ops orf = Some st' ->
  run (lstrip rest) st' t -> run (c_lpar :: s ++ c_rpar :: rest) (St stack li ops orf) t.
Proof.
  intros Hs Ht [f1 H1] Ho [f2 H2]. exists (S (Nat.max f1 f2)).
  cbn [loop]. rewrite (nt_paren true s rest Hs). cbn [prep].
  rewrite (loop_mono true f1 _ _ _ H1 ltac:(discriminate) (Nat.max f1 f2) ltac:(lia)).
  rewrite Ho, strip_tailok by auto.
  apply (loop_mono true f2 _ _ _ H2 ltac:(discriminate)). lia.
Qed.

Lemma run_bracket s rest n stack li ops orf t1 st' t :
  transp c_lbr s -> tailok rest -> run (strip s) st0 t1 ->
  or_block (TFixedPoly n [t1] :: stack) li ops orf = Some st' ->
  run (lstrip rest) st' t -> run (c_lbr :: s ++ c_rbr :: rest) (St (TPoly n :: stack) li ops orf) t.
Proof.
  intros Hs Ht [f1 H1] Ho [f2 H2]. exists (S (Nat.max f1 f2)).
  cbn [loop]. rewrite (nt_bracket true s rest Hs). cbn [prep].
  rewrite (loop_mono true f1 _ _ _ H1 ltac:(discriminate) (Nat.max f1 f2) ltac:(lia)).
  rewrite Ho, strip_tailok by auto.
  apply (loop_mono true f2 _ _ _ H2 ltac:(discriminate)). lia.
Qed.

(** ** Facts about renderings *)
Ltac wf_split :=
  repeat match goal with
         | H : _ && _ = true |- _ => apply andb_true_iff in H; destruct H
         end.

Lemma app_ne_r {X} (a b : list X) : b <> [] -> a ++ b <> [].
Proof. destruct a; cbn; auto; discriminate. Qed.

Lemma tailok_cons x b : tailok b -> b <> [] -> tailok (x :: b).
Proof. intros. change (x :: b) with ([x] ++ b). apply tailok_app; auto. Qed.

Lemma tailok_single c : is_space c = false -> tailok [c].
Proof. intros H. change [c] with ([] ++ [c]). constructor; auto. Qed.

Lemma tailok_name n : valid_name n = true -> tailok n.
Proof.
  intros H. pose proof (valid_name_chars n H) as Hc.
  destruct n as [|c r]; [discriminate|].
  destruct (exists_last (l := c :: r) ltac:(discriminate)) as (s & x & E). rewrite E in *.
  constructor. apply namechar_nonspace, Hc, in_or_app. right; left; reflexivity.
Qed.

Lemma render_VarR_eq n s1 s2 s3 r :
  render (EVarR n s1 s2 s3 r) =
  (c_quote :: n) ++ spaces s1 ++ c_lbr :: (spaces s2 ++ render r ++ spaces s3) ++ [c_rbr].
Proof. cbn [render]. rewrite <- !app_assoc. reflexivity. Qed.

Lemma render_Paren_eq s1 s2 e :
  render (EParen s1 s2 e) = c_lpar :: (spaces s1 ++ render e ++ spaces s2) ++ [c_rpar].
Proof. cbn [render]. rewrite <- !app_assoc. reflexivity. Qed.

Lemma render_head e : wf e = true ->
  exists c r, render e = c :: r /\ (is_alpha c = true \/ c = c_quote \/ c = c_lpar).
Proof.
  induction e as [n|n|n s1 s2 s3 r IH|s1 s2 e IH|e IH s g|a IHa s1 s2 b IHb|a IHa s1 s2 b IHb];
    cbn [wf render]; intros H; wf_split.
  - destruct (valid_name_inv n H) as (c & r & -> & Hc & _). do 2 eexists; split; [reflexivity|auto].
  - do 2 eexists; split; [reflexivity|auto].
  - do 2 eexists; split; [reflexivity|auto].
  - do 2 eexists; split; [reflexivity|auto].
  - destruct (IH H) as (c & r & -> & Hc). rewrite <- app_comm_cons. do 2 eexists; split; [reflexivity|auto].
  - destruct (IHa H) as (c & r & -> & Hc). rewrite <- app_comm_cons. do 2 eexists; split; [reflexivity|auto].
  - destruct (IHa H) as (c & r & -> & Hc). rewrite <- app_comm_cons. do 2 eexists; split; [reflexivity|auto].
Qed.

Lemma render_head_nonspace e : wf e = true -> exists c r, render e = c :: r /\ is_space c = false /\ ends_op true c = true.
Proof.
  intros H. destruct (render_head e H) as (c & r & E & Hc). exists c, r.
  destruct Hc as [Hc|[Hc|Hc]]; [|subst c; auto|subst c; auto]. repeat split; auto.
  - apply alpha_nonspace, Hc.
  - unfold ends_op. rewrite Hc. reflexivity.
Qed.

Lemma render_ne e : wf e = true -> render e <> [].
Proof. intros H. destruct (render_head e H) as (c & r & -> & _). discriminate. Qed.

Lemma render_tailok e : wf e = true -> tailok (render e).
Proof.
  induction e as [n|n|n s1 s2 s3 r IH|s1 s2 e IH|e IH s g|a IHa s1 s2 b IHb|a IHa s1 s2 b IHb];
    intros H; pose proof (render_ne _ H) as Hne; cbn [wf] in H; wf_split.
  - apply tailok_name, H.
  - cbn [render]. apply tailok_cons; [apply tailok_name, H|]. destruct n; [discriminate|discriminate].
  - rewrite render_VarR_eq. rewrite app_comm_cons, !app_assoc. constructor. reflexivity.
  - rewrite render_Paren_eq. rewrite app_comm_cons. constructor. reflexivity.
  - cbn [render]. rewrite app_assoc. apply tailok_app; [apply tailok_name; auto|]. destruct g; discriminate.
  - cbn [render]. apply tailok_app; [|apply app_ne_r; discriminate].
    apply tailok_app; [|discriminate]. apply tailok_cons; [|apply app_ne_r, render_ne; auto].
    apply tailok_app; [auto|apply render_ne; auto].
  - cbn [render]. apply tailok_app; [|apply app_ne_r, app_ne_r, app_ne_r, render_ne; auto].
    apply tailok_app; [|apply app_ne_r, app_ne_r, render_ne; auto].
    apply tailok_app; [|apply app_ne_r, render_ne; auto].
    apply tailok_app; [auto|apply render_ne; auto].
Qed.

Lemma inert_spaces k x : In x (spaces k) -> inert_char x.
Proof. intros H. apply repeat_spec in H. subst. right; left; reflexivity. Qed.

Lemma transp_spaces c k : c = c_lpar \/ c = c_lbr -> transp c (spaces k).
Proof. intros Hc. apply transp_inert_all; auto. apply inert_spaces. Qed.

Lemma transp_namechars c n : c = c_lpar \/ c = c_lbr -> (forall x, In x n -> is_namechar x = true) -> transp c n.
Proof. intros Hc H. apply transp_inert_all; auto. intros x Hx. left. auto. Qed.

Lemma transp_render e : wf e = true -> transp c_lpar (render e) /\ transp c_lbr (render e).
Proof.
  assert (L : c_lpar = c_lpar \/ c_lpar = c_lbr) by (left; reflexivity).
  assert (R : c_lbr = c_lpar \/ c_lbr = c_lbr) by (right; reflexivity).
  assert (Q : forall c, c = c_lpar \/ c = c_lbr -> transp c [c_quote]).
  { intros c Hc. apply transp_inert_all; auto. intros x [<-|[]]. right; right; left; reflexivity. }
  induction e as [n|n|n s1 s2 s3 r IH|s1 s2 e IH|e IH s g|a IHa s1 s2 b IHb|a IHa s1 s2 b IHb];
    intros H; cbn [wf] in H; wf_split.
  - split; apply transp_namechars; auto; apply valid_name_chars; auto.
  - cbn [render]. split; (apply transp_cons; [apply Q; auto|]); apply transp_namechars; auto; apply valid_name_chars; auto.
  - rewrite render_VarR_eq. destruct (IH ltac:(assumption)) as [I1 I2].
    split; (apply transp_app; [apply transp_cons; [apply Q; auto|apply transp_namechars; auto; apply valid_name_chars; auto]|]);
      (apply transp_app; [apply transp_spaces; auto|]).
    + apply transp_cross_br. repeat apply transp_app; auto using transp_spaces.
    + apply transp_wrap_br. repeat apply transp_app; auto using transp_spaces.
  - rewrite render_Paren_eq. destruct (IH ltac:(assumption)) as [I1 I2]. split.
    + apply transp_wrap_par. repeat apply transp_app; auto using transp_spaces.
    + apply transp_cross_par. repeat apply transp_app; auto using transp_spaces.
  - cbn [render]. destruct (IH ltac:(assumption)) as [I1 I2].
    split; repeat apply transp_app; auto using transp_spaces; apply transp_namechars; auto; apply valid_name_chars; auto.
  - cbn [render]. destruct (IHa ltac:(assumption)) as [I1 I2]. destruct (IHb ltac:(assumption)) as [J1 J2].
    split; (apply transp_app; [auto|]); (apply transp_app; [apply transp_spaces; auto|]);
      (apply transp_cons; [apply transp_inert; reflexivity|]); apply transp_app; auto using transp_spaces.
  - cbn [render]. destruct (IHa ltac:(assumption)) as [I1 I2]. destruct (IHb ltac:(assumption)) as [J1 J2].
    split; (apply transp_app; [auto|]); (apply transp_app; [apply transp_spaces; auto|]);
      (apply transp_app; [apply transp_inert_all; auto; intros x [<-|[<-|[]]]; right; right; right; right; [left|right]; reflexivity|]);
      apply transp_app; auto using transp_spaces.
Qed.

Lemma lstrip_spaces_render k e rest : wf e = true -> lstrip (spaces k ++ render e ++ rest) = render e ++ rest.
Proof.
  intros H. rewrite lstrip_spaces. destruct (render_head_nonspace e H) as (c & r & -> & Hc & _).
  rewrite <- app_comm_cons. apply lstrip_nonspace, Hc.
Qed.

Lemma strip_padded_render k1 k2 e : wf e = true -> strip (spaces k1 ++ render e ++ spaces k2) = render e.
Proof.
  intros H. destruct (render_head_nonspace e H) as (c & r & E & Hc & _).
  apply (strip_padded k1 k2 (render e) c r E Hc). apply render_tailok, H.
Qed.

(** ** The round trip on expressions *)
(* an atom that may follow [|]: any or_flag *)
Definition Astmt (e : texpr) : Prop :=
  simple_atom e = true ->
  forall rest stack li ops orf st' t,
    tailok (render e ++ rest) -> (ends_name e = true -> name_end rest) ->
    ((li <? length stack)%nat && negb orf) = false ->
    or_block (denote e :: stack) li ops orf = Some st' ->
    run (lstrip rest) st' t ->
    run (render e ++ rest) (St stack li ops orf) t.

Definition Ustmt (e : texpr) : Prop :=
  forall rest stack ops t,
    tailok (render e ++ rest) -> (ends_name e = true -> name_end rest) ->
    run (lstrip rest) (St (denote e :: stack) (length stack) ops false) t ->
    run (render e ++ rest) (St stack (length stack) ops false) t.

Definition Tstmt (e : texpr) : Prop :=
  forall stack ops t,
    finish (denote e :: stack) ops = Some t ->
    run (render e) (St stack (length stack) ops false) t.

Lemma ltb_self_S n : (n <? S n)%nat = true.
Proof. apply Nat.ltb_lt. lia. Qed.
Lemma ltb_self n b : ((n <? n)%nat && b) = false.
Proof. rewrite Nat.ltb_irrefl. reflexivity. Qed.

Lemma U_of_A e : simple_atom e = true -> Astmt e -> Ustmt e.
Proof.
  intros Hs HA rest stack ops t Ht He Hr.
  apply (HA Hs rest stack (length stack) ops false _ t Ht He (ltb_self _ _) eq_refl Hr).
Qed.

Lemma T_of_U e : wf e = true -> Ustmt e -> Tstmt e.
Proof.
  intros Hw HU stack ops t Hf. rewrite <- (app_nil_r (render e)). apply HU.
  - rewrite app_nil_r. apply render_tailok, Hw.
  - intros _. exact I.
  - apply run_nil, Hf.
Qed.

Lemma name_end_spaces_or k c rest : is_namechar c = false -> name_end (spaces k ++ c :: rest).
Proof. intros H. destruct k; cbn; auto. Qed.

Lemma sub_run e : wf e = true -> Tstmt e -> forall k1 k2, run (strip (spaces k1 ++ render e ++ spaces k2)) st0 (denote e).
Proof.
  intros Hw HT k1 k2. rewrite strip_padded_render by auto. apply (HT [] []). reflexivity.
Qed.

Lemma namechars_of_valid n : valid_name n = true -> forallb is_namechar n = true.
Proof. intros H. apply forallb_forall. apply valid_name_chars, H. Qed.

Lemma tailok_tl c s : tailok (c :: s) -> tailok s.
Proof. apply (tailok_suffix [c] s). Qed.

Ltac tl H :=
  first [ exact H
        | let H' := fresh in pose proof (tailok_suffix _ _ H) as H'; tl H'
        | let H' := fresh in pose proof (tailok_tl _ _ H) as H'; tl H' ].
Ltac flat := repeat (rewrite <- app_assoc || rewrite <- app_comm_cons).
Ltac flat_in H := repeat (rewrite <- app_assoc in H || rewrite <- app_comm_cons in H).

Lemma main_roundtrip e : wf e = true -> Astmt e /\ ((level e <= 1)%nat -> Ustmt e) /\ Tstmt e.
Proof.
  induction e as [n|n|n s1 s2 s3 r IH|s1 s2 e IH|e IH s g|a IHa s1 s2 b IHb|a IHa s1 s2 b IHb];
    intros Hw; pose proof Hw as Hw0; cbn [wf] in Hw; wf_split.
  - (* name *)
    assert (A : Astmt (EName n)).
    { intros _ rest stack li ops orf st' t Ht He Hc Ho Hr. cbn [render denote] in *.
      apply (run_name_prim n rest stack li ops orf st' t); auto.
      apply (tailok_suffix n rest Ht). }
    pose proof (fun H => U_of_A _ H A) as U; specialize (U eq_refl).
    split; [auto|split; [auto|apply T_of_U; auto]].
  - (* variable *)
    assert (A : Astmt (EVar n)).
    { intros _ rest stack li ops orf st' t Ht He Hc Ho Hr. cbn [render denote] in *.
      rewrite <- app_comm_cons.
      apply (run_poly n rest stack li ops orf st' t); auto.
      - apply namechars_of_valid, Hw.
      - apply (tailok_suffix (c_quote :: n) rest Ht). }
    pose proof (fun H => U_of_A _ H A) as U; specialize (U eq_refl).
    split; [auto|split; [auto|apply T_of_U; auto]].
  - (* restricted variable *)
    destruct (IH ltac:(assumption)) as (_ & _ & HT).
    assert (U : Ustmt (EVarR n s1 s2 s3 r)).
    { intros rest stack ops t Ht He Hr. rewrite render_VarR_eq in *. cbn [denote].
      assert (Hin : transp c_lbr (spaces s2 ++ render r ++ spaces s3)).
      { destruct (transp_render r ltac:(assumption)) as [_ T2].
        repeat apply transp_app; auto using transp_spaces. }
      pose proof (sub_run r ltac:(assumption) HT s2 s3) as Hsub.
      remember (spaces s2 ++ render r ++ spaces s3) as inner eqn:Ei. clear Ei.
      flat. flat_in Ht. change ([c_rbr] ++ rest) with (c_rbr :: rest) in *.
      eapply (run_poly n _ stack (length stack) ops false _ t (namechars_of_valid n ltac:(assumption))).
      - apply name_end_spaces_or. reflexivity.
      - tl Ht.
      - reflexivity.
      - rewrite lstrip_spaces, lstrip_nonspace by reflexivity.
        eapply (run_bracket inner rest (intern n) stack (length stack) ops false (denote r)); auto.
        + tl Ht.
        + reflexivity.
        + exact Hr. }
    split; [intros Hs; discriminate|split; [auto|apply T_of_U; auto]].
  - (* parentheses *)
    destruct (IH ltac:(assumption)) as (_ & _ & HT).
    assert (A : Astmt (EParen s1 s2 e)).
    { intros _ rest stack li ops orf st' t Ht He Hc Ho Hr. rewrite render_Paren_eq in *. cbn [denote] in *.
      assert (Hin : transp c_lpar (spaces s1 ++ render e ++ spaces s2)).
      { destruct (transp_render e ltac:(assumption)) as [T1 _].
        repeat apply transp_app; auto using transp_spaces. }
      pose proof (sub_run e ltac:(assumption) HT s1 s2) as Hsub.
      remember (spaces s1 ++ render e ++ spaces s2) as inner eqn:Ei. clear Ei.
      flat. flat_in Ht. change ([c_rpar] ++ rest) with (c_rpar :: rest) in *.
      eapply (run_paren inner rest stack li ops orf (denote e)); eauto.
      tl Ht. }
    pose proof (fun H => U_of_A _ H A) as U; specialize (U eq_refl).
    split; [auto|split; [auto|apply T_of_U; auto]].
  - (* postfix *)
    destruct (IH ltac:(assumption)) as (_ & HU & _).
    assert (Hl : (level e <= 1)%nat) by (apply Nat.leb_le; assumption).
    specialize (HU Hl).
    assert (U : Ustmt (EPost e s g)).
    { intros rest stack ops t Ht He Hr. cbn [render denote] in *. rewrite <- !app_assoc in *.
      destruct (valid_name_inv g ltac:(assumption)) as (c & r' & E & Hc & Hr').
      apply HU.
      - exact Ht.
      - intros Hen. destruct s as [|s]; [|cbn; reflexivity].
        match goal with Hs : _ || _ = true |- _ => rewrite Hen in Hs; cbn in Hs; discriminate end.
      - rewrite lstrip_spaces. rewrite E at 1. rewrite <- app_comm_cons.
        rewrite lstrip_nonspace by (apply alpha_nonspace, Hc). rewrite app_comm_cons, <- E.
        apply run_name_post; [assumption|apply He; reflexivity|tl Ht|apply ltb_self_S|exact Hr]. }
    split; [intros Hs; discriminate|split; [auto|apply T_of_U; auto]].
  - (* union *)
    destruct (IHa ltac:(assumption)) as (_ & HU & _).
    assert (Hl : (level a <= 1)%nat) by (apply Nat.leb_le; assumption).
    specialize (HU Hl).
    assert (Hwb : wf b = true) by assumption.
    assert (Hsb : simple_atom b = true) by assumption.
    destruct (IHb Hwb) as (HAb & _ & _).
    assert (U : Ustmt (EUnion a s1 s2 b)).
    { intros rest stack ops t Ht He Hr. cbn [render denote ends_name] in *.
      rewrite <- !app_assoc in *. rewrite <- !app_comm_cons in *. rewrite <- !app_assoc in *.
      apply HU.
      - exact Ht.
      - intros _. apply name_end_spaces_or. reflexivity.
      - rewrite lstrip_spaces, lstrip_nonspace by reflexivity.
        assert (Ht1 : tailok (render b ++ rest)).
        { tl Ht. }
        apply run_or.
        + tl Ht.
        + rewrite lstrip_spaces_render by auto.
          eapply (HAb Hsb rest (denote a :: stack) (length stack) ops true _ t Ht1 He).
          * rewrite andb_false_r. reflexivity.
          * reflexivity.
          * exact Hr. }
    split; [intros Hs; discriminate|split; [auto|apply T_of_U; auto]].
  - (* arrow *)
    destruct (IHa ltac:(assumption)) as (_ & HU & _).
    assert (Hl : (level a <= 1)%nat) by (apply Nat.leb_le; assumption).
    specialize (HU Hl).
    assert (Hwb : wf b = true) by assumption.
    destruct (IHb Hwb) as (_ & _ & HTb).
    split; [intros Hs; discriminate|split; [cbn [level]; lia|]].
    intros stack ops t Hf. cbn [render denote] in *.
    apply HU.
    + apply render_tailok in Hw0. exact Hw0.
    + intros _. apply name_end_spaces_or. reflexivity.
    + rewrite lstrip_spaces. unfold s_arrow at 1. rewrite <- !app_comm_cons.
      rewrite lstrip_nonspace by reflexivity.
      change (45 :: 62 :: [] ++ spaces s2 ++ render b) with (s_arrow ++ spaces s2 ++ render b).
      apply run_arrow.
      * destruct (render_head_nonspace b Hwb) as (c & r' & E & _ & Hc). rewrite E.
        destruct s2; cbn; auto.
      * apply tailok_app; [apply render_tailok, Hwb|apply render_ne, Hwb].
      * rewrite <- (app_nil_r (render b)) at 1. rewrite lstrip_spaces_render by auto. rewrite app_nil_r.
        apply (HTb (denote a :: stack) (s_arrow :: ops) t). exact Hf.
Qed.

(** ** Main theorems on expressions *)
Theorem auto_type_expr e k1 k2 : wf e = true ->
  auto_type (spaces k1 ++ render e ++ spaces k2) = Ok (denote e).
Proof.
  intros Hw. destruct (main_roundtrip e Hw) as (_ & _ & HT).
  destruct (sub_run e Hw HT k1 k2) as [f Hf].
  unfold auto_type. apply (loop_det true f _ _ _ _ Hf). exact (auto_type_gen_fuel true _).
Qed.

Lemma denote_arrow_chain args r :
  denote (arrow_chain args r) = function_type (map (fun x => denote (fst x)) args) (denote r).
Proof. induction args as [|[a [s1 s2]] rest IH]; cbn; auto. rewrite IH. reflexivity. Qed.

Lemma wf_arrow_chain args r :
  forallb (fun x => wf (fst x) && (level (fst x) <=? 1)%nat) args = true -> wf r = true ->
  wf (arrow_chain args r) = true.
Proof.
  induction args as [|[a [s1 s2]] rest IH]; cbn; auto. intros H Hr. wf_split.
  cbn in *. rewrite H, H1, IH; auto.
Qed.

Theorem auto_type_function args r k1 k2 :
  forallb (fun x => wf (fst x) && (level (fst x) <=? 1)%nat) args = true -> wf r = true ->
  auto_type (spaces k1 ++ render (arrow_chain args r) ++ spaces k2)
  = Ok (function_type (map (fun x => denote (fst x)) args) (denote r)).
Proof.
  intros Ha Hr. rewrite auto_type_expr by (apply wf_arrow_chain; auto).
  rewrite denote_arrow_chain. reflexivity.
Qed.

(** ** The printer: [to_expr] yields a well-formed expression denoting the type *)
Lemma str_eqb_refl s : str_eqb s s = true.
Proof. apply (list_eqb_spec N.eqb N.eqb_eq). reflexivity. Qed.

Lemma at_level1_ok sy e : wf e = true ->
  wf (at_level1 sy e) = true /\ (level (at_level1 sy e) <=? 1)%nat = true /\ denote (at_level1 sy e) = denote e.
Proof.
  intros H. unfold at_level1, paren. destruct (sy_redundant sy); [cbn; auto|].
  destruct (level e <=? 1)%nat eqn:E; cbn; auto.
Qed.

Lemma as_simple_ok sy e : wf e = true ->
  wf (as_simple sy e) = true /\ simple_atom (as_simple sy e) = true /\ denote (as_simple sy e) = denote e.
Proof.
  intros H. unfold as_simple, paren. destruct (sy_redundant sy); [cbn; auto|].
  destruct (simple_atom e) eqn:E; cbn; auto.
Qed.

Lemma py_or_plain x y : is_sum x = false -> is_sum y = false -> py_or x y = TSum [x; y].
Proof. destruct x; destruct y; cbn; intros; try discriminate; reflexivity. Qed.
Lemma py_or_sum_plain xs y : is_sum y = false -> py_or (TSum xs) y = TSum (y :: xs).
Proof. destruct y; cbn; intros; try discriminate; reflexivity. Qed.

Lemma union_chain_ok sy : forall l acc xs,
  wf acc = true -> (level acc <=? 1)%nat = true -> denote acc = TSum xs ->
  (forall e, In e l -> wf e = true /\ is_sum (denote e) = false) ->
  wf (union_chain sy acc l) = true /\ (level (union_chain sy acc l) <=? 1)%nat = true /\
  denote (union_chain sy acc l) = TSum (rev (map denote l) ++ xs).
Proof.
  induction l as [|x l IH]; intros acc xs Hw Hl Hd Hall; cbn [union_chain map rev app]; auto.
  destruct (Hall x (or_introl eq_refl)) as [Hwx Hsx].
  destruct (as_simple_ok sy x Hwx) as (S1 & S2 & S3).
  destruct (IH (EUnion acc (fst (sy_bar sy)) (snd (sy_bar sy)) (as_simple sy x)) (denote x :: xs)) as (R1 & R2 & R3).
  - cbn [wf]. rewrite Hw, Hl, S1, S2. reflexivity.
  - reflexivity.
  - cbn [denote]. rewrite Hd, S3. apply py_or_sum_plain, Hsx.
  - intros e He. apply Hall. right. exact He.
  - repeat split; auto. rewrite R3, <- app_assoc. reflexivity.
Qed.

Lemma doc_name_ok n : doc_name n = true -> valid_name (unintern n) = true /\ intern (unintern n) = n.
Proof. unfold doc_name. intros H. apply andb_true_iff in H. destruct H as [H1 H2]. apply N.eqb_eq in H2. auto. Qed.

Lemma to_expr_sum3 sy a b c l :
  to_expr sy (TSum (a :: b :: c :: l)) =
  match rev (map (to_expr sy) (a :: b :: c :: l)) with
  | xn :: xn1 :: before =>
    union_chain sy (EUnion (at_level1 sy xn1) (fst (sy_bar sy)) (snd (sy_bar sy)) (as_simple sy xn)) before
  | _ => EName []
  end.
Proof. reflexivity. Qed.

Lemma documented_sum3 a b c l :
  documented (TSum (a :: b :: c :: l)) = forallb (fun x => documented x && negb (is_sum x)) (a :: b :: c :: l).
Proof. reflexivity. Qed.

Lemma to_expr_ok sy t : documented t = true -> wf (to_expr sy t) = true /\ denote (to_expr sy t) = t.
Proof.
  induction t as [n|a b IHa IHb|g l IH|n|n l IH|l IH|] using ty_ind'; intros H.
  - cbn in *. destruct (doc_name_ok n H) as [H1 H2]. rewrite H2. auto.
  - cbn [documented] in H. wf_split. destruct (IHa ltac:(assumption)) as [A1 A2].
    destruct (IHb ltac:(assumption)) as [B1 B2].
    destruct (at_level1_ok sy _ A1) as (L1 & L2 & L3).
    cbn [to_expr wf denote]. rewrite L1, L2, L3, B1, A2, B2. auto.
  - destruct l as [|x [|y l']]; cbn [documented] in H; try discriminate. wf_split.
    inversion IH as [|? ? IHx _]; subst. destruct (IHx ltac:(assumption)) as [A1 A2].
    destruct (at_level1_ok sy _ A1) as (L1 & L2 & L3).
    destruct (doc_name_ok g ltac:(assumption)) as [G1 G2].
    cbn [to_expr wf denote]. rewrite L1, L2, L3, G1, G2, A2.
    match goal with Hn : negb _ = true |- _ => apply negb_true_iff in Hn; rewrite Hn end. auto.
  - cbn in *. destruct (doc_name_ok n H) as [H1 H2]. rewrite H2. auto.
  - destruct l as [|x [|y l']]; cbn [documented] in H; try discriminate. wf_split.
    inversion IH as [|? ? IHx _]; subst. destruct (IHx ltac:(assumption)) as [A1 A2].
    destruct (doc_name_ok n ltac:(assumption)) as [G1 G2].
    cbn [to_expr wf denote]. rewrite G1, G2, A1, A2. auto.
  - destruct l as [|u [|x [|y l']]]; try (cbn [documented] in H; discriminate).
    + (* two members *)
      inversion IH as [|? ? IHu IH']; subst. inversion IH' as [|? ? IHx _]; subst.
      cbn [documented to_expr] in *. destruct (ty_eqb u t_unit) eqn:Eu.
      * apply ty_eqb_spec in Eu. subst u. destruct (IHx H) as [A1 A2].
        destruct (at_level1_ok sy _ A1) as (L1 & L2 & L3).
        cbn [wf denote]. rewrite L1, L2, L3, A2. rewrite str_eqb_refl. auto.
      * wf_split. destruct (IHu ltac:(assumption)) as [A1 A2]. destruct (IHx ltac:(assumption)) as [B1 B2].
        destruct (at_level1_ok sy _ A1) as (L1 & L2 & L3).
        destruct (as_simple_ok sy _ B1) as (S1 & S2 & S3).
        cbn [wf denote]. rewrite L1, L2, L3, S1, S2, S3, A2, B2.
        repeat match goal with Hn : negb _ = true |- _ => apply negb_true_iff in Hn end.
        rewrite py_or_plain by auto. auto.
    + (* three or more *)
      rewrite documented_sum3 in H. rewrite to_expr_sum3.
      set (L := u :: x :: y :: l') in *.
      assert (HL : forall z, In z L -> wf (to_expr sy z) = true /\ denote (to_expr sy z) = z /\ is_sum z = false).
      { intros z Hz. rewrite forallb_forall in H. specialize (H z Hz). wf_split.
        rewrite Forall_forall in IH. destruct (IH z Hz ltac:(assumption)) as [A1 A2].
        match goal with Hn : negb _ = true |- _ => apply negb_true_iff in Hn end. auto. }
      assert (HE : forall e, In e (rev (map (to_expr sy) L)) -> wf e = true /\ is_sum (denote e) = false).
      { intros e He. apply in_rev, in_map_iff in He. destruct He as (z & <- & Hz).
        destruct (HL z Hz) as (A1 & A2 & A3). rewrite A2. auto. }
      assert (HD : map denote (map (to_expr sy) L) = L).
      { rewrite map_map. rewrite <- (map_id L) at 2. apply map_ext_in. intros z Hz. apply (HL z Hz). }
      assert (Hlen : length (rev (map (to_expr sy) L)) = S (S (S (length l')))) by (rewrite rev_length, map_length; reflexivity).
      destruct (rev (map (to_expr sy) L)) as [|xn [|xn1 before]] eqn:ER; try (cbn in Hlen; discriminate).
      destruct (HE xn (or_introl eq_refl)) as [N1 N2].
      destruct (HE xn1 (or_intror (or_introl eq_refl))) as [M1 M2].
      destruct (at_level1_ok sy _ M1) as (L1 & L2 & L3).
      destruct (as_simple_ok sy _ N1) as (S1 & S2 & S3).
      destruct (union_chain_ok sy before
                  (EUnion (at_level1 sy xn1) (fst (sy_bar sy)) (snd (sy_bar sy)) (as_simple sy xn))
                  [denote xn1; denote xn]) as (R1 & R2 & R3).
      * cbn [wf]. rewrite L1, L2, S1, S2. reflexivity.
      * reflexivity.
      * cbn [denote]. rewrite L3, S3. apply py_or_plain; auto.
      * intros e He. apply HE. right; right; exact He.
      * split; [exact R1|]. rewrite R3. f_equal.
        rewrite <- HD. rewrite <- (rev_involutive (map (to_expr sy) L)), ER.
        cbn [rev]. rewrite !map_app, map_rev, <- !app_assoc. reflexivity.
  - cbn in H. discriminate.
Qed.

Theorem show_type_roundtrip sy t k1 k2 : documented t = true ->
  auto_type (spaces k1 ++ show_type sy t ++ spaces k2) = Ok t.
Proof.
  intros H. destruct (to_expr_ok sy t H) as [H1 H2]. unfold show_type.
  rewrite auto_type_expr by auto. rewrite H2. reflexivity.
Qed.

(** ** Interning is injective on byte strings, [unintern] inverts it *)
Lemma intern_snoc s c : intern (s ++ [c]) = intern s * 256 + c.
Proof. unfold intern. rewrite fold_left_app. reflexivity. Qed.

Lemma intern_pos s : 1 <= intern s.
Proof.
  induction s as [|c s IH] using rev_ind; [cbn; lia|]. rewrite intern_snoc. lia.
Qed.

Lemma unintern_fuel_intern : forall s f, Forall (fun c => c < 256) s -> (length s < f)%nat ->
  unintern_fuel f (intern s) = s.
Proof.
  induction s as [|c s IH] using rev_ind; intros f Hb Hf.
  - destruct f; [lia|]. reflexivity.
  - destruct f as [|f]; [lia|]. rewrite app_length in Hf. cbn in Hf.
    apply Forall_app in Hb. destruct Hb as [Hs Hc]. inversion Hc as [|? ? Hc' _]; subst.
    pose proof (intern_pos s) as Hp. rewrite intern_snoc. cbn [unintern_fuel].
    destruct (N.leb_spec (intern s * 256 + c) 1); [lia|].
    replace ((intern s * 256 + c) / 256) with (intern s)
      by (apply N.div_unique with c; lia).
    replace ((intern s * 256 + c) mod 256) with c
      by (apply N.mod_unique with (intern s); lia).
    rewrite IH by (auto; lia). reflexivity.
Qed.

Lemma intern_lower s : 2 ^ N.of_nat (length s) <= intern s.
Proof.
  induction s as [|c s IH] using rev_ind; [cbn; lia|].
  rewrite intern_snoc, app_length. cbn [length]. rewrite Nat.add_1_r, Nat2N.inj_succ, N.pow_succ_r'. lia.
Qed.

Lemma unintern_intern s : Forall (fun c => c < 256) s -> unintern (intern s) = s.
Proof.
  intros Hb. unfold unintern. apply unintern_fuel_intern; auto.
  pose proof (intern_lower s) as Hl. pose proof (intern_pos s) as Hp.
  assert (N.of_nat (length s) < N.size (intern s)).
  { destruct (intern s) as [|p] eqn:E; [lia|]. rewrite N.size_log2 by discriminate.
    apply N.lt_succ_r. apply N.log2_le_pow2; lia. }
  lia.
Qed.

Lemma intern_inj s1 s2 : Forall (fun c => c < 256) s1 -> Forall (fun c => c < 256) s2 ->
  intern s1 = intern s2 -> s1 = s2.
Proof. intros H1 H2 E. rewrite <- (unintern_intern s1 H1), <- (unintern_intern s2 H2), E. reflexivity. Qed.

Lemma valid_name_bytes n : valid_name n = true -> Forall (fun c => c < 256) n.
Proof.
  intros H. apply Forall_forall. intros x Hx. pose proof (valid_name_chars n H x Hx) as Hc. chars.
Qed.

(** Every name of the notation is a documented name. *)
Lemma doc_name_intern n : valid_name n = true -> doc_name (intern n) = true.
Proof.
  intros H. unfold doc_name. rewrite (unintern_intern n (valid_name_bytes n H)), H, N.eqb_refl. reflexivity.
Qed.

(** ** Examples: hypotheses are satisfiable, the pinned tokenizer is refuted *)
Definition ex_int : str := [105; 110; 116].        (* int *)
Definition ex_list : str := [108; 105; 115; 116].  (* list *)
Definition ex_a : str := [97].
Definition ex_b : str := [98].
(* ('a[int | b] -> b list) optional -> (a | b | int) -> 'b *)
Definition ex_type : ty :=
  TArrow (TSum [t_unit; TArrow (TFixedPoly (intern ex_a) [TSum [TPrim (intern ex_int); TPrim (intern ex_b)]])
                               (TGeneric (intern ex_list) [TPrim (intern ex_b)])])
         (TArrow (TSum [TPrim (intern ex_a); TPrim (intern ex_b); TPrim (intern ex_int)]) (TPoly (intern ex_b))).
Definition ex_style : style := Style (1, 1)%nat (0, 2)%nat 1 (1, 0)%nat (0, (1, 1))%nat false.

Example ex_documented : documented ex_type = true.
Proof. vm_compute. reflexivity. Qed.
Example ex_roundtrip : auto_type (show_type ex_style ex_type) = Ok ex_type.
Proof. vm_compute. reflexivity. Qed.
Example ex_roundtrip_redundant :
  auto_type (show_type (Style (0, 0) (0, 0) 0 (2, 2) (1, (0, 0)) true)%nat ex_type) = Ok ex_type.
Proof. vm_compute. reflexivity. Qed.

(** The pinned tokenizer (before proposed fix C15-1) silently returns another
    type on documented notation:  a->'b  and  ( 'a -> b)  . *)
Example pinned_quote_after_arrow :
  let e := EArrow (EName ex_a) 0 0 (EVar ex_b) in
  wf e = true /\ auto_type_pinned (render e) = Ok (TGeneric (intern [45; 62; 39]) [TPrim (intern ex_a); TPrim (intern ex_b)])
  /\ auto_type (render e) = Ok (TArrow (TPrim (intern ex_a)) (TPoly (intern ex_b))).
Proof. vm_compute. auto. Qed.
Example pinned_blank_after_paren :
  let e := EParen 1 0 (EArrow (EVar ex_a) 1 1 (EName ex_b)) in
  wf e = true /\ auto_type_pinned (render e) = Ok (TArrow (TPrim (intern ex_a)) (TPrim (intern ex_b)))
  /\ auto_type (render e) = Ok (TArrow (TPoly (intern ex_a)) (TPrim (intern ex_b))).
Proof. vm_compute. auto. Qed.

Lemma pinned_refuted :
  exists e, wf e = true /\ auto_type_pinned (render e) <> Ok (denote e) /\ auto_type_pinned (render e) <> Err.
Proof.
  exists (EArrow (EName ex_a) 0 0 (EVar ex_b)). vm_compute. repeat split; discriminate.
Qed.
