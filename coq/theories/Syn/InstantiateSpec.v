(** Declarative specification of polymorphic instantiation (property C14):
    which (name, type) pairs are the admissible ground instances of a declared
    primitive, and the well-formedness conditions on a syntax under which the
    theorems are stated.  Definitions only. *)
From Coq Require Import ZArith NArith List Bool Arith.
From PS Require Import Base.ListX Base.Ty Syn.Instantiate.
Import ListNotations.

(** ** Substitution of type variables (by name), simultaneous. *)
Fixpoint apply_subst (sigma : N -> ty) (t : ty) : ty :=
  match t with
  | TPoly n => sigma n
  | TFixedPoly n _ => sigma n
  | TArrow a b => TArrow (apply_subst sigma a) (apply_subst sigma b)
  | TGeneric g l => TGeneric g (map (apply_subst sigma) l)
  | TSum l => TSum (map (apply_subst sigma) l)
  | _ => t
  end.

(** ** Choosing one alternative of every sum. *)
Inductive choose : ty -> ty -> Prop :=
| ch_prim n : choose (TPrim n) (TPrim n)
| ch_unknown : choose TUnknown TUnknown
| ch_poly n : choose (TPoly n) (TPoly n)
| ch_fixed n l : choose (TFixedPoly n l) (TFixedPoly n l)
| ch_arrow a b a' b' : choose a a' -> choose b b' -> choose (TArrow a b) (TArrow a' b')
| ch_generic n l l' : Forall2 choose l l' -> choose (TGeneric n l) (TGeneric n l')
| ch_sum l x u : In x l -> choose x u -> choose (TSum l) u.

(** ** Dropping the unit arguments of a signature. *)
Definition drop_units (t : ty) : ty :=
  function_type (filter (fun a => negb (ty_eqb a UNIT)) (arguments t)) (returns t).

(** ** The documented universe over the base types [B]: base types, lists and
    lists of lists of them, one-argument functions between them. *)
Definition in_universe (B : N -> Prop) (s : ty) : Prop :=
  (exists b, B b /\ s = TPrim b) \/
  (exists b, B b /\ s = TList (TPrim b)) \/
  (exists b, B b /\ s = TList (TList (TPrim b))) \/
  (exists a b, B a /\ B b /\ s = TArrow (TPrim a) (TPrim b)).

(** Base types of the DSL: the names of ground types that occur in a declared
    signature (outside restriction annotations, as decompose_type collects
    them), unit excepted. *)
Definition dsl_base_type (syn : list prim) (b : N) : Prop :=
  b <> N_UNIT /\ exists p, In p syn /\ In b (base_prims (snd p)).

(** A restricted variable takes one of its allowed types (a sum in the
    annotation stands for its alternatives, as auto_type writes 'a[int|bool]). *)
Definition allowed_by (v s : ty) : Prop :=
  match v with
  | TFixedPoly _ allowed => exists x, In x allowed /\ choose x s
  | _ => True
  end.

(** [sigma] is admissible for the declared type [t]: every type variable of
    [t] takes a universe type within the size bound, restricted variables one
    of their allowed types. *)
Definition admissible (B : N -> Prop) (bound : nat) (t : ty) (sigma : N -> ty) : Prop :=
  forall v, In v (poly_vars t) ->
    in_universe B (sigma (var_name v)) /\ ty_size (sigma (var_name v)) <= bound /\ allowed_by v (sigma (var_name v)).

(** [t'] is an admissible ground instance of the declared type [t]. *)
Definition instance_of (B : N -> Prop) (bound : nat) (t t' : ty) : Prop :=
  exists sigma u, admissible B bound t sigma /\ choose (apply_subst sigma t) u /\ t' = drop_units u.

(** [p] is an admissible instance of a primitive declared in [syn] (same name). *)
Definition admissible_instance (syn : list prim) (bound : nat) (p : prim) : Prop :=
  exists t, In (fst p, t) syn /\ instance_of (dsl_base_type syn) bound t (snd p).

(** ** Well-formed syntaxes *)
(* every sum has at least two alternatives *)
Fixpoint proper_sums (t : ty) : bool :=
  match t with
  | TSum l => (2 <=? length l) && forallb proper_sums l
  | TArrow a b => proper_sums a && proper_sums b
  | TGeneric _ l => forallb proper_sums l
  | _ => true
  end.

(* every generic name is used with [ar name] arguments *)
Fixpoint arity_ok (ar : N -> nat) (t : ty) : bool :=
  match t with
  | TGeneric n l => (length l =? ar n) && forallb (arity_ok ar) l
  | TArrow a b => arity_ok ar a && arity_ok ar b
  | TSum l => forallb (arity_ok ar) l
  | _ => true
  end.

(* a restriction annotation lists concrete types: no type variable inside, generics unary *)
Fixpoint plain_ann (x : ty) : bool :=
  match x with
  | TPoly _ => false
  | TFixedPoly _ _ => false
  | TArrow a b => plain_ann a && plain_ann b
  | TGeneric _ l => (length l =? 1) && forallb plain_ann l
  | TSum l => forallb plain_ann l
  | _ => true
  end.

Fixpoint ann_ok (t : ty) : bool :=
  match t with
  | TFixedPoly _ l => forallb plain_ann l
  | TArrow a b => ann_ok a && ann_ok b
  | TGeneric _ l => forallb ann_ok l
  | TSum l => forallb ann_ok l
  | _ => true
  end.

(* a variable name denotes one variable: same restriction at every occurrence *)
Definition consistent_vars (t : ty) : Prop :=
  forall v w, In v (poly_vars t) -> In w (poly_vars t) -> var_name v = var_name w -> v = w.

Definition wf_type (ar : N -> nat) (t : ty) : Prop :=
  proper_sums t = true /\ arity_ok ar t = true /\ ann_ok t = true /\ consistent_vars t.

(** A syntax is a mapping (distinct names) of well-formed types; "list" is unary. *)
Definition wf_syntax (syn : list prim) : Prop :=
  NoDup (map fst syn) /\
  exists ar, ar N_LIST = 1 /\ forall p, In p syn -> wf_type ar (snd p).

(** decidable version of [consistent_vars], for examples *)
Definition consistent_varsb (t : ty) : bool :=
  forallb (fun v => forallb (fun w => negb (N.eqb (var_name v) (var_name w)) || ty_eqb v w) (poly_vars t)) (poly_vars t).
