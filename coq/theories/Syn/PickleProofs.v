(** Proofs for Syn/Pickle.v: what the reader rebuilds is exactly what a fresh
    construction in the reading process gives, whatever hash functions the
    writer had; cached hashes are the hashes of the keys of EqHash.v; lookups
    in rebuilt dicts behave like lookups by [==]. *)
From Coq Require Import ZArith NArith List Bool Lia Permutation.
From PS Require Import Base.ListX Base.Sexp Syn.EqHash Syn.EqHashProofs Syn.Pickle.
Import ListNotations.

Lemma map_id_in {X} (f : X -> X) l : (forall x, In x l -> f x = x) -> map f l = l.
Proof. induction l as [|x r IH]; cbn; intros H; f_equal; auto. Qed.

Lemma map_eq_in {X Y} (f g : X -> Y) l : (forall x, In x l -> f x = g x) -> map f l = map g l.
Proof. induction l as [|x r IH]; cbn; intros H; f_equal; auto. Qed.

(** * erase after build *)

Lemma erase_build_ty H : forall t, erase_ty (build_ty H t) = t.
Proof.
  induction t as [n|a b IHa IHb|n l i IH|n|n l IH|l IH|] using oty_ind'; cbn; auto;
    try rewrite Forall_forall in IH.
  - rewrite IHa, IHb; reflexivity.
  - rewrite map_map, map_id_in; auto.
  - rewrite map_map, map_id_in; auto.
  - rewrite map_map, map_id_in; auto.
Qed.

Lemma erase_build_prog H : forall p, erase_prog (build_prog H p) = p.
Proof.
  induction p as [n t|i t|t c|f l IHf IH|b t IHb] using oprog_ind'; cbn; rewrite ?erase_build_ty; auto.
  - rewrite Forall_forall in IH. rewrite IHf, map_map, map_id_in; auto.
  - rewrite IHb; reflexivity.
Qed.

(** * the pickle of an object does not depend on the writer's hashes *)

Fixpoint pickle_ty (t : oty) : pty :=
  match t with
  | OPrim n => PPrim n
  | OArrow a b => PArrow (pickle_ty a) (pickle_ty b)
  | OGeneric n ts i => PGenericState n (map pickle_ty ts) i
  | OPoly n => PPoly n
  | OFixed n ts => PFixed n (map pickle_ty ts)
  | OSum ts => PSum (map pickle_ty ts)
  | OUnknown => PUnknown
  end.

Fixpoint pickle_prog (p : oprog) : pprog :=
  match p with
  | OPrimitive n t => PPrimitive n (pickle_ty t)
  | OVariable i t => PVariable i (pickle_ty t)
  | OConstant t c => PConstant (pickle_ty t) (cs_value c) (cs_flag c)
  | OFunction f l => PFunction (pickle_prog f) (map pickle_prog l)
  | OLambda b t => PLambda (pickle_prog b) (pickle_ty t)
  end.

Lemma reduce_build_ty H : forall t, reduce_ty all_registered (build_ty H t) = pickle_ty t.
Proof.
  induction t as [n|a b IHa IHb|n l i IH|n|n l IH|l IH|] using oty_ind'; cbn; auto;
    try rewrite Forall_forall in IH.
  - rewrite IHa, IHb; reflexivity.
  - rewrite map_map; f_equal; apply map_eq_in; auto.
  - rewrite map_map; f_equal; apply map_eq_in; auto.
  - rewrite map_map; f_equal; apply map_eq_in; auto.
Qed.

Lemma rebuild_pickle_ty H : forall t, rebuild_ty H (pickle_ty t) = build_ty H t.
Proof.
  induction t as [n|a b IHa IHb|n l i IH|n|n l IH|l IH|] using oty_ind'; cbn; auto;
    try rewrite Forall_forall in IH.
  - rewrite IHa, IHb; reflexivity.
  - rewrite map_map; f_equal; apply map_eq_in; auto.
  - rewrite map_map; f_equal; apply map_eq_in; auto.
  - rewrite map_map; f_equal; apply map_eq_in; auto.
Qed.

Lemma reduce_build_prog H : forall p, reduce_prog all_registered (build_prog H p) = pickle_prog p.
Proof.
  induction p as [n t|i t|t c|f l IHf IH|b t IHb] using oprog_ind'; cbn; rewrite ?reduce_build_ty; auto.
  - rewrite Forall_forall in IH. rewrite IHf, map_map; f_equal; apply map_eq_in; auto.
  - rewrite IHb; reflexivity.
Qed.

Lemma mk_cstate_roundtrip c : mk_cstate (cs_value c) (Some (cs_flag c)) = c.
Proof. destruct c as [|v]; cbn; auto. Qed.

Lemma rebuild_pickle_prog H : forall p, rebuild_prog H (pickle_prog p) = build_prog H p.
Proof.
  induction p as [n t|i t|t c|f l IHf IH|b t IHb] using oprog_ind'; cbn; rewrite ?rebuild_pickle_ty; auto.
  - rewrite mk_cstate_roundtrip; reflexivity.
  - rewrite Forall_forall in IH. rewrite IHf, map_map. f_equal. apply map_eq_in; auto.
  - rewrite IHb; reflexivity.
Qed.

(** * round trip *)

Theorem roundtrip_ty (H H' : hashers) (t : oty) :
  let y := rebuild_ty H' (reduce_ty all_registered (build_ty H t)) in
  erase_ty y = t /\ cached_ok_ty H' y /\ ty_eq (erase_ty y) t = true.
Proof.
  cbn. rewrite reduce_build_ty, rebuild_pickle_ty. unfold cached_ok_ty.
  rewrite erase_build_ty. auto using ty_eq_refl.
Qed.

Theorem roundtrip_prog (H H' : hashers) (p : oprog) :
  let y := rebuild_prog H' (reduce_prog all_registered (build_prog H p)) in
  erase_prog y = p /\ cached_ok_prog H' y /\ prog_eq (erase_prog y) p = true.
Proof.
  cbn. rewrite reduce_build_prog, rebuild_pickle_prog. unfold cached_ok_prog.
  rewrite erase_build_prog. auto using prog_eq_refl.
Qed.

Section DataInd.
  Variable P : odata -> Prop.
  Hypothesis HT : forall t, P (DTy t).
  Hypothesis HP : forall p, P (DProg p).
  Hypothesis HA : forall z, P (DAtom z).
  Hypothesis HL : forall l, Forall P l -> P (DList l).
  Hypothesis HD : forall ks vs, Forall P ks -> Forall P vs -> P (DDict ks vs).
  Fixpoint odata_ind' (d : odata) : P d :=
    let fix go (l : list odata) : Forall P l :=
      match l with
      | [] => Forall_nil _
      | x :: r => Forall_cons _ (odata_ind' x) (go r)
      end in
    match d with
    | DTy t => HT t
    | DProg p => HP p
    | DAtom z => HA z
    | DList l => HL l (go l)
    | DDict ks vs => HD ks vs (go ks) (go vs)
    end.
End DataInd.

Lemma erase_build_data H : forall d, erase_data (build_data H d) = d.
Proof.
  induction d as [t|p|z|l IH|ks vs IHk IHv] using odata_ind'; cbn;
    rewrite ?erase_build_ty, ?erase_build_prog; auto.
  - rewrite Forall_forall in IH. rewrite map_map, map_id_in; auto.
  - rewrite Forall_forall in IHk, IHv. rewrite !map_map, !map_id_in; auto.
Qed.

Lemma roundtrip_data_eq (H H' : hashers) : forall d,
  rebuild_data H' (reduce_data all_registered (build_data H d)) = build_data H' d.
Proof.
  induction d as [t|p|z|l IH|ks vs IHk IHv] using odata_ind'; cbn; auto.
  - rewrite reduce_build_ty, rebuild_pickle_ty; reflexivity.
  - rewrite reduce_build_prog, rebuild_pickle_prog; reflexivity.
  - rewrite Forall_forall in IH. rewrite !map_map. f_equal. apply map_eq_in; auto.
  - rewrite Forall_forall in IHk, IHv. rewrite !map_map. f_equal; apply map_eq_in; auto.
Qed.

Theorem roundtrip_data (H H' : hashers) (d : odata) :
  let y := rebuild_data H' (reduce_data all_registered (build_data H d)) in
  erase_data y = d /\ cached_ok_data H' y.
Proof.
  cbn. rewrite roundtrip_data_eq. unfold cached_ok_data. rewrite erase_build_data. auto.
Qed.

(** * cached hashes are the hashes of the keys of EqHash.v *)

Lemma select_in {X} (m : list bool) : forall (l : list X) x, In x (select m l) -> In x l.
Proof.
  induction m as [|b m IH]; intros l x; [destruct l; cbn; tauto|].
  destruct l as [|y r]; destruct b; cbn; try tauto.
  - intros [<-|Hx]; auto.
  - intros Hx; right; auto.
Qed.

Lemma existsb_map_in {X Y} (g : X -> Y) (p : Y -> bool) (q : X -> bool) l :
  (forall x, In x l -> p (g x) = q x) -> existsb p (map g l) = existsb q l.
Proof. induction l as [|x r IH]; cbn; intros Hx; auto. rewrite Hx, IH; auto. Qed.

Lemma dedup_mask_acc_map {X Y} (g : X -> Y) (R' : Y -> Y -> bool) (R : X -> X -> bool) l : forall seen,
  (forall x y, In x (seen ++ l) -> In y (seen ++ l) -> R' (g x) (g y) = R x y) ->
  dedup_mask_acc R' (map g seen) (map g l) = dedup_mask_acc R seen l.
Proof.
  induction l as [|x r IH]; intros seen Hx; cbn; auto.
  rewrite (existsb_map_in g (fun y => R' y (g x)) (fun y => R y x)).
  - destruct (existsb (fun y => R y x) seen).
    + f_equal. apply IH. intros a b Ha Hb. apply Hx; apply in_app_or in Ha, Hb; apply in_or_app; cbn; tauto.
    + f_equal. replace (map g seen ++ [g x]) with (map g (seen ++ [x])) by (rewrite map_app; reflexivity).
      apply IH. intros a b Ha Hb. apply Hx; rewrite <- app_assoc in Ha, Hb; exact Ha || exact Hb.
  - intros y Hy. apply Hx; apply in_or_app; cbn; auto.
Qed.

Lemma dedup_mask_map {X Y} (g : X -> Y) (R' : Y -> Y -> bool) (R : X -> X -> bool) l :
  (forall x y, In x l -> In y l -> R' (g x) (g y) = R x y) ->
  dedup_mask R' (map g l) = dedup_mask R l.
Proof. intros Hx. exact (dedup_mask_acc_map g R' R l [] Hx). Qed.

Theorem build_ty_hash (H : hashers) : perm_inv H ->
  forall t, th (build_ty H t) = hash_of H (ty_key t).
Proof.
  intros HP.
  induction t as [n|a b IHa IHb|n l i IH|n|n l IH|l IH|] using oty_ind'; cbn; auto;
    try rewrite Forall_forall in IH.
  - rewrite IHa, IHb; reflexivity.
  - rewrite !map_map.
    rewrite (map_eq_in (fun x => th (build_ty H x)) (fun x => hash_of H (ty_key x)) l IH); reflexivity.
  - f_equal. unfold dedup.
    rewrite (dedup_mask_map (build_ty H) h_same ty_eq l).
    + rewrite !select_map, !map_map. apply map_eq_in. intros x Hx. apply select_in in Hx; auto.
    + intros x y Hx Hy. unfold h_same. rewrite !erase_build_ty, (IH x Hx), (IH y Hy).
      destruct (ty_eq x y) eqn:E; [|apply andb_false_r].
      rewrite (ty_eq_hash H HP x y E), Z.eqb_refl; reflexivity.
Qed.

Theorem build_prog_hash (H : hashers) : perm_inv H ->
  forall p, ph (build_prog H p) = hash_of H (prog_key p).
Proof.
  intros HP.
  induction p as [n t|i t|t c|f l IHf IH|b t IHb] using oprog_ind'; cbn; rewrite ?(build_ty_hash H HP); auto.
  - rewrite Forall_forall in IH. rewrite IHf, !map_app, !map_map. cbn.
    rewrite (map_eq_in (fun x => ph (build_prog H x)) (fun x => hash_of H (prog_key x)) l IH); reflexivity.
  - rewrite IHb; reflexivity.
Qed.

(** equal objects carry equal cached hashes, in every process *)
Corollary cached_hash_eq_ty (H : hashers) : perm_inv H ->
  forall a b, ty_eq a b = true -> th (build_ty H a) = th (build_ty H b).
Proof. intros HP a b E. rewrite !(build_ty_hash H HP). apply ty_eq_hash; auto. Qed.

Corollary cached_hash_eq_prog (H : hashers) : perm_inv H ->
  forall a b, prog_eq a b = true -> ph (build_prog H a) = ph (build_prog H b).
Proof. intros HP a b E. rewrite !(build_prog_hash H HP). apply prog_eq_hash; auto. Qed.

(** * dicts keyed by (tuples of) objects *)

Lemma data_eq_hash (H : hashers) : perm_inv H ->
  forall a b, data_eq a b = true -> data_hash H (build_data H a) = data_hash H (build_data H b).
Proof.
  intros HP.
  induction a as [t|p|z|l IH|ks vs IHk IHv] using odata_ind'; intros [u|q|y|l'|ks' vs']; cbn; try discriminate.
  - apply cached_hash_eq_ty; auto.
  - apply cached_hash_eq_prog; auto.
  - rewrite Z.eqb_eq; congruence.
  - rewrite andb_true_iff, Nat.eqb_eq. intros [Hl A]. f_equal. rewrite !map_map.
    rewrite Forall_forall in IH. revert l' Hl A.
    induction l as [|x r IHr]; intros [|y r'] Hl A; cbn in *; auto; try discriminate.
    apply andb_true_iff in A; destruct A as [E A]. f_equal.
    + apply IH; auto.
    + apply IHr; auto.
Qed.

(** looking a freshly built key up in a rebuilt dict finds what a lookup by
    [==] finds in the original *)
Theorem rebuilt_dict_get (H H' : hashers) : perm_inv H' ->
  forall k ks vs,
  hdict_get H' (build_data H' k)
    (map (fun d => rebuild_data H' (reduce_data all_registered (build_data H d))) ks)
    (map (fun d => rebuild_data H' (reduce_data all_registered (build_data H d))) vs)
  = option_map (build_data H') (odict_get k ks vs).
Proof.
  intros HP k ks. induction ks as [|k' kr IH]; intros [|v vr]; cbn; auto.
  rewrite !roundtrip_data_eq, !erase_build_data.
  destruct (data_eq k' k) eqn:E.
  - rewrite (data_eq_hash H' HP k' k E), Z.eqb_refl; reflexivity.
  - rewrite andb_false_r. apply IH.
Qed.

(** * what default pickling would do *)

Definition class_of_ty (t : oty) : tclass :=
  match t with
  | OPrim _ => CPrim | OArrow _ _ => CArrow | OGeneric _ _ _ => CGeneric | OPoly _ => CPoly
  | OFixed _ _ => CFixed | OSum _ => CSum | OUnknown => CUnknown
  end.
Definition class_of_prog (p : oprog) : pclass :=
  match p with
  | OPrimitive _ _ => KPrimitive | OVariable _ _ => KVariable | OConstant _ _ => KConstant
  | OFunction _ _ => KFunction | OLambda _ _ => KLambda
  end.

(** a class without reducer keeps the hash of the writing process *)
Lemma unregistered_ty_stale reg H H' t :
  reg_ty reg (class_of_ty t) = false ->
  th (rebuild_ty H' (reduce_ty reg (build_ty H t))) = th (build_ty H t).
Proof.
  destruct t as [n|a b|n l i|n|n l|l|]; cbn; intros ->; cbn; auto.
Qed.

Lemma unregistered_prog_stale reg H H' p :
  reg_prog reg (class_of_prog p) = false ->
  ph (rebuild_prog H' (reduce_prog reg (build_prog H p))) = ph (build_prog H p).
Proof.
  destruct p as [n t|i t|t c|f l|b t]; cbn; intros ->; cbn; auto.
Qed.

(** ... which is not the hash the reader computes for an equal object: the
    registrations are what makes the round trip theorem true *)
Definition toy2 : hashers :=
  {| h_str := fun s => (toy_str s * 3 + 1)%Z; h_int := fun z => z; h_tup := toy_tup; h_set := toy_set |}.

Example unregistered_arrow_breaks_roundtrip :
  let reg := {| reg_ty := fun c => match c with CArrow => false | _ => true end; reg_prog := fun _ => true |} in
  let x := OArrow T_INT T_BOOL in
  let y := rebuild_ty toy2 (reduce_ty reg (build_ty toy x)) in
  erase_ty y = x /\ th y <> th (build_ty toy2 x) /\ th y = th (build_ty toy x).
Proof. vm_compute. repeat split; congruence. Qed.

(** a round trip on a concrete object with two different hashers *)
Example roundtrip_instance :
  let x := OFunction (OPrimitive 30 (OArrow T_INT (OArrow (OGeneric 9 [T_INT; OSum [T_BOOL; T_INT]] true) T_BOOL)))
                     [OVariable 0 T_INT; OLambda (OConstant T_INT (CSet (CFloat 1))) OUnknown] in
  let y := rebuild_prog toy2 (reduce_prog all_registered (build_prog toy x)) in
  y = build_prog toy2 x /\ ph y <> ph (build_prog toy x).
Proof. vm_compute. split; [reflexivity|congruence]. Qed.
