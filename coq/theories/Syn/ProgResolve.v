(** What [parse_program] makes of a printed program: every primitive is
    replaced by the FIRST primitive of the DSL with the same name. *)
From Coq Require Import NArith List Bool.
From PS Require Import Base.ListX Base.Ty Base.Value Base.Prog Syn.TypeParser Syn.ProgParser.
Import ListNotations.

Definition resolve_sym (d : dsl) (s : sym) : sym :=
  match s with
  | SPrim n t => match find_prim d (unintern n) with
                 | Some (n', t') => SPrim (intern n') t'
                 | None => s
                 end
  | _ => s
  end.

Fixpoint resolve (d : dsl) (p : prog) : prog :=
  match p with
  | PLeaf s => PLeaf (resolve_sym d s)
  | PFun f args => PFun (resolve_sym d f) (map (resolve d) args)
  end.
