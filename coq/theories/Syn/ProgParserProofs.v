(** Proofs about the program printer / parser model: the printed form of a
    well-formed applicative program parses back to the program in which every
    primitive is resolved to the first primitive of that name; with unique
    names, to the program itself. *)
From Coq Require Import ZArith NArith List Bool Arith Lia.
From PS Require Import Base.ListX Base.Sexp Base.Ty Base.Value Base.Prog
  Syn.TypeParser Syn.TypeParserProofs Syn.ProgParser Syn.ProgResolve.
Import ListNotations.

Lemma str_eqb_eq a b : str_eqb a b = true <-> a = b.
Proof. apply (list_eqb_spec N.eqb N.eqb_eq). Qed.

(** ** Decimal numerals *)
Lemma digits_val_snoc s c : s <> [] -> digits_val (s ++ [c]) = digits_step (digits_val s) c.
Proof.
  intros Hs. unfold digits_val. destruct s as [|a s]; [congruence|].
  cbn [app]. change (a :: s ++ [c]) with ((a :: s) ++ [c]). rewrite fold_left_app. reflexivity.
Qed.

Lemma is_digit_of_nat k : k < 10 -> is_digit (N.of_nat (48 + k)) = true.
Proof.
  intros H. do 10 (destruct k as [|k]; [reflexivity|]). lia.
Qed.

Lemma digit_value k : k < 10 -> N.to_nat (N.of_nat (48 + k)) - 48 = k.
Proof. intros H. rewrite Nat2N.id. lia. Qed.

Lemma dec_fuel_spec : forall f n, n < f ->
  dec_fuel f n <> [] /\ digits_val (dec_fuel f n) = Some n /\ forallb is_digit (dec_fuel f n) = true.
Proof.
  induction f as [|f IH]; intros n Hn; [lia|]. cbn [dec_fuel].
  destruct (n <? 10) eqn:E.
  - apply Nat.ltb_lt in E. repeat split; [discriminate| |].
    + unfold digits_val. cbn [fold_left]. unfold digits_step.
      rewrite (is_digit_of_nat n E), (digit_value n E). reflexivity.
    + cbn [forallb]. rewrite (is_digit_of_nat n E). reflexivity.
  - apply Nat.ltb_ge in E.
    assert (Hd : n / 10 < f).
    { assert (n / 10 < n) by (apply Nat.div_lt; lia). lia. }
    destruct (IH (n / 10) Hd) as (I1 & I2 & I3).
    assert (Hm : n mod 10 < 10) by (apply Nat.mod_upper_bound; lia).
    repeat split.
    + intros H. apply app_eq_nil in H. destruct H; discriminate.
    + rewrite digits_val_snoc by auto. rewrite I2. cbn [digits_step].
      rewrite (is_digit_of_nat _ Hm), (digit_value _ Hm). f_equal.
      pose proof (Nat.div_mod n 10 ltac:(lia)). lia.
    + rewrite forallb_app, I3. cbn [forallb]. rewrite (is_digit_of_nat _ Hm). reflexivity.
Qed.

Lemma dec_spec n : dec n <> [] /\ digits_val (dec n) = Some n /\ forallb is_digit (dec n) = true.
Proof. apply dec_fuel_spec. lia. Qed.

(** ** Tokens: no blank, no parenthesis at either end *)
Definition nosp (s : str) : Prop := ~ In c_sp s.
Definition tok_ok (s : str) : Prop :=
  nosp s /\ (exists c r, s = c :: r /\ is_par c = false) /\ (exists c r, rev s = c :: r /\ is_par c = false).

Lemma digit_plain c : is_digit c = true -> is_par c = false /\ c <> c_sp.
Proof. intros H. unfold is_par, c_sp. split; chars. Qed.

Lemma tok_ok_var i : tok_ok (s_var ++ dec i).
Proof.
  destruct (dec_spec i) as (Hne & _ & Hd). rewrite forallb_forall in Hd.
  repeat split.
  - intros H. apply in_app_or in H. destruct H as [H|H].
    + cbn in H. unfold c_sp in H. repeat (destruct H as [H|H]; [discriminate|]). exact H.
    + apply (proj2 (digit_plain _ (Hd _ H))). reflexivity.
  - exists 118%N, ([97; 114]%N ++ dec i). split; reflexivity.
  - destruct (exists_last Hne) as (s & c & E). exists c, (rev s ++ rev s_var). split.
    + rewrite E, rev_app_distr, rev_app_distr. reflexivity.
    + apply (proj1 (digit_plain c (Hd c ltac:(rewrite E; apply in_or_app; right; left; reflexivity)))).
Qed.

(** [split_sp] *)
Lemma split_sp_nosp a : nosp a -> split_sp a = [a].
Proof.
  induction a as [|c a IH]; intros H; [reflexivity|]. cbn [split_sp].
  destruct (N.eqb_spec c c_sp) as [->|Hc]; [exfalso; apply H; left; reflexivity|].
  rewrite IH; [reflexivity|]. intros Hin. apply H. right. exact Hin.
Qed.

Lemma split_sp_app a rest : nosp a -> split_sp (a ++ c_sp :: rest) = a :: split_sp rest.
Proof.
  induction a as [|c a IH]; intros H.
  - cbn. reflexivity.
  - cbn [app split_sp]. destruct (N.eqb_spec c c_sp) as [->|Hc]; [exfalso; apply H; left; reflexivity|].
    rewrite IH; [reflexivity|]. intros Hin. apply H. right. exact Hin.
Qed.

Definition text_tail (tl : option str) : str := match tl with None => [] | Some m => c_sp :: m end.
Definition split_tail (tl : option str) : list str := match tl with None => [] | Some m => split_sp m end.

Lemma split_sp_tail a tl : nosp a -> split_sp (a ++ text_tail tl) = a :: split_tail tl.
Proof.
  intros H. destruct tl as [m|]; cbn [text_tail split_tail].
  - apply split_sp_app, H.
  - rewrite app_nil_r. apply split_sp_nosp, H.
Qed.

(** [strip("()")] and the bookkeeping tests on an element  ( name )))  *)
Definition opens (o : bool) : str := if o then [c_lpar] else [].
Definition closes (m : nat) : str := repeat c_rpar m.

Lemma lstrip_par_closes m s c : is_par c = false -> lstrip_par (closes m ++ c :: s) = c :: s.
Proof. intros H. induction m; cbn; auto. rewrite H. reflexivity. Qed.

Lemma rev_closes m : rev (closes m) = closes m.
Proof. apply rev_repeat'. Qed.

Lemma strip_par_elem o name m : tok_ok name -> strip_par (opens o ++ name ++ closes m) = name.
Proof.
  intros (_ & (c & r & E & Hc) & (c' & r' & E' & Hc')). unfold strip_par.
  assert (L : lstrip_par (opens o ++ name ++ closes m) = name ++ closes m).
  { rewrite E. destruct o; cbn; rewrite Hc; reflexivity. }
  rewrite L, rev_app_distr, rev_closes, E', lstrip_par_closes by auto.
  rewrite <- E', rev_involutive. reflexivity.
Qed.

Lemma leading_rpar_closes m c s : is_par c = false -> leading_rpar (closes m ++ c :: s) = Some m.
Proof.
  intros H. unfold is_par in H. apply orb_false_iff in H. destruct H as [_ H].
  induction m as [|m IH].
  - cbn. rewrite H. reflexivity.
  - unfold closes in *. cbn [repeat app leading_rpar]. rewrite N.eqb_refl, IH. reflexivity.
Qed.

Lemma trailing_elem o name m : tok_ok name -> trailing_rpar (opens o ++ name ++ closes m) = Some m.
Proof.
  intros (_ & _ & (c' & r' & E' & Hc')). unfold trailing_rpar.
  rewrite !rev_app_distr, rev_closes, E', <- app_assoc, <- app_comm_cons.
  apply leading_rpar_closes, Hc'.
Qed.

Lemma nosp_elem o name m : tok_ok name -> nosp (opens o ++ name ++ closes m).
Proof.
  intros (H & _) Hin. apply in_app_or in Hin. destruct Hin as [Hin|Hin].
  - destruct o; cbn in Hin; [destruct Hin as [E|[]]; discriminate|destruct Hin].
  - apply in_app_or in Hin. destruct Hin as [Hin|Hin]; [exact (H Hin)|].
    apply repeat_spec in Hin. discriminate.
Qed.

(** [str.replace(x, x)] is the identity *)
Lemma prefixb_spec p s : prefixb p s = true -> exists r, s = p ++ r.
Proof.
  revert s. induction p as [|a p IH]; intros s H; [exists s; reflexivity|].
  destruct s as [|b s]; [discriminate|]. cbn in H. apply andb_true_iff in H. destruct H as [E H].
  apply N.eqb_eq in E. subst b. destruct (IH s H) as [r ->]. exists r. reflexivity.
Qed.

Lemma replace_go_same old : old <> [] -> forall s k, replace_go old old k s = skipn k s.
Proof.
  intros Hne. induction s as [|c r IH]; intros k; [destruct k; reflexivity|].
  destruct k as [|k]; cbn [replace_go skipn]; [|apply IH].
  destruct (prefixb old (c :: r)) eqn:E.
  - destruct (prefixb_spec _ _ E) as [rest Hr]. destruct old as [|a old']; [congruence|].
    cbn [app] in Hr. inversion Hr; subst. rewrite IH.
    replace (length (a :: old') - 1) with (length old') by (cbn [length]; lia).
    rewrite skipn_app, skipn_all, Nat.sub_diag. reflexivity.
  - rewrite IH. reflexivity.
Qed.

Lemma replace_same old s : old <> [] -> replace old old s = s.
Proof. intros H. unfold replace. rewrite replace_go_same by auto. reflexivity. Qed.

(** ** Programs *)
Section RoundTrip.
  Variable sv : value -> str.
  Variable d : dsl.
  Variable request : ty.
  Variable cs : consts.

  Definition var_type (i : nat) : option ty :=
    if is_arrow request then nth_error (arguments request) i else Some request.

  (** What a leaf must satisfy for its printed form to be read back:
      - a primitive: its name is a token and the DSL has a primitive of that name;
      - a variable: typed by the request, and no primitive is called var<i>;
      - a valued constant: its printed form is a token, is not a primitive name,
        does not start with "var", and the table maps it to this constant. *)
  Definition sym_ok (s : sym) : Prop :=
    match s with
    | SPrim n t => tok_ok (unintern n) /\ intern (unintern n) = n /\ find_prim d (unintern n) <> None
    | SVar i t => find_prim d (s_var ++ dec i) = None /\ var_type i = Some t
    | SConst t (Some v) =>
      tok_ok (sv v) /\ find_prim d (sv v) = None /\ prefixb s_var (sv v) = false /\
      alookup str_eqb (sv v) cs = Some (t, v)
    | SConst _ None => False
    end.

  (** Applicative programs: a head applied to at least one and at most as many
      arguments as the (resolved) head takes. *)
  Inductive wfp : prog -> Prop :=
  | wfp_leaf s : sym_ok s -> wfp (PLeaf s)
  | wfp_fun f args : sym_ok f -> args <> [] ->
                     length args <= length (arguments (sym_type (resolve_sym d f))) ->
                     Forall wfp args -> wfp (PFun f args).

  Fixpoint pre (p : prog) : list sym :=
    match p with PLeaf s => [s] | PFun f args => f :: flat_map pre args end.
  Fixpoint counts (p : prog) : list nat :=
    match p with PLeaf _ => [0] | PFun _ args => length args :: flat_map counts args end.

  (** elements of the printed text: (opening parenthesis?, symbol, closing parentheses) *)
  Definition elem : Type := (bool * sym * nat)%type.
  Definition aargs_with (rec : prog -> nat -> list elem) : list prog -> nat -> list elem :=
    fix go (l : list prog) (m : nat) : list elem :=
      match l with
      | [] => []
      | [a] => rec a (S m)
      | a :: r => rec a 0 ++ go r m
      end.
  Fixpoint aelems (p : prog) (m : nat) : list elem :=
    match p with
    | PLeaf s => [(false, s, m)]
    | PFun f args =>
      match args with
      | [] => [(false, f, m)]
      | _ => (true, f, 0) :: aargs_with aelems args m
      end
    end.
  Definition aargs : list prog -> nat -> list elem := aargs_with aelems.
  Lemma aelems_fun f a r m : aelems (PFun f (a :: r)) m = (true, f, 0) :: aargs (a :: r) m.
  Proof. reflexivity. Qed.
  Lemma aargs_one a m : aargs [a] m = aelems a (S m).
  Proof. reflexivity. Qed.
  Lemma aargs_more a b r m : aargs (a :: b :: r) m = aelems a 0 ++ aargs (b :: r) m.
  Proof. reflexivity. Qed.

  Definition render_elem (e : elem) : str :=
    let '(o, s, m) := e in opens o ++ show_sym sv s ++ closes m.

  Lemma show_sym_tok s : sym_ok s -> tok_ok (show_sym sv s).
  Proof.
    destruct s as [n t|i t|t [v|]]; cbn [sym_ok show_sym].
    - intros (H & _). exact H.
    - intros _. apply tok_ok_var.
    - intros (H & _). exact H.
    - intros [].
  Qed.

  (** *** printing = the elements separated by blanks *)
  Lemma show_prog_fun f a r :
    show_prog sv (PFun f (a :: r)) =
    [c_lpar] ++ show_sym sv f ++ flat_map (fun x => c_sp :: show_prog sv x) (a :: r) ++ [c_rpar].
  Proof. reflexivity. Qed.

  Definition args_text (args : list prog) (m : nat) (tl : option str) : str :=
    flat_map (fun x => c_sp :: show_prog sv x) args ++ closes (S m) ++ text_tail tl.

  Opaque aargs.
  Lemma split_args args m tl :
    Forall (fun p => forall m tl, split_sp (show_prog sv p ++ closes m ++ text_tail tl)
                                  = map render_elem (aelems p m) ++ split_tail tl) args ->
    args <> [] -> forall pre0, nosp pre0 ->
    split_sp (pre0 ++ args_text args m tl) = pre0 :: map render_elem (aargs args m) ++ split_tail tl.
  Proof.
    induction args as [|a r IHr]; intros IH Hne pre0 Hpre; [congruence|].
    inversion IH as [|? ? IHa IH']; subst. unfold args_text. cbn [flat_map]. rewrite <- !app_assoc.
    rewrite <- app_comm_cons, (split_sp_app pre0 _ Hpre). f_equal.
    destruct r as [|b r].
    - rewrite aargs_one. cbn [flat_map app]. apply IHa.
    - specialize (IHr IH' ltac:(discriminate) [] ltac:(intros [])).
      unfold args_text in IHr. cbn [app flat_map] in IHr. rewrite <- !app_assoc in IHr.
      cbn [split_sp] in IHr. rewrite N.eqb_refl in IHr.
      injection IHr as IHr.
      rewrite aargs_more.
      rewrite map_app, <- app_assoc, <- IHr.
      cbn [flat_map]. rewrite <- !app_assoc, <- app_comm_cons.
      apply (IHa 0 (Some (show_prog sv b ++ flat_map (fun x => c_sp :: show_prog sv x) r ++ closes (S m) ++ text_tail tl))).
  Qed.

  Transparent aargs.

  Lemma split_show p : wfp p -> forall m tl,
    split_sp (show_prog sv p ++ closes m ++ text_tail tl) = map render_elem (aelems p m) ++ split_tail tl.
  Proof.
    induction p as [s|f args IH] using prog_ind'; intros Hw m tl; inversion Hw as [? Hs|? ? Hf Hne Hlen Hargs]; subst.
    - cbn [show_prog aelems map render_elem opens app]. rewrite app_assoc.
      apply split_sp_tail. apply (nosp_elem false _ m (show_sym_tok s Hs)).
    - destruct args as [|a r]; [congruence|]. rewrite aelems_fun, show_prog_fun.
      cbn [map render_elem opens]. rewrite <- !app_assoc.
      change (closes 0) with (@nil N). rewrite app_nil_r.
      change (flat_map (fun x => c_sp :: show_prog sv x) (a :: r) ++ [c_rpar] ++ closes m ++ text_tail tl)
        with (args_text (a :: r) m tl).
      rewrite app_assoc. apply split_args.
      + rewrite Forall_forall in *. intros x Hx mm tt. apply (IH x Hx). apply Hargs, Hx.
      + discriminate.
      + pose proof (nosp_elem true _ 0 (show_sym_tok f Hf)) as Hn. cbn [opens closes repeat] in Hn.
        rewrite app_nil_r in Hn. exact Hn.
  Qed.

  (** *** every element is read as the resolved symbol *)
  Lemma prefixb_app p r : prefixb p (p ++ r) = true.
  Proof. induction p as [|a p IH]; cbn; auto. rewrite N.eqb_refl, IH. reflexivity. Qed.

  Lemma parse_elem o s m : sym_ok s ->
    parse_token d request cs (render_elem (o, s, m)) = Some (resolve_sym d s).
  Proof.
    intros Hs. unfold parse_token, render_elem. rewrite (strip_par_elem o _ m (show_sym_tok s Hs)).
    destruct s as [n t|i t|t [v|]]; cbn [sym_ok show_sym resolve_sym] in *.
    - destruct Hs as (_ & _ & Hf). destruct (find_prim d (unintern n)) as [[n' t']|]; [reflexivity|congruence].
    - destruct Hs as (Hf & Hv). rewrite Hf, prefixb_app.
      change (skipn 3 (s_var ++ dec i)) with (dec i). rewrite (proj1 (proj2 (dec_spec i))).
      unfold var_type in Hv. destruct (is_arrow request); [rewrite Hv; reflexivity|].
      inversion Hv; reflexivity.
    - destruct Hs as (_ & Hf & Hp & Hc). rewrite Hf, Hp, Hc. reflexivity.
    - destruct Hs.
  Qed.

  Definition Estmt (p : prog) : Prop :=
    forall m, Forall (fun e : elem => sym_ok (snd (fst e))) (aelems p m) /\
              map (fun e : elem => snd (fst e)) (aelems p m) = pre p.

  Lemma elems_syms_args args : Forall Estmt args -> args <> [] -> forall m,
    Forall (fun e : elem => sym_ok (snd (fst e))) (aargs args m) /\
    map (fun e : elem => snd (fst e)) (aargs args m) = flat_map pre args.
  Proof.
    induction args as [|a r IHr]; intros IH Hne m; [congruence|].
    inversion IH as [|? ? IHa IH']; subst. destruct r as [|b r].
    - rewrite aargs_one. cbn [flat_map]. rewrite app_nil_r. apply IHa.
    - rewrite aargs_more. destruct (IHa 0) as [A1 A2].
      destruct (IHr IH' ltac:(discriminate) m) as [B1 B2].
      split; [apply Forall_app; auto|]. rewrite map_app, A2, B2. reflexivity.
  Qed.

  Lemma elems_syms p : wfp p -> Estmt p.
  Proof.
    induction p as [s|f args IH] using prog_ind'; intros Hw m; inversion Hw as [? Hs|? ? Hf Hne Hlen Hargs]; subst.
    - cbn. split; [repeat constructor; exact Hs|reflexivity].
    - destruct args as [|a r]; [congruence|]. rewrite aelems_fun. cbn [pre map fst snd].
      assert (HE : Forall Estmt (a :: r)).
      { rewrite Forall_forall in *. intros x Hx. apply (IH x Hx), Hargs, Hx. }
      destruct (elems_syms_args (a :: r) HE ltac:(discriminate) m) as [A1 A2].
      split; [constructor; auto|]. rewrite A2. reflexivity.
  Qed.

  Lemma omap_map_ok {X Y Z} (f : Y -> option Z) (g : X -> Y) (h : X -> Z) l :
    Forall (fun x => f (g x) = Some (h x)) l -> omap f (map g l) = Some (map h l).
  Proof. induction 1 as [|x l Hx _ IH]; cbn; auto. rewrite Hx, IH. reflexivity. Qed.

  Lemma parse_elems p m : wfp p ->
    omap (parse_token d request cs) (map render_elem (aelems p m)) = Some (map (resolve_sym d) (pre p)).
  Proof.
    intros Hw. destruct (elems_syms p Hw m) as [H1 H2]. rewrite <- H2, map_map.
    apply omap_map_ok. rewrite Forall_forall in *. intros [[o s] k] He. apply parse_elem. apply (H1 _ He).
  Qed.

  (** *** function_calls bookkeeping *)
  Definition incr_top (levels fc : list nat) : list nat :=
    match levels with top :: _ => incr_nth top fc | [] => fc end.

  Lemma incr_nth_length i l : length (incr_nth i l) = length l.
  Proof. revert i. induction l as [|x l IH]; intros [|i]; cbn; auto. Qed.
  Lemma incr_top_length levels fc : length (incr_top levels fc) = length fc.
  Proof. destruct levels; cbn; auto using incr_nth_length. Qed.
  Lemma incr_nth_app A k B : incr_nth (length A) (A ++ k :: B) = A ++ S k :: B.
  Proof. induction A as [|x A IH]; cbn; auto. rewrite IH. reflexivity. Qed.

  Lemma pop_n_skipn {X} m (l : list X) : m <= length l -> pop_n m l = Some (skipn m l).
  Proof.
    revert l. induction m as [|m IH]; intros l H; [reflexivity|].
    destruct l as [|x l]; [cbn in H; lia|]. cbn in *. apply IH. lia.
  Qed.

  Lemma book_step_elem fc levels (o : bool) s m : sym_ok s -> m <= length (if o then 0 :: levels else levels) ->
    book_step (fc, levels) (render_elem (o, s, m)) =
    Some (incr_top levels fc ++ [0],
          skipn m (if o then length fc :: levels else levels)).
  Proof.
    intros Hs Hm. pose proof (show_sym_tok s Hs) as Ht. unfold book_step, render_elem.
    rewrite (trailing_elem o _ m Ht). fold (incr_top levels fc).
    assert (Hl : length (incr_top levels fc ++ [0]) - 1 = length fc).
    { rewrite app_length, incr_top_length. cbn. lia. }
    destruct Ht as (_ & (c & r & E & Hc) & _).
    destruct o; cbn [opens app].
    - change (c_lpar =? c_lpar)%N with true. cbn match. rewrite Hl.
      rewrite pop_n_skipn by (cbn in *; lia). reflexivity.
    - rewrite E. cbn [app]. unfold is_par in Hc. apply orb_false_iff in Hc. destruct Hc as [-> _].
      rewrite pop_n_skipn by auto. reflexivity.
  Qed.

  Lemma book_app st l1 l2 :
    book st (l1 ++ l2) = match book st l1 with Some st' => book st' l2 | None => None end.
  Proof. revert st. induction l1 as [|e l1 IH]; intros st; cbn; auto. destruct (book_step st e); auto. Qed.

  Definition Bstmt (p : prog) : Prop :=
    forall m fc levels, m <= length levels ->
      book (fc, levels) (map render_elem (aelems p m)) = Some (incr_top levels fc ++ counts p, skipn m levels).

  Lemma book_args args : Forall Bstmt args -> args <> [] ->
    forall A k B m levels, m <= length levels ->
      book (A ++ k :: B, length A :: levels) (map render_elem (aargs args m)) =
      Some (A ++ (k + length args) :: B ++ flat_map counts args, skipn m levels).
  Proof.
    induction args as [|a r IHr]; intros IH Hne A k B m levels Hm; [congruence|].
    inversion IH as [|? ? IHa IH']; subst. destruct r as [|b r].
    - rewrite aargs_one. rewrite (IHa (S m) _ (length A :: levels)) by (cbn; lia).
      cbn [incr_top skipn flat_map length]. rewrite incr_nth_app, app_nil_r, <- app_assoc, Nat.add_1_r. reflexivity.
    - rewrite aargs_more, map_app, book_app. rewrite (IHa 0 _ (length A :: levels)) by (cbn; lia).
      cbn [incr_top skipn]. rewrite incr_nth_app, <- app_assoc. cbn [app].
      rewrite (IHr IH' ltac:(discriminate) A (S k) (B ++ counts a) m levels Hm).
      cbn [flat_map length]. rewrite <- !app_assoc.
      replace (S k + S (length r)) with (k + S (S (length r))) by lia. reflexivity.
  Qed.

  Lemma book_prog p : wfp p -> Bstmt p.
  Proof.
    induction p as [s|f args IH] using prog_ind'; intros Hw m fc levels Hm;
      inversion Hw as [? Hs|? ? Hf Hne Hlen Hargs]; subst.
    - cbn [aelems map book counts]. rewrite (book_step_elem fc levels false s m Hs Hm). reflexivity.
    - destruct args as [|a r]; [congruence|]. rewrite aelems_fun. cbn [map book].
      rewrite (book_step_elem fc levels true f 0 Hf ltac:(cbn; lia)). cbn [skipn].
      rewrite <- (incr_top_length levels fc).
      assert (HB : Forall Bstmt (a :: r)).
      { rewrite Forall_forall in *. intros x Hx. apply (IH x Hx), Hargs, Hx. }
      rewrite (book_args (a :: r) HB ltac:(discriminate) (incr_top levels fc) 0 [] m levels Hm).
      reflexivity.
  Qed.
  (** *** parse_stack rebuilds the (resolved) program *)
  Notation R := (resolve_sym d).

  Lemma pre_ne p : pre p <> [].
  Proof. destruct p; discriminate. Qed.

  Definition Pstmt (p : prog) : Prop :=
    forall rl rfc fuel, length (pre p) + length rl < fuel ->
      exists l' fc', parse_stack fuel (map R (pre p) ++ rl) (counts p ++ rfc) = Ok (resolve d p, (l', fc')) /\
                     (rl <> [] -> l' = rl /\ fc' = rfc).

  Lemma ps_args f args : Forall Pstmt args ->
    forall rl rfc, length (flat_map pre args) + length rl < f ->
      exists l' fc', args_loop (parse_stack f) (length args) (map R (flat_map pre args) ++ rl)
                               (flat_map counts args ++ rfc) = Ok (map (resolve d) args, (l', fc')) /\
                     (rl <> [] -> l' = rl /\ fc' = rfc).
  Proof.
    induction args as [|a r IHr]; intros IH rl rfc Hf.
    - cbn. exists rl, rfc. auto.
    - inversion IH as [|? ? IHa IH']; subst. cbn [flat_map length args_loop map] in *.
      rewrite map_app, <- !app_assoc. rewrite app_length in Hf.
      destruct (IHa (map R (flat_map pre r) ++ rl) (flat_map counts r ++ rfc) f) as (l1 & fc1 & E1 & X1).
      { rewrite app_length, map_length. lia. }
      rewrite E1. destruct r as [|b r].
      + cbn [flat_map map app length args_loop] in *. exists l1, fc1. split; [reflexivity|exact X1].
      + destruct X1 as [-> ->].
        { intros H. apply app_eq_nil in H. destruct H as [H _]. apply map_eq_nil in H.
          cbn [flat_map] in H. apply app_eq_nil in H. destruct H as [H _]. exact (pre_ne b H). }
        destruct (IHr IH' rl rfc ltac:(lia)) as (l2 & fc2 & E2 & X2).
        rewrite E2. exists l2, fc2. split; [reflexivity|exact X2].
  Qed.

  Lemma arguments_arrow t : 1 <= length (arguments t) -> is_arrow t = true.
  Proof. destruct t; cbn; intros; try lia; reflexivity. Qed.

  Lemma ps_prog p : wfp p -> Pstmt p.
  Proof.
    induction p as [s|f args IH] using prog_ind'; intros Hw rl rfc fuel Hfu;
      inversion Hw as [? Hs|? ? Hf Hne Hlen Hargs]; subst.
    - destruct fuel as [|fu]; [lia|]. cbn [pre counts map app resolve].
      destruct rl as [|y rl].
      + cbn. eexists _, _. split; [reflexivity|congruence].
      + cbn [parse_stack]. rewrite andb_false_r. exists (y :: rl), rfc. auto.
    - destruct fuel as [|fu]; [lia|]. cbn [pre counts map resolve length] in *.
      assert (HP : Forall Pstmt args).
      { rewrite Forall_forall in *. intros x Hx. apply (IH x Hx), Hargs, Hx. }
      destruct (ps_args fu args HP rl rfc ltac:(lia)) as (l' & fc' & E & X).
      destruct (map R (flat_map pre args) ++ rl) as [|y l0] eqn:El.
      { exfalso. destruct args as [|a r]; [congruence|]. apply app_eq_nil in El. destruct El as [El _].
        apply map_eq_nil in El. cbn [flat_map] in El. apply app_eq_nil in El. destruct El as [El _].
        exact (pre_ne a El). }
      rewrite <- app_comm_cons, El. cbn [app parse_stack].
      assert (Hn : 1 <= length args) by (destruct args; [congruence|cbn; lia]).
      rewrite (arguments_arrow (sym_type (R f)) ltac:(lia)).
      replace (0 <? length args) with true by (symmetry; apply Nat.ltb_lt; lia). cbn [andb].
      rewrite firstn_length_le by lia. rewrite E. exists l', fc'. split; [reflexivity|exact X].
  Qed.

  (** *** the check at the end of parse_program *)
  Lemma show_sym_resolve s : sym_ok s -> show_sym sv (R s) = show_sym sv s.
  Proof.
    destruct s as [n t|i t|t [v|]]; cbn [sym_ok resolve_sym show_sym]; auto.
    intros (_ & Hi & Hf). destruct (find_prim d (unintern n)) as [[n' t']|] eqn:E; [|congruence].
    cbn [show_sym]. assert (n' = unintern n).
    { clear - E. induction d as [|[n0 t0] r IH]; cbn in E; [discriminate|].
      destruct (str_eqb n0 (unintern n)) eqn:Es; [|auto]. inversion E; subst. apply str_eqb_eq, Es. }
    subst n'. rewrite Hi. reflexivity.
  Qed.

  Lemma flat_map_map_ext {A B C} (f : B -> list C) (g : A -> B) (h : A -> list C) l :
    (forall x, In x l -> f (g x) = h x) -> flat_map f (map g l) = flat_map h l.
  Proof.
    induction l as [|x l IH]; intros H; [reflexivity|]. cbn. rewrite (H x (or_introl eq_refl)), IH; auto.
    intros y Hy. apply H. right. exact Hy.
  Qed.

  Lemma show_resolve p : wfp p -> show_prog sv (resolve d p) = show_prog sv p.
  Proof.
    induction p as [s|f args IH] using prog_ind'; intros Hw; inversion Hw as [? Hs|? ? Hf Hne Hlen Hargs]; subst.
    - cbn. apply show_sym_resolve, Hs.
    - destruct args as [|a r]; [congruence|]. cbn [resolve map]. rewrite !show_prog_fun.
      rewrite (show_sym_resolve f Hf). do 2 f_equal. f_equal.
      change (resolve d a :: map (resolve d) r) with (map (resolve d) (a :: r)).
      apply flat_map_map_ext. rewrite Forall_forall in *.
      intros x Hx. rewrite (IH x Hx (Hargs x Hx)). reflexivity.
  Qed.

  (** the table of constants is keyed by the printed form of its values *)
  Definition consts_canonical : Prop := forall k t v, In (k, (t, v)) cs -> sv v = k.

  Lemma check_repr_canonical : consts_canonical -> forall s, check_repr sv cs s = s.
  Proof.
    unfold consts_canonical. induction cs as [|[k [t v]] r IH]; intros H s; [reflexivity|].
    cbn [check_repr]. rewrite (H k t v (or_introl eq_refl)).
    rewrite !replace_same by discriminate. apply IH. intros; eapply H; right; eauto.
  Qed.
  (** *** main theorem: the printed form parses to the resolved program *)
  Lemma memb_nosp s : nosp s -> memb N.eqb c_sp s = false.
  Proof.
    intros H. destruct (memb N.eqb c_sp s) eqn:E; [|reflexivity].
    apply (memb_spec N.eqb N.eqb_eq) in E. contradiction.
  Qed.

  Theorem parse_show p : wfp p -> consts_canonical ->
    parse_program sv d request cs true (show_prog sv p) = Ok (resolve d p).
  Proof.
    intros Hw Hc. unfold parse_program.
    destruct p as [s|f args]; inversion Hw as [? Hs|? ? Hf Hne Hlen Hargs]; subst.
    - cbn [show_prog resolve]. pose proof (show_sym_tok s Hs) as Ht.
      rewrite (memb_nosp _ (proj1 Ht)).
      pose proof (parse_elem false s 0 Hs) as E. unfold render_elem in E.
      cbn [opens closes repeat app] in E. rewrite app_nil_r in E. rewrite E. reflexivity.
    - destruct args as [|a r]; [congruence|].
      assert (Hsp : memb N.eqb c_sp (show_prog sv (PFun f (a :: r))) = true).
      { apply (memb_spec N.eqb N.eqb_eq). rewrite show_prog_fun. cbn [flat_map].
        apply in_or_app. right. apply in_or_app. right. apply in_or_app. left. left. reflexivity. }
      rewrite Hsp.
      pose proof (split_show _ Hw 0 None) as Esp. cbn [closes repeat text_tail split_tail] in Esp.
      rewrite !app_nil_r in Esp. rewrite Esp.
      rewrite (parse_elems _ 0 Hw).
      rewrite (book_prog _ Hw 0 [] [] ltac:(cbn; lia)). cbn [incr_top app skipn].
      destruct (ps_prog _ Hw [] [] (S (length (map R (pre (PFun f (a :: r))))))) as (l' & fc' & E & _).
      { rewrite map_length. cbn [length]. lia. }
      rewrite !app_nil_r in E. rewrite E.
      rewrite (check_repr_canonical Hc), (show_resolve _ Hw).
      rewrite (proj2 (str_eqb_eq _ _) eq_refl). reflexivity.
  Qed.

  (** *** unique names: the resolved program is the program *)
  Definition names_unique : Prop := NoDup (map fst d).
  Definition prims_in (p : prog) : Prop :=
    forall s, In s (pre p) -> match s with SPrim n t => In (unintern n, t) d | _ => True end.

  Lemma find_prim_unique n t : names_unique -> In (n, t) d -> find_prim d n = Some (n, t).
  Proof.
    unfold names_unique. induction d as [|[n0 t0] r IH]; cbn; intros Hn Hi; [destruct Hi|].
    inversion Hn as [|? ? Hnot Hn']; subst. destruct Hi as [E|Hi].
    - inversion E; subst. rewrite (proj2 (str_eqb_eq n n) eq_refl). reflexivity.
    - destruct (str_eqb n0 n) eqn:Es.
      + apply str_eqb_eq in Es. subst n0. exfalso. apply Hnot.
        apply in_map_iff. exists (n, t). auto.
      + apply IH; auto.
  Qed.

  Lemma resolve_sym_id s : names_unique -> sym_ok s ->
    match s with SPrim n t => In (unintern n, t) d | _ => True end -> R s = s.
  Proof.
    intros Hu Hs Hi. destruct s as [n t|i t|t v]; cbn [resolve_sym]; auto.
    rewrite (find_prim_unique _ _ Hu Hi). destruct Hs as (_ & -> & _). reflexivity.
  Qed.

  Lemma resolve_id p : names_unique -> wfp p -> prims_in p -> resolve d p = p.
  Proof.
    intros Hu. induction p as [s|f args IH] using prog_ind'; intros Hw Hp;
      inversion Hw as [? Hs|? ? Hf Hne Hlen Hargs]; subst.
    - cbn. rewrite (resolve_sym_id s Hu Hs (Hp s (or_introl eq_refl))). reflexivity.
    - cbn [resolve]. rewrite (resolve_sym_id f Hu Hf (Hp f (or_introl eq_refl))). f_equal.
      rewrite <- (map_id args) at 2. apply map_ext_in. intros x Hx.
      rewrite Forall_forall in *. apply (IH x Hx (Hargs x Hx)).
      intros s Hs'. apply Hp. cbn [pre]. right. apply in_flat_map. exists x. auto.
  Qed.

  Theorem parse_show_unique p : names_unique -> wfp p -> prims_in p -> consts_canonical ->
    parse_program sv d request cs true (show_prog sv p) = Ok p.
  Proof. intros Hu Hw Hp Hc. rewrite (parse_show p Hw Hc), (resolve_id p Hu Hw Hp). reflexivity. Qed.
End RoundTrip.

(** ** Deciding [tok_ok] (for the examples) *)
Definition tok_okb (s : str) : bool :=
  negb (memb N.eqb c_sp s) &&
  match s with c :: _ => negb (is_par c) | [] => false end &&
  match rev s with c :: _ => negb (is_par c) | [] => false end.

Lemma tok_okb_ok s : tok_okb s = true -> tok_ok s.
Proof.
  unfold tok_okb. intros H. apply andb_true_iff in H. destruct H as [H H3].
  apply andb_true_iff in H. destruct H as [H1 H2]. repeat split.
  - intros Hin. apply (memb_spec N.eqb N.eqb_eq) in Hin. rewrite Hin in H1. discriminate.
  - destruct s as [|c r]; [discriminate|]. exists c, r. split; auto. apply negb_true_iff, H2.
  - destruct (rev s) as [|c r]; [discriminate|]. exists c, r. split; auto. apply negb_true_iff, H3.
Qed.

(** ** Examples *)
Module Examples.
  Definition n (s : str) : N := intern s.
  Definition INT := TPrim (n [105; 110; 116]%N).
  Definition LI := TGeneric (n [108; 105; 115; 116]%N) [INT].
  Definition LLI := TGeneric (n [108; 105; 115; 116]%N) [LI].
  Definition s_plus : str := [43%N].
  Definition s_len : str := [108; 101; 110]%N.
  Definition s_map : str := [109; 97; 112]%N.
  Definition s_1 : str := [49%N].
  Definition t_plus := TArrow INT (TArrow INT INT).
  Definition t_map := TArrow (TArrow INT INT) (TArrow LI LI).

  (* unique names; request (int -> int) -> int list -> int list *)
  Definition d1 : dsl := [(s_plus, t_plus); (s_map, t_map); (s_1, INT); (s_len, TArrow LI INT)].
  Definition rq1 : ty := TArrow (TArrow INT INT) (TArrow LI LI).
  Definition cs1 : consts := [([53%N], (INT, VInt 5))].
  (* (map (+ 5) var1)   (map var0)   -- partial applications, a function-typed variable, a constant *)
  Definition p1 : prog :=
    PFun (SPrim (n s_map) t_map)
         [PFun (SPrim (n s_plus) t_plus) [PLeaf (SConst INT (Some (VInt 5)))]; PLeaf (SVar 1 LI)].
  Definition p2 : prog := PFun (SPrim (n s_map) t_map) [PLeaf (SVar 0 (TArrow INT INT))].
  Definition p3 : prog := PFun (SVar 0 (TArrow INT INT)) [PFun (SPrim (n s_len) (TArrow LI INT)) [PLeaf (SVar 1 LI)]].

  Ltac ok_sym := cbn [sym_ok]; repeat split; try (apply tok_okb_ok); vm_compute; try reflexivity; try discriminate.

  Example names_unique_d1 : names_unique d1.
  Proof. unfold names_unique. apply (nodupb_spec str_eqb str_eqb_eq). vm_compute. reflexivity. Qed.
  Example consts_canonical_cs1 : consts_canonical py_str_value cs1.
  Proof. intros k t v [E|[]]. inversion E; subst. vm_compute. reflexivity. Qed.
  Example wfp_p1 : wfp py_str_value d1 rq1 cs1 p1.
  Proof.
    constructor; [ok_sym|discriminate|vm_compute; lia|].
    repeat constructor; try ok_sym; try discriminate; try (vm_compute; lia).
  Qed.
  Example wfp_p3 : wfp py_str_value d1 rq1 cs1 p3.
  Proof.
    constructor; [ok_sym|discriminate|vm_compute; lia|].
    repeat constructor; try ok_sym; try discriminate; try (vm_compute; lia).
  Qed.
  Example roundtrip_p1 : parse_program py_str_value d1 rq1 cs1 true (show_prog py_str_value p1) = Ok p1.
  Proof. vm_compute. reflexivity. Qed.
  Example roundtrip_p2 : parse_program py_str_value d1 rq1 cs1 true (show_prog py_str_value p2) = Ok p2.
  Proof. vm_compute. reflexivity. Qed.
  Example roundtrip_p3 : parse_program py_str_value d1 rq1 cs1 true (show_prog py_str_value p3) = Ok p3.
  Proof. vm_compute. reflexivity. Qed.

  (* one name at two types (what instantiate_polymorphic_types produces from len : 'a list -> int) *)
  Definition d2 : dsl := [(s_len, TArrow LI INT); (s_len, TArrow LLI INT)].
  Definition rq2 : ty := TArrow LLI INT.
  Definition q : prog := PFun (SPrim (n s_len) (TArrow LLI INT)) [PLeaf (SVar 0 LLI)].     (* (len var0) *)
  Definition q' : prog := PFun (SPrim (n s_len) (TArrow LI INT)) [PLeaf (SVar 0 LLI)].

  Example wfp_q : wfp py_str_value d2 rq2 [] q.
  Proof.
    constructor; [ok_sym|discriminate|vm_compute; lia|].
    repeat constructor; try ok_sym.
  Qed.
  Example same_name_witness :
    parse_program py_str_value d2 rq2 [] true (show_prog py_str_value q) = Ok q' /\ prog_eqb q' q = false.
  Proof. vm_compute. auto. Qed.
End Examples.

(** The hypothesis [names_unique] cannot be dropped: a well-formed program over a
    DSL with one name at two types, all of whose primitives are in the DSL,
    whose printed form parses to another program. *)
Lemma same_name_refuted :
  exists (d : dsl) (request : ty) (p p' : prog),
    wfp py_str_value d request [] p /\ prims_in d p /\
    parse_program py_str_value d request [] true (show_prog py_str_value p) = Ok p' /\ p' <> p.
Proof.
  exists Examples.d2, Examples.rq2, Examples.q, Examples.q'. split; [exact Examples.wfp_q|]. split.
  - intros s [<-|[<-|[]]]; [right; left; reflexivity|exact I].
  - destruct Examples.same_name_witness as [H1 H2]. split; [exact H1|].
    intros E. rewrite E, prog_eqb_refl in H2. discriminate.
Qed.

(** ** The fuel of parse_program is always sufficient *)
Lemma parse_stack_total : forall f l fc, length l < f ->
  match parse_stack f l fc with
  | OutOfFuel => False
  | Ok (_, (l', _)) => length l' <= length l
  | Err => True
  end.
Proof.
  induction f as [|f IHf]; intros l fc Hl; [lia|]. cbn [parse_stack].
  destruct l as [|x [|y l']]; auto.
  destruct fc as [|k fc']; auto.
  destruct (is_arrow (sym_type x) && (0 <? k)); [|cbn; lia].
  assert (AL : forall n l1 fc1, length l1 < f ->
               match args_loop (parse_stack f) n l1 fc1 with
               | OutOfFuel => False
               | Ok (_, (l2, _)) => length l2 <= length l1
               | Err => True
               end).
  { induction n as [|n IHn]; intros l1 fc1 H1; cbn [args_loop]; [lia|].
    specialize (IHf l1 fc1 H1). destruct (parse_stack f l1 fc1) as [[a [l2 fc2]]| |]; auto.
    specialize (IHn l2 fc2 ltac:(lia)). destruct (args_loop (parse_stack f) n l2 fc2) as [[rest [l3 fc3]]| |]; auto. lia. }
  specialize (AL (length (firstn k (arguments (sym_type x)))) (y :: l') fc' ltac:(cbn in *; lia)).
  destruct (args_loop _ _ _ _) as [[a [l2 fc2]]| |]; auto. cbn in *. lia.
Qed.

Lemma parse_program_total sv d request cs check text :
  parse_program sv d request cs check text <> OutOfFuel.
Proof.
  unfold parse_program. destruct (memb N.eqb c_sp text).
  - destruct (omap _ _) as [parts|]; [|discriminate].
    destruct (book _ _) as [[fc lv]|]; [|discriminate].
    pose proof (parse_stack_total (S (length parts)) parts fc ltac:(lia)) as H.
    destruct (parse_stack _ _ _) as [[sol st]| |]; [|discriminate|destruct H].
    destruct check; [destruct (str_eqb _ _)|]; discriminate.
  - destruct (parse_token _ _ _ _); discriminate.
Qed.

Lemma parse_show_unique_typed sv d request cs p :
  names_unique d -> wfp sv d request cs p -> prims_in d p -> consts_canonical sv cs ->
  exists q, parse_program sv d request cs true (show_prog sv p) = Ok q /\ q = p /\ ptype q = ptype p.
Proof.
  intros Hu Hw Hp Hc. exists p.
  split; [exact (parse_show_unique sv d request cs p Hu Hw Hp Hc)|split; reflexivity].
Qed.
