(** Executable model of the program printer ([Program.__str__] of Primitive,
    Variable, Constant, Function: synth/syntax/program.py) and of
    [DSL.parse_program] (synth/syntax/dsl.py:192-274).

    Text is a list of ASCII code points.  Primitive names are code-point lists;
    the program objects of Base/Prog.v carry them interned ([intern], see
    Syn/TypeParser.v).  The value of a constant is printed by [sv] (Python's
    [format(value)]), an argument of the model: the theorems hold for every
    [sv], the extracted driver uses [py_str_value].

    Outside the modelled domain: non-ASCII text; [int()] on anything but a
    non-empty string of decimal digits (Python also accepts a sign, single
    underscores and surrounding whitespace: the model reports failure). *)
From Coq Require Import ZArith NArith List Bool Arith Lia.
From PS Require Import Base.ListX Base.Sexp Base.Ty Base.Value Base.Prog Syn.TypeParser.
Import ListNotations.

Definition c_sp : N := 32%N.
Definition s_var : str := [118; 97; 114]%N.     (* "var" *)

(** ** Decimal numerals *)
Fixpoint dec_fuel (fuel n : nat) : str :=
  match fuel with
  | O => []
  | S f => if n <? 10 then [N.of_nat (48 + n)]
           else dec_fuel f (n / 10) ++ [N.of_nat (48 + n mod 10)]
  end.
Definition dec (n : nat) : str := dec_fuel (S n) n.

(** [int(s)] for a non-empty all-digit [s]; [None] = ValueError. *)
Definition digits_step (acc : option nat) (c : N) : option nat :=
  match acc with
  | Some a => if is_digit c then Some (a * 10 + (N.to_nat c - 48)) else None
  | None => None
  end.
Definition digits_val (s : str) : option nat :=
  match s with [] => None | _ => fold_left digits_step s (Some 0) end.

(** ** Printing *)
Fixpoint join (sep : str) (l : list str) : str :=
  match l with
  | [] => []
  | [x] => x
  | x :: r => x ++ sep ++ join sep r
  end.

(** Type.__str__ (only reached for a constant without value, printed <type>).
    The infix flag of Generic is not part of Base/Ty.v: postfix form. *)
Fixpoint py_str_ty (t : ty) : str :=
  match t with
  | TPrim n => unintern n
  | TPoly n => unintern n
  | TFixedPoly n _ => unintern n
  | TArrow a b => [40%N] ++ py_str_ty a ++ [32; 45; 62; 32]%N ++ py_str_ty b ++ [41%N]
  | TGeneric n l => join [32%N] (map py_str_ty l) ++ [32%N] ++ unintern n
  | TSum l => [91%N] ++ join [32; 124; 32]%N (map py_str_ty l) ++ [93%N]
  | TUnknown => [85; 110; 107; 110; 111; 119; 110; 84; 121; 112; 101]%N
  end.

Section Parser.
  Variable sv : value -> str.          (* format(value) *)

  Definition show_sym (s : sym) : str :=
    match s with
    | SPrim n _ => unintern n
    | SVar i _ => s_var ++ dec i
    | SConst _ (Some v) => sv v
    | SConst t None => [60%N] ++ py_str_ty t ++ [62%N]
    end.

  Fixpoint show_prog (p : prog) : str :=
    match p with
    | PLeaf s => show_sym s
    | PFun f [] => show_sym f
    | PFun f args =>
      [c_lpar] ++ show_sym f ++ flat_map (fun a => c_sp :: show_prog a) args ++ [c_rpar]
    end.

  (** ** Text utilities *)
  (* str.split(" "): always at least one field *)
  Fixpoint split_sp (s : str) : list str :=
    match s with
    | [] => [[]]
    | c :: r =>
      if (c =? c_sp)%N then [] :: split_sp r
      else match split_sp r with
           | x :: l => (c :: x) :: l
           | [] => [[c]]                                  (* unreachable *)
           end
    end.

  Definition is_par (c : N) : bool := (c =? c_lpar)%N || (c =? c_rpar)%N.
  Fixpoint lstrip_par (s : str) : str :=
    match s with
    | [] => []
    | c :: r => if is_par c then lstrip_par r else s
    end.
  (* str.strip("()") *)
  Definition strip_par (s : str) : str := rev (lstrip_par (rev (lstrip_par s))).

  Fixpoint prefixb (p s : str) : bool :=
    match p, s with
    | [], _ => true
    | a :: p', b :: s' => (a =? b)%N && prefixb p' s'
    | _ :: _, [] => false
    end.

  (* str.replace(old, new) for a non-empty [old]: leftmost, non-overlapping *)
  Fixpoint replace_go (old new : str) (skip : nat) (s : str) : str :=
    match s with
    | [] => []
    | c :: r =>
      match skip with
      | S k => replace_go old new k r
      | O => if prefixb old s then new ++ replace_go old new (length old - 1) r
             else c :: replace_go old new 0 r
      end
    end.
  Definition replace (old new s : str) : str := replace_go old new 0 s.

  (** ** One token: the [else] branch of parse_program *)
  Definition dsl : Type := list (str * ty).                 (* list_primitives, in order *)
  Definition consts : Type := list (str * (ty * value)).    (* dict items, keys distinct *)

  Fixpoint find_prim (d : dsl) (name : str) : option (str * ty) :=
    match d with
    | [] => None
    | (n, t) :: r => if str_eqb n name then Some (n, t) else find_prim r name
    end.

  Definition is_arrow (t : ty) : bool := match t with TArrow _ _ => true | _ => false end.

  Definition parse_token (d : dsl) (request : ty) (cs : consts) (tok : str) : option sym :=
    let p := strip_par tok in
    match find_prim d p with
    | Some (n, t) => Some (SPrim (intern n) t)               (* the FIRST primitive of that name *)
    | None =>
      if prefixb s_var p then
        match digits_val (skipn 3 p) with
        | None => None                                       (* ValueError *)
        | Some i =>
          if is_arrow request then
            match nth_error (arguments request) i with
            | Some t => Some (SVar i t)
            | None => None                                   (* IndexError *)
            end
          else Some (SVar i request)
        end
      else
        match alookup str_eqb p cs with
        | Some (t, v) => Some (SConst t (Some v))            (* Constant(t, val, True) *)
        | None => None                                       (* assert False, "can't parse" *)
        end
    end.

  (** ** function_calls bookkeeping *)
  Fixpoint incr_nth (i : nat) (l : list nat) : list nat :=
    match l, i with
    | [], _ => []
    | x :: r, O => S x :: r
    | x :: r, S j => x :: incr_nth j r
    end.

  (* number of trailing ")" ; None when the element consists of ")" only
     (element[-end] runs off the string: IndexError) *)
  Fixpoint leading_rpar (s : str) : option nat :=
    match s with
    | [] => None
    | c :: r => if (c =? c_rpar)%N then option_map S (leading_rpar r) else Some 0
    end.
  Definition trailing_rpar (s : str) : option nat := leading_rpar (rev s).

  Fixpoint pop_n {X} (n : nat) (l : list X) : option (list X) :=
    match n with
    | O => Some l
    | S k => match l with [] => None | _ :: r => pop_n k r end     (* levels.pop() on [] *)
    end.

  (* levels: top first; level > 0 iff levels is not empty *)
  Definition book_step (st : list nat * list nat) (element : str) : option (list nat * list nat) :=
    let '(fc, levels) := st in
    let fc1 := match levels with top :: _ => incr_nth top fc | [] => fc end in
    let fc2 := fc1 ++ [0] in
    let levels1 := match element with
                   | c :: _ => if (c =? c_lpar)%N then (length fc2 - 1) :: levels else levels
                   | [] => levels
                   end in
    match trailing_rpar element with
    | None => None
    | Some m => match pop_n m levels1 with
                | Some levels2 => Some (fc2, levels2)
                | None => None
                end
    end.

  Fixpoint book (st : list nat * list nat) (elements : list str) : option (list nat * list nat) :=
    match elements with
    | [] => Some st
    | e :: r => match book_step st e with Some st' => book st' r | None => None end
    end.

  (** ** parse_stack: the two lists are consumed from the front and shared by
      the recursive calls (state passing) *)
  Definition pstate : Type := (list sym * list nat)%type.

  (* args = [parse_stack(l, function_calls) for _ in range(n)] *)
  Fixpoint args_loop (rec : list sym -> list nat -> res (prog * pstate)) (n : nat) (l : list sym) (fc : list nat)
    : res (list prog * pstate) :=
    match n with
    | O => Ok ([], (l, fc))
    | S n' =>
      match rec l fc with
      | Ok (a, (l1, fc1)) =>
        match args_loop rec n' l1 fc1 with
        | Ok (rest, st) => Ok (a :: rest, st)
        | Err => Err
        | OutOfFuel => OutOfFuel
        end
      | Err => Err
      | OutOfFuel => OutOfFuel
      end
    end.

  Fixpoint parse_stack (fuel : nat) (l : list sym) (fc : list nat) : res (prog * pstate) :=
    match fuel with
    | O => OutOfFuel
    | S f =>
      match l with
      | [] => Err                                        (* l.pop(0) on an empty list *)
      | [x] => Ok (PLeaf x, (l, fc))                     (* len(l) == 1: returned, NOT removed *)
      | current :: l' =>
        match fc with
        | [] => Err
        | k :: fc' =>
          if is_arrow (sym_type current) && (0 <? k) then
            match args_loop (parse_stack f) (length (firstn k (arguments (sym_type current)))) l' fc' with
            | Ok (a, st) => Ok (PFun current a, st)
            | Err => Err
            | OutOfFuel => OutOfFuel
            end
          else Ok (PLeaf current, (l', fc'))
        end
      end
    end.

  (** ** parse_program *)
  Fixpoint check_repr (cs : consts) (s : str) : str :=
    match cs with
    | [] => s
    | (ori, (_, v)) :: r =>
      let rep := sv v in
      let s1 := replace ([c_sp] ++ rep ++ [c_sp]) ([c_sp] ++ ori ++ [c_sp]) s in
      let s2 := replace ([c_sp] ++ rep ++ [c_rpar]) ([c_sp] ++ ori ++ [c_rpar]) s1 in
      check_repr r s2
    end.

  Definition parse_program (d : dsl) (request : ty) (cs : consts) (check : bool) (text : str) : res prog :=
    if memb N.eqb c_sp text then
      let elements := split_sp text in
      match omap (parse_token d request cs) elements with
      | None => Err
      | Some parts =>
        match book ([], []) elements with
        | None => Err
        | Some (fc, _) =>
          match parse_stack (S (length parts)) parts fc with
          | Ok (sol, _) =>
            if check then
              if str_eqb (check_repr cs (show_prog sol)) text then Ok sol else Err   (* assert str_repr == program *)
            else Ok sol
          | Err => Err
          | OutOfFuel => OutOfFuel
          end
        end
      end
    else
      match parse_token d request cs text with
      | Some s => Ok (PLeaf s)
      | None => Err
      end.
End Parser.

(** format(value) for the values the harness uses. *)
Definition dec_Z (z : Z) : str :=
  match z with
  | Z0 => [48%N]
  | Zpos p => dec (Pos.to_nat p)
  | Zneg p => 45%N :: dec (Pos.to_nat p)
  end.
Fixpoint py_str_value (v : value) : str :=
  match v with
  | VInt z => dec_Z z
  | VBool true => [84; 114; 117; 101]%N
  | VBool false => [70; 97; 108; 115; 101]%N
  | VNone => [78; 111; 110; 101]%N
  | VList l => [91%N] ++ join [44; 32]%N (map py_str_value l) ++ [93%N]
  | VClos _ _ => [60; 102; 62]%N
  end.
